//go:build verif

package conv

// Contracts checked by /verif/gvc (comment-only; see /verif/DESIGN.md).

//@ entry ValOf
//@   props C12 C15

//@ entry TypeOf
//@   props C12 C15

//@ entry valOfRV
//@   props C12 C15

//@ entry typeOfRV
//@   props C12 C15

// The two environment builders walk the host value with package reflect
// outside any recover scope (reflectMap, MapKeys, MapIndex).  Their totality
// depends on the behaviour of reflect and is decided only by the bounded
// stand-ins of C12 / C15; here it is an assumption.

//@ entry TypeEnvOf
//@   props C12
//@   trusted
//@   note reflect-based traversal outside a recover scope; totality checked only by the bounded stand-ins of C12 and C15

//@ entry ValEnvOf
//@   props C12
//@   trusted
//@   note reflect-based traversal outside a recover scope; totality checked only by the bounded stand-ins of C12 and C15

// the reflect-based environment builders are outside the verified subset;
// callers under contract see them as functions without heap effect
//@ func ValEnvOf
//@   props C07
//@   trusted
//@   modifies
//@ func TypeEnvOf
//@   props C07
//@   trusted
//@   modifies
