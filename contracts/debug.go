//go:build verif

package debug

// Contracts checked by /verif/gvc (comment-only; see /verif/DESIGN.md).

//@ entry (*Record).Render
//@   props C12 C19
//@   trusted
//@   note the renderer's slice arithmetic is not under contract; its totality is checked only by the bounded stand-in of C19

// Rec appends exactly one entry for v whose column is the first free column
// at or after col; entries already recorded are untouched (C19: every recorded
// value is shown, each under a column of its own).
//@ func (*Record).Rec
//@   props C19
//@   requires r != nil
//@   modifies r.vs, r.vs[*]
//@   loop 1 invariant forall(j, 0, rangeindex+1, r.vs[j].col != col)
//@   loop 1 invariant same(r.vs, old(r.vs)) && forall(j, 0, len(r.vs), r.vs[j].v == old(r.vs[j].v) && r.vs[j].col == old(r.vs[j].col))
//@   ensures #one len(r.vs) == old(len(r.vs)) + 1
//@   ensures #value r.vs[old(len(r.vs))].v == v && r.vs[old(len(r.vs))].col >= col
//@   ensures #distinct forall(j, 0, old(len(r.vs)), r.vs[j].col != r.vs[old(len(r.vs))].col)
//@   ensures #own-column forall(j, 0, old(len(r.vs)), old(r.vs[j].col) != col) ==> r.vs[old(len(r.vs))].col == col
//@   ensures #prefix forall(j, 0, old(len(r.vs)), r.vs[j].v == old(r.vs[j].v) && r.vs[j].col == old(r.vs[j].col))
