//go:build verif

package debug

// Contracts checked by /verif/gvc (comment-only; see /verif/DESIGN.md).

//@ entry (*Record).Render
//@   props C12 C19
//@   trusted
//@   note the renderer's slice arithmetic is not under contract; its totality is checked only by the bounded stand-in of C19
