//go:build verif

package types

// Contracts checked by /verif/gvc (comment-only; see /verif/DESIGN.md).

//@ func init
//@   props C01 C16 C17
//@   ensures #num Num != nil && Num.Kind == KNum
//@   ensures #str Str != nil && Str.Kind == KStr
//@   ensures #bool Bool != nil && Bool.Kind == KBool
//@   ensures #time Time != nil && Time.Kind == KTime
//@   ensures #top Top != nil && Top.Kind == KTop
//@   ensures #bot Bottom != nil && Bottom.Kind == KBot
