//go:build verif

package types

// Contracts checked by /verif/gvc (comment-only; see /verif/DESIGN.md).

//@ func init
//@   props C01 C16 C17
//@   ensures #num Num != nil && Num.Kind == KNum
//@   ensures #str Str != nil && Str.Kind == KStr
//@   ensures #bool Bool != nil && Bool.Kind == KBool
//@   ensures #time Time != nil && Time.Kind == KTime
//@   ensures #top Top != nil && Top.Kind == KTop
//@   ensures #bot Bottom != nil && Bottom.Kind == KBot
//@   ensures #distinct Num != Str && Num != Bool && Num != Time && Str != Bool && Str != Time && Bool != Time

//@ func Equals
//@   props C17 C01 C05 C07 C16
//@   modifies allmaps(util.PtrPtrSet), allmaps(util.PtrSet)
//@   requires wfT(x) && wfT(y)
//@   nopanic
//@   ensures #spec result == tyEq(x, y)

//@ func equals
//@   props C17 C01 C05 C07 C16
//@   requires inProcess != nil && wfT(x) && wfT(y)
//@   requires #memo forall(p, forall(q, inPP(inProcess, p, q) ==> tyEq(p, q) || older(x, p)))
//@   unfold tyEq(x, y)
//@   unfold wfT(x)
//@   unfold wfT(y)
//@   nopanic
//@   modifies inProcess[*], allmaps(inProcess[0])
//@   ensures #spec result == tyEq(x, y)
//@   ensures #memo result ==> forall(p, forall(q, inPP(inProcess, p, q) ==> old(inPP(inProcess, p, q)) || tyEq(p, q)))
//@   ensures #mono forall(p, forall(q, old(inPP(inProcess, p, q)) ==> inPP(inProcess, p, q)))

//@ func equalsTuple
//@   props C17 C01 C05 C07 C16
//@   requires inProcess != nil && x != nil && y != nil && dynis(x, TupleTy) && dynis(y, TupleTy)
//@   requires wfSeq(x.Val, x.Ty()) && wfSeq(y.Val, y.Ty())
//@   requires #memo forall(p, forall(q, inPP(inProcess, p, q) ==> tyEq(p, q) || notyounger(x.Ty(), p)))
//@   nopanic
//@   modifies inProcess[*], allmaps(inProcess[0])
//@   loop 1 invariant forall(k, 0, rangeindex+1, tyEq(x.Val[k], y.Val[k])) && len(x.Val) == len(y.Val) && xt == x && yt == y
//@   loop 1 invariant forall(p, forall(q, inPP(inProcess, p, q) ==> old(inPP(inProcess, p, q)) || tyEq(p, q)))
//@   loop 1 invariant forall(p, forall(q, old(inPP(inProcess, p, q)) ==> inPP(inProcess, p, q)))
//@   ensures #spec result == tyEqSeq(x.Val, y.Val)
//@   ensures #memo result ==> forall(p, forall(q, inPP(inProcess, p, q) ==> old(inPP(inProcess, p, q)) || tyEq(p, q)))
//@   ensures #mono forall(p, forall(q, old(inPP(inProcess, p, q)) ==> inPP(inProcess, p, q)))

//@ func equalsFun
//@   props C17 C01 C05 C07 C16
//@   requires inProcess != nil && x != nil && y != nil && dynis(x, FunTy) && dynis(y, FunTy)
//@   requires wfSeq(x.Param, x.Ty()) && wfSeq(y.Param, y.Ty()) && wfT(x.Return) && wfT(y.Return) && older(x.Return, x.Ty())
//@   requires #memo forall(p, forall(q, inPP(inProcess, p, q) ==> tyEq(p, q) || notyounger(x.Ty(), p)))
//@   nopanic
//@   modifies inProcess[*], allmaps(inProcess[0])
//@   loop 1 invariant forall(k, 0, rangeindex+1, tyEq(x.Param[k], y.Param[k])) && len(x.Param) == len(y.Param)
//@   loop 1 invariant forall(p, forall(q, inPP(inProcess, p, q) ==> old(inPP(inProcess, p, q)) || tyEq(p, q)))
//@   loop 1 invariant forall(p, forall(q, old(inPP(inProcess, p, q)) ==> inPP(inProcess, p, q)))
//@   ensures #spec result == (tyEqSeq(x.Param, y.Param) && tyEq(x.Return, y.Return))
//@   ensures #memo result ==> forall(p, forall(q, inPP(inProcess, p, q) ==> old(inPP(inProcess, p, q)) || tyEq(p, q)))
//@   ensures #mono forall(p, forall(q, old(inPP(inProcess, p, q)) ==> inPP(inProcess, p, q)))

//@ func equalsObj
//@   props C17 C01 C05 C07 C16
//@   requires inProcess != nil && x != nil && y != nil && dynis(x, ObjTy) && dynis(y, ObjTy)
//@   requires wfObj(x) && wfObj(y)
//@   requires forall(i, 0, len(x.Fields), wfT(x.Fields[i].Val) && older(x.Fields[i].Val, x.Ty()))
//@   requires forall(i, 0, len(y.Fields), wfT(y.Fields[i].Val))
//@   requires #memo forall(p, forall(q, inPP(inProcess, p, q) ==> tyEq(p, q) || notyounger(x.Ty(), p)))
//@   nopanic
//@   modifies inProcess[*], allmaps(inProcess[0])
//@   loop 1 invariant len(x.Fields) == len(y.Fields)
//@   loop 1 invariant forall(k, 0, rangeindex+1, exists(j, 0, len(y.Fields), y.Fields[j].Name == x.Fields[k].Name && tyEq(x.Fields[k].Val, y.Fields[j].Val)))
//@   loop 1 invariant forall(p, forall(q, inPP(inProcess, p, q) ==> old(inPP(inProcess, p, q)) || tyEq(p, q)))
//@   loop 1 invariant forall(p, forall(q, old(inPP(inProcess, p, q)) ==> inPP(inProcess, p, q)))
//@   ensures #spec result == tyEqObj(x, y)
//@   ensures #memo result ==> forall(p, forall(q, inPP(inProcess, p, q) ==> old(inPP(inProcess, p, q)) || tyEq(p, q)))
//@   ensures #mono forall(p, forall(q, old(inPP(inProcess, p, q)) ==> inPP(inProcess, p, q)))

//@ entry Infer
//@   props C12
