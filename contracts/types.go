//go:build verif

package types

// Contracts checked by /verif/gvc (comment-only; see /verif/DESIGN.md).

//@ func init
//@   props C01 C16 C17
//@   ensures #num Num != nil && Num.Kind == KNum
//@   ensures #str Str != nil && Str.Kind == KStr
//@   ensures #bool Bool != nil && Bool.Kind == KBool
//@   ensures #time Time != nil && Time.Kind == KTime
//@   ensures #top Top != nil && Top.Kind == KTop
//@   ensures #bot Bottom != nil && Bottom.Kind == KBot
//@   ensures #distinct Num != Str && Num != Bool && Num != Time && Str != Bool && Str != Time && Bool != Time

//@ func Equals
//@   props C17 C01 C05 C07 C16
//@   modifies
//@   requires wfT(x) && wfT(y)
//@   nopanic
//@   ensures #spec result == tyEq(x, y)

//@ func equals
//@   props C17 C01 C05 C07 C16
//@   requires inProcess != nil && wfT(x) && wfT(y)
//@   requires #memo forall(p, forall(q, inPP(inProcess, p, q) ==> tyEq(p, q) || older(x, p)))
//@   unfold tyEq(x, y)
//@   unfold wfT(x)
//@   unfold wfT(y)
//@   nopanic
//@   modifies inProcess[*]
//@   ensures #spec result == tyEq(x, y)
//@   ensures #memo result ==> forall(p, forall(q, inPP(inProcess, p, q) ==> old(inPP(inProcess, p, q)) || tyEq(p, q)))
//@   ensures #mono forall(p, forall(q, old(inPP(inProcess, p, q)) ==> inPP(inProcess, p, q)))

//@ func equalsTuple
//@   props C17 C01 C05 C07 C16
//@   requires inProcess != nil && x != nil && y != nil && dynis(x, TupleTy) && dynis(y, TupleTy)
//@   requires wfSeq(x.Val, x.Ty()) && wfSeq(y.Val, y.Ty())
//@   requires #memo forall(p, forall(q, inPP(inProcess, p, q) ==> tyEq(p, q) || notyounger(x.Ty(), p)))
//@   nopanic
//@   modifies inProcess[*]
//@   loop 1 invariant forall(k, 0, rangeindex+1, tyEq(x.Val[k], y.Val[k])) && len(x.Val) == len(y.Val) && xt == x && yt == y
//@   loop 1 invariant forall(p, forall(q, inPP(inProcess, p, q) ==> old(inPP(inProcess, p, q)) || tyEq(p, q)))
//@   loop 1 invariant forall(p, forall(q, old(inPP(inProcess, p, q)) ==> inPP(inProcess, p, q)))
//@   ensures #spec result == tyEqSeq(x.Val, y.Val)
//@   ensures #memo result ==> forall(p, forall(q, inPP(inProcess, p, q) ==> old(inPP(inProcess, p, q)) || tyEq(p, q)))
//@   ensures #mono forall(p, forall(q, old(inPP(inProcess, p, q)) ==> inPP(inProcess, p, q)))

//@ func equalsFun
//@   props C17 C01 C05 C07 C16
//@   requires inProcess != nil && x != nil && y != nil && dynis(x, FunTy) && dynis(y, FunTy)
//@   requires wfSeq(x.Param, x.Ty()) && wfSeq(y.Param, y.Ty()) && wfT(x.Return) && wfT(y.Return) && older(x.Return, x.Ty())
//@   requires #memo forall(p, forall(q, inPP(inProcess, p, q) ==> tyEq(p, q) || notyounger(x.Ty(), p)))
//@   nopanic
//@   modifies inProcess[*]
//@   loop 1 invariant forall(k, 0, rangeindex+1, tyEq(x.Param[k], y.Param[k])) && len(x.Param) == len(y.Param)
//@   loop 1 invariant forall(p, forall(q, inPP(inProcess, p, q) ==> old(inPP(inProcess, p, q)) || tyEq(p, q)))
//@   loop 1 invariant forall(p, forall(q, old(inPP(inProcess, p, q)) ==> inPP(inProcess, p, q)))
//@   ensures #spec result == (tyEqSeq(x.Param, y.Param) && tyEq(x.Return, y.Return))
//@   ensures #memo result ==> forall(p, forall(q, inPP(inProcess, p, q) ==> old(inPP(inProcess, p, q)) || tyEq(p, q)))
//@   ensures #mono forall(p, forall(q, old(inPP(inProcess, p, q)) ==> inPP(inProcess, p, q)))

//@ func equalsObj
//@   props C17 C01 C05 C07 C16
//@   requires inProcess != nil && x != nil && y != nil && dynis(x, ObjTy) && dynis(y, ObjTy)
//@   requires wfObj(x) && wfObj(y)
//@   requires forall(i, 0, len(x.Fields), wfT(x.Fields[i].Val) && older(x.Fields[i].Val, x.Ty()))
//@   requires forall(i, 0, len(y.Fields), wfT(y.Fields[i].Val))
//@   requires #memo forall(p, forall(q, inPP(inProcess, p, q) ==> tyEq(p, q) || notyounger(x.Ty(), p)))
//@   nopanic
//@   modifies inProcess[*]
//@   loop 1 invariant len(x.Fields) == len(y.Fields)
//@   loop 1 invariant forall(k, 0, rangeindex+1, exists(j, 0, len(y.Fields), y.Fields[j].Name == x.Fields[k].Name && tyEq(x.Fields[k].Val, y.Fields[j].Val)))
//@   loop 1 invariant forall(p, forall(q, inPP(inProcess, p, q) ==> old(inPP(inProcess, p, q)) || tyEq(p, q)))
//@   loop 1 invariant forall(p, forall(q, old(inPP(inProcess, p, q)) ==> inPP(inProcess, p, q)))
//@   ensures #spec result == tyEqObj(x, y)
//@   ensures #memo result ==> forall(p, forall(q, inPP(inProcess, p, q) ==> old(inPP(inProcess, p, q)) || tyEq(p, q)))
//@   ensures #mono forall(p, forall(q, old(inPP(inProcess, p, q)) ==> inPP(inProcess, p, q)))

//@ entry Infer
//@   props C12

// ---- unification (C17, C05, C16) ------------------------------------------

//@ func freeFrom
//@   props C17 C05
//@   requires s != nil && wfT(ty)
//@   unfold wfT(ty)
//@   unfold occurs(s.Name, ty)
//@   modifies
//@   loop 1 invariant forall(j, 0, rangeindex+1, !occurs(s.Name, ty.Obj().Fields[j].Val))
//@   loop 2 invariant forall(j, 0, rangeindex+1, !occurs(s.Name, ty.Fun().Param[j]))
//@   ensures #occurs result == !occurs(s.Name, ty)

//@ func Obj
//@   props C17 C05 C01
//@   fails_iff exists(i, 0, len(fields), exists(j, 0, i, fields[j].Name == fields[i].Name))
//@   modifies
//@   loop 1 invariant t.Index != nil && isfresh(t.Index) && same(t.Fields, fields) && t.Kind == KObj && rangeindex+1 <= len(fields)
//@   loop 1 invariant forall(k, 0, rangeindex+1, mapHas(t.Index, fields[k].Name) && mapGet(t.Index, fields[k].Name) == k)
//@   loop 1 invariant forallstr(s, mapHas(t.Index, s) ==> 0 <= mapGet(t.Index, s) && mapGet(t.Index, s) <= rangeindex && fields[mapGet(t.Index, s)].Name == s)
//@   ensures #node result != nil && isfresh(result) && dynis(result, ObjTy) && result.Kind == KObj && same(result.Obj().Fields, fields)
//@   ensures #index wfObj(result.Obj())

// (a composite type is always rebuilt, never returned as is: unify's guard
// against recursive types identifies nodes by address, so instantiation must
// not hand it the shared parameter node of an overload twice)
//@ func applySubst
//@   props C17 C05
//@   requires wfT(ty) && wfSubst(m)
//@   unfold wfT(ty)
//@   modifies
//@   loop 1 invariant len(ks) == len(ty.Tuple().Val) && isfresh(ks) && forall(j, 0, rangeindex+1, wfT(ks[j]) && allocated(ks[j]))
//@   loop 2 invariant len(fs) == len(ty.Obj().Fields) && isfresh(fs) && forall(j, 0, rangeindex+1, wfT(fs[j].Val) && allocated(fs[j].Val) && fs[j].Name == ty.Obj().Fields[j].Name)
//@   loop 3 invariant len(params) == len(ty.Fun().Param) && isfresh(params) && forall(j, 0, rangeindex+1, wfT(params[j]) && allocated(params[j]))
//@   unfold @return wfT(result)
//@   ensures #wf wfT(result) && result != nil
//@   ensures #rebuilt ty.Kind > kCompositeBegin ==> isfresh(result)

// unify: local soundness of every binding it makes.  Where the substitution
// map is written, the bound type does not contain the variable (occurs
// check on the substituted type), and a variable that is already bound is
// only ever re-bound to an equal type (never to two different types); the
// substitution stays a map to well-formed types and a successful result is
// a well-formed type.  The global laws (the substitution unifies, matching is
// complete) are covered only by the bounded stand-in.
//@ func unify
//@   props C17 C05 C16
//@   requires wfT(x) && wfT(y) && wfSubst(m) && inProcess != nil
//@   unfold wfT(x)
//@   unfold wfT(y)
//@   modifies m[*], inProcess[*]
//@   at mapupdate m: assert #occurs-check !occurs(key, value)
//@   at mapupdate m: assert #single-binding mapHas(m, key) ==> tyEq(mapGet(m, key), value)
//@   at mapupdate m: assert #wf wfT(value)
//@   ensures #subst wfSubst(m)
//@   ensures #result result != nil ==> wfT(result)

//@ func unifyComposite
//@   props C17 C05 C16
//@   requires wfT(x) && wfT(y) && wfSubst(m) && inProcess != nil && x.Kind == y.Kind && x.Kind > kCompositeBegin
//@   unfold wfT(x)
//@   unfold wfT(y)
//@   modifies m[*], inProcess[*]
//@   loop 1 invariant wfSubst(m) && len(ks) == len(x.Tuple().Val) && len(x.Tuple().Val) == len(y.Tuple().Val) && isfresh(ks) && forall(j, 0, rangeindex+1, wfT(ks[j]) && allocated(ks[j]))
//@   loop 2 invariant wfSubst(m) && len(fs) == len(x.Obj().Fields) && isfresh(fs) && forall(j, 0, rangeindex+1, wfT(fs[j].Val) && allocated(fs[j].Val) && fs[j].Name == x.Obj().Fields[j].Name)
//@   loop 3 invariant wfSubst(m) && len(params) == len(x.Fun().Param) && len(x.Fun().Param) == len(y.Fun().Param) && isfresh(params) && forall(j, 0, rangeindex+1, wfT(params[j]) && allocated(params[j]))
//@   unfold @return wfT(result)
//@   ensures #subst wfSubst(m)
//@   ensures #result result != nil ==> wfT(result)

// slotFree decides whether an instantiated signature is fully concrete (C05)
//@ func slotFree
//@   props C05 C17
//@   requires wfT(ty)
//@   unfold wfT(ty)
//@   unfold ground(ty)
//@   modifies
//@   loop 1 invariant forall(j, 0, rangeindex+1, ground(ty.Tuple().Val[j]))
//@   loop 2 invariant forall(j, 0, rangeindex+1, ground(ty.Obj().Fields[j].Val))
//@   loop 3 invariant forall(j, 0, rangeindex+1, ground(ty.Fun().Param[j]))
//@   ensures #ground result == ground(ty)

// ---- type constructors (C05, C17): what they build --------------------------
//@ func List
//@   props C05 C17 C01
//@   nopanic
//@   fresh
//@   modifies
//@   unfold @return wfT(result)
//@   ensures #node result.Kind == KList && dynis(result, ListTy) && result.List().El == el
//@   ensures #wf wfT(el) ==> wfT(result)

//@ func Map
//@   props C05 C17 C01
//@   requires k != nil
//@   fails_iff !(k.Kind == KNum || k.Kind == KStr || k.Kind == KBool || k.Kind == KTime || k.Kind == KTyVar || k.Kind == KBot)
//@   fresh
//@   modifies
//@   unfold @return wfT(result)
//@   ensures #node result.Kind == KMap && dynis(result, MapTy) && result.Map().Key == k && result.Map().Val == v
//@   ensures #wf wfT(k) && wfT(v) ==> wfT(result)

// ---- the typing rules (C05) -------------------------------------------------
// typeAssert returns only for equal types; arityAssert only for equal counts.
//@ func typeAssert
//@   props C05 C16
//@   requires wfT(expect) && wfT(actual)
//@   fails_iff !tyEq(expect, actual)
//@   modifies

//@ func arityAssert
//@   props C05
//@   fails_iff expect != actual
//@   modifies

// ASSUMED (environment invariant): the types bound in a typing environment
// are well-formed type trees (they are built by the constructors above / by
// conv.TypeOf); the lookup itself writes nothing.
//@ func (*Env).Get
//@   props C05 C07
//@   trusted
//@   requires e != nil
//@   modifies
//@   ensures result1 ==> wfT(result0)

// Overload resolution (C05): "an exactly matching monomorphic overload first,
// otherwise the first registered polymorphic overload whose parameters can be
// instantiated".  Proved as the sequence of lookups and instantiation attempts
// the function makes: the monomorphic key is looked up first and, when present,
// decides; otherwise the polymorphic candidates are tried in registration
// order and the first one inferFun can instantiate is returned, with its
// position attached to the call node.  inferFun itself (unification of the
// candidate against the argument types) is ASSUMED here; its building blocks
// are under contract above.
// ASSUMED (environment invariant): function types registered in a typing
// environment are well-formed; the lookups write nothing.
//@ func (*Env).GetMonoFun
//@   props C05
//@   trusted
//@   requires e != nil
//@   modifies
//@   ensures result1 ==> result0 != nil && result0.Kind == KFun && dynis(result0, FunTy) && wfT(result0.Return) && forall(i, 0, len(result0.Param), wfT(result0.Param[i]))

//@ func (*Env).GetPolyFuns
//@   props C05
//@   trusted
//@   requires e != nil
//@   modifies
//@   ensures result1 ==> forall(i, 0, len(result0), result0[i] != nil && result0[i].Kind == KFun && dynis(result0[i], FunTy) && wfT(result0[i].Return) && allocated(result0[i].Return) && forall(k, 0, len(result0[i].Param), wfT(result0[i].Param[k]) && allocated(result0[i].Param[k])))

//@ func Fun
//@   props C05 C17
//@   nopanic
//@   fresh
//@   modifies
//@   unfold @return wfT(result)
//@   ensures #node result.Kind == KFun && dynis(result, FunTy) && result.Fun().Name == name && same(result.Fun().Param, param) && result.Fun().Return == ret
//@   ensures #wf old(forall(i, 0, len(param), wfT(param[i]) && allocated(param[i])) && wfT(ret) && allocated(ret)) ==> wfT(result)

// which table an overload lives in: monomorphic iff its type has no type variable
//@ func (*FunTy).OverLoaded
//@   props C05
//@   requires f != nil && wfT(f.Ty())
//@   modifies
//@   ensures #kind result1 == ite(ground(f.Ty()), MonoFun, PolyFun)

//@ func resolveOverloadedFun
//@   props C05 C01 C03
//@   requires env != nil && call != nil && forall(i, 0, len(args), wfT(args[i]) && allocated(args[i]))
//@   uses dyncalls-pure dyncalls-nopanic
//@   modifies call.Resolved, call.Index
//@   records Fun (*FunTy).OverLoaded (*Env).GetMonoFun (*Env).GetPolyFuns inferFun
//@   uses types.init
//@   unfold wfT(Bottom)
//@   at call dyn: assume wfT(callret(old(ncalls()))) && allocated(callret(old(ncalls())))
//@   loop 1 invariant #wf forall(i, 0, len(fnTys), fnTys[i] != nil && fnTys[i].Kind == KFun && dynis(fnTys[i], FunTy) && wfT(fnTys[i].Return) && allocated(fnTys[i].Return) && forall(k, 0, len(fnTys[i].Param), wfT(fnTys[i].Param[k]) && allocated(fnTys[i].Param[k])))
//@   loop 1 invariant #a rangeindex + 1 <= len(fnTys) && scalls() == 6 + rangeindex + 1 && same(fnTys, sret(5, GetPolyFuns, 0)) && sret(5, GetPolyFuns, 1) && polyFnKey == sret(4, OverLoaded, 0)
//@   loop 1 invariant #b scall(0, Fun, fnName, args, Bottom) && scall(1, OverLoaded, sret(0, Fun).Fun()) && scall(2, GetMonoFun, env, sret(1, OverLoaded, 0)) && !sret(2, GetMonoFun, 1) && scall(3, Fun, fnName, args) && scall(4, OverLoaded, sret(3, Fun).Fun()) && scall(5, GetPolyFuns, env, sret(4, OverLoaded, 0))
//@   loop 1 invariant #c forall(j, 0, rangeindex + 1, scall(6 + j, inferFun, fnTys[j].Fun(), args) && sret(6 + j, inferFun) == nil)
//@   ensures #mono-key scall(0, Fun, fnName, args, Bottom) && scall(1, OverLoaded, sret(0, Fun).Fun()) && sret(1, OverLoaded, 1) == MonoFun && scall(2, GetMonoFun, env, sret(1, OverLoaded, 0))
//@   ensures #mono-first sret(2, GetMonoFun, 1) ==> scalls() == 3 && result == sret(2, GetMonoFun, 0).Fun() && call.Resolved == sret(1, OverLoaded, 0)
//@   ensures #poly-key !sret(2, GetMonoFun, 1) ==> scall(3, Fun, fnName, args) && scall(4, OverLoaded, sret(3, Fun).Fun()) && sret(4, OverLoaded, 1) == PolyFun && scall(5, GetPolyFuns, env, sret(4, OverLoaded, 0)) && sret(5, GetPolyFuns, 1)
//@   ensures #first-instantiable !sret(2, GetMonoFun, 1) ==> 0 <= call.Index && call.Index < len(sret(5, GetPolyFuns, 0)) && scalls() == 6 + call.Index + 1 && forall(j, 0, call.Index, scall(6 + j, inferFun, sret(5, GetPolyFuns, 0)[j].Fun(), args) && sret(6 + j, inferFun) == nil) && scall(6 + call.Index, inferFun, sret(5, GetPolyFuns, 0)[call.Index].Fun(), args) && result == sret(6 + call.Index, inferFun) && result != nil && call.Resolved == sret(4, OverLoaded, 0)
//@   ensures #wf result != nil && wfT(result.Return) && forall(i, 0, len(result.Param), wfT(result.Param[i]))

//@ func Tuple
//@   props C05 C17
//@   nopanic
//@   fresh
//@   modifies
//@   unfold @return wfT(result)
//@   ensures #node result.Kind == kTuple && dynis(result, TupleTy) && same(result.Tuple().Val, val)
//@   ensures #wf old(forall(i, 0, len(val), wfT(val[i]) && allocated(val[i]))) ==> wfT(result)

//@ func Unify
//@   props C05 C17
//@   requires wfT(s) && wfT(t) && wfSubst(m)
//@   modifies m[*]
//@   ensures #subst wfSubst(m)
//@   ensures #result result != nil ==> wfT(result)

// Instantiation of one overload against the argument types (C05): the
// candidate's parameter tuple is unified with a tuple of fresh variables, the
// substituted tuple with the argument tuple; the candidate is rejected when
// either unification fails or the substituted result type still contains a
// type variable ("fully concrete result"); otherwise the instance is built
// from the UNIFIED argument tuple and the substituted result.  Proved as the
// sequence of constructor / Unify / applySubst / slotFree calls made and how
// their results are used; the meaning of those calls is their own contract.
// ASSUMED (stated at the call): types.TyVar returns a well-formed fresh
// variable and has no other effect visible here.
//@ func inferFun
//@   props C05
//@   requires f != nil && wfT(f.Return) && allocated(f.Return) && forall(i, 0, len(f.Param), wfT(f.Param[i]) && allocated(f.Param[i])) && forall(i, 0, len(args), wfT(args[i]) && allocated(args[i]))
//@   uses dyncalls-pure dyncalls-nopanic
//@   unfold @return wfT(sret(7, Unify))
//@   at call dyn: assume wfT(callret(old(ncalls()))) && allocated(callret(old(ncalls())))
//@   modifies
//@   records Tuple Fun Unify applySubst slotFree
//@   loop 1 invariant #a 0 <= i && i <= len(args) && len(sx) == len(args) && isfresh(sx) && scalls() == 0
//@   loop 1 invariant #b forall(j, 0, i, wfT(sx[j]))
//@   loop 1 invariant #c forall(j, 0, i, allocated(sx[j]))
//@   ensures #pseudo scall(0, Tuple) && len(sarg(0, Tuple, 0)) == len(args) && scall(1, Fun, f.Name) && len(sarg(1, Fun, 1)) == 1 && sarg(1, Fun, 1)[0] == sret(0, Tuple)
//@   ensures #candidate scall(2, Tuple, f.Param) && scall(3, Fun, f.Name, _, f.Return) && len(sarg(3, Fun, 1)) == 1 && sarg(3, Fun, 1)[0] == sret(2, Tuple) && scall(4, Unify, sret(1, Fun), sret(3, Fun))
//@   ensures #reject-shape sret(4, Unify) == nil ==> result == nil && scalls() == 5
//@   ensures #arguments sret(4, Unify) != nil ==> scall(5, Tuple, args) && scall(6, applySubst, sret(0, Tuple), sarg(4, Unify, 2)) && scall(7, Unify, sret(6, applySubst), sret(5, Tuple), sarg(4, Unify, 2))
//@   ensures #reject-args sret(4, Unify) != nil && (sret(7, Unify) == nil || sret(7, Unify).Kind != kTuple) ==> result == nil && scalls() == 8
//@   ensures #result-type sret(4, Unify) != nil && sret(7, Unify) != nil && sret(7, Unify).Kind == kTuple ==> scall(8, applySubst, sarg(1, Fun, 2), sarg(4, Unify, 2)) && scall(9, slotFree, sret(8, applySubst)) && (!sret(9, slotFree) ==> result == nil && scalls() == 10)
//@   ensures #instance sret(4, Unify) != nil && sret(7, Unify) != nil && sret(7, Unify).Kind == kTuple && sret(9, slotFree) ==> scalls() == 11 && scall(10, Fun, f.Name, sret(7, Unify).Tuple().Val, sret(8, applySubst)) && result == sret(10, Fun).Fun()
//@   ensures #wf result != nil ==> wfT(result.Return) && forall(i, 0, len(result.Param), wfT(result.Param[i]))

// Check: the syntax-directed rules.  For each node kind the postcondition
// states (1) the exact sequence of sub-checks and assertions performed
// (activation-local log of the calls made: every sub-expression is checked
// exactly once, in source order, and every comparison the rule demands is made
// on the types those checks returned), (2) the type returned, and (3) what is
// attached to the node for the back ends.  Together with the contracts of
// typeAssert / arityAssert (they return only on equality) a normal return
// means the node satisfies its rule; an ill-typed node cannot be accepted.
//@ func Check
//@   props C05 C01 C16
//@   requires env != nil
//@   modifies anyfield(ast.ListExpr.Type), anyfield(ast.MapExpr.Type), anyfield(ast.ObjExpr.Type), anyfield(ast.CallExpr.CalleeType), anyfield(ast.CallExpr.Resolved), anyfield(ast.CallExpr.Index), anyfield(ast.SubscriptExpr.VarType), anyfield(ast.MemberExpr.ObjType), anyfield(ast.MemberExpr.Index)
//@   records Check typeAssert arityAssert resolveOverloadedFun inferFun (*Env).Get lexer.Reserved Map Obj
//@   uses types.init
//@   loop 1 invariant #a 1 <= i && i <= sz && sz == len(expr.(*ast.ListExpr).Elems)
//@   loop 1 invariant #b wfT(elTy) && elTy == sret(0, Check)
//@   loop 1 invariant #c scalls() == 2 * i - 1 && scall(0, Check, expr.(*ast.ListExpr).Elems[0], env)
//@   loop 1 invariant #d forall(j, 1, i, scall(2 * j - 1, Check, expr.(*ast.ListExpr).Elems[j], env) && scall(2 * j, typeAssert, elTy, sret(2 * j - 1, Check), expr) && tyEq(elTy, sret(2 * j - 1, Check)))
//@   loop 2 invariant #a 1 <= i && i <= sz && sz == len(expr.(*ast.MapExpr).Pairs)
//@   loop 2 invariant #b wfT(kTy) && wfT(vTy) && kTy == sret(0, Check) && vTy == sret(1, Check) && kTy.Kind > kPrimitiveBegin && kTy.Kind < kCompositeBegin
//@   loop 2 invariant #c scalls() == 4 * i - 2 && scall(0, Check, expr.(*ast.MapExpr).Pairs[0].Key, env) && scall(1, Check, expr.(*ast.MapExpr).Pairs[0].Val, env)
//@   loop 2 invariant #d forall(j, 1, i, scall(4 * j - 2, Check, expr.(*ast.MapExpr).Pairs[j].Key, env) && scall(4 * j - 1, typeAssert, kTy, sret(4 * j - 2, Check), expr) && scall(4 * j, Check, expr.(*ast.MapExpr).Pairs[j].Val, env) && scall(4 * j + 1, typeAssert, vTy, sret(4 * j, Check), expr) && tyEq(kTy, sret(4 * j - 2, Check)) && tyEq(vTy, sret(4 * j, Check)))
//@   loop 3 invariant #a rangeindex + 1 <= len(expr.(*ast.ObjExpr).Fields) && len(fs) == sz && sz == len(expr.(*ast.ObjExpr).Fields) && isfresh(fs) && scalls() == rangeindex + 1
//@   loop 3 invariant #b forall(j, 0, rangeindex + 1, scall(j, Check, expr.(*ast.ObjExpr).Fields[j].Val, env) && fs[j].Name == expr.(*ast.ObjExpr).Fields[j].Name && fs[j].Val == sret(j, Check) && wfT(fs[j].Val) && allocated(fs[j].Val))
//@   loop 4 invariant #a 0 <= i && i <= argSz && argSz == len(expr.(*ast.CallExpr).Args) && len(args) == argSz && isfresh(args) && scalls() == i
//@   loop 4 invariant #b forall(j, 0, i, scall(j, Check, expr.(*ast.CallExpr).Args[j], env) && args[j] == sret(j, Check) && wfT(args[j]) && allocated(args[j]))
//@   loop 5 invariant #a 0 <= i && i <= paramSz && paramSz == len(fun.Param) && paramSz == argSz && argSz == len(expr.(*ast.CallExpr).Args) && len(args) == argSz
//@   loop 5 invariant #b forall(j, 0, argSz, args[j] == sret(j, Check) && wfT(args[j])) && forall(j, 0, paramSz, wfT(fun.Param[j]))
//@   loop 5 invariant #c forall(j, 0, i, tyEq(fun.Param[j], args[j]))
//@   unfold wfT(Bottom)
//@   unfold wfT(Num)
//@   unfold wfT(Str)
//@   unfold wfT(Bool)
//@   unfold wfT(Time)
//@   at call typeAssert: unfold wfT(varTy)
//@   at call inferFun: unfold wfT(f)
//@   unfold @return wfT(sret(0, Check))
//@   unfold @return wfT(result)
//@   ensures #wf wfT(result) && allocated(result)
//@   ensures #str typeis(expr, *ast.StrExpr) ==> result == Str && scalls() == 0
//@   ensures #num typeis(expr, *ast.NumExpr) ==> result == Num && scalls() == 0
//@   ensures #bool typeis(expr, *ast.BoolExpr) ==> result == Bool && scalls() == 0
//@   ensures #time typeis(expr, *ast.TimeExpr) ==> result == Time && scalls() == 0
//@   ensures #list-empty typeis(expr, *ast.ListExpr) && len(expr.(*ast.ListExpr).Elems) == 0 ==> result.Kind == KList && result.List().El == Bottom && expr.(*ast.ListExpr).Type.(*Type) == result
//@   ensures #list typeis(expr, *ast.ListExpr) && len(expr.(*ast.ListExpr).Elems) > 0 ==> result.Kind == KList && result.List().El == sret(0, Check) && expr.(*ast.ListExpr).Type.(*Type) == result && scalls() == 2 * len(expr.(*ast.ListExpr).Elems) - 1 && scall(0, Check, expr.(*ast.ListExpr).Elems[0], env) && forall(j, 1, len(expr.(*ast.ListExpr).Elems), scall(2 * j - 1, Check, expr.(*ast.ListExpr).Elems[j], env) && tyEq(result.List().El, sret(2 * j - 1, Check)))
//@   ensures #map-empty typeis(expr, *ast.MapExpr) && len(expr.(*ast.MapExpr).Pairs) == 0 ==> result.Kind == KMap && result.Map().Key == Bottom && result.Map().Val == Bottom && expr.(*ast.MapExpr).Type.(*Type) == result
//@   ensures #map typeis(expr, *ast.MapExpr) && len(expr.(*ast.MapExpr).Pairs) > 0 ==> result.Kind == KMap && result.Map().Key == sret(0, Check) && result.Map().Val == sret(1, Check) && result.Map().Key.Kind > kPrimitiveBegin && result.Map().Key.Kind < kCompositeBegin && expr.(*ast.MapExpr).Type.(*Type) == result && scall(0, Check, expr.(*ast.MapExpr).Pairs[0].Key, env) && scall(1, Check, expr.(*ast.MapExpr).Pairs[0].Val, env) && forall(j, 1, len(expr.(*ast.MapExpr).Pairs), scall(4 * j - 2, Check, expr.(*ast.MapExpr).Pairs[j].Key, env) && scall(4 * j, Check, expr.(*ast.MapExpr).Pairs[j].Val, env) && tyEq(result.Map().Key, sret(4 * j - 2, Check)) && tyEq(result.Map().Val, sret(4 * j, Check)))
//@   ensures #obj typeis(expr, *ast.ObjExpr) ==> result.Kind == KObj && expr.(*ast.ObjExpr).Type.(*Type) == result && len(result.Obj().Fields) == len(expr.(*ast.ObjExpr).Fields) && forall(j, 0, len(expr.(*ast.ObjExpr).Fields), scall(j, Check, expr.(*ast.ObjExpr).Fields[j].Val, env) && result.Obj().Fields[j].Name == expr.(*ast.ObjExpr).Fields[j].Name && result.Obj().Fields[j].Val == sret(j, Check))
//@   ensures #ident typeis(expr, *ast.IdentExpr) ==> scalls() == 2 && scall(0, Reserved, expr.(*ast.IdentExpr).Name) && !sret(0, Reserved) && scall(1, Get, env, expr.(*ast.IdentExpr).Name) && sret(1, Get, 1) && result == sret(1, Get, 0)
//@   ensures #call-args typeis(expr, *ast.CallExpr) ==> forall(j, 0, len(expr.(*ast.CallExpr).Args), scall(j, Check, expr.(*ast.CallExpr).Args[j], env))
//@   ensures #call-named typeis(expr, *ast.CallExpr) && typeis(expr.(*ast.CallExpr).Callee, *ast.IdentExpr) ==> scall(len(expr.(*ast.CallExpr).Args), resolveOverloadedFun, env, expr.(*ast.CallExpr), expr.(*ast.CallExpr).Callee.(*ast.IdentExpr).Name) && len(sarg(len(expr.(*ast.CallExpr).Args), resolveOverloadedFun, 3)) == len(expr.(*ast.CallExpr).Args) && forall(j, 0, len(expr.(*ast.CallExpr).Args), sarg(len(expr.(*ast.CallExpr).Args), resolveOverloadedFun, 3)[j] == sret(j, Check)) && result == sret(len(expr.(*ast.CallExpr).Args), resolveOverloadedFun).Return && len(sret(len(expr.(*ast.CallExpr).Args), resolveOverloadedFun).Param) == len(expr.(*ast.CallExpr).Args) && forall(j, 0, len(expr.(*ast.CallExpr).Args), tyEq(sret(len(expr.(*ast.CallExpr).Args), resolveOverloadedFun).Param[j], sret(j, Check))) && expr.(*ast.CallExpr).CalleeType.(*Type) == sret(len(expr.(*ast.CallExpr).Args), resolveOverloadedFun).Ty()
//@   ensures #call-value typeis(expr, *ast.CallExpr) && !typeis(expr.(*ast.CallExpr).Callee, *ast.IdentExpr) ==> scall(len(expr.(*ast.CallExpr).Args), Check, expr.(*ast.CallExpr).Callee, env) && sret(len(expr.(*ast.CallExpr).Args), Check).Kind == KFun && scall(len(expr.(*ast.CallExpr).Args) + 1, inferFun, sret(len(expr.(*ast.CallExpr).Args), Check).Fun()) && result == sret(len(expr.(*ast.CallExpr).Args) + 1, inferFun).Return && len(sret(len(expr.(*ast.CallExpr).Args) + 1, inferFun).Param) == len(expr.(*ast.CallExpr).Args) && forall(j, 0, len(expr.(*ast.CallExpr).Args), tyEq(sret(len(expr.(*ast.CallExpr).Args) + 1, inferFun).Param[j], sret(j, Check)))
//@   ensures #subscript typeis(expr, *ast.SubscriptExpr) ==> scall(0, Check, expr.(*ast.SubscriptExpr).Var, env) && scall(1, Check, expr.(*ast.SubscriptExpr).Idx, env) && scalls() == 3 && expr.(*ast.SubscriptExpr).VarType.(*Type) == sret(0, Check) && ite(sret(0, Check).Kind == KList, tyEq(sret(1, Check), Num) && result == sret(0, Check).List().El, sret(0, Check).Kind == KMap && tyEq(sret(1, Check), sret(0, Check).Map().Key) && result == sret(0, Check).Map().Val)
//@   ensures #member typeis(expr, *ast.MemberExpr) ==> scalls() == 1 && scall(0, Check, expr.(*ast.MemberExpr).Obj, env) && sret(0, Check).Kind == KObj && expr.(*ast.MemberExpr).ObjType.(*Type) == sret(0, Check) && mapHas(sret(0, Check).Obj().Index, expr.(*ast.MemberExpr).Field.Name) && expr.(*ast.MemberExpr).Index == mapGet(sret(0, Check).Obj().Index, expr.(*ast.MemberExpr).Field.Name) && result == sret(0, Check).Obj().Fields[expr.(*ast.MemberExpr).Index].Val
