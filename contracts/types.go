//go:build verif

package types

// Contracts checked by /verif/gvc (comment-only; see /verif/DESIGN.md).

//@ func init
//@   props C01 C16 C17
//@   ensures #num Num != nil && Num.Kind == KNum
//@   ensures #str Str != nil && Str.Kind == KStr
//@   ensures #bool Bool != nil && Bool.Kind == KBool
//@   ensures #time Time != nil && Time.Kind == KTime
//@   ensures #top Top != nil && Top.Kind == KTop
//@   ensures #bot Bottom != nil && Bottom.Kind == KBot
//@   ensures #distinct Num != Str && Num != Bool && Num != Time && Str != Bool && Str != Time && Bool != Time

//@ func Equals
//@   props C17 C01 C05 C07 C16
//@   modifies
//@   requires wfT(x) && wfT(y)
//@   nopanic
//@   ensures #spec result == tyEq(x, y)

//@ func equals
//@   props C17 C01 C05 C07 C16
//@   requires inProcess != nil && wfT(x) && wfT(y)
//@   requires #memo forall(p, forall(q, inPP(inProcess, p, q) ==> tyEq(p, q) || older(x, p)))
//@   unfold tyEq(x, y)
//@   unfold wfT(x)
//@   unfold wfT(y)
//@   nopanic
//@   modifies inProcess[*]
//@   ensures #spec result == tyEq(x, y)
//@   ensures #memo result ==> forall(p, forall(q, inPP(inProcess, p, q) ==> old(inPP(inProcess, p, q)) || tyEq(p, q)))
//@   ensures #mono forall(p, forall(q, old(inPP(inProcess, p, q)) ==> inPP(inProcess, p, q)))

//@ func equalsTuple
//@   props C17 C01 C05 C07 C16
//@   requires inProcess != nil && x != nil && y != nil && dynis(x, TupleTy) && dynis(y, TupleTy)
//@   requires wfSeq(x.Val, x.Ty()) && wfSeq(y.Val, y.Ty())
//@   requires #memo forall(p, forall(q, inPP(inProcess, p, q) ==> tyEq(p, q) || notyounger(x.Ty(), p)))
//@   nopanic
//@   modifies inProcess[*]
//@   loop 1 invariant forall(k, 0, rangeindex+1, tyEq(x.Val[k], y.Val[k])) && len(x.Val) == len(y.Val) && xt == x && yt == y
//@   loop 1 invariant forall(p, forall(q, inPP(inProcess, p, q) ==> old(inPP(inProcess, p, q)) || tyEq(p, q)))
//@   loop 1 invariant forall(p, forall(q, old(inPP(inProcess, p, q)) ==> inPP(inProcess, p, q)))
//@   ensures #spec result == tyEqSeq(x.Val, y.Val)
//@   ensures #memo result ==> forall(p, forall(q, inPP(inProcess, p, q) ==> old(inPP(inProcess, p, q)) || tyEq(p, q)))
//@   ensures #mono forall(p, forall(q, old(inPP(inProcess, p, q)) ==> inPP(inProcess, p, q)))

//@ func equalsFun
//@   props C17 C01 C05 C07 C16
//@   requires inProcess != nil && x != nil && y != nil && dynis(x, FunTy) && dynis(y, FunTy)
//@   requires wfSeq(x.Param, x.Ty()) && wfSeq(y.Param, y.Ty()) && wfT(x.Return) && wfT(y.Return) && older(x.Return, x.Ty())
//@   requires #memo forall(p, forall(q, inPP(inProcess, p, q) ==> tyEq(p, q) || notyounger(x.Ty(), p)))
//@   nopanic
//@   modifies inProcess[*]
//@   loop 1 invariant forall(k, 0, rangeindex+1, tyEq(x.Param[k], y.Param[k])) && len(x.Param) == len(y.Param)
//@   loop 1 invariant forall(p, forall(q, inPP(inProcess, p, q) ==> old(inPP(inProcess, p, q)) || tyEq(p, q)))
//@   loop 1 invariant forall(p, forall(q, old(inPP(inProcess, p, q)) ==> inPP(inProcess, p, q)))
//@   ensures #spec result == (tyEqSeq(x.Param, y.Param) && tyEq(x.Return, y.Return))
//@   ensures #memo result ==> forall(p, forall(q, inPP(inProcess, p, q) ==> old(inPP(inProcess, p, q)) || tyEq(p, q)))
//@   ensures #mono forall(p, forall(q, old(inPP(inProcess, p, q)) ==> inPP(inProcess, p, q)))

//@ func equalsObj
//@   props C17 C01 C05 C07 C16
//@   requires inProcess != nil && x != nil && y != nil && dynis(x, ObjTy) && dynis(y, ObjTy)
//@   requires wfObj(x) && wfObj(y)
//@   requires forall(i, 0, len(x.Fields), wfT(x.Fields[i].Val) && older(x.Fields[i].Val, x.Ty()))
//@   requires forall(i, 0, len(y.Fields), wfT(y.Fields[i].Val))
//@   requires #memo forall(p, forall(q, inPP(inProcess, p, q) ==> tyEq(p, q) || notyounger(x.Ty(), p)))
//@   nopanic
//@   modifies inProcess[*]
//@   loop 1 invariant len(x.Fields) == len(y.Fields)
//@   loop 1 invariant forall(k, 0, rangeindex+1, exists(j, 0, len(y.Fields), y.Fields[j].Name == x.Fields[k].Name && tyEq(x.Fields[k].Val, y.Fields[j].Val)))
//@   loop 1 invariant forall(p, forall(q, inPP(inProcess, p, q) ==> old(inPP(inProcess, p, q)) || tyEq(p, q)))
//@   loop 1 invariant forall(p, forall(q, old(inPP(inProcess, p, q)) ==> inPP(inProcess, p, q)))
//@   ensures #spec result == tyEqObj(x, y)
//@   ensures #memo result ==> forall(p, forall(q, inPP(inProcess, p, q) ==> old(inPP(inProcess, p, q)) || tyEq(p, q)))
//@   ensures #mono forall(p, forall(q, old(inPP(inProcess, p, q)) ==> inPP(inProcess, p, q)))

//@ entry Infer
//@   props C12

// ---- unification (C17, C05, C16) ------------------------------------------

//@ func freeFrom
//@   props C17 C05
//@   requires s != nil && wfT(ty)
//@   unfold wfT(ty)
//@   unfold occurs(s.Name, ty)
//@   modifies
//@   loop 1 invariant forall(j, 0, rangeindex+1, !occurs(s.Name, ty.Obj().Fields[j].Val))
//@   loop 2 invariant forall(j, 0, rangeindex+1, !occurs(s.Name, ty.Fun().Param[j]))
//@   ensures #occurs result == !occurs(s.Name, ty)

//@ func Obj
//@   props C17 C05 C01
//@   fails_iff exists(i, 0, len(fields), exists(j, 0, i, fields[j].Name == fields[i].Name))
//@   modifies
//@   loop 1 invariant t.Index != nil && isfresh(t.Index) && same(t.Fields, fields) && t.Kind == KObj && rangeindex+1 <= len(fields)
//@   loop 1 invariant forall(k, 0, rangeindex+1, mapHas(t.Index, fields[k].Name) && mapGet(t.Index, fields[k].Name) == k)
//@   loop 1 invariant forallstr(s, mapHas(t.Index, s) ==> 0 <= mapGet(t.Index, s) && mapGet(t.Index, s) <= rangeindex && fields[mapGet(t.Index, s)].Name == s)
//@   ensures #node result != nil && isfresh(result) && dynis(result, ObjTy) && result.Kind == KObj && same(result.Obj().Fields, fields)
//@   ensures #index wfObj(result.Obj())

//@ func applySubst
//@   props C17 C05
//@   requires wfT(ty) && wfSubst(m)
//@   unfold wfT(ty)
//@   modifies
//@   loop 1 invariant len(ks) == len(t.Val) && isfresh(ks) && forall(j, 0, rangeindex+1, wfT(ks[j]) && allocated(ks[j]))
//@   loop 2 invariant len(fs) == len(o.Fields) && isfresh(fs) && forall(j, 0, rangeindex+1, wfT(fs[j].Val) && allocated(fs[j].Val) && fs[j].Name == o.Fields[j].Name)
//@   loop 3 invariant len(params) == len(f.Param) && isfresh(params) && forall(j, 0, rangeindex+1, wfT(params[j]) && allocated(params[j]))
//@   unfold @return wfT(result)
//@   ensures #wf wfT(result)

// unify: local soundness of every binding it makes.  Where the substitution
// map is written, the bound type does not contain the variable (occurs
// check on the substituted type), and a variable that is already bound is
// only ever re-bound to an equal type (never to two different types); the
// substitution stays a map to well-formed types and a successful result is
// a well-formed type.  The global laws (the substitution unifies, matching is
// complete) are covered only by the bounded stand-in.
//@ func unify
//@   props C17 C05 C16
//@   requires wfT(x) && wfT(y) && wfSubst(m) && inProcess != nil
//@   unfold wfT(x)
//@   unfold wfT(y)
//@   modifies m[*], inProcess[*]
//@   at mapupdate m: assert #occurs-check !occurs(key, value)
//@   at mapupdate m: assert #single-binding mapHas(m, key) ==> tyEq(mapGet(m, key), value)
//@   at mapupdate m: assert #wf wfT(value)
//@   ensures #subst wfSubst(m)
//@   ensures #result result != nil ==> wfT(result)

//@ func unifyComposite
//@   props C17 C05 C16
//@   requires wfT(x) && wfT(y) && wfSubst(m) && inProcess != nil && x.Kind == y.Kind && x.Kind > kCompositeBegin
//@   unfold wfT(x)
//@   unfold wfT(y)
//@   modifies m[*], inProcess[*]
//@   loop 1 invariant wfSubst(m) && len(ks) == len(xtv) && len(xtv) == len(ytv) && isfresh(ks) && forall(j, 0, rangeindex+1, wfT(ks[j]) && allocated(ks[j]))
//@   loop 2 invariant wfSubst(m) && len(fs) == len(xfs) && isfresh(fs) && forall(j, 0, rangeindex+1, wfT(fs[j].Val) && allocated(fs[j].Val) && fs[j].Name == xfs[j].Name)
//@   loop 3 invariant wfSubst(m) && len(params) == len(xf.Param) && len(xf.Param) == len(yf.Param) && isfresh(params) && forall(j, 0, rangeindex+1, wfT(params[j]) && allocated(params[j]))
//@   unfold @return wfT(result)
//@   ensures #subst wfSubst(m)
//@   ensures #result result != nil ==> wfT(result)

// slotFree decides whether an instantiated signature is fully concrete (C05)
//@ func slotFree
//@   props C05 C17
//@   requires wfT(ty)
//@   unfold wfT(ty)
//@   unfold ground(ty)
//@   modifies
//@   loop 1 invariant forall(j, 0, rangeindex+1, ground(ty.Tuple().Val[j]))
//@   loop 2 invariant forall(j, 0, rangeindex+1, ground(ty.Obj().Fields[j].Val))
//@   loop 3 invariant forall(j, 0, rangeindex+1, ground(ty.Fun().Param[j]))
//@   ensures #ground result == ground(ty)
