//go:build verif

package vm

// Contracts checked by /verif/gvc (comment-only; see /verif/DESIGN.md).

//@ func (*stack).Push
//@   props C02 C11
//@   requires s != nil && 0 <= s.sp && s.sp <= len(s.stack)
//@   nopanic
//@   modifies s.sp, s.stack, s.stack[*]
//@   ensures #sp s.sp == old(s.sp)+1 && s.sp <= len(s.stack)
//@   ensures #top s.stack[old(s.sp)] == v
//@   ensures #below forall(i, 0, old(s.sp), s.stack[i] == old(s.stack[i]))

//@ func (*stack).Pop
//@   props C02 C11
//@   requires s != nil && 0 <= s.sp && s.sp <= len(s.stack)
//@   fails_iff s.sp == 0
//@   modifies s.sp
//@   ensures #sp s.sp == old(s.sp)-1
//@   ensures #val result == old(s.stack[s.sp-1])

//@ func (*stack).Empty
//@   props C02
//@   requires s != nil
//@   nopanic
//@   pure
//@   ensures result == (s.sp == 0)

//@ func uint16ToByte
//@   props C11
//@   nopanic
//@   ensures len(result) == 2 && result[0] == i/256 && result[1] == i%256

//@ func byteToUInt16
//@   props C11
//@   fails_iff len(buf) < 2
//@   pure
//@   ensures result == buf[0]*256 + buf[1]
