//go:build verif

package val

// Contracts checked by /verif/gvc (comment-only; see /verif/DESIGN.md).

//@ func NumEQ
//@   props C04 C18
//@   requires x != nil && y != nil
//@   nopanic
//@   pure
//@   ensures result == numEQ(x.V, y.V)

//@ func NumNE
//@   props C04 C18
//@   requires x != nil && y != nil
//@   nopanic
//@   pure
//@   ensures result == numNE(x.V, y.V)

//@ func NumLT
//@   props C04
//@   requires x != nil && y != nil
//@   nopanic
//@   pure
//@   ensures result == (x.V < y.V && numNE(x.V, y.V))

//@ func NumLE
//@   props C04
//@   requires x != nil && y != nil
//@   nopanic
//@   pure
//@   ensures result == (x.V <= y.V || numEQ(x.V, y.V))

//@ func NumGT
//@   props C04
//@   requires x != nil && y != nil
//@   nopanic
//@   pure
//@   ensures result == (x.V > y.V && numNE(x.V, y.V))

//@ func NumGE
//@   props C04
//@   requires x != nil && y != nil
//@   nopanic
//@   pure
//@   ensures result == (x.V >= y.V || numEQ(x.V, y.V))

//@ func (*NumVal).IsInt
//@   props C04 C18
//@   requires v != nil
//@   nopanic
//@   pure
//@   ensures result == (isIntegral(v.V) && inInt64(v.V))

//@ func init
//@   props C01 C04
//@   ensures #true True != nil && dynis(True, BoolVal) && True.Type == types.Bool && True.Bool().V
//@   ensures #false False != nil && dynis(False, BoolVal) && False.Type == types.Bool && !False.Bool().V
//@   ensures #distinct True != False

//@ func Num
//@   props C01 C04
//@   uses types.init
//@   nopanic
//@   fresh
//@   ensures isNum(result) && same(result.Num().V, n)

//@ func Bool
//@   props C01 C04
//@   uses val.init
//@   nopanic
//@   pure
//@   ensures isBool(result) && result.Bool().V == b

//@ func Str
//@   props C01 C04
//@   uses types.init
//@   nopanic
//@   fresh
//@   ensures isStr(result) && result.Str().V == s

//@ func (*Env).Get
//@   props C02 C07
//@   requires e != nil
//@   nopanic
//@   pure

//@ func (*MaybeVal).GetOrDefault
//@   props C01 C02 C04 C16
//@   requires v != nil
//@   nopanic
//@   pure
//@   ensures #value result == ite(v.V != nil, v.V, defVal)

//@ func Equals
//@   props C18
//@   trusted
//@   nopanic
//@   pure
//@   ensures result == valEq(x, y)

//@ func Time
//@   props C01 C04
//@   uses types.init
//@   nopanic
//@   fresh
//@   ensures isTime(result) && result.Time().V == t

//@ func (*Val).String
//@   props C18
//@   abstract

//@ func (*Val).Key
//@   props C18
//@   abstract
