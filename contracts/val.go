//go:build verif

package val

// Contracts checked by /verif/gvc (comment-only; see /verif/DESIGN.md).

//@ func NumEQ
//@   props C04 C18
//@   requires x != nil && y != nil
//@   nopanic
//@   pure
//@   ensures result == numEQ(x.V, y.V)

//@ func NumNE
//@   props C04 C18
//@   requires x != nil && y != nil
//@   nopanic
//@   pure
//@   ensures result == numNE(x.V, y.V)

//@ func NumLT
//@   props C04
//@   requires x != nil && y != nil
//@   nopanic
//@   pure
//@   ensures result == (x.V < y.V && numNE(x.V, y.V))

//@ func NumLE
//@   props C04
//@   requires x != nil && y != nil
//@   nopanic
//@   pure
//@   ensures result == (x.V <= y.V || numEQ(x.V, y.V))

//@ func NumGT
//@   props C04
//@   requires x != nil && y != nil
//@   nopanic
//@   pure
//@   ensures result == (x.V > y.V && numNE(x.V, y.V))

//@ func NumGE
//@   props C04
//@   requires x != nil && y != nil
//@   nopanic
//@   pure
//@   ensures result == (x.V >= y.V || numEQ(x.V, y.V))

//@ func (*NumVal).IsInt
//@   props C04 C18
//@   requires v != nil
//@   nopanic
//@   pure
//@   ensures result == (isIntegral(v.V) && inInt64(v.V))

//@ func init
//@   props C01 C04
//@   ensures #true True != nil && dynis(True, BoolVal) && True.Type == types.Bool && True.Bool().V
//@   ensures #false False != nil && dynis(False, BoolVal) && False.Type == types.Bool && !False.Bool().V
//@   ensures #distinct True != False

//@ func Num
//@   props C01 C04 C15
//@   uses types.init
//@   nopanic
//@   fresh
//@   ensures isNum(result) && same(result.Num().V, n)

//@ func Bool
//@   props C01 C04 C15
//@   uses val.init
//@   nopanic
//@   pure
//@   ensures isBool(result) && result.Bool().V == b

//@ func Str
//@   props C01 C04 C15
//@   uses types.init
//@   nopanic
//@   fresh
//@   ensures isStr(result) && result.Str().V == s

//@ func (*Env).Get
//@   props C02 C07
//@   requires e != nil
//@   nopanic
//@   pure

//@ func (*MaybeVal).GetOrDefault
//@   props C01 C02 C04 C16
//@   requires v != nil
//@   nopanic
//@   pure
//@   ensures #value result == ite(v.V != nil, v.V, defVal)

//@ func Equals
//@   props C18 C04 C03
//@   requires (x != nil ==> wfV(x)) && (y != nil ==> wfV(y))
//@   unfold valEq(x, y)
//@   unfold wfV(x)
//@   unfold wfV(y)
//@   unfold wfT(x.Type)
//@   unfold wfT(y.Type)
//@   unfold tyEq(x.Type, y.Type)
//@   nopanic
//@   modifies
//@   ensures #spec result == valEq(x, y)

//@ func equalsList
//@   props C18 C04 C03
//@   requires x != nil && y != nil && forall(i, 0, len(x.V), wfV(x.V[i])) && forall(i, 0, len(y.V), wfV(y.V[i]))
//@   nopanic
//@   modifies
//@   loop 1 invariant 0 <= i && i <= len(x.V) && len(x.V) == len(y.V) && forall(k, 0, i, valEq(x.V[k], y.V[k]))
//@   ensures #spec result == valEqSeq(x.V, y.V)

//@ func equalsObj
//@   props C18 C04 C03
//@   requires x != nil && y != nil && dynis(x, ObjVal) && dynis(y, ObjVal) && wfT(x.Type) && wfT(y.Type) && x.Type.Kind == types.KObj && y.Type.Kind == types.KObj
//@   requires len(x.V) == len(x.Type.Obj().Fields) && len(y.V) == len(y.Type.Obj().Fields) && tyEq(x.Type, y.Type)
//@   requires forall(i, 0, len(x.V), wfV(x.V[i])) && forall(i, 0, len(y.V), wfV(y.V[i]))
//@   unfold wfT(x.Type)
//@   unfold wfT(y.Type)
//@   unfold tyEq(x.Type, y.Type)
//@   nopanic
//@   modifies
//@   loop 1 invariant len(x.V) == len(y.V)
//@   loop 1 invariant forall(k, 0, rangeindex+1, exists(j, 0, len(y.V), y.Type.Obj().Fields[j].Name == x.Type.Obj().Fields[k].Name && valEq(x.V[k], y.V[j])))
//@   ensures #spec result == valEqObj(x, y)

//@ func equalsMaybe
//@   props C18 C04 C03
//@   requires x != nil && y != nil && dynis(x, MaybeVal) && dynis(y, MaybeVal) && wfT(x.Type) && wfT(y.Type) && x.Type.Kind == types.KMaybe && y.Type.Kind == types.KMaybe
//@   requires (x.V != nil ==> wfV(x.V)) && (y.V != nil ==> wfV(y.V))
//@   unfold wfT(x.Type)
//@   unfold wfT(y.Type)
//@   nopanic
//@   modifies
//@   ensures #spec result == valEqMaybe(x, y)

// map equality walks a Go map (range): assumed
//@ func equalsMap
//@   props C18
//@   trusted
//@   nopanic
//@   modifies
//@   ensures result == mapEq(x, y)

//@ func Time
//@   props C01 C04 C15
//@   uses types.init
//@   nopanic
//@   fresh
//@   ensures isTime(result) && result.Time().V == t

//@ func (*Val).String
//@   props C18
//@   abstract

// Key identity of map keys (C18, C15): at call sites Key is an uninterpreted
// function of the value; its body is verified against what the key text is
// made of - the kind tag plus, per kind, the canonical text of the payload
// (a number through the same FmtInt / FmtFloat as rendering, a time through
// its full-resolution String()).
//@ func (*Val).Key
//@   props C18 C15 C04
//@   abstract
//@   uses verify-body types.init
//@   requires v != nil && v.Type != nil
//@   ensures #tag result.tag == v.Type.Kind
//@   ensures #bool v.Type.Kind == types.KBool ==> result.val == strconv.FormatBool(v.Bool().V)
//@   ensures #num v.Type.Kind == types.KNum ==> result.val == ite(v.Num().IsInt(), util.FmtInt(v.Num().Int()), util.FmtFloat(v.Num().V))
//@   ensures #str v.Type.Kind == types.KStr ==> result.val == strconv.Quote(v.Str().V)
//@   ensures #time v.Type.Kind == types.KTime ==> result.val == strconv.Quote(v.Time().V.String())

// function tables of an environment: lookups write nothing (C03: the VM
// compiler, the closure compiler and the interpreter resolve a call through
// the same lookup)
//@ func (*Env).GetMonoFun
//@   props C03
//@   requires e != nil
//@   nopanic
//@   pure

//@ func (*Env).MustGetMonoFun
//@   props C03
//@   requires e != nil
//@   pure

//@ func (*Env).GetPolyFuns
//@   props C03
//@   requires e != nil
//@   nopanic
//@   pure

//@ func (*Env).MustGetPolyFuns
//@   props C03
//@   requires e != nil
//@   pure
