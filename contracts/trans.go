//go:build verif

package trans

// Contracts checked by /verif/gvc (comment-only; see /verif/DESIGN.md).

// Desugar, for every well-formed parser tree (unbounded, by induction through
// the recursive calls): the result contains core forms only, it is the
// explicit-call form of the input (receiver first, operands in source order,
// positions and debug columns carried over), and nothing that existed before
// the call is written (the original tree is left untouched).
//@ func Desugar
//@   props C10 C06 C19 C13
//@   requires wfAst(expr)
//@   unfold wfAst(expr)
//@   unfold wfAst(calleeOf(expr))
//@   nopanic
//@   modifies
//@   loop 1 invariant len(l) == len(e.Elems) && isfresh(l) && forall(j, 0, rangeindex+1, core(l[j]) && dsg(l[j], e.Elems[j]))
//@   loop 2 invariant len(m) == len(e.Pairs) && isfresh(m) && forall(j, 0, rangeindex+1, core(m[j].Key) && core(m[j].Val) && dsg(m[j].Key, e.Pairs[j].Key) && dsg(m[j].Val, e.Pairs[j].Val))
//@   loop 3 invariant len(o) == len(e.Fields) && isfresh(o) && forall(j, 0, rangeindex+1, o[j].Name == e.Fields[j].Name && core(o[j].Val) && dsg(o[j].Val, e.Fields[j].Val))
//@   loop 4 invariant len(args) == len(e.Args)+1 && isfresh(args) && core(args[0]) && dsg(args[0], mem.Obj) && forall(j, 0, rangeindex+1, core(args[j+1]) && dsg(args[j+1], e.Args[j]))
//@   loop 5 invariant len(args) == len(e.Args) && isfresh(args) && forall(j, 0, rangeindex+1, core(args[j]) && dsg(args[j], e.Args[j]))
//@   unfold @return core(result)
//@   unfold @return core(calleeOf(result))
//@   unfold @return dsg(result, expr)
//@   ensures #core core(result)
//@   ensures #shape dsg(result, expr)
