//go:build verif

package yae

// Contracts checked by /verif/gvc (comment-only; see /verif/DESIGN.md).

// Panic containment at the API boundary (C12): an `entry` function never
// lets a panic escape - on every path a recover-based handler is deferred
// before the first instruction that may panic, or every such instruction is
// a call of a function with that property.

//@ entry Eval
//@   props C12

//@ entry Debug
//@   props C12 C19

//@ entry (*Expr).Compile
//@   props C12

//@ entry (*Expr).makeCallable$1
//@   props C12 C07

//@ entry (*Expr).envCheck
//@   props C12 C07

// Engine state (C14): once an engine has been initialised (makeSureInit, on
// its first compilation) the compile / invoke path only reads it.
//@ global Expr
//@   props C13 C14
//@   uses yae.(*Expr).makeSureInit
//@   writers oper.Sort
//@   note NewLexer / NewParser pass the engine's operator slice to oper.Sort (sort.SliceStable, in place); after the first compilation the slice is sorted and a stable sort of a sorted slice writes nothing - the property's own carve-out ("an instance that has finished its first compilation")

// Environment check before evaluation (C07).  envCheck itself runs a closure
// under recover and is outside the verified subset: its contract is ASSUMED
// (it returns nil only for an environment that passed the check).  Proved:
// the Callable reaches the compiled closure only after envCheck accepted the
// environment of THIS call.
//@ func (*Expr).envCheck
//@   props C07
//@   trusted
//@   modifies
//@   ensures err == nil ==> envOK(env0, env)

//@ closure (*Expr).makeCallable$1
//@   props C07 C12 C16
//@   requires e != nil && closure != nil && env0 != nil
//@   modifies all
//@   at call dyn: assert #checked-first envOK(env0, env1)

// The per-binding test envCheck applies to every name of the compile-time
// environment (C07): the closure returns normally only if the run-time
// environment binds the name and the bound value's type equals the declared
// type (types.Equals == structural equality, proved in package types).
// ASSUMED (stated at the call): the declared type and the type of a run-time
// value are well-formed type trees.
//@ closure (*Expr).envCheck$1
//@   props C07
//@   requires env != nil
//@   modifies
//@   records val.(*Env).Get types.Equals
//@   at call Equals: assume wfT(arg0) && wfT(arg1)
//@   ensures #accepted-only scalls() == 2 && scall(0, Get, env, name) && sret(0, Get, 1) && scall(1, Equals, ty, sret(0, Get, 0).Type) && sret(1, Equals) && tyEq(ty, sret(0, Get, 0).Type)
