//go:build verif

package yae

// Contracts checked by /verif/gvc (comment-only; see /verif/DESIGN.md).

// Panic containment at the API boundary (C12): an `entry` function never
// lets a panic escape - on every path a recover-based handler is deferred
// before the first instruction that may panic, or every such instruction is
// a call of a function with that property.

//@ entry Eval
//@   props C12

//@ entry Debug
//@   props C12 C19

//@ entry (*Expr).Compile
//@   props C12

//@ entry (*Expr).makeCallable$1
//@   props C12 C07

//@ entry (*Expr).envCheck
//@   props C12 C07
