//go:build verif

package lexer

// Contracts checked by /verif/gvc (comment-only; see /verif/DESIGN.md).

//@ global builtInOpers
//@   props C13 C14
//@   writers newLexicon
//@   note newLexicon passes builtInOpers to oper.Sort (sort.SliceStable, in place); the slice holds two one-character operators, for which the comparator never reports an inversion, so no element is written
