//go:build verif

package lexer

// Contracts checked by /verif/gvc (comment-only; see /verif/DESIGN.md).

//@ global builtInOpers
//@   props C13 C14
//@   writers newLexicon
//@   note newLexicon passes builtInOpers to oper.Sort (sort.SliceStable, in place); the slice holds two one-character operators, for which the comparator never reports an inversion, so no element is written

// ---- token positions (C09) -------------------------------------------------
// Index-level half of "tokens partition the input": proved for all inputs
// and all rule sets.  Assumed (listed): a rule's match function does not
// modify the lexer (it is a closure over strings / a compiled regexp).
// Line / column bookkeeping is the contract of (*Pos).Move, which both loops
// call once per consumed rune.

//@ func (*lexer).skipSpace
//@   props C09 C19
//@   requires l != nil && 0 <= l.Idx
//@   requires #cursor l.Line == lineAt(l.input, l.Idx) && l.Col == colAt(l.input, l.Idx)
//@   loop 1 invariant l.Line == lineAt(l.input, l.Idx) && l.Col == colAt(l.input, l.Idx)
//@   loop 1 unfold lineAt(l.input, l.Idx + 1)
//@   loop 1 unfold colAt(l.input, l.Idx + 1)
//@   ensures #cursor l.Line == lineAt(l.input, l.Idx) && l.Col == colAt(l.input, l.Idx)
//@   nopanic
//@   modifies l.Idx, l.Line, l.Col
//@   loop 1 invariant old(l.Idx) <= l.Idx && l.IdxEnd == old(l.IdxEnd) && (old(l.Idx) <= len(l.input) ==> l.Idx <= len(l.input))
//@   loop 1 invariant forall(i, old(l.Idx), l.Idx, isSpace(l.input[i]))
//@   ensures #forward old(l.Idx) <= l.Idx && l.IdxEnd == old(l.IdxEnd)
//@   ensures #only-space forall(i, old(l.Idx), l.Idx, isSpace(l.input[i]))
//@   ensures #stops l.Idx < len(l.input) ==> !isSpace(l.input[l.Idx])
//@   ensures #bound old(l.Idx) <= len(l.input) ==> l.Idx <= len(l.input)

//@ func (*lexer).next
//@   props C09 C19
//@   uses dyncalls-pure
//@   requires l != nil && 0 <= l.Idx && l.Idx <= len(l.input)
//@   requires #cursor l.Line == lineAt(l.input, l.Idx) && l.Col == colAt(l.input, l.Idx)
//@   modifies l.Idx, l.Line, l.Col
//@   loop 1 invariant l.Line == lineAt(l.input, l.Idx) && l.Col == colAt(l.input, l.Idx) && p.Line == l.Line && p.Col == l.Col
//@   loop 2 invariant l.Line == lineAt(l.input, l.Idx) && l.Col == colAt(l.input, l.Idx) && p.Line == lineAt(l.input, p.Idx) && p.Col == colAt(l.input, p.Idx)
//@   loop 2 invariant forall(j, 0, len(matched), matched[j] == l.input[p.Idx + j])
//@   loop 2 unfold lineAt(l.input, l.Idx + 1)
//@   loop 2 unfold colAt(l.input, l.Idx + 1)
//@   ensures #cursor l.Line == lineAt(l.input, l.Idx) && l.Col == colAt(l.input, l.Idx)
//@   ensures #linecol result != EOF ==> result.Line == lineAt(l.input, result.Idx) && result.Col == colAt(l.input, result.Idx)
//@   loop 1 invariant l.Idx == p.Idx && l.IdxEnd == old(l.IdxEnd) && old(l.Idx) <= p.Idx && p.Idx < len(l.input) && !isSpace(l.input[p.Idx])
//@   loop 1 invariant forall(i, old(l.Idx), p.Idx, isSpace(l.input[i]))
//@   loop 2 invariant old(l.Idx) <= p.Idx && p.Idx < len(l.input) && !isSpace(l.input[p.Idx]) && forall(i, old(l.Idx), p.Idx, isSpace(l.input[i]))
//@   loop 2 invariant l.Idx == p.Idx + rangeindex + 1 && l.IdxEnd == old(l.IdxEnd) && len(matched) == offset && 0 <= offset
//@   ensures #eof result == EOF ==> l.Idx >= len(l.input)
//@   ensures #gap forall(i, old(l.Idx), ite(result == EOF, l.Idx, result.Idx), isSpace(l.input[i]))
//@   ensures #start result != EOF ==> old(l.Idx) <= result.Idx && result.Idx < len(l.input) && !isSpace(l.input[result.Idx])
//@   ensures #end1 result != EOF ==> result.Idx <= result.IdxEnd
//@   ensures #end2 result != EOF ==> result.IdxEnd == l.Idx
//@   ensures #end3 result != EOF ==> result.Idx <= l.Idx
//@   ensures #monotone old(l.Idx) <= l.Idx
