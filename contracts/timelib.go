//go:build verif

package timelib

// Contracts checked by /verif/gvc (comment-only; see /verif/DESIGN.md).

//@ func Strtotime
//@   props C04
//@   trusted
//@   nopanic
//@   modifies
//@   ensures len(opts) == 0 ==> result == strtotimeU(timeStr)
