//go:build verif

package parser

// Contracts checked by /verif/gvc (comment-only; see /verif/DESIGN.md).

// The recursive entry of the Pratt parser goes through the grammar's
// function tables (nud / led values) and recover-based backtracking; it is
// outside the verified subset.  Its contract is ASSUMED at the call sites in
// the parselets below; what is proved is what each parselet does with it.
//@ func (*parser).expr
//@   props C08
//@   trusted
//@   modifies p.idx
//@   ensures result != nil

// ---- associativity is encoded in the right binding power handed down ----
// For an operator of power bp the right operand must admit exactly the
// operators that bind tighter (left- and non-associative) or at least as
// tight (right-associative, ?:).  parseInfix continues while lbp > rbp, so:
//   left / non-assoc:  rbp == bp
//   right-assoc:       rbp < bp and no power lies strictly between (rbp is the
//                      immediate predecessor of bp), i.e. l > rbp <==> l >= bp

//@ func binaryL
//@   props C08 C10
//@   modifies p.idx
//@   requires p != nil && t != nil && lhs != nil
//@   at call expr: assert #left-assoc same(arg1, bp)
//@   ensures #node typeis(result, *ast.BinaryExpr) && result.(*ast.BinaryExpr).Fixity == oper.INFIX_L && result.(*ast.BinaryExpr).LHS == lhs
//@   ensures #name result.(*ast.BinaryExpr).IdentExpr != nil && result.(*ast.BinaryExpr).IdentExpr.Name == t.Lexeme && result.(*ast.BinaryExpr).IdentExpr.Pos == t.Pos
//@   ensures #span result.(*ast.BinaryExpr).Pos == pos.Range(lhs, result.(*ast.BinaryExpr).RHS)

//@ func binaryN
//@   props C08 C10
//@   modifies p.idx
//@   requires p != nil && t != nil && lhs != nil
//@   at call expr: assert #non-assoc same(arg1, bp)
//@   ensures #node typeis(result, *ast.BinaryExpr) && result.(*ast.BinaryExpr).Fixity == oper.INFIX_N && result.(*ast.BinaryExpr).LHS == lhs
//@   ensures #name result.(*ast.BinaryExpr).IdentExpr != nil && result.(*ast.BinaryExpr).IdentExpr.Name == t.Lexeme && result.(*ast.BinaryExpr).IdentExpr.Pos == t.Pos
//@   ensures #span result.(*ast.BinaryExpr).Pos == pos.Range(lhs, result.(*ast.BinaryExpr).RHS)

//@ func binaryR
//@   props C08 C10
//@   modifies p.idx
//@   requires p != nil && t != nil && lhs != nil
//@   requires #finite bp == bp && bp - bp == 0
//@   at call expr: assert #right-assoc arg1 < bp && forallf32(l, !(arg1 < l && l < bp))
//@   ensures #node typeis(result, *ast.BinaryExpr) && result.(*ast.BinaryExpr).Fixity == oper.INFIX_R && result.(*ast.BinaryExpr).LHS == lhs
//@   ensures #name result.(*ast.BinaryExpr).IdentExpr != nil && result.(*ast.BinaryExpr).IdentExpr.Name == t.Lexeme && result.(*ast.BinaryExpr).IdentExpr.Pos == t.Pos
//@   ensures #span result.(*ast.BinaryExpr).Pos == pos.Range(lhs, result.(*ast.BinaryExpr).RHS)

//@ func unaryPrefix
//@   props C08 C10
//@   modifies p.idx
//@   requires p != nil && t != nil
//@   at call expr: assert #operand-power same(arg1, bp)
//@   ensures #node typeis(result, *ast.UnaryExpr) && result.(*ast.UnaryExpr).Prefix
//@   ensures #name result.(*ast.UnaryExpr).IdentExpr != nil && result.(*ast.UnaryExpr).IdentExpr.Name == t.Lexeme
//@   ensures #span result.(*ast.UnaryExpr).Pos == pos.Range(t, result.(*ast.UnaryExpr).LHS)

//@ func unaryPostfix
//@   props C08 C10
//@   requires p != nil && t != nil && lhs != nil
//@   ensures #node typeis(result, *ast.UnaryExpr) && !result.(*ast.UnaryExpr).Prefix && result.(*ast.UnaryExpr).LHS == lhs
//@   ensures #name result.(*ast.UnaryExpr).IdentExpr != nil && result.(*ast.UnaryExpr).IdentExpr.Name == t.Lexeme
//@   ensures #span result.(*ast.UnaryExpr).Pos == pos.Range(lhs, t)

// the Pratt loop consumes the next operator only if it binds tighter than rbp
//@ func (*parser).parseInfix
//@   props C08
//@   modifies all
//@   requires p != nil && left != nil
//@   at call dyn: assert #binds-tighter p.infixLbp(t) > rbp
//@   loop 1 invariant left == old(left) || !chainN(left)
//@   ensures #checked result == old(left) || !chainN(result)

// ?: is right associative: the else-branch admits operators with lbp >= bp
//@ func parseQuestion
//@   props C08 C10
//@   modifies p.idx
//@   requires p != nil && t != nil && l != nil
//@   requires #finite bp == bp && bp - bp == 0
//@   at call expr: assert #branch arg1 == 0 || arg1 < bp
//@   at call expr: assert #else-branch m != nil ==> arg1 < bp && forallf32(x, !(arg1 < x && x < bp))
//@   ensures #node typeis(result, *ast.TenaryExpr) && result.(*ast.TenaryExpr).Left == l
//@   ensures #span result.(*ast.TenaryExpr).Pos == pos.Range(l, result.(*ast.TenaryExpr).Right)

// non-associativity: a node that chains a non-associative operator with
// itself (without parentheses, i.e. the operand is itself a BinaryExpr) is
// rejected - and every node built by the Pratt loop passes this check
//@ func (*parser).infixNCheck
//@   props C08
//@   requires p != nil
//@   fails_iff chainN(expr) || malformedBin(expr)
//@   ensures result == expr

// Parentheses (C10): a parenthesised expression is always a Group node around
// the expression parsed between the parentheses - the node that tells
// `(o.f)(x)` (call the function stored in field f) from `o.f(x)` (method-call
// sugar) until Desugar removes it.
//@ func parseGroup
//@   props C10 C08
//@   requires p != nil && t != nil
//@   modifies p.idx
//@   records (*parser).expr
//@   ensures #group scalls() == 1 && scall(0, expr, p) && sarg(0, expr, 1) == 0 && typeis(result, *ast.GroupExpr) && result.(*ast.GroupExpr) != nil && result.(*ast.GroupExpr).SubExpr == sret(0, expr)
