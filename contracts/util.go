//go:build verif

package util

// Contracts checked by /verif/gvc (comment-only; see /verif/DESIGN.md).

// PtrPtrSet is used as a set of pointer pairs.  The two methods are given
// their set meaning as an assumed (trusted) contract; the representation
// (map of maps keyed by reflect's pointer value) is not verified.

//@ func (PtrPtrSet).Contains
//@   props C17 C18
//@   trusted
//@   nopanic
//@   pure
//@   ensures result == inPP(p, ref(ptr1), ref(ptr2))

//@ func (PtrPtrSet).Add
//@   props C17 C18
//@   trusted
//@   nopanic
//@   modifies p[*]
//@   ensures forall(a, forall(b, inPP(p, a, b) == (old(inPP(p, a, b)) || (a == ref(ptr1) && b == ref(ptr2)))))
