//go:build verif

package util

// Contracts checked by /verif/gvc (comment-only; see /verif/DESIGN.md).

// PtrPtrSet is used as a set of pointer pairs.  The two methods are given
// their set meaning as an assumed (trusted) contract; the representation
// (map of maps keyed by reflect's pointer value) is not verified.

//@ func (PtrPtrSet).Contains
//@   props C17 C18
//@   trusted
//@   nopanic
//@   pure
//@   ensures result == inPP(p, ref(ptr1), ref(ptr2))

//@ func (PtrPtrSet).Add
//@   props C17 C18
//@   trusted
//@   nopanic
//@   modifies p[*]
//@   ensures forall(a, forall(b, inPP(p, a, b) == (old(inPP(p, a, b)) || (a == ref(ptr1) && b == ref(ptr2)))))

// Number rendering (C18, C04, C20): the text of a non-integral number is
// exactly strconv's shortest decimal that parses back to the same float64, of
// an integral one the decimal of the int64.  ASSUMED (strconv's documented
// behaviour): with precision -1 FormatFloat is injective on non-NaN values,
// which is what keeps rendering, map keys and set membership from merging
// numbers that == tells apart beyond its tolerance.
//@ func FmtFloat
//@   props C18 C04 C20
//@   nopanic
//@   modifies
//@   ensures #shortest result == strconv.FormatFloat(n, 'f', -1, 64)

//@ func FmtInt
//@   props C18 C04 C20
//@   nopanic
//@   modifies
//@   ensures #decimal result == strconv.FormatInt(n, 10)
