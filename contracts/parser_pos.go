//go:build verif

package pos

// Contracts checked by /verif/gvc (comment-only file, compiled out unless
// the build tag `verif` is set).  Syntax: /verif/DESIGN.md appendix E.

//@ iface (Positionable).Position
//@   pure
//@   nopanic

//@ func Range
//@   props C08
//@   requires from != nil && to != nil
//@   fails_iff to.Position().Idx < from.Position().Idx
//@   ensures #start result.Idx == from.Position().Idx
//@   ensures #end result.IdxEnd == to.Position().IdxEnd
//@   ensures #linecol result.Line == from.Position().Line && result.Col == from.Position().Col

//@ func (*Pos).Move
//@   props C09 C19
//@   requires p != nil
//@   nopanic
//@   modifies p.Idx, p.Line, p.Col
//@   ensures #idx p.Idx == old(p.Idx)+1 && p.IdxEnd == old(p.IdxEnd)
//@   ensures #newline r == '\n' ==> p.Line == old(p.Line)+1 && p.Col == 0
//@   ensures #other r != '\n' ==> p.Line == old(p.Line) && p.Col == old(p.Col)+1
