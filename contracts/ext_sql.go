//go:build verif

package sql

// Contracts checked by /verif/gvc (comment-only; see /verif/DESIGN.md).

//@ func init
//@   props C20
//@   ensures #and mapHas(logicalFunPrecTbl, LOGIC_AND_BOOL_BOOL) && mapGet(logicalFunPrecTbl, LOGIC_AND_BOOL_BOOL) == oper.BP_LOGIC_AND
//@   ensures #or mapHas(logicalFunPrecTbl, LOGIC_OR_BOOL_BOOL) && mapGet(logicalFunPrecTbl, LOGIC_OR_BOOL_BOOL) == oper.BP_LOGIC_OR
//@   ensures #not mapHas(logicalFunPrecTbl, LOGIC_NOT_BOOL) && mapGet(logicalFunPrecTbl, LOGIC_NOT_BOOL) == oper.BP_PREFIX
//@   ensures #only forall(v, mapHas(logicalFunPrecTbl, v) ==> v == LOGIC_AND_BOOL_BOOL || v == LOGIC_OR_BOOL_BOOL || v == LOGIC_NOT_BOOL)
//@   ensures #nonnil logicalFunPrecTbl != nil

// compile: `outerPrec` is the binding power of the enclosing logical
// connective (0 when there is none).  Where the closure of a call node is
// created, parentheses are decided: they must be present whenever the call is
// a logical connective that binds looser in SQL than the enclosing one.
//@ func compile
//@   props C20
//@   modifies all
//@   uses sql.init types.init val.init
//@   requires env1 != nil
//@   requires #parent outerPrec == 0 || outerPrec == oper.BP_LOGIC_OR || outerPrec == oper.BP_LOGIC_AND || outerPrec == oper.BP_PREFIX
//@   at closure [parens]: assert #needed (ok && sqlPrec(outerPrec) > sqlPrec(prec)) ==> parens
//@   at closure [parens]: assert #only-logical parens ==> ok
//@   at call compile: assert #child-context typeis(expr, *ast.CallExpr) ==> arg2 == prec

//@ func fmtVal
//@   props C20
//@   uses types.init val.init
//@   requires v != nil
//@   requires (v.Type == types.Bool ==> dynis(v, val.BoolVal)) && (v.Type == types.Num ==> dynis(v, val.NumVal)) && (v.Type == types.Str ==> dynis(v, val.StrVal)) && (v.Type == types.Time ==> dynis(v, val.TimeVal))
//@   fails_iff v.Type != types.Bool && v.Type != types.Num && v.Type != types.Str && v.Type != types.Time
//@   ensures #bool v.Type == types.Bool ==> result == ite(v.Bool().V, True, False)
//@   ensures #str v.Type == types.Str ==> result == strconv.Quote(v.Str().V)
//@   ensures #int (v.Type == types.Num && isIntegral(v.Num().V) && inInt64(v.Num().V)) ==> result == util.FmtInt(int64(v.Num().V))
//@   ensures #float (v.Type == types.Num && !(isIntegral(v.Num().V) && inInt64(v.Num().V))) ==> result == util.FmtFloat(v.Num().V)
