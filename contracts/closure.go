//go:build verif

package closure

// Contracts checked by /verif/gvc (comment-only; see /verif/DESIGN.md).

// Debug (power-assert) compilation, C19.

// The recorder: evaluate the wrapped closure exactly once, then record the
// value it returned under column col+1, and return that same value.
//@ closure wrapForDebug$1$1
//@   props C19
//@   preserves env.Dgb
//@   requires cl != nil && env != nil && (typeis(env.Dgb, *debug.Record) ==> env.Dgb.(*debug.Record) != nil)
//@   modifies all
//@   at call Rec: assert #after-evaluation ncalls() == old(ncalls()) + 1 && arg1 == callret(old(ncalls())) && arg2 == col + 1
//@   ensures #same-value ncalls() == old(ncalls()) + 1 && callee(old(ncalls())) == cl && result == callret(old(ncalls()))

// Which terms are recorded: literals and constructors are returned unwrapped;
// identifier, call, subscript and member terms are wrapped by a recorder that
// captures the term's own closure and its own debug column.
//@ func wrapForDebug
//@   props C19
//@   requires cl != nil
//@   modifies
//@   ensures #literals (typeis(expr, *ast.StrExpr) || typeis(expr, *ast.NumExpr) || typeis(expr, *ast.TimeExpr) || typeis(expr, *ast.BoolExpr) || typeis(expr, *ast.ListExpr) || typeis(expr, *ast.MapExpr) || typeis(expr, *ast.ObjExpr)) ==> result == cl
//@   ensures #ident typeis(expr, *ast.IdentExpr) ==> captured(result, cl) == cl && captured(result, col) == expr.(*ast.IdentExpr).Col
//@   ensures #call typeis(expr, *ast.CallExpr) ==> captured(result, cl) == cl && captured(result, col) == expr.(*ast.CallExpr).DBGCol
//@   ensures #subscript typeis(expr, *ast.SubscriptExpr) ==> captured(result, cl) == cl && captured(result, col) == expr.(*ast.SubscriptExpr).DBGCol
//@   ensures #member typeis(expr, *ast.MemberExpr) ==> captured(result, cl) == cl && captured(result, col) == expr.(*ast.MemberExpr).DBGCol

// DebugCompile: the record is cleared before the compiled closure runs.
//@ closure DebugCompile$1
//@   props C19
//@   requires env != nil && closure != nil && typeis(env.Dgb, *debug.Record) && env.Dgb.(*debug.Record) != nil
//@   modifies all
//@   at call dyn: assert #cleared-first len(env.Dgb.(*debug.Record).vs) == 0
