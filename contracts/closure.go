//go:build verif

package closure

// Contracts checked by /verif/gvc (comment-only; see /verif/DESIGN.md).

// Debug (power-assert) compilation, C19.

// The recorder: evaluate the wrapped closure exactly once, then record the
// value it returned under column col+1, and return that same value.
//@ closure wrapForDebug$1$1
//@   props C19
//@   preserves env.Dgb
//@   requires cl != nil && env != nil && (typeis(env.Dgb, *debug.Record) ==> env.Dgb.(*debug.Record) != nil)
//@   modifies all
//@   at call Rec: assert #after-evaluation ncalls() == old(ncalls()) + 1 && arg1 == callret(old(ncalls())) && arg2 == col + 1
//@   ensures #same-value ncalls() == old(ncalls()) + 1 && callee(old(ncalls())) == cl && result == callret(old(ncalls()))

// Which terms are recorded: literals and constructors are returned unwrapped;
// identifier, call, subscript and member terms are wrapped by a recorder that
// captures the term's own closure and its own debug column.
//@ func wrapForDebug
//@   props C19 C03
//@   requires cl != nil
//@   modifies
//@   ensures #nonnil result != nil
//@   ensures #literals (typeis(expr, *ast.StrExpr) || typeis(expr, *ast.NumExpr) || typeis(expr, *ast.TimeExpr) || typeis(expr, *ast.BoolExpr) || typeis(expr, *ast.ListExpr) || typeis(expr, *ast.MapExpr) || typeis(expr, *ast.ObjExpr)) ==> result == cl
//@   ensures #ident typeis(expr, *ast.IdentExpr) ==> captured(result, cl) == cl && captured(result, col) == expr.(*ast.IdentExpr).Col
//@   ensures #call typeis(expr, *ast.CallExpr) ==> captured(result, cl) == cl && captured(result, col) == expr.(*ast.CallExpr).DBGCol
//@   ensures #subscript typeis(expr, *ast.SubscriptExpr) ==> captured(result, cl) == cl && captured(result, col) == expr.(*ast.SubscriptExpr).DBGCol
//@   ensures #member typeis(expr, *ast.MemberExpr) ==> captured(result, cl) == cl && captured(result, col) == expr.(*ast.MemberExpr).DBGCol

// DebugCompile: the record is cleared before the compiled closure runs.
//@ closure DebugCompile$1
//@   props C19
//@   requires env != nil && closure != nil && typeis(env.Dgb, *debug.Record) && env.Dgb.(*debug.Record) != nil
//@   modifies all
//@   at call dyn: assert #cleared-first len(env.Dgb.(*debug.Record).vs) == 0

// ---- closure compiler: compile time (C03, C06) -----------------------------
// Each sub-expression is compiled exactly once, in source order, and the
// closures obtained are stored, in that order, in the closure returned.
//@ func compile
//@   props C03 C06
//@   requires env1 != nil
//@   modifies
//@   records compile0 wrapForDebug
//@   ensures #nonnil result != nil
//@   ensures #plain !dbg ==> scalls() == 1 && scall(0, compile0, expr, env1, dbg) && result == sret(0, compile0)
//@   ensures #debug dbg ==> scalls() == 2 && scall(0, compile0, expr, env1, dbg) && scall(1, wrapForDebug, expr, sret(0, compile0)) && result == sret(1, wrapForDebug)

//@ func compile0
//@   props C03 C06
//@   requires env1 != nil
//@   modifies
//@   records compile staticDispatch dynamicDispatch
//@   loop 1 invariant rangeindex + 1 <= len(els) && same(els, expr.(*ast.ListExpr).Elems) && len(cs) == sz && sz == len(els) && isfresh(cs) && scalls() == rangeindex + 1 && forall(j, 0, rangeindex + 1, scall(j, compile, els[j], env1, dbg) && cs[j] == sret(j, compile))
//@   loop 2 invariant rangeindex + 1 <= len(expr.(*ast.MapExpr).Pairs) && len(cs) == sz && sz == len(expr.(*ast.MapExpr).Pairs) && isfresh(cs) && scalls() == 2 * (rangeindex + 1) && forall(j, 0, rangeindex + 1, scall(2 * j, compile, expr.(*ast.MapExpr).Pairs[j].Key, env1, dbg) && scall(2 * j + 1, compile, expr.(*ast.MapExpr).Pairs[j].Val, env1, dbg) && cs[j].k == sret(2 * j, compile) && cs[j].v == sret(2 * j + 1, compile))
//@   loop 3 invariant rangeindex + 1 <= len(expr.(*ast.ObjExpr).Fields) && len(cs) == sz && sz == len(expr.(*ast.ObjExpr).Fields) && isfresh(cs) && scalls() == rangeindex + 1 && forall(j, 0, rangeindex + 1, scall(j, compile, expr.(*ast.ObjExpr).Fields[j].Val, env1, dbg) && cs[j] == sret(j, compile))
//@   ensures #nonnil result != nil
//@   ensures #leaf typeis(expr, *ast.StrExpr) || typeis(expr, *ast.NumExpr) || typeis(expr, *ast.BoolExpr) || typeis(expr, *ast.TimeExpr) || typeis(expr, *ast.IdentExpr) ==> scalls() == 0
//@   ensures #list typeis(expr, *ast.ListExpr) && len(expr.(*ast.ListExpr).Elems) > 0 ==> scalls() == len(expr.(*ast.ListExpr).Elems) && len(captured(result, cs)) == len(expr.(*ast.ListExpr).Elems) && captured(result, sz) == len(expr.(*ast.ListExpr).Elems) && forall(j, 0, len(expr.(*ast.ListExpr).Elems), scall(j, compile, expr.(*ast.ListExpr).Elems[j], env1, dbg) && captured(result, cs)[j] == sret(j, compile))
//@   ensures #map typeis(expr, *ast.MapExpr) && len(expr.(*ast.MapExpr).Pairs) > 0 ==> scalls() == 2 * len(expr.(*ast.MapExpr).Pairs) && len(captured(result, cs)) == len(expr.(*ast.MapExpr).Pairs) && forall(j, 0, len(expr.(*ast.MapExpr).Pairs), scall(2 * j, compile, expr.(*ast.MapExpr).Pairs[j].Key, env1, dbg) && scall(2 * j + 1, compile, expr.(*ast.MapExpr).Pairs[j].Val, env1, dbg) && captured(result, cs)[j].k == sret(2 * j, compile) && captured(result, cs)[j].v == sret(2 * j + 1, compile))
//@   ensures #obj typeis(expr, *ast.ObjExpr) && len(expr.(*ast.ObjExpr).Fields) > 0 ==> scalls() == len(expr.(*ast.ObjExpr).Fields) && len(captured(result, cs)) == len(expr.(*ast.ObjExpr).Fields) && forall(j, 0, len(expr.(*ast.ObjExpr).Fields), scall(j, compile, expr.(*ast.ObjExpr).Fields[j].Val, env1, dbg) && captured(result, cs)[j] == sret(j, compile))
//@   ensures #call typeis(expr, *ast.CallExpr) ==> scalls() == 1 && ite(expr.(*ast.CallExpr).Resolved == "", scall(0, dynamicDispatch, env1, expr.(*ast.CallExpr), dbg) && result == sret(0, dynamicDispatch), scall(0, staticDispatch, env1, expr.(*ast.CallExpr), dbg) && result == sret(0, staticDispatch))
//@   ensures #subscript typeis(expr, *ast.SubscriptExpr) ==> scalls() == 2 && scall(0, compile, expr.(*ast.SubscriptExpr).Var, env1, dbg) && scall(1, compile, expr.(*ast.SubscriptExpr).Idx, env1, dbg) && captured(result, vac) == sret(0, compile) && captured(result, idxc) == sret(1, compile)
//@   ensures #member typeis(expr, *ast.MemberExpr) ==> scalls() == 1 && scall(0, compile, expr.(*ast.MemberExpr).Obj, env1, dbg) && captured(result, obj) == sret(0, compile) && captured(result, name) == expr.(*ast.MemberExpr).Field.Name

//@ func compileArgs
//@   props C03 C06
//@   requires env1 != nil
//@   modifies
//@   records compile
//@   loop 1 invariant rangeindex + 1 <= len(call.Args) && len(cs) == len(call.Args) && isfresh(cs) && scalls() == rangeindex + 1 && forall(j, 0, rangeindex + 1, scall(j, compile, call.Args[j], env1, dbg) && cs[j] == sret(j, compile))
//@   ensures #args len(result) == len(call.Args) && scalls() == len(call.Args) && forall(j, 0, len(call.Args), scall(j, compile, call.Args[j], env1, dbg) && result[j] == sret(j, compile))

//@ func makeCallClosure
//@   props C03 C06
//@   modifies
//@   ensures #captures result != nil && captured(result, fun) == fun && same(captured(result, argCs), argCs)

//@ func staticDispatch
//@   props C03 C06
//@   requires env1 != nil
//@   modifies
//@   records val.(*Env).MustGetMonoFun val.(*Env).MustGetPolyFuns compileArgs makeCallClosure
//@   ensures #lookup ite(call.Index < 0, scall(0, MustGetMonoFun, env1, call.Resolved), scall(0, MustGetPolyFuns, env1, call.Resolved))
//@   ensures #nonnil result != nil
//@   ensures #call scalls() == 3 && scall(1, compileArgs, env1, call, dbg) && scall(2, makeCallClosure, ite(call.Index < 0, sret(0, MustGetMonoFun), sret(0, MustGetPolyFuns)[call.Index]), sret(1, compileArgs)) && result == sret(2, makeCallClosure)

//@ func dynamicDispatch
//@   props C03 C06
//@   requires env1 != nil
//@   modifies
//@   records compile compileArgs
//@   ensures #nonnil result != nil
//@   ensures #parts scalls() == 2 && scall(0, compile, call.Callee, env1, dbg) && scall(1, compileArgs, env1, call, dbg) && captured(result, cc) == sret(0, compile) && same(captured(result, cs), sret(1, compileArgs))

// ---- closure compiler: run time (C06, C03) ---------------------------------
// The compiled closures call their sub-closures exactly once each, in source
// order (log of the calls through function values made by the activation).
// ASSUMED at the dynamic calls, PROVED for the closure's own code: the arrays
// of sub-closures are not written.

// list literal
//@ closure compile0$7
//@   props C06 C03
//@   modifies all
//@   preserves cs[*]
//@   records dyn
//@   loop 1 invariant rangeindex + 1 <= len(cs) && scalls() == rangeindex + 1 && forall(j, 0, rangeindex + 1, scall(j, dyn, cs[j], env))
//@   loop 1 invariant #values l != nil && isListV(l.Vl()) && len(l.V) == sz && forall(j, 0, rangeindex + 1, l.V[j] == sret(j, dyn))
//@   ensures #order scalls() == len(cs) && forall(j, 0, len(cs), scall(j, dyn, cs[j], env))
//@   ensures #values sz == len(cs) ==> isListV(result) && forall(j, 0, len(cs), result.List().V[j] == sret(j, dyn))

// map literal
//@ closure compile0$9
//@   props C06 C03
//@   modifies all
//@   preserves cs[*]
//@   records dyn
//@   loop 1 invariant rangeindex + 1 <= len(cs) && scalls() == 2 * (rangeindex + 1) && forall(j, 0, rangeindex + 1, scall(2 * j, dyn, cs[j].k, env) && scall(2 * j + 1, dyn, cs[j].v, env))
//@   ensures #order scalls() == 2 * len(cs) && forall(j, 0, len(cs), scall(2 * j, dyn, cs[j].k, env) && scall(2 * j + 1, dyn, cs[j].v, env))

// object literal
//@ closure compile0$11
//@   props C06 C03
//@   modifies all
//@   preserves cs[*]
//@   records dyn
//@   loop 1 invariant rangeindex + 1 <= len(cs) && scalls() == rangeindex + 1 && forall(j, 0, rangeindex + 1, scall(j, dyn, cs[j], env))
//@   ensures #order scalls() == len(cs) && forall(j, 0, len(cs), scall(j, dyn, cs[j], env))

// subscript: container first, then the index, each once
//@ closure compile0$13
//@   props C06 C03
//@   modifies all
//@   records dyn
//@   ensures #order scalls() == 2 && scall(0, dyn, vac, env) && scall(1, dyn, idxc, env)

// member access: by the name of the field, looked up in the run-time object's
// own type (C01 / C16: the position recorded by the checker belongs to the
// static type; an equal run-time type may order its fields differently)
//@ closure compile0$14
//@   props C06 C03 C01 C16
//@   ensures #by-name isObjV(sret(0, dyn)) && mapHas(sret(0, dyn).Type.Obj().Index, name) ==> result == sret(0, dyn).Obj().V[mapGet(sret(0, dyn).Type.Obj().Index, name)]
//@   modifies all
//@   records dyn
//@   ensures #order scalls() == 1 && scall(0, dyn, obj, env)

// a call: strict arguments are evaluated once each in source order and then
// the function is invoked once; arguments of a lazy function are not
// evaluated but wrapped, in order, into thunks
//@ closure makeCallClosure$1
//@   props C06 C03
//@   modifies all
//@   preserves argCs[*]
//@   records dyn thunkify val.(*FunVal).Call
//@   loop 1 invariant #a rangeindex + 1 <= len(argCs) && scalls() == rangeindex + 1
//@   loop 1 invariant #b forall(j, 0, rangeindex + 1, ite(fun.Lazy, scall(j, thunkify, argCs[j], env), scall(j, dyn, argCs[j], env)))
//@   ensures #count scalls() == len(argCs) + 1
//@   ensures #order forall(j, 0, len(argCs), ite(fun.Lazy, scall(j, thunkify, argCs[j], env), scall(j, dyn, argCs[j], env)))
//@   loop 1 invariant #values len(args) == len(argCs) && isfresh(args) && forall(j, 0, rangeindex + 1, args[j] == ite(fun.Lazy, sret(j, thunkify), sret(j, dyn)))
//@   ensures #invoke scall(len(argCs), Call, fun) && result == sret(len(argCs), Call)
//@   at call Call: assert #arguments-in-order arg0 == fun && len(arg1) == len(argCs) && forall(j, 0, len(argCs), arg1[j] == ite(fun.Lazy, sret(j, thunkify), sret(j, dyn)))

//@ closure thunkify$1
//@   props C06 C03
//@   modifies all
//@   records dyn
//@   ensures #forced scalls() == 1 && scall(0, dyn, cl, env) && result == sret(0, dyn)

// dynamic dispatch: the callee expression is evaluated first, once, then the call proceeds as above
//@ closure dynamicDispatch$1
//@   props C06 C03
//@   modifies all
//@   records dyn makeCallClosure
//@   ensures #order scalls() == 3 && scall(0, dyn, cc, env) && scall(1, makeCallClosure, sret(0, dyn).Fun(), cs) && scall(2, dyn, sret(1, makeCallClosure), env) && result == sret(2, dyn)
