#!/bin/bash
# Runs the repository's own test suite (guard off) on a scratch copy of a tree
# (default /repo) and compares with the stable baseline (BASELINE.json).
# The suite rewrites generated files in place, hence the copy.
set -u
SRC=${1:-/repo}
export GOFLAGS=-mod=mod GOPROXY=off GOSUMDB=off GOTOOLCHAIN=local
S=$(mktemp -d /tmp/suite.XXXXXX)
cp -r "$SRC"/. "$S"/
rm -rf "$S/.git"
(cd "$S" && go test -json -vet=off -count=1 -timeout 25m ./... > "$S/out.json" 2>"$S/err.txt")
python3 - "$S/out.json" <<'PY'
import json,sys
base=json.load(open('/root/.vp/BASELINE.json'))['stable_pass']
res={}
for l in open(sys.argv[1]):
    try: e=json.loads(l)
    except: continue
    if e.get('Action') in('pass','fail') and e.get('Test'):
        res[e['Package']+'::'+e['Test']]=e['Action']
missing=[t for t in base if res.get(t)!='pass']
print('baseline',len(base),'passing now',sum(1 for t in base if res.get(t)=='pass'),'not passing',len(missing))
for t in missing[:20]: print('  NOT PASSING',t,res.get(t))
sys.exit(1 if missing else 0)
PY
rc=$?
rm -rf "$S"
exit $rc
