#!/bin/bash
# usage: verify_seeded.sh <seeded-id>   (e.g. C02-1)
# Confirms, in a scratch worktree of /repo HEAD, that the seeded change
# compiles, keeps the 629-test suite green, and that its demonstration fails
# with the change and passes without it.  Writes seeded/<id>/verified.json.
set -u
ID=$1; D=/verif/seeded/$ID
export GOFLAGS=-mod=mod GOPROXY=off GOSUMDB=off GOTOOLCHAIN=local
W=/tmp/vs_$ID
git -C /repo worktree remove --force $W >/dev/null 2>&1; rm -rf $W
git -C /repo worktree add --detach $W HEAD >/dev/null 2>&1 || exit 2
mkdir -p $W/.mutant/demo && cp $D/demo/demo_test.go $W/.mutant/demo/
demo() { (cd $W && go test -vet=off -count=1 ./.mutant/demo/ >/tmp/vs_$ID.demo.txt 2>&1); echo $?; }
without=$(demo)
applies=0; (cd $W && git apply $D/patch.diff) && applies=1
builds=0; (cd $W && go build ./... >/dev/null 2>&1) && builds=1
suite=0; /verif/tools/run_suite.sh $W >/tmp/vs_$ID.suite.txt 2>&1 && suite=1
with=$(demo)
cat > $D/verified.json <<JSON
{"id":"$ID","repo_head":"$(git -C /repo rev-parse --short HEAD)","patch_applies":$applies,"builds":$builds,"suite_passes":$suite,
 "demo_exit_without_change":$without,"demo_exit_with_change":$with,
 "commands":["git apply patch.diff","go build ./...","/verif/tools/run_suite.sh <worktree>","go test -vet=off -count=1 ./.mutant/demo/"]}
JSON
cat $D/verified.json; tail -1 /tmp/vs_$ID.suite.txt
git -C /repo worktree remove --force $W >/dev/null 2>&1; rm -rf $W /tmp/vs_$ID.*
