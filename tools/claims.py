TB = "Trusted: go/ssa as the reading of the source, the gvc VC generator, the SMT solvers, the standard-library models (math, fmt, strconv, time: uninterpreted pure functions), mathematical int arithmetic; strings are abstract."
CLAIMED = {
 "C08": ("other",
   "Deductive: the span contract of pos.Range (start of the first token, end of the last, line/col of the first) is proved for all inputs from the go/ssa of the current source. The Pratt core (binding powers, associativity) is not under contract yet.",
   TB + " Parser core outside the verified subset.", "contract-based deductive verification (VC generation over go/ssa, SMT)"),
 "C09": ("other",
   "Deductive: the cursor contract of (*Pos).Move (index +1, newline resets the column and bumps the line) is proved for all inputs. Lexer loop and rules not under contract yet.",
   TB, "contract-based deductive verification (VC generation over go/ssa, SMT)"),
}
NOT_CLAIMED = {}
