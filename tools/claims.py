TB = ("Trusted: go/packages + go/ssa (x/tools v0.29.0) as the reading of the source, the gvc VC generator, the SMT solvers "
      "(z3 5.1, z3 4.8.12, cvc5 1.0), the standard-library models of gvc/models.go (math, fmt, strconv, time, reflect: uninterpreted or "
      "axiomatised), mathematical int arithmetic, abstract string contents. Functions whose contract is `trusted`/`abstract` and every "
      "havocked call are listed per run in the evidence file (assumptions). ")
BS = ("The bounded stand-in is run-time checking of the stated contract on the real functions over an enumerated input space; it is labelled "
      "bounded in the evidence and its evaluations are never counted as discharged obligations. ")
TECH = "contract-based deductive verification (VC generation over go/ssa, SMT: z3/cvc5)"
TECHB = TECH + " + labelled bounded stand-in (run-time contract checking over an enumerated space) for the functions outside the verifier's reach"
CLAIMED = {
 "C01": ("other",
   "Deductive (all inputs): every value constructor, 40+ built-in closures and every VM handler (switch loop and generated call-threaded "
   "handlers) return a value whose Go representation variant agrees with its recorded type and whose scalar payload is the specified one; "
   "every unsafe variant cast on those paths is an obligation discharged from the typed precondition; object member read is by the value's "
   "own field index (OBJ_LOAD); types.Equals == structural equality by field name (tyEq) incl. the memo set; immutability of type/value "
   "fields by a frame scan. Whole-pipeline preservation (Check -> compiler -> evaluator) is NOT mechanised: it is covered by the bounded "
   "stand-in (executable hasType on the results of 4 back ends, all programs <= 5 AST nodes over a fixed signature, random beyond).",
   TB + BS, TECHB),
 "C02": ("other",
   "Deductive (all inputs): fails_iff / nopanic contracts: list/map subscripts, % (modzero), get-with-default total, VM stack Push/Pop "
   "(growth, no underflow under the typed-stack precondition), operand-width assertions of the emitters (capacity), every nil / index / "
   "cast / division check inside the 57 opcases, the generated handlers and the built-in closures under contract. The typed-stack "
   "precondition of the handlers is assumed (it is C01/C11). Whole programs vs the reference outcome: bounded stand-in.",
   TB + BS, TECHB),
 "C03": ("other",
   "Deductive (all inputs): each switch-loop opcase and the generated OP_X_Handler satisfy the same deterministic contract (pc advance, "
   "stack effect, result value, lower stack unchanged); built-in closure and VM handler are proved against the same result expression "
   "for the table-driven operators; NEW_LIST / NEW_OBJ / NEW_MAP (later duplicate key wins) / CALL_* argument order; call0 restores "
   "pc/stack/code; emitter capacity failures; the VM compiler is a post-order linearisation: for every node kind the exact sequence "
   "of emissions compile / compileInvokeStatic / compileInvokeDynamic / emitCond and the four by-need intrinsic emitters perform "
   "(operands first, each exactly once, in source order, then the node's own instruction with its operands; a lazy argument as a "
   "constant thunk of the separately compiled argument; the callee looked up where the checker resolved it) is a postcondition over "
   "an activation-local ghost log of the calls made, the dispatch through the intrinsic table being covered by a function-type "
   "contract every table entry proves; the closure compiler has the same shape of contract (compile0 compiles every sub-expression "
   "exactly once in source order and stores the closures in that order in the closure it returns; each run-time closure calls its "
   "sub-closures once each in that order; staticDispatch / dynamicDispatch / compileArgs / makeCallClosure), and so has the AST "
   "interpreter. Equality of whole programs on 4 back ends incl. host-call traces: bounded stand-in. "
   "Known finding F13 (call-threaded loop stops after 1024 instructions) is open.",
   TB + BS, TECHB),
 "C04": ("other",
   "Deductive (all double bit patterns): numeric operators = IEEE RNE operations, tolerance comparisons (EPS as exact binary64), "
   "%, abs/ceil/floor/round as roundToIntegral modes, bool/str/time comparisons, len, get/isset defaults, list min/max (partial), "
   "NumVal.IsInt incl. the int64 range, each for the closure AND the VM handler. String-valued results (string(), union/intersect/diff "
   "contents, match, literal decoding, strtotime) only by the bounded stand-in against an independent reference evaluator.",
   TB + BS, TECHB),
 "C05": ("other",
   "Deductive (all syntax trees, all environments): types.Check - for every node kind the exact sequence of sub-checks and "
   "assertions performed (every element / entry / field / argument is checked exactly once, in order, and compared with what the "
   "rule demands: later list elements with the first, later map keys and values with the first pair, a map key primitive, a list "
   "index with num, a map index with the key type, every argument with its parameter after the arity test), the type returned and "
   "what is attached to the node for the back ends; typeAssert fails iff the types differ (tyEq), so a normal return means the rule "
   "holds and an ill-typed node is never accepted; overload resolution - the exactly matching monomorphic key is looked up first "
   "and decides when present, otherwise the polymorphic candidates are tried in registration order and the first one inferFun can "
   "instantiate is returned and its position attached; inferFun - pseudo-signature of fresh variables, two unifications over one "
   "substitution, rejection unless the substituted result is fully concrete (slotFree == 'no type variable'), instance built from "
   "the unified argument tuple; OverLoaded kind; constructors List / Map / Fun / Tuple / Obj (Obj fails exactly on a duplicate "
   "field); unify binds a variable only to a type not containing it and never to two different types; Equals family == tyEq. "
   "ASSUMED: the types a typing environment returns are well-formed. Not deductive: the completeness direction (every well-typed "
   "program is accepted) and the global unifier laws - bounded stand-in against an independent reference checker (well- and "
   "ill-typed programs, registration orders). Known findings F19, F23 are open.",
   TB + BS, TECHB),
 "C06": ("other",
   "Deductive (all inputs): ghost call-sequence contracts of if / and / or (condition once, then exactly the selected thunk, nothing "
   "else), argument order of OP_CALL_BY_VALUE / BY_NEED / DYNAMIC_CALL and literal constructors in both dispatch loops, call0 frame, "
   "JUMP / IF_TRUE semantics; VM code generation: emitCond emits exactly cond, IF_TRUE, then, JUMP, else (each arm compiled once, "
   "nothing folded away), and / or / not are emitted as the corresponding conditional, strict arguments and literal members are "
   "compiled exactly once in source order before the call / constructor instruction, lazy arguments become thunks in argument "
   "order (emission-sequence postconditions); AST interpreter: every strict operand (list element, map key then value, object "
   "field, subscript container then index, call argument) is evaluated exactly once in source order, a call evaluates nothing but "
   "what resolveFun / interpArgs evaluate and then invokes the function once, lazy arguments are wrapped in order into thunks that "
   "evaluate their expression once per force (sequence postconditions over the activation's own calls, the syntax tree proved "
   "unchanged); closure compiler: each run-time closure (list / map / object literal, subscript, member, call, dynamic dispatch, thunk) "
   "calls its sub-closures exactly once each in source order - map key before value, container before index, callee before "
   "arguments, strict arguments before the call, lazy arguments wrapped not evaluated (log of the calls through function values; "
   "ASSUMED: those calls do not write the closure's captured variables or its arrays of sub-closures). Whole-program traces: "
   "bounded stand-in (trace equality, poisoned branches).",
   TB + BS, TECHB),
 "C07": ("other",
   "Deductive: the Callable built by (*Expr).Compile reaches the compiled closure only after envCheck has accepted the environment "
   "of THIS call (site assertion at the dynamic call, ghost token envOK(compile env, run env) produced only by envCheck's contract) "
   "and returns envCheck's error otherwise; types.Equals == tyEq (what envCheck compares with), val.(*Env).Get total, envCheck and "
   "the Callable literal are panic-contained (scan obligation); the per-binding test envCheck applies returns normally only if the "
   "run-time environment binds the name and types.Equals (== tyEq) holds between the declared type and the value's type. envCheck's "
   "iteration over the compile-time environment (Go map range, recover) is outside the subset: its contract is ASSUMED and its "
   "accept/reject behaviour is checked by the bounded stand-in over (compile env, run env) pairs.",
   TB + BS, TECHB),
 "C08": ("other",
   "Deductive (all inputs, all operator tables): pos.Range span contract; the associativity encoding of the parselets - binaryL / "
   "binaryN / unaryPrefix hand down exactly their own binding power, binaryR and the else-branch of ?: hand down the immediate "
   "float32 predecessor of bp (rbp < bp and no power strictly between, i.e. l > rbp <=> l >= bp; math.Nextafter32 modelled exactly "
   "on the IEEE bit pattern); the Pratt loop calls a led only for a token whose left binding power exceeds rbp; every node built in "
   "the loop passes infixNCheck, which fails exactly on a non-associative operator chained with itself; node kind / operator name / "
   "operand / span of each parselet. The recursion p.expr goes through function tables and recover-based backtracking and is "
   "ASSUMED (trusted contract): whole-parser behaviour is covered by the bounded stand-in against a reference precedence parser.",
   TB + BS + "Parser core not under contract.", TECHB),
 "C09": ("other",
   "Deductive (all inputs, all rule sets): (*Pos).Move cursor contract; skipSpace skips exactly a maximal run of white space; "
   "next returns EOF only at the end of input, otherwise a token that starts at the first non-space rune at or after the previous "
   "position, with Idx <= IdxEnd == the new cursor and only white space in between (the index-level half of 'tokens partition the "
   "input'); line / column: the lexer cursor always equals (number of newlines before Idx, runes since the last newline) - recursive "
   "spec functions lineAt / colAt, induction over the consumed runes in both loops - and every token carries lineAt / colAt of its "
   "own start index. Assumed: a rule's match function has no effect on the lexer. Rule bodies (regexp, longest match, whole-word "
   "tests): bounded stand-in against a reference maximal-munch lexer.",
   TB + BS + "Lexer rules (regexp) not under contract.", TECHB),
 "C10": ("other",
   "Deductive (all well-formed parser trees, unbounded - induction through the recursive calls): Desugar returns a tree of core "
   "forms only (core), which is the explicit-call form of its input (dsg: unary/binary/?: become calls with the operands in source "
   "order, o.f(args) becomes f(o, args) with the receiver first, parentheses disappear, every other node is copied with its "
   "positions and debug columns), writes nothing that existed before the call (frame obligation) and the structural fields of AST "
   "nodes are written only by constructors (scan); the parser turns every parenthesised expression into a Group node around exactly "
   "the expression parsed inside (parseGroup), which is what keeps (o.f)(x) apart from the method-call sugar o.f(x), and every operator "
   "application into a Unary / Binary / Tenary node carrying exactly the operator's name and its operands in source order (parselets). The semantic half (sugared and explicit notation evaluate alike) and idempotence: "
   "bounded stand-in. Known finding F20 is open.",
   TB + BS, TECHB),
 "C11": ("other",
   "Deductive (all inputs): operand codec round trip (uint16ToByte/byteToUInt16, emitUint16/readUint16), emitters append exactly the "
   "stated bytes and leave the prefix unchanged, back-patch closure writes exactly two bytes and fails iff the value exceeds 16 bits, "
   "constant-pool index, every opcase advances pc by 1 + operand width and keeps sp within the stack; (*bytecode).emitCond emits "
   "cond / IF_TRUE else / then / JUMP end / else with both jumps patched to the addresses of the else arm and of the end (forward, "
   "inside the code, on an instruction boundary), the sub-compilations being the assumed recursive contract; every instruction is "
   "emitted with exactly the operands its decoder reads (emission-sequence postconditions of compile and its helpers: opcode, then "
   "constant index / 16-bit size / 8-bit argument count as the opcase contract expects). Stack-depth balance "
   "of whole compiled programs: bounded stand-in (independent abstract interpreter over the emitted bytecode).",
   TB + BS, TECHB),
 "C12": ("other",
   "Deductive (scan obligations over go/ssa): Eval, Debug, (*Expr).Compile, the Callable, envCheck, types.Infer, conv.ValOf/TypeOf never "
   "let a panic escape: on every path a recover-based handler is deferred before the first instruction that may panic, or the "
   "instruction is a call of a function with that property. conv.TypeEnvOf/ValEnvOf and the debug renderer are ASSUMED total (listed). "
   "Termination / polynomial compile time is not expressible here: only the bounded stand-in (time budget per input) looks at it; "
   "known finding F17 (exponential list/map literal parse) is open.",
   TB + BS, TECHB),
 "C13": ("other",
   "Deductive (scan obligations over go/ssa, functions reachable from the API): the only write to process-wide state outside package "
   "initialisation is tzCache under its mutex (plus the declared in-place sort of an already sorted slice); the only call that prints "
   "is in the built-in print; AST structure fields and type/value fields are immutable after construction (no evaluation step can "
   "change a value of the caller's environment or a constant in place). Determinism of map "
   "rendering and reusability of environments: bounded stand-in (interleaved histories, repeated evaluation).",
   TB + BS, TECHB),
 "C15": ("other",
   "Deductive: conv.ValOf / TypeOf / valOfRV / typeOfRV are panic-contained (scan obligation). The conversion itself runs on package "
   "reflect, for which gvc has no model: faithfulness, type agreement and error cases are checked only by the bounded stand-in over "
   "reflection-generated Go values.",
   TB + BS + "reflect not modelled.", TECHB),
 "C16": ("other",
   "Deductive (all inputs): GetOrDefault returns the payload iff present else the default (closure GET_MAYBE and OP_GET_MAYBE in both "
   "loops), never nil; type equality implies equal kind (tyEq unfolding inside types.equals) so an optional is never equal to its "
   "payload type. That no other built-in accepts an optional, and absence never reaches a run-time access: bounded stand-in "
   "(optional-misuse programs; host data with nil pointers / slices / maps incl. containers whose entries disagree on a nil-able "
   "part, which conv must reject or convert to well-typed values).",
   TB + BS, TECHB),
 "C17": ("other",
   "Deductive (all type trees, unbounded): types.Equals/equals/equalsObj/equalsTuple/equalsFun return exactly tyEq (structural, object "
   "fields by name) with the in-process memo set proved sound (a remembered pair is equal or belongs to an enclosing comparison); "
   "util.PtrPtrSet Add/Contains are given their set meaning as a trusted contract; well-formedness of type trees (variant tag = Kind, "
   "consistent field index, components allocated before their parent) is the precondition. Unification, local soundness (all "
   "inputs): every write of the substitution binds a variable to a well-formed type that does not contain it (occurs check) and a "
   "bound variable is re-bound only to an equal type; freeFrom == !occurs; applySubst / unifyComposite / Obj preserve well-formedness; "
   "slotFree == ground. The global laws (the result substitution unifies, matching completeness): bounded stand-in. Known finding "
   "F24 is open.",
   TB + BS, TECHB),
 "C18": ("other",
   "Deductive (all doubles): NumEQ/NumNE as |x-y| < EPS / >= EPS, IsInt includes the int64 range (what keeps number rendering and "
   "keying injective), the ==/!= handlers and closures on num/bool/str/time; val.Equals / equalsList / equalsObj / equalsMaybe return "
   "exactly the recursive spec valEq (element-wise on lists, field-wise in declared order on objects, payload-wise on optionals, "
   "tolerance on numbers) for all well-formed value trees; equalsMap (Go map iteration) is a trusted contract, String and Key are "
   "abstract; util.FmtFloat / FmtInt - the one formatter behind rendering, map keys and set membership - return exactly strconv's "
   "shortest round-trip decimal / the int64 decimal (injectivity of that is strconv's documented behaviour, assumed). Agreement of ==, key identity, set membership and rendering on value pairs: bounded stand-in. "
   "Known findings F12, F22 are open.",
   TB + BS, TECHB),
 "C19": ("other",
   "Deductive (all inputs): the recorder closure evaluates the wrapped closure exactly once, records the value it returned under the "
   "term's column and returns that same value (ghost call sequence); wrapForDebug wraps exactly identifier / call / subscript / "
   "member terms with their own closure and their own debug column and returns literals and constructors unwrapped; (*Record).Rec "
   "appends exactly one entry, at a column no earlier entry has, leaving earlier entries untouched; DebugCompile clears the record "
   "before the program runs; Debug is panic-contained up to the assumed-total renderer (scan obligation). Equality with normal "
   "evaluation over whole programs and renderer robustness: bounded stand-in (Debug vs Eval, record entries via a read-only hook).",
   TB + BS, TECHB),
 "C20": ("other",
   "Deductive (all inputs): sql.compile - where the closure of a call node is created, parentheses are present whenever the call is "
   "a logical connective that binds looser in SQL (NOT > AND > OR) than the enclosing one, only logical connectives are ever "
   "parenthesised, every child is compiled with its parent's table power, and the table maps exactly AND / OR / NOT to the powers "
   "whose order is the SQL order (package initialiser verified; the table is frozen afterwards - scan); fmtVal - bool -> 1/0, string "
   "-> strconv.Quote, integral in-range number -> integer text, other numbers -> float text, fails exactly on other types. "
   "strconv.Quote itself (one literal, nothing escapes) is an assumption. Whole criteria trees and adversarial strings: bounded stand-in.",
   TB + BS, TECHB),
}
CLAIMED["C14"] = ("other",
   "PARTIAL. Deductive (scan obligations over go/ssa, functions reachable from the API): footprint condition only - every write to "
   "process-wide state (package variables, variables captured by closures created at initialisation) outside package initialisation "
   "is made while holding a package-level mutex or by a declared writer with a stated no-write argument; everything else a compile or "
   "an invocation writes is allocated by the call or reachable from its own engine / arguments. This is the sufficient condition for "
   "independent engines not to interfere; it found F11 (unsynchronised type-variable counter, fixed). Goroutine schedules, the Go "
   "memory model and cgo internals are NOT decided by any contract here; there is no bounded stand-in (a race-detector run would be a "
   "different technique).",
   TB + "Schedules / interleavings not decided.", TECH + " (frame / footprint summary only)")
NOT_CLAIMED = {
 "C14_unused": "Sequential function contracts cannot quantify over goroutine schedules. What the technique can give is the footprint half: the frame scan used for C13 shows that no function reachable from the API writes process-wide state outside a held mutex (F11, the unsynchronised type-variable counter, was found by it and is fixed). Absence of data races for all interleavings does not follow from any contract the verifier can discharge, so the property is not claimed.",
}
