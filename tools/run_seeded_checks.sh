#!/bin/bash
# Applies each seeded change to /repo, runs the quick check of its property,
# records the VIOLATION / KNOWN-FINDING lines, and restores /repo.
# usage: run_seeded_checks.sh [ids...]      results: /verif/seeded/<id>/detected.json
export GOFLAGS=-mod=mod GOPROXY=off GOSUMDB=off GOTOOLCHAIN=local
cd /verif
ids="$@"; [ -z "$ids" ] && ids=$(ls seeded)
for id in $ids; do
  prop=${id%%-*}
  [ -n "$(git -C /repo status --porcelain)" ] && { echo "/repo not clean"; exit 2; }
  git -C /repo apply /verif/seeded/$id/patch.diff || { echo "$id: patch does not apply"; continue; }
  out=$(/verif/bin/gvc check -property $prop -tier quick 2>&1); rc=$?
  git -C /repo checkout -- . ; git -C /repo clean -fdq
  viol=$(echo "$out" | grep -c "^VIOLATION")
  python3 - "$id" "$prop" "$rc" <<PY
import json,sys
out = """$(echo "$out" | grep "^VIOLATION\|^STALE" | cut -c1-400 | sed 's/\\/\\\\/g; s/"""/'"'"''"'"''"'"'/g')"""
json.dump({"id":sys.argv[1],"property":sys.argv[2],"check_exit":int(sys.argv[3]),"lines":[l for l in out.split("\n") if l]}, open("/verif/seeded/"+sys.argv[1]+"/detected.json","w"), indent=1)
PY
  echo "$id exit=$rc violations=$viol"
  echo "$out" | grep "^VIOLATION" | cut -c1-220 | head -6
done
# the checks rewrote evidence for mutated trees: regenerate on the clean tree later
