#!/bin/bash
# dev helper: try_edit.sh FILE 'python-expr transforming s' names...   (scratch copy of /repo, gvc verify)
F=$1; EXPR=$2; shift; shift
S=/tmp/te_$$; rm -rf $S; cp -r /repo $S; rm -rf $S/.git
python3 - "$S/$F" "$EXPR" <<'PY' || { rm -rf $S; exit 2; }
import sys,re
p,expr=sys.argv[1],sys.argv[2]
s=open(p).read()
t=eval(expr)
if t==s: print("NO CHANGE"); sys.exit(1)
open(p,'w').write(t)
PY
(cd $S && GOFLAGS=-mod=mod GOPROXY=off GOSUMDB=off GOTOOLCHAIN=local go build ./... ) || { echo "does not build"; rm -rf $S; exit 2; }
GVC_CONTRACTS=mirror ${GVC:-/verif/bin/gvc} verify -repo $S -timeout 6000 -canaries=false "$@" 2>&1 | grep -v "failed=0" | cut -c1-240
rm -rf $S
