#!/bin/bash
# prints the failure keys the bounded stand-in of PROP reports for tree REPO (default /repo)
P=$1; R=${2:-/repo}; O=$(mktemp)
/verif/bounded/run.sh $P quick 1 $R $O >/dev/null 2>/tmp/bkeys_err.txt || { echo "RUN FAILED"; tail -5 /tmp/bkeys_err.txt; }
python3 -c "
import json,sys
d=json.load(open('$O'))
print('$P', d['evaluations'],'evals;', 'keys:', sorted(set(f['key'] for f in d['failures'])))"
rm -f $O
