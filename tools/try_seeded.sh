#!/bin/bash
# dev helper: apply a seeded change to a scratch copy of /repo and run `gvc verify` on the given names
ID=$1; shift
S=/tmp/ts_$ID; rm -rf $S; cp -r /repo $S; rm -rf $S/.git
(cd $S && patch -p1 -s < /verif/seeded/$ID/patch.diff) || { echo "patch failed"; exit 2; }
GVC_CONTRACTS=mirror ${GVC:-/verif/bin/gvc} verify -repo $S -timeout 6000 "$@" 2>&1 | grep -v "failed=0" | cut -c1-220
rm -rf $S
