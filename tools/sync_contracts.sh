#!/bin/bash
# Copies the contract files (comment-only, //go:build verif) from
# /verif/contracts into the package directories of /repo.
set -e
cd /verif/contracts
for f in *.go; do
  rel=${f%.go}; rel=${rel//_//}
  [ "$rel" = "yae" ] && rel=.
  if [ -d "/repo/$rel" ]; then cp "$f" "/repo/$rel/zz_contracts_verif.go"; else echo "no package dir for $f" >&2; exit 1; fi
done
# the fun/gen.sh pitfall (DESIGN 2.2)
if egrep -q "[A-Z][A-Z_]+ = " /repo/fun/zz_contracts_verif.go 2>/dev/null; then echo "fun contract file matches gen.sh pattern" >&2; exit 1; fi
