#!/usr/bin/env python3
"""Generates the table-driven part of the contracts:
  /verif/contracts/fun.go  - one block per built-in closure (numeric, comparison, logic, string length/concat)
  /verif/contracts/vm.go   - the matching `opcase` of vm.switchThreading (same result expression)
The table is the specification (DESIGN.md appendix D / B): result expression in
terms of operands A0, A1.  Hand-written blocks live in *.hand files that are
appended verbatim."""
import re
K = {'num': 'isNum', 'str': 'isStr', 'bool': 'isBool', 'time': 'isTime', 'list': 'isListV', 'map': 'isMapV', 'maybe': 'isMaybeV', 'any': 'nonnil'}
ACC = {'num': 'num', 'str': 'strv', 'bool': 'boolv', 'time': 'timev'}
def E(kind, i): return f'{ACC[kind]}(A{i})'
n0, n1 = 'num(A0)', 'num(A1)'
s0, s1 = 'strv(A0)', 'strv(A1)'
b0, b1 = 'boolv(A0)', 'boolv(A1)'
t0, t1 = 'timev(A0)', 'timev(A1)'
T = [
 # name, arg kinds, result kind, result expr, props, extra
 ('ADD_NUM', ['num'], None, 'result == A0', 'C01 C02 C03 C04', {}),
 ('ADD_NUM_NUM', ['num', 'num'], 'num', f'same(num(result), {n0} + {n1})', 'C01 C02 C03 C04', {}),
 ('SUB_NUM', ['num'], 'num', f'same(num(result), -{n0})', 'C01 C02 C03 C04', {}),
 ('SUB_NUM_NUM', ['num', 'num'], 'num', f'same(num(result), {n0} - {n1})', 'C01 C02 C03 C04', {}),
 ('MUL_NUM_NUM', ['num', 'num'], 'num', f'same(num(result), {n0} * {n1})', 'C01 C02 C03 C04', {}),
 ('DIV_NUM_NUM', ['num', 'num'], 'num', f'same(num(result), {n0} / {n1})', 'C01 C02 C03 C04', {}),
 ('MOD_NUM_NUM', ['num', 'num'], 'num', f'same(num(result), float64(int64({n0}) % int64({n1})))', 'C01 C02 C03 C04',
     {'fails': f'int64({n1}) == 0'}),
 ('EXP_NUM_NUM', ['num', 'num'], 'num', f'same(num(result), math.Pow({n0}, {n1}))', 'C01 C02 C03 C04', {}),
 ('MAX_NUM_NUM', ['num', 'num'], 'num', f'same(num(result), math.Max({n0}, {n1}))', 'C01 C02 C03 C04', {}),
 ('MIN_NUM_NUM', ['num', 'num'], 'num', f'same(num(result), math.Min({n0}, {n1}))', 'C01 C02 C03 C04', {}),
 ('ABS_NUM', ['num'], 'num', f'same(num(result), math.Abs({n0}))', 'C01 C02 C03 C04', {}),
 ('CEIL_NUM', ['num'], 'num', f'same(num(result), math.Ceil({n0}))', 'C01 C02 C03 C04', {}),
 ('FLOOR_NUM', ['num'], 'num', f'same(num(result), math.Floor({n0}))', 'C01 C02 C03 C04', {}),
 ('ROUND_NUM', ['num'], 'num', f'same(num(result), math.Round({n0}))', 'C01 C02 C03 C04', {}),
 ('EQ_NUM_NUM', ['num', 'num'], 'bool', f'boolv(result) == numEQ({n0}, {n1})', 'C01 C02 C03 C04 C18', {}),
 ('NE_NUM_NUM', ['num', 'num'], 'bool', f'boolv(result) == numNE({n0}, {n1})', 'C01 C02 C03 C04 C18', {}),
 ('LT_NUM_NUM', ['num', 'num'], 'bool', f'boolv(result) == ({n0} < {n1} && numNE({n0}, {n1}))', 'C01 C02 C03 C04', {}),
 ('LE_NUM_NUM', ['num', 'num'], 'bool', f'boolv(result) == ({n0} <= {n1} || numEQ({n0}, {n1}))', 'C01 C02 C03 C04', {}),
 ('GT_NUM_NUM', ['num', 'num'], 'bool', f'boolv(result) == ({n0} > {n1} && numNE({n0}, {n1}))', 'C01 C02 C03 C04', {}),
 ('GE_NUM_NUM', ['num', 'num'], 'bool', f'boolv(result) == ({n0} >= {n1} || numEQ({n0}, {n1}))', 'C01 C02 C03 C04', {}),
 ('EQ_BOOL_BOOL', ['bool', 'bool'], 'bool', f'boolv(result) == ({b0} == {b1})', 'C01 C02 C03 C04 C18', {}),
 ('NE_BOOL_BOOL', ['bool', 'bool'], 'bool', f'boolv(result) == ({b0} != {b1})', 'C01 C02 C03 C04 C18', {}),
 ('EQ_STR_STR', ['str', 'str'], 'bool', f'boolv(result) == ({s0} == {s1})', 'C01 C02 C03 C04 C18', {}),
 ('NE_STR_STR', ['str', 'str'], 'bool', f'boolv(result) == ({s0} != {s1})', 'C01 C02 C03 C04 C18', {}),
 ('EQ_TIME_TIME', ['time', 'time'], 'bool', f'boolv(result) == {t0}.Equal({t1})', 'C01 C02 C03 C04 C18', {}),
 ('NE_TIME_TIME', ['time', 'time'], 'bool', f'boolv(result) == !{t0}.Equal({t1})', 'C01 C02 C03 C04 C18', {}),
 ('LT_TIME_TIME', ['time', 'time'], 'bool', f'boolv(result) == {t0}.Before({t1})', 'C01 C02 C03 C04', {}),
 ('LE_TIME_TIME', ['time', 'time'], 'bool', f'boolv(result) == ({t0}.Before({t1}) || {t0}.Equal({t1}))', 'C01 C02 C03 C04', {}),
 ('GT_TIME_TIME', ['time', 'time'], 'bool', f'boolv(result) == {t0}.After({t1})', 'C01 C02 C03 C04', {}),
 ('GE_TIME_TIME', ['time', 'time'], 'bool', f'boolv(result) == ({t0}.After({t1}) || {t0}.Equal({t1}))', 'C01 C02 C03 C04', {}),
 ('SUB_TIME_TIME', ['time', 'time'], 'num', f'same(num(result), {t0}.Sub({t1}).Seconds())', 'C01 C02 C03 C04', {}),
 ('ADD_STR_STR', ['str', 'str'], 'str', f'strv(result) == {s0} + {s1}', 'C01 C02 C03 C04', {}),
 ('LEN_STR', ['str'], 'num', f'same(num(result), float64(utf8.RuneCountInString({s0})))', 'C01 C02 C03 C04', {}),
 ('EQ_LIST_LIST', ['list', 'list'], 'bool', 'boolv(result) == valEq(A0, A1)', 'C01 C02 C03 C04 C18', {'req': 'wfV(A0) && wfV(A1)'}),
 ('NE_LIST_LIST', ['list', 'list'], 'bool', 'boolv(result) == !valEq(A0, A1)', 'C01 C02 C03 C04 C18', {'req': 'wfV(A0) && wfV(A1)'}),
 ('EQ_MAP_MAP', ['map', 'map'], 'bool', 'boolv(result) == valEq(A0, A1)', 'C01 C02 C03 C04 C18', {'req': 'wfV(A0) && wfV(A1)'}),
 ('NE_MAP_MAP', ['map', 'map'], 'bool', 'boolv(result) == !valEq(A0, A1)', 'C01 C02 C03 C04 C18', {'req': 'wfV(A0) && wfV(A1)'}),
 ('LEN_LIST', ['list'], 'num', 'same(num(result), float64(len(A0.List().V)))', 'C01 C02 C03 C04', {'novm': True}),
 ('LEN_MAP', ['map'], 'num', 'same(num(result), float64(len(A0.Map().V)))', 'C01 C02 C03 C04', {'novm': True}),
 ('GET_MAYBE', ['maybe', 'any'], None, 'result == ite(A0.Maybe().V != nil, A0.Maybe().V, A1) && result != nil', 'C01 C02 C03 C04 C16', {'novm': True}),
 ('STRTOTIME_STR', ['str'], 'time', 'timev(result) == time.Unix(strtotimeU(strv(A0)), 0)', 'C01 C02 C03 C04', {}),
 ('LOGIC_NOT_BOOL', ['bool'], 'bool', f'boolv(result) == !{b0}', 'C01 C02 C03 C04', {'op': 'OP_LOGICAL_NOT'}),
]
def sub(expr, m):
    return re.sub(r'\b(A[01]|result)\b', lambda x: m[x.group(1)], expr)

hdr = lambda pkg: ['//go:build verif', '', f'package {pkg}', '',
       '// Contracts checked by /verif/gvc (comment-only file; see /verif/DESIGN.md).',
       '// The table-driven blocks are generated by /verif/tools/gen_contracts.py from',
       '// its specification table; the hand-written blocks follow the marker.', '']
out = hdr('fun')
out += ['// NOTE: fun/gen.sh greps every .go file in this directory for the pattern',
        '// upper-case-name, space, equals, space; this file must never contain it.', '']
for name, args, res, expr, props, extra in T:
    m = {f'A{i}': f'args[{i}]' for i in range(2)}; m['result'] = 'result'
    out.append(f'//@ closure {name}')
    out.append(f'//@   props {props}')
    out.append('//@   uses types.init val.init')
    req = [f'len(args) == {len(args)}'] + [f'{K[k]}(args[{i}])' for i, k in enumerate(args)]
    out.append('//@   requires ' + ' && '.join(req))
    if 'req' in extra:
        out.append('//@   requires ' + sub(extra['req'], m))
    if 'fails' in extra:
        out.append('//@   fails_iff ' + sub(extra['fails'], m))
    else:
        out.append('//@   nopanic')
    out.append('//@   modifies')
    if res:
        out.append(f'//@   ensures #type {K[res]}(result)')
    out.append(f'//@   ensures #value {sub(expr, m)}')
    out.append('')
out.append('// ---- hand-written contracts -------------------------------------------')
out.append(open('/verif/contracts/fun.hand').read())
open('/verif/contracts/fun.go', 'w').write('\n'.join(out))

out = hdr('vm')
out.append(open('/verif/contracts/vm.hand').read())
out.append('// ---- table-driven opcases of switchThreading ---------------------------')
out.append('// (continuation of the `func switchThreading` block that ends vm.hand)')
for name, args, res, expr, props, extra in T:
    if extra.get('novm'): continue
    op = extra.get('op', 'OP_' + name)
    n = len(args)
    m = {f'A{i}': f'old(stk(v, sp0-{n-i}))' for i in range(n)}
    m['result'] = f'stk(v, sp0-{n})'
    mreq = {f'A{i}': f'stk(v, sp0-{n-i})' for i in range(n)}
    out.append(f'//@   opcase {op}')
    out.append(f'//@     props {props} C11')
    out.append('//@     let pc0 = v.pc')
    out.append('//@     let sp0 = v.stack.sp')
    out.append(f'//@     requires opAt(b0, v.pc, {op})')
    out.append(f'//@     requires sp0 >= {n} && ' + ' && '.join(f'{K[k]}(stk(v, sp0-{n-i}))' for i, k in enumerate(args)))
    if 'req' in extra:
        out.append('//@     requires ' + sub(extra['req'], mreq))
    if 'fails' in extra:
        out.append('//@     fails_iff ' + sub(extra['fails'], mreq))
    else:
        out.append('//@     nopanic')
    out.append('//@     ensures #pc v.pc == pc0+1 && !returned')
    out.append(f'//@     ensures #sp v.stack.sp == sp0-{n-1}')
    if res:
        out.append(f'//@     ensures #type {K[res]}(stk(v, sp0-{n}))')
    out.append(f'//@     ensures #value {sub(expr, m)}')
    out.append(f'//@     ensures #below forall(i, 0, sp0-{n}, stk(v, i) == old(stk(v, i)))')
    out.append('')
open('/verif/contracts/vm.go', 'w').write('\n'.join(out))
