#!/usr/bin/env python3
"""seeded/<id>/meta.json from the sub-agent's meta.agent.json and our own verified.json."""
import json, sys, os
for sid in sys.argv[1:]:
    d = os.path.join(os.path.dirname(os.path.abspath(__file__)), "..", "seeded", sid)
    a = json.load(open(os.path.join(d, "meta.agent.json")))
    v = json.load(open(os.path.join(d, "verified.json")))
    m = {
        "id": sid, "property": sid.split("-")[0],
        "summary": a.get("summary", ""),
        "needs_to_manifest": a.get("needs") or a.get("needs_to_manifest") or a.get("trigger", ""),
        "files": a.get("files", []),
        "origin": "written by an independent sub-agent that was given only the property text and a scratch worktree",
        "confirmed": {
            "repo_head": v.get("repo_head"), "patch_applies": bool(v.get("patch_applies", 1)),
            "builds": bool(v.get("builds")), "suite_passes": bool(v.get("suite_passes")),
            "demo_passes_without_change": v.get("demo_exit_without_change") == 0,
            "demo_fails_with_change": v.get("demo_exit_with_change") != 0,
        },
        "ran": v.get("commands", []),
    }
    json.dump(m, open(os.path.join(d, "meta.json"), "w"), indent=1)
    print(sid, m["confirmed"])
