#!/bin/bash
# runs the unedited suite on a scratch copy of /repo (incl. uncommitted change) and commits it as a fix
set -e
MSG="$1"
/verif/tools/run_suite.sh /repo | tail -1
cd /repo && go build ./... && git add -A && git commit -qm "$MSG" && git log --oneline | head -1
