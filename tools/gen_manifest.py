#!/usr/bin/env python3
"""Writes /verif/MANIFEST.json from the table below (kept in one place so the
manifest is always schema-valid and in step with what is built)."""
import json, subprocess
CLAIMED = {
 # id: (category, text, note, technique)
}
exec(open('/verif/tools/claims.py').read())
props = [json.loads(l) for l in open('/verif/properties.jsonl')]
checks, na = [], []
for p in props:
    i = p['id']
    if i in CLAIMED:
        c = CLAIMED[i]
        checks.append({
            "property_id": i,
            "quick_cmd": f"/verif/bin/gvc check -property {i} -tier quick",
            "thorough_cmd": f"/verif/bin/gvc check -property {i} -tier thorough",
            "evidence_file": f"/verif/evidence/{i}.json",
            "replay_cmd_template": "/verif/bin/gvc replay {path}",
            "engine": "gvc",
            "level_claimed": {"category": c[0], "text": c[1], "design_ref": "DESIGN.md section 6, " + i},
            "level_note": c[2],
            "technique": c[3],
        })
    else:
        na.append({"property_id": i, "reason": NOT_CLAIMED.get(i, "no contract-based check built yet for this property")})
repo_commits = subprocess.run(['git', '-C', '/repo', 'log', '--format=%h %s'], capture_output=True, text=True).stdout.strip().split('\n')
hooks = [c.split()[0] for c in repo_commits if c.split(' ', 1)[1].startswith('verif:')]
m = {
 "version": 1,
 "setup_cmd": "cd /verif && ./setup.sh",
 "hooks": {
  "guard": "verif",
  "enable": "go build tag `verif` (-tags=verif): compiles the comment-only contract files <pkg>/zz_contracts_verif.go and the read-only accessor files <pkg>/zz_hooks_verif.go; gvc loads /repo with that tag",
  "baseline_off_cmd": "/verif/tools/run_suite.sh /repo",
  "source_commits": hooks,
  "add_only": True,
 },
 "engines": [{"name": "gvc", "path": "/verif/gvc", "serves_properties": sorted(CLAIMED),
   "kind_free_text": "contract-based deductive verifier for Go written for this task: weakest-precondition style symbolic execution of go/ssa per function against //@ contracts, one SMT query per obligation (z3 5.1 / z3 4.8 / cvc5), plus a labelled bounded stand-in harness (/verif/bounded) that checks the same contracts at run time over enumerated inputs"}],
 "checks": checks,
 "not_applicable": na,
 "notes": "Every check reloads /repo (build tag verif), regenerates all verification conditions from the current sources and rewrites its evidence file. Exit 0 = all obligations of the property discharged (and the bounded stand-in, where one exists, found no contract violation); exit 1 = VIOLATION lines. See DESIGN.md.",
}
json.dump(m, open('/verif/MANIFEST.json', 'w'), indent=1)
print("claimed", sorted(CLAIMED), "not claimed", [x['property_id'] for x in na])
