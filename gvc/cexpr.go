package gvc

import (
	"fmt"
	"sort"
	"go/ast"
	"go/constant"
	"go/parser"
	"go/token"
	"go/types"
	"strconv"
	"strings"

	"golang.org/x/tools/go/ssa"
)

// Env binds contract-level names.
type Env struct {
	vars   map[string]T
	tys    map[string]types.Type
	parent *Env
	local  map[string]bool // names of (mutable) local variables: invisible inside old(...)
}

func newEnv(parent *Env) *Env {
	return &Env{vars: map[string]T{}, tys: map[string]types.Type{}, parent: parent}
}
func (e *Env) bind(n string, v T, t types.Type) { e.vars[n] = v; e.tys[n] = t }
func (e *Env) lookup(n string) (T, types.Type, bool) {
	return e.lookupOld(n, false)
}

// lookupOld: inside old(...) the current values of local variables are not
// visible; the name then denotes the parameter / let of that name, if any.
func (e *Env) lookupOld(n string, inOld bool) (T, types.Type, bool) {
	for x := e; x != nil; x = x.parent {
		if v, ok := x.vars[n]; ok {
			if inOld && x.local[n] {
				continue
			}
			return v, x.tys[n], true
		}
	}
	return T{}, nil, false
}

func (e *Env) bindLocal(n string, v T, t types.Type) {
	e.bind(n, v, t)
	if e.local == nil {
		e.local = map[string]bool{}
	}
	e.local[n] = true
}

// rewriteImplies turns  A ==> B  into implies(A, B) and  A <==> B into
// iff(A, B), respecting brackets (lowest precedence, ==> right assoc).
func rewriteImplies(s string) string {
	// first rewrite inside every bracket group
	var out strings.Builder
	i := 0
	for i < len(s) {
		c := s[i]
		if c == '"' || c == '`' {
			j := i + 1
			for j < len(s) && s[j] != c {
				if s[j] == '\\' && c == '"' {
					j++
				}
				j++
			}
			out.WriteString(s[i:min(j+1, len(s))])
			i = j + 1
			continue
		}
		if c == '(' || c == '[' {
			close := byte(')')
			if c == '[' {
				close = ']'
			}
			d, j := 1, i+1
			for j < len(s) && d > 0 {
				if s[j] == c {
					d++
				} else if s[j] == close {
					d--
				}
				j++
			}
			inner := s[i+1 : j-1]
			out.WriteByte(c)
			// split at top-level commas
			parts := splitTop(inner, ',')
			for k, p := range parts {
				if k > 0 {
					out.WriteByte(',')
				}
				out.WriteString(rewriteImplies(p))
			}
			out.WriteByte(close)
			i = j
			continue
		}
		out.WriteByte(c)
		i++
	}
	t := out.String()
	if parts := splitTopStr(t, "<==>"); len(parts) == 2 {
		return "iff(" + rewriteImplies(parts[0]) + ", " + rewriteImplies(parts[1]) + ")"
	}
	if k := indexTop(t, "==>"); k >= 0 {
		return "implies(" + t[:k] + ", " + rewriteImplies(t[k+3:]) + ")"
	}
	return t
}

func min(a, b int) int {
	if a < b {
		return a
	}
	return b
}

func splitTop(s string, sep byte) []string {
	var parts []string
	d := 0
	start := 0
	inStr := byte(0)
	for i := 0; i < len(s); i++ {
		c := s[i]
		if inStr != 0 {
			if c == '\\' && inStr == '"' {
				i++
			} else if c == inStr {
				inStr = 0
			}
			continue
		}
		switch c {
		case '"', '`':
			inStr = c
		case '(', '[', '{':
			d++
		case ')', ']', '}':
			d--
		default:
			if c == sep && d == 0 {
				parts = append(parts, s[start:i])
				start = i + 1
			}
		}
	}
	return append(parts, s[start:])
}

func indexTop(s, sep string) int {
	d := 0
	for i := 0; i+len(sep) <= len(s); i++ {
		switch s[i] {
		case '(', '[', '{':
			d++
		case ')', ']', '}':
			d--
		}
		if d == 0 && strings.HasPrefix(s[i:], sep) {
			// do not match the tail of "<==>"
			if sep == "==>" && i > 0 && s[i-1] == '<' {
				continue
			}
			return i
		}
	}
	return -1
}

func splitTopStr(s, sep string) []string {
	k := indexTop(s, sep)
	if k < 0 {
		return []string{s}
	}
	return []string{s[:k], s[k+len(sep):]}
}

type evalCtx struct {
	vc   *VC
	now  *State
	old  *State
	env  *Env
	pkg  *types.Package
	fn   *ssa.Function
	depth int
	inOld bool
}

// evalClause parses and evaluates a boolean contract expression.
func (vc *VC) evalClause(ctx *Ctx, now, old *State, text string, extra *Env) (T, error) {
	ec := &evalCtx{vc: vc, now: now, old: old, pkg: vc.fn.Pkg.Pkg, fn: vc.fn}
	ec.env = vc.baseEnv(ctx)
	if extra != nil {
		extra2 := *extra
		// chain: extra -> base
		root := &extra2
		for root.parent != nil {
			p := *root.parent
			root.parent = &p
			root = &p
		}
		root.parent = ec.env
		ec.env = &extra2
	}
	return ec.evalText(text)
}

func (ec *evalCtx) evalText(text string) (T, error) {
	t, _, err := ec.evalTextT(text)
	return t, err
}

func (ec *evalCtx) evalTextT(text string) (T, types.Type, error) {
	src := rewriteImplies(text)
	e, err := parser.ParseExpr(src)
	if err != nil {
		return T{}, nil, fmt.Errorf("parse %q: %v", src, err)
	}
	return ec.eval(e)
}

func (vc *VC) baseEnv(ctx *Ctx) *Env {
	e := newEnv(nil)
	for n, v := range vc.params {
		e.bind(n, v, vc.paramTy[n])
	}
	if ctx != nil {
		for n, v := range ctx.env {
			e.bind(n, v, ctx.envTy[n])
		}
	}
	return e
}

func (ec *evalCtx) errf(e ast.Expr, f string, a ...interface{}) error {
	return fmt.Errorf("%s: %s", types.ExprString(e), fmt.Sprintf(f, a...))
}

func deref(t types.Type) types.Type {
	if t == nil {
		return nil
	}
	if p, ok := t.Underlying().(*types.Pointer); ok {
		return p.Elem()
	}
	return t
}

func (ec *evalCtx) eval(e ast.Expr) (T, types.Type, error) {
	vc := ec.vc
	switch x := e.(type) {
	case *ast.ParenExpr:
		return ec.eval(x.X)
	case *ast.BasicLit:
		switch x.Kind {
		case token.INT:
			v := constant.MakeFromLiteral(x.Value, token.INT, 0)
			return T{S: v.ExactString(), Sort: SInt}, types.Typ[types.Int], nil
		case token.FLOAT:
			f, _ := strconv.ParseFloat(x.Value, 64)
			return F64c(f), types.Typ[types.Float64], nil
		case token.STRING:
			s, _ := strconv.Unquote(x.Value)
			return vc.strlit(s), types.Typ[types.String], nil
		case token.CHAR:
			s, _, _, _ := strconv.UnquoteChar(x.Value[1:len(x.Value)-1], '\'')
			return I(int64(s)), types.Typ[types.Int32], nil
		}
	case *ast.Ident:
		switch x.Name {
		case "true":
			return B(true), types.Typ[types.Bool], nil
		case "false":
			return B(false), types.Typ[types.Bool], nil
		case "nil":
			return T{S: "0", Sort: "Nil"}, types.Typ[types.UntypedNil], nil
		}
		if v, t, ok := ec.env.lookupOld(x.Name, ec.inOld); ok {
			return v, t, nil
		}
		if obj := ec.pkg.Scope().Lookup(x.Name); obj != nil {
			return ec.object(obj, e)
		}
		return T{}, nil, ec.errf(e, "unknown name")
	case *ast.UnaryExpr:
		v, t, err := ec.eval(x.X)
		if err != nil {
			return v, t, err
		}
		switch x.Op {
		case token.NOT:
			return T{S: not(v.S), Sort: SBool}, t, nil
		case token.SUB:
			if v.Sort == SF64 || v.Sort == SF32 {
				return T{S: app("fp.neg", v.S), Sort: v.Sort}, t, nil
			}
			return T{S: app("-", v.S), Sort: SInt}, t, nil
		case token.AND:
			// &x.f : address of a struct-typed field
			return v, types.NewPointer(t), nil
		}
	case *ast.StarExpr:
		v, t, err := ec.eval(x.X)
		if err != nil {
			return v, t, err
		}
		et := deref(t)
		return vc.loadAt(ec.now, v, et), et, nil
	case *ast.BinaryExpr:
		if x.Op == token.LAND || x.Op == token.LOR {
			a, _, err := ec.eval(x.X)
			if err != nil {
				return a, nil, err
			}
			b, _, err := ec.eval(x.Y)
			if err != nil {
				return b, nil, err
			}
			if x.Op == token.LAND {
				return T{S: and(a.S, b.S), Sort: SBool}, types.Typ[types.Bool], nil
			}
			return T{S: or(a.S, b.S), Sort: SBool}, types.Typ[types.Bool], nil
		}
		a, at, err := ec.eval(x.X)
		if err != nil {
			return a, nil, err
		}
		b, bt, err := ec.eval(x.Y)
		if err != nil {
			return b, nil, err
		}
		// nil comparisons
		if a.Sort == "Nil" && b.Sort != "Nil" {
			a, b, at, bt = b, a, bt, at
		}
		if b.Sort == "Nil" {
			var isnil string
			switch a.Sort {
			case SSlice:
				isnil = eq(app("sarr", a.S), "0")
			case SIface:
				isnil = eq(app("ityp", a.S), "0")
			default:
				isnil = eq(a.S, "0")
			}
			if x.Op == token.EQL {
				return T{S: isnil, Sort: SBool}, types.Typ[types.Bool], nil
			}
			return T{S: not(isnil), Sort: SBool}, types.Typ[types.Bool], nil
		}
		// int literal against float
		if (a.Sort == SF64 || a.Sort == SF32) && b.Sort == SInt && isNumeral(b.S) {
			n, _ := strconv.ParseFloat(b.S, 64)
			if a.Sort == SF64 {
				b = F64c(n)
			} else {
				b = F32c(float32(n))
			}
		}
		if (b.Sort == SF64 || b.Sort == SF32) && a.Sort == SInt && isNumeral(a.S) {
			n, _ := strconv.ParseFloat(a.S, 64)
			if b.Sort == SF64 {
				a = F64c(n)
			} else {
				a = F32c(float32(n))
			}
		}
		if a.Sort != b.Sort {
			return T{}, nil, ec.errf(e, "sort mismatch %s vs %s", a.Sort, b.Sort)
		}
		rt := at
		switch x.Op {
		case token.EQL, token.NEQ, token.LSS, token.LEQ, token.GTR, token.GEQ:
			rt = types.Typ[types.Bool]
		}
		if rt == nil {
			rt = bt
		}
		// contract arithmetic on Int is mathematical (no wrapping)
		resTy := rt
		if a.Sort == SInt {
			resTy = types.Typ[types.Int]
			switch x.Op {
			case token.QUO:
				return T{S: app("tdiv", a.S, b.S), Sort: SInt}, resTy, nil
			case token.REM:
				return T{S: app("tmod", a.S, b.S), Sort: SInt}, resTy, nil
			}
		}
		if a.Sort == SF64 && (x.Op == token.EQL || x.Op == token.NEQ) {
			// contract == on floats is IEEE equality like Go
		}
		r := vc.binopT(ec.now, x.Op, a, b, at, resTy, nil)
		if rt == types.Typ[types.Bool] {
			r.Sort = SBool
		}
		return r, rt, nil
	case *ast.SelectorExpr:
		// package-qualified name?
		if id, ok := x.X.(*ast.Ident); ok {
			if _, _, bound := ec.env.lookup(id.Name); !bound {
				if p := ec.importedPkg(id.Name); p != nil {
					obj := p.Scope().Lookup(x.Sel.Name)
					if obj == nil {
						return T{}, nil, ec.errf(e, "no such object in package %s", p.Path())
					}
					return ec.object(obj, e)
				}
			}
		}
		v, t, err := ec.eval(x.X)
		if err != nil {
			return v, t, err
		}
		return ec.selectField(e, v, t, x.Sel.Name)
	case *ast.IndexExpr:
		v, t, err := ec.eval(x.X)
		if err != nil {
			return v, t, err
		}
		i, _, err := ec.eval(x.Index)
		if err != nil {
			return i, nil, err
		}
		if t == nil {
			return T{}, nil, ec.errf(e, "index of untyped value")
		}
		switch u := t.Underlying().(type) {
		case *types.Slice:
			a := T{S: vc.elemAddr(ec.now, app("sarr", v.S), addS(app("soff", v.S), i.S)), Sort: SInt}
			return vc.loadAt(ec.now, a, u.Elem()), u.Elem(), nil
		case *types.Map:
			mk := vc.mapInfo(t)
			return T{S: vc.mapVal(ec.now, mk, v.S, i.S), Sort: mk.vsort}, u.Elem(), nil
		case *types.Basic:
			return T{S: app("str_at", v.S, i.S), Sort: SInt}, types.Typ[types.Uint8], nil
		case *types.Pointer:
			if at, ok := u.Elem().Underlying().(*types.Array); ok {
				a := T{S: vc.elemAddr(ec.now, v.S, i.S), Sort: SInt}
				return vc.loadAt(ec.now, a, at.Elem()), at.Elem(), nil
			}
		}
		return T{}, nil, ec.errf(e, "cannot index %s", t)
	case *ast.SliceExpr:
		v, t, err := ec.eval(x.X)
		if err != nil {
			return v, t, err
		}
		lo, hi := "0", app("slen", v.S)
		if x.Low != nil {
			l, _, err := ec.eval(x.Low)
			if err != nil {
				return l, nil, err
			}
			lo = l.S
		}
		if x.High != nil {
			h, _, err := ec.eval(x.High)
			if err != nil {
				return h, nil, err
			}
			hi = h.S
		}
		return T{S: app("mk-slice", app("sarr", v.S), addS(app("soff", v.S), lo), app("-", hi, lo), app("-", app("scap", v.S), lo)), Sort: SSlice}, t, nil
	case *ast.TypeAssertExpr:
		v, _, err := ec.eval(x.X)
		if err != nil {
			return v, nil, err
		}
		tt, err := ec.typeExpr(x.Type)
		if err != nil {
			return T{}, nil, err
		}
		return vc.unboxIface(v, tt), tt, nil
	case *ast.CallExpr:
		return ec.call(x)
	}
	return T{}, nil, ec.errf(e, "unsupported contract expression (%T)", e)
}

func (ec *evalCtx) importedPkg(name string) *types.Package {
	for _, p := range ec.pkg.Imports() {
		if p.Name() == name {
			return p
		}
	}
	// allow any module package by short name
	for path, sp := range ec.vc.P.ByPath {
		if shortPkg(path) == name {
			return sp.Pkg
		}
	}
	if name == "math" || name == "time" {
		for _, pk := range ec.vc.P.SSA.AllPackages() {
			if pk.Pkg.Path() == name {
				return pk.Pkg
			}
		}
	}
	return nil
}

func (ec *evalCtx) object(obj types.Object, e ast.Expr) (T, types.Type, error) {
	vc := ec.vc
	switch o := obj.(type) {
	case *types.Const:
		v := ssa.NewConst(o.Val(), o.Type())
		return vc.constVal(v), o.Type(), nil
	case *types.Var:
		sp := vc.P.SSA.Package(o.Pkg())
		if sp == nil {
			return T{}, nil, ec.errf(e, "no SSA package for %s", o.Pkg().Path())
		}
		g, ok := sp.Members[o.Name()].(*ssa.Global)
		if !ok {
			return T{}, nil, ec.errf(e, "not a global")
		}
		a := vc.globalAddr(g)
		return vc.loadAt(ec.now, a, o.Type()), o.Type(), nil
	case *types.Func:
		sp := vc.P.SSA.Package(o.Pkg())
		if sp != nil {
			if f := sp.Func(o.Name()); f != nil {
				return vc.funcRef(f), o.Type(), nil
			}
		}
	}
	return T{}, nil, ec.errf(e, "unsupported object %T", obj)
}

func (ec *evalCtx) typeExpr(e ast.Expr) (types.Type, error) {
	switch x := e.(type) {
	case *ast.ArrayType:
		if x.Len == nil {
			t, err := ec.typeExpr(x.Elt)
			if err != nil {
				return nil, err
			}
			return types.NewSlice(t), nil
		}
	case *ast.StarExpr:
		t, err := ec.typeExpr(x.X)
		if err != nil {
			return nil, err
		}
		return types.NewPointer(t), nil
	case *ast.MapType:
		k, err := ec.typeExpr(x.Key)
		if err != nil {
			return nil, err
		}
		v, err := ec.typeExpr(x.Value)
		if err != nil {
			return nil, err
		}
		return types.NewMap(k, v), nil
	case *ast.Ident:
		if obj := ec.pkg.Scope().Lookup(x.Name); obj != nil {
			if tn, ok := obj.(*types.TypeName); ok {
				return tn.Type(), nil
			}
		}
		if obj := types.Universe.Lookup(x.Name); obj != nil {
			if tn, ok := obj.(*types.TypeName); ok {
				return tn.Type(), nil
			}
		}
	case *ast.SelectorExpr:
		if id, ok := x.X.(*ast.Ident); ok {
			if p := ec.importedPkg(id.Name); p != nil {
				if obj := p.Scope().Lookup(x.Sel.Name); obj != nil {
					if tn, ok := obj.(*types.TypeName); ok {
						return tn.Type(), nil
					}
				}
			}
		}
	}
	return nil, fmt.Errorf("not a type: %s", types.ExprString(e))
}

// selectField: v.name where v has Go type t (struct or pointer to struct),
// following embedded fields.
func (ec *evalCtx) selectField(e ast.Expr, v T, t types.Type, name string) (T, types.Type, error) {
	vc := ec.vc
	if t == nil {
		return T{}, nil, ec.errf(e, "selector on untyped value")
	}
	// spec-level pseudo fields on slices
	obj, path, _ := types.LookupFieldOrMethod(t, true, ec.pkg, name)
	if obj == nil {
		// try from the object's own package (unexported fields)
		if n, ok := deref(t).(*types.Named); ok && n.Obj().Pkg() != nil {
			obj, path, _ = types.LookupFieldOrMethod(t, true, n.Obj().Pkg(), name)
		}
	}
	fld, ok := obj.(*types.Var)
	if !ok || fld == nil {
		return T{}, nil, ec.errf(e, "no field %s in %s", name, t)
	}
	cur, ct := v, t
	for _, idx := range path {
		if p, isPtr := ct.Underlying().(*types.Pointer); isPtr {
			st := p.Elem()
			si := vc.structOf(st)
			if si == nil || si.opaque {
				return T{}, nil, ec.errf(e, "field of opaque type %s", st)
			}
			ft := si.st.Field(idx).Type()
			if isModStruct(vc, ft) != nil {
				// value of a nested struct: keep as address (pointer semantics)
				cur = T{S: vc.fieldAddr(ec.now, si, cur.S, idx), Sort: SInt}
				ct = types.NewPointer(ft)
				continue
			}
			cur = vc.hload(ec.now, fieldKey(si, idx), vc.sortOf(ft), cur.S)
			vc.refFacts(ec.now, cur, ft)
			ct = ft
		} else {
			si := vc.structOf(ct)
			if si == nil || si.opaque {
				return T{}, nil, ec.errf(e, "field of non-struct %s", ct)
			}
			ft := si.st.Field(idx).Type()
			cur = T{S: simplifySel(app(fmt.Sprintf("%s_f%d", si.sort, idx), cur.S)), Sort: vc.sortOf(ft)}
			ct = ft
		}
	}
	// a nested struct reached through a pointer is represented by its
	// address; materialise the value when its type is a struct
	if p, isPtr := ct.Underlying().(*types.Pointer); isPtr && isModStruct(vc, p.Elem()) != nil && types.Identical(p.Elem(), fld.Type()) {
		return vc.loadAt(ec.now, cur, p.Elem()), p.Elem(), nil
	}
	return cur, ct, nil
}

func (ec *evalCtx) call(x *ast.CallExpr) (T, types.Type, error) {
	vc := ec.vc
	name := ""
	if id, ok := x.Fun.(*ast.Ident); ok {
		name = id.Name
	}
	argN := func(n int) error {
		if len(x.Args) != n {
			return ec.errf(x, "expects %d arguments", n)
		}
		return nil
	}
	switch name {
	case "old":
		if err := argN(1); err != nil {
			return T{}, nil, err
		}
		sub := *ec
		sub.now = ec.old
		sub.inOld = true
		n0 := len(ec.old.assumes)
		r, rt, err := sub.eval(x.Args[0])
		// well-formedness facts discovered while reading the old state
		// are facts of the current path too
		if ec.old != ec.now && len(ec.old.assumes) > n0 {
			for i := n0; i < len(ec.old.assumes); i++ {
				ec.now.assumes = append(ec.now.assumes, ec.old.assumes[i])
				ec.now.conds = append(ec.now.conds, false)
			}
			ec.old.assumes = ec.old.assumes[:n0]
			if len(ec.old.conds) > n0 {
				ec.old.conds = ec.old.conds[:n0]
			}
		}
		return r, rt, err
	case "len", "cap":
		if err := argN(1); err != nil {
			return T{}, nil, err
		}
		v, t, err := ec.eval(x.Args[0])
		if err != nil {
			return v, t, err
		}
		switch v.Sort {
		case SSlice:
			if name == "cap" {
				return T{S: app("scap", v.S), Sort: SInt}, types.Typ[types.Int], nil
			}
			return T{S: app("slen", v.S), Sort: SInt}, types.Typ[types.Int], nil
		case SStr:
			return T{S: app("strlen", v.S), Sort: SInt}, types.Typ[types.Int], nil
		case SInt:
			if _, ok := t.Underlying().(*types.Map); ok {
				mk := vc.mapInfo(t)
				return T{S: ite(eq(v.S, "0"), "0", vc.hload(ec.now, mk.len, SInt, v.S).S), Sort: SInt}, types.Typ[types.Int], nil
			}
		}
		return T{}, nil, ec.errf(x, "len of %s", v.Sort)
	case "implies", "iff":
		if err := argN(2); err != nil {
			return T{}, nil, err
		}
		a, _, err := ec.eval(x.Args[0])
		if err != nil {
			return a, nil, err
		}
		b, _, err := ec.eval(x.Args[1])
		if err != nil {
			if name == "implies" && (strings.Contains(err.Error(), "does not capture") || strings.Contains(types.ExprString(x.Args[1]), "captured(")) {
				// the consequent speaks about a variable captured by a closure
				// that the value at hand is not: the consequent cannot hold
				// here, so the implication holds only where the antecedent fails
				return T{S: not(a.S), Sort: SBool}, types.Typ[types.Bool], nil
			}
			return b, nil, err
		}
		if name == "iff" {
			return T{S: eq(a.S, b.S), Sort: SBool}, types.Typ[types.Bool], nil
		}
		return T{S: implies(a.S, b.S), Sort: SBool}, types.Typ[types.Bool], nil
	case "same":
		// structural (bit-level) identity; on floats unlike Go's ==
		if err := argN(2); err != nil {
			return T{}, nil, err
		}
		a, _, err := ec.eval(x.Args[0])
		if err != nil {
			return a, nil, err
		}
		b, _, err := ec.eval(x.Args[1])
		if err != nil {
			return b, nil, err
		}
		return T{S: eq(a.S, b.S), Sort: SBool}, types.Typ[types.Bool], nil
	case "ite":
		if err := argN(3); err != nil {
			return T{}, nil, err
		}
		c, _, err := ec.eval(x.Args[0])
		if err != nil {
			return c, nil, err
		}
		a, at, err := ec.eval(x.Args[1])
		if err != nil {
			return a, nil, err
		}
		b, _, err := ec.eval(x.Args[2])
		if err != nil {
			return b, nil, err
		}
		return T{S: ite(c.S, a.S, b.S), Sort: a.Sort}, at, nil
	case "forallf32":
		// forallf32(l, body): l ranges over the non-NaN float32 values
		if err := argN(2); err != nil {
			return T{}, nil, err
		}
		{
			id, ok := x.Args[0].(*ast.Ident)
			if !ok {
				return T{}, nil, ec.errf(x, "binder must be an identifier")
			}
			vc.nfresh++
			bv := fmt.Sprintf("%s!q%d", id.Name, vc.nfresh)
			sub := *ec
			sub.env = newEnv(ec.env)
			sub.env.bind(id.Name, T{S: bv, Sort: SF32}, types.Typ[types.Float32])
			vc.noFacts++
			body, _, err := sub.eval(x.Args[1])
			vc.noFacts--
			if err != nil {
				return body, nil, err
			}
			return T{S: fmt.Sprintf("(forall ((%s (_ FloatingPoint 8 24))) (=> (not (fp.isNaN %s)) %s))", bv, bv, body.S), Sort: SBool}, types.Typ[types.Bool], nil
		}
	case "forallstr", "existsstr":
		// forallstr(s, body): s ranges over strings
		if err := argN(2); err != nil {
			return T{}, nil, err
		}
		id, ok := x.Args[0].(*ast.Ident)
		if !ok {
			return T{}, nil, ec.errf(x, "binder must be an identifier")
		}
		vc.nfresh++
		bv := fmt.Sprintf("%s!q%d", id.Name, vc.nfresh)
		sub := *ec
		sub.env = newEnv(ec.env)
		sub.env.bind(id.Name, T{S: bv, Sort: SStr}, types.Typ[types.String])
		vc.noFacts++
		body, _, err := sub.eval(x.Args[1])
		vc.noFacts--
		if err != nil {
			return body, nil, err
		}
		q := "forall"
		if name == "existsstr" {
			q = "exists"
		}
		return T{S: fmt.Sprintf("(%s ((%s Str)) %s)", q, bv, body.S), Sort: SBool}, types.Typ[types.Bool], nil
	case "forall", "exists":
		// forall(i, lo, hi, body)  |  forall(i, body)   (i ranges over Int)
		if len(x.Args) != 4 && len(x.Args) != 2 {
			return T{}, nil, ec.errf(x, "forall(i, lo, hi, body) or forall(i, body)")
		}
		id, ok := x.Args[0].(*ast.Ident)
		if !ok {
			return T{}, nil, ec.errf(x, "binder must be an identifier")
		}
		vc.nfresh++
		bv := fmt.Sprintf("%s!q%d", id.Name, vc.nfresh)
		sub := *ec
		sub.env = newEnv(ec.env)
		sub.env.bind(id.Name, T{S: bv, Sort: SInt}, types.Typ[types.Int])
		rng := "true"
		if len(x.Args) == 4 {
			lo, _, err := ec.eval(x.Args[1])
			if err != nil {
				return lo, nil, err
			}
			hi, _, err := ec.eval(x.Args[2])
			if err != nil {
				return hi, nil, err
			}
			rng = and(app("<=", lo.S, bv), app("<", bv, hi.S))
		}
		vc.noFacts++
		body, _, err := sub.eval(x.Args[len(x.Args)-1])
		vc.noFacts--
		if err != nil {
			return body, nil, err
		}
		if name == "forall" {
			q := fmt.Sprintf("(forall ((%s Int)) %s)", bv, implies(rng, body.S))
			vc.registerForall(q, bv, rng, body.S)
			return T{S: q, Sort: SBool}, types.Typ[types.Bool], nil
		}
		return T{S: fmt.Sprintf("(exists ((%s Int)) %s)", bv, and(rng, body.S)), Sort: SBool}, types.Typ[types.Bool], nil
	case "dyn":
		v, _, err := ec.eval(x.Args[0])
		if err != nil {
			return v, nil, err
		}
		return T{S: app("dyn", v.S), Sort: SInt}, types.Typ[types.Int], nil
	case "dynis":
		// dynis(v, pkg.Struct): the object v was allocated as that struct
		if err := argN(2); err != nil {
			return T{}, nil, err
		}
		v, _, err := ec.eval(x.Args[0])
		if err != nil {
			return v, nil, err
		}
		tt, err := ec.typeExpr(x.Args[1])
		if err != nil {
			return T{}, nil, err
		}
		return T{S: eq(app("dyn", v.S), fmt.Sprint(vc.typeID(tt))), Sort: SBool}, types.Typ[types.Bool], nil
	case "scalls", "scall", "sret", "sarg":
		return ec.traceExpr(name, x)
	case "ncalls":
		return T{S: ec.now.callsN, Sort: SInt}, types.Typ[types.Int], nil
	case "callee", "callret":
		if err := argN(1); err != nil {
			return T{}, nil, err
		}
		i, _, err := ec.eval(x.Args[0])
		if err != nil {
			return i, nil, err
		}
		arr := ec.now.callsA
		if name == "callret" {
			arr = ec.now.callsR
		}
		return T{S: app("select", arr, i.S), Sort: SInt}, nil, nil
	case "mapHas", "mapGet":
		if err := argN(2); err != nil {
			return T{}, nil, err
		}
		m, mt, err := ec.eval(x.Args[0])
		if err != nil {
			return m, nil, err
		}
		k, _, err := ec.eval(x.Args[1])
		if err != nil {
			return k, nil, err
		}
		if _, ok := mt.Underlying().(*types.Map); !ok {
			return T{}, nil, ec.errf(x, "not a map")
		}
		mk := vc.mapInfo(mt)
		if name == "mapGet" {
			return T{S: vc.mapVal(ec.now, mk, m.S, k.S), Sort: mk.vsort}, mt.Underlying().(*types.Map).Elem(), nil
		}
		return T{S: and(not(eq(m.S, "0")), vc.mapHas(ec.now, mk, m.S, k.S)), Sort: SBool}, types.Typ[types.Bool], nil
	case "typeis":
		// typeis(x, T): the dynamic type of interface value x is T
		if err := argN(2); err != nil {
			return T{}, nil, err
		}
		v, _, err := ec.eval(x.Args[0])
		if err != nil {
			return v, nil, err
		}
		tt, err := ec.typeExpr(x.Args[1])
		if err != nil {
			return T{}, nil, err
		}
		return T{S: eq(app("ityp", v.S), fmt.Sprint(vc.typeID(tt))), Sort: SBool}, types.Typ[types.Bool], nil
	case "captured":
		// captured(f, name): the value of the variable `name` captured by the
		// closure value f (f must have been created on this path)
		if err := argN(2); err != nil {
			return T{}, nil, err
		}
		{
			fv, _, err := ec.eval(x.Args[0])
			if err != nil {
				return fv, nil, err
			}
			id, ok := x.Args[1].(*ast.Ident)
			if !ok {
				return T{}, nil, ec.errf(x, "captured(f, name)")
			}
			ci := vc.closureByRef[fv.S]
			if ci == nil {
				// not a closure created on this path (e.g. the result of a
				// call): the captured variable is a function of the closure
				// value.  Its type is that of the module's closures which
				// capture a variable of this name - if they agree.
				var ty types.Type
				for _, f := range vc.P.AllFuncs {
					if f.Parent() == nil {
						continue
					}
					for _, v := range f.FreeVars {
						if v.Name() != id.Name {
							continue
						}
						t := v.Type()
						if pt, isPtr := t.Underlying().(*types.Pointer); isPtr {
							// go/ssa captures variables by reference: the free variable is the cell
							t = pt.Elem()
						}
						if ty != nil && !types.Identical(ty, t) {
							return T{}, nil, ec.errf(x, "closure does not capture %s unambiguously (several closures capture a variable of that name with different types)", id.Name)
						}
						ty = t
					}
				}
				if ty == nil {
					return T{}, nil, ec.errf(x, "closure does not capture %s", id.Name)
				}
				srt := vc.sortOf(ty)
				fn := "captured_" + mangle(id.Name) + "_" + mangle(srt)
				vc.declare(fn, []string{SInt}, srt)
				return T{S: app(fn, fv.S), Sort: srt}, ty, nil
			}
			for i, v := range ci.fn.FreeVars {
				if v.Name() != id.Name || i >= len(ci.bindings) {
					continue
				}
				if pt, isPtr := v.Type().Underlying().(*types.Pointer); isPtr {
					return vc.loadAt(ec.now, ci.bindings[i], pt.Elem()), pt.Elem(), nil
				}
				return ci.bindings[i], v.Type(), nil
			}
			return T{}, nil, ec.errf(x, "closure does not capture %s", id.Name)
		}
	case "ref":
		// ref(x): the pointer held by an interface value (or x itself)
		if err := argN(1); err != nil {
			return T{}, nil, err
		}
		v, _, err := ec.eval(x.Args[0])
		if err != nil {
			return v, nil, err
		}
		if v.Sort == SIface {
			return T{S: app("iref", v.S), Sort: SInt}, types.Typ[types.Uintptr], nil
		}
		return T{S: v.S, Sort: SInt}, types.Typ[types.Uintptr], nil
	case "arr":
		// arr(s): the backing array of a slice
		if err := argN(1); err != nil {
			return T{}, nil, err
		}
		{
			v, _, err := ec.eval(x.Args[0])
			if err != nil {
				return v, nil, err
			}
			if v.Sort != SSlice {
				return T{}, nil, ec.errf(x, "arr of a non-slice")
			}
			return T{S: app("sarr", v.S), Sort: SInt}, types.Typ[types.Uintptr], nil
		}
	case "older":
		// older(a, b): object a was allocated before object b (nil is older than everything)
		if err := argN(2); err != nil {
			return T{}, nil, err
		}
		a, _, err := ec.eval(x.Args[0])
		if err != nil {
			return a, nil, err
		}
		b, _, err := ec.eval(x.Args[1])
		if err != nil {
			return b, nil, err
		}
		return T{S: app("<", app("root", a.S), app("root", b.S)), Sort: SBool}, types.Typ[types.Bool], nil
	case "notyounger":
		if err := argN(2); err != nil {
			return T{}, nil, err
		}
		a, _, err := ec.eval(x.Args[0])
		if err != nil {
			return a, nil, err
		}
		b, _, err := ec.eval(x.Args[1])
		if err != nil {
			return b, nil, err
		}
		return T{S: app("<=", app("root", a.S), app("root", b.S)), Sort: SBool}, types.Typ[types.Bool], nil
	case "isfresh":
		v, _, err := ec.eval(x.Args[0])
		if err != nil {
			return v, nil, err
		}
		if v.Sort == SSlice {
			// backed by an array allocated by this function
			return T{S: app(">", app("root", app("sarr", v.S)), ec.old.mark), Sort: SBool}, types.Typ[types.Bool], nil
		}
		return T{S: app(">", app("root", v.S), ec.old.mark), Sort: SBool}, types.Typ[types.Bool], nil
	case "allocated":
		v, _, err := ec.eval(x.Args[0])
		if err != nil {
			return v, nil, err
		}
		return T{S: app("<=", app("root", v.S), ec.now.mark), Sort: SBool}, types.Typ[types.Bool], nil
	case "float64", "int", "int64", "uint8", "uint16", "byte":
		v, _, err := ec.eval(x.Args[0])
		if err != nil {
			return v, nil, err
		}
		switch {
		case name == "float64" && v.Sort == SInt:
			return T{S: app("i2f", v.S), Sort: SF64}, types.Typ[types.Float64], nil
		case name == "float64" && v.Sort == SF32:
			return T{S: app("(_ to_fp 11 53)", "RNE", v.S), Sort: SF64}, types.Typ[types.Float64], nil
		case name != "float64" && v.Sort == SF64:
			return T{S: app("f2i", v.S), Sort: SInt}, types.Typ[types.Int], nil
		}
		return v, types.Typ[types.Int], nil
	case "smt":
		// smt("Sort", "template with $1 $2", args...)
		if len(x.Args) < 2 {
			return T{}, nil, ec.errf(x, "smt(sort, template, args...)")
		}
		sortLit, ok1 := x.Args[0].(*ast.BasicLit)
		tmplLit, ok2 := x.Args[1].(*ast.BasicLit)
		if !ok1 || !ok2 {
			return T{}, nil, ec.errf(x, "smt(sort, template, args...)")
		}
		sort, _ := strconv.Unquote(sortLit.Value)
		tmpl, _ := strconv.Unquote(tmplLit.Value)
		for i := len(x.Args) - 1; i >= 2; i-- {
			a, _, err := ec.eval(x.Args[i])
			if err != nil {
				return a, nil, err
			}
			tmpl = strings.ReplaceAll(tmpl, fmt.Sprintf("$%d", i-1), a.S)
		}
		return T{S: tmpl, Sort: sort}, nil, nil
	}
	if sf, ok := vc.P.Specs[name]; ok && name != "" {
		var args []T
		for _, a := range x.Args {
			v, _, err := ec.eval(a)
			if err != nil {
				return v, nil, err
			}
			args = append(args, v)
		}
		return ec.applySpec(x, sf, args)
	}
	// Go function / method call: evaluated by pure symbolic execution
	return ec.goCall(x)
}

func (ec *evalCtx) applySpec(x ast.Expr, sf *SpecFun, args []T) (T, types.Type, error) {
	vc := ec.vc
	if len(args) != len(sf.Params) {
		return T{}, nil, ec.errf(x, "spec %s expects %d arguments", sf.Name, len(sf.Params))
	}
	ptys := make([]types.Type, len(args))
	for i := range args {
		if args[i].Sort == "Nil" {
			args[i].Sort = SInt
		}
		want := sf.Params[i]
		if !isSortName(want) {
			te, err := parser.ParseExpr(want)
			if err != nil {
				return T{}, nil, ec.errf(x, "spec %s parameter type %q: %v", sf.Name, want, err)
			}
			tt, err := ec.typeExpr(te)
			if err != nil {
				return T{}, nil, ec.errf(x, "spec %s parameter type %q: %v", sf.Name, want, err)
			}
			ptys[i] = tt
			want = vc.sortOf(tt)
		}
		if args[i].Sort != want && !(want == "Any") {
			return T{}, nil, ec.errf(x, "spec %s argument %d: sort %s, want %s", sf.Name, i, args[i].Sort, want)
		}
	}
	if sf.Rec {
		var as, sorts []string
		for i, a := range args {
			as = append(as, a.S)
			w := sf.Params[i]
			if ptys[i] != nil {
				w = vc.sortOf(ptys[i])
			}
			sorts = append(sorts, w)
		}
		vc.declare(sf.Name, sorts, sf.Ret)
		return T{S: app(sf.Name, as...), Sort: sf.Ret}, nil, nil
	}
	if sf.CBody != "" {
		sub := *ec
		sub.env = newEnv(nil)
		for i, n := range sf.PNames {
			sub.env.bind(n, args[i], ptys[i])
		}
		if ec.depth > 20 {
			return T{}, nil, ec.errf(x, "macro recursion too deep")
		}
		sub.depth = ec.depth + 1
		return sub.evalTextT(sf.CBody)
	}
	var as []string
	for _, a := range args {
		as = append(as, a.S)
	}
	vc.declareSpec(sf)
	return T{S: app(sf.Name, as...), Sort: sf.Ret}, nil, nil
}

// unfold: the defining equation of a recursive spec function at the given
// arguments:  f(a, b) == body[a, b]  (inner applications stay uninterpreted).
func (ec *evalCtx) unfold(text string) (string, error) {
	e, err := parser.ParseExpr(rewriteImplies(text))
	if err != nil {
		return "", fmt.Errorf("unfold %q: %v", text, err)
	}
	call, ok := e.(*ast.CallExpr)
	if !ok {
		return "", fmt.Errorf("unfold %q: expects f(args)", text)
	}
	id, ok := call.Fun.(*ast.Ident)
	if !ok {
		return "", fmt.Errorf("unfold %q: expects f(args)", text)
	}
	sf, ok := ec.vc.P.Specs[id.Name]
	if !ok || !sf.Rec {
		return "", fmt.Errorf("unfold %q: %s is not a rec definition", text, id.Name)
	}
	lhs, _, err := ec.eval(call)
	if err != nil {
		return "", err
	}
	var args []T
	for _, a := range call.Args {
		v, _, err := ec.eval(a)
		if err != nil {
			return "", err
		}
		if v.Sort == "Nil" {
			v.Sort = SInt
		}
		args = append(args, v)
	}
	sub := *ec
	sub.env = newEnv(nil)
	for i, n := range sf.PNames {
		var pt types.Type
		if !isSortName(sf.Params[i]) {
			te, err := parser.ParseExpr(sf.Params[i])
			if err != nil {
				return "", err
			}
			pt, err = ec.typeExpr(te)
			if err != nil {
				return "", err
			}
		}
		sub.env.bind(n, args[i], pt)
	}
	sub.depth = ec.depth + 1
	ec.vc.noFacts++
	body, _, err := sub.evalTextT(sf.CBody)
	ec.vc.noFacts--
	if err != nil {
		return "", fmt.Errorf("unfold %s: %v", id.Name, err)
	}
	return eq(lhs.S, body.S), nil
}

func isSortName(s string) bool {
	switch s {
	case SInt, SBool, SF64, SF32, SStr, SSlice, SIface, "Any":
		return true
	}
	return strings.HasPrefix(s, "S_") || strings.HasPrefix(s, "O_") || strings.HasPrefix(s, "(")
}

func (vc *VC) declareSpec(sf *SpecFun) {
	if vc.declared["spec:"+sf.Name] {
		return
	}
	vc.declared["spec:"+sf.Name] = true
	if sf.Body == "" {
		vc.declare(sf.Name, sf.Params, sf.Ret)
		return
	}
	// referenced specs inside the raw body must be declared first
	var names []string
	for n := range vc.P.Specs {
		names = append(names, n)
	}
	sort.Strings(names)
	for _, n := range names {
		if n != sf.Name && strings.Contains(sf.Body, n) && containsWord(sf.Body, n) {
			vc.declareSpec(vc.P.Specs[n])
		}
	}
	var ps []string
	for i, p := range sf.Params {
		ps = append(ps, fmt.Sprintf("(%s %s)", sf.PNames[i], smtSort(p)))
	}
	vc.decls = append(vc.decls, fmt.Sprintf("(define-fun %s (%s) %s %s)", sf.Name, strings.Join(ps, " "), smtSort(sf.Ret), sf.Body))
}

func containsWord(s, w string) bool {
	i := 0
	for {
		k := strings.Index(s[i:], w)
		if k < 0 {
			return false
		}
		k += i
		before := k == 0 || !isIdentChar(s[k-1])
		after := k+len(w) >= len(s) || !isIdentChar(s[k+len(w)])
		if before && after {
			return true
		}
		i = k + 1
	}
}
func isIdentChar(c byte) bool {
	return c == '_' || c == '.' || c == '!' || c >= '0' && c <= '9' || c >= 'a' && c <= 'z' || c >= 'A' && c <= 'Z'
}

// goCall evaluates a call of a real Go function / method inside a
// contract by executing its SSA body symbolically without side effects.
func (ec *evalCtx) goCall(x *ast.CallExpr) (T, types.Type, error) {
	vc := ec.vc
	var fn *ssa.Function
	var args []T
	var recvIface *T
	var ifaceMethod *types.Func
	switch f := x.Fun.(type) {
	case *ast.Ident:
		if obj := ec.pkg.Scope().Lookup(f.Name); obj != nil {
			if fo, ok := obj.(*types.Func); ok {
				fn = vc.P.SSA.FuncValue(fo)
			}
		}
	case *ast.SelectorExpr:
		if id, ok := f.X.(*ast.Ident); ok {
			if _, _, bound := ec.env.lookup(id.Name); !bound {
				if p := ec.importedPkg(id.Name); p != nil {
					if fo, ok := p.Scope().Lookup(f.Sel.Name).(*types.Func); ok {
						fn = vc.P.SSA.FuncValue(fo)
						if fn == nil || fn.Blocks == nil || !inModule(p) {
							// external function: model
							var as []T
							for _, a := range x.Args {
								v, _, err := ec.eval(a)
								if err != nil {
									return v, nil, err
								}
								as = append(as, v)
							}
							if r, ok := vc.modelCall(ec.now, p.Path()+"."+f.Sel.Name, as, fo.Type().(*types.Signature), "contract"); ok {
								rt := fo.Type().(*types.Signature).Results()
								var t types.Type
								if rt.Len() == 1 {
									t = rt.At(0).Type()
								}
								return r, t, nil
							}
							return T{}, nil, ec.errf(x, "no model for external function")
						}
					}
					break
				}
			}
		}
		// method call
		recv, rt, err := ec.eval(f.X)
		if err != nil {
			return recv, nil, err
		}
		if rt == nil {
			return T{}, nil, ec.errf(x, "method call on untyped value")
		}
		pkg := ec.pkg
		if n, ok := deref(rt).(*types.Named); ok && n.Obj().Pkg() != nil {
			pkg = n.Obj().Pkg()
		}
		obj, path, indirect := types.LookupFieldOrMethod(rt, true, pkg, f.Sel.Name)
		_ = indirect
		mo, ok := obj.(*types.Func)
		if !ok {
			return T{}, nil, ec.errf(x, "no method %s on %s", f.Sel.Name, rt)
		}
		if _, isIface := rt.Underlying().(*types.Interface); isIface {
			recvIface = &recv
			ifaceMethod = mo
			break
		}
		// walk embedded path to the receiver
		cur, ct := recv, rt
		for _, idx := range path[:len(path)-1] {
			var err error
			var name string
			if p, ok := ct.Underlying().(*types.Pointer); ok {
				name = p.Elem().Underlying().(*types.Struct).Field(idx).Name()
			} else {
				name = ct.Underlying().(*types.Struct).Field(idx).Name()
			}
			if p, ok := ct.Underlying().(*types.Pointer); ok {
				if si := vc.structOf(p.Elem()); si != nil && !si.opaque {
					if ft := si.st.Field(idx).Type(); isModStruct(vc, ft) != nil {
						// embedded struct value: the receiver is its address
						cur = T{S: vc.fieldAddr(ec.now, si, cur.S, idx), Sort: SInt}
						ct = types.NewPointer(ft)
						continue
					}
				}
			}
			cur, ct, err = ec.selectField(x, cur, ct, name)
			if err != nil {
				return cur, nil, err
			}
		}
		fn = vc.P.SSA.FuncValue(mo)
		if fn == nil {
			return T{}, nil, ec.errf(x, "no SSA for method %s", mo.FullName())
		}
		if mo.Pkg() != nil && !inModule(mo.Pkg()) {
			as := []T{cur}
			for _, a := range x.Args {
				v, _, err := ec.eval(a)
				if err != nil {
					return v, nil, err
				}
				as = append(as, v)
			}
			sig := mo.Type().(*types.Signature)
			if r, ok := vc.modelCall(ec.now, vc.extName(fn), as, fn.Signature, "contract"); ok {
				var t types.Type
				if sig.Results().Len() == 1 {
					t = sig.Results().At(0).Type()
				}
				return r, t, nil
			}
			return T{}, nil, ec.errf(x, "no model for external method %s", vc.extName(fn))
		}
		// receiver adaptation: value <-> pointer
		sigRecv := fn.Signature.Recv().Type()
		_, wantPtr := sigRecv.Underlying().(*types.Pointer)
		_, havePtr := ct.Underlying().(*types.Pointer)
		if wantPtr && !havePtr {
			return T{}, nil, ec.errf(x, "pointer-receiver method on a value")
		}
		if !wantPtr && havePtr {
			cur = vc.loadAt(ec.now, cur, deref(ct))
		}
		args = append(args, cur)
	}
	if recvIface != nil {
		var as []T
		as = append(as, *recvIface)
		for _, a := range x.Args {
			v, _, err := ec.eval(a)
			if err != nil {
				return v, nil, err
			}
			as = append(as, v)
		}
		sig := ifaceMethod.Type().(*types.Signature)
		r := vc.ifaceUF(ifaceMethod, as)
		var t types.Type
		if sig.Results().Len() == 1 {
			t = sig.Results().At(0).Type()
		}
		return r, t, nil
	}
	if fn == nil {
		return T{}, nil, ec.errf(x, "cannot resolve call")
	}
	for _, a := range x.Args {
		v, at, err := ec.eval(a)
		if err != nil {
			return v, nil, err
		}
		// implicit conversion to an interface-typed parameter
		if k := len(args); k < len(fn.Params) && at != nil && v.Sort != SIface && v.Sort != "Nil" {
			if _, isIface := fn.Params[k].Type().Underlying().(*types.Interface); isIface {
				v = vc.makeIface(ec.now, v, at)
			}
		}
		args = append(args, v)
	}
	sig := fn.Signature
	if len(args) != len(fn.Params) {
		return T{}, nil, ec.errf(x, "argument count: have %d want %d", len(args), len(fn.Params))
	}
	for i := range args {
		if args[i].Sort == "Nil" {
			args[i] = vc.zero(fn.Params[i].Type())
		}
	}
	if fn.Pkg != nil && fn.Parent() == nil {
		if blk, ok := vc.P.Blocks[funcKey(fn)]; ok && blk.Abstract {
			var t types.Type
			if sig.Results().Len() == 1 {
				t = sig.Results().At(0).Type()
			}
			return vc.abstractUF(fn, args), t, nil
		}
	}
	r, err := vc.pureCall(ec.now, fn, args)
	if err != nil {
		return T{}, nil, ec.errf(x, "%v", err)
	}
	var t types.Type
	if sig.Results().Len() == 1 {
		t = sig.Results().At(0).Type()
	}
	return r, t, nil
}

func (vc *VC) ifaceUF(m *types.Func, args []T) T {
	sig := m.Type().(*types.Signature)
	name := "im_" + mangle(m.FullName())
	var sorts []string
	for _, a := range args {
		sorts = append(sorts, a.Sort)
	}
	rs := SInt
	if sig.Results().Len() == 1 {
		rs = vc.sortOf(sig.Results().At(0).Type())
	}
	vc.declare(name, sorts, rs)
	var as []string
	for _, a := range args {
		as = append(as, a.S)
	}
	return T{S: app(name, as...), Sort: rs}
}

func (vc *VC) abstractUF(fn *ssa.Function, args []T) T {
	name := "af_" + mangle(funcKey(fn))
	var sorts, as []string
	for _, a := range args {
		sorts = append(sorts, a.Sort)
		as = append(as, a.S)
	}
	rs := SInt
	if fn.Signature.Results().Len() == 1 {
		rs = vc.sortOf(fn.Signature.Results().At(0).Type())
	}
	vc.declare(name, sorts, rs)
	vc.note("assumed: " + funcKey(fn) + " is a pure function of its arguments (abstract contract)")
	return T{S: app(name, as...), Sort: rs}
}
