package main

import (
	"fmt"
	"gvc"
	"os"
	"strings"
)

func main() {
	b, _ := os.ReadFile(os.Args[1])
	q := gvc.AbstractFP(string(b))
	if q == "" {
		fmt.Println("NOT ABSTRACTED")
		for _, ln := range strings.Split(string(b), "\n") {
			if strings.Contains(ln, "to_fp") || strings.Contains(ln, "fp.to_") {
				fmt.Println(ln[:min(len(ln), 200)])
			}
		}
		return
	}
	fmt.Println(q)
}
