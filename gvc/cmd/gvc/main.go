package main

import (
	"flag"
	"fmt"
	"os"
	"sort"
	"strings"

	"gvc"
)

func main() {
	if len(os.Args) < 2 {
		fmt.Println("usage: gvc verify|check|ssa ...")
		os.Exit(2)
	}
	switch os.Args[1] {
	case "verify":
		cmdVerify(os.Args[2:])
	case "ssa":
		cmdSSA(os.Args[2:])
	case "check":
		os.Exit(gvc.CmdCheck(os.Args[2:]))
	case "scan":
		cmdScan(os.Args[2:])
	case "replay":
		os.Exit(gvc.CmdReplay(os.Args[2:]))
	case "selftest":
		os.Exit(gvc.CmdSelftest(os.Args[2:]))
	default:
		fmt.Println("unknown command", os.Args[1])
		os.Exit(2)
	}
}

func load(repo string) *gvc.Program {
	P, err := gvc.Load(repo)
	if err != nil {
		fmt.Println("load:", err)
		os.Exit(2)
	}
	if err := P.ParseContracts("/verif/contracts", "/verif/spec"); err != nil {
		fmt.Println("contracts:", err)
		os.Exit(2)
	}
	return P
}

func cmdSSA(args []string) {
	fs := flag.NewFlagSet("ssa", flag.ExitOnError)
	repo := fs.String("repo", "/repo", "")
	fs.Parse(args)
	P := load(*repo)
	for _, name := range fs.Args() {
		fn, ok := P.Funcs[name]
		if !ok {
			var ks []string
			for k := range P.Funcs {
				if strings.Contains(k, name) {
					ks = append(ks, k)
				}
			}
			sort.Strings(ks)
			fmt.Println("no function", name, "; candidates:", ks)
			continue
		}
		fn.WriteTo(os.Stdout)
		for _, af := range fn.AnonFuncs {
			af.WriteTo(os.Stdout)
		}
	}
}

func cmdVerify(args []string) {
	fs := flag.NewFlagSet("verify", flag.ExitOnError)
	repo := fs.String("repo", "/repo", "")
	timeout := fs.Int("timeout", 10000, "ms per obligation")
	verbose := fs.Bool("v", false, "")
	dump := fs.String("dump", "", "write the query of the named obligation (substring) to stdout")
	canaries := fs.Bool("canaries", true, "")
	opcase := fs.String("opcase", "", "")
	nocache := fs.Bool("nocache", false, "")
	nosolve := fs.Bool("n", false, "generate obligations only")
	fs.Parse(args)
	if *nocache {
		gvc.UseCache = false
	}
	P := load(*repo)
	var results []*gvc.Result
	for _, b := range P.BlockL {
		if b.Kind != "func" && b.Kind != "closure" {
			continue
		}
		match := len(fs.Args()) == 0
		for _, a := range fs.Args() {
			if strings.Contains(b.Name, a) {
				match = true
			}
		}
		if !match {
			continue
		}
		r := gvc.Verify(P, b, gvc.Options{Canaries: *canaries, OnlyOpcase: *opcase})
		results = append(results, r)
	}
	if *nosolve {
		for _, r := range results {
			fmt.Println(r.Block.Name, "paths", r.Paths, "obligations", len(r.Obligs), "err", r.Err)
			byPath := map[string]int{}
			for _, o := range r.Obligs {
				byPath[o.Path]++
			}
			for p, n := range byPath {
				if len(p) > 150 {
					p = p[:150] + "..."
				}
				fmt.Println("  ", n, p)
			}
		}
		return
	}
	gvc.Discharge(results, *timeout, 16)
	bad := 0
	for _, r := range results {
		if r.Skipped != "" {
			fmt.Printf("%-40s %s\n", r.Block.Name, r.Skipped)
			continue
		}
		if r.Err != nil {
			fmt.Printf("%-40s ERROR %v\n", r.Block.Name, r.Err)
			bad++
		}
		fmt.Println(gvc.Summary(r))
		for _, o := range r.Obligs {
			if *dump != "" && strings.Contains(o.Name, *dump) {
				fmt.Println(gvc.BuildQuery(r.Decls, o))
			}
			if !o.OK() {
				bad++
				fmt.Printf("   FAIL %s [%s %s %dms] path=%s\n", o.Name, o.Ans.Result, o.Ans.Solver, o.Ans.Ms, o.Path)
				if o.Ans.Result == "error" {
					raw := o.Ans.Raw
					if len(raw) > 300 {
						raw = raw[:300]
					}
					fmt.Printf("        solver: %s\n", strings.ReplaceAll(raw, "\n", " | "))
				}
			} else if *verbose {
				fmt.Printf("   ok   %s [%s %s %dms]\n", o.Name, o.Ans.Result, o.Ans.Solver, o.Ans.Ms)
			}
		}
		if *verbose {
			for _, n := range r.Notes {
				fmt.Println("   note:", n)
			}
		}
	}
	if bad > 0 {
		os.Exit(1)
	}
}

func cmdScan(args []string) {
	fs := flag.NewFlagSet("scan", flag.ExitOnError)
	repo := fs.String("repo", "/repo", "")
	fs.Parse(args)
	P := load(*repo)
	if os.Getenv("GVC_DEBUG") != "" {
		P.DebugScan()
	}
	for _, group := range [][]gvc.ScanSite{P.ScanGlobalWrites(), P.ScanEngineWrites(), P.ScanStdout(), P.ScanContainment(), P.ScanImmutable(), P.ScanFuncTypes(), P.ScanInvocationWrites()} {
		for _, s := range group {
			st := "FAIL"
			if s.OK {
				st = "ok  "
			}
			fmt.Printf("%s %-70s %v  %s %s\n", st, s.Name, s.Props, s.Why, s.Assume)
		}
	}
}
