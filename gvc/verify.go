package gvc

import (
	"fmt"
	"time"
	"go/ast"
	"go/parser"
	"runtime/debug"
	"go/types"
	"sort"
	"strings"

	"golang.org/x/tools/go/ssa"
)

// ---------------------------------------------------------------------
// loops

func (vc *VC) loopSpec(st *State, fr *Frame, n int) *LoopSpec {
	if !fr.top {
		return nil
	}
	if st.ctx != nil && st.ctx.blk != nil {
		if ls, ok := st.ctx.blk.Loops[n]; ok {
			return ls
		}
	}
	if ls, ok := vc.blk.Loops[n]; ok {
		return ls
	}
	return nil
}

func phiName(p *ssa.Phi) string { return p.Comment }

func (vc *VC) localsEnv(st *State, fr *Frame) *Env {
	env := newEnv(nil)
	if fr == nil || !fr.top {
		return env
	}
	for n, nl := range fr.names {
		if nl.isAddr {
			et := deref(nl.ty)
			vc.noFacts++
			env.bindLocal(n, vc.loadAt(st, nl.v, et), et)
			vc.noFacts--
		} else {
			env.bindLocal(n, nl.v, nl.ty)
		}
	}
	return env
}

func (vc *VC) loopEnvL(st *State, fr *Frame, phis []*ssa.Phi, vals []T) *Env {
	env := vc.localsEnv(st, fr)
	for i, p := range phis {
		if n := phiName(p); n != "" {
			env.bindLocal(n, vals[i], p.Type())
		}
	}
	return env
}

func (vc *VC) loopEnv(phis []*ssa.Phi, vals []T) *Env {
	env := newEnv(nil)
	for i, p := range phis {
		if n := phiName(p); n != "" {
			env.bind(n, vals[i], p.Type())
		}
	}
	return env
}

func (vc *VC) loopHead(st *State, fr *Frame, h, pred *ssa.BasicBlock, back bool, phis []*ssa.Phi, vals []T) {
	li := vc.loops(fr.fn)
	n := li.number[h]
	spec := vc.loopSpec(st, fr, n)
	if back {
		// find loop context
		var lc *loopCtx
		for i := len(st.loops) - 1; i >= 0; i-- {
			if st.loops[i].head == h {
				lc = &st.loops[i]
				break
			}
		}
		env := vc.loopEnvL(st, fr, phis, vals)
		if spec != nil {
			for i, c := range spec.Invariants {
				t, err := vc.evalClause(st.ctx, st, st.ctx.old, c.Text, env)
				if err != nil {
					vc.fail(fmt.Errorf("%s:%d: %v", c.File, c.Line, err))
					return
				}
				vc.oblige(st, fmt.Sprintf("invariant.step.loop%d", n), labelOr(c.Label, i+1), t.S, &c, "")
			}
			if spec.Decreases != nil && lc != nil {
				t, err := vc.evalClause(st.ctx, st, st.ctx.old, spec.Decreases.Text, env)
				if err != nil {
					vc.fail(fmt.Errorf("%s:%d: %v", spec.Decreases.File, spec.Decreases.Line, err))
					return
				}
				vc.oblige(st, fmt.Sprintf("decreases.loop%d", n), "", and(app("<=", "0", lc.dec0), app("<", t.S, lc.dec0)), spec.Decreases, "")
			}
		}
		if keys, all := vc.loopModKeys(fr.fn, h); !all {
			vc.loopFrame(st, fr, n, keys, "step")
		} else if fr.top {
			vc.preservesObligations(st, fmt.Sprintf("preserves.loop%d.step", n))
		}
		if st.ctx.blk.Kind == "opcase" && fr.top && n == 1 {
			vc.opcaseEnd(st, fr, nil)
		}
		vc.pathEnd()
		return
	}
	// entry edge
	env := vc.loopEnvL(st, fr, phis, vals)
	if spec != nil {
		for i, c := range spec.Invariants {
			t, err := vc.evalClause(st.ctx, st, st.ctx.old, c.Text, env)
			if err != nil {
				vc.fail(fmt.Errorf("%s:%d: %v", c.File, c.Line, err))
				return
			}
			vc.oblige(st, fmt.Sprintf("invariant.entry.loop%d", n), labelOr(c.Label, i+1), t.S, &c, "")
		}
	}
	// havoc
	keys, all := vc.loopModKeys(fr.fn, h)
	if !all {
		vc.loopFrame(st, fr, n, keys, "entry")
	}
	preHeap := map[string]string{}
	for _, k := range keys {
		if _, ok := vc.heapSort[k]; ok {
			preHeap[k] = vc.heapName(st, k, vc.heapSort[k])
		}
	}
	if all {
		if fr.top {
			vc.preservesObligations(st, fmt.Sprintf("preserves.loop%d.entry", n))
		}
		preLoop := st.clone()
		vc.havocAll(st)
		if fr.top {
			vc.preservesObligations(st, fmt.Sprintf("preserves.loop%d.assume", n))
			vc.keepCaptured(st, preLoop, fr)
		}
	} else {
		for _, k := range keys {
			if vc.heapImm[k] {
				if vc.selfWritten[k] {
					// an immutable field that this function writes on the
					// objects it constructs: objects that exist at the loop
					// head keep their value, younger ones are unknown
					o, n := vc.newVersion(st, k)
					vc.assume(st, fmt.Sprintf("(forall ((a Int)) (! (=> (<= (root a) %s) (= (select %s a) (select %s a))) :pattern ((select %s a))))", st.mark, n, o, n))
				}
				continue
			}
			vc.heapName(st, k, vc.heapSort[k])
			vc.newVersion(st, k)
		}
		vc.bumpMark(st)
		vc.loopFrame(st, fr, n, keys, "assume")
		vc.keepPrivateAllocs(st, fr, h, keys, preHeap)
	}
	hv := make([]T, len(phis))
	for i, p := range phis {
		v := vc.fresh("phi_"+mangle(ifEmpty(phiName(p), p.Name())), vc.sortOf(p.Type()))
		vc.refFacts(st, v, p.Type())
		hv[i] = v
		fr.vals[p] = v
	}
	vc.trHavoc(st)
	// ghost call counters are loop-carried too when the body may call
	if all {
		cn := vc.fresh("callsN", SInt)
		vc.assume(st, app(">=", cn.S, st.callsN))
		st.callsN = cn.S
		st.callsA = vc.fresh("callsA", "(Array Int Int)").S
		st.callsR = vc.fresh("callsR", "(Array Int Int)").S
	}
	env = vc.loopEnvL(st, fr, phis, hv)
	if spec != nil {
		for _, c := range spec.Invariants {
			t, err := vc.evalClause(st.ctx, st, st.ctx.old, c.Text, env)
			if err != nil {
				vc.fail(fmt.Errorf("%s:%d: %v", c.File, c.Line, err))
				return
			}
			vc.assume(st, t.S)
		}
	}
	if spec != nil {
		for _, c := range spec.Unfolds {
			ec := &evalCtx{vc: vc, now: st, old: st.ctx.old, pkg: vc.fn.Pkg.Pkg, fn: vc.fn}
			base := vc.baseEnv(st.ctx)
			e2 := *env
			root := &e2
			for root.parent != nil {
				p := *root.parent
				root.parent = &p
				root = &p
			}
			root.parent = base
			ec.env = &e2
			vc.pure++
			f, err := ec.unfold(c.Text)
			vc.pure--
			if err != nil {
				vc.fail(fmt.Errorf("%s:%d: %v", c.File, c.Line, err))
				return
			}
			vc.assume(st, f)
		}
	}
	// automatic invariant: counter phis  i = c ; i = i + k (k>0)  =>  i >= c
	for i, p := range phis {
		if hv[i].Sort != SInt {
			continue
		}
		var init *ssa.Const
		inc := false
		ok := true
		for j, e := range p.Edges {
			if li.body[h][h.Preds[j]] {
				if b, isBin := e.(*ssa.BinOp); isBin && b.Op.String() == "+" && b.X == ssa.Value(p) {
					if c, isC := b.Y.(*ssa.Const); isC && c.Value != nil && c.Int64() > 0 {
						inc = true
						continue
					}
				}
				ok = false
			} else if c, isC := e.(*ssa.Const); isC && c.Value != nil {
				init = c
			} else {
				ok = false
			}
		}
		if ok && inc && init != nil {
			vc.assume(st, app(">=", hv[i].S, vc.constVal(init).S))
		}
	}
	lc := loopCtx{head: h}
	if spec != nil && spec.Decreases != nil {
		t, err := vc.evalClause(st.ctx, st, st.ctx.old, spec.Decreases.Text, env)
		if err != nil {
			vc.fail(fmt.Errorf("%s:%d: %v", spec.Decreases.File, spec.Decreases.Line, err))
			return
		}
		lc.dec0 = t.S
	}
	st.loops = append(st.loops, lc)
	st.trail = append(st.trail, fmt.Sprintf("loop%d", n))
	if fr.top && n == 1 && len(vc.blk.Opcases) > 0 && st.ctx.blk == vc.blk {
		vc.forkOpcases(st, fr, h, len(phis))
		return
	}
	vc.step(st, fr, h, len(phis))
}

func labelOr(l string, n int) string {
	if l != "" {
		return l
	}
	return fmt.Sprint(n)
}

// opcases: one iteration of the dispatch loop under its own contract.
func (vc *VC) forkOpcases(st *State, fr *Frame, h *ssa.BasicBlock, skip int) {
	for _, oc := range vc.blk.Opcases {
		if vc.onlyOpcase != "" && oc.Name != vc.onlyOpcase {
			continue
		}
		s := st.clone()
		f := fr.cloneVals()
		old := s.clone()
		ctx := &Ctx{blk: oc, old: old, env: map[string]T{}, envTy: map[string]types.Type{}, name: vc.fnName + "/" + oc.Name}
		for k, v := range st.ctx.env {
			ctx.env[k] = v
			ctx.envTy[k] = st.ctx.envTy[k]
		}
		s.ctx = ctx
		env := vc.baseEnv(ctx)
		if err := vc.bindLets(oc, vc.fn.Pkg.Pkg, env, s); err != nil {
			vc.fail(err)
			return
		}
		for n := range env.vars {
			ctx.env[n] = env.vars[n]
			ctx.envTy[n] = env.tys[n]
		}
		for _, c := range oc.Requires {
			t, err := vc.evalClause(ctx, s, old, c.Text, nil)
			if err != nil {
				vc.fail(fmt.Errorf("%s:%d: %v", c.File, c.Line, err))
				return
			}
			vc.assumeCond(s, t.S)
		}
		old.assumes = append([]string(nil), s.assumes...)
		old.conds = append([]bool(nil), s.conds...)
		s.trail = append(s.trail, oc.Name)
		vc.step(s, f, h, skip)
	}
}

// opcaseEnd: the iteration ends (back edge, or return when res != nil).
func (vc *VC) opcaseEnd(st *State, fr *Frame, res []T) {
	oc := st.ctx.blk
	var env *Env
	if res != nil {
		env = vc.localsEnv(st, fr)
		sig := vc.fn.Signature
		if sig.Results().Len() == 1 && len(res) == 1 {
			env.bind("result", res[0], sig.Results().At(0).Type())
		}
		env.bind("returned", B(true), types.Typ[types.Bool])
	} else {
		env = vc.localsEnv(st, fr)
		env.bind("returned", B(false), types.Typ[types.Bool])
	}
	for i, c := range oc.Ensures {
		t, err := vc.evalClause(st.ctx, st, st.ctx.old, c.Text, env)
		if err != nil {
			vc.fail(fmt.Errorf("%s:%d: %v", c.File, c.Line, err))
			return
		}
		vc.oblige(st, "ensures", labelOr(c.Label, i+1), t.S, &c, "")
	}
	if oc.FailsIff != nil {
		vc.oblige(st, "fails_iff.all", "", not(vc.failsCond(st)), oc.FailsIff, "")
	}
	if vc.canaries {
		vc.canary(st, "end")
	}
}

func (vc *VC) canary(st *State, where string) {
	o := &Oblig{Name: fmt.Sprintf("%s/canary.%s#%d", st.ctx.name, where, vc.paths), Kind: "canary", Props: vc.propsFor(st, nil),
		Goal: "false", Assumes: append([]string(nil), st.assumes...), Path: strings.Join(st.trail, ">"), Canary: true}
	vc.obligs = append(vc.obligs, o)
}

// loopModKeys: heap keys that may be written inside the loop with header h.
func (vc *VC) loopModKeys(fn *ssa.Function, h *ssa.BasicBlock) ([]string, bool) {
	li := vc.loops(fn)
	set := map[string]bool{}
	all := false
	var blocks []*ssa.BasicBlock
	for b := range li.body[h] {
		blocks = append(blocks, b)
	}
	sort.Slice(blocks, func(i, j int) bool { return blocks[i].Index < blocks[j].Index })
	vc.scanMods(blocks, set, &all, map[*ssa.Function]bool{fn: true})
	var keys []string
	for k := range set {
		keys = append(keys, k)
	}
	sort.Strings(keys)
	return keys, all
}

func (vc *VC) scanMods(blocks []*ssa.BasicBlock, set map[string]bool, all *bool, visiting map[*ssa.Function]bool) {
	addLeaves := func(t types.Type) {
		for _, l := range vc.leaves(t) {
			set[l.key] = true
		}
	}
	for _, b := range blocks {
		for _, in := range b.Instrs {
			switch x := in.(type) {
			case *ssa.Store:
				if g, ok := x.Addr.(*ssa.Global); ok {
					set["G_"+mangle(g.Pkg.Pkg.Path()+"."+g.Name())] = true
				}
				if fa, ok := x.Addr.(*ssa.FieldAddr); ok {
					pt := fa.X.Type().Underlying().(*types.Pointer).Elem()
					si := vc.structOf(pt)
					if si != nil && !si.opaque {
						ft := si.st.Field(fa.Field).Type()
						if isModStruct(vc, ft) == nil {
							vc.heapSort[fieldKey(si, fa.Field)] = vc.sortOf(ft)
							set[fieldKey(si, fa.Field)] = true
							continue
						}
					}
				}
				addLeaves(x.Val.Type())
			case *ssa.Alloc:
				addLeaves(x.Type().(*types.Pointer).Elem())
			case *ssa.MakeSlice:
				addLeaves(x.Type().Underlying().(*types.Slice).Elem())
			case *ssa.MakeMap:
				mk := vc.mapInfo(x.Type())
				set[mk.has], set[mk.val], set[mk.len] = true, true, true
			case *ssa.MapUpdate:
				mk := vc.mapInfo(x.Map.Type())
				set[mk.has], set[mk.val], set[mk.len] = true, true, true
			case *ssa.Go, *ssa.Defer:
				*all = true
			case *ssa.Call:
				c := x.Call
				if bi, ok := c.Value.(*ssa.Builtin); ok {
					switch bi.Name() {
					case "append", "copy":
						addLeaves(c.Args[0].Type().Underlying().(*types.Slice).Elem())
					case "delete":
						mk := vc.mapInfo(c.Args[0].Type())
						set[mk.has], set[mk.val], set[mk.len] = true, true, true
					case "len", "cap", "min", "max":
					default:
						*all = true
					}
					continue
				}
				callee := c.StaticCallee()
				if callee == nil || c.IsInvoke() {
					if c.IsInvoke() {
						it := c.Value.Type()
						if n, ok := it.(*types.Named); ok && n.Obj().Pkg() != nil {
							key := fmt.Sprintf("%s.(%s).%s", shortPkg(n.Obj().Pkg().Path()), n.Obj().Name(), c.Method.Name())
							if blk, ok := vc.P.Blocks[key]; ok && blk.Pure {
								continue
							}
						}
					}
					if !c.IsInvoke() && vc.blk != nil && vc.blk.HasUse("dyncalls-pure") {
						continue
					}
					*all = true
					continue
				}
				if callee.Pkg != nil && inModule(callee.Pkg.Pkg) && callee.Parent() == nil {
					if blk, ok := vc.P.Blocks[funcKey(callee)]; ok && !blk.Inline {
						if blk.Abstract {
							continue
						}
						if blk.HasMod {
							var args []T
							for _, p := range callee.Params {
								args = append(args, T{S: "dummy_" + p.Name(), Sort: vc.sortOf(p.Type())})
							}
							scratch := &State{heap: map[string]string{}, known: map[string]string{}, baseVer: "scratch", mark: "mark0"}
							vc.pure++
							tg, err := vc.modTargets(blk, callee.Pkg.Pkg, paramEnv(callee, args), scratch)
							vc.pure--
							if err != nil {
								vc.fail(err)
								return
							}
							for _, t := range tg {
								if t.all {
									*all = true
								} else {
									set[t.key] = true
								}
							}
						}
						continue
					}
				}
				if callee.Blocks != nil && (callee.Pkg != nil && inModule(callee.Pkg.Pkg) || callee.Parent() != nil) {
					if visiting[callee] {
						*all = true
						continue
					}
					visiting[callee] = true
					vc.scanMods(callee.Blocks, set, all, visiting)
					delete(visiting, callee)
					continue
				}
				name := vc.extName(callee)
				if pureExternal(name) {
					continue
				}
				*all = true
			}
		}
	}
}

func (vc *VC) extName(callee *ssa.Function) string {
	name := callee.String()
	if callee.Object() != nil && callee.Object().Pkg() != nil {
		name = callee.Object().Pkg().Path() + "." + callee.Name()
		if recv := callee.Signature.Recv(); recv != nil {
			name = "(" + types.TypeString(recv.Type(), func(p *types.Package) string { return p.Path() }) + ")." + callee.Name()
		}
	}
	return name
}

// ---------------------------------------------------------------------
// verification of one contract block

type Result struct {
	Block   *Block
	Fn      *ssa.Function
	Obligs  []*Oblig
	Notes   []string
	Paths   int
	Err     error
	Decls   []string
	Skipped string
}

type Options struct {
	MaxPaths   int
	Canaries   bool
	OnlyOpcase string
}

func (P *Program) FindFunc(blk *Block) *ssa.Function {
	if fn, ok := P.Funcs[blk.Name]; ok {
		return fn
	}
	return nil
}

func NewVC(P *Program, fn *ssa.Function, blk *Block, opt Options) *VC {
	vc := &VC{P: P, fn: fn, blk: blk, fnName: blk.Name, declared: map[string]bool{}, heapSort: map[string]string{}, heapImm: map[string]bool{},
		notes: map[string]bool{}, strlits: map[string]string{}, typeIDs: map[string]int{}, typeByID: map[int]types.Type{}, structs: map[string]*structInfo{},
		globals: map[string]int64{}, params: map[string]T{}, paramTy: map[string]types.Type{}, loopsOf: map[*ssa.Function]*loopInfo{},
		MaxPaths: opt.MaxPaths, canaries: opt.Canaries, faTags: map[string]int{}, onlyOpcase: opt.OnlyOpcase, storeDefs: map[string]storeDef{}}
	if vc.MaxPaths == 0 {
		vc.MaxPaths = 20000
	}
	vc.declared["mark0"] = true
	vc.deadline = time.Now().Add(150 * time.Second)
	for _, im := range P.Immutable {
		vc.markImmutable(im)
	}
	// a function that itself writes a field (its constructor) sees it as
	// ordinary mutable memory
	if fn != nil && fn.Blocks != nil {
		set := map[string]bool{}
		all := false
		vc.scanMods(fn.Blocks, set, &all, map[*ssa.Function]bool{fn: true})
		vc.selfWritten = set
	}
	return vc
}

func (vc *VC) markImmutable(spec string) {
	// pkg.Struct.Field   |   pkg.GlobalMap (contents frozen after package initialisation)
	parts := strings.Split(spec, ".")
	if len(parts) == 2 {
		for path, sp := range vc.P.ByPath {
			if shortPkg(path) != parts[0] {
				continue
			}
			if obj := sp.Pkg.Scope().Lookup(parts[1]); obj != nil {
				if _, ok := obj.Type().Underlying().(*types.Map); ok {
					mk := vc.mapInfo(obj.Type())
					vc.heapImm[mk.has], vc.heapImm[mk.val], vc.heapImm[mk.len] = true, true, true
				}
			}
		}
		return
	}
	if len(parts) != 3 {
		return
	}
	for path, sp := range vc.P.ByPath {
		if shortPkg(path) != parts[0] {
			continue
		}
		obj := sp.Pkg.Scope().Lookup(parts[1])
		if obj == nil {
			continue
		}
		si := vc.structOf(obj.Type())
		if si == nil || si.opaque {
			continue
		}
		for i := 0; i < si.st.NumFields(); i++ {
			if si.st.Field(i).Name() == parts[2] || parts[2] == "*" {
				ft := si.st.Field(i).Type()
				if isModStruct(vc, ft) != nil {
					for _, l := range vc.leaves(ft) {
						vc.heapImm[l.key] = true
					}
				} else {
					vc.heapImm[fieldKey(si, i)] = true
					vc.heapSort[fieldKey(si, i)] = vc.sortOf(ft)
				}
			}
		}
	}
}

func Verify(P *Program, blk *Block, opt Options) (res *Result) {
	fn := P.FindFunc(blk)
	res = &Result{Block: blk, Fn: fn}
	if fn == nil {
		res.Skipped = "STALE-CONTRACT: no function " + blk.Name
		return res
	}
	// an `abstract` function is an uninterpreted function of its arguments at
	// its call sites; with `uses verify-body` its body is nevertheless verified
	// against the block's own postconditions
	if blk.Trusted || (blk.Abstract && !blk.HasUse("verify-body")) {
		res.Skipped = "trusted"
		return res
	}
	vc := NewVC(P, fn, blk, opt)
	defer func() {
		if r := recover(); r != nil {
			res.Err = fmt.Errorf("engine panic in %s: %v\n%s", blk.Name, r, debug.Stack())
			res.Obligs = nil
		}
	}()
	st := &State{heap: map[string]string{}, known: map[string]string{}, baseVer: "0", mark: "mark0"}
	st.callsN = "0"
	st.callsA = vc.fresh("callsA", "(Array Int Int)").S
	st.callsR = vc.fresh("callsR", "(Array Int Int)").S
	vc.trInit(st)
	fr := &Frame{fn: fn, vals: map[ssa.Value]T{}, top: true, closures: map[ssa.Value]*closureInfo{}}
	for i, p := range fn.Params {
		v := T{S: "p_" + mangle(p.Name()), Sort: vc.sortOf(p.Type())}
		vc.declare(v.S, nil, v.Sort)
		vc.refFacts(st, v, p.Type())
		fr.vals[p] = v
		vc.params[p.Name()] = v
		vc.paramTy[p.Name()] = p.Type()
		if len(blk.Implements) > 0 {
			// the function type's contract speaks of arg0, arg1, ...
			vc.params[fmt.Sprintf("arg%d", i)] = v
			vc.paramTy[fmt.Sprintf("arg%d", i)] = p.Type()
		}
	}
	for _, fv := range fn.FreeVars {
		v := T{S: "fv_" + mangle(fv.Name()), Sort: vc.sortOf(fv.Type())}
		vc.declare(v.S, nil, v.Sort)
		vc.refFacts(st, v, fv.Type())
		fr.bindings = append(fr.bindings, v)
		// free variables are pointers to the captured variable cells
		vc.params["&"+fv.Name()] = v
		vc.paramTy["&"+fv.Name()] = fv.Type()
		// the captured variable itself, by its source name (value at entry)
		if pt, ok := fv.Type().Underlying().(*types.Pointer); ok {
			vc.assume(st, not(eq(v.S, "0")))
			vc.params[fv.Name()] = vc.loadAt(st, v, pt.Elem())
			vc.paramTy[fv.Name()] = pt.Elem()
		}
	}
	ctx := &Ctx{blk: blk, env: map[string]T{}, envTy: map[string]types.Type{}, name: blk.Name}
	st.ctx = ctx
	if fn.Name() == "init" && fn.Parent() == nil && fn.Pkg != nil {
		// package initialiser: runs once, the guard is still false
		if g, ok := fn.Pkg.Members["init$guard"].(*ssa.Global); ok {
			ga := vc.globalAddr(g)
			vc.assume(st, not(vc.loadAt(st, ga, types.Typ[types.Bool]).S))
		}
	}
	// axiom groups
	for _, u := range blk.Uses {
		if ib, ok := P.Blocks[u]; ok {
			// facts established by a package initialiser (its proved
			// postconditions), valid afterwards because the globals and
			// fields involved are immutable
			ifn := P.FindFunc(ib)
			if ifn == nil {
				res.Err = fmt.Errorf("uses %s: no such function", u)
				return res
			}
			for _, c := range ib.Ensures {
				t, err := vc.evalIn(ifn.Pkg.Pkg, newEnv(nil), st, st, c.Text)
				if err != nil {
					res.Err = fmt.Errorf("%s:%d: %v", c.File, c.Line, err)
					return res
				}
				vc.assume(st, t.S)
			}
			continue
		}
		if ax, ok := P.Axioms[u]; ok {
			for _, c := range ax {
				t, err := vc.evalClause(ctx, st, st, c.Text, nil)
				if err != nil {
					res.Err = fmt.Errorf("%s:%d: %v", c.File, c.Line, err)
					return res
				}
				vc.assume(st, t.S)
			}
		}
	}
	// axioms of the group `always` (pure facts about spec functions) are part of every VC
	for _, c := range P.Axioms["always"] {
		t, err := vc.evalClause(ctx, st, st, c.Text, nil)
		if err != nil {
			res.Err = fmt.Errorf("%s:%d: %v", c.File, c.Line, err)
			return res
		}
		vc.assume(st, t.S)
	}
	// handler twins: the contract speaks about the state before the fetch
	pre := st
	if len(blk.PreShift) > 0 {
		pre = st.clone()
		for loc, d := range blk.PreShift {
			e, err := parser.ParseExpr(loc)
			if err != nil {
				res.Err = err
				return res
			}
			sel := e.(*ast.SelectorExpr)
			ec := &evalCtx{vc: vc, now: st, old: st, pkg: fn.Pkg.Pkg, env: vc.baseEnv(ctx), fn: fn}
			base, bt, err := ec.eval(sel.X)
			if err != nil {
				res.Err = err
				return res
			}
			tg, err := vc.fieldTargets(base, bt, sel.Sel.Name, fn.Pkg.Pkg)
			if err != nil || len(tg) != 1 {
				res.Err = fmt.Errorf("preshift %s: %v", loc, err)
				return res
			}
			cur, _, _ := ec.eval(e)
			vc.hstore(pre, tg[0].key, SInt, base.S, T{S: app("+", cur.S, I(int64(d)).S), Sort: SInt})
		}
		// definitional facts of the virtual state are facts of the real one too
		st.assumes = append([]string(nil), pre.assumes...)
		st.conds = append([]bool(nil), pre.conds...)
	}
	env := vc.baseEnv(ctx)
	if err := vc.bindLets(blk, fn.Pkg.Pkg, env, pre); err != nil {
		res.Err = err
		return res
	}
	for n := range env.vars {
		ctx.env[n] = env.vars[n]
		ctx.envTy[n] = env.tys[n]
	}
	for _, c := range blk.Requires {
		t, err := vc.evalClause(ctx, pre, pre, c.Text, nil)
		if err != nil {
			res.Err = fmt.Errorf("%s:%d: %v", c.File, c.Line, err)
			return res
		}
		vc.assumeCond(pre, t.S)
	}
	for _, c := range blk.Unfolds {
		if strings.HasPrefix(c.Text, "@return ") {
			continue
		}
		ec := &evalCtx{vc: vc, now: pre, old: pre, pkg: fn.Pkg.Pkg, env: vc.baseEnv(ctx), fn: fn}
		vc.pure++
		f, err := ec.unfold(c.Text)
		vc.pure--
		if err != nil {
			res.Err = fmt.Errorf("%s:%d: %v", c.File, c.Line, err)
			return res
		}
		vc.assume(pre, f)
	}
	if pre != st {
		st.assumes = append([]string(nil), pre.assumes...)
		st.conds = append([]bool(nil), pre.conds...)
		for k, v := range pre.known {
			if strings.HasPrefix(k, "eq:") || strings.HasPrefix(k, "b:") {
				st.known[k] = v
			}
		}
		ctx.env["returned"] = B(false)
		ctx.envTy["returned"] = types.Typ[types.Bool]
	}
	vc.entry = pre.clone()
	vc.entry.assumes = append([]string(nil), st.assumes...)
	vc.entry.conds = append([]bool(nil), st.conds...)
	ctx.old = vc.entry
	fr.ret = func(s *State, self *Frame, rs []T) {
		vc.atReturn(s, self, rs)
	}
	// vacuity: the precondition must be satisfiable
	if len(blk.Requires) > 0 {
		o := &Oblig{Name: blk.Name + "/cover.requires", Kind: "cover", Props: blk.Props, Goal: "false",
			Assumes: append([]string(nil), st.assumes...), Canary: true}
		vc.obligs = append(vc.obligs, o)
	}
	vc.enter(st, fr, fn.Blocks[0], nil)
	if vc.Err == nil {
		for _, ac := range blk.AtClosure {
			if vc.atUsed[ac.Clause.Text] == 0 {
				vc.fail(fmt.Errorf("%s:%d: site assertion never applicable (no matching closure / call with these locals): %s", ac.Clause.File, ac.Clause.Line, ac.Clause.Text))
			}
		}
	}
	res.Obligs = vc.obligs
	res.Paths = vc.paths
	res.Err = vc.Err
	res.Decls = vc.decls
	for n := range vc.notes {
		res.Notes = append(res.Notes, n)
	}
	sort.Strings(res.Notes)
	return res
}

func (vc *VC) atReturn(st *State, fr *Frame, rs []T) {
	if st.ctx.blk.Kind == "opcase" {
		vc.opcaseEnd(st, fr, rs)
		vc.pathEnd()
		return
	}
	blk := vc.blk
	env := newEnv(nil)
	sig := vc.fn.Signature
	if sig.Results().Len() == 1 && len(rs) == 1 {
		env.bind("result", rs[0], sig.Results().At(0).Type())
	}
	for i := 0; i < sig.Results().Len() && i < len(rs); i++ {
		env.bind(fmt.Sprintf("result%d", i), rs[i], sig.Results().At(i).Type())
		if n := sig.Results().At(i).Name(); n != "" && n != "_" {
			env.bind(n, rs[i], sig.Results().At(i).Type())
		}
	}
	// definitions unfolded at the return point (they may mention `result`)
	for _, c := range blk.Unfolds {
		if !strings.HasPrefix(c.Text, "@return ") {
			continue
		}
		ec := &evalCtx{vc: vc, now: st, old: vc.entry, pkg: vc.fn.Pkg.Pkg, fn: vc.fn}
		ec.env = vc.baseEnv(st.ctx)
		e2 := *env
		e2.parent = ec.env
		ec.env = &e2
		vc.pure++
		f, err := ec.unfold(strings.TrimPrefix(c.Text, "@return "))
		vc.pure--
		if err != nil {
			vc.fail(fmt.Errorf("%s:%d: %v", c.File, c.Line, err))
			return
		}
		vc.assume(st, f)
	}
	for i, c := range blk.Ensures {
		t, err := vc.evalClause(st.ctx, st, vc.entry, c.Text, env)
		if err != nil {
			vc.fail(fmt.Errorf("%s:%d: %v", c.File, c.Line, err))
			return
		}
		vc.oblige(st, "ensures", labelOr(c.Label, i+1), t.S, &c, "")
	}
	if blk.FailsIff != nil {
		vc.oblige(st, "fails_iff.all", "", not(vc.failsCond(st)), blk.FailsIff, "")
	}
	if blk.RetClosure != "" && len(rs) == 1 {
		// `returns closure`: the value returned is that function literal and
		// its captured variables hold the stated values
		name := blk.RetClosure
		if !strings.Contains(strings.SplitN(name, "(", 2)[0], ".") || strings.HasPrefix(name, "(") {
			name = shortPkg(vc.fn.Pkg.Pkg.Path()) + "." + name
		}
		ci := vc.closureByRef[rs[0].S]
		if ci == nil || ci.fn != vc.P.Funcs[name] {
			vc.oblige(st, "returns-closure", "literal", "false", nil, "")
		} else {
			for i, fv := range ci.fn.FreeVars {
				text, ok := blk.RetBinds[fv.Name()]
				if !ok || i >= len(ci.bindings) {
					vc.oblige(st, "returns-closure", fv.Name(), "false", nil, "")
					continue
				}
				want, err := vc.evalClause(st.ctx, st, vc.entry, text, env)
				if err != nil {
					vc.fail(fmt.Errorf("%s:%d: %v", blk.File, blk.Line, err))
					return
				}
				have := ci.bindings[i]
				if pt, isPtr := fv.Type().Underlying().(*types.Pointer); isPtr {
					have = vc.loadAt(st, ci.bindings[i], pt.Elem())
				}
				vc.oblige(st, "returns-closure", fv.Name(), eq(have.S, want.S), nil, "")
			}
		}
	}
	if blk.Fresh && len(rs) == 1 {
		vc.oblige(st, "ensures", "fresh", and(app(">", app("root", rs[0].S), vc.entry.mark), not(eq(rs[0].S, "0"))), nil, "")
	}
	// the frame is always an obligation: without a `modifies` clause the
	// function may only write memory it allocated itself
	if len(blk.Opcases) == 0 && !(vc.fn.Name() == "init" && vc.fn.Parent() == nil) {
		vc.frameObligations(st)
	}
	if vc.canaries {
		vc.canary(st, "return")
	}
	vc.pathEnd()
}

// keepPrivateAllocs: a local variable that lives in memory (its address is
// only used for loads, stores and field access in this function) and that
// the loop does not write keeps its contents across the loop-head havoc.
func (vc *VC) keepPrivateAllocs(st *State, fr *Frame, h *ssa.BasicBlock, keys []string, preHeap map[string]string) {
	li := vc.loops(fr.fn)
	body := li.body[h]
	for v, t := range fr.vals {
		al, ok := v.(*ssa.Alloc)
		if !ok || al.Parent() != fr.fn || st.escaped[t.S] {
			continue
		}
		if body[al.Block()] {
			continue // allocated inside the loop
		}
		if !vc.allocUntouchedIn(al, body) {
			continue
		}
		for _, k := range keys {
			o, ok := preHeap[k]
			if !ok || vc.heapImm[k] {
				continue
			}
			n := vc.heapName(st, k, vc.heapSort[k])
			if n == o {
				continue
			}
			vc.assume(st, fmt.Sprintf("(forall ((a Int)) (! (=> (= (root a) %s) (= (select %s a) (select %s a))) :pattern ((select %s a))))", t.S, n, o, n))
		}
	}
}

// allocUntouchedIn: inside the given blocks the allocation is only read
// (loads, field/element address computation feeding loads).
func (vc *VC) allocUntouchedIn(al *ssa.Alloc, body map[*ssa.BasicBlock]bool) bool {
	var ok func(v ssa.Value, depth int) bool
	ok = func(v ssa.Value, depth int) bool {
		if depth > 6 {
			return false
		}
		refs := v.Referrers()
		if refs == nil {
			return true
		}
		for _, r := range *refs {
			switch x := r.(type) {
			case *ssa.DebugRef:
			case *ssa.UnOp:
				// load: fine anywhere
			case *ssa.Store:
				if x.Val == v {
					return false // address stored somewhere: escapes
				}
				if body[x.Block()] {
					return false
				}
			case *ssa.FieldAddr:
				if !ok(x, depth+1) {
					return false
				}
			case *ssa.IndexAddr:
				if !ok(x, depth+1) {
					return false
				}
			default:
				// calls, closures, conversions ...: may write through the address
				if in, isInstr := r.(ssa.Instruction); isInstr && !body[in.Block()] {
					// outside the loop: whether it escaped on this path is tracked by st.escaped
					if _, isCall := r.(ssa.CallInstruction); isCall {
						return false
					}
					if _, isMC := r.(*ssa.MakeClosure); isMC {
						return false
					}
					continue
				}
				return false
			}
		}
		return true
	}
	return ok(al, 0)
}

// frameGoal: heap array k agrees with its entry version outside the
// declared modifies regions for all addresses that existed at entry.
func (vc *VC) frameGoal(st *State, k string, tg []modTarget) string {
	cur := vc.heapName(st, k, vc.heapSort[k])
	ent := vc.heapName(vc.entry, k, vc.heapSort[k])
	if cur == ent {
		return ""
	}
	var regs []string
	for _, t := range tg {
		if t.key == k {
			regs = append(regs, t.region("a!f"))
		}
	}
	return fmt.Sprintf("(forall ((a!f Int)) (! (=> (and (<= (root a!f) mark0) (not %s)) (= (select %s a!f) (select %s a!f))) :pattern ((select %s a!f))))", or(regs...), cur, ent, cur)
}

// preservesObligations: `modifies all` + `preserves X`: whatever else the
// function does, X has the value it had at entry (objects that existed at
// entry).  kind "preserves" = at return; "preserves.loopN.entry/step" = the
// same statement as an automatic loop invariant; mode assume = after the havoc
// at a loop head.
func (vc *VC) preservesObligations(st *State, kind string) {
	blk := vc.blk
	if len(blk.Preserves) == 0 || vc.entry == nil || st.ctx == nil || st.ctx.blk != blk {
		return
	}
	tmp := &Block{Modifies: blk.Preserves, File: blk.File, Line: blk.Line}
	tg, err := vc.modTargets(tmp, vc.fn.Pkg.Pkg, vc.baseEnv(st.ctx), vc.entry)
	if err != nil {
		vc.fail(err)
		return
	}
	for i, t := range tg {
		if t.all {
			continue
		}
		if _, ok := vc.heapSort[t.key]; !ok {
			continue
		}
		cur := vc.heapName(st, t.key, vc.heapSort[t.key])
		ent := vc.heapName(vc.entry, t.key, vc.heapSort[t.key])
		if cur == ent {
			continue
		}
		goal := fmt.Sprintf("(forall ((a!f Int)) (! (=> (and (<= (root a!f) mark0) %s) (= (select %s a!f) (select %s a!f))) :pattern ((select %s a!f))))", t.region("a!f"), cur, ent, cur)
		if strings.HasSuffix(kind, ".assume") {
			vc.assume(st, goal)
		} else {
			vc.oblige(st, kind, fmt.Sprintf("%s#%d", t.key, i), goal, nil, "")
		}
	}
}

// loopFrame: the function's frame (modifies clause) as an automatic loop
// invariant for the heap arrays the loop may write: asserted on the entry
// edge and on every back edge, assumed after the havoc at the loop head.
func (vc *VC) loopFrame(st *State, fr *Frame, n int, keys []string, mode string) {
	if !fr.top || st.ctx == nil || st.ctx.blk != vc.blk || len(vc.blk.Opcases) > 0 || vc.entry == nil || st.baseVer != "0" {
		return
	}
	tg, err := vc.modTargets(vc.blk, vc.fn.Pkg.Pkg, vc.baseEnv(st.ctx), vc.entry)
	if err != nil {
		vc.fail(err)
		return
	}
	for _, t := range tg {
		if t.all {
			return
		}
	}
	for _, k := range keys {
		if vc.heapImm[k] {
			continue
		}
		if _, ok := vc.heapSort[k]; !ok {
			continue
		}
		g := vc.frameGoal(st, k, tg)
		if g == "" {
			continue
		}
		if mode == "assume" {
			vc.assume(st, g)
		} else {
			vc.oblige(st, fmt.Sprintf("modifies.loop%d.%s", n, mode), k, g, nil, "")
		}
	}
}

// frameObligations: every heap array whose version changed must agree
// with the entry version outside the declared modifies regions, for all
// addresses that existed at entry.
func (vc *VC) frameObligations(st *State) {
	blk := vc.blk
	env := vc.baseEnv(st.ctx)
	tg, err := vc.modTargets(blk, vc.fn.Pkg.Pkg, env, vc.entry)
	if err != nil {
		vc.fail(err)
		return
	}
	for _, t := range tg {
		if t.all {
			vc.preservesObligations(st, "preserves")
			return
		}
	}
	if st.baseVer != "0" {
		vc.oblige(st, "modifies", "havoc", "false", nil, "")
		return
	}
	var keys []string
	for k := range st.heap {
		keys = append(keys, k)
	}
	sort.Strings(keys)
	for _, k := range keys {
		cur := st.heap[k]
		ent := vc.heapName(vc.entry, k, vc.heapSort[k])
		if cur == ent {
			continue
		}
		var regs []string
		for _, t := range tg {
			if t.key == k {
				regs = append(regs, t.region("a!f"))
			}
		}
		goal := fmt.Sprintf("(forall ((a!f Int)) (=> (and (<= (root a!f) mark0) (not %s)) (= (select %s a!f) (select %s a!f))))", or(regs...), cur, ent)
		vc.oblige(st, "modifies", k, goal, nil, "")
	}
}
