package gvc

import (
	"fmt"
	"go/types"
	"sort"
	"strings"

	"golang.org/x/tools/go/packages"
	"golang.org/x/tools/go/ssa"
	"golang.org/x/tools/go/ssa/ssautil"
)

const ModPath = "github.com/goghcrow/yae"

type Program struct {
	Pkgs     []*packages.Package
	SSA      *ssa.Program
	ByPath   map[string]*ssa.Package
	Funcs    map[string]*ssa.Function // "pkg.Name", "pkg.(*T).M", "pkg.(T).M", closures "pkg.VAR" (bound literal)
	AllFuncs []*ssa.Function
	Blocks   map[string]*Block // contract blocks by qualified target name
	BlockL   []*Block
	Specs    map[string]*SpecFun
	Axioms   map[string][]Clause
	Immutable []string
	MutableGlobals map[string]bool // globals stored to outside package initialisers
	RepoDir  string
	reach    map[*ssa.Function]bool
	summaryDepth int
}

// shortPkg: github.com/goghcrow/yae/parser/pos -> pos ; root -> yae
func shortPkg(path string) string {
	if path == ModPath {
		return "yae"
	}
	if i := strings.LastIndexByte(path, '/'); i >= 0 {
		return path[i+1:]
	}
	return path
}

func inModule(p *types.Package) bool {
	return p != nil && (p.Path() == ModPath || strings.HasPrefix(p.Path(), ModPath+"/"))
}

func Load(repo string) (*Program, error) {
	cfg := &packages.Config{Mode: packages.LoadAllSyntax, Dir: repo, BuildFlags: []string{"-tags=verif"},
		Env: append(envBase(), "GOFLAGS=-mod=mod", "GOPROXY=off", "GOSUMDB=off", "GOTOOLCHAIN=local")}
	pkgs, err := packages.Load(cfg, "./...")
	if err != nil {
		return nil, err
	}
	nerr := 0
	packages.Visit(pkgs, nil, func(p *packages.Package) {
		for _, e := range p.Errors {
			if inModule(p.Types) {
				fmt.Println("load error:", e)
				nerr++
			}
		}
	})
	if nerr > 0 {
		return nil, fmt.Errorf("%d load errors in module packages", nerr)
	}
	prog, _ := ssautil.AllPackages(pkgs, ssa.InstantiateGenerics|ssa.GlobalDebug)
	prog.Build()
	P := &Program{Pkgs: pkgs, SSA: prog, ByPath: map[string]*ssa.Package{}, Funcs: map[string]*ssa.Function{},
		Blocks: map[string]*Block{}, Specs: map[string]*SpecFun{}, Axioms: map[string][]Clause{}, RepoDir: repo}
	for _, p := range prog.AllPackages() {
		if !inModule(p.Pkg) {
			continue
		}
		P.ByPath[p.Pkg.Path()] = p
	}
	for fn := range ssautil.AllFunctions(prog) {
		if fn.Pkg == nil || !inModule(fn.Pkg.Pkg) {
			continue
		}
		P.AllFuncs = append(P.AllFuncs, fn)
		if fn.Parent() != nil {
			// closure literal: parentKey$N  (N as in go/ssa)
			top := fn
			for top.Parent() != nil {
				top = top.Parent()
			}
			if i := strings.IndexByte(fn.Name(), '$'); i >= 0 {
				P.Funcs[funcKey(top)+fn.Name()[i:]] = fn
			}
			continue
		}
		P.Funcs[funcKey(fn)] = fn
	}
	sort.Slice(P.AllFuncs, func(i, j int) bool { return P.AllFuncs[i].String() < P.AllFuncs[j].String() })
	P.MutableGlobals = map[string]bool{}
	for _, fn := range P.AllFuncs {
		if fn.Name() == "init" && fn.Parent() == nil {
			continue
		}
		// anonymous functions called from init are part of initialisation
		top := fn
		for top.Parent() != nil {
			top = top.Parent()
		}
		inInit := top.Name() == "init" && fn != top
		for _, b := range fn.Blocks {
			for _, in := range b.Instrs {
				st, ok := in.(*ssa.Store)
				if !ok {
					continue
				}
				if g, ok := st.Addr.(*ssa.Global); ok && !inInit {
					P.MutableGlobals[g.Pkg.Pkg.Path()+"."+g.Name()] = true
				}
			}
		}
	}
	// closures bound to package-level variables through val.Fun / val.LazyFun
	for _, p := range P.ByPath {
		init := p.Func("init")
		if init == nil {
			continue
		}
		bindGlobalsClosures(P, p, init)
	}
	return P, nil
}

// funcKey: pos.Range, pos.(*Pos).Move, vm.(*stack).Push
func funcKey(fn *ssa.Function) string {
	pk := shortPkg(fn.Pkg.Pkg.Path())
	if recv := fn.Signature.Recv(); recv != nil {
		t := recv.Type()
		ptr := false
		if p, ok := t.(*types.Pointer); ok {
			t = p.Elem()
			ptr = true
		}
		name := "?"
		if n, ok := t.(*types.Named); ok {
			name = n.Obj().Name()
		}
		if ptr {
			return fmt.Sprintf("%s.(*%s).%s", pk, name, fn.Name())
		}
		return fmt.Sprintf("%s.(%s).%s", pk, name, fn.Name())
	}
	return pk + "." + fn.Name()
}

// bindGlobalsClosures walks a package initialiser (and the anonymous
// functions it calls immediately) to find  `G = val.Fun(ty, <closure>)`
// patterns and registers the closure under "pkg.G".
func bindGlobalsClosures(P *Program, p *ssa.Package, init *ssa.Function) {
	pk := shortPkg(p.Pkg.Path())
	var findClosure func(v ssa.Value, depth int) *ssa.Function
	findClosure = func(v ssa.Value, depth int) *ssa.Function {
		if depth > 6 {
			return nil
		}
		switch x := v.(type) {
		case *ssa.Function:
			return x
		case *ssa.MakeClosure:
			return x.Fn.(*ssa.Function)
		case *ssa.ChangeType:
			return findClosure(x.X, depth+1)
		case *ssa.Call:
			// val.Fun(ty, f) / val.LazyFun(ty, f) : look at the function-typed args
			for _, a := range x.Call.Args {
				if _, ok := a.Type().Underlying().(*types.Signature); ok {
					if f := findClosure(a, depth+1); f != nil {
						return f
					}
				}
			}
			// func() *val.Val { ... return val.Fun(..., lit) }()
			if callee := x.Call.StaticCallee(); callee != nil && callee.Parent() != nil && len(x.Call.Args) == 0 || (x.Call.StaticCallee() != nil && x.Call.StaticCallee().Parent() != nil) {
				callee := x.Call.StaticCallee()
				for _, b := range callee.Blocks {
					for _, in := range b.Instrs {
						if r, ok := in.(*ssa.Return); ok && len(r.Results) == 1 {
							if f := findClosure(r.Results[0], depth+1); f != nil {
								return f
							}
						}
					}
				}
			}
		}
		return nil
	}
	for _, b := range init.Blocks {
		for _, in := range b.Instrs {
			st, ok := in.(*ssa.Store)
			if !ok {
				continue
			}
			g, ok := st.Addr.(*ssa.Global)
			if !ok {
				continue
			}
			if f := findClosure(st.Val, 0); f != nil {
				P.Funcs[pk+"."+g.Name()] = f
			}
		}
	}
}
