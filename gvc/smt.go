package gvc

import (
	"bytes"
	"regexp"
	"sort"
	"context"
	"crypto/sha256"
	"encoding/hex"
	"fmt"
	"math"
	"os"
	"os/exec"
	"path/filepath"
	"strings"
	"sync"
	"time"
)

// T is an SMT term with its sort.
type T struct {
	S    string // s-expression
	Sort string // Int Bool F64 F32 Str Slice Iface S_<struct> O_<opaque> Tuple
	Tup  []T    // for multi-value results (Sort == "Tuple")
	Loc  *Loc   // pointer to a scalar struct field (see sym.go)
}

const (
	SInt   = "Int"
	SBool  = "Bool"
	SF64   = "F64"
	SF32   = "F32"
	SStr   = "Str"
	SSlice = "Slice"
	SIface = "Iface"
)

func smtSort(s string) string {
	switch s {
	case SF64:
		return "(_ FloatingPoint 11 53)"
	case SF32:
		return "(_ FloatingPoint 8 24)"
	}
	return s
}

func I(n int64) T {
	if n < 0 {
		return T{S: fmt.Sprintf("(- %d)", -n), Sort: SInt}
	}
	return T{S: fmt.Sprintf("%d", n), Sort: SInt}
}
func B(b bool) T {
	if b {
		return T{S: "true", Sort: SBool}
	}
	return T{S: "false", Sort: SBool}
}

func F64c(f float64) T {
	bits := math.Float64bits(f)
	s := fmt.Sprintf("%064b", bits)
	return T{S: fmt.Sprintf("(fp #b%s #b%s #b%s)", s[0:1], s[1:12], s[12:64]), Sort: SF64}
}
func F32c(f float32) T {
	bits := math.Float32bits(f)
	s := fmt.Sprintf("%032b", bits)
	return T{S: fmt.Sprintf("(fp #b%s #b%s #b%s)", s[0:1], s[1:9], s[9:32]), Sort: SF32}
}

func app(f string, args ...string) string {
	if len(args) == 0 {
		return f
	}
	return "(" + f + " " + strings.Join(args, " ") + ")"
}

func and(xs ...string) string {
	var ys []string
	for _, x := range xs {
		if x == "true" {
			continue
		}
		if x == "false" {
			return "false"
		}
		ys = append(ys, x)
	}
	if len(ys) == 0 {
		return "true"
	}
	if len(ys) == 1 {
		return ys[0]
	}
	return app("and", ys...)
}
func or(xs ...string) string {
	var ys []string
	for _, x := range xs {
		if x == "false" {
			continue
		}
		if x == "true" {
			return "true"
		}
		ys = append(ys, x)
	}
	if len(ys) == 0 {
		return "false"
	}
	if len(ys) == 1 {
		return ys[0]
	}
	return app("or", ys...)
}
func not(x string) string {
	if x == "true" {
		return "false"
	}
	if x == "false" {
		return "true"
	}
	if strings.HasPrefix(x, "(not ") && balanced(x[5:len(x)-1]) {
		return x[5 : len(x)-1]
	}
	return "(not " + x + ")"
}
func balanced(s string) bool {
	d := 0
	for _, c := range s {
		if c == '(' {
			d++
		} else if c == ')' {
			d--
			if d < 0 {
				return false
			}
		}
	}
	return d == 0
}
func implies(a, b string) string {
	if a == "true" {
		return b
	}
	if a == "false" || b == "true" {
		return "true"
	}
	return app("=>", a, b)
}
func eq(a, b string) string {
	if a == b {
		return "true"
	}
	return app("=", a, b)
}
func ite(c, a, b string) string {
	if c == "true" {
		return a
	}
	if c == "false" {
		return b
	}
	return app("ite", c, a, b)
}

// ---------------------------------------------------------------------
// solver

type Answer struct {
	Result string // unsat sat unknown timeout error
	Solver string
	Ms     int64
	Model  string
	Raw    string
}

type solverSpec struct {
	name string
	args func(timeoutMs int) []string
}

var solvers = []solverSpec{
	{"z3-new", func(t int) []string {
		return []string{"z3-new", fmt.Sprintf("-t:%d", t), "smt.mbqi=false", "smt.auto_config=false", "-in"}
	}},
	{"z3-new-mbqi", func(t int) []string { return []string{"z3-new", fmt.Sprintf("-t:%d", t), "-in"} }},
	{"cvc5", func(t int) []string { return []string{"cvc5", "--lang=smt2", fmt.Sprintf("--tlimit-per=%d", t), "--incremental"} }},
	{"z3", func(t int) []string { return []string{"z3", fmt.Sprintf("-t:%d", t), "smt.mbqi=false", "-in"} }},
}

var CacheDir = "/verif/.cache/smt"
var UseCache = true

func runSolver(sp solverSpec, query string, timeoutMs int) Answer {
	a := sp.args(timeoutMs)
	ctx, cancel := context.WithTimeout(context.Background(), time.Duration(timeoutMs+3000)*time.Millisecond)
	defer cancel()
	cmd := exec.CommandContext(ctx, a[0], a[1:]...)
	cmd.Stdin = strings.NewReader(query)
	var out bytes.Buffer
	cmd.Stdout = &out
	cmd.Stderr = &out
	t0 := time.Now()
	_ = cmd.Run()
	ms := time.Since(t0).Milliseconds()
	raw := out.String()
	// skip solver warnings in front of the answer
	for strings.HasPrefix(strings.TrimSpace(raw), "WARNING") || strings.HasPrefix(strings.TrimSpace(raw), "(warning") {
		t := strings.TrimSpace(raw)
		i := strings.IndexByte(t, '\n')
		if i < 0 {
			break
		}
		raw = t[i+1:]
	}
	first := strings.TrimSpace(raw)
	if i := strings.IndexByte(first, '\n'); i >= 0 {
		first = strings.TrimSpace(first[:i])
	}
	res := "error"
	switch first {
	case "unsat", "sat", "unknown":
		res = first
	case "timeout":
		res = "timeout"
	default:
		if ctx.Err() != nil {
			res = "timeout"
		} else if strings.Contains(raw, "timeout") || strings.Contains(raw, "interrupted") {
			res = "timeout"
		}
	}
	model := ""
	if res == "sat" {
		if i := strings.IndexByte(raw, '\n'); i >= 0 {
			model = raw[i+1:]
		}
	}
	return Answer{Result: res, Solver: sp.name, Ms: ms, Model: model, Raw: raw}
}

var fpLit = regexp.MustCompile(`\(fp #b([01]) #b([01]+) #b([01]+)\)`)
var fpOps = []string{"fp.add", "fp.sub", "fp.mul", "fp.div", "fp.neg", "fp.abs", "fp.roundToIntegral", "fp.lt", "fp.leq", "fp.gt", "fp.geq", "fp.eq",
	"fp.isNaN", "fp.isInfinite", "fp.isNegative", "fp.isPositive", "fp.isZero"}

// AbstractFP rewrites a query so that binary64 is an uninterpreted sort
// and every floating-point operation an uninterpreted function.  This is
// a relaxation: unsat of the abstract query implies unsat of the original.
// Returns "" when the query cannot be abstracted.
func AbstractFP(q string) string {
	if strings.Contains(q, "FloatingPoint 8 24") || !strings.Contains(q, "FloatingPoint 11 53") {
		return ""
	}
	// drop the definitions that need real FP semantics
	var lines []string
	skip := 0
	for _, ln := range strings.Split(q, "\n") {
		if skip > 0 {
			skip--
			continue
		}
		switch {
		case strings.HasPrefix(ln, "(define-fun f2i "):
			skip = 3
			lines = append(lines, "(declare-fun f2i (F64U) Int)")
			continue
		case strings.HasPrefix(ln, "(define-fun i2f "):
			lines = append(lines, "(declare-fun i2f (Int) F64U)")
			continue
		case strings.HasPrefix(ln, "(declare-fun f2i_oor "):
			continue
		}
		lines = append(lines, ln)
	}
	q = strings.Join(lines, "\n")
	if strings.Contains(q, "to_fp") || strings.Contains(q, "fp.to_") {
		return ""
	}
	consts := map[string]bool{}
	q = fpLit.ReplaceAllStringFunc(q, func(m string) string {
		sm := fpLit.FindStringSubmatch(m)
		n := "fpc_" + sm[1] + "_" + sm[2] + "_" + sm[3]
		consts[n] = true
		return n
	})
	q = strings.ReplaceAll(q, "(_ FloatingPoint 11 53)", "F64U")
	for _, op := range fpOps {
		q = strings.ReplaceAll(q, "("+op+" ", "(u_"+strings.ReplaceAll(op, ".", "_")+" ")
	}
	var hdr strings.Builder
	hdr.WriteString("(declare-sort F64U 0)\n(declare-sort RMU 0)\n(declare-fun RNE () RMU)\n(declare-fun RTZ () RMU)\n(declare-fun RTN () RMU)\n(declare-fun RTP () RMU)\n(declare-fun RNA () RMU)\n")
	for _, op := range []string{"add", "sub", "mul", "div"} {
		hdr.WriteString("(declare-fun u_fp_" + op + " (RMU F64U F64U) F64U)\n")
	}
	hdr.WriteString("(declare-fun u_fp_neg (F64U) F64U)\n(declare-fun u_fp_abs (F64U) F64U)\n(declare-fun u_fp_roundToIntegral (RMU F64U) F64U)\n")
	for _, op := range []string{"lt", "leq", "gt", "geq", "eq"} {
		hdr.WriteString("(declare-fun u_fp_" + op + " (F64U F64U) Bool)\n")
	}
	for _, op := range []string{"isNaN", "isInfinite", "isNegative", "isPositive", "isZero"} {
		hdr.WriteString("(declare-fun u_fp_" + op + " (F64U) Bool)\n")
	}
	var cs []string
	for c := range consts {
		cs = append(cs, c)
	}
	sort.Strings(cs)
	for _, c := range cs {
		hdr.WriteString("(declare-fun " + c + " () F64U)\n")
	}
	// insert after (set-logic ALL)
	return strings.Replace(q, "(set-logic ALL)\n", "(set-logic ALL)\n"+hdr.String(), 1)
}

// Solve discharges one query; tries solvers in order until a definite
// answer. wantModel adds (get-model) after check-sat.
func Solve(query string, timeoutMs int, wantModel bool) Answer {
	return SolveC(query, timeoutMs, wantModel, UseCache)
}

func SolveC(query string, timeoutMs int, wantModel, useCache bool) Answer {
	if !wantModel {
		if aq := AbstractFP(query); aq != "" {
			a := solve1c(aq, timeoutMs, false, useCache)
			if a.Result == "unsat" {
				a.Solver += "+fpabs"
				return a
			}
		}
	}
	return solve1c(query, timeoutMs, wantModel, useCache)
}

func solve1(query string, timeoutMs int, wantModel bool) Answer {
	return solve1c(query, timeoutMs, wantModel, UseCache)
}

func solve1c(query string, timeoutMs int, wantModel, useCache bool) Answer {
	full := query + "\n(check-sat)\n"
	if wantModel {
		full += "(get-model)\n"
	}
	key := ""
	if useCache {
		h := sha256.Sum256([]byte(fmt.Sprintf("%d|%v|", timeoutMs, wantModel) + full))
		key = filepath.Join(CacheDir, hex.EncodeToString(h[:16]))
		if b, err := os.ReadFile(key); err == nil {
			parts := strings.SplitN(string(b), "\n", 4)
			if len(parts) >= 3 {
				var ms int64
				fmt.Sscanf(parts[2], "%d", &ms)
				m := ""
				if len(parts) == 4 {
					m = parts[3]
				}
				return Answer{Result: parts[0], Solver: parts[1] + "(cached)", Ms: ms, Model: m}
			}
		}
	}
	var last Answer
	var total int64
	for i, sp := range solvers {
		t := timeoutMs
		_ = i
		q := full
		if sp.name == "cvc5" {
			q = "(set-option :produce-models true)\n" + full
		}
		a := runSolver(sp, q, t)
		total += a.Ms
		last = a
		if a.Result == "unsat" || a.Result == "sat" {
			break
		}
	}
	last.Ms = total
	if useCache {
		os.MkdirAll(CacheDir, 0o755)
		os.WriteFile(key, []byte(fmt.Sprintf("%s\n%s\n%d\n%s", last.Result, last.Solver, last.Ms, last.Model)), 0o644)
	}
	return last
}


var fastCache = map[string]string{}
var fastMu sync.Mutex

// solveFast: one z3 run with a short limit (branch pruning only).
func solveFast(query string, ms int) string {
	h := sha256.Sum256([]byte(query))
	k := hex.EncodeToString(h[:12])
	fastMu.Lock()
	if r, ok := fastCache[k]; ok {
		fastMu.Unlock()
		return r
	}
	fastMu.Unlock()
	a := runSolver(solverSpec{"z3-new", func(t int) []string {
		return []string{"z3-new", fmt.Sprintf("-t:%d", t), "smt.mbqi=false", "smt.auto_config=false", "-in"}
	}}, query+"\n(check-sat)\n", ms)
	fastMu.Lock()
	fastCache[k] = a.Result
	fastMu.Unlock()
	return a.Result
}
