package gvc

import (
	"fmt"
	"go/types"
	"strings"
)

// Models of standard-library functions.  Everything here is part of the
// trusted base and is listed in the evidence.
var ModelNotes = []string{
	"math.Abs/Trunc/Floor/Ceil/Round = fp.abs / roundToIntegral RTZ/RTN/RTP/RNA; math.Max/Min/Pow uninterpreted",
	"fmt.Sprintf/Errorf/Sprint: result uninterpreted, no panic, no heap effect",
	"strconv.*, strings.*, unicode/utf8.*: uninterpreted pure functions of their arguments",
	"time.Time methods: uninterpreted pure functions",
}

func pureExternal(name string) bool {
	for _, p := range []string{"math.", "fmt.Sprintf", "fmt.Errorf", "fmt.Sprint", "strconv.", "strings.", "unicode/utf8.", "unicode.", "(time.Time).", "time.Unix",
		"(time.Duration).", "errors.New", "sort.SearchInts", "encoding/binary.", "(encoding/binary.bigEndian).", "(*strings.Builder).", "math/bits.", "(*regexp.Regexp).Match", "(*regexp.Regexp).Find",
		"(reflect.Value).Kind", "(reflect.Value).IsNil", "(reflect.Value).IsValid", "(reflect.Value).Len", "reflect.TypeOf", "reflect.ValueOf"} {
		if strings.HasPrefix(name, p) {
			return true
		}
	}
	return false
}

func (vc *VC) modelCall(st *State, name string, args []T, sig *types.Signature, site string) (T, bool) {
	f64 := func(op string, a ...string) (T, bool) { return T{S: app(op, a...), Sort: SF64}, true }
	switch name {
	case "math.Abs":
		return f64("fp.abs", args[0].S)
	case "math.Trunc":
		return f64("fp.roundToIntegral", "RTZ", args[0].S)
	case "math.Floor":
		return f64("fp.roundToIntegral", "RTN", args[0].S)
	case "math.Ceil":
		return f64("fp.roundToIntegral", "RTP", args[0].S)
	case "math.Round":
		return f64("fp.roundToIntegral", "RNA", args[0].S)
	case "math.Pow":
		return f64("math_pow", args[0].S, args[1].S)
	case "math.Max":
		vc.declare("math_max", []string{SF64, SF64}, SF64)
		return f64("math_max", args[0].S, args[1].S)
	case "math.Min":
		vc.declare("math_min", []string{SF64, SF64}, SF64)
		return f64("math_min", args[0].S, args[1].S)
	case "math.Inf":
		if isNumeral(args[0].S) {
			return T{S: "(_ +oo 11 53)", Sort: SF64}, true
		}
		if strings.HasPrefix(args[0].S, "(- ") && isNumeral(strings.TrimSuffix(args[0].S[3:], ")")) {
			return T{S: "(_ -oo 11 53)", Sort: SF64}, true
		}
		return T{S: ite(app(">=", args[0].S, "0"), "(_ +oo 11 53)", "(_ -oo 11 53)"), Sort: SF64}, true
	case "math.Nextafter32":
		// exact: step by one unit in the last place on the IEEE bit pattern
		x, y := args[0].S, args[1].S
		bits := app("fp.to_ieee_bv", x)
		toF := func(bv string) string { return app("(_ to_fp 8 24)", bv) }
		down := ite(app("fp.isZero", x), toF("#x80000001"), ite(app("fp.isPositive", x), toF(app("bvsub", bits, "#x00000001")), toF(app("bvadd", bits, "#x00000001"))))
		up := ite(app("fp.isZero", x), toF("#x00000001"), ite(app("fp.isPositive", x), toF(app("bvadd", bits, "#x00000001")), toF(app("bvsub", bits, "#x00000001"))))
		nan := "(_ NaN 8 24)"
		r := ite(or(app("fp.isNaN", x), app("fp.isNaN", y)), nan, ite(app("fp.eq", x, y), x, ite(app("fp.lt", y, x), down, up)))
		return T{S: r, Sort: SF32}, true
	case "math.IsNaN":
		return T{S: app("fp.isNaN", args[0].S), Sort: SBool}, true
	case "math.IsInf":
		return T{S: ite(app(">", args[1].S, "0"), and(app("fp.isInfinite", args[0].S), app("fp.isPositive", args[0].S)),
			ite(app("<", args[1].S, "0"), and(app("fp.isInfinite", args[0].S), app("fp.isNegative", args[0].S)), app("fp.isInfinite", args[0].S))), Sort: SBool}, true
	case "math.Float64bits":
		vc.declare("f64bits", []string{SF64}, SInt)
		r := T{S: app("f64bits", args[0].S), Sort: SInt}
		vc.assume(st, and(app("<=", "0", r.S), app("<=", r.S, "18446744073709551615")))
		return r, true
	case "unicode/utf8.RuneCountInString":
		r := T{S: app("runes", args[0].S), Sort: SInt}
		vc.assume(st, and(app("<=", "0", r.S), app("<=", r.S, app("strlen", args[0].S))))
		return r, true
	case "(encoding/binary.bigEndian).Uint16":
		b := args[1]
		vc.check(st, app("<=", "2", app("slen", b.S)), "index", site)
		c0 := vc.hload(st, "C_uint8", SInt, app("eaddr", app("sarr", b.S), addS(app("soff", b.S), "0")))
		c1 := vc.hload(st, "C_uint8", SInt, app("eaddr", app("sarr", b.S), addS(app("soff", b.S), "1")))
		vc.assume(st, and(app("<=", "0", c0.S), app("<=", c0.S, "255"), app("<=", "0", c1.S), app("<=", c1.S, "255")))
		return T{S: app("+", app("*", c0.S, "256"), c1.S), Sort: SInt}, true
	case "(encoding/binary.bigEndian).PutUint16":
		b, v := args[1], args[2]
		vc.check(st, app("<=", "2", app("slen", b.S)), "index", site)
		vc.hstore(st, "C_uint8", SInt, app("eaddr", app("sarr", b.S), addS(app("soff", b.S), "0")), T{S: app("div", v.S, "256"), Sort: SInt})
		vc.hstore(st, "C_uint8", SInt, app("eaddr", app("sarr", b.S), addS(app("soff", b.S), "1")), T{S: app("mod", v.S, "256"), Sort: SInt})
		return T{Sort: "Tuple"}, true
	}
	if pureExternal(name) {
		// uninterpreted function of the arguments
		if sig.Results().Len() == 0 {
			return T{Sort: "Tuple"}, true
		}
		var res []T
		for i := 0; i < sig.Results().Len(); i++ {
			rt := sig.Results().At(i).Type()
			rs := vc.sortOf(rt)
			var sorts, as []string
			ok := true
			for _, a := range args {
				if a.Sort == "Tuple" || a.Sort == SSlice {
					ok = false
				}
				sorts = append(sorts, a.Sort)
				as = append(as, a.S)
			}
			var r T
			if ok && (rs == SInt || rs == SBool || rs == SF64 || rs == SStr || strings.HasPrefix(rs, "O_")) && !isRefType(rt) {
				fn := fmt.Sprintf("ext_%s_%d", mangle(name), i)
				vc.declare(fn, sorts, rs)
				r = T{S: app(fn, as...), Sort: rs}
			} else {
				r = vc.fresh("ext", rs)
			}
			vc.refFacts(st, r, rt)
			res = append(res, r)
		}
		return tuple(res), true
	}
	return T{}, false
}

func isRefType(t types.Type) bool {
	switch t.Underlying().(type) {
	case *types.Pointer, *types.Map, *types.Slice, *types.Interface, *types.Signature, *types.Chan:
		return true
	}
	return false
}

// modelPanics: external callee that always panics (none at the moment)
func (vc *VC) modelPanics(st *State, name string, args []T, site string) bool {
	return false
}
