package gvc

import (
	"fmt"
	"go/ast"
	"go/types"
	"sort"
	"strings"

	"golang.org/x/tools/go/ssa"
)

// Activation-local trace of recorded static calls.
//
// A contract block may say `records f (*T).m ...`.  Every DIRECT static call
// of one of these functions made by the function under verification (not by
// its callees) is then appended to a ghost log:
//
//	scalls()                 number of recorded calls made so far
//	scall(k, f, a0, _, a2)   the k-th recorded call was f(a0, ?, a2, ...)
//	                         (receiver first; `_` = any; trailing arguments
//	                         may be omitted)
//	sret(k, f)               what that call returned (sret(k, f, i) for the
//	                         i-th of several results)
//
// The log is append-only: at a loop head the entries made before the loop
// are kept, later ones are described by the loop invariant.  Clauses that
// mention the log describe the activation itself ("this is the sequence of
// emissions / checks / evaluations it performs") and are therefore proved for
// the function but never assumed at its call sites.

type recFn struct {
	key string
	fn  *ssa.Function
	id  int
	// dyn: the pseudo entry `records dyn` - calls through function values made
	// by this activation.  "Parameters": the function value, then the
	// arguments; sorts are those found at the dynamic call sites of the
	// function under verification (one array per position and sort).
	dyn      bool
	dynArgs  [][]string // position -> sorts seen
	dynRes   []string   // result sorts seen
	dynResTy []types.Type
}

func mentionsTraceText(text string) bool {
	return strings.Contains(text, "scall(") || strings.Contains(text, "scalls(") || strings.Contains(text, "sret(") || strings.Contains(text, "sarg(")
}

// mentionsTrace: the clause speaks about the activation-local trace, directly
// or through a spec macro whose body does.
func (vc *VC) mentionsTrace(text string) bool {
	if mentionsTraceText(text) {
		return true
	}
	if vc.traceMacros == nil {
		vc.traceMacros = map[string]bool{}
		for changed := true; changed; {
			changed = false
			for n, sf := range vc.P.Specs {
				if vc.traceMacros[n] || sf.CBody == "" {
					continue
				}
				hit := mentionsTraceText(sf.CBody)
				for m := range vc.traceMacros {
					hit = hit || strings.Contains(sf.CBody, m+"(")
				}
				if hit {
					vc.traceMacros[n] = true
					changed = true
				}
			}
		}
	}
	for m := range vc.traceMacros {
		if strings.Contains(text, m+"(") {
			return true
		}
	}
	return false
}

func (vc *VC) recorded() []recFn {
	if vc.recFns != nil || vc.blk == nil {
		return vc.recFns
	}
	vc.recFns = []recFn{}
	blk := vc.blk
	var recs []string
	recs = append(recs, blk.Records...)
	if blk.Parent != nil {
		recs = append(recs, blk.Parent.Records...)
	}
	if len(recs) == 0 {
		return vc.recFns
	}
	var keys []string
	for k := range vc.P.Funcs {
		keys = append(keys, k)
	}
	sort.Strings(keys)
	ids := map[string]int{}
	for i, k := range keys {
		ids[k] = i + 1
	}
	pk := shortPkg(vc.fn.Pkg.Pkg.Path())
	for _, r := range recs {
		if r == "dyn" {
			d := recFn{key: "dyn", id: 0, dyn: true}
			seen := map[string]bool{}
			add := func(list *[]string, tag, srt string) {
				if !seen[tag+srt] {
					seen[tag+srt] = true
					*list = append(*list, srt)
				}
			}
			var walk func(fn *ssa.Function)
			walk = func(fn *ssa.Function) {
				for _, b := range fn.Blocks {
					for _, in := range b.Instrs {
						c, ok := in.(*ssa.Call)
						if !ok || c.Call.IsInvoke() || c.Call.StaticCallee() != nil {
							continue
						}
						if _, isB := c.Call.Value.(*ssa.Builtin); isB {
							continue
						}
						for j, a := range c.Call.Args {
							for len(d.dynArgs) <= j {
								d.dynArgs = append(d.dynArgs, nil)
							}
							add(&d.dynArgs[j], fmt.Sprint("a", j), vc.sortOf(a.Type()))
						}
						if sig, ok := c.Call.Value.Type().Underlying().(*types.Signature); ok && sig.Results().Len() == 1 {
							n0 := len(d.dynRes)
							add(&d.dynRes, "r", vc.sortOf(sig.Results().At(0).Type()))
							if len(d.dynRes) > n0 {
								d.dynResTy = append(d.dynResTy, sig.Results().At(0).Type())
							}
						}
					}
				}
			}
			walk(vc.fn)
			vc.recFns = append(vc.recFns, d)
			continue
		}
		k := r
		if _, ok := vc.P.Funcs[k]; !ok {
			k = pk + "." + r
		}
		fn, ok := vc.P.Funcs[k]
		if !ok {
			vc.fail(fmt.Errorf("%s:%d: records %s: no such function", blk.File, blk.Line, r))
			continue
		}
		vc.recFns = append(vc.recFns, recFn{key: k, fn: fn, id: ids[k]})
	}
	return vc.recFns
}

func (vc *VC) recDyn() *recFn {
	for i := range vc.recorded() {
		if vc.recFns[i].dyn {
			return &vc.recFns[i]
		}
	}
	return nil
}

func (vc *VC) recByFn(fn *ssa.Function) *recFn {
	for i := range vc.recorded() {
		if !vc.recFns[i].dyn && vc.recFns[i].fn == fn {
			return &vc.recFns[i]
		}
	}
	return nil
}

func (vc *VC) recByName(name string) (*recFn, error) {
	var hit *recFn
	for i := range vc.recorded() {
		r := &vc.recFns[i]
		if r.dyn {
			if name == "dyn" {
				return r, nil
			}
			continue
		}
		if r.key == name || r.fn.Name() == name || strings.HasSuffix(r.key, "."+name) {
			if hit != nil && hit.fn != r.fn {
				return nil, fmt.Errorf("recorded function %s is ambiguous", name)
			}
			hit = r
		}
	}
	if hit == nil {
		return nil, fmt.Errorf("%s is not in the records clause", name)
	}
	return hit, nil
}

func (vc *VC) trInit(st *State) {
	rs := vc.recorded()
	if len(rs) == 0 {
		return
	}
	st.tr = map[string]string{"N": "0"}
	st.tr["F"] = vc.fresh("trF", "(Array Int Int)").S
	vc.trSort = map[string]string{"F": "(Array Int Int)"}
	for _, r := range rs {
		if r.dyn {
			mk := func(k, srt string) {
				vc.needSort(srt)
				vc.trSort[k] = "(Array Int " + smtSort(srt) + ")"
				st.tr[k] = vc.fresh("trD", vc.trSort[k]).S
			}
			mk("A:dyn:fn", SInt)
			for j, ss := range r.dynArgs {
				for _, srt := range ss {
					mk(fmt.Sprintf("A:dyn:%d:%s", j, srt), srt)
				}
			}
			for _, srt := range r.dynRes {
				mk("R:dyn:"+srt, srt)
			}
			continue
		}
		for j, p := range r.fn.Params {
			vc.needSort(vc.sortOf(p.Type()))
			k := fmt.Sprintf("A:%s:%d", r.key, j)
			vc.trSort[k] = "(Array Int " + smtSort(vc.sortOf(p.Type())) + ")"
			st.tr[k] = vc.fresh("trA", vc.trSort[k]).S
		}
		res := r.fn.Signature.Results()
		for i := 0; i < res.Len(); i++ {
			vc.needSort(vc.sortOf(res.At(i).Type()))
			k := fmt.Sprintf("R:%s:%d", r.key, i)
			vc.trSort[k] = "(Array Int " + smtSort(vc.sortOf(res.At(i).Type())) + ")"
			st.tr[k] = vc.fresh("trR", vc.trSort[k]).S
		}
	}
}

// trRecord appends a call; the returned index is where trResult stores the result.
func (vc *VC) trRecord(st *State, r *recFn, args []T) string {
	idx := st.tr["N"]
	upd := func(k, v, sort string) {
		n := vc.fresh("tr", sort)
		vc.assume(st, eq(n.S, app("store", st.tr[k], idx, v)))
		st.tr[k] = n.S
	}
	upd("F", fmt.Sprint(r.id), "(Array Int Int)")
	for j, p := range r.fn.Params {
		if j < len(args) {
			upd(fmt.Sprintf("A:%s:%d", r.key, j), args[j].S, "(Array Int "+smtSort(vc.sortOf(p.Type()))+")")
		}
	}
	st.tr["N"] = app("+", idx, "1")
	return idx
}

// trRecordDyn appends a call through a function value.
func (vc *VC) trRecordDyn(st *State, fv T, args []T) string {
	idx := st.tr["N"]
	upd := func(k, v string) {
		if _, ok := st.tr[k]; !ok {
			return
		}
		n := vc.fresh("tr", vc.trSort[k])
		vc.assume(st, eq(n.S, app("store", st.tr[k], idx, v)))
		st.tr[k] = n.S
	}
	upd("F", "0")
	upd("A:dyn:fn", fv.S)
	for j, a := range args {
		upd(fmt.Sprintf("A:dyn:%d:%s", j, a.Sort), a.S)
	}
	st.tr["N"] = app("+", idx, "1")
	return idx
}

func (vc *VC) trResultDyn(st *State, idx string, res T) {
	k := "R:dyn:" + res.Sort
	if _, ok := st.tr[k]; !ok {
		return
	}
	n := vc.fresh("tr", vc.trSort[k])
	vc.assume(st, eq(n.S, app("store", st.tr[k], idx, res.S)))
	st.tr[k] = n.S
}

func (vc *VC) trResult(st *State, r *recFn, idx string, res T) {
	sig := r.fn.Signature.Results()
	put := func(i int, v T) {
		k := fmt.Sprintf("R:%s:%d", r.key, i)
		n := vc.fresh("tr", "(Array Int "+smtSort(vc.sortOf(sig.At(i).Type()))+")")
		vc.assume(st, eq(n.S, app("store", st.tr[k], idx, v.S)))
		st.tr[k] = n.S
	}
	switch {
	case sig.Len() == 1:
		put(0, res)
	case sig.Len() > 1:
		for i := 0; i < sig.Len() && i < len(res.Tup); i++ {
			put(i, res.Tup[i])
		}
	}
}

// trHavoc: loop head.  The log is append-only: the count does not decrease
// and the entries made so far stay.
func (vc *VC) trHavoc(st *State) {
	if st.tr == nil {
		return
	}
	oldN := st.tr["N"]
	n := vc.fresh("trN", SInt)
	vc.assume(st, app(">=", n.S, oldN))
	var keys []string
	for k := range st.tr {
		if k != "N" {
			keys = append(keys, k)
		}
	}
	sort.Strings(keys)
	for _, k := range keys {
		o := st.tr[k]
		nv := vc.fresh("tr", vc.trSort[k])
		vc.assume(st, fmt.Sprintf("(forall ((i Int)) (! (=> (< i %s) (= (select %s i) (select %s i))) :pattern ((select %s i))))", oldN, nv.S, o, nv.S))
		st.tr[k] = nv.S
	}
	st.tr["N"] = n.S
}

// contract expressions -------------------------------------------------------

func (ec *evalCtx) traceExpr(name string, x *ast.CallExpr) (T, types.Type, error) {
	vc := ec.vc
	if ec.now.tr == nil {
		return T{}, nil, ec.errf(x, "%s: this block has no records clause", name)
	}
	tr := ec.now.tr
	switch name {
	case "scalls":
		return T{S: tr["N"], Sort: SInt}, types.Typ[types.Int], nil
	case "scall":
		if len(x.Args) < 2 {
			return T{}, nil, ec.errf(x, "scall(k, f, args...)")
		}
		k, _, err := ec.eval(x.Args[0])
		if err != nil {
			return k, nil, err
		}
		r, err := vc.recByName(types.ExprString(x.Args[1]))
		if err != nil {
			return T{}, nil, ec.errf(x, "%v", err)
		}
		cs := []string{eq(app("select", tr["F"], k.S), fmt.Sprint(r.id)), app(">=", k.S, "0"), app("<", k.S, tr["N"])}
		if r.dyn {
			// scall(k, dyn, fnval, a0, a1, ...)
			for j, a := range x.Args[2:] {
				if id, ok := a.(*ast.Ident); ok && id.Name == "_" {
					continue
				}
				v, _, err := ec.eval(a)
				if err != nil {
					return v, nil, err
				}
				if v.Sort == "Nil" {
					v.Sort = SInt
					v.S = "0"
				}
				key := "A:dyn:fn"
				if j > 0 {
					key = fmt.Sprintf("A:dyn:%d:%s", j-1, v.Sort)
				}
				arr, ok := tr[key]
				if !ok {
					return T{}, nil, ec.errf(x, "scall(dyn): no dynamic call of this function passes a %s in position %d", v.Sort, j-1)
				}
				cs = append(cs, eq(app("select", arr, k.S), v.S))
			}
			return T{S: and(cs...), Sort: SBool}, types.Typ[types.Bool], nil
		}
		for j, a := range x.Args[2:] {
			if id, ok := a.(*ast.Ident); ok && id.Name == "_" {
				continue
			}
			if j >= len(r.fn.Params) {
				return T{}, nil, ec.errf(x, "scall: %s has %d parameters (receiver included)", r.key, len(r.fn.Params))
			}
			v, at, err := ec.eval(a)
			if err != nil {
				return v, nil, err
			}
			pt := r.fn.Params[j].Type()
			want := vc.sortOf(pt)
			if v.Sort == "Nil" {
				v = vc.zero(pt)
			}
			if want == SIface && v.Sort != SIface && at != nil {
				v = vc.makeIface(ec.now, v, at)
			}
			if v.Sort != want {
				return T{}, nil, ec.errf(x, "scall: argument %d of %s has sort %s, want %s", j, r.key, v.Sort, want)
			}
			cs = append(cs, eq(app("select", tr[fmt.Sprintf("A:%s:%d", r.key, j)], k.S), v.S))
		}
		return T{S: and(cs...), Sort: SBool}, types.Typ[types.Bool], nil
	case "sarg":
		if len(x.Args) != 3 {
			return T{}, nil, ec.errf(x, "sarg(k, f, j)")
		}
		k, _, err := ec.eval(x.Args[0])
		if err != nil {
			return k, nil, err
		}
		r, err := vc.recByName(types.ExprString(x.Args[1]))
		if err != nil {
			return T{}, nil, ec.errf(x, "%v", err)
		}
		if r.dyn {
			return T{}, nil, ec.errf(x, "sarg is not available for dyn; use scall(k, dyn, fnval, args...)")
		}
		j := -1
		fmt.Sscan(types.ExprString(x.Args[2]), &j)
		if j < 0 || j >= len(r.fn.Params) {
			return T{}, nil, ec.errf(x, "sarg: %s has %d parameters (receiver included)", r.key, len(r.fn.Params))
		}
		pt := r.fn.Params[j].Type()
		return T{S: app("select", tr[fmt.Sprintf("A:%s:%d", r.key, j)], k.S), Sort: vc.sortOf(pt)}, pt, nil
	case "sret":
		if len(x.Args) < 2 {
			return T{}, nil, ec.errf(x, "sret(k, f [, i])")
		}
		k, _, err := ec.eval(x.Args[0])
		if err != nil {
			return k, nil, err
		}
		r, err := vc.recByName(types.ExprString(x.Args[1]))
		if err != nil {
			return T{}, nil, ec.errf(x, "%v", err)
		}
		if r.dyn {
			// sret(k, dyn) / sret(k, dyn, T): result of the k-th call (of Go type T; default: the only result type seen)
			if len(x.Args) > 2 {
				tt, err := ec.typeExpr(x.Args[2])
				if err != nil {
					return T{}, nil, err
				}
				arr, ok := tr["R:dyn:"+vc.sortOf(tt)]
				if !ok {
					return T{}, nil, ec.errf(x, "sret(dyn): no dynamic call here returns a %s", tt)
				}
				return T{S: app("select", arr, k.S), Sort: vc.sortOf(tt)}, tt, nil
			}
			if len(r.dynRes) != 1 {
				return T{}, nil, ec.errf(x, "sret(k, dyn, T): result type needed")
			}
			return T{S: app("select", tr["R:dyn:"+r.dynRes[0]], k.S), Sort: r.dynRes[0]}, r.dynResTy[0], nil
		}
		i := 0
		if len(x.Args) > 2 {
			fmt.Sscan(types.ExprString(x.Args[2]), &i)
		}
		res := r.fn.Signature.Results()
		if i >= res.Len() {
			return T{}, nil, ec.errf(x, "sret: %s has %d results", r.key, res.Len())
		}
		return T{S: app("select", tr[fmt.Sprintf("R:%s:%d", r.key, i)], k.S), Sort: vc.sortOf(res.At(i).Type())}, res.At(i).Type(), nil
	}
	return T{}, nil, ec.errf(x, "unknown trace function %s", name)
}
