package gvc

import (
	"fmt"
	"sort"
	"os"
	"path/filepath"
	"regexp"
	"strconv"
	"strings"
)

type Clause struct {
	Text  string
	Label string
	Props []string // overrides block props when non-empty
	File  string
	Line  int
}

type AtClause struct {
	Vars   []string // free-variable names the closure must capture
	Callee string   // `at call NAME: assert E` (arguments are arg0, arg1, ...)
	Unfold bool     // `at call NAME: unfold f(args)`
	Assume bool     // `at call NAME: assume E`
	Clause Clause
}

type LoopSpec struct {
	Invariants []Clause
	Decreases  *Clause
	Unfolds    []Clause // definitions instantiated at the loop head (in the loop-head state)
}

type Block struct {
	Kind     string // func closure spec define axioms lemma
	Name     string // qualified: pos.Range, vm.(*stack).Push, fun.ADD_NUM_NUM
	PkgPath  string
	Props    []string
	Requires []Clause
	Ensures  []Clause
	FailsIff *Clause
	NoPanic  bool
	Pure     bool
	Trusted  bool
	Inline   bool
	Abstract bool // modelled as an uninterpreted pure function of its arguments (assumption, listed)
	Fresh    bool // result is a freshly allocated object
	Modifies []string
	Preserves []string // locations assumed unchanged by dynamic calls (trusted frame assumption, listed)
	HasMod   bool
	Uses     []string
	Unfolds  []Clause
	Loops    map[int]*LoopSpec
	Opcases  []*Block
	Lets     []Clause // "let name = expr" ghost abbreviations evaluated in the pre-state
	File     string
	Line     int
	Parent   *Block
	ImplementedBy []string
	RetClosure string            // `returns closure NAME [v: expr, ...]`: the result is that function literal ...
	RetBinds   map[string]string // ... with these captured variables
	Implements []string  // `implements T`: this function / closure is used as a value of the named function type T and takes over T's contract (functype block, parameters arg0, arg1, ...)
	Records   []string   // `records f (*T).m ...`: direct static calls of these functions are logged in the activation-local trace (scalls/scall/sret)
	AtClosure []AtClause // `at closure [x, y]: assert E`: holds where a closure capturing x, y is created
	Writers  []string // `global` block: functions allowed to write the variable
	Notes    []string // stated assumption behind a declaration
	Effects  string   // "stdout": the function may write to standard output
	PreShift map[string]int // handler twin: "v.pc" -> -1 (the contract's pre-state is the state before the fetch)
}

type SpecFun struct {
	Name   string
	Params []string // sorts
	PNames []string
	Ret    string
	Body   string // raw SMT (define) or "" (uninterpreted)
	CBody  string // contract-expression body (for unfold)
	Rec    bool   // recursive definition: applications stay uninterpreted, the body enters only through `unfold`
}

var clauseKw = map[string]bool{"props": true, "requires": true, "ensures": true, "fails_iff": true, "nopanic": true,
	"pure": true, "trusted": true, "inline": true, "modifies": true, "uses": true, "loop": true, "opcase": true,
	"assume": true, "unfold": true, "fresh": true, "let": true, "preserves": true, "abstract": true,
	"writers": true, "records": true, "implements": true, "note": true, "effects": true, "at": true, "returns": true}
var blockKw = map[string]bool{"iface": true, "functype": true, "func": true, "closure": true, "global": true, "entry": true, "spec": true, "define": true, "rec": true, "axioms": true, "lemma": true}

var labelRe = regexp.MustCompile(`^#([A-Za-z0-9_.\-]+)\s+`)
var _ = "unfold@return is written as: unfold @return f(result, x)"
var propTagRe = regexp.MustCompile(`^@(C[0-9]+(?:,C[0-9]+)*)\s+`)

// ParseContracts reads all contract files: /repo/**/zz_contracts_verif.go
// (lines starting with //@) falling back to mirrorDir, plus specDir/*.gvs.
func (P *Program) ParseContracts(mirrorDir, specDir string) error {
	type src struct {
		file, pkg string
		lines     []string
		lnos      []int
	}
	var srcs []src
	seen := map[string]bool{}
	var paths []string
	for path := range P.ByPath {
		paths = append(paths, path)
	}
	sort.Strings(paths)
	for _, path := range paths {
		rel := strings.TrimPrefix(strings.TrimPrefix(path, ModPath), "/")
		f := filepath.Join(P.RepoDir, rel, "zz_contracts_verif.go")
		b, err := os.ReadFile(f)
		if os.Getenv("GVC_CONTRACTS") == "mirror" {
			err = os.ErrNotExist // development / self-test: use /verif/contracts even if the tree carries its own copy
		}
		if err != nil {
			m := filepath.Join(mirrorDir, strings.ReplaceAll(ifEmpty(rel, "yae"), "/", "_")+".go")
			b, err = os.ReadFile(m)
			if err != nil {
				continue
			}
			f = m
		}
		if seen[f] {
			continue
		}
		seen[f] = true
		s := src{file: f, pkg: path}
		for i, ln := range strings.Split(string(b), "\n") {
			t := strings.TrimSpace(ln)
			if strings.HasPrefix(t, "//@") {
				s.lines = append(s.lines, strings.TrimPrefix(t, "//@"))
				s.lnos = append(s.lnos, i+1)
			}
		}
		srcs = append(srcs, s)
	}
	gvs, _ := filepath.Glob(filepath.Join(specDir, "*.gvs"))
	for _, f := range gvs {
		b, err := os.ReadFile(f)
		if err != nil {
			return err
		}
		s := src{file: f, pkg: ""}
		for i, ln := range strings.Split(string(b), "\n") {
			if strings.HasPrefix(strings.TrimSpace(ln), ";") {
				continue
			}
			s.lines = append(s.lines, ln)
			s.lnos = append(s.lnos, i+1)
		}
		srcs = append(srcs, s)
	}
	for _, s := range srcs {
		var cur *Block   // current top-level block
		var tgt *Block   // block receiving clauses (cur or an opcase of cur)
		var last *Clause // for continuation lines
		var axgroup string
		var lastSpec *SpecFun
		flushSpec := func() {}
		_ = flushSpec
		for i, raw := range s.lines {
			line := strings.TrimSpace(raw)
			if line == "" {
				continue
			}
			kw := line
			rest := ""
			if j := strings.IndexAny(line, " \t"); j >= 0 {
				kw, rest = line[:j], strings.TrimSpace(line[j+1:])
			}
			where := fmt.Sprintf("%s:%d", s.file, s.lnos[i])
			switch {
			case kw == "immutable":
				P.Immutable = append(P.Immutable, strings.Fields(rest)...)
				last, lastSpec = nil, nil
			case blockKw[kw]:
				last = nil
				lastSpec = nil
				axgroup = ""
				switch kw {
				case "spec", "define", "rec":
					sf, err := parseSpecDecl(kw, rest)
					if err != nil {
						return fmt.Errorf("%s: %v", where, err)
					}
					P.Specs[sf.Name] = sf
					cur, tgt = nil, nil
					lastSpec = sf
				case "axioms":
					axgroup = rest
					cur, tgt = nil, nil
					if _, ok := P.Axioms[axgroup]; !ok {
						P.Axioms[axgroup] = nil
					}
				default:
					name := rest
					if s.pkg != "" && !strings.Contains(strings.SplitN(name, "(", 2)[0], ".") {
						name = shortPkg(s.pkg) + "." + name
					} else if s.pkg != "" && strings.HasPrefix(name, "(") {
						name = shortPkg(s.pkg) + "." + name
					}
					if kw == "global" || kw == "entry" {
						name = kw + " " + name
					}
					cur = &Block{Kind: kw, Name: name, PkgPath: s.pkg, Loops: map[int]*LoopSpec{}, File: s.file, Line: s.lnos[i]}
					tgt = cur
					if old, dup := P.Blocks[name]; dup {
						return fmt.Errorf("%s: duplicate contract block %s (first at %s:%d)", where, name, old.File, old.Line)
					}
					P.Blocks[name] = cur
					P.BlockL = append(P.BlockL, cur)
				}
			case clauseKw[kw]:
				lastSpec = nil
				if kw == "assume" {
					if axgroup == "" {
						return fmt.Errorf("%s: assume outside axioms group", where)
					}
					P.Axioms[axgroup] = append(P.Axioms[axgroup], Clause{Text: rest, File: s.file, Line: s.lnos[i]})
					last = &P.Axioms[axgroup][len(P.Axioms[axgroup])-1]
					continue
				}
				if tgt == nil {
					return fmt.Errorf("%s: clause %q outside a block", where, kw)
				}
				mk := func(text string) Clause {
					c := Clause{File: s.file, Line: s.lnos[i]}
					for {
						if m := labelRe.FindStringSubmatch(text); m != nil {
							c.Label = m[1]
							text = text[len(m[0]):]
							continue
						}
						if m := propTagRe.FindStringSubmatch(text); m != nil {
							c.Props = strings.Split(m[1], ",")
							text = text[len(m[0]):]
							continue
						}
						break
					}
					c.Text = text
					return c
				}
				last = nil
				switch kw {
				case "props":
					tgt.Props = strings.Fields(rest)
				case "requires":
					tgt.Requires = append(tgt.Requires, mk(rest))
					last = &tgt.Requires[len(tgt.Requires)-1]
				case "ensures":
					tgt.Ensures = append(tgt.Ensures, mk(rest))
					last = &tgt.Ensures[len(tgt.Ensures)-1]
				case "let":
					tgt.Lets = append(tgt.Lets, mk(rest))
					last = &tgt.Lets[len(tgt.Lets)-1]
				case "unfold":
					tgt.Unfolds = append(tgt.Unfolds, mk(rest))
					last = &tgt.Unfolds[len(tgt.Unfolds)-1]
				case "fails_iff":
					c := mk(rest)
					tgt.FailsIff = &c
					last = tgt.FailsIff
				case "nopanic":
					tgt.NoPanic = true
				case "pure":
					tgt.Pure = true
				case "trusted":
					tgt.Trusted = true
				case "inline":
					tgt.Inline = true
				case "abstract":
					tgt.Abstract = true
				case "fresh":
					tgt.Fresh = true
				case "modifies":
					tgt.HasMod = true
					for _, m := range strings.Split(rest, ",") {
						if m = strings.TrimSpace(m); m != "" && m != "fresh" {
							tgt.Modifies = append(tgt.Modifies, m)
						}
					}
				case "preserves":
					for _, m := range strings.Split(rest, ",") {
						if m = strings.TrimSpace(m); m != "" {
							tgt.Preserves = append(tgt.Preserves, m)
						}
					}
				case "uses":
					tgt.Uses = append(tgt.Uses, strings.Fields(rest)...)
				case "writers":
					tgt.Writers = append(tgt.Writers, strings.Fields(rest)...)
				case "implements":
					tgt.Implements = append(tgt.Implements, strings.Fields(rest)...)
				case "records":
					tgt.Records = append(tgt.Records, strings.Fields(rest)...)
				case "note":
					tgt.Notes = append(tgt.Notes, rest)
				case "effects":
					tgt.Effects = strings.TrimSpace(rest)
				case "loop":
					f := strings.Fields(rest)
					if len(f) < 3 {
						return fmt.Errorf("%s: loop N invariant|decreases EXPR", where)
					}
					n, err := strconv.Atoi(strings.TrimSuffix(f[0], ":"))
					if err != nil {
						return fmt.Errorf("%s: loop number: %v", where, err)
					}
					ls := tgt.Loops[n]
					if ls == nil {
						ls = &LoopSpec{}
						tgt.Loops[n] = ls
					}
					text := strings.TrimSpace(strings.SplitN(rest, f[1], 2)[1])
					switch f[1] {
					case "invariant":
						ls.Invariants = append(ls.Invariants, mk(text))
						last = &ls.Invariants[len(ls.Invariants)-1]
					case "decreases":
						c := mk(text)
						ls.Decreases = &c
						last = ls.Decreases
					case "unfold":
						ls.Unfolds = append(ls.Unfolds, mk(text))
						last = &ls.Unfolds[len(ls.Unfolds)-1]
					default:
						return fmt.Errorf("%s: loop N invariant|decreases EXPR", where)
					}
				case "returns":
					// returns closure NAME [v: expr, w: expr]
					r := strings.TrimSpace(rest)
					if !strings.HasPrefix(r, "closure ") {
						return fmt.Errorf("%s: returns closure NAME [v: expr, ...]", where)
					}
					r = strings.TrimSpace(strings.TrimPrefix(r, "closure "))
					lb, rb := strings.IndexByte(r, '['), strings.LastIndexByte(r, ']')
					if lb < 0 || rb < lb {
						return fmt.Errorf("%s: returns closure NAME [v: expr, ...]", where)
					}
					tgt.RetClosure = strings.TrimSpace(r[:lb])
					tgt.RetBinds = map[string]string{}
					for _, kv := range splitTop(r[lb+1:rb], ',') {
						parts := strings.SplitN(kv, ":", 2)
						if len(parts) == 2 {
							tgt.RetBinds[strings.TrimSpace(parts[0])] = strings.TrimSpace(parts[1])
						}
					}
				case "at":
					// at closure [a, b]: assert #label EXPR
					r := strings.TrimSpace(rest)
					if strings.HasPrefix(r, "call dyn: assume") {
						// at call dyn: assume EXPR  (stated assumption, listed in the evidence)
						tgt.AtClosure = append(tgt.AtClosure, AtClause{Callee: "dyn-assume", Clause: mk(strings.TrimSpace(strings.TrimPrefix(r, "call dyn: assume")))})
						last = &tgt.AtClosure[len(tgt.AtClosure)-1].Clause
						continue
					}
					if strings.HasPrefix(r, "call ") {
						// at call NAME: assert #label EXPR
						r = strings.TrimSpace(strings.TrimPrefix(r, "call "))
						if c := strings.IndexByte(r, ':'); c > 0 && strings.HasPrefix(strings.TrimSpace(r[c+1:]), "assume ") && strings.TrimSpace(r[:c]) != "dyn" {
							// at call NAME: assume EXPR   (stated assumption about the arguments, listed in the evidence)
							tgt.AtClosure = append(tgt.AtClosure, AtClause{Callee: strings.TrimSpace(r[:c]), Assume: true, Clause: mk(strings.TrimSpace(strings.TrimPrefix(strings.TrimSpace(r[c+1:]), "assume ")))})
							last = &tgt.AtClosure[len(tgt.AtClosure)-1].Clause
							continue
						}
						if c := strings.IndexByte(r, ':'); c > 0 && strings.HasPrefix(strings.TrimSpace(r[c+1:]), "unfold ") {
							// at call NAME: unfold f(args)   (defining equation of a rec spec function, locals in scope)
							tgt.AtClosure = append(tgt.AtClosure, AtClause{Callee: strings.TrimSpace(r[:c]), Unfold: true, Clause: mk(strings.TrimSpace(strings.TrimPrefix(strings.TrimSpace(r[c+1:]), "unfold ")))})
							last = &tgt.AtClosure[len(tgt.AtClosure)-1].Clause
							continue
						}
						c, k := strings.IndexByte(r, ':'), strings.Index(r, "assert")
						if c < 0 || k < c {
							return fmt.Errorf("%s: at call NAME: assert EXPR", where)
						}
						tgt.AtClosure = append(tgt.AtClosure, AtClause{Callee: strings.TrimSpace(r[:c]), Clause: mk(strings.TrimSpace(r[k+len("assert"):]))})
						last = &tgt.AtClosure[len(tgt.AtClosure)-1].Clause
						continue
					}
					if strings.HasPrefix(r, "mapupdate ") {
						// at mapupdate M: assert #label EXPR   (key, value = the entry written)
						r = strings.TrimSpace(strings.TrimPrefix(r, "mapupdate "))
						c, k := strings.IndexByte(r, ':'), strings.Index(r, "assert")
						if c < 0 || k < c {
							return fmt.Errorf("%s: at mapupdate NAME: assert EXPR", where)
						}
						tgt.AtClosure = append(tgt.AtClosure, AtClause{Callee: "mapupdate:" + strings.TrimSpace(r[:c]), Clause: mk(strings.TrimSpace(r[k+len("assert"):]))})
						last = &tgt.AtClosure[len(tgt.AtClosure)-1].Clause
						continue
					}
					if !strings.HasPrefix(r, "closure") {
						return fmt.Errorf("%s: at closure [vars]: assert EXPR", where)
					}
					r = strings.TrimSpace(strings.TrimPrefix(r, "closure"))
					lb, rb := strings.IndexByte(r, '['), strings.IndexByte(r, ']')
					k := strings.Index(r, "assert")
					if lb != 0 || rb < 0 || k < rb {
						return fmt.Errorf("%s: at closure [vars]: assert EXPR", where)
					}
					var vars []string
					for _, v := range strings.Split(r[lb+1:rb], ",") {
						if v = strings.TrimSpace(v); v != "" {
							vars = append(vars, v)
						}
					}
					tgt.AtClosure = append(tgt.AtClosure, AtClause{Vars: vars, Clause: mk(strings.TrimSpace(r[k+len("assert"):]))})
					last = &tgt.AtClosure[len(tgt.AtClosure)-1].Clause
				case "opcase":
					if cur == nil {
						return fmt.Errorf("%s: opcase outside func", where)
					}
					oc := &Block{Kind: "opcase", Name: strings.TrimSuffix(rest, ":"), PkgPath: cur.PkgPath, Loops: map[int]*LoopSpec{},
						File: s.file, Line: s.lnos[i], Parent: cur, Props: cur.Props}
					cur.Opcases = append(cur.Opcases, oc)
					tgt = oc
				}
			default:
				if last == nil && lastSpec != nil {
					if lastSpec.CBody != "" {
						lastSpec.CBody += " " + line
					} else {
						lastSpec.Body += " " + line
					}
					continue
				}
				if last == nil {
					return fmt.Errorf("%s: cannot parse %q", where, line)
				}
				last.Text += " " + line
			}
		}
	}
	P.synthHandlers()
	return P.linkImplements()
}

// linkImplements: a block that `implements T` carries T's contract: T's
// preconditions are assumed, its postconditions and its frame are proved.
func (P *Program) linkImplements() error {
	for _, b := range P.BlockL {
		for _, tn := range b.Implements {
			key := tn
			if _, ok := P.Blocks[key]; !ok {
				key = shortPkg(b.PkgPath) + "." + tn
			}
			t, ok := P.Blocks[key]
			if !ok || t.Kind != "functype" {
				return fmt.Errorf("%s:%d: implements %s: no functype block of that name", b.File, b.Line, tn)
			}
			b.Requires = append(append([]Clause{}, t.Requires...), b.Requires...)
			b.Ensures = append(b.Ensures, t.Ensures...)
			if t.HasMod {
				if b.HasMod {
					return fmt.Errorf("%s:%d: implements %s: the frame is the function type's; remove the modifies clause", b.File, b.Line, tn)
				}
				b.HasMod = true
				b.Modifies = append([]string{}, t.Modifies...)
			}
			for _, p := range t.Props {
				dup := false
				for _, q := range b.Props {
					dup = dup || p == q
				}
				if !dup {
					b.Props = append(b.Props, p)
				}
			}
			b.Uses = append(b.Uses, t.Uses...)
			t.ImplementedBy = append(t.ImplementedBy, b.Name)
		}
	}
	return nil
}

// synthHandlers: every opcase OP_X of vm.switchThreading is also the
// contract of the generated function vm.OP_X_Handler (callthread.go).
func (P *Program) synthHandlers() {
	sw, ok := P.Blocks["vm.switchThreading"]
	if !ok {
		return
	}
	for _, oc := range sw.Opcases {
		if oc.Name == "OP_RETURN" {
			continue
		}
		name := "vm." + oc.Name + "_Handler"
		if _, dup := P.Blocks[name]; dup {
			continue
		}
		b := &Block{Kind: "func", Name: name, PkgPath: sw.PkgPath, Props: oc.Props, Loops: map[int]*LoopSpec{}, File: oc.File, Line: oc.Line,
			NoPanic: oc.NoPanic, FailsIff: oc.FailsIff, Ensures: oc.Ensures, PreShift: map[string]int{"v.pc": -1},
			// a handler's effect on the VM is stated by its postconditions; no frame is claimed
			HasMod: true, Modifies: []string{"all"}}
		b.Uses = append(append([]string{}, sw.Uses...), oc.Uses...)
		b.Lets = append(append([]Clause{}, sw.Lets...), oc.Lets...)
		b.Requires = append([]Clause{}, sw.Requires...)
		if ls, ok := sw.Loops[1]; ok {
			b.Requires = append(b.Requires, ls.Invariants...)
		}
		b.Requires = append(b.Requires, oc.Requires...)
		// the inner loops of the case are loops 1..k of the handler, in order
		var nums []int
		for n := range oc.Loops {
			nums = append(nums, n)
		}
		sort.Ints(nums)
		for i, n := range nums {
			b.Loops[i+1] = oc.Loops[n]
		}
		P.Blocks[name] = b
		P.BlockL = append(P.BlockL, b)
	}
}

func ifEmpty(s, d string) string {
	if s == "" {
		return d
	}
	return s
}

// spec NAME(SORT, SORT) SORT
// define NAME(x SORT, y SORT) SORT = <raw smt>
// define NAME(x SORT) SORT := <contract expr>      (macro, expanded at use)
func parseSpecDecl(kw, rest string) (*SpecFun, error) {
	lp := strings.IndexByte(rest, '(')
	rp := strings.IndexByte(rest, ')')
	if lp < 0 || rp < lp {
		return nil, fmt.Errorf("bad %s declaration %q", kw, rest)
	}
	sf := &SpecFun{Name: strings.TrimSpace(rest[:lp])}
	for _, p := range strings.Split(rest[lp+1:rp], ",") {
		p = strings.TrimSpace(p)
		if p == "" {
			continue
		}
		f := strings.Fields(p)
		if len(f) >= 2 {
			sf.PNames = append(sf.PNames, f[0])
			sf.Params = append(sf.Params, strings.Join(f[1:], " "))
		} else {
			sf.PNames = append(sf.PNames, fmt.Sprintf("a%d", len(sf.Params)))
			sf.Params = append(sf.Params, f[0])
		}
	}
	tail := strings.TrimSpace(rest[rp+1:])
	if kw == "spec" {
		sf.Ret = tail
		return sf, nil
	}
	if i := strings.Index(tail, ":="); i >= 0 {
		sf.Ret = strings.TrimSpace(tail[:i])
		sf.CBody = strings.TrimSpace(tail[i+2:])
		sf.Rec = kw == "rec"
		return sf, nil
	}
	if kw == "rec" {
		return nil, fmt.Errorf("rec needs := body: %q", rest)
	}
	i := strings.IndexByte(tail, '=')
	if i < 0 {
		return nil, fmt.Errorf("define needs = body: %q", rest)
	}
	sf.Ret = strings.TrimSpace(tail[:i])
	sf.Body = strings.TrimSpace(tail[i+1:])
	return sf, nil
}
