package gvc

import (
	"fmt"
	"go/ast"
	"go/parser"
	"go/types"
	"sort"
	"strings"

	"golang.org/x/tools/go/ssa"
)

func tuple(res []T) T {
	if len(res) == 1 {
		return res[0]
	}
	return T{Sort: "Tuple", Tup: res}
}

func (vc *VC) call(st *State, fr *Frame, x *ssa.Call, k func(*State, *Frame)) {
	cont := func(st *State, fr *Frame, r T) {
		fr.vals[x] = r
		if ci, ok := vc.closureByRef[r.S]; ok && r.S != "" {
			fr.closures[x] = ci
		}
		k(st, fr)
	}
	c := x.Call
	site := vc.siteName(x, siteWhat(x))
	if b, ok := c.Value.(*ssa.Builtin); ok {
		vc.builtin(st, fr, x, b, site, cont)
		return
	}
	var args []T
	for _, a := range c.Args {
		args = append(args, vc.val(st, fr, a))
	}
	if c.IsInvoke() {
		for _, a := range args {
			st.escape(a)
		}
		recv := vc.val(st, fr, c.Value)
		vc.check(st, not(eq(app("ityp", recv.S), "0")), "nil", site)
		vc.invoke(st, fr, x, recv, args, site, cont)
		return
	}
	if callee := c.StaticCallee(); callee != nil {
		if fr.top && st.ctx != nil && st.ctx.blk != nil {
			for i, ac := range st.ctx.blk.AtClosure {
				if ac.Callee == "" || ac.Callee != callee.Name() || strings.HasPrefix(ac.Callee, "mapupdate:") {
					continue
				}
				env := vc.localsEnv(st, fr)
				for k, a := range args {
					if k < len(callee.Params) {
						env.bind(fmt.Sprintf("arg%d", k), a, callee.Params[k].Type())
					}
				}
				if ac.Unfold {
					ec := &evalCtx{vc: vc, now: st, old: st.ctx.old, pkg: vc.fn.Pkg.Pkg, fn: vc.fn}
					root := env
					for root.parent != nil {
						root = root.parent
					}
					root.parent = vc.baseEnv(st.ctx)
					ec.env = env
					vc.pure++
					f, err := ec.unfold(ac.Clause.Text)
					vc.pure--
					if err != nil {
						if strings.Contains(err.Error(), "unknown name") {
							continue
						}
						vc.fail(fmt.Errorf("%s:%d: %v", ac.Clause.File, ac.Clause.Line, err))
						return
					}
					if vc.atUsed == nil {
						vc.atUsed = map[string]int{}
					}
					vc.atUsed[ac.Clause.Text]++
					vc.assume(st, f)
					continue
				}
				t, err := vc.evalClause(st.ctx, st, st.ctx.old, ac.Clause.Text, env)
				if err != nil {
					if strings.Contains(err.Error(), "unknown name") {
						continue // the clause speaks about locals that do not exist on this path
					}
					vc.fail(fmt.Errorf("%s:%d: %v", ac.Clause.File, ac.Clause.Line, err))
					return
				}
				if vc.atUsed == nil {
					vc.atUsed = map[string]int{}
				}
				vc.atUsed[ac.Clause.Text]++
				if ac.Assume {
					vc.note("assumed at the calls of " + callee.Name() + " in " + vc.fnName + ": " + ac.Clause.Text)
					vc.assume(st, t.S)
					continue
				}
				cl := ac.Clause
				vc.oblige(st, "at-call."+callee.Name(), labelOr(cl.Label, i+1), t.S, &cl, site)
			}
		}
		if fr.top && st.tr != nil {
			if r := vc.recByFn(callee); r != nil {
				idx := vc.trRecord(st, r, args)
				inner := cont
				cont = func(st *State, fr *Frame, res T) {
					vc.trResult(st, r, idx, res)
					inner(st, fr, res)
				}
			}
		}
		var bindings []T
		if mc, ok := c.Value.(*ssa.MakeClosure); ok {
			for _, b := range mc.Bindings {
				bindings = append(bindings, vc.val(st, fr, b))
			}
		}
		vc.staticCall(st, fr, callee, args, bindings, site, x, cont)
		return
	}
	// function value
	if fr.top && st.ctx != nil && st.ctx.blk != nil {
		for i, ac := range st.ctx.blk.AtClosure {
			if ac.Callee != "dyn" {
				continue
			}
			env := vc.localsEnv(st, fr)
			for k, a := range args {
				env.bind(fmt.Sprintf("arg%d", k), a, c.Args[k].Type())
			}
			env.bind("fnval", vc.val(st, fr, c.Value), c.Value.Type())
			t, err := vc.evalClause(st.ctx, st, st.ctx.old, ac.Clause.Text, env)
			if err != nil {
				if strings.Contains(err.Error(), "unknown name") {
					continue
				}
				vc.fail(fmt.Errorf("%s:%d: %v", ac.Clause.File, ac.Clause.Line, err))
				return
			}
			if vc.atUsed == nil {
				vc.atUsed = map[string]int{}
			}
			vc.atUsed[ac.Clause.Text]++
			cl := ac.Clause
			vc.oblige(st, "at-call.dyn", labelOr(cl.Label, i+1), t.S, &cl, site)
		}
	}
	if ci, ok := fr.closures[c.Value]; ok {
		vc.inline(st, fr, ci.fn, args, ci.bindings, cont)
		return
	}
	fv := vc.val(st, fr, c.Value)
	vc.check(st, vc.nonnil(st, fv.S), "nil", site)
	for _, a := range args {
		st.escape(a)
	}
	if fr.top && st.tr != nil && vc.recDyn() != nil {
		idx := vc.trRecordDyn(st, fv, args)
		inner := cont
		cont = func(st *State, fr *Frame, res T) {
			vc.trResultDyn(st, idx, res)
			inner(st, fr, res)
		}
	}
	vc.dynCall(st, fr, x, fv, args, cont)
}

func (vc *VC) calleeKey(callee *ssa.Function) string {
	if callee.Pkg == nil {
		if callee.Object() != nil && callee.Object().Pkg() != nil {
			return callee.Object().Pkg().Path() + "." + callee.Name()
		}
		return callee.String()
	}
	if !inModule(callee.Pkg.Pkg) {
		return callee.String()
	}
	return funcKey(callee)
}

func (vc *VC) staticCall(st *State, fr *Frame, callee *ssa.Function, args, bindings []T, site string, at *ssa.Call, cont func(*State, *Frame, T)) {
	// module function?
	if callee.Pkg != nil && inModule(callee.Pkg.Pkg) || callee.Parent() != nil && callee.Parent().Pkg != nil && inModule(callee.Parent().Pkg.Pkg) {
		if callee.Parent() == nil {
			key := funcKey(callee)
			if blk, ok := vc.P.Blocks[key]; ok && blk.Abstract {
				r := vc.abstractUF(callee, args)
				if callee.Signature.Results().Len() == 1 {
					vc.refFacts(st, r, callee.Signature.Results().At(0).Type())
				}
				cont(st, fr, r)
				return
			}
			if blk, ok := vc.P.Blocks[key]; ok && !blk.Inline {
				vc.applyContract(st, fr, blk, callee, args, site, cont)
				return
			}
		}
		if callee.Name() == "init" && callee.Parent() == nil && callee.Signature.Recv() == nil && len(args) == 0 {
			// initialiser of an imported package without contract: it
			// only writes its own package's state
			vc.havocAll(st)
			cont(st, fr, T{Sort: "Tuple"})
			return
		}
		if callee.Blocks != nil && vc.canInline(fr, callee) {
			vc.inline(st, fr, callee, args, bindings, cont)
			return
		}
		for _, a := range args {
			st.escape(a)
		}
		vc.unknownCall(st, fr, callee.String(), callee.Signature, site, cont)
		return
	}
	// external
	for _, a := range args {
		st.escape(a)
	}
	name := callee.String()
	if callee.Name() == "init" && callee.Signature.Recv() == nil && len(args) == 0 {
		vc.havocAll(st)
		cont(st, fr, T{Sort: "Tuple"})
		return
	}
	if callee.Object() != nil && callee.Object().Pkg() != nil {
		name = callee.Object().Pkg().Path() + "." + callee.Name()
		if recv := callee.Signature.Recv(); recv != nil {
			name = strings.TrimPrefix(types.TypeString(recv.Type(), nil), "*")
			name = "(" + types.TypeString(recv.Type(), func(p *types.Package) string { return p.Path() }) + ")." + callee.Name()
		}
	}
	if r, ok := vc.modelCall(st, name, args, callee.Signature, site); ok {
		cont(st, fr, r)
		return
	}
	if vc.modelPanics(st, name, args, site) {
		return
	}
	vc.unknownCall(st, fr, name, callee.Signature, site, cont)
}

func (vc *VC) canInline(fr *Frame, callee *ssa.Function) bool {
	d := 0
	for f := fr; f != nil; f = f.caller {
		if f.fn == callee {
			return false
		}
		d++
	}
	return d < 5
}

func (vc *VC) inline(st *State, fr *Frame, callee *ssa.Function, args, bindings []T, cont func(*State, *Frame, T)) {
	if callee.Blocks == nil {
		vc.unknownCall(st, fr, callee.String(), callee.Signature, "inline", cont)
		return
	}
	nf := &Frame{fn: callee, vals: map[ssa.Value]T{}, caller: fr, depth: fr.depth + 1, bindings: bindings, closures: map[ssa.Value]*closureInfo{}}
	for i, p := range callee.Params {
		if i < len(args) {
			nf.vals[p] = args[i]
		}
	}
	// closures passed as arguments keep their identity
	nf.ret = func(st *State, self *Frame, res []T) {
		cont(st, self.caller, tuple(res))
	}
	st.trail = append(st.trail, "→"+callee.Name())
	vc.enter(st, nf, callee.Blocks[0], nil)
}

// unknownCall: no contract, not inlinable, no model.
func (vc *VC) unknownCall(st *State, fr *Frame, name string, sig *types.Signature, site string, cont func(*State, *Frame, T)) {
	vc.note("call without contract/model: " + name + " (heap havocked, result unconstrained, may panic)")
	blk := st.ctx.blk
	if blk.NoPanic || blk.FailsIff != nil {
		vc.oblige(st, "nopanic.call", site, "false", nil, site)
	}
	vc.havocAll(st)
	cont(st, fr, vc.freshResult(st, sig))
}

func (vc *VC) freshResult(st *State, sig *types.Signature) T {
	var res []T
	for i := 0; i < sig.Results().Len(); i++ {
		t := sig.Results().At(i).Type()
		v := vc.fresh("r", vc.sortOf(t))
		vc.refFacts(st, v, t)
		res = append(res, v)
	}
	if len(res) == 0 {
		return T{Sort: "Tuple"}
	}
	return tuple(res)
}

func (vc *VC) havocAll(st *State) {
	st.keepBase = nil
	// objects allocated by this function whose address never left it keep
	// their contents (nobody else can write them)
	var private []string
	for _, a := range st.allocs {
		if !st.escaped[a] {
			private = append(private, a)
		}
	}
	old := map[string]string{}
	for k, v := range st.heap {
		old[k] = v
	}
	if len(private) > 0 {
		// keys only read so far (at their base version) hold private data too
		var tk []string
		for k := range st.touched {
			tk = append(tk, k)
		}
		sort.Strings(tk)
		for _, k := range tk {
			if _, ok := old[k]; !ok && !vc.heapImm[k] {
				if srt, ok := vc.heapSort[k]; ok {
					old[k] = vc.heapName(st, k, srt)
				}
			}
		}
	}
	nh := map[string]string{}
	for k, v := range st.heap {
		if vc.heapImm[k] {
			nh[k] = v
		}
	}
	st.heap = nh
	vc.nfresh++
	st.baseVer = fmt.Sprintf("h%d", vc.nfresh)
	if len(private) > 0 {
		var keys []string
		for k := range old {
			if !vc.heapImm[k] {
				keys = append(keys, k)
			}
		}
		sort.Strings(keys)
		var conds []string
		for _, a := range private {
			conds = append(conds, eq(app("root", "a"), a))
		}
		for _, k := range keys {
			n := vc.heapName(st, k, vc.heapSort[k])
			vc.assume(st, fmt.Sprintf("(forall ((a Int)) (! (=> %s (= (select %s a) (select %s a))) :pattern ((select %s a))))", or(conds...), n, old[k], n))
		}
	}
	vc.bumpMark(st)
}

func (vc *VC) bumpMark(st *State) {
	m := vc.fresh("mark", SInt)
	vc.assume(st, app(">=", m.S, st.mark))
	st.mark = m.S
}

func (vc *VC) invoke(st *State, fr *Frame, x *ssa.Call, recv T, args []T, site string, cont func(*State, *Frame, T)) {
	m := x.Call.Method
	// interface method declared pure in a contract block "func (I).M"
	it := x.Call.Value.Type()
	key := ""
	if n, ok := it.(*types.Named); ok && n.Obj().Pkg() != nil {
		key = fmt.Sprintf("%s.(%s).%s", shortPkg(n.Obj().Pkg().Path()), n.Obj().Name(), m.Name())
	}
	if blk, ok := vc.P.Blocks[key]; ok && blk.Pure {
		r := vc.ifaceUF(m, append([]T{recv}, args...))
		sig := m.Type().(*types.Signature)
		if sig.Results().Len() == 1 {
			vc.refFacts(st, r, sig.Results().At(0).Type())
		}
		if blk.NoPanic || true {
			cont(st, fr, r)
		}
		return
	}
	vc.unknownCall(st, fr, "invoke "+m.FullName(), m.Type().(*types.Signature), site, cont)
}

// dynCall: call through a function value.  Ghost state records the callee.
func (vc *VC) dynCall(st *State, fr *Frame, x *ssa.Call, fv T, args []T, cont func(*State, *Frame, T)) {
	sig := x.Call.Value.Type().Underlying().(*types.Signature)
	blk := st.ctx.blk
	site := vc.siteName(x, "call:dyn")
	if blk.NoPanic || blk.FailsIff != nil {
		if !blk.HasUse("dyncalls-nopanic") {
			vc.oblige(st, "nopanic.call", site, "false", nil, site)
		}
	}
	// ghost: calls[n] = fv ; n++
	na := vc.fresh("callsA", "(Array Int Int)")
	vc.assume(st, eq(na.S, app("store", st.callsA, st.callsN, fv.S)))
	st.callsA = na.S
	idx := st.callsN
	st.callsN = app("+", st.callsN, "1")
	preCall := st.clone()
	preCall.callsN = idx // old(ncalls()) inside clauses about this call = the count before it
	// contract of the named function type of the callee value, if it has one
	var fb *Block
	var fbPkg *types.Package
	fbEnv := newEnv(nil)
	if n, ok := x.Call.Value.Type().(*types.Named); ok && n.Obj().Pkg() != nil {
		key := shortPkg(n.Obj().Pkg().Path()) + "." + n.Obj().Name()
		if b, ok := vc.P.Blocks[key]; ok && b.Kind == "functype" {
			fb, fbPkg = b, n.Obj().Pkg()
			for k, a := range args {
				fbEnv.bind(fmt.Sprintf("arg%d", k), a, x.Call.Args[k].Type())
			}
		}
	}
	if fb != nil {
		for i, c := range fb.Requires {
			t, err := vc.evalIn(fbPkg, fbEnv, st, st, c.Text)
			if err != nil {
				vc.fail(fmt.Errorf("%s:%d: %v", c.File, c.Line, err))
				return
			}
			cl := c
			vc.oblige(st, "requires@"+fb.Name, labelOr(c.Label, i+1), t.S, &cl, site)
		}
	}
	if fb != nil && fb.HasMod {
		// the callee is a value of a function type under contract: every
		// function converted to that type proves the type's frame (scan
		// obligation functype/<T>), so only its targets change here
		if err := vc.havocTargets(st, preCall, fb, fbPkg, fbEnv); err != nil {
			vc.fail(err)
			return
		}
		vc.bumpMark(st)
	} else if blk.HasUse("dyncalls-pure") || (blk.Parent != nil && blk.Parent.HasUse("dyncalls-pure")) {
		// assumption (listed): the function values called here are pure
		vc.note("assumed: the function values called dynamically in this function have no effect on the heap (dyncalls-pure)")
		vc.bumpMark(st)
	} else if keep := vc.keepPrefix(st); keep != "" {
		// assumption (listed in the evidence): a function value cannot
		// change the unexported state of this package (it has no access
		// to it; thunks go through call0, whose contract restores it)
		vc.note("assumed: dynamic calls leave the state of package-local structs (" + keep + "*) unchanged")
		saved := map[string]string{}
		for k, v := range st.heap {
			if strings.HasPrefix(k, keep) {
				saved[k] = v
			}
		}
		// keys not yet touched on this path must keep their current base version
		base := st.baseVer
		if st.keepBase != nil && st.keepBase["prefix"] == keep {
			base = st.keepBase["ver"]
		}
		vc.havocAll(st)
		for k, v := range saved {
			st.heap[k] = v
		}
		st.keepBase = map[string]string{"prefix": keep, "ver": base}
	} else {
		vc.havocAll(st)
	}
	vc.applyPreserves(st, preCall)
	vc.keepCaptured(st, preCall, fr)
	r := vc.freshResult(st, sig)
	if r.Sort == SInt {
		nr := vc.fresh("callsR", "(Array Int Int)")
		vc.assume(st, eq(nr.S, app("store", st.callsR, idx, r.S)))
		st.callsR = nr.S
	}
	if fb != nil {
		if sig.Results().Len() == 1 {
			fbEnv.bind("result", r, sig.Results().At(0).Type())
		}
		for _, c := range fb.Ensures {
			if vc.mentionsTrace(c.Text) {
				continue
			}
			t, err := vc.evalIn(fbPkg, fbEnv, st, preCall, c.Text)
			if err != nil {
				vc.fail(fmt.Errorf("%s:%d: %v", c.File, c.Line, err))
				return
			}
			vc.assume(st, t.S)
		}
	}
	// `at call dyn: assume E` - a stated assumption about what the function
	// value called here does (old(...) = the state just before this call)
	if fr.top && st.ctx != nil && st.ctx.blk != nil {
		for _, ac := range st.ctx.blk.AtClosure {
			if ac.Callee != "dyn-assume" {
				continue
			}
			env := vc.localsEnv(st, fr)
			for k, a := range args {
				env.bind(fmt.Sprintf("arg%d", k), a, x.Call.Args[k].Type())
			}
			ec := &evalCtx{vc: vc, now: st, old: preCall, pkg: vc.fn.Pkg.Pkg, fn: vc.fn}
			base := vc.baseEnv(st.ctx)
			env.parent = base
			ec.env = env
			t, err := ec.evalText(ac.Clause.Text)
			if err != nil {
				if strings.Contains(err.Error(), "unknown name") {
					continue
				}
				vc.fail(fmt.Errorf("%s:%d: %v", ac.Clause.File, ac.Clause.Line, err))
				return
			}
			if vc.atUsed == nil {
				vc.atUsed = map[string]int{}
			}
			vc.atUsed[ac.Clause.Text]++
			vc.note("assumed about the function values called dynamically in " + vc.fnName + ": " + ac.Clause.Text)
			vc.assume(st, t.S)
		}
	}
	cont(st, fr, r)
}

// applyPreserves: trusted frame assumption of the enclosing contract:
// the listed locations are not changed by a dynamic call.
func (vc *VC) applyPreserves(st, pre *State) {
	b := st.ctx.blk
	var pres []string
	for x := b; x != nil; x = x.Parent {
		pres = append(pres, x.Preserves...)
	}
	if len(pres) == 0 {
		return
	}
	tmp := &Block{Modifies: pres, File: b.File, Line: b.Line}
	env := vc.baseEnv(st.ctx)
	tg, err := vc.modTargets(tmp, vc.fn.Pkg.Pkg, env, pre)
	if err != nil {
		vc.fail(err)
		return
	}
	vc.note("assumed: dynamic calls do not modify " + strings.Join(pres, ", "))
	for _, t := range tg {
		if t.all {
			continue
		}
		o := vc.heapName(pre, t.key, vc.heapSort[t.key])
		n := vc.heapName(st, t.key, vc.heapSort[t.key])
		if o == n {
			continue
		}
		vc.assume(st, fmt.Sprintf("(forall ((a Int)) (! (=> %s (= (select %s a) (select %s a))) :pattern ((select %s a))))", t.region("a"), n, o, n))
	}
}

// keepCaptured: after a call through a function value, the variables captured
// by the closure under verification still hold what they held before - the
// cells are private to the closure and the function that created it; other
// code has no reference to them.  (ASSUMED, listed.)  Variables the closure
// itself assigns are excluded.
func (vc *VC) keepCaptured(st, pre *State, fr *Frame) {
	if vc.fn.Parent() == nil || len(vc.fn.FreeVars) == 0 {
		return
	}
	written := map[*ssa.FreeVar]bool{}
	for _, b := range vc.fn.Blocks {
		for _, in := range b.Instrs {
			if s, ok := in.(*ssa.Store); ok {
				if fv, ok := s.Addr.(*ssa.FreeVar); ok {
					written[fv] = true
				}
			}
		}
	}
	noted := false
	for _, fv := range vc.fn.FreeVars {
		if written[fv] {
			continue
		}
		pt, ok := fv.Type().Underlying().(*types.Pointer)
		if !ok {
			continue
		}
		cell, ok := vc.params["&"+fv.Name()]
		if !ok {
			continue
		}
		for _, l := range vc.leaves(pt.Elem()) {
			if _, ok := vc.heapSort[l.key]; !ok {
				continue
			}
			o := vc.heapName(pre, l.key, vc.heapSort[l.key])
			n := vc.heapName(st, l.key, vc.heapSort[l.key])
			if o == n {
				continue
			}
			a := applyChain(l.chain, cell.S)
			vc.assume(st, eq(app("select", n, a), app("select", o, a)))
			if !noted {
				noted = true
				vc.note("assumed: function values called dynamically do not write the variables captured by " + vc.fnName + " (cells private to the closure and its creator)")
			}
		}
	}
}

// assumePreserved: the targets named in pres have the value they had in pre.
func (vc *VC) assumePreserved(st, pre *State, pres []string, pkg *types.Package, env *Env, file string, line int) {
	tmp := &Block{Modifies: pres, File: file, Line: line}
	tg, err := vc.modTargets(tmp, pkg, env, pre)
	if err != nil {
		vc.fail(err)
		return
	}
	for _, t := range tg {
		if t.all {
			continue
		}
		if _, ok := vc.heapSort[t.key]; !ok {
			continue
		}
		o := vc.heapName(pre, t.key, vc.heapSort[t.key])
		n := vc.heapName(st, t.key, vc.heapSort[t.key])
		if o == n {
			continue
		}
		vc.assume(st, fmt.Sprintf("(forall ((a Int)) (! (=> %s (= (select %s a) (select %s a))) :pattern ((select %s a))))", t.region("a"), n, o, n))
	}
}

func (vc *VC) keepPrefix(st *State) string {
	b := st.ctx.blk
	for b != nil {
		if b.HasUse("dyncall-keeps-pkg-state") {
			return "F_" + mangle(vc.fn.Pkg.Pkg.Path()) + "_"
		}
		b = b.Parent
	}
	return ""
}

func (b *Block) mentions(s string) bool {
	for _, c := range b.Ensures {
		if strings.Contains(c.Text, s) {
			return true
		}
	}
	return false
}

func (b *Block) HasUse(u string) bool {
	for _, x := range b.Uses {
		if x == u {
			return true
		}
	}
	return false
}

// ---------------------------------------------------------------------
// builtins

func (vc *VC) builtin(st *State, fr *Frame, x *ssa.Call, b *ssa.Builtin, site string, cont func(*State, *Frame, T)) {
	var args []T
	for _, a := range x.Call.Args {
		args = append(args, vc.val(st, fr, a))
	}
	switch b.Name() {
	case "len", "cap":
		v := args[0]
		switch v.Sort {
		case SSlice:
			f := "slen"
			if b.Name() == "cap" {
				f = "scap"
			}
			cont(st, fr, T{S: app(f, v.S), Sort: SInt})
		case SStr:
			cont(st, fr, T{S: app("strlen", v.S), Sort: SInt})
		default:
			if _, ok := x.Call.Args[0].Type().Underlying().(*types.Map); ok {
				mk := vc.mapInfo(x.Call.Args[0].Type())
				l := vc.hload(st, mk.len, SInt, v.S)
				vc.assume(st, app("<=", "0", l.S))
				cont(st, fr, T{S: ite(eq(v.S, "0"), "0", l.S), Sort: SInt})
				return
			}
			vc.note("len of " + x.Call.Args[0].Type().String() + " abstracted")
			cont(st, fr, vc.fresh("len", SInt))
		}
	case "append":
		cont(st, fr, vc.appendOp(st, x.Call.Args[0].Type(), args[0], args[1]))
	case "copy":
		cont(st, fr, vc.copyOp(st, x.Call.Args[0].Type(), args[0], args[1], x.Call.Args[1].Type()))
	case "delete":
		m, k := args[0], args[1]
		mk := vc.mapInfo(x.Call.Args[0].Type())
		hasArr := vc.hload(st, mk.has, vc.heapSort[mk.has], m.S).S
		oldLen := vc.hload(st, mk.len, SInt, m.S).S
		had := app("select", hasArr, k.S)
		vc.hstore(st, mk.len, SInt, m.S, T{S: ite(had, app("-", oldLen, "1"), oldLen), Sort: SInt})
		vc.hstore(st, mk.has, vc.heapSort[mk.has], m.S, T{S: app("store", hasArr, k.S, "false")})
		cont(st, fr, T{Sort: "Tuple"})
	case "print", "println":
		vc.note("builtin print")
		cont(st, fr, T{Sort: "Tuple"})
	case "min", "max":
		a, c := args[0], args[1]
		op := "<="
		if b.Name() == "max" {
			op = ">="
		}
		if a.Sort == SInt {
			cont(st, fr, T{S: ite(app(op, a.S, c.S), a.S, c.S), Sort: SInt})
			return
		}
		fallthrough
	default:
		vc.note("builtin " + b.Name() + " abstracted")
		vc.havocAll(st)
		cont(st, fr, vc.freshResult(st, x.Call.Signature()))
	}
}

// appendOp models append(s, t...) ; see DESIGN 2.4
func (vc *VC) appendOp(st *State, sliceT types.Type, s, t T) T {
	elem := sliceT.Underlying().(*types.Slice).Elem()
	r := vc.fresh("app", SSlice)
	n := app("slen", t.S)
	newLen := app("+", app("slen", s.S), n)
	inPlace := and(app("<=", newLen, app("scap", s.S)), eq(app("sarr", r.S), app("sarr", s.S)), eq(app("soff", r.S), app("soff", s.S)), eq(app("scap", r.S), app("scap", s.S)), not(eq(app("sarr", s.S), "0")))
	oldMark := st.mark
	vc.bumpMark(st)
	fresh := and(app(">", app("sarr", r.S), oldMark), app("<=", app("sarr", r.S), st.mark), eq(app("root", app("sarr", r.S)), app("sarr", r.S)),
		eq(app("soff", r.S), "0"), app(">=", app("scap", r.S), newLen), app(">", newLen, app("scap", s.S)))
	// Go may also reallocate when there is room only if cap exceeded; in place iff fits
	vc.assume(st, and(eq(app("slen", r.S), newLen), or(inPlace, fresh), app("<=", "0", app("soff", r.S))))
	for _, l := range vc.leaves(elem) {
		o, nn := vc.newVersion(st, l.key)
		dst := func(i string) string {
			return applyChain(l.chain, app("eaddr", app("sarr", r.S), addS(app("soff", r.S), i)))
		}
		srcS := func(i string) string {
			return applyChain(l.chain, app("eaddr", app("sarr", s.S), addS(app("soff", s.S), i)))
		}
		srcT := func(i string) string {
			return applyChain(l.chain, app("eaddr", app("sarr", t.S), addS(app("soff", t.S), i)))
		}
		// copied part and appended part, quantified over cell addresses
		// (patterns without arithmetic)
		{
			inv := invChain(l.chain, "a")
			idx := app("-", app("eaddr_idx", inv), app("soff", r.S)) // index within r
			vc.assume(st, fmt.Sprintf("(forall ((a Int)) (! (=> %s (= (select %s a) (select %s %s))) :pattern ((select %s a))))",
				cellIn(l.chain, "a", app("sarr", r.S), app("soff", r.S), addS(app("soff", r.S), app("slen", s.S))), nn, o, srcS(idx), nn))
			vc.assume(st, fmt.Sprintf("(forall ((a Int)) (! (=> %s (= (select %s a) (select %s %s))) :pattern ((select %s a))))",
				cellIn(l.chain, "a", app("sarr", r.S), addS(app("soff", r.S), app("slen", s.S)), addS(app("soff", r.S), newLen)), nn, o, srcT(app("-", idx, app("slen", s.S))), nn))
		}
		// small constant appends: instantiate explicitly (helps all solvers)
		if isNumeral(simplifyLen(n)) {
			var k int
			fmt.Sscan(simplifyLen(n), &k)
			for i := 0; i < k && i < 4; i++ {
				vc.assume(st, eq(app("select", nn, dst(addS(app("slen", s.S), fmt.Sprint(i)))), app("select", o, srcT(fmt.Sprint(i)))))
			}
		}
		// frame: only the appended cells of the result array change
		vc.assume(st, fmt.Sprintf("(forall ((a Int)) (! (=> (not %s) (= (select %s a) (select %s a))) :pattern ((select %s a))))",
			cellIn(l.chain, "a", app("sarr", r.S), addS(app("soff", r.S), app("slen", s.S)), addS(app("soff", r.S), newLen)), nn, o, nn))
	}
	return r
}

func simplifyLen(s string) string {
	// (slen (mk-slice a o n c)) -> n
	if strings.HasPrefix(s, "(slen (mk-slice ") {
		parts := splitArgs(s[len("(slen (mk-slice ") : len(s)-2])
		if len(parts) == 4 {
			return parts[2]
		}
	}
	return s
}

// cellIn: address a is exactly the leaf (chain) of cell number k of array
// arr for some lo <= k < hi.
func cellIn(chain []string, a, arr, lo, hi string) string {
	inv := invChain(chain, a)
	idx := app("eaddr_idx", inv)
	return and(eq(a, applyChain(chain, app("eaddr", arr, idx))), app("<=", lo, idx), app("<", idx, hi))
}

func invChain(chain []string, a string) string {
	for i := len(chain) - 1; i >= 0; i-- {
		a = app(chain[i]+"_inv", a)
	}
	return a
}

func (vc *VC) copyOp(st *State, dstT types.Type, d, s T, srcT types.Type) T {
	n := vc.fresh("ncopy", SInt)
	srcLen := app("slen", s.S)
	if s.Sort == SStr {
		srcLen = app("strlen", s.S)
	}
	vc.assume(st, eq(n.S, ite(app("<=", app("slen", d.S), srcLen), app("slen", d.S), srcLen)))
	elem := dstT.Underlying().(*types.Slice).Elem()
	for _, l := range vc.leaves(elem) {
		o, nn := vc.newVersion(st, l.key)
		{
			inv := invChain(l.chain, "a")
			idx := app("-", app("eaddr_idx", inv), app("soff", d.S))
			in := cellIn(l.chain, "a", app("sarr", d.S), app("soff", d.S), addS(app("soff", d.S), n.S))
			if s.Sort == SStr {
				vc.assume(st, fmt.Sprintf("(forall ((a Int)) (! (=> %s (= (select %s a) (str_at %s %s))) :pattern ((select %s a))))", in, nn, s.S, idx, nn))
			} else {
				src := applyChain(l.chain, app("eaddr", app("sarr", s.S), addS(app("soff", s.S), idx)))
				vc.assume(st, fmt.Sprintf("(forall ((a Int)) (! (=> %s (= (select %s a) (select %s %s))) :pattern ((select %s a))))", in, nn, o, src, nn))
			}
		}
		vc.assume(st, fmt.Sprintf("(forall ((a Int)) (! (=> (not %s) (= (select %s a) (select %s a))) :pattern ((select %s a))))",
			cellIn(l.chain, "a", app("sarr", d.S), app("soff", d.S), addS(app("soff", d.S), n.S)), nn, o, nn))
	}
	return n
}

// ---------------------------------------------------------------------
// contracts at call sites

func (vc *VC) evalIn(pkg *types.Package, env *Env, now, old *State, text string) (T, error) {
	ec := &evalCtx{vc: vc, now: now, old: old, pkg: pkg, env: env, fn: vc.fn}
	return ec.evalText(text)
}

func paramEnv(callee *ssa.Function, args []T) *Env {
	env := newEnv(nil)
	for i, p := range callee.Params {
		if i < len(args) {
			env.bind(p.Name(), args[i], p.Type())
		}
	}
	return env
}

func (vc *VC) bindLets(blk *Block, pkg *types.Package, env *Env, st *State) error {
	for _, l := range blk.Lets {
		parts := strings.SplitN(l.Text, "=", 2)
		if len(parts) != 2 {
			return fmt.Errorf("%s:%d: let NAME = EXPR", l.File, l.Line)
		}
		ec := &evalCtx{vc: vc, now: st, old: st, pkg: pkg, env: env, fn: vc.fn}
		src := rewriteImplies(strings.TrimSpace(parts[1]))
		e, err := parser.ParseExpr(src)
		if err != nil {
			return fmt.Errorf("%s:%d: %v", l.File, l.Line, err)
		}
		v, t, err := ec.eval(e)
		if err != nil {
			return fmt.Errorf("%s:%d: %v", l.File, l.Line, err)
		}
		env.bind(strings.TrimSpace(parts[0]), v, t)
	}
	return nil
}

func calleePkg(callee *ssa.Function) *types.Package {
	if callee.Pkg != nil {
		return callee.Pkg.Pkg
	}
	if callee.Parent() != nil {
		return calleePkg(callee.Parent())
	}
	return nil
}

func (vc *VC) applyContract(st *State, fr *Frame, blk *Block, callee *ssa.Function, args []T, site string, cont func(*State, *Frame, T)) {
	for _, a := range args {
		st.escape(a)
	}
	pkg := calleePkg(callee)
	env := paramEnv(callee, args)
	if err := vc.bindLets(blk, pkg, env, st); err != nil {
		vc.fail(err)
		return
	}
	short := strings.TrimPrefix(blk.Name, shortPkg(pkg.Path())+".")
	for i, c := range blk.Requires {
		t, err := vc.evalIn(pkg, env, st, st, c.Text)
		if err != nil {
			vc.fail(fmt.Errorf("%s:%d: %v", c.File, c.Line, err))
			return
		}
		lab := c.Label
		if lab == "" {
			lab = fmt.Sprint(i + 1)
		}
		vc.oblige(st, "requires@"+short, lab+"@"+site, t.S, nil, site)
		vc.assume(st, t.S)
	}
	// panic behaviour
	cblk := st.ctx.blk
	switch {
	case blk.NoPanic:
	case blk.FailsIff != nil:
		f, err := vc.evalIn(pkg, env, st, st, blk.FailsIff.Text)
		if err != nil {
			vc.fail(fmt.Errorf("%s:%d: %v", blk.FailsIff.File, blk.FailsIff.Line, err))
			return
		}
		if f.S != "false" {
			st2 := st.clone()
			vc.assumeCond(st2, f.S)
			st2.trail = append(st2.trail, "panic@"+short)
			vc.panicSite(st2, "call."+short, site)
			vc.assumeCond(st, not(f.S))
		}
	default:
		if cblk.NoPanic || cblk.FailsIff != nil {
			vc.oblige(st, "nopanic.call", site, "false", nil, site)
		}
	}
	pre := st.clone()
	// frame
	if blk.HasMod {
		if err := vc.havocTargets(st, pre, blk, pkg, env); err != nil {
			vc.fail(err)
			return
		}
	}
	if len(blk.Preserves) > 0 {
		// the callee's frame is `everything except ...`: the exception is an
		// obligation of the callee (preserves.*) and may be used here
		vc.assumePreserved(st, pre, blk.Preserves, pkg, env, blk.File, blk.Line)
	}
	vc.bumpMark(st)
	if blk.mentions("ncalls(") {
		// the callee makes dynamic calls: ghost call history advances as its contract says
		cn := vc.fresh("callsN", SInt)
		vc.assume(st, app(">=", cn.S, st.callsN))
		st.callsN = cn.S
		ca := vc.fresh("callsA", "(Array Int Int)")
		vc.assume(st, fmt.Sprintf("(forall ((i Int)) (! (=> (< i %s) (= (select %s i) (select %s i))) :pattern ((select %s i))))", pre.callsN, ca.S, pre.callsA, ca.S))
		st.callsA = ca.S
		cr := vc.fresh("callsR", "(Array Int Int)")
		vc.assume(st, fmt.Sprintf("(forall ((i Int)) (! (=> (< i %s) (= (select %s i) (select %s i))) :pattern ((select %s i))))", pre.callsN, cr.S, pre.callsR, cr.S))
		st.callsR = cr.S
	}
	res := vc.freshResult(st, callee.Signature)
	env2 := newEnv(env)
	sig := callee.Signature
	if sig.Results().Len() == 1 {
		env2.bind("result", res, sig.Results().At(0).Type())
	} else if sig.Results().Len() > 1 {
		for i := 0; i < sig.Results().Len(); i++ {
			env2.bind(fmt.Sprintf("result%d", i), res.Tup[i], sig.Results().At(i).Type())
		}
	}
	for i := 0; i < sig.Results().Len(); i++ {
		if n := sig.Results().At(i).Name(); n != "" && n != "_" {
			if sig.Results().Len() == 1 {
				env2.bind(n, res, sig.Results().At(i).Type())
			} else {
				env2.bind(n, res.Tup[i], sig.Results().At(i).Type())
			}
		}
	}
	if blk.Fresh && res.Sort == SInt {
		vc.assume(st, and(app(">", app("root", res.S), pre.mark), not(eq(res.S, "0"))))
	}
	if blk.RetClosure != "" && res.Sort == SInt {
		// the result is a known function literal with known captured values
		name := blk.RetClosure
		if !strings.Contains(strings.SplitN(name, "(", 2)[0], ".") || strings.HasPrefix(name, "(") {
			name = shortPkg(pkg.Path()) + "." + name
		}
		cf := vc.P.Funcs[name]
		if cf == nil {
			vc.fail(fmt.Errorf("%s:%d: returns closure %s: no such function literal", blk.File, blk.Line, name))
			return
		}
		ci := &closureInfo{fn: cf}
		for _, fv := range cf.FreeVars {
			text, ok := blk.RetBinds[fv.Name()]
			if !ok {
				vc.fail(fmt.Errorf("%s:%d: returns closure %s: no value given for captured variable %s", blk.File, blk.Line, name, fv.Name()))
				return
			}
			v, err := vc.evalIn(pkg, env2, st, pre, text)
			if err != nil {
				vc.fail(fmt.Errorf("%s:%d: %v", blk.File, blk.Line, err))
				return
			}
			if pt, isPtr := fv.Type().Underlying().(*types.Pointer); isPtr {
				cell := vc.alloc(st, "a")
				vc.storeAt(st, cell, pt.Elem(), v)
				ci.bindings = append(ci.bindings, cell)
			} else {
				ci.bindings = append(ci.bindings, v)
			}
		}
		vc.assume(st, and(app(">", app("root", res.S), pre.mark), not(eq(res.S, "0"))))
		if vc.closureByRef == nil {
			vc.closureByRef = map[string]*closureInfo{}
		}
		vc.closureByRef[res.S] = ci
	}
	for _, c := range blk.Ensures {
		if vc.mentionsTrace(c.Text) {
			continue // describes the callee's own activation; nothing the caller may use
		}
		t, err := vc.evalIn(pkg, env2, st, pre, c.Text)
		if err != nil {
			vc.fail(fmt.Errorf("%s:%d: %v", c.File, c.Line, err))
			return
		}
		vc.assume(st, t.S)
	}
	cont(st, fr, res)
}

// assumeCond adds a path condition (as opposed to a definitional fact).
func (vc *VC) assumeCond(st *State, f string) {
	if f == "true" {
		return
	}
	f = vc.strengthen(f)
	st.align()
	st.assumes = append(st.assumes, f)
	st.conds = append(st.conds, true)
	vc.learn(st, f, true)
}

type modTarget struct {
	key    string
	region func(a string) string // SMT predicate: address a is inside the modified region
	all    bool
}

func (vc *VC) modTargets(blk *Block, pkg *types.Package, env *Env, pre *State) ([]modTarget, error) {
	var out []modTarget
	for _, m := range blk.Modifies {
		if m == "all" {
			out = append(out, modTarget{all: true})
			continue
		}
		star := false
		text := m
		if strings.HasPrefix(text, "allmaps(") && strings.HasSuffix(text, ")") {
			// every map of the static type of the expression (or of the named type)
			e, err := parser.ParseExpr(text[len("allmaps(") : len(text)-1])
			if err != nil {
				return nil, fmt.Errorf("%s:%d: modifies %q: %v", blk.File, blk.Line, m, err)
			}
			ec := &evalCtx{vc: vc, now: pre, old: pre, pkg: pkg, env: env, fn: vc.fn}
			t, terr := ec.typeExpr(e)
			if terr != nil {
				vc.noFacts++
				_, t, err = ec.eval(e)
				vc.noFacts--
				if err != nil {
					return nil, fmt.Errorf("%s:%d: modifies %q: %v", blk.File, blk.Line, m, err)
				}
			}
			if _, ok := t.Underlying().(*types.Map); !ok {
				return nil, fmt.Errorf("%s:%d: modifies %q: not a map", blk.File, blk.Line, m)
			}
			mk := vc.mapInfo(t)
			for _, k := range []string{mk.has, mk.val, mk.len} {
				out = append(out, modTarget{key: k, region: func(a string) string { return "true" }})
			}
			continue
		}
		if strings.HasPrefix(text, "anycell(") && strings.HasSuffix(text, ")") {
			// the elements of every slice of the given slice type: anycell([]pkg.T)
			te, err := parser.ParseExpr(text[len("anycell(") : len(text)-1])
			if err != nil {
				return nil, fmt.Errorf("%s:%d: modifies %q: %v", blk.File, blk.Line, m, err)
			}
			ec := &evalCtx{vc: vc, now: pre, old: pre, pkg: pkg, env: env, fn: vc.fn}
			tt, err := ec.typeExpr(te)
			if err != nil {
				return nil, fmt.Errorf("%s:%d: modifies %q: %v", blk.File, blk.Line, m, err)
			}
			sl, ok := tt.Underlying().(*types.Slice)
			if !ok {
				return nil, fmt.Errorf("%s:%d: modifies %q: not a slice type", blk.File, blk.Line, m)
			}
			for _, l := range vc.leaves(sl.Elem()) {
				out = append(out, modTarget{key: l.key, region: func(a string) string { return "true" }})
			}
			continue
		}
		if strings.HasPrefix(text, "anyfield(") && strings.HasSuffix(text, ")") {
			// the field of every object of the struct type: anyfield(pkg.Struct.Field)
			inner := text[len("anyfield(") : len(text)-1]
			dot := strings.LastIndexByte(inner, '.')
			if dot < 0 {
				return nil, fmt.Errorf("%s:%d: modifies %q: want anyfield(pkg.Struct.Field)", blk.File, blk.Line, m)
			}
			te, err := parser.ParseExpr(inner[:dot])
			if err != nil {
				return nil, fmt.Errorf("%s:%d: modifies %q: %v", blk.File, blk.Line, m, err)
			}
			ec := &evalCtx{vc: vc, now: pre, old: pre, pkg: pkg, env: env, fn: vc.fn}
			st, err := ec.typeExpr(te)
			if err != nil {
				return nil, fmt.Errorf("%s:%d: modifies %q: %v", blk.File, blk.Line, m, err)
			}
			keys, err := vc.fieldTargets(T{S: "0", Sort: SInt}, types.NewPointer(st), inner[dot+1:], pkg)
			if err != nil {
				return nil, fmt.Errorf("%s:%d: modifies %q: %v", blk.File, blk.Line, m, err)
			}
			for _, k := range keys {
				out = append(out, modTarget{key: k.key, region: func(a string) string { return "true" }})
			}
			continue
		}
		if strings.HasSuffix(text, "[*]") {
			star = true
			text = strings.TrimSuffix(text, "[*]")
		}
		e, err := parser.ParseExpr(text)
		if err != nil {
			return nil, fmt.Errorf("%s:%d: modifies %q: %v", blk.File, blk.Line, m, err)
		}
		ec := &evalCtx{vc: vc, now: pre, old: pre, pkg: pkg, env: env, fn: vc.fn}
		if star {
			v, t, err := ec.eval(e)
			if err != nil {
				return nil, fmt.Errorf("%s:%d: modifies %q: %v", blk.File, blk.Line, m, err)
			}
			switch u := t.Underlying().(type) {
			case *types.Slice:
				arr := app("sarr", v.S)
				for _, l := range vc.leaves(u.Elem()) {
					l := l
					out = append(out, modTarget{key: l.key, region: func(a string) string {
						// a nil slice has no cells
						return and(eq(app("root", a), app("root", arr)), not(eq(arr, "0")))
					}})
				}
			case *types.Map:
				mk := vc.mapInfo(t)
				for _, k := range []string{mk.has, mk.val, mk.len} {
					out = append(out, modTarget{key: k, region: func(a string) string { return eq(a, v.S) }})
				}
			default:
				return nil, fmt.Errorf("%s:%d: modifies %q: not a slice or map", blk.File, blk.Line, m)
			}
			continue
		}
		switch x := e.(type) {
		case *ast.SelectorExpr:
			base, bt, err := ec.eval(x.X)
			if err != nil {
				return nil, fmt.Errorf("%s:%d: modifies %q: %v", blk.File, blk.Line, m, err)
			}
			keys, err := vc.fieldTargets(base, bt, x.Sel.Name, pkg)
			if err != nil {
				return nil, fmt.Errorf("%s:%d: modifies %q: %v", blk.File, blk.Line, m, err)
			}
			out = append(out, keys...)
		case *ast.StarExpr:
			p, pt, err := ec.eval(x.X)
			if err != nil {
				return nil, fmt.Errorf("%s:%d: modifies %q: %v", blk.File, blk.Line, m, err)
			}
			for _, l := range vc.leaves(deref(pt)) {
				l := l
				out = append(out, modTarget{key: l.key, region: func(a string) string { return eq(a, applyChain(l.chain, p.S)) }})
			}
		case *ast.IndexExpr:
			v, t, err := ec.eval(x.X)
			if err != nil {
				return nil, err
			}
			i, _, err := ec.eval(x.Index)
			if err != nil {
				return nil, err
			}
			u, ok := t.Underlying().(*types.Slice)
			if !ok {
				return nil, fmt.Errorf("%s:%d: modifies %q: not a slice", blk.File, blk.Line, m)
			}
			cell := app("eaddr", app("sarr", v.S), addS(app("soff", v.S), i.S))
			for _, l := range vc.leaves(u.Elem()) {
				l := l
				out = append(out, modTarget{key: l.key, region: func(a string) string { return eq(a, applyChain(l.chain, cell)) }})
			}
		default:
			return nil, fmt.Errorf("%s:%d: modifies %q: unsupported target", blk.File, blk.Line, m)
		}
	}
	return out, nil
}

func (vc *VC) fieldTargets(base T, bt types.Type, name string, pkg *types.Package) ([]modTarget, error) {
	if n, ok := deref(bt).(*types.Named); ok && n.Obj().Pkg() != nil {
		pkg = n.Obj().Pkg()
	}
	obj, path, _ := types.LookupFieldOrMethod(bt, true, pkg, name)
	if _, ok := obj.(*types.Var); !ok {
		return nil, fmt.Errorf("no field %s in %s", name, bt)
	}
	addr := base.S
	ct := deref(bt)
	if _, isPtr := bt.Underlying().(*types.Pointer); !isPtr {
		return nil, fmt.Errorf("modifies target must be reached through a pointer")
	}
	for k, idx := range path {
		si := vc.structOf(ct)
		if si == nil || si.opaque {
			return nil, fmt.Errorf("field of opaque type")
		}
		ft := si.st.Field(idx).Type()
		last := k == len(path)-1
		if isModStruct(vc, ft) != nil {
			addr = vc.fieldAddr(nil, si, addr, idx)
			ct = ft
			if last {
				var out []modTarget
				for _, l := range vc.leaves(ft) {
					l := l
					a0 := addr
					out = append(out, modTarget{key: l.key, region: func(a string) string { return eq(a, applyChain(l.chain, a0)) }})
				}
				return out, nil
			}
			continue
		}
		if !last {
			// pointer field in the middle of an embedded path
			if p, ok := ft.Underlying().(*types.Pointer); ok {
				return nil, fmt.Errorf("modifies through embedded pointer %s: write it as x.%s.field", p, si.st.Field(idx).Name())
			}
			return nil, fmt.Errorf("bad field path")
		}
		vc.heapSort[fieldKey(si, idx)] = vc.sortOf(ft)
		a0 := addr
		return []modTarget{{key: fieldKey(si, idx), region: func(a string) string { return eq(a, a0) }}}, nil
	}
	return nil, fmt.Errorf("empty path")
}

func (vc *VC) havocTargets(st, pre *State, blk *Block, pkg *types.Package, env *Env) error {
	tg, err := vc.modTargets(blk, pkg, env, pre)
	if err != nil {
		return err
	}
	byKey := map[string][]modTarget{}
	var keys []string
	for _, t := range tg {
		if t.all {
			vc.havocAll(st)
			return nil
		}
		if _, ok := byKey[t.key]; !ok {
			keys = append(keys, t.key)
		}
		byKey[t.key] = append(byKey[t.key], t)
	}
	sort.Strings(keys)
	for _, k := range keys {
		if _, ok := vc.heapSort[k]; !ok {
			continue
		}
		// make sure the pre-state name exists
		vc.heapName(st, k, vc.heapSort[k])
		o, n := vc.newVersion(st, k)
		var regs []string
		for _, t := range byKey[k] {
			regs = append(regs, t.region("a"))
		}
		vc.assume(st, fmt.Sprintf("(forall ((a Int)) (! (=> (not %s) (= (select %s a) (select %s a))) :pattern ((select %s a))))", or(regs...), n, o, n))
	}
	return nil
}

// ---------------------------------------------------------------------
// pure symbolic evaluation of a Go function (for use inside contracts)

func (vc *VC) pureCall(st *State, fn *ssa.Function, args []T) (T, error) {
	if fn.Blocks == nil {
		return T{}, fmt.Errorf("no body for %s", fn)
	}
	type out struct {
		cond string
		val  T
		defs []string
	}
	var outs []out
	vc.pure++
	defer func() { vc.pure-- }()
	st.align()
	st2 := st.clone()
	base := len(st2.assumes)
	nf := &Frame{fn: fn, vals: map[ssa.Value]T{}, closures: map[ssa.Value]*closureInfo{}, depth: 1}
	for i, p := range fn.Params {
		nf.vals[p] = args[i]
	}
	nf.ret = func(s *State, self *Frame, res []T) {
		var conds, defs []string
		for i := base; i < len(s.assumes); i++ {
			if s.isCond(i) {
				conds = append(conds, s.assumes[i])
			} else {
				defs = append(defs, s.assumes[i])
			}
		}
		outs = append(outs, out{cond: and(conds...), val: tuple(res), defs: defs})
	}
	savedPaths := vc.paths
	vc.enter(st2, nf, fn.Blocks[0], nil)
	vc.paths = savedPaths
	if vc.Err != nil {
		return T{}, vc.Err
	}
	if len(outs) == 0 {
		return T{}, fmt.Errorf("pure call of %s has no normal return", fn.Name())
	}
	seen := map[string]bool{}
	for _, o := range outs {
		for _, d := range o.defs {
			if !seen[d] {
				seen[d] = true
				st.assumes = append(st.assumes, d)
				for len(st.conds) < len(st.assumes)-1 {
					st.conds = append(st.conds, false)
				}
				st.conds = append(st.conds, false)
			}
		}
	}
	r := outs[len(outs)-1].val
	if r.Sort == "Tuple" {
		if len(outs) > 1 {
			return T{}, fmt.Errorf("multi-path tuple-valued pure call %s", fn.Name())
		}
		return r, nil
	}
	for i := len(outs) - 2; i >= 0; i-- {
		r = T{S: ite(outs[i].cond, outs[i].val.S, r.S), Sort: r.Sort}
	}
	return r, nil
}
