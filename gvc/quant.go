package gvc

import (
	"fmt"
	"sort"
	"strings"
)

// Index-quantified contract formulas  forall j in lo..hi :: P(s[e+j])  are
// hard to instantiate by E-matching (the index is an arithmetic term).  For
// every slice-cell term (eaddr A I) of the body whose index I is linear in
// the bound variable with coefficient 1, an equivalent formula quantified
// over the cell index x with the trigger (eaddr A x) is derived:
//     forall x :: lo <= x-rest < hi  ==>  P[eaddr(A,I) := eaddr(A,x), j := x-rest]
// (j = x - rest is a bijection, so the two formulas are equivalent).  The
// variants are added next to the original wherever the formula is ASSUMED;
// goals keep the original text.

func (vc *VC) registerForall(q, bv, rng, body string) {
	if vc.forallAlt == nil {
		vc.forallAlt = map[string][]string{}
	}
	if _, ok := vc.forallAlt[q]; ok {
		return
	}
	type cell struct{ term, arr, idx string }
	var cells []cell
	seen := map[string]bool{}
	for i := 0; i+7 <= len(body); i++ {
		if !strings.HasPrefix(body[i:], "(eaddr ") {
			continue
		}
		// balanced term
		d, j := 0, i
		for ; j < len(body); j++ {
			if body[j] == '(' {
				d++
			} else if body[j] == ')' {
				d--
				if d == 0 {
					break
				}
			}
		}
		if j >= len(body) {
			break
		}
		term := body[i : j+1]
		parts := splitArgs(term[7 : len(term)-1])
		if len(parts) != 2 || seen[term] {
			continue
		}
		seen[term] = true
		if containsWord(parts[0], bv) || !containsWord(parts[1], bv) {
			continue
		}
		cells = append(cells, cell{term, parts[0], parts[1]})
	}
	var alts []string
	for _, c := range cells {
		rest, ok := linearRest(c.idx, bv)
		if !ok {
			continue
		}
		vc.nfresh++
		x := fmt.Sprintf("x!q%d", vc.nfresh)
		jx := app("-", x, rest)
		if rest == "0" {
			jx = x
		}
		b2 := strings.ReplaceAll(body, c.term, app("eaddr", c.arr, x))
		b2 = replaceWord(b2, bv, jx)
		r2 := replaceWord(rng, bv, jx)
		alts = append(alts, fmt.Sprintf("(forall ((%s Int)) (! %s :pattern (%s)))", x, implies(r2, b2), app("eaddr", c.arr, x)))
	}
	vc.forallAlt[q] = alts
}

// linearRest: idx = bv + rest with rest free of bv; returns rest.
func linearRest(idx, bv string) (string, bool) {
	if idx == bv {
		return "0", true
	}
	if !strings.HasPrefix(idx, "(") {
		return "", false
	}
	sp := strings.IndexByte(idx, ' ')
	if sp < 0 {
		return "", false
	}
	op := idx[1:sp]
	args := splitArgs(idx[sp+1 : len(idx)-1])
	which := -1
	for i, a := range args {
		if containsWord(a, bv) {
			if which >= 0 {
				return "", false
			}
			which = i
		}
	}
	if which < 0 {
		return "", false
	}
	sub, ok := linearRest(args[which], bv)
	if !ok {
		return "", false
	}
	switch op {
	case "+":
		var rest []string
		for i, a := range args {
			if i == which {
				if sub != "0" {
					rest = append(rest, sub)
				}
			} else {
				rest = append(rest, a)
			}
		}
		switch len(rest) {
		case 0:
			return "0", true
		case 1:
			return rest[0], true
		}
		return app("+", rest...), true
	case "-":
		if which != 0 || len(args) < 2 {
			return "", false
		}
		return app("-", append([]string{sub}, args[1:]...)...), true
	}
	return "", false
}

func replaceWord(s, w, by string) string {
	var sb strings.Builder
	i := 0
	for {
		k := strings.Index(s[i:], w)
		if k < 0 {
			sb.WriteString(s[i:])
			return sb.String()
		}
		k += i
		before := k == 0 || !isIdentChar(s[k-1])
		after := k+len(w) >= len(s) || !isIdentChar(s[k+len(w)])
		sb.WriteString(s[i:k])
		if before && after {
			sb.WriteString(by)
		} else {
			sb.WriteString(w)
		}
		i = k + len(w)
	}
}

// strengthen adds the cell-triggered variants next to every registered
// forall occurring in an assumed formula (equivalent, hence sound).
func (vc *VC) strengthen(f string) string {
	if len(vc.forallAlt) == 0 || !strings.Contains(f, "(forall ((") {
		return f
	}
	var keys []string
	for k, alts := range vc.forallAlt {
		if len(alts) > 0 && strings.Contains(f, k) {
			keys = append(keys, k)
		}
	}
	// longest first so that an enclosing formula is handled before its parts
	sort.Slice(keys, func(i, j int) bool {
		if len(keys[i]) != len(keys[j]) {
			return len(keys[i]) > len(keys[j])
		}
		return keys[i] < keys[j]
	})
	done := map[string]bool{}
	for _, k := range keys {
		skip := false
		for d := range done {
			if strings.Contains(d, k) {
				skip = true // nested inside an already handled formula
			}
		}
		if skip {
			continue
		}
		done[k] = true
		f = strings.ReplaceAll(f, k, app("and", append([]string{k}, vc.forallAlt[k]...)...))
	}
	return f
}
