package gvc

import (
	"fmt"
	"time"
	"regexp"
	"go/ast"
	"os"
	"go/token"
	"go/types"
	"strings"

	"golang.org/x/tools/go/ssa"
)

func where(P *Program, in ssa.Instruction) string {
	p := in.Pos()
	if !p.IsValid() {
		// fall back to the enclosing function
		if f := in.Parent(); f != nil {
			return f.Name()
		}
		return "?"
	}
	pos := P.SSA.Fset.Position(p)
	f := pos.Filename
	if i := strings.LastIndexByte(f, '/'); i >= 0 {
		f = f[i+1:]
	}
	return fmt.Sprintf("%s:%d", f, pos.Line)
}

// siteName gives a line-independent name for an instruction: the callee /
// operation plus an ordinal among equal operations in the function.
func (vc *VC) siteName(in ssa.Instruction, what string) string {
	fn := in.Parent()
	m, ok := siteMemo[fn]
	if !ok {
		m = map[ssa.Instruction]string{}
		cnt := map[string]int{}
		for _, b := range fn.Blocks {
			for _, x := range b.Instrs {
				w := siteWhat(x)
				m[x] = fmt.Sprintf("%s#%d@%s", w, cnt[w], fn.Name())
				cnt[w]++
			}
		}
		siteMemo[fn] = m
	}
	if s, ok := m[in]; ok {
		return s
	}
	return what
}

var siteMemo = map[*ssa.Function]map[ssa.Instruction]string{}

func siteWhat(in ssa.Instruction) string {
	switch x := in.(type) {
	case *ssa.Call:
		if c := x.Call.StaticCallee(); c != nil {
			return "call:" + c.Name()
		}
		if x.Call.IsInvoke() {
			return "invoke:" + x.Call.Method.Name()
		}
		if b, ok := x.Call.Value.(*ssa.Builtin); ok {
			return "builtin:" + b.Name()
		}
		return "call:dyn"
	case *ssa.FieldAddr:
		return "fieldaddr"
	case *ssa.IndexAddr:
		return "indexaddr"
	case *ssa.Index:
		return "index"
	case *ssa.UnOp:
		if x.Op == token.MUL {
			return "load"
		}
		return "unop"
	case *ssa.Store:
		return "store"
	case *ssa.TypeAssert:
		return "typeassert"
	case *ssa.Slice:
		return "slice"
	case *ssa.Lookup:
		return "lookup"
	case *ssa.MapUpdate:
		return "mapupdate"
	case *ssa.Panic:
		return "panic"
	case *ssa.BinOp:
		return "binop" + x.Op.String()
	case *ssa.MakeSlice:
		return "makeslice"
	case *ssa.Convert:
		return "convert"
	}
	return fmt.Sprintf("%T", in)
}

func (vc *VC) pathEnd() {
	vc.paths++
	if vc.paths > vc.MaxPaths {
		vc.fail(fmt.Errorf("path limit %d exceeded in %s", vc.MaxPaths, vc.fnName))
	}
	if !vc.deadline.IsZero() && time.Now().After(vc.deadline) {
		vc.fail(fmt.Errorf("generation time limit exceeded in %s (%d paths so far)", vc.fnName, vc.paths))
	}
}

// enter a block coming from pred (nil for function entry).
func (vc *VC) enter(st *State, fr *Frame, b *ssa.BasicBlock, pred *ssa.BasicBlock) {
	if vc.Err != nil {
		return
	}
	// phi values for this edge (parallel assignment)
	var phis []*ssa.Phi
	var vals []T
	for _, in := range b.Instrs {
		phi, ok := in.(*ssa.Phi)
		if !ok {
			break
		}
		idx := -1
		for i, p := range b.Preds {
			if p == pred {
				idx = i
				break
			}
		}
		if idx < 0 {
			vc.fail(fmt.Errorf("phi without matching pred in %s", fr.fn.Name()))
			return
		}
		phis = append(phis, phi)
		vals = append(vals, vc.val(st, fr, phi.Edges[idx]))
	}
	li := vc.loops(fr.fn)
	if _, isHeader := li.body[b]; isHeader {
		back := pred != nil && li.body[b][pred]
		vc.loopHead(st, fr, b, pred, back, phis, vals)
		return
	}
	for i, phi := range phis {
		fr.vals[phi] = vals[i]
	}
	vc.step(st, fr, b, len(phis))
}

func (vc *VC) step(st *State, fr *Frame, b *ssa.BasicBlock, i int) {
	for ; i < len(b.Instrs); i++ {
		if vc.Err != nil {
			return
		}
		in := b.Instrs[i]
		switch x := in.(type) {
		case *ssa.If:
			c := vc.val(st, fr, x.Cond)
			c.S = vc.fold(st, c.S)
			switch c.S {
			case "true":
				vc.enter(st, fr, b.Succs[0], b)
			case "false":
				vc.enter(st, fr, b.Succs[1], b)
			default:
				st2 := st.clone()
				fr2 := fr.cloneVals()
				vc.assumeCond(st, c.S)
				st.trail = append(st.trail, fmt.Sprintf("b%d:T", b.Index))
				if vc.feasible(st) {
					vc.enter(st, fr, b.Succs[0], b)
				} else {
					vc.pruned++
				}
				vc.assumeCond(st2, not(c.S))
				vc.learn(st2, c.S, false)
				st2.trail = append(st2.trail, fmt.Sprintf("b%d:F", b.Index))
				if vc.feasible(st2) {
					vc.enter(st2, fr2, b.Succs[1], b)
				} else {
					vc.pruned++
				}
			}
			return
		case *ssa.Jump:
			vc.enter(st, fr, b.Succs[0], b)
			return
		case *ssa.Return:
			var res []T
			for _, r := range x.Results {
				res = append(res, vc.val(st, fr, r))
			}
			fr.ret(st, fr, res)
			return
		case *ssa.Panic:
			vc.panicSite(st, "explicit", vc.siteName(in, "panic"))
			return
		default:
			// ordinary instruction with continuation
			next := i + 1
			done := false
			vc.instr(st, fr, in, func(st2 *State, fr2 *Frame) {
				vc.step(st2, fr2, b, next)
			}, &done)
			if !done {
				continue
			}
			return
		}
	}
}

func (fr *Frame) cloneVals() *Frame {
	n := *fr
	n.vals = make(map[ssa.Value]T, len(fr.vals))
	for k, v := range fr.vals {
		n.vals[k] = v
	}
	if fr.names != nil {
		n.names = make(map[string]namedLocal, len(fr.names))
		for k, v := range fr.names {
			n.names[k] = v
		}
	}
	n.closures = make(map[ssa.Value]*closureInfo, len(fr.closures))
	for k, v := range fr.closures {
		n.closures[k] = v
	}
	if fr.caller != nil {
		n.caller = fr.caller.cloneVals()
	}
	return &n
}

// fold: constant-fold an equality against facts learned on this path.
func (vc *VC) fold(st *State, c string) string {
	if v, ok := st.known["b:"+c]; ok {
		return v
	}
	return c
}

// learn records (= term const) facts from branch conditions so that later
// comparisons of the same term with another constant fold syntactically.
func (vc *VC) learn(st *State, c string, truth bool) {
	if truth {
		st.known["b:"+c] = "true"
	} else {
		st.known["b:"+c] = "false"
	}
	if truth && strings.HasPrefix(c, "(and ") {
		for _, part := range splitArgs(c[5 : len(c)-1]) {
			vc.learn(st, part, true)
		}
		return
	}
	if truth && strings.HasPrefix(c, "(= ") {
		parts := splitArgs(c[3 : len(c)-1])
		if len(parts) == 2 && isNumeral(parts[1]) {
			st.known["eq:"+parts[0]] = parts[1]
		} else if len(parts) == 2 && isNumeral(parts[0]) {
			st.known["eq:"+parts[1]] = parts[0]
		}
	}
}

func isNumeral(s string) bool {
	if s == "" {
		return false
	}
	for _, c := range s {
		if c < '0' || c > '9' {
			return false
		}
	}
	return true
}

// instr executes one non-terminator. It either finishes synchronously
// (done=false; caller continues with the next instruction using st/fr) or
// takes over control (done=true) and invokes k for every continuation.
func (vc *VC) instr(st *State, fr *Frame, in ssa.Instruction, k func(*State, *Frame), done *bool) {
	switch x := in.(type) {
	case *ssa.DebugRef:
		if id, ok := x.Expr.(*ast.Ident); ok && fr.top {
			if fr.names == nil {
				fr.names = map[string]namedLocal{}
			}
			if _, isFn := x.X.(*ssa.Function); !isFn {
				ty := x.X.Type()
				fr.names[id.Name] = namedLocal{v: vc.val(st, fr, x.X), ty: ty, isAddr: x.IsAddr}
			}
		}
	case *ssa.Alloc:
		elem := x.Type().(*types.Pointer).Elem()
		a := vc.alloc(st, "a")
		vc.storeAt(st, a, elem, vc.zero(elem))
		if si := isModStruct(vc, elem); si != nil {
			vc.assume(st, eq(app("dyn", a.S), fmt.Sprint(vc.typeID(elem))))
		}
		fr.vals[x] = a
	case *ssa.FieldAddr:
		base := vc.val(st, fr, x.X)
		vc.checkNonNil(st, base.S, vc.siteName(in, "fieldaddr"))
		pt := x.X.Type().Underlying().(*types.Pointer).Elem()
		si := vc.structOf(pt)
		ft := si.st.Field(x.Field).Type()
		if si.opaque {
			vc.note("field of opaque struct " + pt.String())
			fr.vals[x] = vc.fresh("opq", SInt)
			break
		}
		if isModStruct(vc, ft) != nil {
			fr.vals[x] = T{S: vc.fieldAddr(st, si, base.S, x.Field), Sort: SInt}
		} else {
			f := fmt.Sprintf("fs_%s_%d", si.name, x.Field)
			vc.declare(f, []string{SInt}, SInt)
			fr.vals[x] = T{S: app(f, base.S), Sort: SInt, Loc: &Loc{Key: fieldKey(si, x.Field), Base: base.S}}
			vc.heapSort[fieldKey(si, x.Field)] = vc.sortOf(ft)
		}
	case *ssa.Field:
		s := vc.val(st, fr, x.X)
		si := vc.structOf(x.X.Type())
		if si.opaque {
			vc.note("field of opaque struct value " + x.X.Type().String())
			fr.vals[x] = vc.fresh("opqf", vc.sortOf(x.Type()))
			break
		}
		fr.vals[x] = T{S: simplifySel(app(fmt.Sprintf("%s_f%d", si.sort, x.Field), s.S)), Sort: vc.sortOf(x.Type())}
	case *ssa.UnOp:
		vc.unop(st, fr, x)
	case *ssa.Store:
		p := vc.val(st, fr, x.Addr)
		if p.Loc == nil {
			vc.checkNonNil(st, p.S, vc.siteName(in, "store"))
		}
		sv := vc.val(st, fr, x.Val)
		vc.storeAt(st, p, x.Val.Type(), sv)
		st.storeEscape(p, sv)
		if al, ok := x.Addr.(*ssa.Alloc); ok && singleAssign(al) {
			// a captured variable that is assigned exactly once keeps its
			// value across calls (nobody else can write the cell)
			st.known["cell:"+p.S] = sv.S
		}
	case *ssa.BinOp:
		fr.vals[x] = vc.binop(st, fr, x)
	case *ssa.Phi:
		vc.fail(fmt.Errorf("phi in the middle of a block"))
	case *ssa.ChangeType:
		v := vc.val(st, fr, x.X)
		fr.vals[x] = v
		if ci, ok := fr.closures[x.X]; ok {
			fr.closures[x] = ci
		}
	case *ssa.ChangeInterface:
		fr.vals[x] = vc.val(st, fr, x.X)
	case *ssa.Convert:
		fr.vals[x] = vc.convert(st, fr, x)
	case *ssa.MakeInterface:
		fr.vals[x] = vc.makeIface(st, vc.val(st, fr, x.X), x.X.Type())
	case *ssa.TypeAssert:
		vc.typeAssert(st, fr, x)
	case *ssa.Extract:
		tup := vc.val(st, fr, x.Tuple)
		if x.Index < len(tup.Tup) {
			fr.vals[x] = tup.Tup[x.Index]
		} else {
			vc.note("extract from opaque tuple")
			fr.vals[x] = vc.fresh("ext", vc.sortOf(x.Type()))
		}
	case *ssa.IndexAddr:
		vc.indexAddr(st, fr, x)
	case *ssa.Index:
		vc.index(st, fr, x)
	case *ssa.Slice:
		vc.sliceOp(st, fr, x)
	case *ssa.MakeSlice:
		n := vc.val(st, fr, x.Len)
		c := vc.val(st, fr, x.Cap)
		vc.check(st, and(app("<=", "0", n.S), app("<=", n.S, c.S)), "makeslice", vc.siteName(in, "makeslice"))
		fr.vals[x] = vc.makeSlice(st, x.Type().Underlying().(*types.Slice).Elem(), n.S, c.S)
	case *ssa.MakeMap:
		fr.vals[x] = vc.makeMap(st, x.Type())
	case *ssa.MapUpdate:
		vc.mapUpdate(st, fr, x)
	case *ssa.Lookup:
		vc.lookup(st, fr, x)
	case *ssa.MakeClosure:
		fn := x.Fn.(*ssa.Function)
		ci := &closureInfo{fn: fn}
		for _, b := range x.Bindings {
			bv := vc.val(st, fr, b)
			ci.bindings = append(ci.bindings, bv)
			st.escape(bv)
		}
		a := vc.alloc(st, "clo")
		fr.vals[x] = a
		fr.closures[x] = ci
		if vc.closureByRef == nil {
			vc.closureByRef = map[string]*closureInfo{}
		}
		vc.closureByRef[a.S] = ci
		if fr.top && st.ctx != nil && st.ctx.blk != nil {
			for i, ac := range st.ctx.blk.AtClosure {
				if ac.Callee != "" {
					continue
				}
				all := true
				for _, want := range ac.Vars {
					found := false
					for _, fv := range fn.FreeVars {
						if fv.Name() == want {
							found = true
						}
					}
					if !found {
						all = false
					}
				}
				if !all {
					continue
				}
				t, err := vc.evalClause(st.ctx, st, st.ctx.old, ac.Clause.Text, vc.localsEnv(st, fr))
				if err != nil {
					vc.fail(fmt.Errorf("%s:%d: %v", ac.Clause.File, ac.Clause.Line, err))
					return
				}
				if vc.atUsed == nil {
					vc.atUsed = map[string]int{}
				}
				vc.atUsed[ac.Clause.Text]++
				c := ac.Clause
				vc.oblige(st, "at-closure", labelOr(c.Label, i+1), t.S, &c, "")
			}
		}
	case *ssa.Range:
		vc.rangeInit(st, fr, x)
	case *ssa.Next:
		vc.rangeNext(st, fr, x)
	case *ssa.Defer:
		vc.note("defer ignored (recover handled by the containment analysis) in " + fr.fn.Name())
	case *ssa.RunDefers:
	case *ssa.Go, *ssa.Send, *ssa.Select:
		vc.fail(fmt.Errorf("unsupported instruction %T in %s", in, fr.fn.Name()))
	case *ssa.Call:
		*done = true
		vc.call(st, fr, x, k)
	default:
		vc.fail(fmt.Errorf("unsupported instruction %T in %s", in, fr.fn.Name()))
	}
}

func (vc *VC) alloc(st *State, prefix string) T {
	a := vc.fresh(prefix, SInt)
	vc.assume(st, and(app(">", a.S, st.mark), eq(app("root", a.S), a.S), eq(app("atag", a.S), "0")))
	st.mark = a.S
	st.known["nonnil:"+a.S] = "1"
	st.allocs = append(st.allocs, a.S)
	return a
}

func (vc *VC) unop(st *State, fr *Frame, x *ssa.UnOp) {
	v := vc.val(st, fr, x.X)
	switch x.Op {
	case token.MUL:
		if cv, ok := st.known["cell:"+v.S]; ok {
			fr.vals[x] = T{S: cv, Sort: vc.sortOf(x.Type())}
			return
		}
		if v.Loc == nil {
			vc.checkNonNil(st, v.S, vc.siteName(x, "load"))
		}
		fr.vals[x] = vc.loadAt(st, v, x.Type())
	case token.NOT:
		fr.vals[x] = T{S: not(v.S), Sort: SBool}
	case token.SUB:
		switch v.Sort {
		case SF64, SF32:
			fr.vals[x] = T{S: app("fp.neg", v.S), Sort: v.Sort}
		default:
			fr.vals[x] = vc.wrap(T{S: app("-", v.S), Sort: SInt}, x.Type())
		}
	case token.XOR:
		fr.vals[x] = vc.fresh("bnot", SInt)
		vc.note("bitwise complement abstracted")
	default:
		vc.fail(fmt.Errorf("unsupported unop %s", x.Op))
	}
}

func (vc *VC) nonnil(st *State, a string) string {
	if _, ok := st.known["nonnil:"+a]; ok {
		return "true"
	}
	if strings.HasPrefix(a, "(- ") || strings.HasPrefix(a, "(eaddr ") { // global address, slice cell
		return "true"
	}
	return not(eq(a, "0"))
}

// wrap applies modular arithmetic for sized unsigned types.
func (vc *VC) wrap(v T, t types.Type) T {
	b, ok := t.Underlying().(*types.Basic)
	if !ok {
		return v
	}
	switch b.Kind() {
	case types.Uint8:
		return T{S: app("mod", v.S, "256"), Sort: SInt}
	case types.Uint16:
		return T{S: app("mod", v.S, "65536"), Sort: SInt}
	case types.Uint32:
		return T{S: app("mod", v.S, "4294967296"), Sort: SInt}
	case types.Uint64, types.Uint, types.Uintptr:
		return T{S: app("mod", v.S, "18446744073709551616"), Sort: SInt}
	}
	return v
}

func pow2(n int64) string {
	s := "1"
	// big numbers as decimal strings via repeated doubling
	v := []int{1}
	for i := int64(0); i < n; i++ {
		carry := 0
		for j := range v {
			d := v[j]*2 + carry
			v[j] = d % 10
			carry = d / 10
		}
		if carry > 0 {
			v = append(v, carry)
		}
	}
	var sb strings.Builder
	for j := len(v) - 1; j >= 0; j-- {
		sb.WriteByte(byte('0' + v[j]))
	}
	s = sb.String()
	return s
}

func (vc *VC) binop(st *State, fr *Frame, x *ssa.BinOp) T {
	a := vc.val(st, fr, x.X)
	b := vc.val(st, fr, x.Y)
	return vc.binopT(st, x.Op, a, b, x.X.Type(), x.Type(), x)
}

func (vc *VC) binopT(st *State, op token.Token, a, b T, opndTy, resTy types.Type, at ssa.Instruction) T {
	site := func(w string) string {
		if at != nil {
			return vc.siteName(at, w)
		}
		return w
	}
	switch a.Sort {
	case SInt:
		switch op {
		case token.ADD:
			return vc.wrap(T{S: app("+", a.S, b.S), Sort: SInt}, resTy)
		case token.SUB:
			return vc.wrap(T{S: app("-", a.S, b.S), Sort: SInt}, resTy)
		case token.MUL:
			return vc.wrap(T{S: app("*", a.S, b.S), Sort: SInt}, resTy)
		case token.QUO:
			vc.check(st, not(eq(b.S, "0")), "div", site("binop/"))
			return T{S: app("tdiv", a.S, b.S), Sort: SInt}
		case token.REM:
			vc.check(st, not(eq(b.S, "0")), "div", site("binop%"))
			return T{S: app("tmod", a.S, b.S), Sort: SInt}
		case token.EQL:
			if k, ok := st.known["eq:"+a.S]; ok && isNumeral(b.S) {
				return B(k == b.S)
			}
			if os.Getenv("GVC_DEBUG") != "" && isNumeral(b.S) {
				fmt.Println("EQL nofold:", a.S)
				for k := range st.known {
					if strings.HasPrefix(k, "eq:") {
						fmt.Println("   known", k)
					}
				}
			}
			return T{S: eq(a.S, b.S), Sort: SBool}
		case token.NEQ:
			if k, ok := st.known["eq:"+a.S]; ok && isNumeral(b.S) {
				return B(k != b.S)
			}
			return T{S: not(eq(a.S, b.S)), Sort: SBool}
		case token.LSS:
			return T{S: app("<", a.S, b.S), Sort: SBool}
		case token.LEQ:
			return T{S: app("<=", a.S, b.S), Sort: SBool}
		case token.GTR:
			return T{S: app(">", a.S, b.S), Sort: SBool}
		case token.GEQ:
			return T{S: app(">=", a.S, b.S), Sort: SBool}
		case token.SHL:
			if isNumeral(b.S) {
				var n int64
				fmt.Sscan(b.S, &n)
				return vc.wrap(T{S: app("*", a.S, pow2(n)), Sort: SInt}, resTy)
			}
		case token.SHR:
			if isNumeral(b.S) {
				var n int64
				fmt.Sscan(b.S, &n)
				// arithmetic shift = floor division
				return T{S: app("div", a.S, pow2(n)), Sort: SInt}
			}
		case token.AND:
			if isNumeral(b.S) {
				var n uint64
				fmt.Sscan(b.S, &n)
				if n&(n+1) == 0 { // 2^k - 1
					return T{S: app("mod", a.S, fmt.Sprint(n+1)), Sort: SInt}
				}
			}
			return T{S: app("band", a.S, b.S), Sort: SInt}
		case token.OR:
			return T{S: app("bor", a.S, b.S), Sort: SInt}
		case token.XOR:
			return T{S: app("bxor", a.S, b.S), Sort: SInt}
		}
	case SF64, SF32:
		switch op {
		case token.ADD:
			return T{S: app("fp.add", "RNE", a.S, b.S), Sort: a.Sort}
		case token.SUB:
			return T{S: app("fp.sub", "RNE", a.S, b.S), Sort: a.Sort}
		case token.MUL:
			return T{S: app("fp.mul", "RNE", a.S, b.S), Sort: a.Sort}
		case token.QUO:
			return T{S: app("fp.div", "RNE", a.S, b.S), Sort: a.Sort}
		case token.EQL:
			return T{S: app("fp.eq", a.S, b.S), Sort: SBool}
		case token.NEQ:
			return T{S: not(app("fp.eq", a.S, b.S)), Sort: SBool}
		case token.LSS:
			return T{S: app("fp.lt", a.S, b.S), Sort: SBool}
		case token.LEQ:
			return T{S: app("fp.leq", a.S, b.S), Sort: SBool}
		case token.GTR:
			return T{S: app("fp.gt", a.S, b.S), Sort: SBool}
		case token.GEQ:
			return T{S: app("fp.geq", a.S, b.S), Sort: SBool}
		}
	case SBool:
		switch op {
		case token.EQL:
			return T{S: eq(a.S, b.S), Sort: SBool}
		case token.NEQ:
			return T{S: not(eq(a.S, b.S)), Sort: SBool}
		case token.AND:
			return T{S: and(a.S, b.S), Sort: SBool}
		case token.OR:
			return T{S: or(a.S, b.S), Sort: SBool}
		}
	case SStr:
		switch op {
		case token.ADD:
			r := T{S: app("strcat", a.S, b.S), Sort: SStr}
			key := "cat:" + r.S
			if _, ok := st.known[key]; !ok {
				st.known[key] = "1"
				vc.assume(st, and(eq(app("strlen", r.S), app("+", app("strlen", a.S), app("strlen", b.S))),
					eq(app("runes", r.S), app("+", app("runes", a.S), app("runes", b.S)))))
			}
			return r
		case token.EQL:
			return T{S: eq(a.S, b.S), Sort: SBool}
		case token.NEQ:
			return T{S: not(eq(a.S, b.S)), Sort: SBool}
		case token.LSS:
			return T{S: app("str_lt", a.S, b.S), Sort: SBool}
		case token.GTR:
			return T{S: app("str_lt", b.S, a.S), Sort: SBool}
		case token.LEQ:
			return T{S: not(app("str_lt", b.S, a.S)), Sort: SBool}
		case token.GEQ:
			return T{S: not(app("str_lt", a.S, b.S)), Sort: SBool}
		}
	case SSlice:
		// comparison with nil only
		isnil := eq(app("sarr", a.S), "0")
		if a.S == "(mk-slice 0 0 0 0)" {
			isnil = eq(app("sarr", b.S), "0")
		}
		switch op {
		case token.EQL:
			return T{S: isnil, Sort: SBool}
		case token.NEQ:
			return T{S: not(isnil), Sort: SBool}
		}
	case SIface:
		switch op {
		case token.EQL:
			if b.S == "iface_nil" {
				return T{S: eq(app("ityp", a.S), "0"), Sort: SBool}
			}
			if a.S == "iface_nil" {
				return T{S: eq(app("ityp", b.S), "0"), Sort: SBool}
			}
			return T{S: eq(a.S, b.S), Sort: SBool}
		case token.NEQ:
			if b.S == "iface_nil" {
				return T{S: not(eq(app("ityp", a.S), "0")), Sort: SBool}
			}
			if a.S == "iface_nil" {
				return T{S: not(eq(app("ityp", b.S), "0")), Sort: SBool}
			}
			return T{S: not(eq(a.S, b.S)), Sort: SBool}
		}
	default:
		switch op {
		case token.EQL:
			return T{S: eq(a.S, b.S), Sort: SBool}
		case token.NEQ:
			return T{S: not(eq(a.S, b.S)), Sort: SBool}
		}
	}
	vc.note(fmt.Sprintf("binop %s on %s abstracted", op, a.Sort))
	return vc.fresh("binop", vc.sortOf(resTy))
}

func (vc *VC) convert(st *State, fr *Frame, x *ssa.Convert) T {
	v := vc.val(st, fr, x.X)
	from, to := x.X.Type().Underlying(), x.Type().Underlying()
	fs, ts := vc.sortOf(from), vc.sortOf(to)
	tb, _ := to.(*types.Basic)
	fb, _ := from.(*types.Basic)
	switch {
	case fs == SInt && ts == SInt:
		if tb != nil && tb.Kind() == types.UnsafePointer || fb != nil && fb.Kind() == types.UnsafePointer {
			// pointer <-> unsafe.Pointer: identity; cast obligations are
			// generated where the variant is dereferenced (dyn tags)
			r := v
			r.Loc = nil
			if fb != nil && fb.Kind() == types.UnsafePointer {
				if pt, ok := to.(*types.Pointer); ok && isModStruct(vc, pt.Elem()) != nil && !vc.sameVariantFamily(x, pt.Elem()) {
					vc.check(st, or(eq(v.S, "0"), eq(app("dyn", v.S), fmt.Sprint(vc.typeID(pt.Elem())))), "cast", vc.siteName(x, "convert"))
				}
			}
			return r
		}
		if tb != nil && fb != nil {
			// narrowing to an unsigned type wraps; to a signed type of
			// smaller width is reported
			if lo, hi, ok := intRange(tb); ok {
				flo, fhi, _ := intRange(fb)
				if within(flo, fhi, lo, hi) {
					return v
				}
				switch tb.Kind() {
				case types.Uint8, types.Uint16, types.Uint32, types.Uint64, types.Uint, types.Uintptr:
					return vc.wrap(v, x.Type())
				}
				if fb.Kind() == types.Uint64 || fb.Kind() == types.Uint || fb.Kind() == types.Uintptr {
					// uint64 -> int64 reinterpretation
					return T{S: ite(app(">", v.S, hi), app("-", v.S, "18446744073709551616"), v.S), Sort: SInt}
				}
				vc.note("narrowing signed conversion treated as identity: " + x.String())
			}
		}
		return v
	case fs == SInt && (ts == SF64 || ts == SF32):
		if ts == SF64 {
			return T{S: app("i2f", v.S), Sort: SF64}
		}
		return T{S: app("(_ to_fp 8 24)", "RNE", app("to_real", v.S)), Sort: SF32}
	case fs == SF64 && ts == SInt:
		r := T{S: app("f2i", v.S), Sort: SInt}
		if tb != nil && tb.Kind() != types.Int64 && tb.Kind() != types.Int {
			vc.note("float to non-int64 conversion approximated: " + x.String())
		}
		return r
	case fs == SF64 && ts == SF32:
		return T{S: app("(_ to_fp 8 24)", "RNE", v.S), Sort: SF32}
	case fs == SF32 && ts == SF64:
		return T{S: app("(_ to_fp 11 53)", "RNE", v.S), Sort: SF64}
	case fs == ts && (fs == SF64 || fs == SF32 || fs == SStr || fs == SBool):
		return v
	case fs == SSlice && ts == SStr:
		// string(bytes) / string(runes): contents abstracted
		f := "str_of_" + typeKey(from)
		cells := vc.heapName(st, cellKey(from.(*types.Slice).Elem()), vc.sortOf(from.(*types.Slice).Elem()))
		vc.declare(f, []string{SSlice, fmt.Sprintf("(Array Int %s)", smtSort(vc.sortOf(from.(*types.Slice).Elem())))}, SStr)
		r := T{S: app(f, v.S, cells), Sort: SStr}
		if e, ok := from.(*types.Slice).Elem().Underlying().(*types.Basic); ok && e.Kind() == types.Int32 {
			vc.assume(st, eq(app("runes", r.S), app("slen", v.S)))
		} else {
			vc.assume(st, eq(app("strlen", r.S), app("slen", v.S)))
		}
		return r
	case fs == SStr && ts == SSlice:
		elem := to.(*types.Slice).Elem()
		n := app("strlen", v.S)
		if e, ok := elem.Underlying().(*types.Basic); ok && e.Kind() == types.Int32 {
			n = app("runes", v.S)
		}
		vc.assume(st, and(app("<=", "0", app("runes", v.S)), app("<=", app("runes", v.S), app("strlen", v.S))))
		s := vc.makeSliceHavoc(st, elem, n)
		return s
	case fs == SInt && ts == SStr:
		vc.note("int to string conversion abstracted")
		return vc.fresh("i2s", SStr)
	}
	vc.note(fmt.Sprintf("conversion %s -> %s abstracted", from, to))
	return vc.fresh("conv", ts)
}

func within(flo, fhi, lo, hi string) bool {
	p := func(s string) (neg bool, d string) {
		if strings.HasPrefix(s, "(- ") {
			return true, s[3 : len(s)-1]
		}
		return false, s
	}
	cmp := func(a, b string) int { // compare signed decimal strings
		an, ad := p(a)
		bn, bd := p(b)
		if an != bn {
			if an {
				return -1
			}
			return 1
		}
		c := 0
		if len(ad) != len(bd) {
			if len(ad) < len(bd) {
				c = -1
			} else {
				c = 1
			}
		} else {
			c = strings.Compare(ad, bd)
		}
		if an {
			return -c
		}
		return c
	}
	if flo == "" {
		return false
	}
	return cmp(flo, lo) >= 0 && cmp(fhi, hi) <= 0
}

func (vc *VC) makeIface(st *State, v T, t types.Type) T {
	if v.Sort == SIface {
		return v
	}
	id := fmt.Sprint(vc.typeID(t))
	zs := "str_zero"
	zf := F64c(0).S
	switch v.Sort {
	case SInt:
		return T{S: app("mk-iface", id, v.S, zs, zf), Sort: SIface}
	case SBool:
		return T{S: app("mk-iface", id, ite(v.S, "1", "0"), zs, zf), Sort: SIface}
	case SStr:
		return T{S: app("mk-iface", id, "0", v.S, zf), Sort: SIface}
	case SF64:
		return T{S: app("mk-iface", id, "0", zs, v.S), Sort: SIface}
	}
	// boxed struct / slice / etc.
	box := "box_" + mangle(v.Sort)
	unbox := "unbox_" + mangle(v.Sort)
	vc.declare(box, []string{v.Sort}, SInt)
	vc.declare(unbox, []string{SInt}, v.Sort)
	b := app(box, v.S)
	vc.assume(st, eq(app(unbox, b), v.S))
	return T{S: app("mk-iface", id, b, zs, zf), Sort: SIface}
}

func (vc *VC) unboxIface(x T, t types.Type) T {
	s := vc.sortOf(t)
	switch s {
	case SInt:
		return T{S: app("iref", x.S), Sort: SInt}
	case SBool:
		return T{S: eq(app("iref", x.S), "1"), Sort: SBool}
	case SStr:
		return T{S: app("istr", x.S), Sort: SStr}
	case SF64:
		return T{S: app("ifp", x.S), Sort: SF64}
	}
	unbox := "unbox_" + mangle(s)
	vc.declare("box_"+mangle(s), []string{s}, SInt)
	vc.declare(unbox, []string{SInt}, s)
	return T{S: app(unbox, app("iref", x.S)), Sort: s}
}

func (vc *VC) typeAssert(st *State, fr *Frame, x *ssa.TypeAssert) {
	v := vc.val(st, fr, x.X)
	var cond string
	var res T
	if _, isIface := x.AssertedType.Underlying().(*types.Interface); isIface {
		f := "impl_" + typeKey(x.AssertedType)
		vc.declare(f, []string{SInt}, SBool)
		cond = app(f, app("ityp", v.S))
		// constant type tag?
		if strings.HasPrefix(v.S, "(mk-iface ") {
			parts := splitArgs(v.S[10 : len(v.S)-1])
			var id int
			if _, err := fmt.Sscan(parts[0], &id); err == nil {
				if ct, ok := vc.typeByID[id]; ok {
					cond = B(types.Implements(ct, x.AssertedType.Underlying().(*types.Interface))).S
				}
			}
		}
		res = v
	} else {
		cond = eq(app("ityp", v.S), fmt.Sprint(vc.typeID(x.AssertedType)))
		res = vc.unboxIface(v, x.AssertedType)
	}
	if x.CommaOk {
		z := vc.zero(x.AssertedType)
		fr.vals[x] = T{Sort: "Tuple", Tup: []T{{S: ite(cond, res.S, z.S), Sort: res.Sort}, {S: cond, Sort: SBool}}}
		return
	}
	vc.check(st, cond, "typeassert", vc.siteName(x, "typeassert"))
	vc.refFacts(st, res, x.AssertedType)
	fr.vals[x] = res
}

func (vc *VC) indexAddr(st *State, fr *Frame, x *ssa.IndexAddr) {
	base := vc.val(st, fr, x.X)
	idx := vc.val(st, fr, x.Index)
	switch t := x.X.Type().Underlying().(type) {
	case *types.Slice:
		vc.check(st, and(app("<=", "0", idx.S), app("<", idx.S, app("slen", base.S))), "index", vc.siteName(x, "indexaddr"))
		fr.vals[x] = T{S: vc.elemAddr(st, app("sarr", base.S), addS(app("soff", base.S), idx.S)), Sort: SInt}
	case *types.Pointer:
		at := t.Elem().Underlying().(*types.Array)
		vc.checkNonNil(st, base.S, vc.siteName(x, "indexaddr"))
		vc.check(st, and(app("<=", "0", idx.S), app("<", idx.S, fmt.Sprint(at.Len()))), "index", vc.siteName(x, "indexaddr"))
		fr.vals[x] = T{S: vc.elemAddr(st, base.S, idx.S), Sort: SInt}
	default:
		vc.fail(fmt.Errorf("indexaddr on %s", x.X.Type()))
	}
}

func addS(a, b string) string {
	if a == "0" {
		return b
	}
	if b == "0" {
		return a
	}
	return app("+", a, b)
}

func (vc *VC) index(st *State, fr *Frame, x *ssa.Index) {
	base := vc.val(st, fr, x.X)
	idx := vc.val(st, fr, x.Index)
	if base.Sort == SStr {
		vc.check(st, and(app("<=", "0", idx.S), app("<", idx.S, app("strlen", base.S))), "index", vc.siteName(x, "index"))
		r := T{S: app("str_at", base.S, idx.S), Sort: SInt}
		vc.assume(st, and(app("<=", "0", r.S), app("<=", r.S, "255")))
		fr.vals[x] = r
		return
	}
	vc.note("index of array value abstracted")
	fr.vals[x] = vc.fresh("idx", vc.sortOf(x.Type()))
}

func (vc *VC) sliceOp(st *State, fr *Frame, x *ssa.Slice) {
	base := vc.val(st, fr, x.X)
	lo := "0"
	if x.Low != nil {
		lo = vc.val(st, fr, x.Low).S
	}
	switch t := x.X.Type().Underlying().(type) {
	case *types.Slice:
		hi := app("slen", base.S)
		if x.High != nil {
			hi = vc.val(st, fr, x.High).S
		}
		mx := app("scap", base.S)
		if x.Max != nil {
			mx = vc.val(st, fr, x.Max).S
		}
		vc.check(st, and(app("<=", "0", lo), app("<=", lo, hi), app("<=", hi, mx), app("<=", mx, app("scap", base.S))), "slice", vc.siteName(x, "slice"))
		fr.vals[x] = T{S: app("mk-slice", app("sarr", base.S), addS(app("soff", base.S), lo), app("-", hi, lo), app("-", mx, lo)), Sort: SSlice}
	case *types.Pointer:
		at := t.Elem().Underlying().(*types.Array)
		n := fmt.Sprint(at.Len())
		hi := n
		if x.High != nil {
			hi = vc.val(st, fr, x.High).S
		}
		vc.check(st, and(app("<=", "0", lo), app("<=", lo, hi), app("<=", hi, n)), "slice", vc.siteName(x, "slice"))
		fr.vals[x] = T{S: app("mk-slice", base.S, lo, app("-", hi, lo), app("-", n, lo)), Sort: SSlice}
	case *types.Basic: // string
		hi := app("strlen", base.S)
		if x.High != nil {
			hi = vc.val(st, fr, x.High).S
		}
		vc.check(st, and(app("<=", "0", lo), app("<=", lo, hi), app("<=", hi, app("strlen", base.S))), "slice", vc.siteName(x, "slice"))
		vc.declare("substr", []string{SStr, SInt, SInt}, SStr)
		r := T{S: app("substr", base.S, lo, hi), Sort: SStr}
		vc.assume(st, eq(app("strlen", r.S), app("-", hi, lo)))
		fr.vals[x] = r
	default:
		vc.fail(fmt.Errorf("slice of %s", x.X.Type()))
	}
}

// makeSlice: fresh zeroed backing array.
func (vc *VC) makeSlice(st *State, elem types.Type, n, c string) T {
	arr := vc.alloc(st, "arr")
	s := T{S: app("mk-slice", arr.S, "0", n, c), Sort: SSlice}
	// contents: zero.  If the size is a small constant, store explicitly.
	var k int64 = -1
	if isNumeral(c) {
		fmt.Sscan(c, &k)
	}
	if k >= 0 && k <= 8 {
		for i := int64(0); i < k; i++ {
			vc.storeAt(st, T{S: vc.elemAddr(st, arr.S, fmt.Sprint(i)), Sort: SInt}, elem, vc.zero(elem))
		}
		return s
	}
	for _, l := range vc.leaves(elem) {
		o, nn := vc.newVersion(st, l.key)
		z := vc.zeroOfSort(l.sort)
		vc.assume(st, fmt.Sprintf("(forall ((a Int)) (! (=> %s (= (select %s a) %s)) :pattern ((select %s a))))", cellIn(l.chain, "a", arr.S, "0", c), nn, z, nn))
		vc.assume(st, fmt.Sprintf("(forall ((a Int)) (! (=> (not (= (root a) %s)) (= (select %s a) (select %s a))) :pattern ((select %s a))))", arr.S, nn, o, nn))
	}
	return s
}

func (vc *VC) zeroOfSort(sort string) string {
	switch sort {
	case SInt:
		return "0"
	case SBool:
		return "false"
	case SF64:
		return F64c(0).S
	case SF32:
		return F32c(0).S
	case SStr:
		return vc.strlit("").S
	case SSlice:
		return "(mk-slice 0 0 0 0)"
	case SIface:
		return "iface_nil"
	}
	name := "zero_" + sort
	vc.declare(name, nil, sort)
	return name
}

// makeSliceHavoc: fresh backing array with unknown contents.
func (vc *VC) makeSliceHavoc(st *State, elem types.Type, n string) T {
	arr := vc.alloc(st, "arr")
	vc.assume(st, app("<=", "0", n))
	return T{S: app("mk-slice", arr.S, "0", n, n), Sort: SSlice}
}

// ---------------------------------------------------------------------
// maps

type mapKeys struct{ has, val, len, ksort, vsort string }

func (vc *VC) mapInfo(t types.Type) mapKeys {
	mt := t.Underlying().(*types.Map)
	k := typeKey(mt)
	mk := mapKeys{has: "MH_" + k, val: "MV_" + k, len: "ML_" + k, ksort: vc.sortOf(mt.Key()), vsort: vc.sortOf(mt.Elem())}
	vc.heapSort[mk.has] = fmt.Sprintf("(Array %s Bool)", smtSort(mk.ksort))
	vc.heapSort[mk.val] = fmt.Sprintf("(Array %s %s)", smtSort(mk.ksort), smtSort(mk.vsort))
	vc.heapSort[mk.len] = SInt
	return mk
}

func (vc *VC) makeMap(st *State, t types.Type) T {
	mk := vc.mapInfo(t)
	m := vc.alloc(st, "map")
	vc.hstore(st, mk.has, vc.heapSort[mk.has], m.S, T{S: fmt.Sprintf("((as const (Array %s Bool)) false)", smtSort(mk.ksort))})
	vc.hstore(st, mk.len, SInt, m.S, I(0))
	return m
}

func (vc *VC) mapHas(st *State, mk mapKeys, m, k string) string {
	return app("select", vc.hload(st, mk.has, vc.heapSort[mk.has], m).S, k)
}
func (vc *VC) mapVal(st *State, mk mapKeys, m, k string) string {
	return app("select", vc.hload(st, mk.val, vc.heapSort[mk.val], m).S, k)
}

func (vc *VC) lookup(st *State, fr *Frame, x *ssa.Lookup) {
	m := vc.val(st, fr, x.X)
	k := vc.val(st, fr, x.Index)
	if m.Sort == SStr {
		vc.check(st, and(app("<=", "0", k.S), app("<", k.S, app("strlen", m.S))), "index", vc.siteName(x, "lookup"))
		r := T{S: app("str_at", m.S, k.S), Sort: SInt}
		vc.assume(st, and(app("<=", "0", r.S), app("<=", r.S, "255")))
		fr.vals[x] = r
		return
	}
	mk := vc.mapInfo(x.X.Type())
	has := and(not(eq(m.S, "0")), vc.mapHas(st, mk, m.S, k.S))
	mt := x.X.Type().Underlying().(*types.Map)
	v := T{S: ite(has, vc.mapVal(st, mk, m.S, k.S), vc.zero(mt.Elem()).S), Sort: mk.vsort}
	vc.refFacts(st, v, mt.Elem())
	if x.CommaOk {
		fr.vals[x] = T{Sort: "Tuple", Tup: []T{v, {S: has, Sort: SBool}}}
	} else {
		fr.vals[x] = v
	}
}

func (vc *VC) mapUpdate(st *State, fr *Frame, x *ssa.MapUpdate) {
	m := vc.val(st, fr, x.Map)
	k := vc.val(st, fr, x.Key)
	v := vc.val(st, fr, x.Value)
	if fr.top && st.ctx != nil && st.ctx.blk != nil {
		for i, ac := range st.ctx.blk.AtClosure {
			if !strings.HasPrefix(ac.Callee, "mapupdate:") {
				continue
			}
			want := strings.TrimPrefix(ac.Callee, "mapupdate:")
			// the map operand must be the parameter / local of that name
			env := vc.localsEnv(st, fr)
			named, _, ok := env.lookup(want)
			if !ok {
				if pv, okp := vc.params[want]; okp {
					named, ok = pv, true
				}
			}
			if !ok || named.S != m.S {
				continue
			}
			mt := x.Map.Type().Underlying().(*types.Map)
			env.bind("key", k, mt.Key())
			env.bind("value", v, mt.Elem())
			t, err := vc.evalClause(st.ctx, st, st.ctx.old, ac.Clause.Text, env)
			if err != nil {
				vc.fail(fmt.Errorf("%s:%d: %v", ac.Clause.File, ac.Clause.Line, err))
				return
			}
			if vc.atUsed == nil {
				vc.atUsed = map[string]int{}
			}
			vc.atUsed[ac.Clause.Text]++
			cl := ac.Clause
			vc.oblige(st, "at-mapupdate."+want, labelOr(cl.Label, i+1), t.S, &cl, vc.siteName(x, "mapupdate"))
		}
	}
	st.escape(k)
	st.escape(v)
	vc.check(st, vc.nonnil(st, m.S), "mapnil", vc.siteName(x, "mapupdate"))
	mk := vc.mapInfo(x.Map.Type())
	hasArr := vc.hload(st, mk.has, vc.heapSort[mk.has], m.S).S
	valArr := vc.hload(st, mk.val, vc.heapSort[mk.val], m.S).S
	oldLen := vc.hload(st, mk.len, SInt, m.S).S
	had := app("select", hasArr, k.S)
	vc.hstore(st, mk.len, SInt, m.S, T{S: ite(had, oldLen, app("+", oldLen, "1")), Sort: SInt})
	vc.hstore(st, mk.has, vc.heapSort[mk.has], m.S, T{S: app("store", hasArr, k.S, "true")})
	vc.hstore(st, mk.val, vc.heapSort[mk.val], m.S, T{S: app("store", valArr, k.S, v.S)})
}

// range over map / string / slice(handled by SSA as index loops)
type rangeIter struct {
	mapT    types.Type
	m       string
	visited string // (Array K Bool) term name (current)
	isStr   bool
}

func (vc *VC) rangeInit(st *State, fr *Frame, x *ssa.Range) {
	v := vc.val(st, fr, x.X)
	it := vc.fresh("iter", SInt)
	if _, ok := x.X.Type().Underlying().(*types.Map); ok {
		mk := vc.mapInfo(x.X.Type())
		vis := fmt.Sprintf("vis_%s", it.S)
		vc.declare("visited", []string{SInt}, SInt) // placeholder so that names are stable
		_ = vis
		st.known["iter:"+it.S] = "map|" + v.S + "|" + fmt.Sprintf("((as const (Array %s Bool)) false)", smtSort(mk.ksort))
	} else {
		st.known["iter:"+it.S] = "str|" + v.S + "|0"
	}
	fr.vals[x] = it
}

func (vc *VC) rangeNext(st *State, fr *Frame, x *ssa.Next) {
	it := vc.val(st, fr, x.Iter)
	info, ok := st.known["iter:"+it.S]
	rng := x.Iter.(*ssa.Range)
	if !ok {
		// iterator crossed a loop cut: re-establish from ghost state if
		// recorded under the loop-carried name
		info, ok = st.known["iter:*"]
	}
	tt := x.Type().(*types.Tuple)
	okv := vc.fresh("rng_ok", SBool)
	if _, isMap := rng.X.Type().Underlying().(*types.Map); isMap {
		mk := vc.mapInfo(rng.X.Type())
		mt := rng.X.Type().Underlying().(*types.Map)
		k := vc.fresh("rng_k", mk.ksort)
		m := vc.val(st, fr, rng.X).S
		visited := ""
		if ok {
			parts := strings.SplitN(info, "|", 3)
			visited = parts[2]
		} else {
			vs := vc.fresh("visited", fmt.Sprintf("(Array %s Bool)", smtSort(mk.ksort)))
			visited = vs.S
		}
		has := vc.mapHas(st, mk, m, k.S)
		v := T{S: vc.mapVal(st, mk, m, k.S), Sort: mk.vsort}
		vc.assume(st, implies(okv.S, and(not(eq(m, "0")), has, not(app("select", visited, k.S)))))
		vc.refFacts(st, v, mt.Elem())
		// when exhausted every key has been visited
		vc.assume(st, implies(not(okv.S), fmt.Sprintf("(forall ((k %s)) (! (=> %s (select %s k)) :pattern (%s)))",
			smtSort(mk.ksort), app("select", vc.hload(st, mk.has, vc.heapSort[mk.has], m).S, "k"), visited,
			app("select", vc.hload(st, mk.has, vc.heapSort[mk.has], m).S, "k"))))
		nv := app("store", visited, k.S, "true")
		st.known["iter:"+it.S] = "map|" + m + "|" + nv
		st.known["iter:*"] = st.known["iter:"+it.S]
		fr.vals[x] = T{Sort: "Tuple", Tup: []T{okv, k, v}}
		return
	}
	_ = tt
	// string iteration: abstract
	idx := vc.fresh("rng_i", SInt)
	r := vc.fresh("rng_r", SInt)
	s := vc.val(st, fr, rng.X).S
	vc.assume(st, implies(okv.S, and(app("<=", "0", idx.S), app("<", idx.S, app("strlen", s)))))
	fr.vals[x] = T{Sort: "Tuple", Tup: []T{okv, idx, r}}
}

// sameVariantFamily: a cast  *T -> unsafe.Pointer -> *U  where U is the
// first (embedded) field type of T or U == T needs no tag check.
func (vc *VC) sameVariantFamily(x *ssa.Convert, target types.Type) bool {
	inner, ok := x.X.(*ssa.Convert)
	if !ok {
		return false
	}
	pt, ok := inner.X.Type().Underlying().(*types.Pointer)
	if !ok {
		return false
	}
	src := pt.Elem()
	if types.Identical(src, target) {
		return true
	}
	// upcast to the embedded first field
	if st, ok := src.Underlying().(*types.Struct); ok && st.NumFields() > 0 && types.Identical(st.Field(0).Type(), target) {
		return true
	}
	return false
}

var singleAssignMemo = map[*ssa.Alloc]bool{}

// singleAssign: the cell is stored to exactly once in its function and
// never through a closure that captured it.
func singleAssign(al *ssa.Alloc) bool {
	if r, ok := singleAssignMemo[al]; ok {
		return r
	}
	fn := al.Parent()
	n := 0
	okAll := true
	if refs := al.Referrers(); refs != nil {
		for _, r := range *refs {
			switch x := r.(type) {
			case *ssa.Store:
				if x.Addr != ssa.Value(al) {
					okAll = false
				}
			case *ssa.UnOp, *ssa.MakeClosure, *ssa.DebugRef:
			default:
				okAll = false // field/index address taken, passed to a call, ...
			}
		}
	}
	var scanClosure func(f *ssa.Function, fv *ssa.FreeVar)
	scanClosure = func(f *ssa.Function, fv *ssa.FreeVar) {
		for _, b := range f.Blocks {
			for _, in := range b.Instrs {
				switch x := in.(type) {
				case *ssa.Store:
					if x.Addr == ssa.Value(fv) {
						okAll = false
					}
				case *ssa.MakeClosure:
					for i, bnd := range x.Bindings {
						if bnd == ssa.Value(fv) {
							scanClosure(x.Fn.(*ssa.Function), x.Fn.(*ssa.Function).FreeVars[i])
						}
					}
				case *ssa.Call:
					for _, a := range x.Call.Args {
						if a == ssa.Value(fv) {
							okAll = false
						}
					}
				}
			}
		}
	}
	for _, b := range fn.Blocks {
		for _, in := range b.Instrs {
			switch x := in.(type) {
			case *ssa.Store:
				if x.Addr == ssa.Value(al) {
					n++
				}
				if x.Val == ssa.Value(al) {
					okAll = false // address escapes into the heap
				}
			case *ssa.MakeClosure:
				for i, bnd := range x.Bindings {
					if bnd == ssa.Value(al) {
						scanClosure(x.Fn.(*ssa.Function), x.Fn.(*ssa.Function).FreeVars[i])
					}
				}
			case *ssa.Call:
				for _, a := range x.Call.Args {
					if a == ssa.Value(al) {
						okAll = false
					}
				}
			}
		}
	}
	r := okAll && n == 1
	singleAssignMemo[al] = r
	return r
}

var allocTok = regexp.MustCompile(`(?:a|arr|map|clo)![0-9]+`)

// escape marks every allocation constant occurring in the term as
// possibly known to code outside the current function.
// storeEscape: a reference stored into memory escapes - unless the memory
// belongs to an allocation of this function that has not escaped itself; then
// the reference is merely held by that allocation and escapes when it does.
func (st *State) storeEscape(p, v T) {
	parents := allocTok.FindAllString(p.S, -1)
	if p.Loc != nil {
		parents = append(parents, allocTok.FindAllString(p.Loc.Base, -1)...)
	}
	private := len(parents) > 0
	known := map[string]bool{}
	for _, a := range st.allocs {
		known[a] = true
	}
	for _, t := range parents {
		if !known[t] || st.escaped[t] {
			private = false
		}
	}
	if !private {
		st.escape(v)
		return
	}
	if st.held == nil {
		st.held = map[string][]string{}
	}
	toks := allocTok.FindAllString(v.S, -1)
	for _, t := range v.Tup {
		toks = append(toks, allocTok.FindAllString(t.S, -1)...)
	}
	for _, par := range parents {
		st.held[par] = append(st.held[par], toks...)
	}
}

func (st *State) escape(v T) {
	if st.escaped == nil {
		st.escaped = map[string]bool{}
	}
	var markTok func(m string)
	markTok = func(m string) {
		if st.escaped[m] {
			return
		}
		st.escaped[m] = true
		for _, c := range st.held[m] {
			markTok(c) // what a private object holds escapes with it
		}
	}
	mark := func(s string) {
		for _, m := range allocTok.FindAllString(s, -1) {
			markTok(m)
		}
	}
	mark(v.S)
	for _, t := range v.Tup {
		mark(t.S)
	}
}


// feasible: cheap pruning of dead branches.  Only used once a function has
// produced many paths; asks one solver, quantifier-free relaxation, short
// limit.  `unsat` of the relaxation is sound evidence that the branch cannot
// be taken; anything else keeps the branch.
func (vc *VC) feasible(st *State) bool {
	if !vc.deadline.IsZero() && time.Now().After(vc.deadline) {
		vc.fail(fmt.Errorf("generation time limit exceeded in %s (%d paths so far)", vc.fnName, vc.paths))
		return false
	}
	if vc.pure > 0 || len(st.trail) < 6 {
		return true
	}
	o := &Oblig{Goal: "false", Assumes: st.assumes}
	q := Relax(BuildQuery(vc.decls, o))
	a := solveFast(q, 400)
	return a != "unsat"
}
