package gvc

import (
	"fmt"
	"time"
	"os"
	"go/constant"
	"go/types"
	"regexp"
	"sort"
	"strings"

	"golang.org/x/tools/go/ssa"
)

// ---------------------------------------------------------------------
// data

type Loc struct {
	Key  string // heap key of a scalar struct field
	Base string // address of the struct
}

type Oblig struct {
	Name    string
	Kind    string
	Props   []string
	Assumes []string
	Goal    string
	Path    string
	Where   string
	Ans     Answer
	Trivial bool
	Canary  bool // must FAIL (vacuity guard)
}

type Ctx struct {
	blk   *Block            // contract in force (function or opcase)
	old   *State            // state `old()` refers to
	env   map[string]T      // extra names (lets)
	envTy map[string]types.Type
	name  string // obligation prefix
}

type loopCtx struct {
	head *ssa.BasicBlock
	dec0 string
}

type State struct {
	heap    map[string]string
	baseVer string
	assumes []string
	conds   []bool // parallel to assumes: true = path condition, false = definitional fact
	mark    string
	known   map[string]string
	ctx     *Ctx
	loops   []loopCtx
	trail   []string
	callsN  string // ghost: number of dynamic function-value invocations
	callsA  string // ghost: array Int -> Int (callee refs)
	callsR  string // ghost: array Int -> Int (returned refs)
	tr       map[string]string // activation-local trace of recorded static calls: "N" count, "F" callee ids, "A:key:j" args, "R:key:i" results
	keepBase map[string]string
	allocs   []string        // allocation constants created on this path
	escaped  map[string]bool // ... whose address may be known to other code
	touched  map[string]bool     // heap keys read or written on this path (so that private allocations survive a havoc for all of them)
	held     map[string][]string // private allocation -> allocations whose address was stored inside it (they escape when it does)
	dead    bool
}

func (s *State) clone() *State {
	n := *s
	n.heap = make(map[string]string, len(s.heap))
	for k, v := range s.heap {
		n.heap[k] = v
	}
	n.known = make(map[string]string, len(s.known))
	for k, v := range s.known {
		n.known[k] = v
	}
	if s.tr != nil {
		n.tr = make(map[string]string, len(s.tr))
		for k, v := range s.tr {
			n.tr[k] = v
		}
	}
	n.allocs = append([]string(nil), s.allocs...)
	n.escaped = make(map[string]bool, len(s.escaped))
	for k := range s.escaped {
		n.escaped[k] = true
	}
	if s.touched != nil {
		n.touched = make(map[string]bool, len(s.touched))
		for k := range s.touched {
			n.touched[k] = true
		}
	}
	if s.held != nil {
		n.held = make(map[string][]string, len(s.held))
		for k, v := range s.held {
			n.held[k] = append([]string(nil), v...)
		}
	}
	n.assumes = append([]string(nil), s.assumes...)
	n.conds = append([]bool(nil), s.conds...)
	n.loops = append([]loopCtx(nil), s.loops...)
	n.trail = append([]string(nil), s.trail...)
	return &n
}

type Frame struct {
	fn       *ssa.Function
	vals     map[ssa.Value]T
	ret      func(st *State, self *Frame, results []T)
	caller   *Frame
	depth    int
	bindings []T
	top      bool
	closures map[ssa.Value]*closureInfo
	names    map[string]namedLocal // source-level local variables (from DebugRef)
}

type namedLocal struct {
	v      T
	ty     types.Type
	isAddr bool
}

type closureInfo struct {
	fn       *ssa.Function
	bindings []T
}

type structInfo struct {
	named  *types.Named
	st     *types.Struct
	sort   string
	name   string // mangled
	opaque bool
}

type VC struct {
	P        *Program
	fn       *ssa.Function
	blk      *Block
	fnName   string
	decls    []string
	declared map[string]bool
	heapSort map[string]string // key -> element sort
	heapImm  map[string]bool
	nfresh   int
	recFns   []recFn
	traceMacros map[string]bool
	trSort   map[string]string
	obligs   []*Oblig
	notes    map[string]bool
	paths    int
	strlits  map[string]string
	typeIDs  map[string]int
	typeByID map[int]types.Type
	structs  map[string]*structInfo
	globals  map[string]int64
	entry    *State
	params   map[string]T
	paramTy  map[string]types.Type
	results  []*types.Var
	loopsOf  map[*ssa.Function]*loopInfo
	MaxPaths int
	Err      error
	canaries bool
	inlineDepth int
	faTags   map[string]int
	storeDefs map[string]storeDef
	pure     int
	noFacts  int
	onlyOpcase string
	deadline time.Time // VC generation of one function must finish by then
	closureByRef map[string]*closureInfo // closure values created on the way (for captured(...))
	pruned   int // branches cut because their path condition is unsatisfiable
	atUsed   map[string]int // site assertions (at closure / at call) that were applicable at least once
	selfWritten map[string]bool // heap keys this function may write itself
	forallAlt map[string][]string // index-quantified forall -> equivalent cell-triggered variants
}

type loopInfo struct {
	headers []*ssa.BasicBlock        // ordered
	body    map[*ssa.BasicBlock]map[*ssa.BasicBlock]bool
	number  map[*ssa.BasicBlock]int
}

func (vc *VC) note(s string) {
	if vc.pure == 0 {
		vc.notes[s] = true
	}
}

func (vc *VC) fresh(prefix, sort string) T {
	vc.nfresh++
	name := fmt.Sprintf("%s!%d", prefix, vc.nfresh)
	vc.declare(name, nil, sort)
	return T{S: name, Sort: sort}
}

func (vc *VC) declare(name string, args []string, sort string) {
	if vc.declared[name] {
		return
	}
	vc.declared[name] = true
	vc.needSort(sort)
	for _, a := range args {
		vc.needSort(a)
	}
	var as []string
	for _, a := range args {
		as = append(as, smtSort(a))
	}
	vc.decls = append(vc.decls, fmt.Sprintf("(declare-fun %s (%s) %s)", name, strings.Join(as, " "), smtSort(sort)))
}

func (vc *VC) needSort(sort string) {
	if strings.HasPrefix(sort, "O_") {
		if !vc.declared["sort:"+sort] {
			vc.declared["sort:"+sort] = true
			vc.decls = append(vc.decls, fmt.Sprintf("(declare-sort %s 0)", sort))
		}
	}
	if strings.HasPrefix(sort, "(Array ") {
		// nested sorts are declared by whoever builds them
	}
}

func (vc *VC) assume(st *State, f string) {
	if f == "true" {
		return
	}
	f = vc.strengthen(f)
	st.align()
	st.assumes = append(st.assumes, f)
	st.conds = append(st.conds, false)
}

func (s *State) isCond(i int) bool { return i < len(s.conds) && s.conds[i] }

// align keeps conds parallel to assumes (entries added without a flag are definitional facts).
func (s *State) align() {
	for len(s.conds) < len(s.assumes) {
		s.conds = append(s.conds, false)
	}
	if len(s.conds) > len(s.assumes) {
		s.conds = s.conds[:len(s.assumes)]
	}
}

// ---------------------------------------------------------------------
// sorts

func mangle(s string) string {
	r := strings.NewReplacer(ModPath+"/", "", ModPath, "yae", "/", "_", ".", "_", "*", "P", "[", "L", "]", "R", " ", "", "{", "", "}", "", "(", "", ")", "", ",", "_", ";", "_")
	return r.Replace(s)
}

var aliasRe = regexp.MustCompile(`\b(byte|rune)\b`)

func typeKey(t types.Type) string {
	s := types.TypeString(t, func(p *types.Package) string { return p.Path() })
	s = aliasRe.ReplaceAllStringFunc(s, func(m string) string {
		if m == "byte" {
			return "uint8"
		}
		return "int32"
	})
	return mangle(s)
}

func (vc *VC) structOf(t types.Type) *structInfo {
	st, ok := t.Underlying().(*types.Struct)
	if !ok {
		return nil
	}
	key := typeKey(t)
	if si, ok := vc.structs[key]; ok {
		return si
	}
	si := &structInfo{st: st, name: key}
	if n, ok := t.(*types.Named); ok {
		si.named = n
		if !inModule(n.Obj().Pkg()) {
			si.opaque = true
		}
	}
	if si.opaque {
		si.sort = "O_" + key
		vc.structs[key] = si
		vc.needSort(si.sort)
		return si
	}
	si.sort = "S_" + key
	vc.structs[key] = si
	var fs []string
	for i := 0; i < st.NumFields(); i++ {
		fsort := vc.sortOf(st.Field(i).Type())
		fs = append(fs, fmt.Sprintf("(%s_f%d %s)", si.sort, i, smtSort(fsort)))
	}
	if len(fs) == 0 {
		fs = append(fs, fmt.Sprintf("(%s_dummy Int)", si.sort))
	}
	vc.decls = append(vc.decls, fmt.Sprintf("(declare-datatypes ((%s 0)) (((mk_%s %s))))", si.sort, si.sort, strings.Join(fs, " ")))
	return si
}

func (vc *VC) sortOf(t types.Type) string {
	switch u := t.Underlying().(type) {
	case *types.Basic:
		switch {
		case u.Info()&types.IsBoolean != 0:
			return SBool
		case u.Info()&types.IsInteger != 0:
			return SInt
		case u.Kind() == types.Float32:
			return SF32
		case u.Info()&types.IsFloat != 0:
			return SF64
		case u.Info()&types.IsString != 0:
			return SStr
		case u.Kind() == types.UnsafePointer, u.Kind() == types.UntypedNil:
			return SInt
		}
		return SInt
	case *types.Pointer, *types.Map, *types.Chan, *types.Signature:
		return SInt
	case *types.Slice:
		return SSlice
	case *types.Interface:
		return SIface
	case *types.Struct:
		return vc.structOf(t).sort
	case *types.Array:
		vc.needSort("O_arr_" + typeKey(t))
		return "O_arr_" + typeKey(t)
	case *types.Tuple:
		return "Tuple"
	}
	return SInt
}

func (vc *VC) strlit(s string) T {
	if n, ok := vc.strlits[s]; ok {
		return T{S: n, Sort: SStr}
	}
	n := fmt.Sprintf("strlit_%d", len(vc.strlits))
	vc.strlits[s] = n
	vc.decls = append(vc.decls, fmt.Sprintf("(declare-fun %s () Str)", n))
	vc.decls = append(vc.decls, fmt.Sprintf("(assert (= (strlen %s) %d))", n, len(s)))
	vc.decls = append(vc.decls, fmt.Sprintf("(assert (= (strid %s) %d)) ; %q", n, len(vc.strlits), trunc(s, 40)))
	return T{S: n, Sort: SStr}
}

func trunc(s string, n int) string {
	if len(s) > n {
		return s[:n] + "..."
	}
	return s
}

func (vc *VC) zero(t types.Type) T {
	sort := vc.sortOf(t)
	switch sort {
	case SInt:
		return I(0)
	case SBool:
		return B(false)
	case SF64:
		return F64c(0)
	case SF32:
		return F32c(0)
	case SStr:
		return vc.strlit("")
	case SSlice:
		return T{S: "(mk-slice 0 0 0 0)", Sort: SSlice}
	case SIface:
		return T{S: "iface_nil", Sort: SIface}
	}
	if si := vc.structOf(t); si != nil && !si.opaque {
		var fs []string
		for i := 0; i < si.st.NumFields(); i++ {
			fs = append(fs, vc.zero(si.st.Field(i).Type()).S)
		}
		if len(fs) == 0 {
			fs = append(fs, "0")
		}
		return T{S: app("mk_"+si.sort, fs...), Sort: si.sort}
	}
	name := "zero_" + sort
	vc.declare(name, nil, sort)
	return T{S: name, Sort: sort}
}

func (vc *VC) typeID(t types.Type) int {
	k := typeKey(t)
	if id, ok := vc.typeIDs[k]; ok {
		return id
	}
	id := len(vc.typeIDs) + 1
	vc.typeIDs[k] = id
	vc.typeByID[id] = t
	return id
}

// prelude: fixed declarations
const prelude = `(set-logic ALL)
(declare-sort Str 0)
(declare-fun strlen (Str) Int)
(declare-fun strid (Str) Int)
(declare-fun strcat (Str Str) Str)
(declare-fun str_lt (Str Str) Bool)
(declare-fun str_at (Str Int) Int)
(declare-fun runes (Str) Int)
(declare-datatypes ((Slice 0)) (((mk-slice (sarr Int) (soff Int) (slen Int) (scap Int)))))
(declare-datatypes ((Iface 0)) (((mk-iface (ityp Int) (iref Int) (istr Str) (ifp (_ FloatingPoint 11 53))))))
(declare-fun str_zero () Str)
(define-fun iface_nil () Iface (mk-iface 0 0 str_zero (fp #b0 #b00000000000 #b0000000000000000000000000000000000000000000000000000)))
(declare-fun root (Int) Int)
(declare-fun atag (Int) Int)
(declare-fun eaddr (Int Int) Int)
(declare-fun eaddr_arr (Int) Int)
(declare-fun eaddr_idx (Int) Int)
;;EADDR-AXIOM
(declare-fun dyn (Int) Int)
(declare-fun mark0 () Int)
(assert (>= mark0 0))
(assert (= (root 0) 0))
(define-fun tdiv ((x Int) (y Int)) Int (ite (>= x 0) (ite (> y 0) (div x y) (- (div x (- y)))) (ite (> y 0) (- (div (- x) y)) (div (- x) (- y)))))
(define-fun tmod ((x Int) (y Int)) Int (- x (* y (tdiv x y))))
(declare-fun f2i_oor ((_ FloatingPoint 11 53)) Int)
(define-fun f2i ((x (_ FloatingPoint 11 53))) Int
  (ite (and (fp.leq ((_ to_fp 11 53) RNE (- 9223372036854775808.0)) x) (fp.lt x ((_ to_fp 11 53) RNE 9223372036854775808.0)))
       (ite (fp.isNegative x) (- (to_int (- (fp.to_real x)))) (to_int (fp.to_real x)))
       (f2i_oor x)))
(define-fun i2f ((x Int)) (_ FloatingPoint 11 53) ((_ to_fp 11 53) RNE (to_real x)))
(declare-fun bor (Int Int) Int)
(declare-fun band (Int Int) Int)
(declare-fun bxor (Int Int) Int)
(declare-fun math_pow ((_ FloatingPoint 11 53) (_ FloatingPoint 11 53)) (_ FloatingPoint 11 53))
(declare-fun fn_result (Int Int) Int)
`

// ---------------------------------------------------------------------
// heap

func (vc *VC) heapName(st *State, key, elemSort string) string {
	if st.touched == nil {
		st.touched = map[string]bool{}
	}
	st.touched[key] = true
	if n, ok := st.heap[key]; ok {
		return n
	}
	ver := st.baseVer
	if vc.heapImm[key] {
		ver = "0"
	}
	if st.keepBase != nil && strings.HasPrefix(key, st.keepBase["prefix"]) {
		ver = st.keepBase["ver"]
	}
	name := fmt.Sprintf("H_%s@%s", key, ver)
	if !vc.declared[name] {
		vc.heapSort[key] = elemSort
		vc.declare(name, nil, fmt.Sprintf("(Array Int %s)", smtSort(elemSort)))
	}
	return name
}

func (vc *VC) newVersion(st *State, key string) (oldName, newName string) {
	elemSort := vc.heapSort[key]
	oldName = vc.heapName(st, key, elemSort)
	vc.nfresh++
	newName = fmt.Sprintf("H_%s!%d", key, vc.nfresh)
	vc.declare(newName, nil, fmt.Sprintf("(Array Int %s)", smtSort(elemSort)))
	st.heap[key] = newName
	return
}

type storeDef struct{ prev, addr, val string }

func (vc *VC) hload(st *State, key, elemSort, addr string) T {
	h := vc.heapName(st, key, elemSort)
	if os.Getenv("GVC_DEBUG") == "2" {
		fmt.Println("hload", key, addr, "cur", h, "def", vc.storeDefs[h])
	}
	// resolve select-over-store syntactically
	for {
		d, ok := vc.storeDefs[h]
		if !ok {
			break
		}
		if d.addr == addr {
			return T{S: d.val, Sort: elemSort}
		}
		if !distinctAddr(d.addr, addr) {
			break
		}
		h = d.prev
	}
	return T{S: app("select", h, addr), Sort: elemSort}
}

func (vc *VC) hstore(st *State, key, elemSort, addr string, v T) {
	vc.heapSort[key] = elemSort
	o, n := vc.newVersion(st, key)
	vc.assume(st, eq(n, app("store", o, addr, v.S)))
	vc.storeDefs[n] = storeDef{prev: o, addr: addr, val: v.S}
}

// distinctAddr: two address terms that can never be equal (purely
// syntactic, sound): different allocation constants, an allocation
// constant vs a parameter or global, different globals, cells of the same
// array with different numeral indices.
func distinctAddr(a, b string) bool {
	if a == b {
		return false
	}
	ka, kb := addrKind(a), addrKind(b)
	if ka == "" || kb == "" {
		// eaddr with same array and different numeral index
		if strings.HasPrefix(a, "(eaddr ") && strings.HasPrefix(b, "(eaddr ") {
			pa, pb := splitArgs(a[7:len(a)-1]), splitArgs(b[7:len(b)-1])
			if len(pa) == 2 && len(pb) == 2 && pa[0] == pb[0] && isNumeral(pa[1]) && isNumeral(pb[1]) && pa[1] != pb[1] {
				return true
			}
			if len(pa) == 2 && len(pb) == 2 && addrKind(pa[0]) == "alloc" && addrKind(pb[0]) == "alloc" && pa[0] != pb[0] {
				return true
			}
		}
		return false
	}
	if ka == "alloc" && kb == "alloc" {
		return true // different names
	}
	if ka != kb {
		return true // alloc vs param/global, param vs global
	}
	if ka == "global" {
		return true
	}
	return false
}

func addrKind(a string) string {
	switch {
	case strings.HasPrefix(a, "a!") || strings.HasPrefix(a, "arr!") || strings.HasPrefix(a, "map!") || strings.HasPrefix(a, "clo!"):
		return "alloc"
	case strings.HasPrefix(a, "p_") && !strings.ContainsAny(a, " ("):
		return "param"
	case strings.HasPrefix(a, "(- ") && isNumeral(a[3:len(a)-1]):
		return "global"
	}
	return ""
}

func fieldKey(si *structInfo, i int) string { return fmt.Sprintf("F_%s_%d", si.name, i) }
func cellKey(t types.Type) string          { return "C_" + typeKey(t) }

func isModStruct(vc *VC, t types.Type) *structInfo {
	if _, ok := t.Underlying().(*types.Struct); !ok {
		return nil
	}
	si := vc.structOf(t)
	if si.opaque {
		return nil
	}
	return si
}

// fieldAddr returns the address of field i of struct si at base.
func (vc *VC) fieldAddr(st *State, si *structInfo, base string, i int) string {
	if i == 0 {
		return base
	}
	f := vc.faFun(si, i)
	return app(f, base)
}

// faFun declares the derived-address function of a nested struct field
// together with its axioms (injective, same root, tagged, non-nil).
func (vc *VC) faFun(si *structInfo, i int) string {
	f := fmt.Sprintf("fa_%s_%d", si.name, i)
	if vc.declared[f] {
		return f
	}
	vc.declare(f, []string{SInt}, SInt)
	vc.declare(f+"_inv", []string{SInt}, SInt)
	tag := len(vc.faTags) + 1
	vc.faTags[f] = tag
	vc.decls = append(vc.decls, fmt.Sprintf("(assert (forall ((a Int)) (! (and (= (%s_inv (%s a)) a) (= (root (%s a)) (root a)) (= (atag (%s a)) %d) (=> (not (= a 0)) (not (= (%s a) 0)))) :pattern ((%s a)))))", f, f, f, f, tag, f, f))
	return f
}

func (vc *VC) elemAddr(st *State, arr, idx string) string {
	return app("eaddr", arr, idx)
}

// refFacts adds well-formedness assumptions for a value that comes from
// the pre-existing heap / a parameter / a call result.
func (vc *VC) refFacts(st *State, v T, t types.Type) {
	if vc.noFacts > 0 {
		return
	}
	switch v.Sort {
	case SInt:
		switch u := t.Underlying().(type) {
		case *types.Pointer, *types.Map, *types.Signature, *types.Chan:
			vc.assume(st, app("<=", app("root", v.S), st.mark))
			_ = u
		case *types.Basic:
			if lo, hi, ok := intRange(u); ok {
				vc.assume(st, and(app("<=", lo, v.S), app("<=", v.S, hi)))
			}
		}
	case SSlice:
		vc.assume(st, and(app("<=", app("root", app("sarr", v.S)), st.mark),
			app("<=", "0", app("soff", v.S)), app("<=", "0", app("slen", v.S)), app("<=", app("slen", v.S), app("scap", v.S)),
			eq(app("root", app("sarr", v.S)), app("sarr", v.S)),
			// a slice with capacity has a backing array
			app("=>", app(">", app("scap", v.S), "0"), not(eq(app("sarr", v.S), "0")))))
	case SIface:
		vc.assume(st, app("<=", app("root", app("iref", v.S)), st.mark))
	case SStr:
		vc.assume(st, app("<=", "0", app("strlen", v.S)))
	}
}

func intRange(b *types.Basic) (lo, hi string, ok bool) {
	switch b.Kind() {
	case types.Uint8:
		return "0", "255", true
	case types.Uint16:
		return "0", "65535", true
	case types.Uint32:
		return "0", "4294967295", true
	case types.Uint64, types.Uint, types.Uintptr:
		return "0", "18446744073709551615", true
	case types.Int8:
		return "(- 128)", "127", true
	case types.Int16:
		return "(- 32768)", "32767", true
	case types.Int32:
		return "(- 2147483648)", "2147483647", true
	case types.Int, types.Int64:
		return "(- 9223372036854775808)", "9223372036854775807", true
	}
	return "", "", false
}

// loadAt reads a value of type t stored at pointer p.
func (vc *VC) loadAt(st *State, p T, t types.Type) T {
	if p.Loc != nil {
		v := vc.hload(st, p.Loc.Key, vc.sortOf(t), p.Loc.Base)
		vc.refFacts(st, v, t)
		if vc.heapImm[p.Loc.Key] && !vc.selfWritten[p.Loc.Key] && st.mark != "mark0" && vc.noFacts == 0 {
			// a reference read from a field that never changes after its
			// object is constructed: if the object existed when this call
			// started, so did what the field refers to.  (Objects built by
			// callees during this call are younger; nothing is said of them.)
			var r string
			switch v.Sort {
			case SInt:
				if _, isPtr := t.Underlying().(*types.Pointer); isPtr {
					r = app("root", v.S)
				}
			case SSlice:
				r = app("root", app("sarr", v.S))
			case SIface:
				r = app("root", app("iref", v.S))
			}
			if r != "" {
				vc.assume(st, app("=>", app("<=", app("root", p.Loc.Base), "mark0"), app("<=", r, "mark0")))
			}
		}
		return v
	}
	if si := isModStruct(vc, t); si != nil {
		var fs []string
		for i := 0; i < si.st.NumFields(); i++ {
			ft := si.st.Field(i).Type()
			if isModStruct(vc, ft) != nil {
				fs = append(fs, vc.loadAt(st, T{S: vc.fieldAddr(st, si, p.S, i), Sort: SInt}, ft).S)
			} else {
				v := vc.hload(st, fieldKey(si, i), vc.sortOf(ft), p.S)
				vc.refFacts(st, v, ft)
				fs = append(fs, v.S)
			}
		}
		if len(fs) == 0 {
			fs = append(fs, "0")
		}
		return T{S: app("mk_"+si.sort, fs...), Sort: si.sort}
	}
	if _, ok := t.Underlying().(*types.Array); ok {
		vc.note("unsupported: load of array value " + t.String())
		return vc.fresh("arrval", vc.sortOf(t))
	}
	v := vc.hload(st, cellKey(t), vc.sortOf(t), p.S)
	vc.refFacts(st, v, t)
	return v
}

func (vc *VC) storeAt(st *State, p T, t types.Type, v T) {
	if p.Loc != nil {
		vc.hstore(st, p.Loc.Key, vc.sortOf(t), p.Loc.Base, v)
		return
	}
	if si := isModStruct(vc, t); si != nil {
		for i := 0; i < si.st.NumFields(); i++ {
			ft := si.st.Field(i).Type()
			fv := T{S: app(fmt.Sprintf("%s_f%d", si.sort, i), v.S), Sort: vc.sortOf(ft)}
			fv.S = simplifySel(fv.S)
			if isModStruct(vc, ft) != nil {
				vc.storeAt(st, T{S: vc.fieldAddr(st, si, p.S, i), Sort: SInt}, ft, fv)
			} else {
				vc.hstore(st, fieldKey(si, i), vc.sortOf(ft), p.S, fv)
			}
		}
		return
	}
	if at, ok := t.Underlying().(*types.Array); ok {
		// zero-initialise (only used by Alloc)
		for i := int64(0); i < at.Len() && i < 64; i++ {
			vc.storeAt(st, T{S: vc.elemAddr(st, p.S, fmt.Sprint(i)), Sort: SInt}, at.Elem(), vc.zero(at.Elem()))
		}
		if at.Len() > 64 {
			vc.note("array > 64 elements not zero-initialised: " + t.String())
		}
		return
	}
	vc.hstore(st, cellKey(t), vc.sortOf(t), p.S, v)
}

// simplifySel: (S_f0 (mk_S a b c)) -> a   (keeps terms small)
func simplifySel(s string) string {
	// pattern "(SEL (mk_S ...))" where SEL = S_fN
	if !strings.HasPrefix(s, "(") {
		return s
	}
	sp := strings.IndexByte(s, ' ')
	if sp < 0 {
		return s
	}
	sel := s[1:sp]
	k := strings.LastIndex(sel, "_f")
	if k < 0 {
		return s
	}
	sortName := sel[:k]
	var idx int
	if _, err := fmt.Sscanf(sel[k+2:], "%d", &idx); err != nil {
		return s
	}
	arg := s[sp+1 : len(s)-1]
	pre := "(mk_" + sortName + " "
	if !strings.HasPrefix(arg, pre) || !balanced(arg) {
		return s
	}
	parts := splitArgs(arg[len(pre) : len(arg)-1])
	if idx < len(parts) {
		return parts[idx]
	}
	return s
}

func splitArgs(s string) []string {
	var out []string
	d := 0
	start := -1
	for i, c := range s {
		switch {
		case c == '(':
			if d == 0 && start < 0 {
				start = i
			}
			d++
		case c == ')':
			d--
			if d == 0 {
				out = append(out, s[start:i+1])
				start = -1
			}
		case c == ' ' || c == '\n' || c == '\t':
			if d == 0 && start >= 0 {
				out = append(out, s[start:i])
				start = -1
			}
		default:
			if d == 0 && start < 0 {
				start = i
			}
		}
	}
	if start >= 0 {
		out = append(out, s[start:])
	}
	return out
}

// leafKeys: all heap keys that hold parts of a value of type t stored in
// memory, with the address chain from the cell address.
type leaf struct {
	key   string
	sort  string
	chain []string // fa functions applied innermost-first
}

func (vc *VC) leaves(t types.Type) []leaf {
	if si := isModStruct(vc, t); si != nil {
		var out []leaf
		for i := 0; i < si.st.NumFields(); i++ {
			ft := si.st.Field(i).Type()
			if isModStruct(vc, ft) != nil {
				for _, l := range vc.leaves(ft) {
					if i > 0 {
						f := vc.faFun(si, i)
						l.chain = append([]string{f}, l.chain...)
					}
					out = append(out, l)
				}
			} else {
				vc.heapSort[fieldKey(si, i)] = vc.sortOf(ft)
				out = append(out, leaf{key: fieldKey(si, i), sort: vc.sortOf(ft)})
			}
		}
		return out
	}
	vc.heapSort[cellKey(t)] = vc.sortOf(t)
	return []leaf{{key: cellKey(t), sort: vc.sortOf(t)}}
}

func applyChain(chain []string, a string) string {
	for _, f := range chain {
		a = app(f, a)
	}
	return a
}

// ---------------------------------------------------------------------
// obligations

func (vc *VC) propsFor(st *State, c *Clause) []string {
	if c != nil && len(c.Props) > 0 {
		return c.Props
	}
	if st.ctx != nil && st.ctx.blk != nil && len(st.ctx.blk.Props) > 0 {
		return st.ctx.blk.Props
	}
	return vc.blk.Props
}

func (vc *VC) oblige(st *State, kind, label string, goal string, c *Clause, where string) {
	if vc.pure > 0 {
		return
	}
	name := fmt.Sprintf("%s/%s", st.ctx.name, kind)
	if label != "" {
		name += "." + label
	}
	o := &Oblig{Name: name, Kind: kind, Props: vc.propsFor(st, c), Goal: goal, Path: strings.Join(st.trail, ">"), Where: where}
	if goal == "true" {
		o.Trivial = true
		o.Ans = Answer{Result: "unsat", Solver: "syntactic"}
	} else {
		o.Assumes = append([]string(nil), st.assumes...)
	}
	vc.obligs = append(vc.obligs, o)
}

// check: an implicit run-time check (nil, index, cast ...). cond must hold
// or the program panics with an internal fault.
func (vc *VC) check(st *State, cond, kind, where string) {
	if cond == "true" {
		return
	}
	if vc.pure > 0 {
		vc.assumeCond(st, cond)
		return
	}
	blk := st.ctx.blk
	switch {
	case blk.NoPanic || blk.NoFault():
		vc.oblige(st, "nopanic."+kind, where, cond, nil, where)
	case blk.FailsIff != nil:
		f := vc.failsCond(st)
		vc.oblige(st, "fails_iff.only."+kind, where, or(cond, f), nil, where)
	}
	vc.assumeCond(st, cond)
}

// checkNonNil: nil check for address a, remembered on this path.
func (vc *VC) checkNonNil(st *State, a, where string) {
	c := vc.nonnil(st, a)
	if c == "true" {
		return
	}
	vc.check(st, c, "nil", where)
	st.known["nonnil:"+a] = "1"
}

func (b *Block) NoFault() bool {
	for _, u := range b.Uses {
		if u == "nofault" {
			return true
		}
	}
	return false
}

func (vc *VC) failsCond(st *State) string {
	blk := st.ctx.blk
	if blk.FailsIff == nil {
		return "false"
	}
	t, err := vc.evalClause(st.ctx, st.ctx.old, st.ctx.old, blk.FailsIff.Text, nil)
	if err != nil {
		vc.fail(fmt.Errorf("%s:%d: fails_iff: %v", blk.FailsIff.File, blk.FailsIff.Line, err))
		return "false"
	}
	return t.S
}

func (vc *VC) fail(err error) {
	if vc.Err == nil {
		vc.Err = err
	}
}

// panicSite: an explicit panic is reached on this path.
func (vc *VC) panicSite(st *State, kind, where string) {
	if vc.pure > 0 {
		return
	}
	blk := st.ctx.blk
	internal := kind == "unreachable"
	switch {
	case blk.NoPanic || (internal && blk.NoFault()):
		vc.oblige(st, "nopanic."+kind, where, "false", nil, where)
	case blk.FailsIff != nil:
		vc.oblige(st, "fails_iff.only."+kind, where, vc.failsCond(st), nil, where)
	}
	vc.paths++
}

// ---------------------------------------------------------------------
// values

func (vc *VC) constVal(c *ssa.Const) T {
	t := c.Type()
	if c.Value == nil {
		return vc.zero(t)
	}
	switch c.Value.Kind() {
	case constant.Bool:
		return B(constant.BoolVal(c.Value))
	case constant.String:
		return vc.strlit(constant.StringVal(c.Value))
	case constant.Int:
		if b, ok := t.Underlying().(*types.Basic); ok && b.Info()&types.IsFloat != 0 {
			f, _ := constant.Float64Val(c.Value)
			if b.Kind() == types.Float32 {
				return F32c(float32(f))
			}
			return F64c(f)
		}
		s := c.Value.ExactString()
		if strings.HasPrefix(s, "-") {
			return T{S: "(- " + s[1:] + ")", Sort: SInt}
		}
		return T{S: s, Sort: SInt}
	case constant.Float:
		f, _ := constant.Float64Val(c.Value)
		if b, ok := t.Underlying().(*types.Basic); ok && b.Kind() == types.Float32 {
			return F32c(float32(f))
		}
		return F64c(f)
	}
	vc.note("unsupported constant " + c.String())
	return vc.fresh("const", vc.sortOf(t))
}

func (vc *VC) globalAddr(g *ssa.Global) T {
	k := g.Pkg.Pkg.Path() + "." + g.Name()
	a, ok := vc.globals[k]
	if !ok {
		a = -1000 - int64(len(vc.globals))*16
		vc.globals[k] = a
		vc.decls = append(vc.decls, fmt.Sprintf("(assert (= (root (- %d)) (- %d))) ; global %s", -a, -a, k))
	}
	r := I(a)
	elem := g.Type().(*types.Pointer).Elem()
	if isModStruct(vc, elem) == nil {
		if _, isArr := elem.Underlying().(*types.Array); !isArr {
			key := "G_" + mangle(k)
			vc.heapSort[key] = vc.sortOf(elem)
			if !vc.P.MutableGlobals[k] {
				vc.heapImm[key] = true
			}
			r.Loc = &Loc{Key: key, Base: r.S}
		}
	}
	return r
}

func (vc *VC) val(st *State, fr *Frame, v ssa.Value) T {
	switch x := v.(type) {
	case *ssa.Const:
		return vc.constVal(x)
	case *ssa.Global:
		return vc.globalAddr(x)
	case *ssa.Function:
		return vc.funcRef(x)
	case *ssa.FreeVar:
		for i, fv := range fr.fn.FreeVars {
			if fv == x {
				if i < len(fr.bindings) {
					return fr.bindings[i]
				}
			}
		}
	case *ssa.Builtin:
		return I(0)
	}
	if t, ok := fr.vals[v]; ok {
		return t
	}
	vc.note(fmt.Sprintf("unbound SSA value %s in %s", v.Name(), fr.fn.Name()))
	t := vc.fresh("unbound_"+mangle(v.Name()), vc.sortOf(v.Type()))
	fr.vals[v] = t
	return t
}

func (vc *VC) funcRef(f *ssa.Function) T {
	name := "fn_" + mangle(f.String())
	if !vc.declared[name] {
		vc.declare(name, nil, SInt)
		vc.decls = append(vc.decls, fmt.Sprintf("(assert (and (> %s 0) (<= (root %s) mark0)))", name, name))
	}
	return T{S: name, Sort: SInt}
}

// ---------------------------------------------------------------------
// loops

func (vc *VC) loops(fn *ssa.Function) *loopInfo {
	if li, ok := vc.loopsOf[fn]; ok {
		return li
	}
	li := &loopInfo{body: map[*ssa.BasicBlock]map[*ssa.BasicBlock]bool{}, number: map[*ssa.BasicBlock]int{}}
	for _, b := range fn.Blocks {
		for _, s := range b.Succs {
			if s.Dominates(b) { // back edge b -> s
				body := li.body[s]
				if body == nil {
					body = map[*ssa.BasicBlock]bool{s: true}
					li.body[s] = body
					li.headers = append(li.headers, s)
				}
				// natural loop: all nodes that reach b without passing s
				stack := []*ssa.BasicBlock{b}
				for len(stack) > 0 {
					n := stack[len(stack)-1]
					stack = stack[:len(stack)-1]
					if body[n] {
						continue
					}
					body[n] = true
					stack = append(stack, n.Preds...)
				}
			}
		}
	}
	sort.Slice(li.headers, func(i, j int) bool { return li.headers[i].Index < li.headers[j].Index })
	for i, h := range li.headers {
		li.number[h] = i + 1
	}
	vc.loopsOf[fn] = li
	return li
}

