package gvc

import (
	"fmt"
	"go/types"
	"os"
	"sort"
	"strings"

	"golang.org/x/tools/go/callgraph/rta"
	"golang.org/x/tools/go/ssa"
)

// reachableFromAPI: functions reachable (rapid type analysis) from the
// exported functions and methods of the facade package plus all package
// initialisers.  Frame and effect summaries are about these functions only.
func (P *Program) reachableFromAPI() map[*ssa.Function]bool {
	if P.reach != nil {
		return P.reach
	}
	var roots []*ssa.Function
	for _, fn := range P.AllFuncs {
		if fn.Parent() != nil || fn.Pkg == nil {
			continue
		}
		if fn.Name() == "init" || strings.HasPrefix(fn.Name(), "init#") {
			roots = append(roots, fn)
			continue
		}
		if fn.Pkg.Pkg.Path() == ModPath && fn.Object() != nil && fn.Object().Exported() {
			roots = append(roots, fn)
		}
	}
	// worklist: static callees; function values referenced in reachable code
	// become callable through dynamic calls of an identical signature made
	// in reachable code; interface invocations reach every module method of
	// that name
	reach := map[*ssa.Function]bool{}
	var referenced []*ssa.Function
	refSeen := map[*ssa.Function]bool{}
	var dynSigs []*types.Signature
	invoked := map[string]bool{}
	var work []*ssa.Function
	add := func(f *ssa.Function) {
		if f != nil && !reach[f] {
			reach[f] = true
			work = append(work, f)
		}
	}
	for _, r := range roots {
		add(r)
	}
	methodsByName := map[string][]*ssa.Function{}
	for _, fn := range P.AllFuncs {
		if fn.Signature.Recv() != nil {
			methodsByName[fn.Name()] = append(methodsByName[fn.Name()], fn)
		}
	}
	matchDyn := func() {
		for _, f := range referenced {
			if reach[f] {
				continue
			}
			for _, sg := range dynSigs {
				if types.Identical(stripRecv(f.Signature), sg) {
					add(f)
					break
				}
			}
		}
	}
	for len(work) > 0 {
		fn := work[len(work)-1]
		work = work[:len(work)-1]
		for _, b := range fn.Blocks {
			for _, in := range b.Instrs {
				// referenced function values
				for _, op := range in.Operands(nil) {
					if op == nil || *op == nil {
						continue
					}
					var f *ssa.Function
					switch x := (*op).(type) {
					case *ssa.Function:
						f = x
					case *ssa.MakeClosure:
						f = x.Fn.(*ssa.Function)
					}
					if f != nil {
						if ci, ok := in.(ssa.CallInstruction); ok && ci.Common().Value == *op {
							continue // direct call, handled below
						}
						if !refSeen[f] {
							refSeen[f] = true
							referenced = append(referenced, f)
						}
					}
				}
				if mc, ok := in.(*ssa.MakeClosure); ok {
					f := mc.Fn.(*ssa.Function)
					if !refSeen[f] {
						refSeen[f] = true
						referenced = append(referenced, f)
					}
				}
				ci, ok := in.(ssa.CallInstruction)
				if !ok {
					continue
				}
				c := ci.Common()
				if c.IsInvoke() {
					if !invoked[c.Method.Name()] {
						invoked[c.Method.Name()] = true
					}
					for _, m := range methodsByName[c.Method.Name()] {
						add(m)
					}
					continue
				}
				if callee := c.StaticCallee(); callee != nil {
					add(callee)
					continue
				}
				if _, isBuiltin := c.Value.(*ssa.Builtin); isBuiltin {
					continue
				}
				if sg, ok := c.Value.Type().Underlying().(*types.Signature); ok {
					dynSigs = append(dynSigs, sg)
				}
			}
		}
		matchDyn()
	}
	_ = rta.Analyze
	P.reach = reach
	return P.reach
}

func stripRecv(sg *types.Signature) *types.Signature {
	if sg.Recv() == nil {
		return sg
	}
	return types.NewSignatureType(nil, nil, nil, sg.Params(), sg.Results(), sg.Variadic())
}

// ---------------------------------------------------------------------
// Frame / effect / containment summaries (C12, C13, C14).
//
// These obligations are not SMT queries: they are modular summaries over
// go/ssa of the kind a frame condition or an `effects` clause states
// (which memory may be written, which functions may print, where panics are
// caught).  Each site found in the current sources is one obligation; a site
// is discharged by a justification that is itself visible in the code (held
// mutex, catch-all defer) or declared in a contract file (`global` block);
// anything else fails and is reported by name.

type ScanSite struct {
	Name   string
	Props  []string
	OK     bool
	Why    string // justification or reason of failure
	Assume string // non-empty: justification rests on this stated assumption
}

func (P *Program) initTime() map[*ssa.Function]bool {
	it := map[*ssa.Function]bool{}
	for _, fn := range P.AllFuncs {
		if fn.Name() == "init" && fn.Parent() == nil {
			it[fn] = true
		}
		if strings.HasPrefix(fn.Name(), "init#") && fn.Parent() == nil {
			it[fn] = true
		}
	}
	// anonymous functions that are only ever called (never stored) from
	// init-time code run at initialisation
	changed := true
	for changed {
		changed = false
		for _, fn := range P.AllFuncs {
			if it[fn] || fn.Parent() == nil || !it[fn.Parent()] {
				continue
			}
			refs := fn.Referrers()
			if refs == nil || len(*refs) == 0 {
				continue
			}
			only := true
			for _, r := range *refs {
				c, ok := r.(*ssa.Call)
				if !ok || c.Call.Value != ssa.Value(fn) {
					// MakeClosure that is immediately called
					if mc, isMC := r.(*ssa.MakeClosure); isMC {
						mrefs := mc.Referrers()
						okAll := mrefs != nil && len(*mrefs) > 0
						if okAll {
							for _, mr := range *mrefs {
								if cc, isCall := mr.(*ssa.Call); !isCall || cc.Call.Value != ssa.Value(mc) {
									if _, isDbg := mr.(*ssa.DebugRef); !isDbg {
										okAll = false
									}
								}
							}
						}
						if okAll {
							continue
						}
					}
					if _, isDbg := r.(*ssa.DebugRef); isDbg {
						continue
					}
					only = false
				}
			}
			if only {
				it[fn] = true
				changed = true
			}
		}
	}
	return it
}

type rootKind int

const (
	rLocal rootKind = iota
	rParam
	rGlobal
)

type rootInfo struct {
	kind rootKind
	name string // global name / captured variable
	src  ssa.Value // the *ssa.Parameter or *ssa.FreeVar for rParam
}

func topOf(fn *ssa.Function) *ssa.Function {
	for fn.Parent() != nil {
		fn = fn.Parent()
	}
	return fn
}

// rootOf classifies the object an address / reference value belongs to.
func (P *Program) rootOf(v ssa.Value, it map[*ssa.Function]bool, seen map[ssa.Value]bool) rootInfo {
	if seen[v] {
		return rootInfo{kind: rLocal}
	}
	seen[v] = true
	switch x := v.(type) {
	case *ssa.Global:
		return rootInfo{kind: rGlobal, name: shortPkg(x.Pkg.Pkg.Path()) + "." + x.Name()}
	case *ssa.FreeVar:
		fn := x.Parent()
		// a variable captured by a closure that was created during package
		// initialisation lives as long as the process
		if fn != nil && fn.Parent() != nil && it[fn.Parent()] {
			return rootInfo{kind: rGlobal, name: shortPkg(topOf(fn).Pkg.Pkg.Path()) + "." + funcKeyAnon(fn) + ":" + x.Name()}
		}
		return rootInfo{kind: rParam, name: x.Name(), src: x}
	case *ssa.Parameter:
		return rootInfo{kind: rParam, name: x.Name(), src: x}
	case *ssa.FieldAddr:
		return P.rootOf(x.X, it, seen)
	case *ssa.IndexAddr:
		return P.rootOf(x.X, it, seen)
	case *ssa.Slice:
		return P.rootOf(x.X, it, seen)
	case *ssa.ChangeType:
		return P.rootOf(x.X, it, seen)
	case *ssa.Convert:
		return P.rootOf(x.X, it, seen)
	case *ssa.ChangeInterface:
		return P.rootOf(x.X, it, seen)
	case *ssa.MakeInterface:
		return P.rootOf(x.X, it, seen)
	case *ssa.TypeAssert:
		return P.rootOf(x.X, it, seen)
	case *ssa.Extract:
		return P.rootOf(x.Tuple, it, seen)
	case *ssa.Lookup:
		return P.rootOf(x.X, it, seen)
	case *ssa.UnOp:
		if al, ok := x.X.(*ssa.Alloc); ok {
			if sv := spilledValue(al); sv != nil {
				return P.rootOf(sv, it, seen)
			}
		}
		return P.rootOf(x.X, it, seen) // value loaded from an object belongs to its footprint
	case *ssa.Phi:
		best := rootInfo{kind: rLocal}
		for _, e := range x.Edges {
			r := P.rootOf(e, it, seen)
			if r.kind > best.kind {
				best = r
			}
		}
		return best
	case *ssa.Call:
		if callee := x.Call.StaticCallee(); callee != nil && callee.Pkg != nil && inModule(callee.Pkg.Pkg) && callee.Blocks != nil && P.summaryDepth < 2 {
			P.summaryDepth++
			defer func() { P.summaryDepth-- }()
			// shallow summary: a function that returns (part of) a global
			for _, b := range callee.Blocks {
				for _, in := range b.Instrs {
					if ret, ok := in.(*ssa.Return); ok {
						for _, rv := range ret.Results {
							if r := P.rootOf(rv, it, map[ssa.Value]bool{}); r.kind == rGlobal {
								return r
							}
						}
					}
				}
			}
		}
		if bi, ok := x.Call.Value.(*ssa.Builtin); ok && bi.Name() == "append" {
			return P.rootOf(x.Call.Args[0], it, seen)
		}
		// what a library method hands out of a process-wide object
		// (sync.Pool.Get, sync.Map.Load, list.Front ...) is process-wide state
		if callee := x.Call.StaticCallee(); callee != nil && (callee.Pkg == nil || !inModule(callee.Pkg.Pkg)) &&
			callee.Signature.Recv() != nil && len(x.Call.Args) > 0 && refLike(x.Type()) {
			if r := P.rootOf(x.Call.Args[0], it, seen); r.kind == rGlobal {
				return r
			}
		}
	}
	return rootInfo{kind: rLocal}
}

// refLike: a value through which memory can be reached.
func refLike(t types.Type) bool {
	switch u := t.Underlying().(type) {
	case *types.Pointer, *types.Interface, *types.Slice, *types.Map:
		return true
	case *types.Tuple:
		for i := 0; i < u.Len(); i++ {
			if refLike(u.At(i).Type()) {
				return true
			}
		}
	}
	return false
}

func funcKeyAnon(fn *ssa.Function) string {
	if fn.Parent() == nil {
		return fn.Name()
	}
	return fn.Name()
}

func fnLabel(fn *ssa.Function) string {
	top := topOf(fn)
	if top.Pkg == nil {
		return fn.String()
	}
	if fn == top {
		return funcKey(fn)
	}
	return funcKey(top) + fn.Name()[len(top.Name()):]
}

// holdsGlobalMutex: the function locks a package-level mutex.
func holdsGlobalMutex(fn *ssa.Function) string {
	for _, b := range fn.Blocks {
		for _, in := range b.Instrs {
			c, ok := in.(*ssa.Call)
			if !ok {
				continue
			}
			callee := c.Call.StaticCallee()
			if callee == nil || (callee.Name() != "Lock" && callee.Name() != "RLock") {
				continue
			}
			if callee.Pkg == nil || callee.Pkg.Pkg.Path() != "sync" {
				continue
			}
			if len(c.Call.Args) > 0 {
				if g, ok := c.Call.Args[0].(*ssa.Global); ok {
					return g.Name()
				}
			}
		}
	}
	return ""
}

// ScanGlobalWrites: every write, outside package initialisation, to memory
// that belongs to a package-level variable (or to a variable captured by a
// closure created during initialisation).
func (P *Program) ScanGlobalWrites() []ScanSite {
	it := P.initTime()
	type key struct{ g, fn string }
	found := map[key]string{}
	reach := P.reachableFromAPI()
	for _, fn := range P.AllFuncs {
		if it[fn] || fn.Blocks == nil || !reach[fn] {
			continue
		}
		note := func(addr ssa.Value, what string) {
			r := P.rootOf(addr, it, map[ssa.Value]bool{})
			if r.kind == rGlobal {
				found[key{r.name, fnLabel(fn)}] = what
			}
		}
		for _, b := range fn.Blocks {
			for _, in := range b.Instrs {
				switch x := in.(type) {
				case *ssa.Store:
					note(x.Addr, "store")
				case *ssa.MapUpdate:
					note(x.Map, "map update")
				case *ssa.Call:
					if bi, ok := x.Call.Value.(*ssa.Builtin); ok {
						switch bi.Name() {
						case "copy", "delete":
							note(x.Call.Args[0], bi.Name())
						}
						continue
					}
					if callee := x.Call.StaticCallee(); callee != nil && callee.Pkg != nil && !inModule(callee.Pkg.Pkg) {
						p := callee.Pkg.Pkg.Path()
						if p == "sort" && len(x.Call.Args) > 0 && (callee.Name() == "Slice" || callee.Name() == "SliceStable" || callee.Name() == "Sort" || callee.Name() == "Stable" || callee.Name() == "Strings" || callee.Name() == "Ints" || callee.Name() == "Float64s") {
							note(x.Call.Args[0], "sort."+callee.Name()+" (in place)")
						}
					}
				}
			}
		}
	}
	// writes through parameters, propagated to call sites (fixpoint)
	wp := P.writesParams(it)
	for _, fn := range P.AllFuncs {
		if it[fn] || fn.Blocks == nil || !reach[fn] {
			continue
		}
		for _, b := range fn.Blocks {
			for _, in := range b.Instrs {
				ci, ok := in.(ssa.CallInstruction)
				if !ok {
					continue
				}
				callee := ci.Common().StaticCallee()
				if callee == nil || wp[callee] == nil {
					continue
				}
				for i, a := range ci.Common().Args {
					if wp[callee][i] {
						if r := P.rootOf(a, it, map[ssa.Value]bool{}); r.kind == rGlobal {
							found[key{r.name, fnLabel(fn)}] = "write through " + callee.Name()
						}
					}
				}
			}
		}
	}
	var sites []ScanSite
	for k, what := range found {
		s := ScanSite{Name: fmt.Sprintf("frames/global-write/%s@%s", k.g, k.fn), Props: []string{"C13", "C14"}}
		// justification 1: declared in a contract file
		if blk, ok := P.Blocks["global "+k.g]; ok {
			for _, w := range blk.Writers {
				if w == k.fn || strings.HasSuffix(k.fn, "."+w) {
					s.OK = true
					s.Why = "declared writer of " + k.g
					if len(blk.Notes) > 0 {
						s.Assume = strings.Join(blk.Notes, "; ")
					}
				}
			}
		}
		// justification 2: the writer holds a package-level mutex
		if !s.OK {
			var f *ssa.Function
			for _, cand := range P.AllFuncs {
				if fnLabel(cand) == k.fn {
					f = cand
				}
			}
			if f != nil {
				if m := holdsGlobalMutex(f); m != "" {
					s.OK = true
					s.Why = "written while holding mutex " + m
				}
			}
		}
		if !s.OK {
			s.Why = what + " to process-wide state outside package initialisation, not guarded by a mutex and not a declared writer"
		}
		sites = append(sites, s)
	}
	sort.Slice(sites, func(i, j int) bool { return sites[i].Name < sites[j].Name })
	return sites
}

// ---------------------------------------------------------------------
// effects: which functions write to standard output

func printsToStdout(c *ssa.Call) string {
	if bi, ok := c.Call.Value.(*ssa.Builtin); ok && (bi.Name() == "print" || bi.Name() == "println") {
		return "builtin " + bi.Name()
	}
	callee := c.Call.StaticCallee()
	if callee == nil || callee.Pkg == nil {
		return ""
	}
	if callee.Pkg.Pkg.Path() == "fmt" {
		switch callee.Name() {
		case "Print", "Println", "Printf":
			return "fmt." + callee.Name()
		case "Fprint", "Fprintln", "Fprintf":
			if len(c.Call.Args) > 0 {
				if stdStream(c.Call.Args[0]) {
					return "fmt." + callee.Name() + "(os.Stdout/Stderr)"
				}
			}
		}
	}
	if callee.Pkg.Pkg.Path() == "os" && callee.Signature.Recv() != nil && (callee.Name() == "Write" || callee.Name() == "WriteString") {
		if len(c.Call.Args) > 0 && stdStream(c.Call.Args[0]) {
			return "os.Stdout." + callee.Name()
		}
	}
	return ""
}

func stdStream(v ssa.Value) bool {
	switch x := v.(type) {
	case *ssa.MakeInterface:
		return stdStream(x.X)
	case *ssa.UnOp:
		if g, ok := x.X.(*ssa.Global); ok && g.Pkg.Pkg.Path() == "os" && (g.Name() == "Stdout" || g.Name() == "Stderr") {
			return true
		}
	}
	return false
}

// ScanStdout: every call that writes to the process's standard streams.
func (P *Program) ScanStdout() []ScanSite {
	var sites []ScanSite
	seen := map[string]bool{}
	reach := P.reachableFromAPI()
	for _, fn := range P.AllFuncs {
		if !reach[fn] {
			continue
		}
		for _, b := range fn.Blocks {
			for _, in := range b.Instrs {
				c, ok := in.(*ssa.Call)
				if !ok {
					continue
				}
				w := printsToStdout(c)
				if w == "" {
					continue
				}
				name := fmt.Sprintf("effects/stdout/%s@%s", strings.Fields(w)[0], P.effectLabel(fn))
				if seen[name] {
					continue
				}
				seen[name] = true
				s := ScanSite{Name: name, Props: []string{"C13"}}
				lab := P.effectLabel(fn)
				if blk, ok := P.Blocks[lab]; ok && blk.Effects == "stdout" {
					s.OK = true
					s.Why = "declared `effects stdout`"
				} else if blk, ok := P.Blocks["effects "+lab]; ok && blk.Effects == "stdout" {
					s.OK = true
					s.Why = "declared `effects stdout`"
					if len(blk.Notes) > 0 {
						s.Assume = strings.Join(blk.Notes, "; ")
					}
				} else {
					s.Why = w + " in a function without an `effects stdout` declaration"
				}
				sites = append(sites, s)
			}
		}
	}
	sort.Slice(sites, func(i, j int) bool { return sites[i].Name < sites[j].Name })
	return sites
}

// effectLabel: contract-block name of a function (closures bound to a
// package-level variable are known by that variable's name).
func (P *Program) effectLabel(fn *ssa.Function) string {
	for k, f := range P.Funcs {
		if f == fn && !strings.Contains(k, "$") {
			return k
		}
	}
	for k, f := range P.Funcs {
		if f == fn {
			return k
		}
	}
	return fnLabel(fn)
}

// ---------------------------------------------------------------------
// containment: exported entry points convert panics into their error result

// isRecoverHandler: the function calls recover() itself.
func isRecoverHandler(callee *ssa.Function) bool {
	if callee == nil || callee.Blocks == nil {
		return false
	}
	for _, b := range callee.Blocks {
		for _, in := range b.Instrs {
			if c, ok := in.(*ssa.Call); ok {
				if bi, ok := c.Call.Value.(*ssa.Builtin); ok && bi.Name() == "recover" {
					return true
				}
			}
		}
	}
	return false
}

var safeExternal = map[string]bool{"reflect.ValueOf": true, "reflect.TypeOf": true, "fmt.Errorf": true, "fmt.Sprintf": true, "fmt.Sprint": true,
	"strings.Contains": true, "errors.New": true, "time.Now": true}

type containCtx struct {
	P       *Program
	memo    map[*ssa.Function]string // "" = contained, otherwise the reason it is not
	trusted map[string]string        // function label -> note (assumed total)
	active  map[*ssa.Function]bool
}

// contained: no panic can leave fn.  Either (a) on every path from the
// entry a recover-based handler is deferred before the first instruction
// that may panic, or (b) the function contains no instruction that may
// panic at all, where calls to contained / assumed-total functions and
// dynamic calls of `Callable` values do not count.
func (cc *containCtx) contained(fn *ssa.Function) string {
	if r, ok := cc.memo[fn]; ok {
		return r
	}
	if fn.Blocks == nil {
		return "no body"
	}
	if cc.active[fn] {
		return "recursive"
	}
	cc.active[fn] = true
	defer delete(cc.active, fn)
	visited := map[*ssa.BasicBlock]bool{}
	var walk func(b *ssa.BasicBlock) string
	walk = func(b *ssa.BasicBlock) string {
		if visited[b] {
			return ""
		}
		visited[b] = true
		for _, in := range b.Instrs {
			switch x := in.(type) {
			case *ssa.Defer:
				if isRecoverHandler(x.Call.StaticCallee()) {
					return "" // everything after this point on this path is covered
				}
			default:
				if why := cc.risky(fn, in); why != "" {
					return why
				}
			}
		}
		for _, sc := range b.Succs {
			if why := walk(sc); why != "" {
				return why
			}
		}
		return ""
	}
	r := walk(fn.Blocks[0])
	cc.memo[fn] = r
	return r
}

// risky: the instruction may panic (outside a catch-all scope).
func (cc *containCtx) risky(fn *ssa.Function, in ssa.Instruction) string {
	switch x := in.(type) {
	case *ssa.Panic:
		return "panic"
	case *ssa.Go:
		return "go statement"
	case *ssa.TypeAssert:
		if !x.CommaOk {
			return "type assertion without comma-ok"
		}
	case *ssa.Slice:
		if _, fresh := x.X.(*ssa.Alloc); fresh && x.Low == nil && x.High == nil && x.Max == nil {
			return "" // slice of a freshly allocated array (composite literal)
		}
		return "slice expression"
	case *ssa.IndexAddr:
		if al, fresh := x.X.(*ssa.Alloc); fresh {
			if at, ok := al.Type().(*types.Pointer).Elem().Underlying().(*types.Array); ok {
				if c, isC := x.Index.(*ssa.Const); isC && c.Value != nil && c.Int64() >= 0 && c.Int64() < at.Len() {
					return "" // element of a freshly allocated array, constant in-range index
				}
			}
		}
		return "index expression"
	case *ssa.Index:
		return "index expression"
	case *ssa.Lookup:
		if _, isMap := x.X.Type().Underlying().(*types.Map); !isMap {
			return "string index"
		}
	case *ssa.BinOp:
		if (x.Op.String() == "/" || x.Op.String() == "%") && vcIsInt(x.X.Type()) {
			if _, isConst := x.Y.(*ssa.Const); !isConst {
				return "integer division"
			}
		}
	case *ssa.MapUpdate:
		if _, fresh := x.Map.(*ssa.MakeMap); !fresh {
			return "map update (nil map)"
		}
	case ssa.CallInstruction:
		c := x.Common()
		if bi, ok := c.Value.(*ssa.Builtin); ok {
			switch bi.Name() {
			case "len", "cap", "append", "recover", "print", "println", "min", "max":
				return ""
			}
			return "builtin " + bi.Name()
		}
		if c.IsInvoke() {
			if c.Method.Name() == "Error" || c.Method.Name() == "String" {
				return ""
			}
			return "interface method call " + c.Method.Name()
		}
		callee := c.StaticCallee()
		if callee == nil {
			// dynamic call: only values of the facade's Callable type
			if n, ok := c.Value.Type().(*types.Named); ok && n.Obj().Name() == "Callable" && n.Obj().Pkg() != nil && n.Obj().Pkg().Path() == ModPath {
				if why := cc.callablesContained(); why != "" {
					return "call of a Callable: " + why
				}
				return ""
			}
			return "dynamic call"
		}
		if callee.Pkg == nil || !inModule(callee.Pkg.Pkg) {
			name := cc.P.extNameOf(callee)
			if safeExternal[name] {
				return ""
			}
			return "call of external " + name
		}
		lab := fnLabel(callee)
		if _, ok := cc.trusted[lab]; ok {
			return ""
		}
		if why := cc.contained(callee); why != "" {
			return "call of " + lab + " (" + why + ")"
		}
	}
	return ""
}

func (P *Program) extNameOf(callee *ssa.Function) string {
	if callee.Object() != nil && callee.Object().Pkg() != nil {
		if recv := callee.Signature.Recv(); recv != nil {
			return "(" + types.TypeString(recv.Type(), func(p *types.Package) string { return p.Path() }) + ")." + callee.Name()
		}
		return callee.Object().Pkg().Path() + "." + callee.Name()
	}
	return callee.String()
}

// callablesContained: every function converted to the facade's Callable
// type is contained.
func (cc *containCtx) callablesContained() string {
	for _, fn := range cc.P.AllFuncs {
		for _, b := range fn.Blocks {
			for _, in := range b.Instrs {
				ct, ok := in.(*ssa.ChangeType)
				if !ok {
					continue
				}
				n, ok := ct.Type().(*types.Named)
				if !ok || n.Obj().Name() != "Callable" || n.Obj().Pkg() == nil || n.Obj().Pkg().Path() != ModPath {
					continue
				}
				var f *ssa.Function
				switch v := ct.X.(type) {
				case *ssa.MakeClosure:
					f = v.Fn.(*ssa.Function)
				case *ssa.Function:
					f = v
				}
				if f == nil {
					return "a Callable is built from an unknown function value in " + fnLabel(fn)
				}
				if why := cc.contained(f); why != "" {
					return fnLabel(f) + " is not contained (" + why + ")"
				}
			}
		}
	}
	return ""
}

// ScanContainment: the API functions named in `entry` blocks of the
// contract files never let a panic escape.
func (P *Program) ScanContainment() []ScanSite {
	cc := &containCtx{P: P, memo: map[*ssa.Function]string{}, trusted: map[string]string{}, active: map[*ssa.Function]bool{}}
	for _, blk := range P.BlockL {
		if blk.Kind == "entry" && blk.Trusted {
			cc.trusted[strings.TrimPrefix(blk.Name, "entry ")] = strings.Join(blk.Notes, "; ")
		}
	}
	var sites []ScanSite
	for _, blk := range P.BlockL {
		if blk.Kind != "entry" {
			continue
		}
		name := strings.TrimPrefix(blk.Name, "entry ")
		s := ScanSite{Name: "containment/" + name, Props: blk.Props}
		fn := P.Funcs[name]
		if fn == nil {
			s.Why = "no such function"
			sites = append(sites, s)
			continue
		}
		if blk.Trusted {
			s.OK = true
			s.Why = "assumed total"
			s.Assume = "assumed never to panic: " + name + " (" + strings.Join(blk.Notes, "; ") + ")"
			sites = append(sites, s)
			continue
		}
		if why := cc.contained(fn); why == "" {
			s.OK = true
			s.Why = "every instruction that may panic is preceded by a deferred recover handler, or is a call of a function with that property"
		} else {
			s.Why = "a panic can escape: " + why
		}
		sites = append(sites, s)
	}
	return sites
}

// ScanInvocationWrites (C13, C14, C02): a compiled expression is a Go closure
// (compiler.Closure: func(*val.Env) *val.Val, or a thunk / built-in of type
// val.IFun).  Whatever such a closure writes when it is INVOKED must be
// allocated by that invocation or reachable from its argument: memory it
// reaches through a captured variable was allocated when the expression was
// compiled and is shared by every invocation of that expression (concurrent or
// re-entrant ones included) - hidden per-expression state.  One site per
// closure and captured variable written through.
func (P *Program) ScanInvocationWrites() []ScanSite {
	it := P.initTime()
	reach := P.reachableFromAPI()
	wp := P.writesParams(it)
	isRuntimeClosure := func(fn *ssa.Function) bool {
		if fn.Parent() == nil || it[fn] {
			return false
		}
		sg := fn.Signature
		if sg.Results().Len() != 1 || sg.Results().At(0).Type().String() != "*"+ModPath+"/val.Val" {
			return false
		}
		if sg.Params().Len() != 1 {
			return false
		}
		pt := sg.Params().At(0).Type().String()
		if pt != "*"+ModPath+"/val.Env" && pt != "[]*"+ModPath+"/val.Val" {
			return false
		}
		// only closures handed out by a closure factory (a function that
		// returns a function: compile0, makeCallClosure, vm.Compile ...) outlive
		// the call that created them; a closure made and used inside one
		// evaluation (the VM's thunk forcer) captures that evaluation's own state
		par := fn.Parent().Signature.Results()
		for i := 0; i < par.Len(); i++ {
			if _, ok := par.At(i).Type().Underlying().(*types.Signature); ok {
				return true
			}
		}
		return false
	}
	found := map[string]string{}
	for _, fn := range P.AllFuncs {
		if fn.Blocks == nil || !reach[fn] || !isRuntimeClosure(fn) {
			continue
		}
		note := func(addr ssa.Value, what string) {
			r := P.rootOf(addr, it, map[ssa.Value]bool{})
			if r.kind == rParam {
				if fv, ok := r.src.(*ssa.FreeVar); ok {
					// assigning the captured variable itself is covered too (the cell is shared)
					found[fnLabel(fn)+":"+fv.Name()] = what
				}
			}
		}
		for _, b := range fn.Blocks {
			for _, in := range b.Instrs {
				switch x := in.(type) {
				case *ssa.Store:
					note(x.Addr, "store")
				case *ssa.MapUpdate:
					note(x.Map, "map update")
				case *ssa.Call:
					if bi, ok := x.Call.Value.(*ssa.Builtin); ok {
						if bi.Name() == "copy" || bi.Name() == "delete" {
							note(x.Call.Args[0], bi.Name())
						}
						continue
					}
					if callee := x.Call.StaticCallee(); callee != nil && wp[callee] != nil {
						for i, a := range x.Call.Args {
							if wp[callee][i] {
								note(a, "write through "+callee.Name())
							}
						}
					}
				}
			}
		}
	}
	var sites []ScanSite
	for k, what := range found {
		sites = append(sites, ScanSite{Name: "frames/invocation-write/" + k, Props: []string{"C13", "C14", "C02", "C03"},
			Why: what + " to memory reached through a captured variable: allocated when the expression was compiled, shared by all its invocations"})
	}
	sort.Slice(sites, func(i, j int) bool { return sites[i].Name < sites[j].Name })
	if len(sites) == 0 {
		sites = append(sites, ScanSite{Name: "frames/invocation-write", Props: []string{"C13", "C14", "C02", "C03"}, OK: true,
			Why: "no compiled closure (func(*val.Env) *val.Val / val.IFun created outside initialisation) writes through a captured variable"})
	}
	return sites
}

// ScanFuncTypes: a named function type with a `functype` contract block is a
// behavioural interface.  A dynamic call through a value of that type
// assumes the block's contract; so every function that is converted to the
// type must prove it: it has a contract block that `implements` the type
// (the block then carries the type's postconditions and frame as
// obligations).  One site per conversion found in the sources.
func (P *Program) ScanFuncTypes() []ScanSite {
	var sites []ScanSite
	fts := map[string]*Block{}
	for _, b := range P.BlockL {
		if b.Kind == "functype" && (b.HasMod || len(b.Ensures) > 0) {
			fts[b.Name] = b
		}
	}
	if len(fts) == 0 {
		return nil
	}
	count := map[string]int{}
	for _, fn := range P.AllFuncs {
		for _, b := range fn.Blocks {
			for _, in := range b.Instrs {
				var to types.Type
				var from ssa.Value
				switch x := in.(type) {
				case *ssa.ChangeType:
					to, from = x.Type(), x.X
				default:
					continue
				}
				n, ok := to.(*types.Named)
				if !ok || n.Obj().Pkg() == nil {
					continue
				}
				key := shortPkg(n.Obj().Pkg().Path()) + "." + n.Obj().Name()
				ft, ok := fts[key]
				if !ok {
					continue
				}
				count[key]++
				var f *ssa.Function
				switch v := from.(type) {
				case *ssa.MakeClosure:
					f = v.Fn.(*ssa.Function)
				case *ssa.Function:
					f = v
				}
				s := ScanSite{Props: ft.Props}
				if f == nil {
					s.Name = fmt.Sprintf("functype/%s/%s#%d", key, fnLabel(fn), count[key])
					s.Why = "a value of type " + key + " is built from an unknown function value in " + fnLabel(fn)
					sites = append(sites, s)
					continue
				}
				label := fnLabel(f)
				s.Name = "functype/" + key + "/" + label
				blk := P.Blocks[label]
				impl := false
				if blk != nil {
					for _, t := range blk.Implements {
						impl = impl || t == key || shortPkg(blk.PkgPath)+"."+t == key
					}
				}
				switch {
				case blk == nil:
					s.Why = label + " is used as a " + key + " but has no contract block"
				case !impl:
					s.Why = label + " is used as a " + key + " but its contract block does not say `implements " + n.Obj().Name() + "`"
				case blk.Trusted:
					s.OK = true
					s.Why = "implements the function type's contract (trusted block)"
					s.Assume = label + " is assumed to satisfy the contract of " + key
				default:
					s.OK = true
					s.Why = "its contract block implements the function type's contract (postconditions and frame are obligations of " + label + ")"
				}
				sites = append(sites, s)
			}
		}
	}
	return sites
}

// ScanObligations turns the scan sites relevant to a property into
// obligations (discharged syntactically, or failing with goal `false`).
func (P *Program) ScanObligations(prop string) (*Result, []string) {
	var sites []ScanSite
	sites = append(sites, P.ScanGlobalWrites()...)
	sites = append(sites, P.ScanEngineWrites()...)
	sites = append(sites, P.ScanStdout()...)
	sites = append(sites, P.ScanContainment()...)
	sites = append(sites, P.ScanImmutable()...)
	sites = append(sites, P.ScanFuncTypes()...)
	sites = append(sites, P.ScanInvocationWrites()...)
	r := &Result{Block: &Block{Kind: "scan", Name: "frames"}}
	var assumes []string
	for _, s := range sites {
		if !hasProp(s.Props, prop) {
			continue
		}
		o := &Oblig{Name: s.Name, Kind: "scan", Props: s.Props, Goal: "false", Where: s.Why}
		if s.OK {
			o.Trivial = true
			o.Goal = "true"
			o.Ans = Answer{Result: "unsat", Solver: "scan: " + s.Why}
			if s.Assume != "" {
				assumes = append(assumes, s.Name+": "+s.Assume)
			}
		} else {
			o.Trivial = true
			o.Ans = Answer{Result: "sat", Solver: "scan", Raw: s.Why, Model: s.Why}
		}
		r.Obligs = append(r.Obligs, o)
	}
	return r, assumes
}

// ---------------------------------------------------------------------
// immutability: fields declared `immutable` in the spec prelude are only
// written by the constructor of the object, i.e. through a pointer that was
// allocated in the same function; maps held in such fields are only updated
// in the function that made them.

func immutableProps(pkg string) []string {
	switch pkg {
	case "types":
		return []string{"C01", "C05", "C07", "C13", "C16", "C17"}
	case "val":
		return []string{"C01", "C02", "C03", "C04", "C13", "C18"}
	case "ast":
		return []string{"C10", "C13"}
	case "sql":
		return []string{"C20"}
	case "vm":
		return []string{"C03", "C04"}
	}
	return []string{"C01"}
}

func allocBase(v ssa.Value) bool {
	for i := 0; i < 12; i++ {
		switch x := v.(type) {
		case *ssa.Alloc:
			return true
		case *ssa.FieldAddr:
			v = x.X
		case *ssa.ChangeType:
			v = x.X
		case *ssa.Convert:
			v = x.X
		default:
			return false
		}
	}
	return false
}

func (P *Program) ScanImmutable() []ScanSite {
	type decl struct{ pkg, st, fld string }
	var decls []decl
	for _, im := range P.Immutable {
		parts := strings.Split(im, ".")
		if len(parts) == 3 {
			decls = append(decls, decl{parts[0], parts[1], parts[2]})
		}
	}
	isDecl := func(t types.Type, field string) (decl, bool) {
		n, ok := t.(*types.Named)
		if !ok || n.Obj().Pkg() == nil {
			return decl{}, false
		}
		for _, d := range decls {
			if shortPkg(n.Obj().Pkg().Path()) == d.pkg && n.Obj().Name() == d.st && (d.fld == field || d.fld == "*") {
				return d, true
			}
		}
		return decl{}, false
	}
	// map types held in immutable fields
	frozenMaps := map[string]decl{}
	for _, d := range decls {
		for path, sp := range P.ByPath {
			if shortPkg(path) != d.pkg {
				continue
			}
			obj := sp.Pkg.Scope().Lookup(d.st)
			if obj == nil {
				continue
			}
			st, ok := obj.Type().Underlying().(*types.Struct)
			if !ok {
				continue
			}
			for i := 0; i < st.NumFields(); i++ {
				if st.Field(i).Name() == d.fld {
					if _, isMap := st.Field(i).Type().Underlying().(*types.Map); isMap {
						frozenMaps[typeKey(st.Field(i).Type())] = d
					}
				}
			}
		}
	}
	bad := map[string]ScanSite{}
	okCount := map[string]int{}
	// global maps whose contents are frozen after package initialisation
	type gdecl struct{ pkg, name string }
	globalMaps := map[string]gdecl{}
	for _, im := range P.Immutable {
		parts := strings.Split(im, ".")
		if len(parts) != 2 {
			continue
		}
		for path, sp := range P.ByPath {
			if shortPkg(path) == parts[0] {
				if obj := sp.Pkg.Scope().Lookup(parts[1]); obj != nil {
					if _, ok := obj.Type().Underlying().(*types.Map); ok {
						globalMaps[typeKey(obj.Type())] = gdecl{parts[0], parts[1]}
					}
				}
			}
		}
	}
	it := P.initTime()
	gmOK := map[string]int{}
	for _, fn := range P.AllFuncs {
		for _, b := range fn.Blocks {
			for _, in := range b.Instrs {
				var mt types.Type
				switch x := in.(type) {
				case *ssa.MapUpdate:
					mt = x.Map.Type()
				case *ssa.Call:
					if bi, ok := x.Call.Value.(*ssa.Builtin); ok && bi.Name() == "delete" {
						mt = x.Call.Args[0].Type()
					}
				}
				if mt == nil {
					continue
				}
				d, ok := globalMaps[typeKey(mt)]
				if !ok {
					continue
				}
				key := fmt.Sprintf("immutable/%s.%s[*]", d.pkg, d.name)
				if it[fn] {
					gmOK[key]++
					continue
				}
				name := key + "@" + fnLabel(fn)
				bad[name] = ScanSite{Name: name, Props: immutableProps(d.pkg), Why: "a map of the type of this frozen global map is updated outside package initialisation"}
			}
		}
	}
	for _, fn := range P.AllFuncs {
		for _, b := range fn.Blocks {
			for _, in := range b.Instrs {
				switch x := in.(type) {
				case *ssa.Store:
					if ia, isIdx := x.Addr.(*ssa.IndexAddr); isIdx {
						// element of a slice that is held in an immutable field
						if ld, isLoad := ia.X.(*ssa.UnOp); isLoad {
							if fa2, isFA := ld.X.(*ssa.FieldAddr); isFA {
								if pt2, ok := fa2.X.Type().Underlying().(*types.Pointer); ok {
									if st2, ok := pt2.Elem().Underlying().(*types.Struct); ok {
										if d, isd := isDecl(pt2.Elem(), st2.Field(fa2.Field).Name()); isd && !allocBase(fa2.X) {
											name := fmt.Sprintf("immutable/%s.%s.%s[i]@%s", d.pkg, d.st, d.fld, fnLabel(fn))
											bad[name] = ScanSite{Name: name, Props: immutableProps(d.pkg), Why: "element of a slice held in an immutable field is overwritten"}
										}
									}
								}
							}
						}
						continue
					}
					fa, ok := x.Addr.(*ssa.FieldAddr)
					if !ok {
						continue
					}
					pt, ok := fa.X.Type().Underlying().(*types.Pointer)
					if !ok {
						continue
					}
					st, ok := pt.Elem().Underlying().(*types.Struct)
					if !ok {
						continue
					}
					d, isd := isDecl(pt.Elem(), st.Field(fa.Field).Name())
					if !isd {
						continue
					}
					key := fmt.Sprintf("immutable/%s.%s.%s", d.pkg, d.st, d.fld)
					if allocBase(fa.X) {
						okCount[key]++
						continue
					}
					name := key + "@" + fnLabel(fn)
					bad[name] = ScanSite{Name: name, Props: immutableProps(d.pkg), Why: "field declared immutable is written through a pointer that was not allocated in this function"}
				case *ssa.MapUpdate:
					d, isd := frozenMaps[typeKey(x.Map.Type())]
					if !isd {
						continue
					}
					key := fmt.Sprintf("immutable/%s.%s.%s[*]", d.pkg, d.st, d.fld)
					fresh := false
					switch m := x.Map.(type) {
					case *ssa.MakeMap:
						fresh = true
					case *ssa.UnOp:
						// map loaded from the field of an object allocated here
						if fa, ok := m.X.(*ssa.FieldAddr); ok && allocBase(fa.X) {
							fresh = true
						}
					}
					if fresh {
						okCount[key]++
						continue
					}
					name := key + "@" + fnLabel(fn)
					bad[name] = ScanSite{Name: name, Props: immutableProps(d.pkg), Why: "map held in an immutable field is updated outside the function that made it"}
				}
			}
		}
	}
	var sites []ScanSite
	for _, d := range decls {
		key := fmt.Sprintf("immutable/%s.%s.%s", d.pkg, d.st, d.fld)
		sites = append(sites, ScanSite{Name: key, Props: immutableProps(d.pkg), OK: true,
			Why: fmt.Sprintf("%d store(s), all through pointers allocated in the storing function", okCount[key]+okCount[key+"[*]"])})
	}
	for _, d := range globalMaps {
		key := fmt.Sprintf("immutable/%s.%s[*]", d.pkg, d.name)
		sites = append(sites, ScanSite{Name: key, Props: immutableProps(d.pkg), OK: true, Why: fmt.Sprintf("%d update(s), all during package initialisation", gmOK[key])})
	}
	for _, s := range bad {
		sites = append(sites, s)
	}
	sort.Slice(sites, func(i, j int) bool { return sites[i].Name < sites[j].Name })
	return sites
}


// writesParams: for every module function, the parameter positions through
// which it (or a callee) writes memory.
func (P *Program) writesParams(it map[*ssa.Function]bool) map[*ssa.Function]map[int]bool {
	wp := map[*ssa.Function]map[int]bool{}
	paramIdx := func(fn *ssa.Function, v ssa.Value) int {
		// trace back to a parameter
		seen := map[ssa.Value]bool{}
		for i := 0; i < 16 && v != nil && !seen[v]; i++ {
			seen[v] = true
			switch x := v.(type) {
			case *ssa.Parameter:
				for k, p := range fn.Params {
					if p == x {
						return k
					}
				}
				return -1
			case *ssa.FieldAddr:
				v = x.X
			case *ssa.IndexAddr:
				v = x.X
			case *ssa.Slice:
				v = x.X
			case *ssa.ChangeType:
				v = x.X
			case *ssa.Convert:
				v = x.X
			case *ssa.UnOp:
				if al, ok := x.X.(*ssa.Alloc); ok {
					// a parameter spilled into a cell (captured by a closure)
					v = spilledValue(al)
				} else {
					v = x.X
				}
			case *ssa.MakeInterface:
				v = x.X
			case *ssa.ChangeInterface:
				v = x.X
			default:
				return -1
			}
		}
		return -1
	}
	mark := func(fn *ssa.Function, i int) bool {
		if i < 0 {
			return false
		}
		if wp[fn] == nil {
			wp[fn] = map[int]bool{}
		}
		if wp[fn][i] {
			return false
		}
		wp[fn][i] = true
		return true
	}
	changed := true
	for changed {
		changed = false
		for _, fn := range P.AllFuncs {
			for _, b := range fn.Blocks {
				for _, in := range b.Instrs {
					switch x := in.(type) {
					case *ssa.Store:
						if mark(fn, paramIdx(fn, x.Addr)) {
							changed = true
						}
					case *ssa.MapUpdate:
						if mark(fn, paramIdx(fn, x.Map)) {
							changed = true
						}
					case *ssa.Call:
						c := x.Call
						if bi, ok := c.Value.(*ssa.Builtin); ok {
							if bi.Name() == "copy" || bi.Name() == "delete" {
								if mark(fn, paramIdx(fn, c.Args[0])) {
									changed = true
								}
							}
							continue
						}
						callee := c.StaticCallee()
						if callee == nil {
							continue
						}
						if callee.Pkg != nil && callee.Pkg.Pkg.Path() == "sort" && len(c.Args) > 0 {
							switch callee.Name() {
							case "Slice", "SliceStable", "Sort", "Stable", "Strings", "Ints", "Float64s":
								if mark(fn, paramIdx(fn, c.Args[0])) {
									changed = true
								}
							}
							continue
						}
						for i, a := range c.Args {
							if wp[callee] != nil && wp[callee][i] {
								if mark(fn, paramIdx(fn, a)) {
									changed = true
								}
							}
						}
					}
				}
			}
		}
	}
	return wp
}

func (P *Program) DebugScan() {
	it := P.initTime()
	wp := P.writesParams(it)
	reach := P.reachableFromAPI()
	for _, fn := range P.AllFuncs {
		if strings.Contains(fn.String(), "oper.Sort") || strings.Contains(fn.String(), "newLexicon") {
			fmt.Println(fn.String(), "reach", reach[fn], "init", it[fn], "wp", wp[fn])
		}
	}
}


// spilledValue: the single value stored into a local cell (a variable that
// go/ssa keeps in memory because a closure captures it); nil if unknown.
func spilledValue(al *ssa.Alloc) ssa.Value {
	refs := al.Referrers()
	if refs == nil {
		return nil
	}
	var val ssa.Value
	n := 0
	for _, r := range *refs {
		if st, ok := r.(*ssa.Store); ok && st.Addr == ssa.Value(al) {
			val = st.Val
			n++
		}
	}
	if n == 1 {
		return val
	}
	return nil
}

func vcIsInt(t types.Type) bool {
	b, ok := t.Underlying().(*types.Basic)
	return ok && b.Info()&types.IsInteger != 0
}


// ---------------------------------------------------------------------
// engine state (C14): after its first compilation an engine (*yae.Expr) is
// only read by Compile / Parse / CompileExpr and by the Callables it
// produced.  A write through a reference that is rooted in the engine, made
// by a function reachable from those entry points (the subtree of the
// declared initialiser excluded), is a site; it must be a declared writer.

func (P *Program) ScanEngineWrites() []ScanSite {
	it := P.initTime()
	isEngine := func(t types.Type) bool {
		if p, ok := t.(*types.Pointer); ok {
			if n, ok := p.Elem().(*types.Named); ok && n.Obj().Name() == "Expr" && n.Obj().Pkg() != nil && n.Obj().Pkg().Path() == ModPath {
				return true
			}
		}
		return false
	}
	decl := P.Blocks["global yae.Expr"]
	if decl == nil {
		if os.Getenv("GVC_DEBUG") != "" {
			for k := range P.Blocks {
				if strings.HasPrefix(k, "global") {
					fmt.Println("block", k)
				}
			}
		}
		return nil // not declared: the summary is not requested
	}
	initialisers := map[string]bool{}
	for _, n := range decl.Uses {
		initialisers[n] = true
	}
	// reachability from the compile / invoke entry points
	var roots []*ssa.Function
	for _, fn := range P.AllFuncs {
		lab := fnLabel(fn)
		switch lab {
		case "yae.(*Expr).Compile", "yae.(*Expr).Parse", "yae.(*Expr).CompileExpr", "yae.(*Expr).MustCompile", "yae.(*Expr).envCheck":
			roots = append(roots, fn)
		}
	}
	reach := map[*ssa.Function]bool{}
	var work []*ssa.Function
	add := func(f *ssa.Function) {
		if f == nil || reach[f] || f.Blocks == nil || it[f] {
			return
		}
		if initialisers[fnLabel(f)] {
			return
		}
		reach[f] = true
		work = append(work, f)
	}
	for _, r := range roots {
		add(r)
	}
	for len(work) > 0 {
		fn := work[len(work)-1]
		work = work[:len(work)-1]
		for _, b := range fn.Blocks {
			for _, in := range b.Instrs {
				if mc, ok := in.(*ssa.MakeClosure); ok {
					add(mc.Fn.(*ssa.Function))
				}
				if ci, ok := in.(ssa.CallInstruction); ok {
					add(ci.Common().StaticCallee())
				}
			}
		}
	}
	// engine-rooted parameters / free variables (fixpoint)
	rooted := map[ssa.Value]bool{}
	for fn := range reach {
		for _, p := range fn.Params {
			if isEngine(p.Type()) {
				rooted[p] = true
			}
		}
	}
	engineRoot := func(v ssa.Value) bool {
		r := P.rootOf(v, it, map[ssa.Value]bool{})
		return r.kind == rParam && r.src != nil && rooted[r.src]
	}
	changed := true
	for changed {
		changed = false
		for fn := range reach {
			for _, b := range fn.Blocks {
				for _, in := range b.Instrs {
					switch x := in.(type) {
					case *ssa.MakeClosure:
						cf := x.Fn.(*ssa.Function)
						for i, bnd := range x.Bindings {
							src := bnd
							if al, ok := bnd.(*ssa.Alloc); ok {
								if sv := spilledValue(al); sv != nil {
									src = sv
								}
							}
							if (engineRoot(src) || (func() bool { p, ok := src.(*ssa.Parameter); return ok && rooted[p] })()) && !rooted[cf.FreeVars[i]] {
								rooted[cf.FreeVars[i]] = true
								changed = true
							}
						}
					case ssa.CallInstruction:
						callee := x.Common().StaticCallee()
						if callee == nil || !reach[callee] {
							continue
						}
						for i, a := range x.Common().Args {
							if i < len(callee.Params) && engineRoot(a) && !rooted[callee.Params[i]] {
								rooted[callee.Params[i]] = true
								changed = true
							}
						}
					}
				}
			}
		}
	}
	wp := P.writesParams(it)
	found := map[string]string{}
	for fn := range reach {
		lab := fnLabel(fn)
		note := func(addr ssa.Value, what string) {
			if engineRoot(addr) {
				found[lab] = what
			}
		}
		for _, b := range fn.Blocks {
			for _, in := range b.Instrs {
				switch x := in.(type) {
				case *ssa.Store:
					// writing a local cell that merely holds the engine pointer is not a write to the engine
					if _, isAlloc := x.Addr.(*ssa.Alloc); isAlloc {
						continue
					}
					note(x.Addr, "store")
				case *ssa.MapUpdate:
					note(x.Map, "map update")
				case *ssa.Call:
					if bi, ok := x.Call.Value.(*ssa.Builtin); ok {
						if bi.Name() == "copy" || bi.Name() == "delete" {
							note(x.Call.Args[0], bi.Name())
						}
						continue
					}
					callee := x.Call.StaticCallee()
					if callee == nil {
						continue
					}
					if callee.Pkg != nil && callee.Pkg.Pkg.Path() == "sort" && len(x.Call.Args) > 0 {
						note(x.Call.Args[0], "sort (in place)")
						continue
					}
					// a callee outside the reachable set (e.g. external) that writes through a parameter
					if !reach[callee] && wp[callee] != nil && !initialisers[fnLabel(callee)] {
						for i, a := range x.Call.Args {
							if wp[callee][i] {
								note(a, "write through "+callee.Name())
							}
						}
					}
				}
			}
		}
	}
	var sites []ScanSite
	for lab, what := range found {
		s := ScanSite{Name: "frames/engine-write@" + lab, Props: []string{"C14", "C13"}}
		for _, w := range decl.Writers {
			if w == lab || strings.HasSuffix(lab, "."+w) {
				s.OK = true
				s.Why = "declared writer of engine state"
				s.Assume = strings.Join(decl.Notes, "; ")
			}
		}
		if !s.OK {
			s.Why = what + " to memory reachable from the engine (*yae.Expr) on the compile / invoke path, outside the declared initialiser"
		}
		sites = append(sites, s)
	}
	sort.Slice(sites, func(i, j int) bool { return sites[i].Name < sites[j].Name })
	return sites
}
