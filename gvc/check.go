package gvc

import (
	"context"
	"syscall"
	"encoding/json"
	"flag"
	"fmt"
	"os"
	"os/exec"
	"path/filepath"
	"regexp"
	"sort"
	"strconv"
	"strings"
	"time"
)

// ---------------------------------------------------------------------
// known findings

type Finding struct {
	Property   string `json:"property"`
	ID         string `json:"id"`
	Obligation string `json:"obligation"` // regexp over obligation names (deductive) or finding key (bounded)
	What       string `json:"what"`
	Witness    string `json:"witness"`
	Status     string `json:"status"` // open | fixed
	Commit     string `json:"commit,omitempty"`
}

type FindingsFile struct {
	Findings []Finding `json:"findings"`
}

func loadFindings(path string) []Finding {
	b, err := os.ReadFile(path)
	if err != nil {
		return nil
	}
	var ff FindingsFile
	if err := json.Unmarshal(b, &ff); err != nil {
		fmt.Println("known_findings.json:", err)
		os.Exit(2)
	}
	return ff.Findings
}

func matchFinding(fs []Finding, prop, name string) *Finding {
	for i := range fs {
		f := &fs[i]
		if f.Status != "open" || f.Property != prop || f.Obligation == "" {
			continue
		}
		if ok, _ := regexp.MatchString("^(?:"+f.Obligation+")$", name); ok {
			return f
		}
	}
	return nil
}

// ---------------------------------------------------------------------
// property registry (what the bounded stand-in covers, level, notes)

type PropInfo struct {
	ID      string   `json:"id"`
	Level   string   `json:"level"`
	Bounded bool     `json:"bounded"`
	Notes   []string `json:"notes"`
}

func hasProp(props []string, p string) bool {
	for _, x := range props {
		if x == p {
			return true
		}
	}
	return false
}

func blockHasProp(b *Block, p string) bool {
	if hasProp(b.Props, p) {
		return true
	}
	for _, oc := range b.Opcases {
		if hasProp(oc.Props, p) {
			return true
		}
	}
	for _, cl := range [][]Clause{b.Requires, b.Ensures} {
		for _, c := range cl {
			if hasProp(c.Props, p) {
				return true
			}
		}
	}
	return false
}

// clauseKey: coarse, edit-stable key of an obligation for the ledger.
var siteRe = regexp.MustCompile(`#\d+@[^/.]*`)

func clauseKey(name string) string {
	// drop site ordinals, keep block / kind . label
	k := siteRe.ReplaceAllString(name, "")
	if i := strings.Index(k, "/canary"); i >= 0 {
		return k[:i] + "/canary"
	}
	return k
}

type Ledger struct {
	Keys map[string][]string `json:"keys"` // property -> clause keys discharged on the pinned tree
}

func loadLedger(path string) *Ledger {
	l := &Ledger{Keys: map[string][]string{}}
	if b, err := os.ReadFile(path); err == nil {
		json.Unmarshal(b, l)
	}
	return l
}

// ---------------------------------------------------------------------

type Evidence struct {
	PropertyID  string                 `json:"property_id"`
	Tier        string                 `json:"tier"`
	Seed        int                    `json:"seed"`
	Level       string                 `json:"level"`
	Coverage    map[string]interface{} `json:"coverage"`
	Assumptions []string               `json:"assumptions"`
	WallS       float64                `json:"wall_s"`
	Violations  int                    `json:"violations"`
}

var VerifDir = "/verif"

func CmdCheck(args []string) int {
	fs := flag.NewFlagSet("check", flag.ExitOnError)
	prop := fs.String("property", "", "property id")
	tier := fs.String("tier", "quick", "quick|thorough")
	repo := fs.String("repo", "/repo", "")
	updateLedger := fs.Bool("update-ledger", false, "record the discharged clause keys as the baseline")
	noBounded := fs.Bool("no-bounded", false, "")
	fs.Parse(args)
	if *prop == "" {
		fmt.Println("check: -property required")
		return 2
	}
	if t := os.Getenv("VERIF_TIER"); t == "quick" || t == "thorough" {
		*tier = t
	}
	seed := 1
	if s := os.Getenv("VERIF_SEED"); s != "" {
		if n, err := strconv.Atoi(s); err == nil {
			seed = n
		}
	}
	t0 := time.Now()
	timeout := 10000
	if *tier == "thorough" {
		timeout = 60000
		FullCanaries = true
	}
	evPath := filepath.Join(VerifDir, "evidence", *prop+".json")
	os.MkdirAll(filepath.Dir(evPath), 0o755)
	os.Remove(evPath)
	replayDir := filepath.Join(VerifDir, "replay")
	os.MkdirAll(replayDir, 0o755)

	findings := loadFindings(filepath.Join(VerifDir, "known_findings.json"))
	ledger := loadLedger(filepath.Join(VerifDir, "baseline", "ledger.json"))

	violations := 0
	var lines []string
	say := func(s string) { fmt.Println(s); lines = append(lines, s) }

	P, err := Load(*repo)
	if err != nil {
		// the tree does not load (does not compile with the tag): undecided -> report
		rp := filepath.Join(replayDir, *prop+"_load.json")
		writeJSON(rp, map[string]interface{}{"property": *prop, "error": err.Error()})
		say(fmt.Sprintf("VIOLATION property=%s replay=%s no-failing-input-found (repository does not load: %v)", *prop, rp, err))
		writeEvidence(evPath, &Evidence{PropertyID: *prop, Tier: *tier, Seed: seed, Level: "other", Violations: 1, WallS: time.Since(t0).Seconds(),
			Coverage: map[string]interface{}{"explanation": "repository failed to load: " + err.Error()}})
		return 1
	}
	if err := P.ParseContracts(filepath.Join(VerifDir, "contracts"), filepath.Join(VerifDir, "spec")); err != nil {
		fmt.Println("contract parse error:", err)
		return 2
	}
	if err := P.GuardFunDir(); err != nil {
		fmt.Println(err)
		return 2
	}

	var results []*Result
	var funcs []string
	var stale []string
	var trusted []string
	for _, b := range P.BlockL {
		if b.Kind != "func" && b.Kind != "closure" {
			continue
		}
		if !blockHasProp(b, *prop) {
			continue
		}
		if b.Trusted || b.Abstract {
			trusted = append(trusted, b.Name)
			continue
		}
		r := Verify(P, b, Options{Canaries: true})
		if r.Skipped != "" {
			stale = append(stale, b.Name)
			say("STALE-CONTRACT property=" + *prop + " " + r.Skipped)
			continue
		}
		// keep only obligations of this property
		var keep []*Oblig
		for _, o := range r.Obligs {
			if hasProp(o.Props, *prop) {
				keep = append(keep, o)
			}
		}
		r.Obligs = keep
		results = append(results, r)
		funcs = append(funcs, b.Name)
	}
	// frame / effect / containment summaries (scan obligations)
	scanRes, scanAssumes := P.ScanObligations(*prop)
	if len(scanRes.Obligs) > 0 {
		results = append(results, scanRes)
		funcs = append(funcs, "module-wide summaries (global writes, stdout, panic containment, immutability)")
	}
	tGen := time.Since(t0).Seconds()
	Discharge(results, timeout, 16)
	fmt.Printf("timing: load+generate %.1fs, discharge %.1fs\n", tGen, time.Since(t0).Seconds()-tGen)

	// ---- evaluate
	nObl, nOK := 0, 0
	bySolver := map[string]int{}
	var solverMs int64
	var samples []interface{}
	notes := map[string]bool{}
	generated := map[string]bool{}
	canFail, covers := 0, 0
	type failure struct {
		r *Result
		o *Oblig
	}
	var fails []failure
	var vacuity []string
	var contractErrs []*Result
	for _, r := range results {
		if r.Err != nil {
			// the contract no longer matches the shape of the code (renamed
			// local, moved loop, changed type ...): its obligations are
			// undecided.  Decided below, after the bounded stand-in has run.
			contractErrs = append(contractErrs, r)
		}
		for _, n := range r.Notes {
			notes[r.Block.Name+": "+n] = true
		}
		for _, o := range r.Obligs {
			if o.Canary {
				if o.Kind == "cover" {
					covers++
				}
				if o.OK() {
					canFail++
				} else {
					vacuity = append(vacuity, o.Name)
				}
				continue
			}
			nObl++
			generated[clauseKey(o.Name)] = true
			solverMs += o.Ans.Ms
			if o.OK() {
				nOK++
				bySolver[strings.TrimSuffix(o.Ans.Solver, "(cached)")]++
				if len(samples) < 6 && !o.Trivial && (len(samples) == 0 || o.Kind == "ensures") {
					samples = append(samples, map[string]interface{}{"obligation": o.Name, "answer": o.Ans.Result, "solver": o.Ans.Solver, "ms": o.Ans.Ms,
						"smt_bytes": len(BuildQuery(r.Decls, o)), "goal": trunc(o.Goal, 300)})
				}
			} else {
				fails = append(fails, failure{r, o})
			}
		}
	}
	// failing obligations -> known finding or violation
	seenFinding := map[string]bool{}
	seenViolation := map[string]bool{}
	// paths on which the solver produced a model first: they are the ones a replay can use
	sort.SliceStable(fails, func(i, j int) bool {
		return fails[i].o.Ans.Result == "sat" && fails[j].o.Ans.Result != "sat"
	})
	for _, f := range fails {
		o := f.o
		if kf := matchFinding(findings, *prop, o.Name); kf != nil {
			if !seenFinding[kf.ID] {
				seenFinding[kf.ID] = true
				say(fmt.Sprintf("KNOWN-FINDING: property=%s %s: %s [obligation %s, witness %s]", *prop, kf.ID, kf.What, o.Name, kf.Witness))
			}
			continue
		}
		if seenViolation[o.Name] {
			// the same clause failing on several paths is one violation
			continue
		}
		seenViolation[o.Name] = true
		rp := filepath.Join(replayDir, sanitize(*prop+"_"+o.Name)+".json")
		rec := map[string]interface{}{"property": *prop, "obligation": o.Name, "kind": o.Kind, "path": o.Path, "goal": o.Goal, "detail": o.Where,
			"solver_answer": o.Ans.Result, "solver": o.Ans.Solver, "solver_output": trunc(o.Ans.Raw, 4000), "model": trunc(o.Ans.Model, 20000),
			"query_file": rp + ".smt2"}
		os.WriteFile(rp+".smt2", []byte(BuildQuery(f.r.Decls, o)+"(check-sat)\n(get-model)\n"), 0o644)
		replayed := Replay(P, f.r, o, rec, *repo)
		writeJSON(rp, rec)
		suffix := ""
		if !replayed {
			suffix = " no-failing-input-found"
		}
		say(fmt.Sprintf("VIOLATION property=%s replay=%s%s", *prop, rp, suffix))
		violations++
	}
	// ledger: every clause discharged on the pinned tree must still be generated
	missing := 0
	if !*updateLedger {
		for _, k := range ledger.Keys[*prop] {
			if !generated[k] {
				skip := false
				for _, s := range stale {
					if strings.HasPrefix(k, s+"/") {
						skip = true
					}
				}
				for _, r := range results {
					if r.Err != nil && strings.HasPrefix(k, r.Block.Name+"/") {
						skip = true // already reported
					}
				}
				if skip {
					continue
				}
				missing++
				if missing <= 5 {
					rp := filepath.Join(replayDir, sanitize(*prop+"_missing_"+k)+".json")
					writeJSON(rp, map[string]interface{}{"property": *prop, "clause": k,
						"meaning": "a contract clause that was discharged on the pinned tree no longer produces any obligation (the code path it guards disappeared)"})
					say(fmt.Sprintf("VIOLATION property=%s replay=%s no-failing-input-found (clause %s no longer generated)", *prop, rp, k))
					violations++
				}
			}
		}
	}
	if nObl == 0 && len(ledger.Keys[*prop]) > 0 {
		say(fmt.Sprintf("VIOLATION property=%s replay=%s no-failing-input-found (no obligations generated)", *prop, filepath.Join(replayDir, *prop+"_empty.json")))
		writeJSON(filepath.Join(replayDir, *prop+"_empty.json"), map[string]interface{}{"property": *prop})
		violations++
	}
	for _, v := range vacuity {
		if strings.Contains(v, "/cover.requires") {
			fmt.Println("VACUITY-ERROR: contradictory precondition:", v)
			return 2
		}
	}

	// ---- bounded stand-in
	var bounded map[string]interface{}
	violBefore := violations
	if !*noBounded {
		bounded = runBounded(*prop, *tier, seed, *repo, findings, say, &violations, replayDir)
	}
	// contracts that could not be evaluated against the current code: an
	// undecided proof is not a violation by itself.  If the property has a
	// bounded stand-in and it found nothing, the function is reported as
	// STALE-CONTRACT (recorded in the evidence, exit status unaffected);
	// without that second opinion the undecided contract is reported.
	for _, r := range contractErrs {
		rp := filepath.Join(replayDir, sanitize(*prop+"_"+r.Block.Name+"_error")+".json")
		writeJSON(rp, map[string]interface{}{"property": *prop, "function": r.Block.Name, "error": r.Err.Error(), "obligation": r.Block.Name + "/contract",
			"meaning": "the contract of this function can no longer be evaluated against the code; its obligations are undecided"})
		boundedClean := bounded != nil && bounded["error"] == nil && violations == violBefore
		switch {
		case matchFinding(findings, *prop, r.Block.Name+"/error") != nil:
			f := matchFinding(findings, *prop, r.Block.Name+"/error")
			say(fmt.Sprintf("KNOWN-FINDING: property=%s %s (%s)", *prop, f.What, f.ID))
		case boundedClean:
			stale = append(stale, r.Block.Name)
			say(fmt.Sprintf("STALE-CONTRACT property=%s %s: %s (undecided; the bounded stand-in of the property found no violation)", *prop, r.Block.Name, firstLine(r.Err.Error())))
		default:
			say(fmt.Sprintf("VIOLATION property=%s replay=%s no-failing-input-found (%s: %v)", *prop, rp, r.Block.Name, firstLine(r.Err.Error())))
			violations++
		}
	}

	if *updateLedger {
		var ks []string
		for k := range generated {
			ks = append(ks, k)
		}
		sort.Strings(ks)
		ledger.Keys[*prop] = ks
		os.MkdirAll(filepath.Join(VerifDir, "baseline"), 0o755)
		writeJSON(filepath.Join(VerifDir, "baseline", "ledger.json"), ledger)
	}

	// ---- evidence
	var assumptions []string
	for n := range notes {
		assumptions = append(assumptions, n)
	}
	sort.Strings(assumptions)
	for _, t := range trusted {
		assumptions = append(assumptions, "contract assumed, not verified (trusted): "+t)
	}
	assumptions = append(assumptions, scanAssumes...)
	assumptions = append(assumptions, GlobalAssumptions...)
	sort.Strings(funcs)
	cov := map[string]interface{}{
		"obligations":              nObl,
		"discharged":               nOK,
		"checker_cmd":              fmt.Sprintf("/verif/bin/gvc check -property %s -tier %s", *prop, *tier),
		"trusted_base":             TrustedBase,
		"functions_under_contract": funcs,
		"by_solver":                bySolver,
		"solver_s":                 float64(solverMs) / 1000,
		"samples":                  samples,
		"vacuity": map[string]interface{}{"canaries_not_provable_as_required": canFail, "canaries_provable(dead paths)": len(vacuity),
			"precondition_cover_queries": covers, "dead_paths": vacuity},
		"stale_contracts": stale,
		"ledger_clauses":  len(ledger.Keys[*prop]),
		"explanation":     explain(*prop, nObl, nOK, bounded),
	}
	if bounded != nil {
		cov["bounded"] = bounded
		for _, k := range []string{"evaluations", "distinct_nontrivial", "rule", "exhaustive"} {
			if v, ok := bounded[k]; ok {
				cov[k] = v
			}
		}
	}
	level := levelOf(*prop)
	if len(samples) == 0 {
		samples = append(samples, "no deductive obligation for this property in this run")
		cov["samples"] = samples
	}
	ev := &Evidence{PropertyID: *prop, Tier: *tier, Seed: seed, Level: level, Coverage: cov, Assumptions: assumptions,
		WallS: time.Since(t0).Seconds(), Violations: violations}
	writeEvidence(evPath, ev)
	fmt.Printf("property %s: %d/%d obligations discharged over %d functions, %d violations, %.1fs\n", *prop, nOK, nObl, len(funcs), violations, time.Since(t0).Seconds())
	if violations > 0 {
		return 1
	}
	return 0
}

var TrustedBase = []string{"go/packages + go/ssa (golang.org/x/tools v0.29.0) as the reading of the source", "gvc VC generator (/verif/gvc)",
	"z3 5.1.0 (z3-new)", "z3 4.8.12", "cvc5 1.0", "standard-library models of /verif/gvc/models.go"}

var GlobalAssumptions = []string{
	"int/int64 arithmetic is mathematical (no overflow obligation); sized unsigned types wrap",
	"string contents are abstract (uninterpreted sort with length and rune count)",
	"termination is not proved unless a decreases clause is given",
	"types, values and ASTs are finite acyclic trees (the code documents that recursive types are unsupported)",
}

func levelOf(prop string) string {
	b, err := os.ReadFile(filepath.Join(VerifDir, "levels.json"))
	if err == nil {
		m := map[string]string{}
		if json.Unmarshal(b, &m) == nil {
			if l, ok := m[prop]; ok {
				return l
			}
		}
	}
	return "other"
}

func explain(prop string, n, ok int, bounded map[string]interface{}) string {
	s := fmt.Sprintf("contract-based deductive verification: %d proof obligations generated from the go/ssa form of the current /repo sources for the functions under contract, %d discharged by SMT solvers (unbounded: all inputs, all loop iterations)", n, ok)
	if bounded != nil {
		s += "; plus a bounded stand-in (runtime checking of the same contracts over an enumerated input space, labelled bounded, not counted as proved)"
	}
	return s
}

func firstLine(s string) string {
	if i := strings.IndexByte(s, '\n'); i >= 0 {
		return s[:i]
	}
	return s
}

func sanitize(s string) string {
	r := strings.NewReplacer("/", "_", "(", "", ")", "", "*", "", " ", "_", "#", "_", "@", "_", ":", "_", ">", "_", "$", "_")
	s = r.Replace(s)
	if len(s) > 150 {
		s = s[:150]
	}
	return s
}

func writeJSON(path string, v interface{}) {
	b, _ := json.MarshalIndent(v, "", " ")
	os.WriteFile(path, b, 0o644)
}

func writeEvidence(path string, ev *Evidence) {
	if ev.Coverage == nil {
		ev.Coverage = map[string]interface{}{}
	}
	if ev.Assumptions == nil {
		ev.Assumptions = []string{}
	}
	writeJSON(path, ev)
}

// GuardFunDir refuses to run if a file owned by /verif below /repo/fun
// matches the regex that fun/gen.sh greps for.
func (P *Program) GuardFunDir() error {
	re := regexp.MustCompile(`[A-Z][A-Z_]+ = `)
	for _, f := range []string{filepath.Join(P.RepoDir, "fun", "zz_contracts_verif.go"), filepath.Join(VerifDir, "contracts", "fun.go")} {
		b, err := os.ReadFile(f)
		if err != nil {
			continue
		}
		if loc := re.FindIndex(b); loc != nil {
			return fmt.Errorf("%s contains the pattern fun/gen.sh greps for near %q", f, string(b[loc[0]:loc[1]]))
		}
	}
	return nil
}

// runBounded runs the bounded stand-in harness for the property, if any.
func runBounded(prop, tier string, seed int, repo string, findings []Finding, say func(string), violations *int, replayDir string) map[string]interface{} {
	dir := filepath.Join(VerifDir, "bounded")
	if _, err := os.Stat(filepath.Join(dir, "props", prop)); err != nil {
		return nil
	}
	out := filepath.Join(VerifDir, ".cache", "bounded_"+prop+".json")
	os.MkdirAll(filepath.Dir(out), 0o755)
	os.Remove(out)
	// the stand-in finishes in about a minute on the unchanged tree; a run
	// that needs many times longer (workers hanging or crashing over and
	// over) is cut off and reported
	limit := 8 * time.Minute
	if tier == "thorough" {
		limit = 90 * time.Minute
	}
	ctx, cancel := context.WithTimeout(context.Background(), limit)
	defer cancel()
	cmd := exec.CommandContext(ctx, filepath.Join(dir, "run.sh"), prop, tier, strconv.Itoa(seed), repo, out)
	cmd.Dir = dir
	cmd.SysProcAttr = &syscall.SysProcAttr{Setpgid: true}
	cmd.Cancel = func() error { return syscall.Kill(-cmd.Process.Pid, syscall.SIGKILL) }
	b, err := cmd.CombinedOutput()
	if ctx.Err() != nil {
		rp := filepath.Join(replayDir, prop+"_bounded_timeout.json")
		writeJSON(rp, map[string]interface{}{"property": prop, "key": prop + "/stand-in-timeout", "limit": limit.String(), "output": trunc(string(b), 4000),
			"meaning": "the bounded stand-in did not finish within its time limit on this tree (on the unchanged tree it takes about a minute): evaluations hang or crash repeatedly"})
		say(fmt.Sprintf("VIOLATION property=%s replay=%s no-failing-input-found (bounded stand-in exceeded %v)", prop, rp, limit))
		*violations++
		return map[string]interface{}{"error": "timeout after " + limit.String()}
	}
	res := map[string]interface{}{}
	jb, rerr := os.ReadFile(out)
	if rerr != nil || json.Unmarshal(jb, &res) != nil {
		rp := filepath.Join(replayDir, prop+"_bounded_error.json")
		writeJSON(rp, map[string]interface{}{"property": prop, "error": fmt.Sprint(err), "output": trunc(string(b), 8000)})
		say(fmt.Sprintf("VIOLATION property=%s replay=%s no-failing-input-found (bounded stand-in did not build or run: %v)", prop, rp, err))
		*violations++
		return map[string]interface{}{"error": fmt.Sprint(err)}
	}
	// failures reported by the harness
	if fl, ok := res["failures"].([]interface{}); ok {
		seen := map[string]bool{}
		for i, f := range fl {
			fm, _ := f.(map[string]interface{})
			key, _ := fm["key"].(string)
			if kf := matchFinding(findings, prop, "bounded:"+key); kf != nil {
				if !seen[kf.ID] {
					seen[kf.ID] = true
					say(fmt.Sprintf("KNOWN-FINDING: property=%s %s: %s [bounded %s, witness %s]", prop, kf.ID, kf.What, key, kf.Witness))
				}
				continue
			}
			if seen["v:"+key] {
				continue
			}
			seen["v:"+key] = true
			rp := filepath.Join(replayDir, sanitize(fmt.Sprintf("%s_bounded_%s_%d", prop, key, i))+".json")
			writeJSON(rp, fm)
			say(fmt.Sprintf("VIOLATION property=%s replay=%s", prop, rp))
			*violations++
		}
	}
	delete(res, "failures")
	return res
}
