package gvc

func CmdCheck(args []string) int    { return 2 }
func CmdSelftest(args []string) int { return 2 }
