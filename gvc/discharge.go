package gvc

import (
	"fmt"
	"os"
	"strings"
	"sync"
	"sync/atomic"
)

func envBase() []string { return os.Environ() }

func BuildQuery(decls []string, o *Oblig) string {
	var sb strings.Builder
	var body strings.Builder
	for _, d := range decls {
		body.WriteString(d)
		body.WriteByte('\n')
	}
	for _, a := range o.Assumes {
		body.WriteString("(assert ")
		body.WriteString(a)
		body.WriteString(")\n")
	}
	body.WriteString("(assert (not ")
	body.WriteString(o.Goal)
	body.WriteString("))\n")
	pre := prelude
	if strings.Contains(body.String(), "eaddr") {
		pre = strings.Replace(pre, ";;EADDR-AXIOM", eaddrAxiom, 1)
	}
	sb.WriteString(pre)
	sb.WriteString(body.String())
	return sb.String()
}

const eaddrAxiom = `(assert (forall ((a Int) (i Int)) (! (and (= (eaddr_arr (eaddr a i)) a) (= (eaddr_idx (eaddr a i)) i) (= (root (eaddr a i)) (root a)) (= (atag (eaddr a i)) (- 1)) (not (= (eaddr a i) 0))) :pattern ((eaddr a i)))))`

// Relax drops every quantified assertion (a relaxation: every real
// counterexample survives) so that a failing goal yields a candidate model.
func Relax(q string) string {
	var out []string
	for _, ln := range strings.Split(q, "\n") {
		if strings.HasPrefix(ln, "(assert ") && strings.Contains(ln, "(forall ") && !strings.HasPrefix(ln, "(assert (not ") {
			continue
		}
		out = append(out, ln)
	}
	return strings.Join(out, "\n")
}

func buildQueryOld(decls []string, o *Oblig) string {
	var sb strings.Builder
	sb.WriteString(prelude)
	for _, d := range decls {
		sb.WriteString(d)
		sb.WriteByte('\n')
	}
	for _, a := range o.Assumes {
		sb.WriteString("(assert ")
		sb.WriteString(a)
		sb.WriteString(")\n")
	}
	sb.WriteString("(assert (not ")
	sb.WriteString(o.Goal)
	sb.WriteString("))\n")
	return sb.String()
}

// FullCanaries: also try to refute the quantified assumptions (thorough tier).
var FullCanaries = false

type Job struct {
	Res *Result
	O   *Oblig
}

// Discharge runs all non-trivial obligations of the results in parallel.
func Discharge(results []*Result, timeoutMs int, workers int) {
	var jobs []Job
	for _, r := range results {
		for _, o := range r.Obligs {
			if !o.Trivial {
				jobs = append(jobs, Job{r, o})
			}
		}
	}
	ch := make(chan Job)
	var wg sync.WaitGroup
	// a few undecided obligations may be the machine's load: they get one
	// longer retry; many undecided obligations are not, and are reported as
	// they are
	var retries int32
	for i := 0; i < workers; i++ {
		wg.Add(1)
		go func() {
			defer wg.Done()
			for j := range ch {
				q := BuildQuery(j.Res.Decls, j.O)
				t := timeoutMs
				if j.O.Canary {
					// vacuity guard: the assumptions of this path must be
					// satisfiable.  Quick tier: the quantifier-free part
					// (a model exists, cached); thorough tier additionally
					// tries to refute the full set for a short time.
					r := solve1(Relax(q), 5000, false)
					if r.Result == "sat" && !FullCanaries {
						j.O.Ans = r
						continue
					}
					t = 3000
				}
				j.O.Ans = Solve(q, t, false)
				if !j.O.Canary && j.O.Ans.Result != "unsat" && j.O.Ans.Result != "sat" && atomic.AddInt32(&retries, 1) <= 12 {
					// undecided: one retry with a longer limit, bypassing the
					// cache, before the obligation is reported (a loaded
					// machine must not turn into an alarm)
					a2 := SolveC(q, 3*t, false, false)
					if a2.Result == "unsat" || a2.Result == "sat" {
						j.O.Ans = a2
					}
				}
				if j.O.Ans.Result != "unsat" && j.O.Ans.Result != "sat" {
					// candidate model from the relaxed query
					r := Solve(Relax(q), 5000, !j.O.Canary)
					if r.Result == "sat" {
						j.O.Ans.Model = r.Model
						j.O.Ans.Result = "unknown(relaxed:sat)"
					}
				}
			}
		}()
	}
	for _, j := range jobs {
		ch <- j
	}
	close(ch)
	wg.Wait()
}

func (o *Oblig) OK() bool {
	if o.Canary {
		// a canary must NOT be provable: sat or unknown are both fine,
		// unsat means the assumptions are contradictory (vacuity)
		return o.Ans.Result != "unsat"
	}
	return o.Ans.Result == "unsat"
}

func Summary(r *Result) string {
	ok, bad := 0, 0
	for _, o := range r.Obligs {
		if o.OK() {
			ok++
		} else {
			bad++
		}
	}
	return fmt.Sprintf("%-40s paths=%-4d obligations=%-4d ok=%-4d failed=%d", r.Block.Name, r.Paths, len(r.Obligs), ok, bad)
}
