package gvc

import (
	"encoding/json"
	"flag"
	"fmt"
	"math"
	"os"
	"os/exec"
	"path/filepath"
	"regexp"
	"strconv"
	"strings"
)

// Replay turns the solver's counterexample for obligation o into a
// concrete run of the real code: the driver of the function (a Go test
// template under /verif/replay_drivers) names the SMT terms whose model
// values it needs; the values are obtained with (get-value), substituted
// into the template, and the test is injected into the package with
// `go test -overlay` (nothing is written below /repo).  Returns true when
// the violated clause was observed on the real code.
func Replay(P *Program, r *Result, o *Oblig, rec map[string]interface{}, repo string) bool {
	drv := loadDriver(r.Block.Name)
	if drv == nil {
		rec["replay"] = "no replay driver for this function: the solver's model is attached, the violated obligation is named"
		return false
	}
	if !strings.HasPrefix(o.Ans.Result, "sat") && !strings.Contains(o.Ans.Result, "relaxed:sat") {
		rec["replay"] = "solver gave no model (" + o.Ans.Result + ")"
		return false
	}
	q := BuildQuery(r.Decls, o)
	if strings.Contains(o.Ans.Result, "relaxed") {
		q = Relax(q)
	}
	// opcase-specific substitutions
	opcase := ""
	if parts := strings.Split(o.Name, "/"); len(parts) >= 3 && strings.HasPrefix(parts[1], "OP_") {
		opcase = parts[1]
	}
	var names, terms []string
	for _, v := range drv.Values {
		if v.Opcase != "" && v.Opcase != opcase {
			continue
		}
		names = append(names, v.Name)
		terms = append(terms, v.Term)
	}
	vals := map[string]string{}
	if len(terms) > 0 {
		// only terms whose symbols are declared in the query
		var ok []int
		for i, t := range terms {
			if termDeclared(q, t) {
				ok = append(ok, i)
			}
		}
		var ts []string
		for _, i := range ok {
			ts = append(ts, terms[i])
		}
		if len(ts) > 0 {
			out := rawSolve(q+"\n(check-sat)\n(get-value ("+strings.Join(ts, " ")+"))\n", 20000)
			got := parseGetValue(out, len(ts))
			if got == nil {
				rec["replay"] = "could not read model values: " + trunc(out, 500)
				return false
			}
			for k, i := range ok {
				vals[names[i]] = got[k]
			}
		}
	}
	rec["model_values"] = vals
	// fill template
	clause := clauseOf(r.Block, o)
	body := drv.Test
	if opcase != "" {
		body = strings.ReplaceAll(body, "{{OPCASE}}", opcase)
	}
	missing := false
	body = regexp.MustCompile(`\{\{(\w+):(\w+)\}\}`).ReplaceAllStringFunc(body, func(m string) string {
		sm := regexp.MustCompile(`\{\{(\w+):(\w+)\}\}`).FindStringSubmatch(m)
		v, ok := vals[sm[2]]
		if !ok {
			// unconstrained by the model: any value will do
			v = map[string]string{"int": "0", "f64": "(fp #b0 #b00000000000 #b0000000000000000000000000000000000000000000000000000)", "bool": "false"}[sm[1]]
		}
		g, err := goLiteral(sm[1], v)
		if err != nil {
			missing = true
			return "0 /* " + err.Error() + " */"
		}
		return g
	})
	if missing {
		rec["replay"] = "model value not representable as a Go literal"
		rec["replay_test"] = body
		return false
	}
	kind := "ensures"
	switch {
	case strings.HasPrefix(o.Kind, "nopanic") || strings.HasPrefix(o.Kind, "fails_iff.only"):
		kind = "panics"
	case o.Kind == "fails_iff.all":
		kind = "nopanic-but-should"
	}
	body = strings.ReplaceAll(body, "{{KIND}}", strconv.Quote(kind))
	body = strings.ReplaceAll(body, "{{CLAUSE}}", goClause(clause))
	body = strings.ReplaceAll(body, "{{LABEL}}", strconv.Quote(o.Name))
	rec["replay_test"] = body
	rec["replay_pkg"] = drv.Pkg
	// run
	scratch, err := os.MkdirTemp("", "gvcreplay")
	if err != nil {
		return false
	}
	defer os.RemoveAll(scratch)
	testFile := filepath.Join(scratch, "zz_gvc_replay_test.go")
	os.WriteFile(testFile, []byte(body), 0o644)
	ov := map[string]interface{}{"Replace": map[string]string{filepath.Join(repo, drv.Pkg, "zz_gvc_replay_test.go"): testFile}}
	ovb, _ := json.Marshal(ov)
	ovFile := filepath.Join(scratch, "ov.json")
	os.WriteFile(ovFile, ovb, 0o644)
	cmd := exec.Command("bash", "-c", fmt.Sprintf("ulimit -v 8000000; cd %s && go test -overlay %s -vet=off -count=1 -timeout 60s -run '^TestGvcReplay$' ./%s/ 2>&1", repo, ovFile, drv.Pkg))
	cmd.Env = append(os.Environ(), "GOFLAGS=-mod=mod", "GOPROXY=off", "GOSUMDB=off", "GOTOOLCHAIN=local")
	outb, _ := cmd.CombinedOutput()
	out := string(outb)
	rec["replay_output"] = trunc(out, 4000)
	if strings.Contains(out, "GVC-REPLAY-VIOLATED") {
		rec["replay"] = "counterexample reproduced on the real code"
		return true
	}
	if strings.Contains(out, "GVC-REPLAY-OK") {
		rec["replay"] = "the model did not reproduce on the real code (abstraction artefact or unconstrained model value)"
	} else {
		rec["replay"] = "replay test did not run to completion"
	}
	return false
}

func termDeclared(q, term string) bool {
	for _, tok := range regexp.MustCompile(`[A-Za-z_][A-Za-z0-9_@!.]*`).FindAllString(term, -1) {
		switch tok {
		case "select", "sarr", "soff", "slen", "scap", "eaddr", "root", "ityp", "iref", "istr", "ifp", "dyn":
			continue
		}
		if !strings.Contains(q, " "+tok+" ") && !strings.Contains(q, "("+tok+" ") && !strings.Contains(q, " "+tok+")") {
			return false
		}
	}
	return true
}

func rawSolve(q string, timeoutMs int) string {
	cmd := exec.Command("z3-new", fmt.Sprintf("-t:%d", timeoutMs), "-in")
	cmd.Stdin = strings.NewReader(q)
	b, _ := cmd.CombinedOutput()
	return string(b)
}

// parseGetValue parses "sat\n((t1 v1)\n (t2 v2))" into the value texts.
func parseGetValue(out string, n int) []string {
	i := strings.Index(out, "((")
	if !strings.HasPrefix(strings.TrimSpace(out), "sat") || i < 0 {
		return nil
	}
	body := out[i+1:]
	pairs := splitArgs(body)
	var vals []string
	for _, p := range pairs {
		if !strings.HasPrefix(p, "(") {
			continue
		}
		parts := splitArgs(p[1 : len(p)-1])
		if len(parts) != 2 {
			continue
		}
		vals = append(vals, parts[1])
		if len(vals) == n {
			break
		}
	}
	if len(vals) != n {
		return nil
	}
	return vals
}

func goLiteral(kind, v string) (string, error) {
	v = strings.TrimSpace(v)
	switch kind {
	case "int":
		if strings.HasPrefix(v, "(- ") {
			return "-" + strings.TrimSuffix(v[3:], ")"), nil
		}
		if isNumeral(v) {
			return v, nil
		}
	case "bool":
		if v == "true" || v == "false" {
			return v, nil
		}
	case "f64":
		if m := fpLit.FindStringSubmatch(v); m != nil {
			bits, err := strconv.ParseUint(m[1]+m[2]+m[3], 2, 64)
			if err == nil {
				return fmt.Sprintf("math.Float64frombits(0x%016x) /* %v */", bits, math.Float64frombits(bits)), nil
			}
		}
		switch {
		case strings.Contains(v, "+zero"):
			return "0.0", nil
		case strings.Contains(v, "-zero"):
			return "math.Copysign(0, -1)", nil
		case strings.Contains(v, "+oo"):
			return "math.Inf(1)", nil
		case strings.Contains(v, "-oo"):
			return "math.Inf(-1)", nil
		case strings.Contains(v, "NaN"):
			return "math.NaN()", nil
		}
	}
	return "", fmt.Errorf("value %q not a %s literal", trunc(v, 60), kind)
}

func clauseOf(b *Block, o *Oblig) string {
	blk := b
	parts := strings.Split(o.Name, "/")
	if len(parts) >= 3 {
		for _, oc := range b.Opcases {
			if oc.Name == parts[1] {
				blk = oc
			}
		}
	}
	if o.Kind != "ensures" {
		return "true"
	}
	lab := strings.TrimPrefix(parts[len(parts)-1], "ensures.")
	for i, c := range blk.Ensures {
		if c.Label == lab || (c.Label == "" && fmt.Sprint(i+1) == lab) {
			return c.Text
		}
	}
	return "true"
}

// goClause: a contract clause as a Go boolean expression (only the
// Go-compatible subset: ==> is rewritten; drivers supply helper functions
// for spec functions such as same/numEQ).
func goClause(c string) string {
	s := rewriteImplies(c)
	return s
}

// ---------------------------------------------------------------------
// driver files:  /verif/replay_drivers/<block name>.drv
//   pkg: parser/pos
//   value NAME [@OPCASE] = <smt term>
//   test:
//   <go source of an in-package test file; {{int:NAME}} {{f64:NAME}} {{bool:NAME}} {{CLAUSE}} {{KIND}} {{OPCASE}}>

type driverValue struct{ Name, Term, Opcase string }
type driver struct {
	Pkg    string
	Values []driverValue
	Test   string
}

func loadDriver(block string) *driver {
	name := sanitize(block)
	b, err := os.ReadFile(filepath.Join(VerifDir, "replay_drivers", name+".drv"))
	if err != nil {
		// family drivers: closure blocks of package fun share one driver
		if strings.HasPrefix(block, "fun.") {
			b, err = os.ReadFile(filepath.Join(VerifDir, "replay_drivers", "fun._closure.drv"))
			if err == nil {
				b = []byte(strings.ReplaceAll(string(b), "{{CLOSURE}}", strings.TrimPrefix(block, "fun.")))
			}
		}
		if err != nil {
			return nil
		}
	}
	d := &driver{}
	lines := strings.Split(string(b), "\n")
	for i, ln := range lines {
		t := strings.TrimSpace(ln)
		switch {
		case strings.HasPrefix(t, "pkg:"):
			d.Pkg = strings.TrimSpace(strings.TrimPrefix(t, "pkg:"))
		case strings.HasPrefix(t, "value "):
			kv := strings.SplitN(strings.TrimPrefix(t, "value "), "=", 2)
			if len(kv) == 2 {
				n := strings.Fields(kv[0])
				dv := driverValue{Name: n[0], Term: strings.TrimSpace(kv[1])}
				if len(n) > 1 && strings.HasPrefix(n[1], "@") {
					dv.Opcase = n[1][1:]
				}
				d.Values = append(d.Values, dv)
			}
		case t == "test:":
			d.Test = strings.Join(lines[i+1:], "\n")
			return d
		}
	}
	return d
}

func CmdSelftest(args []string) int { return 2 }

// CmdReplay re-runs a replay file written by `gvc check`:
//   - deductive counterexample with a replay test: the test is injected into
//     the package again (go test -overlay) and must fail on the real code;
//   - bounded stand-in failure: the stand-in of the property is run again and
//     must report the same failure key;
//   - otherwise (no failing input): the named obligation is regenerated from
//     the current sources and discharged again.
// Exit 1 when the violation is observed again, 0 when it is not.
func CmdReplay(args []string) int {
	fs := flag.NewFlagSet("replay", flag.ExitOnError)
	repo := fs.String("repo", "/repo", "")
	fs.Parse(args)
	if fs.NArg() != 1 {
		fmt.Println("usage: gvc replay [-repo DIR] <replay file>")
		return 2
	}
	b, err := os.ReadFile(fs.Arg(0))
	if err != nil {
		fmt.Println(err)
		return 2
	}
	rec := map[string]interface{}{}
	if err := json.Unmarshal(b, &rec); err != nil {
		fmt.Println("not a replay file:", err)
		return 2
	}
	str := func(k string) string { s, _ := rec[k].(string); return s }
	fmt.Printf("replay file %s\n", fs.Arg(0))
	for _, k := range []string{"property", "obligation", "key", "path", "goal", "solver_answer", "input", "expected", "got", "replay"} {
		if v := str(k); v != "" {
			fmt.Printf("  %-14s %s\n", k+":", trunc(v, 600))
		}
	}
	switch {
	case str("replay_test") != "" && str("replay_pkg") != "":
		scratch, err := os.MkdirTemp("", "gvcreplay")
		if err != nil {
			return 2
		}
		defer os.RemoveAll(scratch)
		testFile := filepath.Join(scratch, "zz_gvc_replay_test.go")
		os.WriteFile(testFile, []byte(str("replay_test")), 0o644)
		ov := map[string]interface{}{"Replace": map[string]string{filepath.Join(*repo, str("replay_pkg"), "zz_gvc_replay_test.go"): testFile}}
		ovb, _ := json.Marshal(ov)
		ovFile := filepath.Join(scratch, "ov.json")
		os.WriteFile(ovFile, ovb, 0o644)
		cmd := exec.Command("bash", "-c", fmt.Sprintf("ulimit -v 8000000; cd %s && go test -overlay %s -vet=off -count=1 -timeout 60s -run '^TestGvcReplay$' -v ./%s/ 2>&1", *repo, ovFile, str("replay_pkg")))
		cmd.Env = append(os.Environ(), "GOFLAGS=-mod=mod", "GOPROXY=off", "GOSUMDB=off", "GOTOOLCHAIN=local")
		outb, _ := cmd.CombinedOutput()
		fmt.Println(trunc(string(outb), 4000))
		if strings.Contains(string(outb), "GVC-REPLAY-VIOLATED") {
			fmt.Println("REPLAY: the counterexample fails on the real code")
			return 1
		}
		fmt.Println("REPLAY: the counterexample does not fail on the current code")
		return 0
	case str("key") != "":
		prop := strings.SplitN(str("key"), "/", 2)[0]
		out := filepath.Join(os.TempDir(), fmt.Sprintf("gvcreplay_%d.json", os.Getpid()))
		defer os.Remove(out)
		cmd := exec.Command(filepath.Join(VerifDir, "bounded", "run.sh"), prop, "quick", "1", *repo, out)
		cmd.Dir = filepath.Join(VerifDir, "bounded")
		if ob, err := cmd.CombinedOutput(); err != nil {
			fmt.Println("bounded stand-in did not run:", err, trunc(string(ob), 2000))
			return 2
		}
		res := map[string]interface{}{}
		jb, _ := os.ReadFile(out)
		json.Unmarshal(jb, &res)
		if fl, ok := res["failures"].([]interface{}); ok {
			for _, f := range fl {
				fm, _ := f.(map[string]interface{})
				if k, _ := fm["key"].(string); k == str("key") {
					fmt.Printf("REPLAY: the bounded stand-in reports %s again\n  input: %v\n  expected: %v\n  got: %v\n", k, fm["input"], fm["expected"], fm["got"])
					return 1
				}
			}
		}
		fmt.Println("REPLAY: the bounded stand-in no longer reports", str("key"))
		return 0
	case str("kind") == "scan":
		P, err := Load(*repo)
		if err != nil {
			fmt.Println("load:", err)
			return 1
		}
		if err := P.ParseContracts(filepath.Join(VerifDir, "contracts"), filepath.Join(VerifDir, "spec")); err != nil {
			fmt.Println(err)
			return 2
		}
		r, _ := P.ScanObligations(str("property"))
		for _, o := range r.Obligs {
			if o.Name == str("obligation") {
				if o.OK() {
					fmt.Println("REPLAY: the site is justified on the current code:", o.Ans.Solver)
					return 0
				}
				fmt.Println("REPLAY: still present and unjustified:", o.Where)
				return 1
			}
		}
		fmt.Println("REPLAY: the site no longer exists")
		return 0
	case str("obligation") != "":
		P, err := Load(*repo)
		if err != nil {
			fmt.Println("load:", err)
			return 1
		}
		if err := P.ParseContracts(filepath.Join(VerifDir, "contracts"), filepath.Join(VerifDir, "spec")); err != nil {
			fmt.Println(err)
			return 2
		}
		name := str("obligation")
		for _, blk := range P.BlockL {
			if (blk.Kind != "func" && blk.Kind != "closure") || !strings.HasPrefix(name, blk.Name+"/") {
				continue
			}
			r := Verify(P, blk, Options{Canaries: false})
			var keep []*Oblig
			for _, o := range r.Obligs {
				if o.Name == name {
					keep = append(keep, o)
				}
			}
			if r.Err != nil {
				fmt.Println("REPLAY: the contract can no longer be checked:", firstLine(r.Err.Error()))
				return 1
			}
			r.Obligs = keep
			Discharge([]*Result{r}, 20000, 8)
			bad := 0
			for _, o := range keep {
				fmt.Printf("  %s [%s %s %dms] path=%s\n", o.Name, o.Ans.Result, o.Ans.Solver, o.Ans.Ms, o.Path)
				if !o.OK() {
					bad++
				}
			}
			if len(keep) == 0 {
				fmt.Println("REPLAY: the obligation is no longer generated")
				return 0
			}
			if bad > 0 {
				fmt.Println("REPLAY: the obligation is still not discharged (no failing input found)")
				return 1
			}
			fmt.Println("REPLAY: the obligation is discharged on the current code")
			return 0
		}
		fmt.Println("REPLAY: no contract block for", name)
		return 0
	}
	fmt.Println("REPLAY: nothing to re-run in this file")
	return 0
}
