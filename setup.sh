#!/bin/bash
# Builds the verification framework from files on disk only (offline).
set -e
export GOFLAGS=-mod=mod GOPROXY=off GOSUMDB=off GOTOOLCHAIN=local
cd /verif/gvc
mkdir -p /verif/bin /verif/evidence /verif/replay /verif/.cache
go build -o /verif/bin/gvc ./cmd/gvc
if [ -x /verif/bounded/build.sh ]; then /verif/bounded/build.sh; fi
echo "setup ok"
