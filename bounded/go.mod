module bounded

go 1.23

require github.com/goghcrow/yae v0.0.0

replace github.com/goghcrow/yae => /repo
