// Command prog is the bounded stand-in harness group "prog" (properties C01
// C02 C03 C04 C06 C10 C11 C16 C19): runtime assertion checking of the
// properties' contracts on the real yae code over an enumerated space of
// small well-typed programs.  Not a proof; results are labelled "bounded".
package main

import (
	"flag"
	"fmt"
	"os"
	"runtime"
	"runtime/pprof"
	"strings"
	"syscall"

	"bounded/prog"
)

func main() {
	property := flag.String("property", "", "property id (C01 …)")
	tier := flag.String("tier", "quick", "quick | thorough")
	seed := flag.Int64("seed", 1, "seed of the random part")
	out := flag.String("out", "", "report file (JSON)")
	flag.Parse()

	// A mis-typed value (the subject of C01) can put a non-pointer bit
	// pattern into a pointer slot; keep the collector from aborting the
	// whole harness over it, so that the violation can be reported.
	if !strings.Contains(os.Getenv("GODEBUG"), "invalidptr=") {
		env := append(os.Environ(), "GODEBUG=invalidptr=0,"+os.Getenv("GODEBUG"))
		if exe, err := os.Executable(); err == nil {
			_ = syscall.Exec(exe, os.Args, env)
		}
	}
	if *property == "" || *out == "" {
		fmt.Fprintln(os.Stderr, "usage: harness -property Cxx -tier quick|thorough -seed N -out file.json")
		os.Exit(2)
	}
	if pf := os.Getenv("VERIF_PROF"); pf != "" {
		if f, err := os.Create(pf); err == nil {
			_ = pprof.StartCPUProfile(f)
			defer pprof.StopCPUProfile()
		}
	}
	if bf := os.Getenv("VERIF_BLOCKPROF"); bf != "" {
		runtime.SetBlockProfileRate(1000)
		runtime.SetMutexProfileFraction(10)
		defer func() {
			if f, err := os.Create(bf); err == nil {
				pprof.Lookup("block").WriteTo(f, 0)
				f.Close()
			}
			if f, err := os.Create(bf + ".mutex"); err == nil {
				pprof.Lookup("mutex").WriteTo(f, 0)
				f.Close()
			}
		}()
	}
	r, err := prog.Run(*property, *tier, *seed)
	if err != nil {
		fmt.Fprintln(os.Stderr, "harness error:", err)
		os.Exit(2)
	}
	if prog.IsWorker() {
		if err := prog.WriteWorker(*out, r); err != nil {
			fmt.Fprintln(os.Stderr, "harness worker error:", err)
			os.Exit(2)
		}
		return
	}
	if err := r.Write(*out); err != nil {
		fmt.Fprintln(os.Stderr, "harness error:", err)
		os.Exit(2)
	}
}
