// Command syn is the bounded stand-in harness of the "syn" group:
// C05 (type checker), C08 (parser), C09 (lexer), C12 (API totality),
// C17 (unification / type equality).  Run-time assertion checking of the
// property contracts on the real yae code over a bounded input space.
package main

import (
	"flag"
	"fmt"
	"os"

	"bounded/report"
	"bounded/syn"
)

func main() {
	prop := flag.String("property", "", "C05|C08|C09|C12|C17")
	tier := flag.String("tier", "quick", "quick|thorough")
	seed := flag.Int64("seed", 1, "random seed")
	out := flag.String("out", "out.json", "report file")
	shard := flag.String("shard", "", "internal: i/n, run one single-threaded share of C05 and write its partial result")
	flag.Parse()

	cfg := syn.Config{Thorough: *tier == "thorough", Seed: *seed}
	if *shard != "" {
		var i, n int
		if _, err := fmt.Sscanf(*shard, "%d/%d", &i, &n); err != nil || *prop != "C05" {
			fmt.Fprintln(os.Stderr, "syn: bad -shard")
			os.Exit(2)
		}
		if err := syn.RunC05Shard(cfg, i, n, *out); err != nil {
			fmt.Fprintln(os.Stderr, err)
			os.Exit(1)
		}
		return
	}
	var r *report.Report
	switch *prop {
	case "C05":
		r = syn.RunC05(cfg)
	case "C08":
		r = syn.RunC08(cfg)
	case "C09":
		r = syn.RunC09(cfg)
	case "C12":
		r = syn.RunC12(cfg)
	case "C17":
		r = syn.RunC17(cfg)
	default:
		fmt.Fprintf(os.Stderr, "syn: unknown property %q\n", *prop)
		os.Exit(2)
	}
	if err := r.Write(*out); err != nil {
		fmt.Fprintln(os.Stderr, err)
		os.Exit(1)
	}
}
