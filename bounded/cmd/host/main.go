// Command host runs the bounded stand-in harness group "host"
// (properties C07, C13, C15, C18, C20).
package main

import (
	"flag"
	"fmt"
	"os"

	"bounded/host"
)

func main() {
	prop := flag.String("property", "", "property id (C07, C13, C15, C18, C20)")
	tier := flag.String("tier", "quick", "quick | thorough")
	seed := flag.Int64("seed", 1, "seed of the random part")
	out := flag.String("out", "", "report file (JSON)")
	flag.Parse()
	if *prop == "" || *out == "" {
		fmt.Fprintln(os.Stderr, "usage: harness -property Cxx -tier quick|thorough -seed N -out file.json")
		os.Exit(2)
	}
	// literal times and renderings must not depend on the machine's zone
	os.Setenv("TZ", "UTC")
	rep, err := host.Run(*prop, *tier, *seed)
	if err != nil {
		fmt.Fprintln(os.Stderr, err)
		os.Exit(2)
	}
	if err := rep.Write(*out); err != nil {
		fmt.Fprintln(os.Stderr, err)
		os.Exit(2)
	}
}
