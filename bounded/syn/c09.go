package syn

import (
	"fmt"
	"math/rand"
	"strings"
	"unicode"

	"github.com/goghcrow/yae/parser/lexer"
	"github.com/goghcrow/yae/parser/oper"
	"github.com/goghcrow/yae/parser/token"

	"bounded/report"
)

type opSet struct {
	name string
	ops  []oper.Operator
}

func mkOps(names ...string) []oper.Operator {
	var r []oper.Operator
	for _, n := range names {
		r = append(r, oper.Operator{Kind: token.Kind(n), BP: 5, Fixity: oper.INFIX_L})
	}
	return r
}

func copyOps(ops []oper.Operator) []oper.Operator {
	return append([]oper.Operator(nil), ops...)
}

func opNames(ops []oper.Operator) []string {
	var r []string
	for _, o := range ops {
		r = append(r, string(o.Kind))
	}
	return r
}

func c09OpSets() []opSet {
	builtin := copyOps(oper.BuiltIn())
	return []opSet{
		{"builtin", builtin},
		{"prefix-overlapping", mkOps("+", "++", "+=", "=", "==", "!", "!=")},
		{"identifier-like", mkOps("and", "a", "a1", "é_", "not")},
		{"dot-question", mkOps("?.", "..", ".+", "??", "?=", "+")},
		{"colon-inside", mkOps("?:", "=:", "!.", ".=", "=")},
		{"mixed", append(copyOps(builtin), mkOps("++", "+=", "=", "a", "?.", "..", "=:")...)},
	}
}

var c09Alphabet = []string{"a", "é", "1", ".", "?", "+", "=", "!", ":", "\"", "'", " ", "\n", "_"}

var c09Atoms = []string{
	"true", "false", "0x1", "1e3", "1.5", "0b1", "0o7", "0x", "1e", "1.", "\"", "\\", "`", "'",
	"a", "é", "Z", "_", "0", "1", "9", ".", "?", "+", "-", "=", "!", "<", ">", "&", "|", "*",
	":", ",", "(", ")", "[", "]", "{", "}", " ", " ", "\n", "\t", " ", "e", "x", "u", "b",
	"٣", "not", "and", "or", "\"a\"", "'t'", "`r`", "\\n", "\\u00e9", "ish", "#",
}

var c09KwAtoms = []string{"ish", "true", "false", "a", "1", "_", "é", " ", ".", "+", "not", "!"}

type c09Worker struct {
	set opSet
	ref *refLexer
	lx  interface {
		Lex(string) []*token.Token
	}
}

func newC09Worker(s opSet) *c09Worker {
	return &c09Worker{set: s, ref: newRefLexer(opNames(s.ops)), lx: lexer.NewLexer(copyOps(s.ops))}
}

func c09Class(in []rune, ref []refTok, refOK bool, k int, real []*token.Token) string {
	if k < len(ref) {
		t := ref[k]
		var rk string
		if k < len(real) {
			rk = string(real[k].Kind)
		}
		switch {
		case t.kind == kSYM && (rk == kTRUE || rk == kFALSE):
			return "whole-word/true-false"
		case t.operatorWord, t.kind == kSYM && k < len(real) && isIdentLike(rk) && rk != kSYM:
			return "whole-word/identifier-operator"
		case t.kind == kSYM, t.kind == kTRUE, t.kind == kFALSE:
			return "word"
		case t.operatorSymbol:
			return "longest-operator"
		case t.kind == "." || t.kind == "?":
			return "dot-question"
		case t.kind == kNUM:
			return "literal/num"
		case t.kind == kSTR:
			return "literal/str"
		case t.kind == kTIME:
			return "literal/time"
		default:
			return "punctuation"
		}
	}
	if !refOK {
		// the reference has no token here: classify by the offending rune
		p := 0
		if len(ref) > 0 {
			p = ref[len(ref)-1].end
		}
		for p < len(in) && unicode.IsSpace(in[p]) {
			p++
		}
		if p < len(in) {
			switch r := in[p]; {
			case r == '.' || r == '?':
				return "dot-question"
			case strings.ContainsRune(operatorChars, r):
				return "longest-operator"
			case r == '"' || r == '`':
				return "literal/str"
			case r == '\'':
				return "literal/time"
			}
		}
		return "unlexable-rune"
	}
	return "trailing"
}

func fmtRefToks(ts []refTok, ok bool) string {
	var b strings.Builder
	for _, t := range ts {
		fmt.Fprintf(&b, "%s%q@%d-%d ", t.kind, t.text, t.idx, t.end)
	}
	if !ok {
		b.WriteString("<syntax error>")
	}
	return strings.TrimSpace(b.String())
}

func fmtRealToks(ts []*token.Token, perr interface{}) string {
	var b strings.Builder
	for _, t := range ts {
		fmt.Fprintf(&b, "%s%q@%d-%d ", t.Kind, t.Lexeme, t.Idx, t.IdxEnd)
	}
	if perr != nil {
		fmt.Fprintf(&b, "<panic: %v>", perr)
	}
	return strings.TrimSpace(b.String())
}

// check lexes one input with the real lexer and checks the C09 contract.
func (w *c09Worker) check(src string, c *chunk) {
	c.evals++
	in := []rune(src)
	nonSpace := 0
	for _, r := range in {
		if !unicode.IsSpace(r) {
			nonSpace++
		}
	}
	if nonSpace >= 2 {
		c.nontrivial(w.set.name + "\x00" + src)
	}
	input := fmt.Sprintf("operators=%s input=%q", w.set.name, src)

	var real []*token.Token
	perr := catch(func() { real = w.lx.Lex(src) })
	if perr != nil {
		e, isErr := perr.(error)
		if !isErr || !strings.Contains(e.Error(), "syntax error") {
			c.fail("C09/failure-is-syntax-error", input, "a syntax error", fmt.Sprintf("panic %T: %v", perr, perr), "")
		}
	}

	// clause 1: source order, no overlap, only white space between tokens,
	// index range / line / column reproduce the token text
	if perr == nil {
		prev := 0
		line, col, p := 0, 0, 0
		moveTo := func(to int) {
			for p < to && p < len(in) {
				if in[p] == '\n' {
					line++
					col = 0
				} else {
					col++
				}
				p++
			}
		}
		bad := false
		for _, t := range real {
			if t.Idx < prev || t.IdxEnd <= t.Idx || t.IdxEnd > len(in) {
				c.fail("C09/partition/order-overlap", input, "tokens in source order, non-empty, not overlapping", fmtRealToks(real, nil), "")
				bad = true
				break
			}
			for q := prev; q < t.Idx; q++ {
				if !unicode.IsSpace(in[q]) {
					c.fail("C09/partition/gap-not-whitespace", input, "only white space between tokens", fmtRealToks(real, nil), "")
					bad = true
					break
				}
			}
			if bad {
				break
			}
			if string(in[t.Idx:t.IdxEnd]) != t.Lexeme {
				c.fail("C09/position/index-range", input, "input[Idx:IdxEnd] (runes) == Lexeme", fmt.Sprintf("%q vs lexeme %q", string(in[t.Idx:t.IdxEnd]), t.Lexeme), "")
			}
			moveTo(t.Idx)
			if t.Line != line || t.Col != col {
				c.fail("C09/position/line-col", input, fmt.Sprintf("token %q at line %d col %d", t.Lexeme, line, col), fmt.Sprintf("line %d col %d", t.Line, t.Col), "")
			}
			prev = t.IdxEnd
		}
		if !bad {
			for q := prev; q < len(in); q++ {
				if !unicode.IsSpace(in[q]) {
					c.fail("C09/partition/gap-not-whitespace", input, "only white space after the last token", fmtRealToks(real, nil), "")
					break
				}
			}
		}
	}

	// clause 2: the token sequence is the maximal-munch one
	ref, refOK := w.ref.lex(in)
	k := 0
	for k < len(ref) && k < len(real) && ref[k].kind == string(real[k].Kind) && ref[k].idx == real[k].Idx && ref[k].end == real[k].IdxEnd {
		k++
	}
	var same bool
	switch {
	case !refOK && perr != nil:
		// both reject: the real lexer stops at the first error, so there is
		// no token list to compare
		same = true
	case refOK && perr == nil:
		same = k == len(ref) && k == len(real)
	}
	if refOK {
		c.stat["inputs the reference lexes"]++
		c.stat["reference tokens"] += len(ref)
	} else {
		c.stat["inputs the reference rejects"]++
	}
	if !same {
		cl := c09Class(in, ref, refOK, k, real)
		what := "token sequence differs"
		if refOK && perr != nil {
			what = "rejects an input the reference lexes"
		} else if !refOK && perr == nil {
			what = "accepts an input the reference rejects"
		}
		c.fail("C09/"+cl, input, fmtRefToks(ref, refOK), fmtRealToks(real, perr), what)
	}
}

func RunC09(cfg Config) *report.Report {
	maxLen, nRand := 4, 40000
	if cfg.Thorough {
		maxLen, nRand = 5, 400000
	}
	r := &report.Report{
		Property: "C09",
		Contract: "lexer.NewLexer(ops).Lex(input): either a syntax-error failure, or tokens in source order, non-overlapping, gaps only white space, input[Idx:IdxEnd] (runes) == Lexeme, Line/Col = position of Idx; token sequence equal to an independent reference maximal-munch lexer (longest registered symbolic operator; identifier-like operators and true/false only as whole words; '.'/'?' not split out of a longer operator; each literal form one token)",
		Space:    fmt.Sprintf("all strings of length <= %d over the 14-character alphabet {a é 1 . ? + = ! : \" ' space newline _} x 6 operator sets (builtin, prefix-overlapping, identifier-like, dot-question, colon-inside, mixed); all sequences of <= 3 atoms of {true false a 1 _ é space . + not ish !} x 6 operator sets; %d seeded random strings of <= 12 atoms per operator set over a wider alphabet (keywords, 0x1 1e3 1.5 forms, quotes, backquotes, escapes, brackets, non-ASCII space/digit)", maxLen, nRand),
		Bound:    fmt.Sprintf("exhaustive length <= %d (runes); random <= 12 atoms, seed %d", maxLen, cfg.Seed),
		Rule:     "distinct = (operator set, input string) by 64-bit FNV-1a hash; non-trivial = the input has at least two non-white-space runes (a token boundary has to be decided)",
	}
	sets := c09OpSets()
	distinct := map[uint64]struct{}{}
	counts := map[string]int{}
	A := len(c09Alphabet)

	// exhaustive part: chunk = (set, first character); the empty string and
	// the shorter strings are covered as prefixes-by-length below
	n := len(sets) * A
	mergeCounts(counts, parallel(r, distinct, n, func(i int, c *chunk) {
		w := newC09Worker(sets[i/A])
		first := i % A
		if first == 0 {
			w.check("", c)
		}
		var rec func(prefix string, depth int)
		rec = func(prefix string, depth int) {
			w.check(prefix, c)
			if depth == maxLen {
				return
			}
			for _, a := range c09Alphabet {
				rec(prefix+a, depth+1)
			}
		}
		rec(c09Alphabet[first], 1)
		if i == 0 {
			c.sample(fmt.Sprintf("operators=%s input=%q", w.set.name, "a?.1"))
		}
	}))

	// keyword boundary family
	mergeCounts(counts, parallel(r, distinct, len(sets), func(i int, c *chunk) {
		w := newC09Worker(sets[i])
		K := c09KwAtoms
		for _, a := range K {
			w.check(a, c)
			for _, b := range K {
				w.check(a+b, c)
				for _, d := range K {
					w.check(a+b+d, c)
				}
			}
		}
	}))

	// operator-alphabet family: every character an operator may consist of,
	// right after the two built-in one-character operators '.' and '?' (the
	// place where "not split out of a longer operator" is decided), as a
	// registered operator and as an unregistered sequence
	{
		alpha := []rune(":!#$%^&*+./<=>?@\\ˆ|~-")
		mergeCounts(counts, parallel(r, distinct, len(alpha), func(i int, c *chunk) {
			ch := string(alpha[i])
			for _, lead := range []string{".", "?"} {
				var names []string
				for _, n := range []string{lead + ch, lead + ch + lead, lead + ch + ch} {
					if oper.IsOp(n) && n != "." && n != "?" {
						names = append(names, n)
					}
				}
				if len(names) == 0 {
					continue
				}
				w := newC09Worker(opSet{"operator-alphabet " + strings.Join(names, " "), mkOps(names...)})
				for _, n := range names {
					for _, in := range []string{"a" + n + "b", "a " + n + " b", "x" + n + n + "y", n, "a" + n, n + "b", "a" + lead + "b" + n + "c", "é" + n + "é"} {
						w.check(in, c)
					}
				}
				// the same characters with nothing registered
				w0 := newC09Worker(opSet{"operator-alphabet none", mkOps("+")})
				w0.check("a"+lead+ch+"b", c)
				w0.check("a "+lead+ch+" b", c)
			}
		}))
	}

	// random part
	const parts = 16
	mergeCounts(counts, parallel(r, distinct, len(sets)*parts, func(i int, c *chunk) {
		w := newC09Worker(sets[i/parts])
		rng := rand.New(rand.NewSource(cfg.Seed*1000003 + int64(i)))
		for k := 0; k < nRand/parts; k++ {
			var b strings.Builder
			for n := 1 + rng.Intn(12); n > 0; n-- {
				b.WriteString(c09Atoms[rng.Intn(len(c09Atoms))])
			}
			s := b.String()
			if k == 0 {
				c.sample(fmt.Sprintf("operators=%s input=%q", w.set.name, s))
			}
			w.check(s, c)
		}
	}))

	r.DistinctNontrivial = len(distinct)
	r.Exhaustive = true
	r.Notes = append(r.Notes,
		"Exhaustive refers to the two enumerated families (strings <= bound over the 14-character alphabet, keyword-boundary atom sequences); the random family is a sample.",
		"Literal forms (number / string / time shapes) are taken from the declarations README names as the definition of the lexicon and re-implemented as hand-written scanners; everything else in the reference follows the property text and DESIGN Appendix D.",
	)
	noteCounts(r, counts)
	return r
}
