package syn

import (
	"strings"
)

// Reference type checker (C05), written from the property statement and the
// typing table of DESIGN Appendix D.  It works on its own expression trees
// and its own type terms; signatures (built-in and user-registered) are data.

type gx struct {
	k      string // lit var list map obj mem sub call un bin tern meth
	name   string // literal text, variable, field, function / operator name
	ty     *rty   // lit: its type
	kids   []*gx
	fields []string // obj
}

func gLit(text string, t *rty) *gx { return &gx{k: "lit", name: text, ty: t} }
func gVar(n string) *gx            { return &gx{k: "var", name: n} }
func gList(e ...*gx) *gx           { return &gx{k: "list", kids: e} }
func gMap(kv ...*gx) *gx           { return &gx{k: "map", kids: kv} }
func gObj(fs []string, e ...*gx) *gx {
	return &gx{k: "obj", fields: fs, kids: e}
}
func gMem(e *gx, f string) *gx             { return &gx{k: "mem", name: f, kids: []*gx{e}} }
func gSub(e, i *gx) *gx                    { return &gx{k: "sub", kids: []*gx{e, i}} }
func gCall(f string, a ...*gx) *gx         { return &gx{k: "call", name: f, kids: a} }
func gUn(op string, e *gx) *gx             { return &gx{k: "un", name: op, kids: []*gx{e}} }
func gBin(op string, l, r *gx) *gx         { return &gx{k: "bin", name: op, kids: []*gx{l, r}} }
func gTern(c, a, b *gx) *gx                { return &gx{k: "tern", kids: []*gx{c, a, b}} }
func gMeth(f string, recv *gx, a ...*gx) *gx { return &gx{k: "meth", name: f, kids: append([]*gx{recv}, a...)} }
func gCallExpr(callee *gx, a ...*gx) *gx   { return &gx{k: "callx", kids: append([]*gx{callee}, a...)} }

func (e *gx) clone() *gx {
	c := *e
	c.kids = make([]*gx, len(e.kids))
	for i, k := range e.kids {
		c.kids[i] = k.clone()
	}
	return &c
}

func (e *gx) size() int {
	n := 1
	for _, k := range e.kids {
		n += k.size()
	}
	return n
}

// src renders with explicit parentheses around every operator operand, so
// that the text denotes this tree whatever the precedences are.
func (e *gx) src() string {
	var b strings.Builder
	e.write(&b)
	return b.String()
}

func (e *gx) atomic() bool {
	switch e.k {
	case "lit", "var", "list", "map", "obj", "call", "mem", "sub", "meth", "callx":
		return true
	}
	return false
}

func (e *gx) writeOperand(b *strings.Builder) {
	if e.atomic() {
		e.write(b)
		return
	}
	b.WriteByte('(')
	e.write(b)
	b.WriteByte(')')
}

func (e *gx) write(b *strings.Builder) {
	commaSep := func(ks []*gx) {
		for i, k := range ks {
			if i > 0 {
				b.WriteString(", ")
			}
			k.write(b)
		}
	}
	switch e.k {
	case "lit", "var":
		b.WriteString(e.name)
	case "list":
		b.WriteByte('[')
		commaSep(e.kids)
		b.WriteByte(']')
	case "map":
		if len(e.kids) == 0 {
			b.WriteString("[:]")
			return
		}
		b.WriteByte('[')
		for i := 0; i < len(e.kids); i += 2 {
			if i > 0 {
				b.WriteString(", ")
			}
			e.kids[i].write(b)
			b.WriteString(": ")
			e.kids[i+1].write(b)
		}
		b.WriteByte(']')
	case "obj":
		b.WriteByte('{')
		for i, k := range e.kids {
			if i > 0 {
				b.WriteString(", ")
			}
			b.WriteString(e.fields[i] + ": ")
			k.write(b)
		}
		b.WriteByte('}')
	case "mem":
		// a number literal followed by ".f" would lex as a fraction attempt
		if e.kids[0].k == "lit" || !e.kids[0].atomic() {
			b.WriteByte('(')
			e.kids[0].write(b)
			b.WriteByte(')')
		} else {
			e.kids[0].write(b)
		}
		b.WriteString("." + e.name)
	case "sub":
		e.kids[0].writeOperand(b)
		b.WriteByte('[')
		e.kids[1].write(b)
		b.WriteByte(']')
	case "call":
		b.WriteString(e.name + "(")
		commaSep(e.kids)
		b.WriteByte(')')
	case "callx":
		b.WriteByte('(')
		e.kids[0].write(b)
		b.WriteString(")(")
		commaSep(e.kids[1:])
		b.WriteByte(')')
	case "meth":
		if e.kids[0].k == "lit" || !e.kids[0].atomic() {
			b.WriteByte('(')
			e.kids[0].write(b)
			b.WriteByte(')')
		} else {
			e.kids[0].write(b)
		}
		b.WriteString("." + e.name + "(")
		commaSep(e.kids[1:])
		b.WriteByte(')')
	case "un":
		b.WriteString(e.name + " ")
		e.kids[0].writeOperand(b)
	case "bin":
		e.kids[0].writeOperand(b)
		b.WriteString(" " + e.name + " ")
		e.kids[1].writeOperand(b)
	case "tern":
		e.kids[0].writeOperand(b)
		b.WriteString(" ? ")
		e.kids[1].writeOperand(b)
		b.WriteString(" : ")
		e.kids[2].writeOperand(b)
	}
}

// ---- signatures ---------------------------------------------------------------

type sig struct {
	name   string
	params []*rty
	ret    *rty
}

func (s sig) String() string {
	xs := make([]string, len(s.params))
	for i, p := range s.params {
		xs[i] = p.String()
	}
	return s.name + " :: (" + strings.Join(xs, ",") + ") → " + s.ret.String()
}

func (s sig) mono() bool {
	for _, p := range s.params {
		if !p.ground() {
			return false
		}
	}
	return s.ret.ground()
}

// refMatchStrict: σ(p) ≅ g, no ⊥ wild card (typing rule (2) of Appendix D).
func refMatchStrict(p, g *rty, s map[string]*rty) bool {
	if p.k == "var" {
		if b, ok := s[p.name]; ok {
			return refTyEq(b, g)
		}
		s[p.name] = g
		return true
	}
	if p.k != g.k || len(p.kids) != len(g.kids) {
		return false
	}
	if p.k == "obj" {
		for i, f := range p.fields {
			j := -1
			for x, h := range g.fields {
				if h == f {
					j = x
				}
			}
			if j < 0 || !refMatchStrict(p.kids[i], g.kids[j], s) {
				return false
			}
		}
		return true
	}
	for i := range p.kids {
		if !refMatchStrict(p.kids[i], g.kids[i], s) {
			return false
		}
	}
	return true
}

// the words lexer/reserved.go declares as reserved identifiers
var refReserved = func() map[string]bool {
	m := map[string]bool{}
	for _, w := range strings.Fields(`byte int float double string bool boolean ch void
		type var def define let rec mut fun fn function
		record struct map list object class trait interface sealed extends
		prefix infixl infixr infixn
		for do while switch cast range match select
		break continue return try catch throw finally
		import as module package namespace assert debugger`) {
		m[w] = true
	}
	return m
}()

type refChecker struct {
	vars map[string]*rty
	sigs []sig // registration order
	// facts about the last check, used to classify a disagreement
	monoObjFieldOrder bool // a call resolved to a monomorphic overload through an object argument whose fields are in another order than the parameter's
	skippedBotOnly    bool // a polymorphic overload was skipped that matches only if ⊥ is read as a wild card
	monoObjParam      bool // a call resolved to a monomorphic overload with an object (>= 2 fields) in a parameter type
	objTypes          []*rty // object types of the subexpressions seen
}

func (c *refChecker) reset() {
	c.monoObjFieldOrder, c.skippedBotOnly, c.monoObjParam, c.objTypes = false, false, false, nil
}

// bothFieldOrders: the program mentions two object types that are equal by
// name but list their fields in different orders.
func (c *refChecker) bothFieldOrders() bool {
	for i, a := range c.objTypes {
		for _, b := range c.objTypes[i+1:] {
			if refTyEq(a, b) && objFieldOrderDiffers(a, b) {
				return true
			}
		}
	}
	return false
}

func collectObjTypes(t *rty, into *[]*rty) {
	if t.k == "obj" && len(t.kids) >= 2 {
		*into = append(*into, t)
	}
	for _, k := range t.kids {
		collectObjTypes(k, into)
	}
}

func hasObj2(t *rty) bool {
	if t.k == "obj" && len(t.kids) >= 2 {
		return true
	}
	for _, k := range t.kids {
		if hasObj2(k) {
			return true
		}
	}
	return false
}

type refReject struct {
	rule string
	at   string
}

func objFieldOrderDiffers(p, g *rty) bool {
	if p.k == "obj" && g.k == "obj" && len(p.fields) == len(g.fields) {
		for i := range p.fields {
			if p.fields[i] != g.fields[i] {
				return true
			}
		}
	}
	for i := range p.kids {
		if i < len(g.kids) && p.k == g.k && p.k != "obj" && objFieldOrderDiffers(p.kids[i], g.kids[i]) {
			return true
		}
	}
	if p.k == "obj" && g.k == "obj" {
		for i, f := range p.fields {
			for j, h := range g.fields {
				if f == h && objFieldOrderDiffers(p.kids[i], g.kids[j]) {
					return true
				}
			}
		}
	}
	return false
}

func (c *refChecker) resolve(name string, args []*rty, at string) (*rty, *refReject) {
	// (1) an exactly matching monomorphic overload
	var found *sig
	for i := range c.sigs {
		s := &c.sigs[i]
		if s.name != name || !s.mono() || len(s.params) != len(args) {
			continue
		}
		ok := true
		for k := range args {
			if !refTyEq(s.params[k], args[k]) {
				ok = false
				break
			}
		}
		if ok {
			found = s // a later registration with the same parameters replaces an earlier one
		}
	}
	if found != nil {
		for _, p := range found.params {
			if hasObj2(p) {
				c.monoObjParam = true
			}
		}
		for k := range args {
			if objFieldOrderDiffers(found.params[k], args[k]) {
				c.monoObjFieldOrder = true
			}
		}
		return found.ret, nil
	}
	// (2) the first registered polymorphic overload that can be instantiated
	for i := range c.sigs {
		s := &c.sigs[i]
		if s.name != name || s.mono() || len(s.params) != len(args) {
			continue
		}
		σ := map[string]*rty{}
		ok := true
		for k := range args {
			if !refMatchStrict(s.params[k], args[k], σ) {
				ok = false
				break
			}
		}
		if ok {
			ret, fine := refSubst(s.ret, σ, 64)
			if fine && ret.ground() {
				return ret, nil
			}
			continue
		}
		// would it match if ⊥ stood for any type?
		σ2 := map[string]*rty{}
		loose := true
		for k := range args {
			if !refMatch(s.params[k], args[k], σ2) {
				loose = false
				break
			}
		}
		if loose {
			if ret, fine := refSubst(s.ret, σ2, 64); fine && ret.ground() {
				c.skippedBotOnly = true
			}
		}
	}
	return nil, &refReject{"call/no-applicable-overload", at}
}

func (c *refChecker) check(e *gx) (*rty, *refReject) {
	t, r := c.check1(e)
	if t != nil {
		collectObjTypes(t, &c.objTypes)
	}
	return t, r
}

func (c *refChecker) check1(e *gx) (*rty, *refReject) {
	kidTypes := func(ks []*gx) ([]*rty, *refReject) {
		ts := make([]*rty, len(ks))
		for i, k := range ks {
			t, r := c.check(k)
			if r != nil {
				return nil, r
			}
			ts[i] = t
		}
		return ts, nil
	}
	switch e.k {
	case "lit":
		return e.ty, nil
	case "var":
		if refReserved[e.name] {
			return nil, &refReject{"identifier/reserved", e.name}
		}
		t, ok := c.vars[e.name]
		if !ok {
			return nil, &refReject{"identifier/undefined", e.name}
		}
		return t, nil
	case "list":
		ts, r := kidTypes(e.kids)
		if r != nil {
			return nil, r
		}
		if len(ts) == 0 {
			return tList(tBot), nil
		}
		for _, t := range ts[1:] {
			if !refTyEq(ts[0], t) {
				return nil, &refReject{"list/heterogeneous", e.src()}
			}
		}
		return tList(ts[0]), nil
	case "map":
		ts, r := kidTypes(e.kids)
		if r != nil {
			return nil, r
		}
		if len(ts) == 0 {
			return tMap(tBot, tBot), nil
		}
		if !ts[0].isPrim() {
			return nil, &refReject{"map/key-not-primitive", e.src()}
		}
		for i := 2; i < len(ts); i += 2 {
			if !refTyEq(ts[0], ts[i]) {
				return nil, &refReject{"map/heterogeneous-keys", e.src()}
			}
			if !refTyEq(ts[1], ts[i+1]) {
				return nil, &refReject{"map/heterogeneous-values", e.src()}
			}
		}
		return tMap(ts[0], ts[1]), nil
	case "obj":
		ts, r := kidTypes(e.kids)
		if r != nil {
			return nil, r
		}
		seen := map[string]bool{}
		for _, f := range e.fields {
			if seen[f] {
				return nil, &refReject{"object/duplicate-field", e.src()}
			}
			seen[f] = true
		}
		return &rty{k: "obj", fields: append([]string{}, e.fields...), kids: ts}, nil
	case "mem":
		t, r := c.check(e.kids[0])
		if r != nil {
			return nil, r
		}
		if t.k != "obj" {
			return nil, &refReject{"member/not-an-object", e.src()}
		}
		for i, f := range t.fields {
			if f == e.name {
				return t.kids[i], nil
			}
		}
		return nil, &refReject{"member/no-such-field", e.src()}
	case "sub":
		t, r := c.check(e.kids[0])
		if r != nil {
			return nil, r
		}
		it, r := c.check(e.kids[1])
		if r != nil {
			return nil, r
		}
		switch t.k {
		case "list":
			if !refTyEq(it, tNum) {
				return nil, &refReject{"subscript/list-index-not-num", e.src()}
			}
			return t.kids[0], nil
		case "map":
			if !refTyEq(it, t.kids[0]) {
				return nil, &refReject{"subscript/map-index-not-key-type", e.src()}
			}
			return t.kids[1], nil
		}
		return nil, &refReject{"subscript/not-list-or-map", e.src()}
	case "call", "un", "bin", "tern", "meth":
		name := e.name
		if e.k == "tern" {
			name = "if"
		}
		ts, r := kidTypes(e.kids)
		if r != nil {
			return nil, r
		}
		return c.resolve(name, ts, e.src())
	case "callx":
		ft, r := c.check(e.kids[0])
		if r != nil {
			return nil, r
		}
		if _, r := kidTypes(e.kids[1:]); r != nil {
			return nil, r
		}
		if ft.k != "fun" {
			return nil, &refReject{"call/callee-not-a-function", e.src()}
		}
		return nil, &refReject{"call/function-valued-callee-unsupported-by-harness", e.src()}
	}
	return nil, &refReject{"harness/unknown-form", e.k}
}
