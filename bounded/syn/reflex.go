package syn

import (
	"sort"
	"unicode"
)

// Reference lexer (C09), written from the property text and DESIGN
// Appendix D: left-to-right maximal munch over runes.
//
//   - white space (unicode.IsSpace) separates tokens and is skipped;
//   - punctuation ": , ( ) [ ] { }" is always a single token, with priority;
//   - "." and "?" are tokens unless followed by an operator character;
//   - registered symbolic operators: the longest registered one that is a
//     prefix of the rest of the input;
//   - a word (maximal run of letters, digits, "_", starting with a letter or
//     "_") is an identifier-like operator iff the WHOLE word is registered,
//     the literal true / false iff the WHOLE word is "true" / "false", and an
//     identifier otherwise;
//   - literal forms are the ones README points to (lexer/factory.go is named
//     there as the definition of the lexicon), tried in the declared order,
//     each scanned greedily by hand: numbers, "..." strings with JSON-style
//     escapes, `...` raw strings, '...' time literals.
//
// No regular expressions, no rule list, no operator sorting.

const (
	kTRUE  = "true"
	kFALSE = "false"
	kSYM   = "<sym>"
	kNUM   = "<num>"
	kSTR   = "<str>"
	kTIME  = "<time>"
)

// the characters allowed in symbolic operators (declaration in
// parser/oper/operator.go)
const operatorChars = ":!#$%^&*+./<=>?@\\ˆ|~-"

type refTok struct {
	kind           string
	idx, end       int
	line, col      int
	text           string
	operatorSymbol bool // a registered symbolic operator
	operatorWord   bool // a registered identifier-like operator
}

type refLexer struct {
	symOps  []string // symbolic operators, any order
	wordOps map[string]bool
	opChar  map[rune]bool
}

func isWordStart(r rune) bool {
	return r == '_' || (r >= 'a' && r <= 'z') || (r >= 'A' && r <= 'Z') || unicode.IsLetter(r)
}
func isWordChar(r rune) bool { return isWordStart(r) || (r >= '0' && r <= '9') }

func isIdentLike(s string) bool {
	rs := []rune(s)
	if len(rs) == 0 || !isWordStart(rs[0]) {
		return false
	}
	for _, r := range rs[1:] {
		if !isWordChar(r) {
			return false
		}
	}
	return true
}

func (l *refLexer) longestOp(in []rune, i int) string {
	best := ""
	for _, op := range l.symOps {
		if len([]rune(op)) > len([]rune(best)) && hasPrefixRunes(in, i, []rune(op)) {
			best = op
		}
	}
	return best
}

func newRefLexer(opNames []string) *refLexer {
	l := &refLexer{wordOps: map[string]bool{}, opChar: map[rune]bool{}}
	for _, r := range operatorChars {
		l.opChar[r] = true
	}
	seen := map[string]bool{}
	for _, n := range opNames {
		if seen[n] {
			continue
		}
		seen[n] = true
		if isIdentLike(n) {
			l.wordOps[n] = true
		} else {
			l.symOps = append(l.symOps, n)
		}
	}
	sort.Strings(l.symOps) // any fixed order; the choice below is by length
	return l
}

func hasPrefixRunes(in []rune, i int, p []rune) bool {
	if i+len(p) > len(in) {
		return false
	}
	for k, r := range p {
		if in[i+k] != r {
			return false
		}
	}
	return true
}

func isDigit(r rune) bool { return r >= '0' && r <= '9' }
func isHex(r rune) bool {
	return isDigit(r) || (r >= 'a' && r <= 'f') || (r >= 'A' && r <= 'F')
}

// scanInt: 0 | [1-9][0-9]*  -> end index or -1
func scanInt(in []rune, i int) int {
	if i >= len(in) || !isDigit(in[i]) {
		return -1
	}
	if in[i] == '0' {
		return i + 1
	}
	j := i + 1
	for j < len(in) && isDigit(in[j]) {
		j++
	}
	return j
}

// scanFrac: "." digit+  -> end or -1
func scanFrac(in []rune, i int) int {
	if i+1 >= len(in) || in[i] != '.' || !isDigit(in[i+1]) {
		return -1
	}
	j := i + 2
	for j < len(in) && isDigit(in[j]) {
		j++
	}
	return j
}

// scanExp: [eE] [-+]? digit+ -> end or -1
func scanExp(in []rune, i int) int {
	if i >= len(in) || (in[i] != 'e' && in[i] != 'E') {
		return -1
	}
	j := i + 1
	if j < len(in) && (in[j] == '-' || in[j] == '+') {
		j++
	}
	if j >= len(in) || !isDigit(in[j]) {
		return -1
	}
	for j < len(in) && isDigit(in[j]) {
		j++
	}
	return j
}

// scanRadix: "0" letter ( "0" | first rest* )
func scanRadix(in []rune, i int, letter rune, first, rest func(rune) bool) int {
	if i+2 >= len(in) || in[i] != '0' || in[i+1] != letter {
		return -1
	}
	if in[i+2] == '0' {
		return i + 3
	}
	if !first(in[i+2]) {
		return -1
	}
	j := i + 3
	for j < len(in) && rest(in[j]) {
		j++
	}
	return j
}

// scanNumber: the numeric literal forms in their declared order.
func scanNumber(in []rune, i int) int {
	n := scanInt(in, i)
	if n < 0 {
		return -1
	}
	// form A: int frac+ exp?
	if f := scanFrac(in, n); f >= 0 {
		j := f
		for {
			g := scanFrac(in, j)
			if g < 0 {
				break
			}
			j = g
		}
		if e := scanExp(in, j); e >= 0 {
			j = e
		}
		return j
	}
	// form B: int frac? exp+   (frac is absent here, or form A had matched)
	if e := scanExp(in, n); e >= 0 {
		j := e
		for {
			g := scanExp(in, j)
			if g < 0 {
				break
			}
			j = g
		}
		return j
	}
	if j := scanRadix(in, i, 'b', func(r rune) bool { return r == '1' }, func(r rune) bool { return r == '0' || r == '1' }); j >= 0 {
		return j
	}
	if j := scanRadix(in, i, 'x', func(r rune) bool { return isHex(r) && r != '0' }, isHex); j >= 0 {
		return j
	}
	if j := scanRadix(in, i, 'o', func(r rune) bool { return r >= '1' && r <= '7' }, func(r rune) bool { return r >= '0' && r <= '7' }); j >= 0 {
		return j
	}
	return n
}

// scanString: '"' ( plain | escape )* '"'
func scanString(in []rune, i int) int {
	if i >= len(in) || in[i] != '"' {
		return -1
	}
	j := i + 1
	for j < len(in) {
		switch r := in[j]; {
		case r == '"':
			return j + 1
		case r == '\\':
			if j+1 >= len(in) {
				return -1
			}
			switch in[j+1] {
			case '"', '\\', 't', 'r', 'n', 'b', 'f', '/':
				j += 2
			case 'u':
				if j+5 >= len(in) {
					return -1
				}
				for k := 2; k <= 5; k++ {
					if !isHex(in[j+k]) {
						return -1
					}
				}
				j += 6
			default:
				return -1
			}
		default:
			j++
		}
	}
	return -1
}

func scanDelimited(in []rune, i int, q rune, forbidden string) int {
	if i >= len(in) || in[i] != q {
		return -1
	}
	for j := i + 1; j < len(in); j++ {
		if in[j] == q {
			return j + 1
		}
		for _, f := range forbidden {
			if in[j] == f {
				return -1
			}
		}
	}
	return -1
}

// lex returns the reference token sequence, or ok=false for a syntax error.
func (l *refLexer) lex(in []rune) (toks []refTok, ok bool) {
	i, line, col := 0, 0, 0
	adv := func(to int) {
		for i < to {
			if in[i] == '\n' {
				line++
				col = 0
			} else {
				col++
			}
			i++
		}
	}
	for {
		for i < len(in) && unicode.IsSpace(in[i]) {
			adv(i + 1)
		}
		if i >= len(in) {
			return toks, true
		}
		t := refTok{idx: i, line: line, col: col}
		r := in[i]
		end := -1
		switch {
		case r == ':' || r == ',' || r == '(' || r == ')' || r == '[' || r == ']' || r == '{' || r == '}':
			end, t.kind = i+1, string(r)
		case (r == '.' || r == '?') && (i+1 >= len(in) || !l.opChar[in[i+1]]):
			end, t.kind = i+1, string(r)
		// an operator character starts a registered symbolic operator or
		// nothing - except that one character of the operator alphabet (U+02C6,
		// a modifier LETTER) is also a letter of the identifier alphabet: where
		// no registered operator starts with it, it begins a word, as the
		// lexicon's rule order (operators, then identifiers) has it
		case l.opChar[r] && (l.longestOp(in, i) != "" || !isWordStart(r)):
			if best := l.longestOp(in, i); best != "" {
				end, t.kind, t.operatorSymbol = i+len([]rune(best)), best, true
			}
		case isWordStart(r):
			j := i + 1
			for j < len(in) && isWordChar(in[j]) {
				j++
			}
			w := string(in[i:j])
			end = j
			switch {
			case l.wordOps[w]:
				t.kind, t.operatorWord = w, true
			case w == kTRUE:
				t.kind = kTRUE
			case w == kFALSE:
				t.kind = kFALSE
			default:
				t.kind = kSYM
			}
		case isDigit(r):
			end, t.kind = scanNumber(in, i), kNUM
		case r == '"':
			end, t.kind = scanString(in, i), kSTR
		case r == '`':
			end, t.kind = scanDelimited(in, i, '`', ""), kSTR
		case r == '\'':
			end, t.kind = scanDelimited(in, i, '\'', "`\""), kTIME
		}
		if end < 0 {
			// symbolic operators made of characters outside the operator
			// alphabet are outside the domain; nothing else can match
			return toks, false
		}
		t.end = end
		t.text = string(in[i:end])
		toks = append(toks, t)
		adv(end)
	}
}
