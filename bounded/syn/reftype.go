package syn

import (
	"fmt"
	"strings"

	"github.com/goghcrow/yae/types"
)

// Reference type terms (C17, C05), independent of yae's representation:
// τ ::= num | str | bool | time | ⊥ | 'v | list[τ] | map[κ,τ] | {f:τ,…}
//     | maybe[τ] | fun(τ…)→τ | (τ,…)
type rty struct {
	k      string // num str bool time bot var list map obj maybe fun tuple
	name   string // var: variable name; fun: function name (not part of equality)
	kids   []*rty // list [el]; map [key,val]; maybe [el]; fun [params…, ret]; tuple [elems…]; obj [field types…]
	fields []string
}

var (
	tNum  = &rty{k: "num"}
	tStr  = &rty{k: "str"}
	tBool = &rty{k: "bool"}
	tTime = &rty{k: "time"}
	tBot  = &rty{k: "bot"}
)

func tVar(n string) *rty    { return &rty{k: "var", name: n} }
func tList(e *rty) *rty     { return &rty{k: "list", kids: []*rty{e}} }
func tMap(k, v *rty) *rty   { return &rty{k: "map", kids: []*rty{k, v}} }
func tMaybe(e *rty) *rty    { return &rty{k: "maybe", kids: []*rty{e}} }
func tTuple(e ...*rty) *rty { return &rty{k: "tuple", kids: e} }
func tFun(name string, ret *rty, params ...*rty) *rty {
	return &rty{k: "fun", name: name, kids: append(append([]*rty{}, params...), ret)}
}
func tObj(fs ...interface{}) *rty { // name, type, name, type …
	o := &rty{k: "obj"}
	for i := 0; i < len(fs); i += 2 {
		o.fields = append(o.fields, fs[i].(string))
		o.kids = append(o.kids, fs[i+1].(*rty))
	}
	return o
}

func (t *rty) isPrim() bool { return t.k == "num" || t.k == "str" || t.k == "bool" || t.k == "time" }

func (t *rty) String() string {
	switch t.k {
	case "num", "str", "bool", "time":
		return t.k
	case "bot":
		return "⊥"
	case "var":
		return "'" + t.name
	case "list":
		return "list[" + t.kids[0].String() + "]"
	case "maybe":
		return "maybe[" + t.kids[0].String() + "]"
	case "map":
		return "map[" + t.kids[0].String() + "," + t.kids[1].String() + "]"
	case "obj":
		xs := make([]string, len(t.kids))
		for i, k := range t.kids {
			xs[i] = t.fields[i] + ":" + k.String()
		}
		return "{" + strings.Join(xs, ",") + "}"
	case "tuple", "fun":
		n := len(t.kids)
		if t.k == "fun" {
			n--
		}
		xs := make([]string, n)
		for i := 0; i < n; i++ {
			xs[i] = t.kids[i].String()
		}
		s := "(" + strings.Join(xs, ",") + ")"
		if t.k == "fun" {
			s = "fun" + s + "→" + t.kids[n].String()
		}
		return s
	}
	return "?" + t.k
}

// refTyEq: structural identity, object fields by name.
func refTyEq(a, b *rty) bool {
	if a.k != b.k || len(a.kids) != len(b.kids) {
		return false
	}
	switch a.k {
	case "var":
		return a.name == b.name
	case "obj":
		for i, f := range a.fields {
			j := -1
			for x, g := range b.fields {
				if g == f {
					j = x
				}
			}
			if j < 0 || !refTyEq(a.kids[i], b.kids[j]) {
				return false
			}
		}
		return true
	}
	for i := range a.kids {
		if !refTyEq(a.kids[i], b.kids[i]) {
			return false
		}
	}
	return true
}

// refTyEqBot: equality modulo the documented ⊥ rule of unification: a ⊥ on
// the right-hand side stands for any type.
func refTyEqBot(a, b *rty) bool {
	if b.k == "bot" {
		return true
	}
	if a.k != b.k || len(a.kids) != len(b.kids) {
		return false
	}
	switch a.k {
	case "var":
		return a.name == b.name
	case "obj":
		for i, f := range a.fields {
			j := -1
			for x, g := range b.fields {
				if g == f {
					j = x
				}
			}
			if j < 0 || !refTyEqBot(a.kids[i], b.kids[j]) {
				return false
			}
		}
		return true
	}
	for i := range a.kids {
		if !refTyEqBot(a.kids[i], b.kids[i]) {
			return false
		}
	}
	return true
}

func (t *rty) ground() bool {
	if t.k == "var" {
		return false
	}
	for _, k := range t.kids {
		if !k.ground() {
			return false
		}
	}
	return true
}

func (t *rty) occurs(v string) bool {
	if t.k == "var" {
		return t.name == v
	}
	for _, k := range t.kids {
		if k.occurs(v) {
			return true
		}
	}
	return false
}

func (t *rty) depth() int {
	d := 0
	for _, k := range t.kids {
		if x := k.depth() + 1; x > d {
			d = x
		}
	}
	return d
}

// refSubst applies σ exhaustively; ok=false if a variable is (transitively)
// bound to a type containing itself.
func refSubst(t *rty, s map[string]*rty, fuel int) (*rty, bool) {
	if fuel <= 0 {
		return t, false
	}
	if t.k == "var" {
		b, bound := s[t.name]
		if !bound || (b.k == "var" && b.name == t.name) {
			return t, true
		}
		return refSubst(b, s, fuel-1)
	}
	if len(t.kids) == 0 {
		return t, true
	}
	c := *t
	c.kids = make([]*rty, len(t.kids))
	for i, k := range t.kids {
		r, ok := refSubst(k, s, fuel-1)
		if !ok {
			return t, false
		}
		c.kids[i] = r
	}
	return &c, true
}

// refMatch: first-order matching of a pattern against a variable-free type.
// A variable may be bound to any type (⊥ and maybe[…] included) and all its
// occurrences must then be strictly equal; where the ground type has ⊥ a
// non-variable pattern is accepted (the documented ⊥ rule); a pattern ⊥
// matches only ⊥.
func refMatch(p, g *rty, s map[string]*rty) bool {
	if p.k == "var" {
		if b, ok := s[p.name]; ok {
			return refTyEq(b, g)
		}
		s[p.name] = g
		return true
	}
	if g.k == "bot" {
		return true
	}
	if p.k != g.k || len(p.kids) != len(g.kids) {
		return false
	}
	if p.k == "obj" {
		for i, f := range p.fields {
			j := -1
			for x, h := range g.fields {
				if h == f {
					j = x
				}
			}
			if j < 0 || !refMatch(p.kids[i], g.kids[j], s) {
				return false
			}
		}
		return true
	}
	for i := range p.kids {
		if !refMatch(p.kids[i], g.kids[i], s) {
			return false
		}
	}
	return true
}

// ---- conversion to and from yae's types ----------------------------------

// toReal builds a fresh yae type (no pointer is shared between two calls or
// two occurrences, except the primitive singletons and ⊥).
func toReal(t *rty) *types.Type {
	switch t.k {
	case "num":
		return types.Num
	case "str":
		return types.Str
	case "bool":
		return types.Bool
	case "time":
		return types.Time
	case "bot":
		return types.Bottom
	case "var":
		// types.TyVar appends a global counter to the name; a variable is
		// identified by its name, so build the node directly
		v := &types.TypeVariable{Type: types.Type{Kind: types.KTyVar}, Name: t.name}
		return &v.Type
	case "list":
		return types.List(toReal(t.kids[0]))
	case "maybe":
		return types.Maybe(toReal(t.kids[0]))
	case "map":
		return types.Map(toReal(t.kids[0]), toReal(t.kids[1]))
	case "obj":
		fs := make([]types.Field, len(t.kids))
		for i, k := range t.kids {
			fs[i] = types.Field{Name: t.fields[i], Val: toReal(k)}
		}
		return types.Obj(fs)
	case "tuple":
		xs := make([]*types.Type, len(t.kids))
		for i, k := range t.kids {
			xs[i] = toReal(k)
		}
		return types.Tuple(xs)
	case "fun":
		n := len(t.kids) - 1
		xs := make([]*types.Type, n)
		for i := 0; i < n; i++ {
			xs[i] = toReal(t.kids[i])
		}
		return types.Fun(t.name, xs, toReal(t.kids[n]))
	}
	panic("toReal: " + t.k)
}

func fromRealType(t *types.Type) *rty {
	switch t.Kind {
	case types.KNum:
		return tNum
	case types.KStr:
		return tStr
	case types.KBool:
		return tBool
	case types.KTime:
		return tTime
	case types.KBot:
		return tBot
	case types.KTop:
		return &rty{k: "top"}
	case types.KTyVar:
		return tVar(t.TyVar().Name)
	case types.KList:
		return tList(fromRealType(t.List().El))
	case types.KMaybe:
		return tMaybe(fromRealType(t.Maybe().Elem))
	case types.KMap:
		return tMap(fromRealType(t.Map().Key), fromRealType(t.Map().Val))
	case types.KObj:
		o := &rty{k: "obj"}
		for _, f := range t.Obj().Fields {
			o.fields = append(o.fields, f.Name)
			o.kids = append(o.kids, fromRealType(f.Val))
		}
		return o
	case types.KFun:
		f := t.Fun()
		r := &rty{k: "fun", name: f.Name}
		for _, p := range f.Param {
			r.kids = append(r.kids, fromRealType(p))
		}
		r.kids = append(r.kids, fromRealType(f.Return))
		return r
	}
	// the tuple kind constant is unexported; it is the only kind left
	if t.Kind.String() == "Tuple" {
		r := &rty{k: "tuple"}
		for _, e := range t.Tuple().Val {
			r.kids = append(r.kids, fromRealType(e))
		}
		return r
	}
	panic(fmt.Sprintf("fromRealType: kind %v", t.Kind))
}
