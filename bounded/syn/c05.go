package syn

import (
	"encoding/json"
	"fmt"
	"math/rand"
	"os"
	"os/exec"
	"runtime"
	"sort"
	"strings"
	"sync"
	"time"

	yae "github.com/goghcrow/yae"
	"github.com/goghcrow/yae/conv"
	"github.com/goghcrow/yae/fun"
	"github.com/goghcrow/yae/trans"
	"github.com/goghcrow/yae/types"
	"github.com/goghcrow/yae/val"

	"bounded/report"
)

// ---- environment ------------------------------------------------------------

type c05O struct {
	A float64 `yae:"a"`
	B string  `yae:"b"`
}
type c05O2 struct {
	B string  `yae:"b"`
	A float64 `yae:"a"`
}
type c05OO struct {
	P c05O  `yae:"p"`
	Q []int `yae:"q"`
}
type c05W struct {
	M *int `yae:"m,maybe"`
	Z int  `yae:"z"`
}

func c05HostEnv() map[string]interface{} {
	one := 1
	return map[string]interface{}{
		"b": true, "n": 1.5, "k": 2, "s": "x", "t": time.Unix(1600000000, 0).UTC(),
		"xs": []int{1, 2}, "ss": []string{"a"}, "xss": [][]int{{1}}, "mp": map[string]int{"a": 1}, "ms": map[float64]string{1: "a"},
		"o": c05O{1, "x"}, "o2": c05O2{"x", 1}, "oo": c05OO{c05O{1, "x"}, []int{1}}, "os": []c05O{{1, "x"}},
		"w": c05W{M: &one, Z: 1}, "e": struct{}{},
		"fn": 1, "range": "r", // reserved words as variable names
	}
}

func c05RefEnv() map[string]*rty {
	o := tObj("a", tNum, "b", tStr)
	return map[string]*rty{
		"b": tBool, "n": tNum, "k": tNum, "s": tStr, "t": tTime,
		"xs": tList(tNum), "ss": tList(tStr), "xss": tList(tList(tNum)), "mp": tMap(tStr, tNum), "ms": tMap(tNum, tStr),
		"o": o, "o2": tObj("b", tStr, "a", tNum), "oo": tObj("p", o, "q", tList(tNum)), "os": tList(o),
		"w": tObj("m", tMaybe(tNum), "z", tNum), "e": tObj(),
		"fn": tNum, "range": tStr,
	}
}

// ---- signatures ------------------------------------------------------------------

func builtinSigs() []sig {
	var out []sig
	for _, f := range fun.BuiltIn() {
		t := fromRealType(f.Type)
		n := len(t.kids) - 1
		out = append(out, sig{name: t.name, params: t.kids[:n], ret: t.kids[n]})
	}
	return out
}

func (s sig) realVal() *val.Val {
	// type variables of one signature share their names; a suffix keeps the
	// signatures apart (yae's own TyVar does the same with a counter)
	ty := toReal(&rty{k: "fun", name: s.name, kids: append(append([]*rty{}, s.params...), s.ret)})
	return val.Fun(ty, func(args ...*val.Val) *val.Val { return nil })
}

func renameVars(t *rty, suffix string) *rty {
	if t.k == "var" {
		return tVar(t.name + suffix)
	}
	c := *t
	c.kids = make([]*rty, len(t.kids))
	for i, k := range t.kids {
		c.kids[i] = renameVars(k, suffix)
	}
	return &c
}

func mkSig(id int, name string, ret *rty, params ...*rty) sig {
	suffix := fmt.Sprintf("_u%d", id)
	s := sig{name: name, ret: renameVars(ret, suffix)}
	for _, p := range params {
		s.params = append(s.params, renameVars(p, suffix))
	}
	return s
}

// the user-registered functions every configuration has
func c05StandardExtras() []sig {
	a := tVar("a")
	return []sig{
		mkSig(1, "geta", tNum, tObj("a", tNum, "b", tStr)),
		mkSig(2, "id", a, a),
		mkSig(3, "pick", a, tBool, a, a),
		mkSig(4, "mk", tList(a), a),
		mkSig(5, "sameT", tBool, a, a),
		mkSig(6, "fld", a, tObj("a", a, "b", tStr)),
		mkSig(7, "lookup", tVar("v"), tMap(tVar("k"), tVar("v")), tVar("k")),
	}
}

// the pool of overloads of f whose registration order is permuted
func c05OverloadPool() []sig {
	a, b := tVar("a"), tVar("b")
	return []sig{
		mkSig(10, "f", tNum, tNum),                            // mono
		mkSig(11, "f", tStr, tStr),                            // mono
		mkSig(12, "f", tNum, tObj("a", tNum, "b", tStr)),      // mono over an object
		mkSig(13, "f", tList(a), a),                           // poly
		mkSig(14, "f", a, tList(a)),                           // poly
		mkSig(15, "f", b, tNum),                               // poly, result never concrete
		mkSig(16, "f", a, tList(tNum), a),                     // poly with a concrete list parameter
		mkSig(17, "f", a, tList(b), a),                        // poly, list of anything
		mkSig(18, "f", tBool, a, a),                           // poly, repeated variable
		mkSig(19, "f", tBool, tNum, tStr),                     // mono, arity 2
		mkSig(20, "f", tStr, tObj("b", tStr, "a", a)),         // poly over an object, other field order
	}
}

// ---- program generation -------------------------------------------------------------

type leaf struct {
	e *gx
	t *rty
}

func c05Leaves() []leaf {
	env := c05RefEnv()
	var ls []leaf
	for _, v := range []string{"b", "n", "s", "t", "xs", "ss", "xss", "mp", "ms", "o", "o2", "oo", "os", "w", "e", "fn", "zz"} {
		ls = append(ls, leaf{gVar(v), env[v]})
	}
	o := tObj("a", tNum, "b", tStr)
	ls = append(ls,
		leaf{gLit("1", tNum), tNum}, leaf{gLit(`"x"`, tStr), tStr}, leaf{gLit("true", tBool), tBool}, leaf{gLit("'2020-01-01 00:00:00'", tTime), tTime},
		leaf{gList(), tList(tBot)}, leaf{gMap(), tMap(tBot, tBot)},
		leaf{gObj([]string{"a", "b"}, gLit("1", tNum), gLit(`"x"`, tStr)), o},
		leaf{gObj([]string{"b", "a"}, gLit(`"x"`, tStr), gLit("1", tNum)), tObj("b", tStr, "a", tNum)},
		leaf{gMem(gVar("w"), "m"), tMaybe(tNum)},
	)
	return ls
}

func funNames(sigs []sig, arity int) []string {
	seen := map[string]bool{}
	var out []string
	for _, s := range sigs {
		if len(s.params) == arity && !seen[s.name] && isIdentLike(s.name) {
			seen[s.name] = true
			out = append(out, s.name)
		}
	}
	sort.Strings(out)
	return out
}

func opNamesOf(sigs []sig, arity int) []string {
	seen := map[string]bool{}
	var out []string
	for _, s := range sigs {
		if len(s.params) == arity && !seen[s.name] && !isIdentLike(s.name) {
			seen[s.name] = true
			out = append(out, s.name)
		}
	}
	sort.Strings(out)
	return out
}

// all programs with exactly one operator / constructor over the leaves
func c05OneLevel(sigs []sig) []*gx {
	ls := c05Leaves()
	var small []leaf // for the three-operand forms
	for _, l := range ls {
		switch l.e.src() {
		case "b", "n", "s", "xs", "mp", "o", "1", `"x"`, "[]", "[:]", "w.m", "zz":
			small = append(small, l)
		}
	}
	var out []*gx
	for _, x := range ls {
		for _, op := range opNamesOf(sigs, 1) {
			out = append(out, gUn(op, x.e))
		}
		for _, f := range funNames(sigs, 1) {
			out = append(out, gCall(f, x.e), gMeth(f, x.e))
		}
		for _, f := range []string{"a", "b", "p", "q", "m", "zz"} {
			out = append(out, gMem(x.e, f))
		}
		out = append(out, gList(x.e), gObj([]string{"a"}, x.e), gCallExpr(x.e, gLit("1", tNum)), gCall("nosuchfun", x.e))
		for _, y := range ls {
			for _, op := range opNamesOf(sigs, 2) {
				out = append(out, gBin(op, x.e, y.e))
			}
			for _, f := range funNames(sigs, 2) {
				out = append(out, gCall(f, x.e, y.e))
			}
			out = append(out, gSub(x.e, y.e), gList(x.e, y.e), gMap(x.e, y.e),
				gObj([]string{"a", "b"}, x.e, y.e), gObj([]string{"b", "a"}, x.e, y.e), gObj([]string{"a", "a"}, x.e, y.e),
				gMeth("get", x.e, y.e), gMeth("isset", x.e, y.e))
		}
	}
	for _, x := range small {
		for _, y := range small {
			for _, z := range small {
				out = append(out, gTern(x.e, y.e, z.e), gList(x.e, y.e, z.e))
				for _, f := range funNames(sigs, 3) {
					out = append(out, gCall(f, x.e, y.e, z.e))
				}
			}
			for _, z := range small[:4] {
				for _, u := range small[:4] {
					out = append(out, gMap(x.e, y.e, z.e, u.e))
				}
			}
		}
	}
	return out
}

// type-directed generator of well-typed programs
type c05Gen struct {
	rng    *rand.Rand
	sigs   []sig
	leaves []leaf
	pool   []*rty // types a type variable may be instantiated with
}

func newC05Gen(rng *rand.Rand, sigs []sig) *c05Gen {
	o := tObj("a", tNum, "b", tStr)
	return &c05Gen{rng: rng, sigs: sigs, leaves: c05Leaves(),
		pool: []*rty{tNum, tStr, tBool, tTime, tList(tNum), tList(tStr), o, tObj("b", tStr, "a", tNum), tMap(tStr, tNum), tMaybe(tNum), tList(o), tList(tList(tNum))}}
}

func typeVars(t *rty, into map[string]bool) {
	if t.k == "var" {
		into[t.name] = true
	}
	for _, k := range t.kids {
		typeVars(k, into)
	}
}

// gen returns an expression of type t (nil if it finds none).
func (g *c05Gen) gen(t *rty, depth int) *gx {
	var leafChoices []*gx
	for _, l := range g.leaves {
		if l.t != nil && refTyEq(l.t, t) && l.e.name != "fn" {
			leafChoices = append(leafChoices, l.e)
		}
	}
	if depth <= 0 || (len(leafChoices) > 0 && g.rng.Intn(3) == 0) {
		if len(leafChoices) > 0 {
			return leafChoices[g.rng.Intn(len(leafChoices))].clone()
		}
		if depth <= -2 {
			return nil
		}
	}
	for attempt := 0; attempt < 12; attempt++ {
		switch g.rng.Intn(8) {
		case 0: // literal constructors
			switch t.k {
			case "list":
				if t.kids[0].k == "bot" {
					return gList()
				}
				n := 1 + g.rng.Intn(3)
				var ks []*gx
				for i := 0; i < n; i++ {
					k := g.gen(t.kids[0], depth-1)
					if k == nil {
						break
					}
					ks = append(ks, k)
				}
				if len(ks) == n {
					return gList(ks...)
				}
			case "map":
				if t.kids[0].isPrim() {
					n := 1 + g.rng.Intn(2)
					var ks []*gx
					for i := 0; i < n; i++ {
						k, v := g.gen(t.kids[0], depth-1), g.gen(t.kids[1], depth-1)
						if k == nil || v == nil {
							break
						}
						ks = append(ks, k, v)
					}
					if len(ks) == 2*n {
						return gMap(ks...)
					}
				}
			case "obj":
				var ks []*gx
				for _, ft := range t.kids {
					k := g.gen(ft, depth-1)
					if k == nil {
						break
					}
					ks = append(ks, k)
				}
				if len(ks) == len(t.kids) {
					return gObj(append([]string{}, t.fields...), ks...)
				}
			}
		case 1: // member of an object that has such a field
			for _, l := range g.leaves {
				if l.t != nil && l.t.k == "obj" && g.rng.Intn(2) == 0 {
					for i, f := range l.t.fields {
						if refTyEq(l.t.kids[i], t) {
							return gMem(l.e.clone(), f)
						}
					}
				}
			}
		case 2: // subscript
			if g.rng.Intn(2) == 0 {
				if l, i := g.gen(tList(t), depth-1), g.gen(tNum, depth-1); l != nil && i != nil {
					return gSub(l, i)
				}
			} else if l, i := g.gen(tMap(tStr, t), depth-1), g.gen(tStr, depth-1); l != nil && i != nil {
				return gSub(l, i)
			}
		default: // a function or operator whose result is t
			s := g.sigs[g.rng.Intn(len(g.sigs))]
			σ := map[string]*rty{}
			if !refMatchStrict(s.ret, t, σ) {
				continue
			}
			vs := map[string]bool{}
			for _, p := range s.params {
				typeVars(p, vs)
			}
			names := make([]string, 0, len(vs))
			for v := range vs {
				names = append(names, v)
			}
			sort.Strings(names)
			for _, v := range names {
				if _, ok := σ[v]; !ok {
					σ[v] = g.pool[g.rng.Intn(len(g.pool))]
				}
			}
			var args []*gx
			ok := true
			for _, p := range s.params {
				pt, fine := refSubst(p, σ, 32)
				if !fine {
					ok = false
					break
				}
				if pt.k == "map" && !pt.kids[0].isPrim() && pt.kids[0].k != "bot" {
					ok = false
					break
				}
				a := g.gen(pt, depth-1)
				if a == nil {
					ok = false
					break
				}
				args = append(args, a)
			}
			if !ok {
				continue
			}
			switch {
			case !isIdentLike(s.name) && len(args) == 1:
				return gUn(s.name, args[0])
			case !isIdentLike(s.name) && len(args) == 2:
				return gBin(s.name, args[0], args[1])
			case s.name == "if" && g.rng.Intn(2) == 0:
				return gTern(args[0], args[1], args[2])
			case len(args) > 0 && g.rng.Intn(4) == 0:
				return gMeth(s.name, args[0], args[1:]...)
			default:
				return gCall(s.name, args...)
			}
		}
	}
	if len(leafChoices) > 0 {
		return leafChoices[g.rng.Intn(len(leafChoices))].clone()
	}
	return nil
}

func nodesOf(e *gx, acc *[]*gx) {
	*acc = append(*acc, e)
	for _, k := range e.kids {
		nodesOf(k, acc)
	}
}

// mutate applies one type-breaking edit at one point (on a clone).
func (g *c05Gen) mutate(e *gx) *gx {
	c := e.clone()
	var ns []*gx
	nodesOf(c, &ns)
	n := ns[g.rng.Intn(len(ns))]
	repl := func() *gx { return g.leaves[g.rng.Intn(len(g.leaves))].e.clone() }
	switch g.rng.Intn(7) {
	case 0, 1: // another leaf (usually of another type) in place of a subexpression
		*n = *repl()
	case 2: // drop an argument / element
		if len(n.kids) > 0 && n.k != "mem" && n.k != "sub" && n.k != "map" && n.k != "tern" && n.k != "un" && n.k != "bin" {
			i := g.rng.Intn(len(n.kids))
			n.kids = append(n.kids[:i:i], n.kids[i+1:]...)
			if n.k == "obj" {
				n.fields = append(n.fields[:i:i], n.fields[i+1:]...)
			}
			if n.k == "meth" && len(n.kids) == 0 {
				*n = *repl()
			}
		} else {
			*n = *repl()
		}
	case 3: // add an argument / element
		switch n.k {
		case "call", "list", "meth":
			n.kids = append(n.kids, repl())
		case "obj":
			n.kids = append(n.kids, repl())
			n.fields = append(n.fields, []string{"a", "b", "c"}[g.rng.Intn(3)])
		default:
			*n = *gList(n.clone(), repl())
		}
	case 4: // rename a field / function / operator
		switch n.k {
		case "mem":
			n.name = []string{"a", "b", "zz", "p"}[g.rng.Intn(4)]
		case "call", "meth":
			n.name = []string{"len", "abs", "max", "get", "string", "geta", "id", "nosuchfun"}[g.rng.Intn(8)]
		case "bin":
			n.name = []string{"+", "-", "==", "<", "&&", "^"}[g.rng.Intn(6)]
		case "un":
			n.name = []string{"-", "!", "+"}[g.rng.Intn(3)]
		case "obj":
			if len(n.fields) > 0 {
				n.fields[g.rng.Intn(len(n.fields))] = []string{"a", "b", "c"}[g.rng.Intn(3)]
			}
		default:
			*n = *gMem(n.clone(), "a")
		}
	case 5: // wrap: subscript / member / call on the node
		switch g.rng.Intn(3) {
		case 0:
			*n = *gSub(n.clone(), repl())
		case 1:
			*n = *gMem(n.clone(), []string{"a", "b"}[g.rng.Intn(2)])
		default:
			*n = *gCall([]string{"len", "abs", "string", "geta", "id", "mk"}[g.rng.Intn(6)], n.clone())
		}
	default: // swap two operands
		if len(n.kids) >= 2 && n.k != "map" {
			i, j := g.rng.Intn(len(n.kids)), g.rng.Intn(len(n.kids))
			n.kids[i], n.kids[j] = n.kids[j], n.kids[i]
		} else {
			*n = *repl()
		}
	}
	return c
}

// ---- one configuration = one engine ------------------------------------------------------

type c05Engine struct {
	base  *types.Env
	desc  string
	expr  *yae.Expr
	tenv  *types.Env
	ref   *refChecker
	chunk *chunk
}

func newC05Engine(desc string, extras []sig, c *chunk) *c05Engine {
	e := yae.NewExpr()
	sigs := builtinSigs()
	for _, s := range extras {
		e.RegisterFun(s.realVal())
		sigs = append(sigs, s)
	}
	return &c05Engine{desc: desc, expr: e, tenv: e.VerifSynTypeEnv(), ref: &refChecker{vars: c05RefEnv(), sigs: sigs}, chunk: c}
}

// typeEnv: a fresh environment per call (Compile links it to the engine's
// function table and refuses an environment that is already linked).
func (en *c05Engine) typeEnv() *types.Env {
	if en.base == nil {
		env, err := conv.TypeEnvOf(c05HostEnv())
		if err != nil {
			panic("harness: environment does not convert: " + err.Error())
		}
		// the hand-written reference environment must describe the same host value
		for name, want := range en.ref.vars {
			got, ok := env.Get(name)
			if !ok || !refTyEq(fromRealType(got), want) {
				panic("harness: reference environment differs from the converted host value at " + name)
			}
		}
		en.base = env
	}
	env := types.NewEnv()
	en.base.ForEach(func(name string, t *types.Type) { env.Put(name, t) })
	return env
}

func (en *c05Engine) check(p *gx, family string) {
	c := en.chunk
	src := p.src()
	c.evals++
	if p.size() >= 2 {
		c.nontrivial2(en.desc, src)
	}
	en.ref.reset()
	want, rej := en.ref.check(p)
	if rej != nil && strings.HasPrefix(rej.rule, "call/function-valued") || rej != nil && strings.HasPrefix(rej.rule, "harness/") {
		c.stat["programs outside the reference (skipped)"]++
		return
	}
	input := func() string { return fmt.Sprintf("functions: %s ; program: %s", en.desc, src) }

	// the public path: Compile
	var cerr error
	if pv := catch(func() { _, cerr = en.expr.Compile(src, en.typeEnv()) }); pv != nil {
		c.fail("C05/compile-panics", input(), "a value or an error", fmt.Sprint(pv), family)
		return
	}
	// the same pipeline step by step, to read the inferred type
	var got *types.Type
	var ierr error
	if rej != nil && cerr != nil {
		c.stat["ill-typed programs"]++
		c.stat["ill-typed: "+rej.rule]++
		return
	}
	if pv := catch(func() {
		ast := trans.Desugar(en.expr.Parse(src))
		got, ierr = types.Infer(ast, en.typeEnv().Inherit(en.tenv))
	}); pv != nil {
		ierr = fmt.Errorf("%v", pv)
	}
	if (cerr == nil) != (ierr == nil) {
		// Compile = parse + desugar + check + code generation; a difference means code generation failed
		c.stat["Compile and types.Infer disagree (code generation)"]++
	}
	// a disagreement is filed under the defect class the reference can name
	defect := ""
	switch {
	case en.ref.monoObjFieldOrder || (en.ref.monoObjParam && en.ref.bothFieldOrders()):
		defect = "C05/overload/mono-lookup-misses-object-argument-with-other-field-order"
	case en.ref.skippedBotOnly:
		defect = "C05/overload/poly-overload-chosen-by-bottom-wildcard-then-rejected"
	}
	key := func(generic string) string {
		// the two known defects have a fixed symptom: the real checker
		// REJECTS (or, for the mono lookup, lets a later polymorphic overload
		// take the call); an ill-typed program that is accepted is never one
		// of them
		if defect != "" && !strings.HasPrefix(generic, "C05/accepts-ill-typed") {
			if en.ref.skippedBotOnly && !strings.HasPrefix(generic, "C05/rejects-well-typed") {
				return generic
			}
			return defect
		}
		return generic
	}
	switch {
	case rej == nil && cerr != nil:
		c.fail(key("C05/rejects-well-typed"), input(), "well-typed : "+want.String(), "compile error: "+cerr.Error(), family)
	case rej != nil && cerr == nil:
		c.fail(key("C05/accepts-ill-typed/"+rej.rule), input(), "ill-typed ("+rej.rule+" at "+rej.at+")", "compiles", family)
	case rej == nil && cerr == nil:
		c.stat["well-typed programs"]++
		if ierr == nil && got != nil {
			if g := fromRealType(got); !refTyEq(g, want) {
				c.fail(key("C05/inferred-type-differs/"+p.k), input(), "type "+want.String(), "type "+g.String(), family)
			}
		}
	}
}

// ---- work list, sharding -----------------------------------------------------------------

type c05Config struct {
	desc   string
	extras []sig
	kind   string // base | order
}

func c05Configs(thorough bool) []c05Config {
	std := c05StandardExtras()
	cfgs := []c05Config{{desc: "built-ins + " + sigList(std), extras: std, kind: "base"}}
	pool := c05OverloadPool()
	if !thorough {
		// quick tier: 8 of the 11 overloads (400 ordered selections)
		pool = []sig{pool[0], pool[2], pool[3], pool[4], pool[5], pool[6], pool[7], pool[8]}
	}
	var rec func(chosen []int)
	rec = func(chosen []int) {
		if len(chosen) > 0 {
			var ex []sig
			for _, i := range chosen {
				ex = append(ex, pool[i])
			}
			cfgs = append(cfgs, c05Config{desc: "built-ins + (in this order) " + sigList(ex), extras: ex, kind: "order"})
		}
		if len(chosen) == 3 {
			return
		}
		for i := range pool {
			used := false
			for _, j := range chosen {
				if i == j {
					used = true
				}
			}
			if !used {
				rec(append(append([]int{}, chosen...), i))
			}
		}
	}
	rec(nil)
	return cfgs
}

func sigList(ss []sig) string {
	xs := make([]string, len(ss))
	for i, s := range ss {
		xs[i] = s.String()
	}
	return strings.Join(xs, " ; ")
}

// programs that call f, for the registration-order configurations
func c05OrderPrograms(thorough bool) []*gx {
	ls := c05Leaves()
	var out []*gx
	var two []leaf
	for _, l := range ls {
		switch l.e.src() {
		case "b", "n", "s", "xs", "o2", "1", "[]", "xss":
			two = append(two, l)
		case "ss", "o", `"x"`, "true":
			if thorough {
				two = append(two, l)
			}
		}
	}
	for _, x := range ls {
		out = append(out, gCall("f", x.e))
		if thorough || x.e.k == "obj" || x.e.name == "o2" || x.e.name == "xs" {
			out = append(out, gMeth("f", x.e))
		}
	}
	out = append(out, gCall("f", gList(gList())), gCall("f", gList(gLit("1", tNum))), gCall("f"),
		gCall("f", gCall("f", gLit("1", tNum))), gCall("f", gCall("f", gVar("xs"))), gBin("+", gCall("f", gVar("n")), gLit("1", tNum)),
		gCall("len", gCall("f", gVar("s"))), gCall("f", gObj([]string{"b", "a"}, gVar("s"), gVar("xs"))), gCall("f", gObj([]string{"a", "b"}, gVar("xs"), gVar("s"))))
	for _, x := range two {
		for _, y := range two {
			out = append(out, gCall("f", x.e, y.e))
		}
	}
	return out
}

type c05Shard struct {
	Evaluations int               `json:"evaluations"`
	Distinct    []uint64          `json:"distinct"`
	Failures    []report.Failure  `json:"failures"`
	Counts      map[string]int    `json:"counts"`
	Samples     []string          `json:"samples"`
}

// RunC05Shard does the part of the work whose configuration index is
// congruent to shard modulo of; it is single-threaded because yae's type
// variable counter (types.TyVar) is a process-wide unsynchronised variable.
func RunC05Shard(cfg Config, shard, of int, out string) error {
	c := newChunk()
	cfgs := c05Configs(cfg.Thorough)
	orderProgs := c05OrderPrograms(cfg.Thorough)
	nRandom, nMut := 6000, 3
	if cfg.Thorough {
		nRandom, nMut = 60000, 4
	}
	for ci, cf := range cfgs {
		switch cf.kind {
		case "order":
			if ci%of != shard {
				continue
			}
			en := newC05Engine(cf.desc, cf.extras, c)
			for _, p := range orderProgs {
				en.check(p, "calls of f under a registration order")
			}
		case "base":
			en := newC05Engine(cf.desc, cf.extras, c)
			one := c05OneLevel(en.ref.sigs)
			for i, p := range one {
				if i%of == shard {
					en.check(p, "one operator over the leaves")
				}
			}
			// every shard generates the same sequence and keeps its share
			rng := rand.New(rand.NewSource(cfg.Seed*104729 + 5))
			g := newC05Gen(rng, en.ref.sigs)
			targets := g.pool
			for i := 0; i < nRandom; i++ {
				t := targets[rng.Intn(len(targets))]
				p := g.gen(t, 1+rng.Intn(4))
				var muts []*gx
				if p != nil {
					for m := 0; m < nMut; m++ {
						muts = append(muts, g.mutate(p))
					}
				}
				if p == nil || i%of != shard {
					continue
				}
				if i < 4*of {
					c.sample(p.src())
				}
				en.check(p, "type-directed program")
				for _, m := range muts {
					en.check(m, "single-point mutation of a type-directed program")
				}
			}
		}
	}
	sh := c05Shard{Evaluations: c.evals, Failures: c.fails, Counts: map[string]int{}, Samples: c.samples}
	for h := range c.distinct {
		sh.Distinct = append(sh.Distinct, h)
	}
	for k, n := range c.nfail {
		sh.Counts[k] += n
	}
	for k, n := range c.stat {
		sh.Counts["~"+k] += n
	}
	b, err := json.Marshal(sh)
	if err != nil {
		return err
	}
	return os.WriteFile(out, b, 0o644)
}

func RunC05(cfg Config) *report.Report {
	r := &report.Report{
		Property: "C05",
		Contract: "Expr.Compile(src, env) succeeds iff an independent reference checker (typing rules of the property statement / DESIGN Appendix D: homogeneous lists, maps with primitive keys, objects with distinct fields, member only on objects having the field, subscript list-by-num / map-by-key-type, call = exactly matching monomorphic overload first, else the first registered polymorphic overload that can be instantiated strictly with a ground result, identifiers bound and not reserved) accepts, and types.Infer on the same desugared tree returns the reference type; rejection happens at compile time",
		Space:    "environment with variables of every type (bool num str time list[num] list[str] list[list[num]] map[str,num] map[num,str] {a:num,b:str} {b:str,a:num} nested object, list of objects, object with a maybe field, empty object, two reserved names); configuration A: built-ins + geta id pick mk sameT fld lookup: every program with exactly one operator / constructor / call / member / subscript / method call over 26 leaves (variables, literals, [] [:] and both field orders of an object literal), 3-operand forms over 12 leaves, plus seeded type-directed programs of depth <= 5 and single-point mutations of each (replace subexpression, drop / add argument, rename field / function / operator, wrap, swap); configurations B: every ordered selection of 1..3 overloads of f out of 11 (monomorphic, monomorphic over an object, polymorphic, never-concrete result, concrete list parameter vs list of anything) x the calls f(x), x.f(), f(x,y) over the leaves",
		Rule:     "distinct = (function configuration, program text) by 64-bit FNV-1a hash; non-trivial = the program has at least two nodes",
	}
	shards := runtime.NumCPU()
	if shards > 16 {
		shards = 16
	}
	if cfg.Thorough {
		r.Bound = fmt.Sprintf("one-operator programs exhaustively; 60000 type-directed programs of depth <= 5 with 4 mutants each, seed %d; all 1111 ordered selections of 1..3 out of 11 overloads", cfg.Seed)
	} else {
		r.Bound = fmt.Sprintf("one-operator programs exhaustively; 6000 type-directed programs of depth <= 5 with 3 mutants each, seed %d; all 400 ordered selections of 1..3 out of 8 overloads, reduced set of calls", cfg.Seed)
	}
	exe, err := os.Executable()
	if err != nil {
		r.Notes = append(r.Notes, "harness error: "+err.Error())
		return r
	}
	dir, _ := os.MkdirTemp("", "c05shards")
	defer os.RemoveAll(dir)
	tier := "quick"
	if cfg.Thorough {
		tier = "thorough"
	}
	var wg sync.WaitGroup
	errs := make([]error, shards)
	outs := make([]string, shards)
	for i := 0; i < shards; i++ {
		outs[i] = fmt.Sprintf("%s/shard%d.json", dir, i)
		wg.Add(1)
		go func(i int) {
			defer wg.Done()
			cmd := exec.Command(exe, "-property", "C05", "-tier", tier, "-seed", fmt.Sprint(cfg.Seed), "-out", outs[i], "-shard", fmt.Sprintf("%d/%d", i, shards))
			cmd.Stderr = os.Stderr
			cmd.Env = append(os.Environ(), "GOMAXPROCS=1", "GOGC=400")
			errs[i] = cmd.Run()
		}(i)
	}
	wg.Wait()
	distinct := map[uint64]struct{}{}
	counts := map[string]int{}
	var fails []report.Failure
	for i := 0; i < shards; i++ {
		if errs[i] != nil {
			r.AddFailure(report.Failure{Key: "C05/harness/shard-crashed", Input: fmt.Sprintf("shard %d", i), Expected: "shard completes", Got: errs[i].Error()})
			continue
		}
		b, err := os.ReadFile(outs[i])
		if err != nil {
			r.AddFailure(report.Failure{Key: "C05/harness/shard-crashed", Input: fmt.Sprintf("shard %d", i), Expected: "shard output", Got: err.Error()})
			continue
		}
		var sh c05Shard
		if err := json.Unmarshal(b, &sh); err != nil {
			r.AddFailure(report.Failure{Key: "C05/harness/shard-crashed", Input: fmt.Sprintf("shard %d", i), Expected: "shard output", Got: err.Error()})
			continue
		}
		r.Evaluations += sh.Evaluations
		for _, h := range sh.Distinct {
			distinct[h] = struct{}{}
		}
		fails = append(fails, sh.Failures...)
		mergeCounts(counts, sh.Counts)
		for _, s := range sh.Samples {
			r.Sample(s)
		}
	}
	// smallest witnesses first
	sort.SliceStable(fails, func(i, j int) bool {
		if fails[i].Key != fails[j].Key {
			return fails[i].Key < fails[j].Key
		}
		if len(fails[i].Input) != len(fails[j].Input) {
			return len(fails[i].Input) < len(fails[j].Input)
		}
		return fails[i].Input < fails[j].Input
	})
	for i, f := range fails {
		if i > 0 && fails[i-1].Key == f.Key && fails[i-1].Input == f.Input {
			continue
		}
		r.AddFailure(f)
	}
	r.DistinctNontrivial = len(distinct)
	c05ReusedEnv(r)
	r.Space += "; plus 2 scenarios of overloads registered one after the other (polymorphic first, then exactly matching monomorphic ones), each program compiled after every step through a typing environment that has been used before and through a fresh one"
	r.Exhaustive = false
	r.Notes = append(r.Notes,
		fmt.Sprintf("run as %d single-threaded worker processes: yae's type-variable counter is process-wide and unsynchronised, concurrent type checking in one process could give spurious results", shards),
		"The one-operator family and the registration-order family are enumerated completely; the type-directed family is a seeded sample, hence exhaustive=false.",
	)
	noteCounts(r, counts)
	return r
}
