package syn

import (
	"fmt"
	"math/rand"
	"strings"

	"github.com/goghcrow/yae/types"

	"bounded/report"
)

func c17Leaves() []*rty { return []*rty{tNum, tStr, tBool, tTime, tVar("a"), tVar("b"), tBot} }

// all types of depth <= 1
func c17Depth1() []*rty {
	L := c17Leaves()
	out := append([]*rty{}, L...)
	for _, l := range L {
		out = append(out, tList(l), tMaybe(l), tObj("x", l), tFun("f", l))
	}
	out = append(out, tObj())
	for _, k := range L {
		for _, v := range L {
			out = append(out, tMap(k, v), tObj("x", k, "y", v), tObj("y", v, "x", k), tFun("f", v, k))
		}
	}
	return out
}

// the depth-1 types used as components of depth-2 types
func c17Core1() []*rty {
	var out []*rty
	for _, l := range c17Leaves() {
		out = append(out, tList(l), tMaybe(l), tMap(tStr, l), tMap(tVar("a"), l), tObj("x", l),
			tObj("x", l, "y", tNum), tObj("y", tNum, "x", l), tFun("f", tNum, l))
	}
	return out
}

func c17Depth2() []*rty {
	var out []*rty
	for _, c := range c17Core1() {
		out = append(out, tList(c), tMaybe(c), tMap(tStr, c), tMap(tVar("a"), c), tObj("x", c),
			tObj("x", c, "y", tNum), tObj("y", tNum, "x", c), tObj("x", c, "y", tVar("a")), tObj("y", tVar("a"), "x", c),
			tFun("f", tNum, c), tFun("f", c, tNum), tFun("f", tVar("a"), c))
	}
	return out
}

// components of argument tuples
func c17TupleElems() []*rty {
	a, b := tVar("a"), tVar("b")
	out := c17Leaves()
	for _, l := range c17Leaves() {
		out = append(out, tList(l))
	}
	out = append(out, tMap(a, b), tMap(tStr, a), tMap(tStr, tNum), tMap(tBot, tBot), tObj("x", a, "y", tNum), tObj("y", tNum, "x", a),
		tObj("x", tNum, "y", tNum), tObj("y", tNum, "x", tStr), tMaybe(a), tMaybe(tNum), tList(tList(a)), tList(tList(tNum)), tList(tList(tBot)),
		tFun("f", b, a), tFun("f", tNum, tNum))
	return out
}

// wellFormed: DESIGN Appendix D — ⊥ is only the element type of [] and [:],
// i.e. it occurs only as list[⊥] and map[⊥,⊥] (a bare ⊥ stands for that
// position when the unifier descends).
func wellFormed(t *rty, top bool) bool {
	switch t.k {
	case "bot":
		return top
	case "list":
		return t.kids[0].k == "bot" || wellFormed(t.kids[0], false)
	case "map":
		if t.kids[0].k == "bot" || t.kids[1].k == "bot" {
			return t.kids[0].k == "bot" && t.kids[1].k == "bot"
		}
	}
	for _, k := range t.kids {
		if !wellFormed(k, false) {
			return false
		}
	}
	return true
}

func onlyWellFormed(ts []*rty) []*rty {
	var out []*rty
	for _, t := range ts {
		if wellFormed(t, true) {
			out = append(out, t)
		}
	}
	return out
}

func permuteFields(t *rty) *rty {
	c := *t
	c.kids = make([]*rty, len(t.kids))
	for i, k := range t.kids {
		c.kids[i] = permuteFields(k)
	}
	if t.k == "obj" {
		n := len(t.kids)
		c.fields = make([]string, n)
		for i := range t.fields {
			c.fields[n-1-i] = t.fields[i]
		}
		ks := make([]*rty, n)
		for i := range c.kids {
			ks[n-1-i] = c.kids[i]
		}
		c.kids = ks
	}
	return &c
}

func substString(m map[string]*types.Type) string {
	var xs []string
	for _, v := range []string{"a", "b"} {
		if t, ok := m[v]; ok {
			xs = append(xs, "'"+v+":="+t.String())
		}
	}
	for k, t := range m {
		if k != "a" && k != "b" {
			xs = append(xs, "'"+k+":="+t.String())
		}
	}
	return "{" + strings.Join(xs, ", ") + "}"
}

// c17Pair checks every clause of the property on the ordered pair (x, y).
func c17Pair(x, y *rty, c *chunk) {
	c.evals++
	if len(x.kids) > 0 || len(y.kids) > 0 {
		c.nontrivial2(x.String(), y.String())
	}
	input := func() string { return fmt.Sprintf("x = %s ; y = %s", x, y) }
	rx, ry := toReal(x), toReal(y)

	// --- equality --------------------------------------------------------
	want := refTyEq(x, y)
	var eq, eqRev bool
	if p := catch(func() { eq = types.Equals(rx, ry); eqRev = types.Equals(toReal(y), toReal(x)) }); p != nil {
		c.fail("C17/equals/panic", input(), "a boolean", fmt.Sprint(p), "")
		return
	}
	if eq != want {
		cl := "other"
		if want && objFieldOrderDiffers(x, y) {
			cl = "field-order"
		}
		c.fail("C17/equals/not-structural-identity/"+cl, input(), fmt.Sprint(want), fmt.Sprint(eq), "")
	}
	if eq != eqRev {
		c.fail("C17/equals/not-symmetric", input(), "Equals(x,y) == Equals(y,x)", fmt.Sprintf("%v vs %v", eq, eqRev), "")
	}
	if eq {
		c.stat["equal pairs"]++
	}

	// --- unification -----------------------------------------------------
	m := map[string]*types.Type{}
	var u *types.Type
	if p := catch(func() { u = types.Unify(rx, ry, m) }); p != nil {
		if e, ok := p.(error); ok && strings.Contains(e.Error(), "invalid type of map's key") {
			// the substitution instantiated a map key with a composite type;
			// the constructor refuses it: counted as "does not unify"
			c.stat["unify stopped by the map-key kind check"]++
			u = nil
		} else {
			c.fail("C17/unify/panic", input(), "a type or nil", fmt.Sprint(p), "")
			return
		}
	}
	if u != nil {
		c.stat["pairs that unify"]++
		s := map[string]*rty{}
		for k, t := range m {
			s[k] = fromRealType(t)
		}
		// no variable bound to a type containing itself
		for k, t := range s {
			if t.k == "var" && t.name == k {
				continue
			}
			full, ok := refSubst(t, s, 64)
			if !ok || full.occurs(k) {
				c.fail("C17/unify/occurs-check", input(), "no variable bound to a type containing itself", "σ = "+substString(m), "")
				return
			}
		}
		sx, ok1 := refSubst(x, s, 64)
		sy, ok2 := refSubst(y, s, 64)
		if !ok1 || !ok2 || !refTyEqBot(sx, sy) {
			c.fail("C17/unify/substitution-does-not-equalise", input(), "σ(x) equal to σ(y) (a ⊥ on the right stands for any type)", fmt.Sprintf("σ = %s ; σ(x) = %s ; σ(y) = %s", substString(m), sx, sy), "")
		}
	}

	// --- pattern against a variable-free type ----------------------------
	if y.ground() {
		c.stat["pattern / ground pairs"]++
		ms := map[string]*rty{}
		inst := refMatch(x, y, ms)
		if inst {
			c.stat["pattern / ground pairs with an instantiation"]++
		}
		switch {
		case inst && u == nil:
			c.fail("C17/match/fails-though-instantiation-exists", input(), fmt.Sprintf("unifies, e.g. σ = %v", ms), "nil", "")
		case !inst && u != nil:
			c.fail("C17/match/succeeds-without-instantiation", input(), "does not unify", "σ = "+substString(m), "")
		}
	}
}

// toRealShared builds the yae type with ONE node per distinct composite
// subterm of this side (a DAG), as a host program does that writes
// l := List(Num); Obj{x: l, y: l}.
func toRealShared(t *rty, cache map[string]*types.Type) *types.Type {
	if len(t.kids) == 0 {
		return toReal(t)
	}
	key := t.String()
	if r, ok := cache[key]; ok {
		return r
	}
	var r *types.Type
	kid := func(i int) *types.Type { return toRealShared(t.kids[i], cache) }
	switch t.k {
	case "list":
		r = types.List(kid(0))
	case "maybe":
		r = types.Maybe(kid(0))
	case "map":
		r = types.Map(kid(0), kid(1))
	case "obj":
		fs := make([]types.Field, len(t.kids))
		for i := range t.kids {
			fs[i] = types.Field{Name: t.fields[i], Val: kid(i)}
		}
		r = types.Obj(fs)
	case "tuple":
		xs := make([]*types.Type, len(t.kids))
		for i := range t.kids {
			xs[i] = kid(i)
		}
		r = types.Tuple(xs)
	case "fun":
		n := len(t.kids) - 1
		xs := make([]*types.Type, n)
		for i := 0; i < n; i++ {
			xs[i] = kid(i)
		}
		r = types.Fun(t.name, xs, kid(n))
	}
	cache[key] = r
	return r
}

// c17Shared: the outcome of Unify / Equals must not depend on whether equal
// subterms are one node or two.
func c17Shared(x, y *rty, c *chunk) {
	c.evals++
	input := fmt.Sprintf("x = %s ; y = %s (equal composite subterms of a side are one shared node)", x, y)
	var u1, u2 *types.Type
	var e1, e2 bool
	if p := catch(func() {
		u1 = types.Unify(toReal(x), toReal(y), map[string]*types.Type{})
		e1 = types.Equals(toReal(x), toReal(y))
	}); p != nil {
		return // reported by c17Pair
	}
	p := catch(func() {
		sx, sy := toRealShared(x, map[string]*types.Type{}), toRealShared(y, map[string]*types.Type{})
		e2 = types.Equals(sx, sy)
		u2 = types.Unify(sx, sy, map[string]*types.Type{})
	})
	switch {
	case p != nil:
		c.fail("C17/unify/shared-subterm-node/panic", input, fmt.Sprintf("as with unshared nodes: unifies=%v", u1 != nil), fmt.Sprintf("panic: %v", p), "")
	case (u1 != nil) != (u2 != nil):
		c.fail("C17/unify/shared-subterm-node/different-outcome", input, fmt.Sprintf("unifies=%v", u1 != nil), fmt.Sprintf("unifies=%v", u2 != nil), "")
	case e1 != e2:
		c.fail("C17/equals/shared-subterm-node/different-outcome", input, fmt.Sprint(e1), fmt.Sprint(e2), "")
	}
}

func c17Laws(x *rty, others []*rty, rng *rand.Rand, c *chunk) {
	// reflexivity on a structurally identical fresh copy and on the same pointer
	c.evals++
	r := toReal(x)
	if !types.Equals(r, r) || !types.Equals(r, toReal(x)) {
		c.fail("C17/equals/not-reflexive", x.String(), "true", "false", "")
	}
	// transitivity on triples drawn from the permutation class and neighbours
	p := permuteFields(x)
	cands := []*rty{x, p, permuteFields(p)}
	for i := 0; i < 3; i++ {
		cands = append(cands, others[rng.Intn(len(others))])
	}
	for _, a := range cands {
		for _, b := range cands {
			for _, d := range cands {
				c.evals++
				ab, bd, ad := types.Equals(toReal(a), toReal(b)), types.Equals(toReal(b), toReal(d)), types.Equals(toReal(a), toReal(d))
				if ab && bd && !ad {
					c.fail("C17/equals/not-transitive", fmt.Sprintf("%s ; %s ; %s", a, b, d), "Equals(a,c)", "false", "")
				}
			}
		}
	}
}

func RunC17(cfg Config) *report.Report {
	d1 := onlyWellFormed(c17Depth1())
	d2 := onlyWellFormed(c17Depth2())
	all := append(append([]*rty{}, d1...), d2...)
	el := onlyWellFormed(c17TupleElems())
	var tup1, tup2, gtup2 []*rty
	for _, a := range el {
		tup1 = append(tup1, tTuple(a))
		for _, b := range el {
			t := tTuple(a, b)
			tup2 = append(tup2, t)
			if t.ground() {
				gtup2 = append(gtup2, t)
			}
		}
	}
	nSample := 60000
	r := &report.Report{
		Property: "C17",
		Contract: "types.Equals(x,y) == structural identity with object fields by name (hence reflexive, symmetric, transitive; also checked directly); types.Unify(x,y,σ) != nil ⇒ σ acyclic (no variable bound to a type containing itself) and σ(x) equal to σ(y) modulo the documented ⊥ rule (⊥ on the right stands for any type; hence no variable bound to two different types); y variable-free ⇒ (Unify(x,y) != nil ⇔ a first-order instantiation of x equal to y exists, reference matcher); Unify / Equals do not panic and their outcome does not depend on whether equal subterms are one shared node or two",
		Space:    fmt.Sprintf("types over leaves {num str bool time 'a 'b ⊥}, ⊥ only as list[⊥] / map[⊥,⊥] / a bare side (DESIGN Appendix D): all %d types of depth <= 1 (list, maybe, map with any leaf as key, objects {} {x} {x,y} {y,x}, fun of arity 0 and 1), %d types of depth 2 built from the depth-1 components list[l] maybe[l] map[str,l] map['a,l] {x:l} {x:l,y:num} {y:num,x:l} fun(l)→num (wrapped by list, maybe, map[str,_], map['a,_], {x}, {x,y:num}, {y:num,x}, {x,y:'a}, {y:'a,x}, fun in both positions); argument tuples (outermost only) of arity 1 and 2 over %d components incl. repeated variables, permuted fields, list[list[⊥]]; ordered pairs (x,y); plus all pairs of (e,e) / {x:e,y:e} / list[{x:e,y:e}] built with ONE shared node per repeated component", len(d1), len(d2), len(el)),
		Rule:     "distinct = ordered pair of rendered types by 64-bit FNV-1a hash; non-trivial = at least one side is not a leaf",
	}
	distinct := map[uint64]struct{}{}
	counts := map[string]int{}

	// laws on every type
	mergeCounts(counts, parallel(r, distinct, 16, func(i int, c *chunk) {
		rng := rand.New(rand.NewSource(cfg.Seed*31 + int64(i)))
		for k := i; k < len(all); k += 16 {
			c17Laws(all[k], all, rng, c)
		}
		for k := i; k < len(tup2); k += 16 {
			c17Laws(tup2[k], tup2, rng, c)
		}
	}))

	if cfg.Thorough {
		r.Bound = fmt.Sprintf("all %d x %d ordered pairs of depth <= 2; all %d x %d pairs of 2-tuples against variable-free 2-tuples, all 1- against 2-tuples, %d sampled pairs of 2-tuples with variables on both sides (seed %d)", len(all), len(all), len(tup2), len(gtup2), 4*nSample, cfg.Seed)
		mergeCounts(counts, parallel(r, distinct, len(all), func(i int, c *chunk) {
			for _, y := range all {
				c17Pair(all[i], y, c)
			}
		}))
		mergeCounts(counts, parallel(r, distinct, len(tup2), func(i int, c *chunk) {
			for _, y := range gtup2 {
				c17Pair(tup2[i], y, c)
			}
			for _, y := range tup1 {
				c17Pair(tup2[i], y, c)
				c17Pair(y, tup2[i], c)
			}
		}))
		nSample *= 4
	} else {
		r.Bound = fmt.Sprintf("all %d x %d ordered pairs of depth <= 1; %d sampled pairs of depth <= 2; %d sampled pairs of 2-tuples against variable-free 2-tuples; %d sampled pairs of 2-tuples with variables on both sides (seed %d)", len(d1), len(d1), nSample, nSample, nSample, cfg.Seed)
		mergeCounts(counts, parallel(r, distinct, len(d1), func(i int, c *chunk) {
			for _, y := range d1 {
				c17Pair(d1[i], y, c)
			}
		}))
		mergeCounts(counts, parallel(r, distinct, 16, func(i int, c *chunk) {
			rng := rand.New(rand.NewSource(cfg.Seed*1009 + int64(i)))
			for k := 0; k < nSample/16; k++ {
				c17Pair(all[rng.Intn(len(all))], all[rng.Intn(len(all))], c)
				c17Pair(tup2[rng.Intn(len(tup2))], gtup2[rng.Intn(len(gtup2))], c)
			}
		}))
	}
	// shared nodes: pairs of 2-tuples / two-field objects with a repeated component
	var rep []*rty
	for _, e := range el {
		if len(e.kids) > 0 {
			rep = append(rep, tTuple(e, e), tObj("x", e, "y", e), tList(tObj("x", e, "y", e)))
		}
	}
	mergeCounts(counts, parallel(r, distinct, len(rep), func(i int, c *chunk) {
		for _, y := range rep {
			c.nontrivial2("shared:"+rep[i].String(), y.String())
			c17Shared(rep[i], y, c)
		}
	}))

	// variables on both sides of a tuple pair
	mergeCounts(counts, parallel(r, distinct, 16, func(i int, c *chunk) {
		rng := rand.New(rand.NewSource(cfg.Seed*2003 + int64(i)))
		for k := 0; k < nSample/16; k++ {
			x, y := tup2[rng.Intn(len(tup2))], tup2[rng.Intn(len(tup2))]
			if k == 0 {
				c.sample(fmt.Sprintf("x = %s ; y = %s", x, y))
			}
			c17Pair(x, y, c)
		}
	}))

	r.DistinctNontrivial = len(distinct)
	r.Exhaustive = cfg.Thorough
	if cfg.Thorough {
		r.Notes = append(r.Notes, "Exhaustive refers to the ordered pairs of the stated type universe and the pattern-tuple / ground-tuple pairs; tuple pairs with variables on both sides are sampled.")
	} else {
		r.Notes = append(r.Notes, "Quick tier: pairs of depth <= 1 are enumerated completely, depth 2 and tuples are sampled, so the space as a whole is not exhausted.")
	}
	r.Notes = append(r.Notes, "Observation outside the domain (not a failure): with ⊥ in a function parameter, e.g. x = map['a,fun('a)→num], y = map[str,fun(⊥)→num], Unify succeeds although the second occurrence of 'a meets ⊥ (parameters are substituted before they are unified), while the same shape under list / map / object fails; such types are not types of any expression.")
	r.Notes = append(r.Notes, "Except in the shared-node family every yae type is built afresh for each call (no node shared between the two sides or between two occurrences), as the type checker does for the pattern side.")
	noteCounts(r, counts)
	return r
}
