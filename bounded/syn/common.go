// Package syn holds the bounded stand-in harnesses for the front-end
// properties C05, C08, C09, C12 and C17.  Every harness checks the contract
// of its property at run time on the real yae code, over an enumerated input
// space with a stated bound; references (lexer, parser, matcher, type
// checker) are written from the property text and DESIGN Appendix D and share
// no code with yae.
package syn

import (
	"fmt"
	"hash/fnv"
	"runtime"
	"sort"
	"sync"

	"bounded/report"
)

type Config struct {
	Thorough bool
	Seed     int64
}

// chunk is the result of one unit of parallel work.  Chunks are merged in
// index order, so the report is deterministic whatever the scheduling was.
type chunk struct {
	evals    int
	distinct map[uint64]struct{}
	fails    []report.Failure
	nfail    map[string]int
	samples  []string
	stat     map[string]int
}

func newChunk() *chunk {
	return &chunk{distinct: map[uint64]struct{}{}, nfail: map[string]int{}, stat: map[string]int{}}
}

func hash64(s string) uint64 {
	h := fnv.New64a()
	_, _ = h.Write([]byte(s))
	return h.Sum64()
}

// hash2 is FNV-1a over a + 0x00 + b without allocating.
func hash2(a, b string) uint64 {
	h := uint64(14695981039346656037)
	for i := 0; i < len(a); i++ {
		h = (h ^ uint64(a[i])) * 1099511628211
	}
	h = (h ^ 0) * 1099511628211
	for i := 0; i < len(b); i++ {
		h = (h ^ uint64(b[i])) * 1099511628211
	}
	return h
}

func (c *chunk) nontrivial2(a, b string) { c.distinct[hash2(a, b)] = struct{}{} }

// nontrivial records a distinct non-trivial input (identified by the 64-bit
// FNV-1a hash of its canonical text).
func (c *chunk) nontrivial(id string) { c.distinct[hash64(id)] = struct{}{} }

func (c *chunk) fail(key, input, expected, got, detail string) {
	if c.nfail[key] >= 3 {
		c.nfail[key]++
		return
	}
	c.nfail[key]++
	c.fails = append(c.fails, report.Failure{Key: key, Input: input, Expected: expected, Got: got, Detail: detail})
}

func (c *chunk) sample(s string) {
	if len(c.samples) < 2 {
		c.samples = append(c.samples, s)
	}
}

// parallel runs f(i, chunk) for i in [0,n) on all cores and merges the chunks
// into r in index order.
func parallel(r *report.Report, distinct map[uint64]struct{}, n int, f func(i int, c *chunk)) map[string]int {
	chunks := make([]*chunk, n)
	var wg sync.WaitGroup
	work := make(chan int, n)
	for i := 0; i < n; i++ {
		work <- i
	}
	close(work)
	nw := runtime.NumCPU()
	if nw > n {
		nw = n
	}
	for w := 0; w < nw; w++ {
		wg.Add(1)
		go func() {
			defer wg.Done()
			for i := range work {
				c := newChunk()
				f(i, c)
				chunks[i] = c
			}
		}()
	}
	wg.Wait()
	counts := map[string]int{}
	for _, c := range chunks {
		r.Evaluations += c.evals
		for h := range c.distinct {
			distinct[h] = struct{}{}
		}
		for _, fl := range c.fails {
			r.AddFailure(fl)
		}
		for k, n := range c.nfail {
			counts[k] += n
		}
		for k, n := range c.stat {
			counts["~"+k] += n
		}
		for _, s := range c.samples {
			r.Sample(s)
		}
	}
	return counts
}

func noteCounts(r *report.Report, counts map[string]int) {
	keys := make([]string, 0, len(counts))
	for k := range counts {
		keys = append(keys, k)
	}
	sort.Strings(keys)
	for _, k := range keys {
		if k[0] == '~' {
			r.Notes = append(r.Notes, fmt.Sprintf("statistic %s: %d", k[1:], counts[k]))
		} else {
			r.Notes = append(r.Notes, fmt.Sprintf("violations under %s: %d inputs", k, counts[k]))
		}
	}
}

func mergeCounts(dst, src map[string]int) {
	for k, v := range src {
		dst[k] += v
	}
}

// catch runs f and converts a panic into an error value (the real lexer and
// parser report syntax errors by panicking; the public API converts them).
func catch(f func()) (perr interface{}) {
	defer func() {
		if r := recover(); r != nil {
			perr = r
		}
	}()
	f()
	return nil
}
