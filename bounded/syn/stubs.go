package syn

import "bounded/report"

func RunC05(cfg Config) *report.Report { return &report.Report{Property: "C05"} }
func RunC12(cfg Config) *report.Report { return &report.Report{Property: "C12"} }
