package syn

// C05: a typing environment that is used for several compilations, with more
// overloads registered in between.  Whether a program is accepted, and with
// which type, must depend on the functions registered at that moment only -
// a compilation through an environment that has been used before must give
// what a fresh environment gives.  (What a stale lookup cache would break.)

import (
	"fmt"

	yae "github.com/goghcrow/yae"
	"github.com/goghcrow/yae/types"
	"github.com/goghcrow/yae/val"

	"bounded/report"
)

func c05ReusedEnv(r *report.Report) {
	newTypeEnv := func() *types.Env {
		env := types.NewEnv()
		env.Put("n", types.Num)
		env.Put("s", types.Str)
		env.Put("xs", types.List(types.Num))
		return env
	}
	mk := func(ty *types.Type) *val.Val {
		return val.Fun(ty, func(args ...*val.Val) *val.Val { return nil })
	}
	type step struct {
		desc string
		fn   func() *val.Val // registered before the programs of this step are compiled
	}
	scenarios := []struct {
		name  string
		steps []step
		progs []string
	}{
		{"poly pick :: 'a -> str, then mono pick :: num -> num",
			[]step{
				{"pick :: 'a -> str", func() *val.Val { return mk(types.Fun("pick", []*types.Type{types.TyVar("a")}, types.Str)) }},
				{"pick :: num -> num", func() *val.Val { return mk(types.Fun("pick", []*types.Type{types.Num}, types.Num)) }},
				{"pick :: str -> num", func() *val.Val { return mk(types.Fun("pick", []*types.Type{types.Str}, types.Num)) }},
			},
			[]string{"pick(n)", "pick(n) + 1", "pick(s)", "pick(s) + 1", "pick(xs)", "n.pick() + 1"}},
		{"poly wrap :: list['a] -> 'a, then mono wrap :: list[num] -> str",
			[]step{
				{"wrap :: list['a] -> 'a", func() *val.Val {
					a := types.TyVar("a")
					return mk(types.Fun("wrap", []*types.Type{types.List(a)}, a))
				}},
				{"wrap :: list[num] -> str", func() *val.Val { return mk(types.Fun("wrap", []*types.Type{types.List(types.Num)}, types.Str)) }},
			},
			[]string{"wrap(xs)", "wrap(xs) + 1", `wrap(xs) + "x"`, "wrap([s])"}},
	}
	for _, sc := range scenarios {
		func() {
			in0 := "overloads registered one after the other: " + sc.name
			defer func() {
				if p := recover(); p != nil {
					r.AddFailure(report.Failure{Key: "C05/reused-typing-environment/panic", Input: in0, Expected: "accept or reject", Got: fmt.Sprint("panic: ", p)})
				}
			}()
			expr := yae.NewExpr()
			shared := newTypeEnv()
			for i, st := range sc.steps {
				expr.RegisterFun(st.fn())
				for _, src := range sc.progs {
					r.Evaluations++
					in := fmt.Sprintf("%s ; after step %d (%s): %s", in0, i+1, st.desc, src)
					_, errShared := expr.Compile(src, shared)
					_, errFresh := expr.Compile(src, newTypeEnv())
					if (errShared == nil) != (errFresh == nil) {
						got := "rejected: " + fmt.Sprint(errShared)
						want := "accepted (as through a fresh environment)"
						if errShared == nil {
							got, want = "accepted", "rejected (as through a fresh environment: "+fmt.Sprint(errFresh)+")"
						}
						r.AddFailure(report.Failure{Key: "C05/reused-typing-environment/differs-from-fresh", Input: in, Expected: want, Got: got})
					}
				}
			}
		}()
	}
	r.DistinctNontrivial += len(scenarios)
}
