package syn

import (
	"fmt"
	"strings"
)

// Reference parser (C08): precedence climbing over the operator
// DECLARATIONS (name, fixity, binding power), written from DESIGN Appendix D:
//
//   the right operand of an operator of power p is the maximal expression
//   whose unparenthesised top-level operators bind tighter than p (left- and
//   non-associative operators, prefix operators) or at least as tight (right-
//   associative operators and ?:); postfix operators, call, member and
//   subscript apply to the expression built so far; a non-associative
//   operator never has an unparenthesised operand headed by the same
//   operator; every node spans from its first to its last token.
//
// The admission test is written as a (power, strict) pair, so it is exact
// for non-integral powers.  Syntactic forms (literals, list / map / object
// literals with optional trailing comma, group, call without trailing comma,
// member with an arbitrary following token as name and the method-call form
// e.f(args), subscript, ternary) are those of the syntax README points to.

const (
	fPrefix = iota
	fPostfix
	fLeft
	fRight
	fNon
)

var fixityNames = [...]string{"prefix", "postfix", "infixl", "infixr", "infixn"}

const (
	bpCond   = 2.0
	bpCall   = 12.0
	bpMember = 13.0
)

type opDecl struct {
	name string
	fix  int
	bp   float64
}

func (d opDecl) String() string { return fmt.Sprintf("%s:%s@%g", d.name, fixityNames[d.fix], d.bp) }

type refGrammar struct {
	prefix map[string]opDecl
	infix  map[string]opDecl // infix and postfix operators
}

func newRefGrammar(decls []opDecl) *refGrammar {
	g := &refGrammar{prefix: map[string]opDecl{}, infix: map[string]opDecl{}}
	for _, d := range decls {
		if d.fix == fPrefix {
			g.prefix[d.name] = d
		} else {
			g.infix[d.name] = d
		}
	}
	return g
}

type rnode struct {
	kind     string // id num str time bool list map obj grp un bin tern call sub mem
	name     string // identifier, literal text, operator, field name
	fix      int    // bin: fixity of the operator
	prefix   bool   // un
	kids     []*rnode
	fields   []string // obj
	idx, end int      // span in runes
	nidx     int      // span of the operator / field-name token (un bin tern mem)
	nend     int
}

const (
	rejNone = iota
	rejSyntax
	rejNonAssoc
)

type rparser struct {
	g    *refGrammar
	toks []refTok
	i    int
	rej  int
	why  string
}

func (p *rparser) fail(kind int, why string) *rnode {
	if p.rej == rejNone {
		p.rej = kind
		p.why = why
	}
	return nil
}

func (p *rparser) peekKind() string {
	if p.i >= len(p.toks) {
		return "<eof>"
	}
	return p.toks[p.i].kind
}

func (p *rparser) eat(kind string) (refTok, bool) {
	if p.i < len(p.toks) && p.toks[p.i].kind == kind {
		p.i++
		return p.toks[p.i-1], true
	}
	p.fail(rejSyntax, "expect "+kind)
	return refTok{}, false
}

// parse returns the tree, or nil and the rejection class.
func refParse(g *refGrammar, toks []refTok) (*rnode, int, string) {
	p := &rparser{g: g, toks: toks}
	n := p.expr(0, true)
	if n != nil && p.i < len(toks) {
		p.fail(rejSyntax, "unexpected token after the expression")
		n = nil
	}
	if p.rej != rejNone {
		return nil, p.rej, p.why
	}
	return n, rejNone, ""
}

// lbp of the token in operator position, ok=false if it cannot continue an
// expression.
func (p *rparser) lbp(kind string) (float64, bool) {
	switch kind {
	case "?":
		return bpCond, true
	case ".":
		return bpMember, true
	case "(":
		return bpCall, true
	case "[":
		return bpMember, true
	}
	if d, ok := p.g.infix[kind]; ok {
		return d.bp, true
	}
	return 0, false
}

func (p *rparser) expr(min float64, strict bool) *rnode {
	left := p.primary()
	if left == nil {
		return nil
	}
	for p.i < len(p.toks) {
		t := p.toks[p.i]
		bp, ok := p.lbp(t.kind)
		if !ok || bp < min || (strict && bp == min) {
			break
		}
		p.i++
		left = p.continueWith(left, t, bp)
		if left == nil {
			return nil
		}
	}
	return left
}

func (p *rparser) continueWith(left *rnode, t refTok, bp float64) *rnode {
	switch t.kind {
	case "?":
		mid := p.expr(0, true)
		if mid == nil {
			return nil
		}
		if _, ok := p.eat(":"); !ok {
			return nil
		}
		right := p.expr(bpCond, false)
		if right == nil {
			return nil
		}
		return &rnode{kind: "tern", name: "?", kids: []*rnode{left, mid, right}, idx: left.idx, end: right.end, nidx: t.idx, nend: t.end}
	case ".":
		if p.i >= len(p.toks) {
			return p.fail(rejSyntax, "member name expected")
		}
		name := p.toks[p.i]
		p.i++
		m := &rnode{kind: "mem", name: name.text, kids: []*rnode{left}, idx: left.idx, end: name.end, nidx: name.idx, nend: name.end}
		if p.peekKind() == "(" {
			p.i++
			return p.call(m)
		}
		return m
	case "(":
		return p.call(left)
	case "[":
		idx := p.expr(0, true)
		if idx == nil {
			return nil
		}
		rb, ok := p.eat("]")
		if !ok {
			return nil
		}
		return &rnode{kind: "sub", kids: []*rnode{left, idx}, idx: left.idx, end: rb.end}
	}
	d := p.g.infix[t.kind]
	if d.fix == fPostfix {
		return &rnode{kind: "un", name: d.name, kids: []*rnode{left}, idx: left.idx, end: t.end, nidx: t.idx, nend: t.end}
	}
	right := p.expr(d.bp, d.fix != fRight)
	if right == nil {
		return nil
	}
	if d.fix == fNon {
		for _, k := range []*rnode{left, right} {
			if k.kind == "bin" && k.name == d.name {
				return p.fail(rejNonAssoc, "non-associative "+d.name+" chained")
			}
		}
	}
	return &rnode{kind: "bin", name: d.name, fix: d.fix, kids: []*rnode{left, right}, idx: left.idx, end: right.end, nidx: t.idx, nend: t.end}
}

// call: the "(" has been consumed
func (p *rparser) call(callee *rnode) *rnode {
	n := &rnode{kind: "call", kids: []*rnode{callee}, idx: callee.idx}
	if p.peekKind() == ")" {
		n.end = p.toks[p.i].end
		p.i++
		return n
	}
	for {
		a := p.expr(0, true)
		if a == nil {
			return nil
		}
		n.kids = append(n.kids, a)
		if p.peekKind() != "," {
			break
		}
		p.i++
	}
	rp, ok := p.eat(")")
	if !ok {
		return nil
	}
	n.end = rp.end
	return n
}

func (p *rparser) primary() *rnode {
	if p.i >= len(p.toks) {
		return p.fail(rejSyntax, "expression expected at end of input")
	}
	t := p.toks[p.i]
	p.i++
	leaf := func(kind string) *rnode { return &rnode{kind: kind, name: t.text, idx: t.idx, end: t.end} }
	switch t.kind {
	case kSYM:
		return leaf("id")
	case kNUM:
		return leaf("num")
	case kSTR:
		return leaf("str")
	case kTIME:
		return leaf("time")
	case kTRUE, kFALSE:
		return leaf("bool")
	case "(":
		e := p.expr(0, true)
		if e == nil {
			return nil
		}
		rp, ok := p.eat(")")
		if !ok {
			return nil
		}
		return &rnode{kind: "grp", kids: []*rnode{e}, idx: t.idx, end: rp.end}
	case "[":
		if p.peekKind() == ":" {
			p.i++
			rb, ok := p.eat("]")
			if !ok {
				return nil
			}
			return &rnode{kind: "map", idx: t.idx, end: rb.end}
		}
		n := &rnode{kind: "list", idx: t.idx}
		first := true
		for p.peekKind() != "]" {
			e := p.expr(0, true)
			if e == nil {
				return nil
			}
			if first && p.peekKind() == ":" {
				n.kind = "map"
			}
			first = false
			n.kids = append(n.kids, e)
			if n.kind == "map" {
				if _, ok := p.eat(":"); !ok {
					return nil
				}
				v := p.expr(0, true)
				if v == nil {
					return nil
				}
				n.kids = append(n.kids, v)
			}
			if p.peekKind() != "," {
				break
			}
			p.i++
		}
		rb, ok := p.eat("]")
		if !ok {
			return nil
		}
		n.end = rb.end
		return n
	case "{":
		n := &rnode{kind: "obj", idx: t.idx}
		for p.peekKind() != "}" {
			f, ok := p.eat(kSYM)
			if !ok {
				return nil
			}
			if _, ok := p.eat(":"); !ok {
				return nil
			}
			v := p.expr(0, true)
			if v == nil {
				return nil
			}
			n.fields = append(n.fields, f.text)
			n.kids = append(n.kids, v)
			if p.peekKind() != "," {
				break
			}
			p.i++
		}
		rb, ok := p.eat("}")
		if !ok {
			return nil
		}
		n.end = rb.end
		return n
	}
	if d, ok := p.g.prefix[t.kind]; ok {
		e := p.expr(d.bp, true)
		if e == nil {
			return nil
		}
		return &rnode{kind: "un", name: d.name, prefix: true, kids: []*rnode{e}, idx: t.idx, end: e.end, nidx: t.idx, nend: t.end}
	}
	return p.fail(rejSyntax, "token cannot start an expression: "+t.text)
}

// ---- printing / structural helpers -----------------------------------

func (n *rnode) sexpr(spans bool) string {
	var b strings.Builder
	n.write(&b, spans)
	return b.String()
}

func (n *rnode) write(b *strings.Builder, spans bool) {
	head := n.kind
	switch n.kind {
	case "id", "num", "str", "time", "bool":
		b.WriteString(n.name)
		if spans {
			fmt.Fprintf(b, "@%d-%d", n.idx, n.end)
		}
		return
	case "un":
		if n.prefix {
			head = "pre " + n.name
		} else {
			head = "post " + n.name
		}
	case "bin":
		head = n.name
	case "mem":
		head = "mem ." + n.name
	case "tern":
		head = "?:"
	}
	b.WriteString("(" + head)
	if spans {
		fmt.Fprintf(b, "@%d-%d", n.idx, n.end)
	}
	for i, k := range n.kids {
		b.WriteByte(' ')
		if n.kind == "obj" {
			b.WriteString(n.fields[i] + ":")
		}
		k.write(b, spans)
	}
	b.WriteByte(')')
}

// strip removes group nodes.
func (n *rnode) strip() *rnode {
	if n.kind == "grp" {
		return n.kids[0].strip()
	}
	c := *n
	c.kids = make([]*rnode, len(n.kids))
	for i, k := range n.kids {
		c.kids[i] = k.strip()
	}
	return &c
}

func sameShape(a, b *rnode) bool {
	if a.kind != b.kind || a.name != b.name || a.prefix != b.prefix || len(a.kids) != len(b.kids) || len(a.fields) != len(b.fields) {
		return false
	}
	for i := range a.fields {
		if a.fields[i] != b.fields[i] {
			return false
		}
	}
	for i := range a.kids {
		if !sameShape(a.kids[i], b.kids[i]) {
			return false
		}
	}
	return true
}
