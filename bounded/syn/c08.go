package syn

import (
	"fmt"
	"math/rand"
	"runtime"
	"strings"

	"github.com/goghcrow/yae/parser"
	"github.com/goghcrow/yae/parser/ast"
	"github.com/goghcrow/yae/parser/lexer"
	"github.com/goghcrow/yae/parser/oper"
	"github.com/goghcrow/yae/parser/pos"
	"github.com/goghcrow/yae/parser/token"

	"bounded/report"
)

// ---- real AST -> comparable tree --------------------------------------

func realFix(f oper.Fixity) int {
	switch f {
	case oper.INFIX_L:
		return fLeft
	case oper.INFIX_R:
		return fRight
	case oper.INFIX_N:
		return fNon
	}
	return -1
}

func fromReal(e ast.Expr) *rnode {
	p := e.Position()
	n := &rnode{idx: p.Idx, end: p.IdxEnd}
	kid := func(x ast.Expr) { n.kids = append(n.kids, fromReal(x)) }
	opname := func(id *ast.IdentExpr) {
		n.name = id.Name
		n.nidx, n.nend = id.Pos.Idx, id.Pos.IdxEnd
	}
	switch x := e.(type) {
	case *ast.IdentExpr:
		n.kind, n.name = "id", x.Name
	case *ast.NumExpr:
		n.kind, n.name = "num", x.Text
	case *ast.StrExpr:
		n.kind, n.name = "str", x.Text
	case *ast.TimeExpr:
		n.kind, n.name = "time", x.Text
	case *ast.BoolExpr:
		n.kind, n.name = "bool", x.Text
	case *ast.ListExpr:
		n.kind = "list"
		for _, el := range x.Elems {
			kid(el)
		}
	case *ast.MapExpr:
		n.kind = "map"
		for _, pr := range x.Pairs {
			kid(pr.Key)
			kid(pr.Val)
		}
	case *ast.ObjExpr:
		n.kind = "obj"
		for _, f := range x.Fields {
			n.fields = append(n.fields, f.Name)
			kid(f.Val)
		}
	case *ast.GroupExpr:
		n.kind = "grp"
		kid(x.SubExpr)
	case *ast.UnaryExpr:
		n.kind, n.prefix = "un", x.Prefix
		opname(x.IdentExpr)
		kid(x.LHS)
	case *ast.BinaryExpr:
		n.kind, n.fix = "bin", realFix(x.Fixity)
		opname(x.IdentExpr)
		kid(x.LHS)
		kid(x.RHS)
	case *ast.TenaryExpr:
		n.kind = "tern"
		opname(x.IdentExpr)
		kid(x.Left)
		kid(x.Mid)
		kid(x.Right)
	case *ast.CallExpr:
		n.kind = "call"
		kid(x.Callee)
		for _, a := range x.Args {
			kid(a)
		}
	case *ast.SubscriptExpr:
		n.kind = "sub"
		kid(x.Var)
		kid(x.Idx)
	case *ast.MemberExpr:
		n.kind = "mem"
		opname(x.Field)
		kid(x.Obj)
	default:
		n.kind = fmt.Sprintf("unknown:%T", e)
	}
	return n
}

// spanDiff returns the kind of the first node (preorder) whose span differs;
// both trees have the same shape.
func spanDiff(ref, real *rnode) string {
	if ref.idx != real.idx || ref.end != real.end {
		return ref.kind
	}
	switch ref.kind {
	case "un", "bin", "tern":
		if ref.nidx != real.nidx || ref.nend != real.nend {
			return ref.kind + "-operator-token"
		}
	case "mem":
		if ref.nidx != real.nidx || ref.nend != real.nend {
			return "mem-field-token"
		}
	}
	for i := range ref.kids {
		if d := spanDiff(ref.kids[i], real.kids[i]); d != "" {
			return d
		}
	}
	return ""
}

// rightAssocRuleBroken: a right-associative node (or ?:) of power p one of
// whose operands exposes, unparenthesised and adjacent to the operator, an
// infix / postfix operator of power strictly below p (the operators on the
// left spine of the right operand, on the right spine of the left operand).
// Whatever the tie rules, the declarations never allow that; used to classify
// a tree mismatch.
func rightAssocRuleBroken(n *rnode, g *refGrammar) bool {
	power := func(k *rnode) (float64, bool) {
		switch k.kind {
		case "bin":
			return g.infix[k.name].bp, true
		case "un":
			if !k.prefix {
				return g.infix[k.name].bp, true
			}
		case "tern":
			return bpCond, true
		}
		return 0, false
	}
	looser := func(k *rnode, p float64, leftSpine bool) bool {
		for {
			q, ok := power(k)
			if !ok {
				return false
			}
			if q < p {
				return true
			}
			switch {
			case leftSpine || k.kind == "un":
				if k.kind == "un" && !leftSpine {
					return false
				}
				k = k.kids[0]
			default:
				k = k.kids[len(k.kids)-1]
			}
		}
	}
	switch {
	case n.kind == "bin" && n.fix == fRight:
		p := g.infix[n.name].bp
		if looser(n.kids[0], p, false) || looser(n.kids[1], p, true) {
			return true
		}
	case n.kind == "tern":
		if looser(n.kids[0], bpCond, false) || looser(n.kids[2], bpCond, true) {
			return true
		}
	}
	for _, k := range n.kids {
		if rightAssocRuleBroken(k, g) {
			return true
		}
	}
	return false
}

// ---- operator tables ----------------------------------------------------

var c08Symbols = []string{"+", "<>", "~", "mod"}
var c08Powers = []float64{5, 5.5, 6}
var c08Atoms = []string{"a", "é", "c", "dd", "e", "f", "g", "h", "i", "j", "k", "l", "m", "n", "o", "p"}

type c08Table struct {
	decls []opDecl
}

func (t c08Table) String() string {
	var xs []string
	for _, d := range t.decls {
		xs = append(xs, d.String())
	}
	return "{" + strings.Join(xs, " ") + "}"
}

func (t c08Table) realOps() []oper.Operator {
	var r []oper.Operator
	for _, d := range t.decls {
		var f oper.Fixity
		switch d.fix {
		case fPrefix:
			f = oper.PREFIX
		case fPostfix:
			f = oper.POSTFIX
		case fLeft:
			f = oper.INFIX_L
		case fRight:
			f = oper.INFIX_R
		case fNon:
			f = oper.INFIX_N
		}
		r = append(r, oper.Operator{Kind: token.Kind(d.name), BP: oper.BP(float32(d.bp)), Fixity: f})
	}
	return r
}

// all: every multiset of 4 (fixity, power) declarations (3060 tables).
// otherwise: every multiset of 3 declarations completed by a fourth one that
// rotates through the 15 choices (680 tables); no exhaustively enumerated
// input of the quick tier mentions more than 3 operators.  The assignment of
// declarations to the four spellings rotates with the table index.
func c08Tables(all bool) []c08Table {
	type ch struct {
		fix int
		bp  float64
	}
	var choices []ch
	for f := fPrefix; f <= fNon; f++ {
		for _, p := range c08Powers {
			choices = append(choices, ch{f, p})
		}
	}
	var ts []c08Table
	n := len(choices)
	mk := func(idx []int) {
		var t c08Table
		rot := len(ts) % 4
		for s := range idx {
			c := choices[idx[(s+rot)%4]]
			t.decls = append(t.decls, opDecl{c08Symbols[s], c.fix, c.bp})
		}
		ts = append(ts, t)
	}
	for i := 0; i < n; i++ {
		for j := i; j < n; j++ {
			for k := j; k < n; k++ {
				if !all {
					mk([]int{i, j, k, (len(ts) * 7) % n})
					continue
				}
				for l := k; l < n; l++ {
					mk([]int{i, j, k, l})
				}
			}
		}
	}
	return ts
}

// tables in which one symbol has two roles (prefix + infix, prefix + postfix)
func c08DualTables() []c08Table {
	var ts []c08Table
	rest := []opDecl{{"<>", fLeft, 5.5}, {"~", fPostfix, 5.5}, {"mod", fRight, 5.5}}
	for _, pp := range c08Powers {
		for _, ip := range c08Powers {
			for _, f := range []int{fLeft, fRight, fNon, fPostfix} {
				t := c08Table{decls: []opDecl{{"+", fPrefix, pp}, {"+", f, ip}}}
				t.decls = append(t.decls, rest...)
				ts = append(ts, t)
				// the same two roles declared in the other order: what a symbol
				// means must not depend on the order of its declarations
				t2 := c08Table{decls: []opDecl{{"+", f, ip}, {"+", fPrefix, pp}}}
				t2.decls = append(t2.decls, rest...)
				ts = append(ts, t2)
			}
		}
	}
	return ts
}

// ---- trees ----------------------------------------------------------------

// genTrees enumerates operator trees of depth <= d (an atom has depth 0).
// full: every shape; otherwise only "caterpillar" trees, in which at most one
// operand of every binary node is not an atom.
func genTrees(decls []opDecl, d int, full bool) []*rnode {
	atom := &rnode{kind: "id"}
	if d == 0 {
		return []*rnode{atom}
	}
	sub := genTrees(decls, d-1, full)
	out := []*rnode{atom}
	for _, op := range decls {
		switch op.fix {
		case fPrefix, fPostfix:
			for _, s := range sub {
				out = append(out, &rnode{kind: "un", name: op.name, prefix: op.fix == fPrefix, kids: []*rnode{s}})
			}
		default:
			if full {
				for _, l := range sub {
					for _, r := range sub {
						out = append(out, &rnode{kind: "bin", name: op.name, fix: op.fix, kids: []*rnode{l, r}})
					}
				}
			} else {
				for _, s := range sub {
					out = append(out, &rnode{kind: "bin", name: op.name, fix: op.fix, kids: []*rnode{s, atom}})
					if s.kind != "id" {
						out = append(out, &rnode{kind: "bin", name: op.name, fix: op.fix, kids: []*rnode{atom, s}})
					}
				}
			}
		}
	}
	return out
}

func treeDepth(n *rnode) int {
	d := 0
	for _, k := range n.kids {
		if x := treeDepth(k) + 1; x > d {
			d = x
		}
	}
	return d
}

// instantiate copies the tree giving every leaf its own name and every node
// an identity (needed for the per-node parenthesis counts).
func instantiate(n *rnode, next *int) *rnode {
	c := *n
	if n.kind == "id" {
		c.name = c08Atoms[*next%len(c08Atoms)]
		*next++
		return &c
	}
	c.kids = make([]*rnode, len(n.kids))
	for i, k := range n.kids {
		c.kids[i] = instantiate(k, next)
	}
	return &c
}

type renderStyle struct {
	sep, open, close string
}

func renderTree(n *rnode, parens map[*rnode]int, st renderStyle, b *strings.Builder) {
	k := parens[n]
	for i := 0; i < k; i++ {
		b.WriteString(st.open)
	}
	switch n.kind {
	case "id":
		b.WriteString(n.name)
	case "un":
		if n.prefix {
			b.WriteString(n.name + st.sep)
			renderTree(n.kids[0], parens, st, b)
		} else {
			renderTree(n.kids[0], parens, st, b)
			b.WriteString(st.sep + n.name)
		}
	case "bin":
		renderTree(n.kids[0], parens, st, b)
		b.WriteString(st.sep + n.name + st.sep)
		renderTree(n.kids[1], parens, st, b)
	}
	for i := 0; i < k; i++ {
		b.WriteString(st.close)
	}
}

func preorder(n *rnode, f func(*rnode)) {
	f(n)
	for _, k := range n.kids {
		preorder(k, f)
	}
}

// ---- the per-table worker -------------------------------------------------

type c08Worker struct {
	tbl   c08Table
	g     *refGrammar
	rlex  *refLexer
	lx    interface{ Lex(string) []*token.Token }
	ps    interface{ Parse([]*token.Token) ast.Expr }
	c      *chunk
	tblStr string
}

func newC08Worker(t c08Table, c *chunk) *c08Worker {
	names := []string{}
	for _, d := range t.decls {
		names = append(names, d.name)
	}
	return &c08Worker{
		tbl: t, g: newRefGrammar(t.decls), rlex: newRefLexer(names),
		lx: lexer.NewLexer(t.realOps()), ps: parser.NewParser(t.realOps()), c: c, tblStr: t.String(),
	}
}

func isRuntimeError(p interface{}) bool {
	_, ok := p.(runtime.Error)
	return ok
}

type inputDesc struct {
	w   *c08Worker
	src string
}

func (d inputDesc) String() string { return fmt.Sprintf("operators=%s input=%q", d.w.tblStr, d.src) }

// compare checks one input (already tokenised for both sides) against the
// reference; returns the reference tree (nil if rejected) and the real tree.
func (w *c08Worker) compare(src string, rtoks []refTok, toks []*token.Token, family string) (*rnode, *rnode) {
	w.c.evals++
	input := inputDesc{w, src}
	ref, rej, why := refParse(w.g, rtoks)
	var e ast.Expr
	perr := catch(func() { e = w.ps.Parse(toks) })
	if perr != nil && isRuntimeError(perr) {
		w.c.fail("C08/reject/internal-fault", input.String(), "a syntax error", fmt.Sprintf("panic %T: %v", perr, perr), family)
	}
	if perr != nil {
		if _, isErr := perr.(error); !isErr {
			if _, isStr := perr.(string); !isStr {
				w.c.fail("C08/reject/internal-fault", input.String(), "a syntax error", fmt.Sprintf("panic %T: %v", perr, perr), family)
			}
		}
	}
	switch {
	case ref == nil && perr != nil:
		w.c.stat["inputs rejected by both"]++
		return nil, nil
	case ref == nil && perr == nil:
		real := fromReal(e)
		if rej == rejNonAssoc {
			w.c.fail("C08/non-associative/chain-accepted", input.String(), "syntax error: "+why, real.sexpr(false), family)
		} else {
			w.c.fail("C08/accepts-malformed", input.String(), "syntax error: "+why, real.sexpr(false), family)
		}
		return nil, real
	case ref != nil && perr != nil:
		w.c.fail("C08/rejects-wellformed", input.String(), ref.sexpr(false), fmt.Sprintf("error: %v", perr), family)
		return ref, nil
	}
	w.c.stat["inputs accepted by both"]++
	real := fromReal(e)
	if !sameShape(ref, real) {
		key := "C08/tree/other"
		if rightAssocRuleBroken(real, w.g) {
			key = "C08/tree/right-assoc-operand-binds-looser"
		}
		w.c.fail(key, input.String(), ref.sexpr(false), real.sexpr(false), family)
		return ref, real
	}
	if d := spanDiff(ref, real); d != "" {
		w.c.fail("C08/span/"+d, input.String(), ref.sexpr(true), real.sexpr(true), family)
	}
	return ref, real
}

// source goes through the real lexer and the reference lexer.
func (w *c08Worker) source(src, family string) (*rnode, *rnode, bool) {
	in := []rune(src)
	rtoks, ok := w.rlex.lex(in)
	var toks []*token.Token
	perr := catch(func() { toks = w.lx.Lex(src) })
	if !ok || perr != nil {
		// lexing is C09's business; C08 inputs are built to be lexable
		if ok != (perr == nil) {
			w.c.stat["inputs skipped because the lexers disagree (see C09)"]++
		}
		return nil, nil, false
	}
	a, b := w.compare(src, rtoks, toks, family)
	return a, b, true
}

func (w *c08Worker) trees(maxFull, maxCat int) {
	seen := map[string]bool{}
	var all []*rnode
	add := func(ts []*rnode) {
		for _, t := range ts {
			k := t.sexpr(false)
			if !seen[k] {
				seen[k] = true
				all = append(all, t)
			}
		}
	}
	add(genTrees(w.tbl.decls, maxFull, true))
	if maxCat > maxFull {
		add(genTrees(w.tbl.decls, maxCat, false))
	}
	plain := renderStyle{" ", "(", ")"}
	wide := renderStyle{"  ", "( ", " )"}
	for _, shape := range all {
		next := 0
		tree := instantiate(shape, &next)
		if tree.kind == "id" {
			continue
		}
		render := func(parens map[*rnode]int, st renderStyle) string {
			var b strings.Builder
			renderTree(tree, parens, st, &b)
			return b.String()
		}
		full := map[*rnode]int{}
		extra := map[*rnode]int{}
		preorder(tree, func(n *rnode) {
			extra[n] = 2
			if n != tree && n.kind != "id" {
				full[n] = 1
			}
		})
		fullSrc := render(full, plain)
		// the reference must read the fully parenthesised text as the tree
		refOf := func(src string) *rnode {
			rt, ok := w.rlex.lex([]rune(src))
			if !ok {
				return nil
			}
			n, _, _ := refParse(w.g, rt)
			if n == nil {
				return nil
			}
			return n.strip()
		}
		if r := refOf(fullSrc); r == nil || !sameShape(r, tree) {
			w.c.stat["trees the fully parenthesised text does not denote (skipped)"]++
			continue
		}
		// minimal parentheses: drop every pair whose removal leaves the
		// reference reading unchanged
		min := map[*rnode]int{}
		for k, v := range full {
			min[k] = v
		}
		removed := 0
		preorder(tree, func(n *rnode) {
			if min[n] == 0 {
				return
			}
			min[n] = 0
			if r := refOf(render(min, plain)); r == nil || !sameShape(r, tree) {
				min[n] = 1
			} else {
				removed++
			}
		})
		minSrc := render(min, plain)
		extraSrc := "\n " + render(extra, wide)
		w.c.nontrivial2(w.tblStr, minSrc)
		if removed > 0 {
			w.c.stat["trees with at least one redundant parenthesis pair"]++
		}
		for _, v := range []struct{ src, fam string }{{minSrc, "tree, minimal parentheses"}, {fullSrc, "tree, every operand parenthesised"}, {extraSrc, "tree, doubled parentheses around every node"}} {
			if v.fam != "tree, minimal parentheses" && v.src == minSrc {
				continue
			}
			_, real, ok := w.source(v.src, v.fam)
			if !ok || real == nil {
				continue
			}
			// removing / adding redundant parentheses never changes the tree
			if got := real.strip(); !sameShape(got, tree) {
				// already reported by compare() as a tree mismatch unless the
				// reference itself is inconsistent
				w.c.stat["renderings whose real tree differs from the generated tree"]++
			}
		}
	}
}

// token strings: both parsers get hand-built tokens (one space between
// tokens); every 97th string also goes through the lexers.
func (w *c08Worker) tokenStrings(alphabet []string, kinds []string, maxLen int, family string) {
	idx := make([]int, maxLen)
	for n := 1; n <= maxLen; n++ {
		for i := range idx[:n] {
			idx[i] = 0
		}
		count := 0
		for {
			// at the full length, strings without any operand token are left
			// out (they are rejected for lack of an operand whatever the table)
			if n < 4 || n < maxLen || hasOperandToken(kinds, idx[:n]) {
				w.tokenString(alphabet, kinds, idx[:n], family, count%97 == 0)
			}
			count++
			i := n - 1
			for i >= 0 {
				idx[i]++
				if idx[i] < len(alphabet) {
					break
				}
				idx[i] = 0
				i--
			}
			if i < 0 {
				break
			}
		}
	}
}

// hasOperandToken: the string contains a token that can be or begin an
// operand (identifier, number, "[" or "{").
func hasOperandToken(kinds []string, ix []int) bool {
	for _, a := range ix {
		switch kinds[a] {
		case kSYM, kNUM, "[", "{":
			return true
		}
	}
	return false
}

func (w *c08Worker) tokenString(alphabet, kinds []string, ix []int, family string, viaLexer bool) {
	var b strings.Builder
	rtoks := make([]refTok, len(ix))
	toks := make([]*token.Token, len(ix))
	p := 0
	for i, a := range ix {
		if i > 0 {
			b.WriteByte(' ')
			p++
		}
		text := alphabet[a]
		n := len([]rune(text))
		b.WriteString(text)
		rtoks[i] = refTok{kind: kinds[a], idx: p, end: p + n, col: p, text: text}
		toks[i] = &token.Token{Kind: token.Kind(kinds[a]), Pos: pos.Pos{Idx: p, IdxEnd: p + n, Col: p}, Lexeme: text}
		p += n
	}
	src := b.String()
	if len(ix) >= 2 {
		w.c.nontrivial2(w.tblStr, src)
	}
	if viaLexer {
		w.source(src, family+" (through the lexer)")
		return
	}
	w.compare(src, rtoks, toks, family)
}

// chains: a non-associative operator chained with itself, in every context
// the table offers.
func (w *c08Worker) chains() {
	var srcs []string
	for _, n := range w.tbl.decls {
		if n.fix != fNon {
			continue
		}
		chain := "a " + n.name + " é " + n.name + " c"
		srcs = append(srcs, chain, "( "+chain+" )", chain+" "+n.name+" dd", "( a "+n.name+" é ) "+n.name+" c", "a "+n.name+" ( é "+n.name+" c )")
		for _, o := range w.tbl.decls {
			switch o.fix {
			case fPrefix:
				srcs = append(srcs, o.name+" "+chain, "a "+n.name+" "+o.name+" é "+n.name+" c")
			case fPostfix:
				srcs = append(srcs, chain+" "+o.name, "a "+n.name+" é "+o.name+" "+n.name+" c")
			default:
				srcs = append(srcs, chain+" "+o.name+" dd", "dd "+o.name+" "+chain, "a "+n.name+" é "+o.name+" c "+n.name+" dd", chain+" "+o.name+" dd "+o.name+" e")
			}
		}
		srcs = append(srcs, chain+" ? dd : e", "dd ? "+chain+" : e", "dd ? e : "+chain, "f ( "+chain+" )", "[ "+chain+" ]", chain+" . x")
	}
	seen := map[string]bool{}
	for _, s := range srcs {
		if seen[s] {
			continue
		}
		seen[s] = true
		w.c.nontrivial2(w.tblStr, s)
		w.source(s, "non-associative chain in context")
	}
}

func builtinDecls() []opDecl {
	var ds []opDecl
	for _, o := range oper.BuiltIn() {
		d := opDecl{name: string(o.Kind), bp: float64(o.BP)}
		switch o.Fixity {
		case oper.PREFIX:
			d.fix = fPrefix
		case oper.POSTFIX:
			d.fix = fPostfix
		case oper.INFIX_L:
			d.fix = fLeft
		case oper.INFIX_R:
			d.fix = fRight
		case oper.INFIX_N:
			d.fix = fNon
		}
		ds = append(ds, d)
	}
	return ds
}

func RunC08(cfg Config) *report.Report {
	tokLen, builtinLen, nRandTrees := 4, 5, 60
	if cfg.Thorough {
		tokLen, builtinLen, nRandTrees = 5, 5, 400
	}
	r := &report.Report{
		Property: "C08",
		Contract: "parser.NewParser(ops).Parse(lexer.NewLexer(ops).Lex(src)): same accept / reject and same tree (incl. group nodes) as an independent reference precedence parser over the same operator declarations; minimal, full and doubled parenthesisations of a tree all parse to that tree; a non-associative operator is never chained with itself without parentheses in any context; Position() (Idx, IdxEnd) of every node, operator token and field token equals the rune range of the text it was parsed from; rejection is an error raised by the parser (not a Go run-time fault)",
		Space: fmt.Sprintf("operator tables on symbols + <> ~ mod, fixity in {prefix, postfix, infixl, infixr, infixn}, power in {5, 5.5, 6}: all 680 multisets of 3 declarations completed by a rotating 4th (no exhaustively enumerated input of the quick tier mentions more than 3 operators), thorough tier also all 3060 multisets of 4 declarations (token strings <= 3 tokens there); plus 72 tables where + is declared prefix and infix/postfix, in both declaration orders; per table: all operator trees of depth <= 2 and all caterpillar trees (at most one non-atomic operand per node) of depth 3, each rendered with minimal, full and doubled parentheses; all token strings of <= %d tokens over {a ( ) and the 4 operators} (at the full length only those with at least one operand token); every non-associative chain template (chain alone, parenthesised, followed / preceded by every other operator, inside ?:, call, list, member). Built-in table: all token strings of <= %d tokens over {a ( ) [ ] { } , : . ? + == || ! ^} (thorough: also 1 and -; at the full length only those with at least one operand token a 1 [ {); %d seeded random deeper trees per table", tokLen, builtinLen, nRandTrees),
		Bound: fmt.Sprintf("tree depth 3 (operator levels), token strings <= %d tokens (user tables) / <= %d tokens (built-in table), seed %d", tokLen, builtinLen, cfg.Seed),
		Rule:  "distinct = (operator table, source text) by 64-bit FNV-1a hash; non-trivial = at least two tokens (token strings) or at least one operator (trees, counted once per tree by its minimal rendering)",
	}
	type job struct {
		tbl    c08Table
		tokLen int
	}
	var jobs []job
	for _, t := range c08Tables(false) {
		jobs = append(jobs, job{t, tokLen})
	}
	for _, t := range c08DualTables() {
		jobs = append(jobs, job{t, tokLen})
	}
	if cfg.Thorough {
		for _, t := range c08Tables(true) {
			jobs = append(jobs, job{t, 3})
		}
	}
	distinct := map[uint64]struct{}{}
	counts := map[string]int{}

	mergeCounts(counts, parallel(r, distinct, len(jobs), func(i int, c *chunk) {
		tbl := jobs[i].tbl
		w := newC08Worker(tbl, c)
		w.trees(2, 3)
		alphabet := []string{"a", "(", ")"}
		kinds := []string{kSYM, "(", ")"}
		seen := map[string]bool{}
		for _, d := range tbl.decls {
			if !seen[d.name] {
				seen[d.name] = true
				alphabet = append(alphabet, d.name)
				kinds = append(kinds, d.name)
			}
		}
		w.tokenStrings(alphabet, kinds, jobs[i].tokLen, "token string")
		w.chains()
		// random deeper expressions (depth 3..5) with a random subset of parentheses
		rng := rand.New(rand.NewSource(cfg.Seed*7919 + int64(i)))
		w.randomTrees(rng, nRandTrees)
		if i%200 == 0 {
			c.sample(fmt.Sprintf("operators=%s input=%q", tbl, "a "+tbl.decls[3].name+" ( é )"))
		}
	}))

	// built-in table with all syntactic forms
	bt := c08Table{decls: builtinDecls()}
	alphabet := []string{"a", "(", ")", "[", "]", "{", "}", ",", ":", ".", "?", "+", "==", "||", "!", "^"}
	kinds := []string{kSYM, "(", ")", "[", "]", "{", "}", ",", ":", ".", "?", "+", "==", "||", "!", "^"}
	if cfg.Thorough {
		alphabet = append(alphabet, "1", "-")
		kinds = append(kinds, kNUM, "-")
	}
	A := len(alphabet)
	mergeCounts(counts, parallel(r, distinct, A*A, func(i int, c *chunk) {
		w := newC08Worker(bt, c)
		w.tblStr = "built-in"
		pre := []int{i / A, i % A}
		if i%A == 0 {
			w.tokenString(alphabet, kinds, pre[:1], "built-in table token string", true)
		}
		w.tokenString(alphabet, kinds, pre, "built-in table token string", true)
		ix := make([]int, builtinLen)
		copy(ix, pre)
		for n := 3; n <= builtinLen; n++ {
			for k := 2; k < n; k++ {
				ix[k] = 0
			}
			count := 0
			for {
				if n < builtinLen || hasOperandToken(kinds, ix[:n]) {
					w.tokenString(alphabet, kinds, ix[:n], "built-in table token string", count%97 == 0)
				}
				count++
				k := n - 1
				for k >= 2 {
					ix[k]++
					if ix[k] < A {
						break
					}
					ix[k] = 0
					k--
				}
				if k < 2 {
					break
				}
			}
		}
		if i == 0 {
			c.sample(`operators=built-in input="a ? [ 1 : a ] : { a : 1 }"`)
		}
	}))
	// hand-picked longer built-in inputs (spans of every node kind, chains)
	mergeCounts(counts, parallel(r, distinct, 1, func(i int, c *chunk) {
		w := newC08Worker(bt, c)
		w.tblStr = "built-in"
		for i, s := range c08BuiltinSources {
			c.nontrivial2(w.tblStr, s)
			ref, _, _ := w.source(s, "built-in table, hand-picked form")
			if ref != nil && (i == 13 || i == 17) {
				c.sample(fmt.Sprintf("operators=built-in input=%q tree with spans=%s", s, ref.sexpr(true)))
			}
		}
	}))

	r.DistinctNontrivial = len(distinct)
	r.Exhaustive = true
	r.Notes = append(r.Notes, "Exhaustive refers to the enumerated families (tables x trees x renderings, token strings, chain templates); the random deeper trees are a sample.")
	noteCounts(r, counts)
	return r
}

var c08BuiltinSources = []string{
	"a == é == c || dd", "a == é == c", "a < é < c && dd", "dd || a == é == c", "a == é == c ? 1 : 2", "(a == é == c)",
	"a != é != c or dd", "a == é != c", "a <= é <= c + 1", "f(a == é == c || dd)", "[a == é == c || dd]", "{x: a == é == c and dd}",
	"(a + é) * c", "a.b(c, d).e[1]", "[[1:1]:1]", "[1, 2,]", "{x: 1, y: {z: [1]},}", "a ? é : c ? dd : e", "a ^ é ^ c", "- a ^ é", "!a.b",
	"not a and é or c", "a\n +\n é", "f()", "a . b", "[:]", "[]", "{}", "a[1][2]", "a ? [1:2] : [:]", "f(x)(y)", "1.5 + 0x1 * 1e3",
	"\"s\" + `r`", "'2020-01-01' - 'now'", "a - - é", "a % é / c * dd", "(a)", "((a))", "a.b.c", "a.b(c).d(e)",
}

func (w *c08Worker) randomTrees(rng *rand.Rand, n int) {
	var un, bin []opDecl
	for _, d := range w.tbl.decls {
		if d.fix == fPrefix || d.fix == fPostfix {
			un = append(un, d)
		} else {
			bin = append(bin, d)
		}
	}
	var gen func(d int) *rnode
	gen = func(d int) *rnode {
		if d == 0 || rng.Intn(4) == 0 {
			return &rnode{kind: "id"}
		}
		k := rng.Intn(len(un) + len(bin))
		if k < len(un) {
			return &rnode{kind: "un", name: un[k].name, prefix: un[k].fix == fPrefix, kids: []*rnode{gen(d - 1)}}
		}
		op := bin[k-len(un)]
		return &rnode{kind: "bin", name: op.name, fix: op.fix, kids: []*rnode{gen(d - 1), gen(d - 1)}}
	}
	plain := renderStyle{" ", "(", ")"}
	for i := 0; i < n; i++ {
		next := 0
		tree := instantiate(gen(4+rng.Intn(2)), &next)
		if treeDepth(tree) < 3 {
			continue
		}
		// random subset of parentheses; the reference decides what it means
		parens := map[*rnode]int{}
		preorder(tree, func(x *rnode) {
			if x != tree && x.kind != "id" && rng.Intn(2) == 0 {
				parens[x] = 1
			}
		})
		var b strings.Builder
		renderTree(tree, parens, plain, &b)
		w.c.nontrivial2(w.tblStr, b.String())
		w.source(b.String(), "random deeper expression")
	}
}
