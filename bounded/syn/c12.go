package syn

import (
	"fmt"
	"math/rand"
	"os"
	"reflect"
	"sort"
	"strings"
	"time"

	yae "github.com/goghcrow/yae"
	"github.com/goghcrow/yae/conv"

	"bounded/report"
)

// ---- guarded calls ---------------------------------------------------------

type outcome struct {
	panicked bool
	pval     string
	timedOut bool
	dur      time.Duration
	err      error
}

func (o outcome) String() string {
	switch {
	case o.timedOut:
		return fmt.Sprintf("no result after %v", o.dur)
	case o.panicked:
		return "panic: " + o.pval
	case o.err != nil:
		return "error: " + o.err.Error()
	}
	return "value"
}

// guarded runs f on its own goroutine with recover and a watchdog.  On
// time-out the goroutine is abandoned.
func guarded(budget time.Duration, f func() error) outcome {
	ch := make(chan outcome, 1)
	start := time.Now()
	go func() {
		var o outcome
		defer func() {
			if r := recover(); r != nil {
				o.panicked, o.pval = true, fmt.Sprint(r)
			}
			o.dur = time.Since(start)
			ch <- o
		}()
		o.err = f()
	}()
	t := time.NewTimer(budget)
	defer t.Stop()
	select {
	case o := <-ch:
		return o
	case <-t.C:
		return outcome{timedOut: true, dur: budget}
	}
}

// ---- host values -------------------------------------------------------------

type c12S struct {
	A int    `yae:"a"`
	B string `yae:"b"`
}
type c12Unexported struct {
	a int
	B string
}
type c12UnexportedTime struct {
	t time.Time
	N int
}
type c12Node struct {
	Next *c12Node
	V    int
}
type c12Nils struct {
	P *int
	S []int
	M map[string]int
	I interface{}
	F func()
	C chan int
}
type c12Maybe struct {
	P *int `yae:"p,maybe"`
	Q *int `yae:"q,maybe"`
}

type hostCase struct {
	class string
	name  string
	mk    func() interface{}
}

func deepSlice(depth int, empty bool) interface{} {
	v := reflect.ValueOf(1)
	for i := 0; i < depth; i++ {
		n := 1
		if empty && i == depth-1 {
			n = 0
		}
		s := reflect.MakeSlice(reflect.SliceOf(v.Type()), n, n)
		if n == 1 {
			s.Index(0).Set(v)
		}
		v = s
	}
	return v.Interface()
}

func deepIface(depth int) interface{} {
	var v interface{} = 1
	for i := 0; i < depth; i++ {
		v = []interface{}{v}
	}
	return v
}

func deepMap(depth int) interface{} {
	var v interface{} = 1
	for i := 0; i < depth; i++ {
		v = map[string]interface{}{"x": v}
	}
	return v
}

func c12HostCases() []hostCase {
	one := 1
	pone := &one
	mk := func(class, name string, f func() interface{}) hostCase { return hostCase{class, name, f} }
	x := func(v interface{}) interface{} { return map[string]interface{}{"x": v} }
	return []hostCase{
		mk("nil", "nil", func() interface{} { return nil }),
		mk("typed-nil-pointer", "(*S)(nil)", func() interface{} { return (*c12S)(nil) }),
		mk("typed-nil-pointer", "(*map[string]int)(nil)", func() interface{} { return (*map[string]int)(nil) }),
		mk("pointer-to-nil-pointer", "&p with var p *S", func() interface{} { var p *c12S; return &p }),
		mk("pointer-to-nil-pointer", "&p with var p *map[string]int", func() interface{} { var p *map[string]int; return &p }),
		mk("pointer-to-nil-pointer", "&q with q = &p, var p *S", func() interface{} { var p *c12S; q := &p; return &q }),
		mk("pointer-to-nil-pointer", "map value &p with var p *int", func() interface{} { var p *int; return x(&p) }),
		mk("nil-map", "map[string]interface{}(nil)", func() interface{} { return map[string]interface{}(nil) }),
		mk("nil-map", "&m with var m map[string]int", func() interface{} { var m map[string]int; return &m }),
		mk("pointer", "&S{}", func() interface{} { return &c12S{1, "x"} }),
		mk("pointer", "**S", func() interface{} { p := &c12S{1, "x"}; return &p }),
		mk("pointer", "*map", func() interface{} { m := map[string]interface{}{"x": 1}; return &m }),
		mk("pointer", "map value **int", func() interface{} { p := pone; return x(&p) }),
		mk("nested-containers", "map of slices of maps of structs", func() interface{} {
			return map[string]interface{}{"x": []map[string][]c12S{{"k": {{1, "a"}, {2, "b"}}}}, "y": [2][]int{{1}, {2, 3}}, "z": map[string]map[string][]float64{"a": {"b": {1}}}}
		}),
		mk("nested-containers", "struct of struct of slice", func() interface{} {
			return struct {
				O struct {
					P c12S
					Q []int
				}
				T time.Time
			}{}
		}),
		mk("unsupported-kind", "chan", func() interface{} { return make(chan int) }),
		mk("unsupported-kind", "func", func() interface{} { return func() {} }),
		mk("unsupported-kind", "complex", func() interface{} { return complex(1, 2) }),
		mk("unsupported-kind", "map value chan", func() interface{} { return x(make(chan int)) }),
		mk("unsupported-kind", "map value func", func() interface{} { return x(func(int) int { return 0 }) }),
		mk("unsupported-kind", "map value complex", func() interface{} { return x(complex64(1)) }),
		mk("unsupported-kind", "struct fields chan func complex", func() interface{} {
			return struct {
				C chan int
				F func()
				Z complex128
			}{make(chan int), func() {}, 1}
		}),
		mk("unsupported-kind", "slice of chan", func() interface{} { return x([]chan int{make(chan int)}) }),
		mk("unsupported-kind", "unsafe pointer / uintptr", func() interface{} { return x(uintptr(1)) }),
		mk("not-an-environment", "int", func() interface{} { return 42 }),
		mk("not-an-environment", "string", func() interface{} { return "s" }),
		mk("not-an-environment", "slice", func() interface{} { return []int{1} }),
		mk("not-an-environment", "map[int]int", func() interface{} { return map[int]int{1: 2} }),
		mk("not-an-environment", "time.Time", func() interface{} { return time.Unix(0, 0) }),
		mk("unexported-fields", "struct{a int; B string}", func() interface{} { return c12Unexported{1, "x"} }),
		mk("unexported-fields", "struct{t time.Time; N int}", func() interface{} { return c12UnexportedTime{time.Unix(0, 0), 1} }),
		mk("unexported-fields", "map value struct{a int}", func() interface{} { return x(c12Unexported{1, "x"}) }),
		mk("unexported-fields", "map value struct{t time.Time}", func() interface{} { return x(&c12UnexportedTime{time.Unix(0, 0), 1}) }),
		mk("non-primitive-map-key", "map[[2]int]int", func() interface{} { return x(map[[2]int]int{{1, 2}: 3}) }),
		mk("non-primitive-map-key", "map[struct]int", func() interface{} { return x(map[c12S]int{{1, "a"}: 3}) }),
		mk("non-primitive-map-key", "map[interface{}]int mixed", func() interface{} { return x(map[interface{}]int{1: 1, "a": 2}) }),
		mk("non-primitive-map-key", "map[*int]int", func() interface{} { return x(map[*int]int{pone: 1}) }),
		mk("non-primitive-map-key", "empty map[[]..]", func() interface{} { return x(map[[1]int]int{}) }),
		mk("non-primitive-map-key", "map[bool]int, map[float64]int, map[time.Time]int", func() interface{} {
			return map[string]interface{}{"x": map[bool]int{true: 1}, "y": map[float64]int{1.5: 1}, "z": map[time.Time]int{time.Unix(0, 0): 1}}
		}),
		mk("nil-inside", "map value nil", func() interface{} { return x(nil) }),
		mk("nil-inside", "map value (*int)(nil)", func() interface{} { return x((*int)(nil)) }),
		mk("nil-inside", "slice of nil interface", func() interface{} { return x([]interface{}{nil}) }),
		mk("nil-inside", "slice with a nil pointer", func() interface{} { return x([]*int{pone, nil}) }),
		mk("nil-inside", "struct with nil fields", func() interface{} { return c12Nils{} }),
		mk("nil-inside", "struct with maybe-tagged nil / non-nil", func() interface{} { return c12Maybe{P: pone} }),
		mk("nil-inside", "map value nil slice / nil map", func() interface{} {
			return map[string]interface{}{"x": []int(nil), "y": map[string]int(nil)}
		}),
		mk("heterogeneous", "[]interface{}{1, \"a\"}", func() interface{} { return x([]interface{}{1, "a"}) }),
		mk("heterogeneous", "map[string]interface{}{a:1,b:\"x\"} as value", func() interface{} { return x(map[string]interface{}{"a": 1, "b": "x"}) }),
		mk("empty-containers", "empty slice / map / struct", func() interface{} {
			return map[string]interface{}{"x": []int{}, "y": map[string]int{}, "z": struct{}{}, "w": [0]int{}}
		}),
		mk("depth-over-100", "[]...[]int depth 150", func() interface{} { return x(deepSlice(150, false)) }),
		mk("depth-over-100", "[]...[]int depth 150, innermost empty", func() interface{} { return x(deepSlice(150, true)) }),
		mk("depth-over-100", "[]...[]int depth 101", func() interface{} { return x(deepSlice(101, false)) }),
		mk("depth-over-100", "[]interface{} nest depth 150", func() interface{} { return x(deepIface(150)) }),
		mk("depth-over-100", "map[string]interface{} nest depth 150", func() interface{} { return deepMap(150) }),
		mk("depth-over-100", "[]interface{} nest depth 5000", func() interface{} { return x(deepIface(5000)) }),
		mk("recursive-type", "linked struct, nil tail", func() interface{} { return c12Node{V: 1} }),
		mk("recursive-type", "linked struct chain of 150", func() interface{} {
			n := &c12Node{V: 0}
			for i := 1; i < 150; i++ {
				n = &c12Node{Next: n, V: i}
			}
			return n
		}),
		mk("recursive-type", "cyclic struct", func() interface{} { n := &c12Node{V: 1}; n.Next = n; return n }),
		mk("recursive-type", "cyclic map", func() interface{} { m := map[string]interface{}{}; m["x"] = m; return m }),
		mk("recursive-type", "cyclic slice", func() interface{} { s := []interface{}{nil}; s[0] = s; return x(s) }),
		// pointer / interface chains that lead back to themselves (F25: the unwrap loops of conv never ended)
		mk("recursive-type", "self-referential interface x = &x", func() interface{} { var v interface{}; v = &v; return v }),
		mk("recursive-type", "self-referential interface inside a map", func() interface{} { var v interface{}; v = &v; return map[string]interface{}{"x": v} }),
		mk("recursive-type", "two interfaces pointing at each other", func() interface{} { var a, b interface{}; a = &b; b = &a; return a }),
		mk("numeric-kinds", "all int / uint / float kinds, array", func() interface{} {
			return map[string]interface{}{"x": int8(1), "y": uint64(1 << 63), "z": float32(1.5), "w": [3]uint16{1, 2, 3}, "v": []byte("ab")}
		}),
	}
}

// ---- sources -------------------------------------------------------------------

func c12Env() interface{} {
	return map[string]interface{}{
		"n": 1.5, "k": 2, "s": "str", "b": true, "t": time.Unix(1600000000, 0).UTC(),
		"xs": []int{1, 2, 3}, "ss": []string{"a"}, "mp": map[string]int{"a": 1},
		"o": c12S{1, "x"},
	}
}

var c12Corpus = []string{
	"n + k * 2", "-n ^ 2 % 3", "s + \"x\" == `x`", "b && !b || true", "not b and b or false", "n < k ? s : \"no\"",
	"xs[0] + xs[1]", "mp[\"a\"]", "o.a + len(o.b)", "len(xs) > 0 ? max(xs) : 0", "[1, 2, 3][1]", "[\"a\": 1, \"b\": 2][\"a\"]",
	"{a: 1, b: \"x\"}.a", "[[1:1]:1]", "get(mp, \"z\", 0)", "isset(mp, s)", "if(b, n, k)", "string(xs)", "union(xs, [4])",
	"xs.len()", "s.len() + 1", "'2020-01-01 00:00:00' < t", "t - t", "abs(-1) + round(1.5)", "match(\"a+\", s)", "[:]", "[]", "{}",
	"min(n, k) / 0", "k % 2", "xs[k]", "intersect(ss, [\"a\"]) == diff(ss, [])", "strtotime(s)", "[xs, [n]][0][0]", "0x1f + 0b11 + 0o7 + 1e3 + 1.5",
}

var c12Pool = []string{
	"(", ")", "[", "]", "{", "}", ",", ":", ".", "?", "+", "-", "*", "/", "%", "^", "==", "!=", "<", "<=", "!", "&&", "||",
	"not", "and", "or", "1", "0", "5", "\"x\"", "\"(\"", "'now'", "'x'", "a", "n", "s", "xs", "mp", "o", "true", "false", "1e999", "len", "if",
}

type c12Input struct {
	family string
	src    string
	host   *hostCase
}

func c12Sources(cfg Config) []c12Input {
	var ins []c12Input
	rl := newRefLexer([]string{"+", "-", "*", "/", "%", "^", ">", ">=", "<", "<=", "==", "!=", "!", "&&", "||", "not", "and", "or"})
	add := func(family, src string) { ins = append(ins, c12Input{family: family, src: src}) }
	for _, p := range c12Corpus {
		add("valid-program", p)
		toks, ok := rl.lex([]rune(p))
		if !ok {
			continue
		}
		texts := make([]string, len(toks))
		for i, t := range toks {
			texts[i] = t.text
		}
		join := func(xs []string) string { return strings.Join(xs, " ") }
		for i := range texts {
			del := append(append([]string{}, texts[:i]...), texts[i+1:]...)
			add("token-deletion", join(del))
			dup := append(append(append([]string{}, texts[:i+1]...), texts[i]), texts[i+1:]...)
			add("token-duplication", join(dup))
		}
		for i := 0; i <= len(texts); i++ {
			for _, t := range c12Pool {
				ins2 := append(append(append([]string{}, texts[:i]...), t), texts[i:]...)
				add("token-insertion", join(ins2))
			}
		}
	}
	nRand := 3000
	if cfg.Thorough {
		nRand = 30000
	}
	rng := rand.New(rand.NewSource(cfg.Seed*65537 + 12))
	for i := 0; i < nRand; i++ {
		b := make([]byte, 1+rng.Intn(16))
		for k := range b {
			b[k] = byte(rng.Intn(256))
		}
		add("random-bytes", string(b))
	}
	runes := []rune("aé1.?+=!:\"' \n_()[]{},`\\-*/%^<>&|0x#@~$ntrue١　\u0000\ufeff\u2028")
	for i := 0; i < nRand; i++ {
		rs := make([]rune, 1+rng.Intn(16))
		for k := range rs {
			if rng.Intn(20) == 0 {
				rs[k] = rune(rng.Intn(0x11000))
			} else {
				rs[k] = runes[rng.Intn(len(runes))]
			}
		}
		add("random-runes", string(rs))
	}
	for i := 0; i < nRand; i++ {
		var b strings.Builder
		for n := 1 + rng.Intn(10); n > 0; n-- {
			b.WriteString(c12Pool[rng.Intn(len(c12Pool))])
			if rng.Intn(3) > 0 {
				b.WriteByte(' ')
			}
		}
		add("random-tokens", b.String())
	}
	return ins
}

// ---- nests ---------------------------------------------------------------------

type nestShape struct {
	class string // key component: which bracket construct is nested
	name  string
	mk    func(d int) string
}

func rep(s string, n int) string { return strings.Repeat(s, n) }

func c12Nests() []nestShape {
	return []nestShape{
		{"paren", "((…1…))", func(d int) string { return rep("(", d) + "1" + rep(")", d) }},
		{"list-in-list", "[[…1…]] (list in list)", func(d int) string { return rep("[", d) + "1" + rep("]", d) }},
		{"list-or-map-literal", "[[…[1:1]:1…]:1] (map literal as first key)", func(d int) string { return rep("[", d) + "1:1" + rep("]:1", d-1) + "]" }},
		{"list-or-map-literal", "[1:[1:…[1:1]…]] (map literal as value)", func(d int) string { return rep("[1:", d) + "1" + rep("]", d) }},
		{"list-or-map-literal", "[[[…[1:1]…]]] (map literal inside lists)", func(d int) string { return rep("[", d) + "1:1" + rep("]", d) }},
		{"list-or-map-literal", "[{a:[{a:…[1:1]…}:1]}:1] (object / map-key mix)", func(d int) string { return rep("[{a:", d) + "[1:1]" + rep("}:1]", d) }},
		{"object-literal", "{a:{a:…1…}}", func(d int) string { return rep("{a:", d) + "1" + rep("}", d) }},
		{"call", "string(string(…1…))", func(d int) string { return rep("string(", d) + "1" + rep(")", d) }},
		{"subscript", "xs[xs[…0…]]", func(d int) string { return rep("xs[", d) + "0" + rep("]", d) }},
		{"prefix-operator", "- - - … 1", func(d int) string { return rep("- ", d) + "1" }},
		{"ternary", "b?b?…1:1…:1", func(d int) string { return rep("b?", d) + "1" + rep(":1", d) }},
		{"member-call", "1.string().string()…", func(d int) string { return "1" + rep(".string()", d) }},
		{"list-or-map-literal", "[[[[… (openers only)", func(d int) string { return rep("[", d) }},
		{"unbalanced", "((((… (openers only)", func(d int) string { return rep("(", d) }},
		{"unbalanced", "{a:{a:… (openers only)", func(d int) string { return rep("{a:", d) }},
		{"unbalanced", "]]]]… (closers only)", func(d int) string { return "1" + rep("]", d) }},
		{"list-or-map-literal", "[[…[1:1]:1… without the closers", func(d int) string { return rep("[", d) + "1:1" }},
	}
}

// ---- the API under test ----------------------------------------------------------

type apiResult struct {
	compile, call, call2, eval, debug outcome
	compiled                          bool
}

func c12RunAPIs(src string, mkEnv func() interface{}, budget time.Duration) apiResult {
	var r apiResult
	var callable yae.Callable
	r.compile = guarded(budget, func() error {
		c, err := yae.NewExpr().Compile(src, mkEnv())
		callable = c
		return err
	})
	if !r.compile.panicked && !r.compile.timedOut && r.compile.err == nil && callable != nil {
		r.compiled = true
		r.call = guarded(budget, func() error { _, err := callable(mkEnv()); return err })
		r.call2 = guarded(budget, func() error { _, err := callable(mkEnv()); return err })
	}
	if r.compile.timedOut {
		// the other entry points run the same front end; do not stack up abandoned goroutines
		return r
	}
	r.eval = guarded(budget, func() error { _, err := yae.Eval(src, mkEnv()); return err })
	r.debug = guarded(budget, func() error { _, _, err := yae.Debug(src, mkEnv()); return err })
	return r
}

type c12Slow struct {
	dur   time.Duration
	input string
}

func c12Judge(in string, family string, hostClass string, r apiResult, c *chunk, slow *c12Slow) {
	type named struct {
		api string
		o   outcome
	}
	all := []named{{"Expr.Compile", r.compile}, {"Callable", r.call}, {"Callable (second call)", r.call2}, {"Eval", r.eval}, {"Debug", r.debug}}
	for _, a := range all {
		if a.o.dur > slow.dur && !a.o.timedOut {
			slow.dur, slow.input = a.o.dur, a.api+" on "+in
		}
		if a.o.timedOut {
			c.fail("C12/promptly/time-budget-exceeded/"+family, in, "a result within the time budget", a.api+": "+a.o.String(), "")
		}
		if !a.o.panicked {
			continue
		}
		var key string
		switch {
		case hostClass != "":
			key = "C12/panic/host-value/" + hostClass
		case r.compile.panicked:
			key = "C12/panic/compile/" + family
		case r.call.panicked || r.call2.panicked:
			// compiled fine, the evaluation failed: the failure must come back as the error result
			key = "C12/panic/evaluation-failure-escapes"
		default:
			key = "C12/panic/" + strings.ToLower(strings.Fields(a.api)[0]) + "-only/" + family
		}
		c.fail(key, in, "a value or an error", a.api+": "+a.o.String(), "")
	}
}

func RunC12(cfg Config) *report.Report {
	budget := 2 * time.Second
	// a series also stops as soon as one compile takes more than a quarter of
	// the budget, so a deep limit costs nothing for the linear shapes
	maxDepth := 26
	if cfg.Thorough {
		budget = 5 * time.Second
		maxDepth = 32
	}
	r := &report.Report{
		Property: "C12",
		Contract: "yae.Eval, yae.NewExpr().Compile, the returned Callable (called twice) and yae.Debug return (value or error): no panic leaves the API, every call finishes within the time budget, and compile time of a bracket nest does not grow by a factor >= 2.5 per two nesting levels over three consecutive steps (>= 30 over the six levels)",
		Space:    fmt.Sprintf("sources: %d valid programs and all their single-token deletions, duplications and insertions (pool of %d tokens); seeded random byte strings, rune strings and token strings (<= 16 bytes / runes, <= 10 tokens); %d nest shapes (parens, list / map / object literals incl. map literals nested as first key [[[1:1]:1]:1], calls, subscripts, prefix operators, ternaries, method chains, unbalanced) at every depth 1..%d; host values: %d values in the classes nil, typed nil pointer, pointer to nil pointer, nil map, pointers, nested containers, unsupported kinds (chan func complex uintptr), non-environments, unexported fields, non-primitive map keys, nil inside containers, heterogeneous, empty containers, nesting depth > 100, recursive / cyclic, numeric kinds, each with sources 1 and x; a *val.Env passed to the Callable twice; 6 (failing program, working program of the same built-in) sequences, twice each", len(c12Corpus), len(c12Pool), len(c12Nests()), maxDepth, len(c12HostCases())),
		Bound:    fmt.Sprintf("single mutations; nest depth <= %d; time budget %v per call; seed %d", maxDepth, budget, cfg.Seed),
		Rule:     "distinct = (family, source, host value name) by 64-bit FNV-1a hash; non-trivial = every input except the unmutated valid programs and the environments nil / plain map (those are the baseline)",
	}
	// F7: union() prints; keep the harness output clean
	saved := os.Stdout
	if null, err := os.OpenFile(os.DevNull, os.O_WRONLY, 0); err == nil {
		os.Stdout = null
		defer func() { os.Stdout = saved; null.Close() }()
	}

	distinct := map[uint64]struct{}{}
	counts := map[string]int{}
	inputs := c12Sources(cfg)
	hosts := c12HostCases()
	for i := range hosts {
		for _, src := range []string{"1", "x"} {
			inputs = append(inputs, c12Input{family: "host-value", src: src, host: &hosts[i]})
		}
	}

	const parts = 64
	t0 := time.Now()
	slows := make([]c12Slow, parts)
	mergeCounts(counts, parallel(r, distinct, parts, func(p int, c *chunk) {
		for i := p; i < len(inputs); i += parts {
			in := inputs[i]
			mkEnv := c12Env
			desc := fmt.Sprintf("source %q, environment: map with n k s b t xs ss mp o", in.src)
			hostClass := ""
			if in.host != nil {
				mkEnv = in.host.mk
				hostClass = in.host.class
				desc = fmt.Sprintf("source %q, environment: %s", in.src, in.host.name)
				c.nontrivial2(in.family, in.src+"\x00"+in.host.name)
			} else if in.family != "valid-program" {
				c.nontrivial2(in.family, in.src)
			}
			res := c12RunAPIs(in.src, mkEnv, budget)
			c.evals++
			if res.compiled {
				c.stat["inputs that compile"]++
			}
			if i%997 == 0 {
				c.sample(desc)
			}
			c12Judge(desc, in.family, hostClass, res, c, &slows[p])
		}
	}))

	r.Notes = append(r.Notes, fmt.Sprintf("mutation / random / host phase: %v on all cores", time.Since(t0).Round(time.Millisecond)))
	t0 = time.Now()
	// a *val.Env handed to the Callable twice (hosts cache environments)
	mergeCounts(counts, parallel(r, distinct, 1, func(_ int, c *chunk) {
		c.evals++
		c.nontrivial2("reused-env", "n + 1")
		desc := `source "n + 1", environment: the same *val.Env (conv.ValEnvOf) passed to the Callable twice`
		callable, err := yae.NewExpr().Compile("n + 1", c12Env())
		if err != nil {
			c.fail("C12/harness", desc, "compiles", err.Error(), "")
			return
		}
		env, _ := conv.ValEnvOf(c12Env())
		first := guarded(budget, func() error { _, err := callable(env); return err })
		second := guarded(budget, func() error { _, err := callable(env); return err })
		for i, o := range []outcome{first, second} {
			if o.panicked {
				c.fail("C12/panic/callable/reused-environment", desc, "a value or an error", fmt.Sprintf("call %d: %s", i+1, o), "")
			}
		}
	}))

	// a failed evaluation must not poison later ones: each documented run-time
	// failure (bad regular expression, subscript out of range, missing key,
	// modulo zero, bad time text), followed by a working evaluation of the same
	// built-in, through every entry point, in one process
	mergeCounts(counts, parallel(r, distinct, 1, func(_ int, c *chunk) {
		pairs := []struct{ bad, good string }{
			{`match("(", "abc")`, `match("a", "abc")`},
			{`match("[a-", s)`, `match("^h", s)`},
			{`xs[99]`, `xs[0]`},
			{`mp["absent"]`, `len(mp) >= 0`},
			{`n % 0`, `n % 2`},
			{`strtotime("not a time")`, `strtotime("2020-01-01 00:00:00")`},
		}
		for _, pr := range pairs {
			for round := 0; round < 2; round++ {
				c.evals++
				c.nontrivial2("after-failure", pr.bad+"\x00"+pr.good)
				desc := fmt.Sprintf("source %q evaluated after %q failed (round %d), environment: map with n k s b t xs ss mp o", pr.good, pr.bad, round+1)
				c12RunAPIs(pr.bad, c12Env, budget) // outcome judged by the main family
				res := c12RunAPIs(pr.good, c12Env, budget)
				c12Judge(desc, "after-failure", "", res, c, &c12Slow{})
			}
		}
	}))

	// nests: sequential, so that the timings are not disturbed; a series stops
	// at the first depth that exceeds the budget or once growth is established
	var slowest c12Slow
	for _, s := range slows {
		if s.dur > slowest.dur {
			slowest = s
		}
	}
	nestChunk := newChunk()
	for _, sh := range c12Nests() {
		var times []time.Duration
		var depths []int
		flagged := false
		for d := 1; d <= maxDepth; d++ {
			if len(times) > 0 && times[len(times)-1] > budget/4 {
				// deeper nests of this shape can only be slower
				break
			}
			src := sh.mk(d)
			desc := fmt.Sprintf("source %s at depth %d (%d characters), environment: map with n k s b t xs ss mp o", sh.name, d, len(src))
			nestChunk.evals++
			nestChunk.nontrivial2("nest", src)
			res := c12RunAPIs(src, c12Env, budget)
			c12Judge(desc, "nest/"+sh.class, "", res, nestChunk, &slowest)
			if res.compile.timedOut {
				break
			}
			// compile time: best of three
			best := res.compile.dur
			reps := 0 // above 20 ms the scheduling noise is small against the signal
			if best < 20*time.Millisecond {
				reps = 4
			}
			for k := 0; k < reps && best > 50*time.Microsecond && best < budget/4; k++ {
				o := guarded(budget, func() error { _, err := yae.NewExpr().Compile(src, c12Env()); return err })
				if !o.timedOut && o.dur < best {
					best = o.dur
				}
			}
			times = append(times, best)
			depths = append(depths, d)
			// growth over the last three steps of two levels: d-6, d-4, d-2, d
			n := len(times)
			if !flagged && n >= 7 && times[n-7] >= 100*time.Microsecond {
				r1 := float64(times[n-5]) / float64(times[n-7])
				r2 := float64(times[n-3]) / float64(times[n-5])
				r3 := float64(times[n-1]) / float64(times[n-3])
				if r1 >= 2.5 && r2 >= 2.5 && r3 >= 2.5 && r1*r2*r3 >= 30 {
					flagged = true
					nestChunk.fail("C12/promptly/super-polynomial-growth/"+sh.class, desc,
						"compile time polynomial in the length of the source",
						fmt.Sprintf("compile time at depths %d, %d, %d, %d: %v, %v, %v, %v (x%.1f, x%.1f, x%.1f per two levels)",
							depths[n-7], depths[n-5], depths[n-3], depths[n-1], times[n-7], times[n-5], times[n-3], times[n-1], r1, r2, r3), "")
				}
			}
		}
		if len(times) > 0 {
			r.Notes = append(r.Notes, fmt.Sprintf("nest %s: compile time at depth %d: %v", sh.name, depths[len(depths)-1], times[len(times)-1]))
		}
	}
	r.Notes = append(r.Notes, fmt.Sprintf("nest phase (sequential): %v", time.Since(t0).Round(time.Millisecond)))
	r.Evaluations += nestChunk.evals
	for h := range nestChunk.distinct {
		distinct[h] = struct{}{}
	}
	sort.SliceStable(nestChunk.fails, func(i, j int) bool { return false })
	for _, f := range nestChunk.fails {
		r.AddFailure(f)
	}
	mergeCounts(counts, nestChunk.nfail)

	r.DistinctNontrivial = len(distinct)
	r.Exhaustive = false
	r.Notes = append(r.Notes,
		fmt.Sprintf("slowest call: %v — %s", slowest.dur, slowest.input),
		"Evaluations counts inputs; every input is run through Expr.Compile, the Callable (twice), Eval and Debug.",
		"The single-token mutation families and the host value list are enumerated completely; the random families and the space of all strings are sampled, hence exhaustive=false.",
		"A nest series is cut off once a compile takes more than a quarter of the time budget (deeper nests of the same shape can only be slower), so super-polynomial growth is reported once, as growth, and not again as time-outs.",
	)
	noteCounts(r, counts)
	return r
}
