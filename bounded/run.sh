#!/bin/bash
# usage: run.sh PROP TIER SEED REPO OUT.json
# Builds the stand-in harness for PROP against the tree REPO (with the
# read-only accessor files of ./hooks overlaid, build tag verif) and runs it.
set -e
PROP=$1; TIER=$2; SEED=$3; REPO=$4; OUT=$5
cd /verif/bounded
GROUP=$(cat props/$PROP)
export GOFLAGS=-mod=mod GOPROXY=off GOSUMDB=off GOTOOLCHAIN=local
W=$(mktemp -d /tmp/bounded.XXXXXX)
trap 'rm -rf "$W"' EXIT
sed "s#=> /repo#=> $REPO#" go.mod > $W/go.mod
cp go.sum $W/go.sum 2>/dev/null || true
# overlay: hooks/<pkg path>/zz_hooks_verif.go -> REPO/<pkg path>/zz_hooks_verif.go
python3 - "$REPO" "$W/overlay.json" <<'PY'
import json, os, sys
repo, out = sys.argv[1], sys.argv[2]
rep = {}
for root, _, files in os.walk('/verif/bounded/hooks'):
    for f in files:
        if f.endswith('.go'):
            rel = os.path.relpath(os.path.join(root, f), '/verif/bounded/hooks')
            rep[os.path.join(repo, rel)] = os.path.join(root, f)
json.dump({"Replace": rep}, open(out, 'w'))
PY
go build -modfile=$W/go.mod -overlay=$W/overlay.json -tags verif -o $W/harness ./cmd/$GROUP
cd $W && ./harness -property $PROP -tier $TIER -seed $SEED -out $OUT
