// Package report is the output format shared by all bounded stand-in
// harnesses.  A bounded stand-in checks the SAME contract that gvc tries to
// prove (pre/postcondition of a function or of the public API), at run time,
// on the real code, over an enumerated input space with a stated bound.  Its
// results are labelled "bounded" in the evidence and never counted as proved.
package report

import (
	"encoding/json"
	"fmt"
	"os"
	"sort"
)

type Failure struct {
	// Key identifies the violated contract clause and the class of input in
	// a stable way (no line numbers, no random values), e.g.
	// "C01/member-access/field-order".  known_findings.json matches on
	// "bounded:<Key>" (regular expression).
	Key      string `json:"key"`
	Input    string `json:"input"`    // the concrete failing input (program source, environment, ...)
	Expected string `json:"expected"` // what the contract demands
	Got      string `json:"got"`      // what the real code did
	Detail   string `json:"detail,omitempty"`
}

type Report struct {
	Property           string    `json:"property"`
	Contract           string    `json:"contract"` // which contract clauses were checked at run time
	Space              string    `json:"space"`    // how inputs are enumerated
	Bound              string    `json:"bound"`    // the stated bound
	Rule               string    `json:"rule"`     // what makes a case distinct / non-trivial
	Evaluations        int       `json:"evaluations"`
	DistinctNontrivial int       `json:"distinct_nontrivial"`
	Exhaustive         bool      `json:"exhaustive"`
	Samples            []string  `json:"samples"`
	Failures           []Failure `json:"failures"`
	Notes              []string  `json:"notes,omitempty"`
}

// AddFailure records at most 3 inputs per key (the first ones, which the
// enumerators produce smallest-first).
func (r *Report) AddFailure(f Failure) {
	n := 0
	for _, x := range r.Failures {
		if x.Key == f.Key {
			n++
		}
	}
	if n < 3 {
		r.Failures = append(r.Failures, f)
	}
}

func (r *Report) Sample(s string) {
	if len(r.Samples) < 8 {
		r.Samples = append(r.Samples, s)
	}
}

func (r *Report) Write(path string) error {
	sort.SliceStable(r.Failures, func(i, j int) bool { return r.Failures[i].Key < r.Failures[j].Key })
	if r.Failures == nil {
		r.Failures = []Failure{}
	}
	if r.Samples == nil {
		r.Samples = []string{}
	}
	b, err := json.MarshalIndent(r, "", " ")
	if err != nil {
		return err
	}
	fmt.Printf("bounded %s: %d evaluations, %d distinct non-trivial, %d failure keys\n", r.Property, r.Evaluations, r.DistinctNontrivial, len(r.Failures))
	return os.WriteFile(path, b, 0o644)
}
