#!/bin/bash
# warms the build cache for every harness group (called by /verif/setup.sh)
set -e
cd /verif/bounded
for g in $(cat props/* 2>/dev/null | sort -u); do
  OUT=$(mktemp); ./run.sh $(grep -l "^$g$" props/* | head -1 | xargs basename) quick 1 /repo $OUT >/dev/null 2>&1 || true; rm -f $OUT
done
