package prog

// Reference values (independent of package val) and their renderings.

import (
	"math"
	"sort"
	"strconv"
	"strings"
	"time"
)

const EPS = 1e-9

type RVal struct {
	K     K
	B     bool
	N     float64
	S     string
	T     time.Time
	L     []RVal   // list elements / map values / object field values
	Keys  []RVal   // map keys, insertion order of first occurrence
	Names []string // object field names in the value's own declaration order
	P     *RVal    // maybe payload, nil = absent
}

func RNum(x float64) RVal    { return RVal{K: KNum, N: x} }
func RStr(s string) RVal     { return RVal{K: KStr, S: s} }
func RBool(b bool) RVal      { return RVal{K: KBool, B: b} }
func RTime(t time.Time) RVal { return RVal{K: KTime, T: t} }
func RList(xs ...RVal) RVal {
	if xs == nil {
		xs = []RVal{}
	}
	return RVal{K: KList, L: xs}
}
func RMapOf(keys, vals []RVal) RVal { return RVal{K: KMap, Keys: keys, L: vals} }
func RObj(names []string, vals []RVal) RVal {
	return RVal{K: KObj, Names: names, L: vals}
}
func RJust(v RVal) RVal { return RVal{K: KMaybe, P: &v} }
func RNothing() RVal    { return RVal{K: KMaybe} }

func (v RVal) Field(name string) (RVal, bool) {
	for i, n := range v.Names {
		if n == name {
			return v.L[i], true
		}
	}
	return RVal{}, false
}

func isIntegral(x float64) bool { return x == math.Trunc(x) }

// fmtNum: the documented number conversion: integral |x| < 2^63 as a decimal
// integer, every other number with the shortest %f-style digits.
func fmtNum(x float64) string {
	if isIntegral(x) && math.Abs(x) < 9223372036854775808.0 {
		return strconv.FormatInt(int64(x), 10)
	}
	return strconv.FormatFloat(x, 'f', -1, 64)
}

// beyondInt64: integral (or infinite) numbers that cannot go through int64.
func beyondInt64(x float64) bool {
	return isIntegral(x) && math.Abs(x) >= 9223372036854775808.0
}

// Render is the harness's canonical rendering (trace entries, messages).
func (v RVal) Render() string {
	switch v.K {
	case KBool:
		return strconv.FormatBool(v.B)
	case KNum:
		if v.N == 0 && math.Signbit(v.N) {
			return "-0"
		}
		return fmtNum(v.N)
	case KStr:
		return strconv.Quote(v.S)
	case KTime:
		return "time(" + strconv.FormatInt(v.T.UnixNano(), 10) + ")"
	case KList:
		xs := make([]string, len(v.L))
		for i, e := range v.L {
			xs[i] = e.Render()
		}
		return "[" + strings.Join(xs, ", ") + "]"
	case KMap:
		if len(v.Keys) == 0 {
			return "[:]"
		}
		xs := make([]string, len(v.Keys))
		for i := range v.Keys {
			xs[i] = v.Keys[i].Render() + ": " + v.L[i].Render()
		}
		sort.Strings(xs)
		return "[" + strings.Join(xs, ", ") + "]"
	case KObj:
		xs := make([]string, len(v.Names))
		for i := range v.Names {
			xs[i] = v.Names[i] + ": " + v.L[i].Render()
		}
		sort.Strings(xs)
		return "{" + strings.Join(xs, ", ") + "}"
	case KMaybe:
		if v.P == nil {
			return "Nothing"
		}
		return "Just(" + v.P.Render() + ")"
	case KBot:
		return "<nil>"
	}
	return "?"
}

// same: exact agreement of two reference values used when comparing the real
// result with the reference result (C04): numbers equal as doubles (NaN ~
// NaN), strings exact, times same instant, containers element-wise, maps by
// key, objects by field name.
func same(a, b RVal) bool {
	if a.K != b.K {
		return false
	}
	switch a.K {
	case KBool:
		return a.B == b.B
	case KNum:
		return a.N == b.N || (math.IsNaN(a.N) && math.IsNaN(b.N))
	case KStr:
		return a.S == b.S
	case KTime:
		return a.T.Equal(b.T)
	case KList:
		if len(a.L) != len(b.L) {
			return false
		}
		for i := range a.L {
			if !same(a.L[i], b.L[i]) {
				return false
			}
		}
		return true
	case KMap:
		if len(a.Keys) != len(b.Keys) {
			return false
		}
		for i, k := range a.Keys {
			j := findKey(b.Keys, k)
			if j < 0 || !same(a.L[i], b.L[j]) {
				return false
			}
		}
		return true
	case KObj:
		if len(a.Names) != len(b.Names) {
			return false
		}
		for i, n := range a.Names {
			y, ok := b.Field(n)
			if !ok || !same(a.L[i], y) {
				return false
			}
		}
		return true
	case KMaybe:
		if a.P == nil || b.P == nil {
			return a.P == nil && b.P == nil
		}
		return same(*a.P, *b.P)
	}
	return true
}

// keySame: identity of map keys (primitive values).
func keySame(a, b RVal) bool {
	if a.K != b.K {
		return false
	}
	switch a.K {
	case KBool:
		return a.B == b.B
	case KNum:
		return a.N == b.N || (math.IsNaN(a.N) && math.IsNaN(b.N))
	case KStr:
		return a.S == b.S
	case KTime:
		return a.T.Equal(b.T)
	}
	return false
}

func findKey(keys []RVal, k RVal) int {
	for i := range keys {
		if keySame(keys[i], k) {
			return i
		}
	}
	return -1
}
