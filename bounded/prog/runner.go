package prog

// Workers, case evaluation (reference side + the four real back ends),
// attribution of a violation to the smallest violating sub-program, and the
// deterministic merge of the workers' findings into the report.

import (
	"fmt"
	"hash/fnv"
	"os"
	"runtime/debug"
	"sort"
	"strings"
	"sync"
	"syscall"
	"time"

	"bounded/report"

	"github.com/goghcrow/yae/types"
	"github.com/goghcrow/yae/val"
)

// Case: one program (a term template shared between workers, never mutated).
type Case struct {
	Seq    int
	T      *Term
	Family string      // "exhaustive", "random", or the name of a directed family
	Groups []*EnvGroup // nil: the standard environments
}

type InstResult struct {
	Inst *EnvInst
	Ref  RefOutcome
	Out  [NBackends]Outcome
	// Unstable: repeated runs of the same program in the same environment
	// gave different results (only looked for when the reference evaluation
	// says the real result may depend on hash iteration order)
	Unstable bool
}

type CaseResult struct {
	T      *Term // annotated private copy
	Group  *EnvGroup
	RefTy  *Ty
	RefErr error
	Comp   *Compiled
	Insts  []*InstResult
}

// Violation: what a check reports; the runner adds attribution and input.
type Violation struct {
	Clause   string
	Class    string // optional: preset class (no attribution by minimisation)
	Backend  int    // -1: not tied to one back end
	Expected string
	Got      string
	Detail   string
}

// CheckFn inspects one (program, environment) evaluation.
type CheckFn func(w *Worker, cr *CaseResult, ir *InstResult) *Violation

type Worker struct {
	eng       *Engine
	prop      string
	findings  map[string][]Finding
	counters  map[string]int
	noteLines []string
	distinct  map[uint64]struct{}
	evals     int
	executed  int
	// notes
	yaeRejects   int
	refRejects   int
	parseErrors  int
	vmRefusals   int
	typeMismatch int
	unspec       int
	rejectSample []string
	minCache     map[string]string
	safeCache    map[string]*CaseResult // (group|src) -> nil if safe, else the evaluation showing an ill-typed value
	blocked      int
	valCache19   map[string]cached19
}

func NewWorker(prop string) *Worker {
	return &Worker{eng: NewEngine(), prop: prop, findings: map[string][]Finding{}, counters: map[string]int{},
		distinct: map[uint64]struct{}{}, minCache: map[string]string{}, safeCache: map[string]*CaseResult{}}
}

func hash64(s string) uint64 {
	h := fnv.New64a()
	h.Write([]byte(s))
	return h.Sum64()
}

func (w *Worker) noteProgram(t *Term) {
	if t.Nontrivial() {
		w.distinct[hash64(t.Src())] = struct{}{}
	}
}

func (w *Worker) addFinding(seq, size int, f report.Failure) {
	fs := w.findings[f.Key]
	fs = append(fs, Finding{seq, size, f})
	sort.SliceStable(fs, func(i, j int) bool {
		if fs[i].Size != fs[j].Size {
			return fs[i].Size < fs[j].Size
		}
		return fs[i].Seq < fs[j].Seq
	})
	if len(fs) > 3 {
		fs = fs[:3]
	}
	w.findings[f.Key] = fs
}

// Eval runs one term in one environment group (all instances or only one).
func (w *Worker) Eval(t *Term, g *EnvGroup, only *EnvInst) *CaseResult {
	cr := &CaseResult{T: t.Clone(), Group: g}
	cr.RefTy, cr.RefErr = RefCheck(cr.T, g.Gamma)
	cr.Comp = w.eng.CompileSrc(cr.T.Src(), w.eng.TypeEnv(g))
	w.runInsts(cr, only)
	return cr
}

// EvalCore is Eval for the explicit core tree of the term.
func (w *Worker) EvalCore(t *Term, g *EnvGroup, only *EnvInst) *CaseResult {
	cr := &CaseResult{T: t.Clone(), Group: g}
	cr.RefTy, cr.RefErr = RefCheck(cr.T, g.Gamma)
	var comp *Compiled
	if m := guard(func() { comp = w.eng.CompileCore(cr.T.Core(), w.eng.TypeEnv(g)) }); m != "" {
		comp = &Compiled{Src: cr.T.Src(), Stage: "build", Err: m}
	}
	cr.Comp = comp
	w.runInsts(cr, only)
	return cr
}

// EvalSrc is Eval for an arbitrary source text; t (if not nil) is the term it
// is a rendering of (reference side).
func (w *Worker) EvalSrc(src string, t *Term, g *EnvGroup, only *EnvInst) *CaseResult {
	cr := &CaseResult{Group: g}
	if t != nil {
		cr.T = t.Clone()
		cr.RefTy, cr.RefErr = RefCheck(cr.T, g.Gamma)
	} else {
		cr.RefErr = fmt.Errorf("no reference term")
	}
	cr.Comp = w.eng.CompileSrc(src, w.eng.TypeEnv(g))
	w.runInsts(cr, only)
	return cr
}

func (w *Worker) runInsts(cr *CaseResult, only *EnvInst) {
	if !cr.Comp.OK() {
		return
	}
	for _, inst := range cr.Group.Insts {
		if only != nil && inst != only {
			continue
		}
		ir := &InstResult{Inst: inst}
		if cr.RefErr == nil {
			ir.Ref = RefEval(cr.T, inst.Ref)
		}
		env := w.eng.ValEnv(inst)
		for b := 0; b < NBackends; b++ {
			if cr.Comp.Cl[b] == nil {
				ir.Out[b] = Outcome{Fail: "refused", Msg: cr.Comp.ClErr[b]}
				continue
			}
			ir.Out[b] = w.eng.Run(cr.Comp.Cl[b], env)
		}
		if ir.Ref.Repeat && cr.RefErr == nil {
			// the result may depend on hash iteration order: look for a run
			// that deviates from the reference and for two runs that differ
			// (deterministic verdict with overwhelming probability)
			first := ir.Out[0]
			for b := 0; b < NBackends; b++ {
				if cr.Comp.Cl[b] == nil {
					continue
				}
				deviates := !agreesWithRef(ir.Out[b], ir.Ref)
				for rep := 0; rep < 24 && !(deviates && ir.Unstable); rep++ {
					o := w.eng.Run(cr.Comp.Cl[b], env)
					if !sameOutcome(o, first) {
						ir.Unstable = true
					}
					if !deviates && !agreesWithRef(o, ir.Ref) {
						ir.Out[b] = o
						deviates = true
					}
				}
				if !sameOutcome(ir.Out[b], first) {
					ir.Unstable = true
				}
			}
		}
		w.evals++
		cr.Insts = append(cr.Insts, ir)
	}
	w.executed++
}

func sameOutcome(a, b Outcome) bool {
	if a.Fail != b.Fail || a.ConvErr != b.ConvErr {
		return false
	}
	if a.Fail != "" || a.ConvErr != "" {
		return true
	}
	return same(a.RV, b.RV) && sameTrace(a.Trace, b.Trace)
}

func agreesWithRef(o Outcome, r RefOutcome) bool {
	if o.Fail != r.Fail {
		return false
	}
	if o.Fail != "" {
		return true
	}
	return o.ConvErr == "" && same(o.RV, r.Val)
}

// usable: both sides accept the program; otherwise count why not.
func (w *Worker) usable(cr *CaseResult) bool {
	switch {
	case cr.Comp.Stage == "parse" || cr.Comp.Stage == "desugar" || cr.Comp.Stage == "build":
		w.parseErrors++
		w.sampleReject(cr, "does not parse")
		return false
	case cr.RefErr != nil && cr.Comp.OK():
		w.refRejects++
		w.sampleReject(cr, "accepted by yae, rejected by the reference checker: "+cr.RefErr.Error())
		return false
	case cr.RefErr != nil:
		return false
	case !cr.Comp.OK():
		w.yaeRejects++
		w.sampleReject(cr, "rejected by yae: "+trunc(cr.Comp.Err, 100))
		return false
	}
	if !Eq(FromType(cr.Comp.Static), cr.RefTy) {
		w.typeMismatch++
		w.sampleReject(cr, fmt.Sprintf("inferred %s, reference %s", cr.Comp.Static, cr.RefTy))
		return false
	}
	return true
}

func (w *Worker) sampleReject(cr *CaseResult, why string) {
	if len(w.rejectSample) < 5 {
		w.rejectSample = append(w.rejectSample, cr.Comp.Src+"  ["+cr.Group.Key+"] "+why)
	}
}

// ---------------------------------------------------------------- C01 walker (shared: also root-cause attribution)

// hasType: v is non-nil, its dynamic type is tyEq to t, and recursively every
// component has the declared component type (object fields matched by name).
// Returns "" or a description of the first defect and its clause.
func hasType(v *val.Val, t *types.Type, path string, depth int) (clause, detail string) {
	defer func() {
		if r := recover(); r != nil {
			clause, detail = "unreadable-value", fmt.Sprintf("%s: %v", path, r)
		}
	}()
	if v == nil {
		return "nil-component", path + " is nil"
	}
	if v.Type == nil {
		return "nil-component", path + " has no type"
	}
	if !types.Equals(v.Type, t) {
		return "dynamic-type", fmt.Sprintf("%s has dynamic type %s, declared %s", path, v.Type, t)
	}
	if depth > 30 {
		return "", ""
	}
	switch t.Kind {
	case types.KList:
		for i, e := range v.List().V {
			if c, d := hasType(e, t.List().El, fmt.Sprintf("%s[%d]", path, i), depth+1); c != "" {
				return c, d
			}
		}
	case types.KMap:
		mt := t.Map()
		for k, e := range v.Map().V {
			if keyKind(k) != mt.Key.Kind {
				return "dynamic-type", fmt.Sprintf("%s has a key of kind %s, declared %s", path, keyKind(k), mt.Key)
			}
			if c, d := hasType(e, mt.Val, fmt.Sprintf("%s[%s]", path, k), depth+1); c != "" {
				return c, d
			}
		}
	case types.KObj:
		o := v.Obj()
		if len(o.V) != len(t.Obj().Fields) {
			return "dynamic-type", fmt.Sprintf("%s has %d field values, declared %d", path, len(o.V), len(t.Obj().Fields))
		}
		for _, f := range t.Obj().Fields {
			fv, ok := o.Get(f.Name)
			if !ok {
				return "dynamic-type", fmt.Sprintf("%s lacks field %s", path, f.Name)
			}
			if c, d := hasType(fv, f.Val, path+"."+f.Name, depth+1); c != "" {
				return c, d
			}
		}
	case types.KMaybe:
		if p := v.Maybe().V; p != nil {
			return hasType(p, t.Maybe().Elem, path+".payload", depth+1)
		}
	}
	return "", ""
}

func checkC01(w *Worker, cr *CaseResult, ir *InstResult) *Violation {
	for b := 0; b < NBackends; b++ {
		o := ir.Out[b]
		if o.Fail != "" {
			continue
		}
		if c, d := hasType(o.V, cr.Comp.Static, "result", 0); c != "" {
			return &Violation{Clause: c, Backend: b, Expected: "a value of the inferred type " + cr.Comp.Static.String(), Got: d}
		}
	}
	return nil
}

// ---------------------------------------------------------------- attribution

var rootCause = map[string]string{
	"permuted-object-fields": "set-membership-of-permuted-objects",
	"num>=2^63":              "number-beyond-int64",
	"field-order-differs":    "object-field-order",
	"duplicate-key":          "map-literal-duplicate-key",
}

var rootCauseOrder = []string{"duplicate-key", "field-order-differs", "num>=2^63", "permuted-object-fields"}

func classOf(t *Term, tag string) string {
	for _, rc := range rootCauseOrder {
		for _, part := range strings.Split(tag, "+") {
			if part == rc {
				return rootCause[rc]
			}
		}
	}
	base := "literal"
	switch t.K {
	case TkCall:
		if t.Sig != nil {
			base = t.Sig.ID
		} else {
			base = "call-" + t.Text
		}
	case TkMember:
		base = "member"
	case TkSub:
		base = "subscript"
		if t.Args[0].Ty != nil {
			if t.Args[0].Ty.K == KList {
				base = "subscript-list"
			} else {
				base = "subscript-map"
			}
		}
	case TkList:
		base = "list-literal"
	case TkMap:
		base = "map-literal"
	case TkObj:
		base = "object-literal"
	case TkVar:
		base = "variable"
	}
	if tag != "" {
		base += ":" + tag
	}
	return base
}

// attribute: descend into the smallest sub-program that still violates the
// property (or already yields an ill-typed value, the root cause of many
// downstream symptoms); returns it, the clause it violates and its class.
func (w *Worker) attribute(t *Term, g *EnvGroup, inst *EnvInst, check CheckFn, clause string) (*Term, string, string) {
	cur := t
	for depth := 0; depth < 1000; depth++ {
		var next *Term
		for _, c := range cur.Args {
			key := w.prop + "|" + inst.Name + "|" + c.Src()
			cl, ok := w.minCache[key]
			if !ok {
				cl = w.violates(c, g, inst, check)
				w.minCache[key] = cl
			}
			if cl != "" {
				next = c
				clause = cl
				break
			}
		}
		if next == nil {
			break
		}
		cur = next
	}
	// class of the minimal term: its root operation and the edge tag the
	// reference evaluation attaches to it
	cc := cur.Clone()
	tag := ""
	if _, err := RefCheck(cc, g.Gamma); err == nil {
		ro := RefEval(cc, inst.Ref)
		tag = ro.Tags[cc]
		// a root-cause tag anywhere inside a minimal term still names it
		for _, rc := range rootCauseOrder {
			for _, tg := range ro.Tags {
				for _, part := range strings.Split(tg, "+") {
					if part == rc && !strings.Contains(tag, rc) {
						tag += "+" + rc
					}
				}
			}
		}
		tag = strings.TrimPrefix(tag, "+")
	}
	return cur, clause, classOf(cc, tag)
}

// violates: the clause of the property that t violates as a program ("" if
// none); a program that yields an ill-typed value counts under the clause
// "ill-typed-value" for every property.
func (w *Worker) violates(t *Term, g *EnvGroup, inst *EnvInst, check CheckFn) string {
	cr := w.Eval(t, g, inst)
	w.uncount(cr) // attribution runs are not counted as evaluations of the space
	if cr.RefErr != nil || !cr.Comp.OK() || len(cr.Insts) == 0 {
		return ""
	}
	ir := cr.Insts[0]
	if v := check(w, cr, ir); v != nil {
		return v.Clause
	}
	if v := checkC01(w, cr, ir); v != nil {
		return "ill-typed-value"
	}
	return ""
}

// Report one violation found on (cs, cr, ir).
func (w *Worker) report(cs *Case, cr *CaseResult, ir *InstResult, v *Violation, check CheckFn) {
	class := v.Class
	min := cs.T
	clause := v.Clause
	if class == "" {
		min, clause, class = w.attribute(cs.T, cr.Group, ir.Inst, check, v.Clause)
	}
	if clause == "value-defect" {
		// the symptom is a consequence of a sub-program computing a wrong
		// value (C04's subject), not of this property's subject
		w.counters["symptoms-of-a-wrong-value-in-a-sub-program"]++
		return
	}
	key := w.prop + "/" + clause + "/" + class
	input := cr.Comp.Src + "   | env " + cr.Group.Describe(ir.Inst)
	detail := v.Detail
	if v.Backend >= 0 {
		detail = strings.TrimSpace("back end " + BackendNames[v.Backend] + ". " + detail)
	}
	if min != cs.T {
		detail += " Smallest violating sub-program: " + min.Src()
	}
	detail += " [" + cs.Family + "]"
	w.addFinding(cs.Seq, cs.T.Size(), report.Failure{Key: key, Input: input, Expected: v.Expected, Got: v.Got, Detail: strings.TrimSpace(detail)})
}

// ---------------------------------------------------------------- pool

// Finding: one recorded violation (exported for the worker result files).
type Finding struct {
	Seq  int
	Size int
	F    report.Failure
}

// WorkerResult: what one worker process hands back to the coordinator.
type WorkerResult struct {
	Findings     map[string][]Finding
	Distinct     []uint64
	Evals        int
	YaeRejects   int
	RefRejects   int
	ParseErrors  int
	TypeMismatch int
	Unspec       int
	Blocked      int
	RejectSample []string
	Counters     map[string]int
	NoteLines    []string
	Meta         report.Report // contract / space / bound / rule / samples as the driver wrote them
}

var slowLog = os.Getenv("VERIF_SLOW") != ""

type Pool struct {
	Prop    string
	Workers []*Worker
	ch      chan []*Case
	wg      sync.WaitGroup
	pending sync.WaitGroup
	seq     int
	batch   []*Case
	// child-process mode
	skip   map[int]bool
	only   map[int]bool
	status []byte
}

func seqSet(s string) map[int]bool {
	m := map[int]bool{}
	for _, f := range strings.Split(s, ",") {
		var x int
		if _, err := fmt.Sscanf(f, "%d", &x); err == nil {
			m[x] = true
		}
	}
	return m
}

const statusSlot = 1600

// NewPool starts the worker goroutines that apply handle to every case.
// VERIF_SKIP / VERIF_ONLY (set by the coordinator after a process death)
// exclude / select cases by sequence number; VERIF_STATUS names the file in
// which every worker goroutine records the program it is evaluating.
func NewPool(prop string, handle func(w *Worker, c *Case)) *Pool {
	n := nWorkers()
	p := &Pool{Prop: prop}
	p.skip = seqSet(os.Getenv("VERIF_SKIP"))
	p.only = seqSet(os.Getenv("VERIF_ONLY"))
	if len(p.only) > 0 {
		n = 1
	}
	p.ch = make(chan []*Case, 4*n)
	if sf := os.Getenv("VERIF_STATUS"); sf != "" {
		// a shared file mapping: no system call per case, and the content
		// survives the death of this process
		if f, err := os.OpenFile(sf, os.O_CREATE|os.O_RDWR, 0o644); err == nil {
			if f.Truncate(int64(n*statusSlot)) == nil {
				if m, err := syscall.Mmap(int(f.Fd()), 0, n*statusSlot, syscall.PROT_READ|syscall.PROT_WRITE, syscall.MAP_SHARED); err == nil {
					p.status = m
				}
			}
			f.Close()
		}
	}
	for i := 0; i < n; i++ {
		w := NewWorker(prop)
		p.Workers = append(p.Workers, w)
		p.wg.Add(1)
		go func(slot int) {
			defer p.wg.Done()
			debug.SetPanicOnFault(true)
			for batch := range p.ch {
				for _, c := range batch {
					if p.status != nil {
						// which program is being evaluated, should the process die
						rec := fmt.Sprintf("%-12d%s", c.Seq, trunc(c.T.Render(MPlain), statusSlot-40))
						sl := p.status[slot*statusSlot : (slot+1)*statusSlot]
						k := copy(sl, rec)
						for ; k < len(sl) && sl[k] != 0; k++ {
							sl[k] = 0
						}
					}
					t0 := time.Now()
					handle(w, c)
					if d := time.Since(t0); slowLog && d > 100*time.Millisecond {
						fmt.Fprintf(os.Stderr, "slow case %v [%s] %s\n", d, c.Family, trunc(c.T.Render(MPlain), 100))
					}
				}
				p.pending.Done()
			}
			if p.status != nil {
				copy(p.status[slot*statusSlot:], "0           ")
			}
		}(i)
	}
	return p
}

func (p *Pool) Submit(t *Term, family string, groups []*EnvGroup) {
	p.seq++
	if p.skip[p.seq] || (len(p.only) > 0 && !p.only[p.seq]) {
		return
	}
	p.batch = append(p.batch, &Case{Seq: p.seq, T: t, Family: family, Groups: groups})
	if len(p.batch) >= 32 {
		p.Flush()
	}
}

func (p *Pool) Flush() {
	if len(p.batch) > 0 {
		p.pending.Add(1)
		p.ch <- p.batch
		p.batch = nil
	}
}

// Barrier waits until every submitted case has been handled.
func (p *Pool) Barrier() {
	p.Flush()
	p.pending.Wait()
}

func (p *Pool) Close() {
	p.Flush()
	close(p.ch)
	p.wg.Wait()
}

// Result collects the raw results of the pool's workers.
func (p *Pool) Result() *WorkerResult {
	res := &WorkerResult{Findings: map[string][]Finding{}, Counters: map[string]int{}}
	distinct := map[uint64]struct{}{}
	for _, w := range p.Workers {
		for k, fs := range w.findings {
			res.Findings[k] = append(res.Findings[k], fs...)
		}
		for h := range w.distinct {
			distinct[h] = struct{}{}
		}
		res.Evals += w.evals
		res.YaeRejects += w.yaeRejects
		res.RefRejects += w.refRejects
		res.ParseErrors += w.parseErrors
		res.TypeMismatch += w.typeMismatch
		res.Unspec += w.unspec
		res.Blocked += w.blocked
		res.RejectSample = append(res.RejectSample, w.rejectSample...)
		for k, v := range w.counters {
			res.Counters[k] += v
		}
		res.NoteLines = append(res.NoteLines, w.noteLines...)
	}
	for h := range distinct {
		res.Distinct = append(res.Distinct, h)
	}
	return res
}

// lastPool: the pool of the driver that ran in this process (its raw result
// is what a worker process writes out).
var lastPool *Pool

// Merge folds the workers' results into the report, deterministically.
func (p *Pool) Merge(r *report.Report) {
	lastPool = p
	MergeResults(r, []*WorkerResult{p.Result()})
}

// MergeResults folds raw results into the report, deterministically.
func MergeResults(r *report.Report, rs []*WorkerResult) {
	all := map[string][]Finding{}
	distinct := map[uint64]struct{}{}
	var yr, rr, pe, tm, un, bl int
	var samples, lines []string
	counters := map[string]int{}
	for _, w := range rs {
		for k, fs := range w.Findings {
			all[k] = append(all[k], fs...)
		}
		for _, h := range w.Distinct {
			distinct[h] = struct{}{}
		}
		r.Evaluations += w.Evals
		yr += w.YaeRejects
		rr += w.RefRejects
		pe += w.ParseErrors
		tm += w.TypeMismatch
		un += w.Unspec
		bl += w.Blocked
		samples = append(samples, w.RejectSample...)
		lines = append(lines, w.NoteLines...)
		for k, v := range w.Counters {
			counters[k] += v
		}
	}
	r.DistinctNontrivial += len(distinct)
	keys := make([]string, 0, len(all))
	for k := range all {
		keys = append(keys, k)
	}
	sort.Strings(keys)
	for _, k := range keys {
		fs := all[k]
		sort.SliceStable(fs, func(i, j int) bool {
			if fs[i].Size != fs[j].Size {
				return fs[i].Size < fs[j].Size
			}
			return fs[i].Seq < fs[j].Seq
		})
		for i, f := range fs {
			if i >= 3 {
				break
			}
			r.AddFailure(f.F)
		}
	}
	if yr+rr+pe+tm > 0 {
		sort.Strings(samples)
		if len(samples) > 4 {
			samples = samples[:4]
		}
		r.Notes = append(r.Notes, fmt.Sprintf("outside the quantifier of this property (not counted, not failures): %d generated programs rejected by yae although the reference typing accepts them (type-checker properties C05/F19), %d accepted by yae but not by the reference checker, %d with a different inferred type, %d not parsed; e.g. %s",
			yr, rr, tm, pe, strings.Join(samples, " ;; ")))
	}
	if un+bl > 0 {
		r.Notes = append(r.Notes, fmt.Sprintf("%d evaluations in which the reference semantics leaves the result open (NaN / out-of-int64 conversions, numbers closer than EPS in key or set position, non-absolute time texts): only the clauses that do not need the value were checked there; %d (program, environment group) pairs were not run as a whole because a sub-program yields an ill-typed value (a C01 violation; yae casts values unchecked, so consuming it can kill the process): where the contract applies to a single program it was checked on that sub-program instead", un, bl))
	}
	if len(counters) > 0 {
		ks := make([]string, 0, len(counters))
		for k := range counters {
			ks = append(ks, k)
		}
		sort.Strings(ks)
		line := "counters:"
		for _, k := range ks {
			line += fmt.Sprintf(" %s=%d", k, counters[k])
		}
		r.Notes = append(r.Notes, line)
	}
	sort.Strings(lines)
	seen := map[string]bool{}
	for _, l := range lines {
		if !seen[l] && len(seen) < 6 {
			seen[l] = true
			r.Notes = append(r.Notes, l)
		}
	}
}

// ---------------------------------------------------------------- stdout

var realStdout *os.File

// MuteStdout: print / union write to the process's standard output.
func MuteStdout() {
	if realStdout != nil {
		return
	}
	realStdout = os.Stdout
	if f, err := os.OpenFile(os.DevNull, os.O_WRONLY, 0); err == nil {
		os.Stdout = f
	}
}

func RestoreStdout() {
	if realStdout != nil {
		os.Stdout = realStdout
		realStdout = nil
	}
}

// ---------------------------------------------------------------- memory safety of the harness itself

// yae values are reinterpreted by unchecked pointer casts: once a sub-program
// yields a value whose dynamic type is not its static type (a C01 violation),
// running anything that consumes it can take the whole process down (string
// headers read from floats, ...).  So a program is only run when none of its
// proper sub-programs yields an ill-typed value; otherwise the contract is
// checked on that sub-program (it is a closed program itself: yae has no
// binders) and the enclosing program is counted as blocked.

var (
	unsafeMu  sync.RWMutex
	unsafeSet = map[string]bool{} // group|src of programs known to yield an ill-typed value
)

func markUnsafe(g *EnvGroup, src string) {
	unsafeMu.Lock()
	unsafeSet[g.Key+"|"+src] = true
	unsafeMu.Unlock()
}

func knownUnsafe(g *EnvGroup, src string) bool {
	unsafeMu.RLock()
	r := unsafeSet[g.Key+"|"+src]
	unsafeMu.RUnlock()
	return r
}

// originCapable: can the root operation hand on a value it did not build
// itself (so that an ill-typed value can originate or pass here)?
func originCapable(t *Term) bool {
	switch t.K {
	case TkNum, TkStr, TkBool, TkTime, TkVar:
		return false
	case TkCall:
		if t.Sig == nil {
			return true
		}
		return t.Sig.Poly() || t.Sig.Host
	}
	return true
}

func (w *Worker) c01Bad(cr *CaseResult) bool {
	for _, ir := range cr.Insts {
		if checkC01(w, cr, ir) != nil {
			return true
		}
	}
	return false
}

// unsafeSub returns the evaluation of the first (post-order) proper
// sub-program of t that yields an ill-typed value, or nil.  In exhaustive
// mode every sub-program has already been a program of a smaller size (the
// producer puts a barrier between sizes), so a lookup suffices.
func (w *Worker) unsafeSub(t *Term, g *EnvGroup, exhaustive bool) *CaseResult {
	var found *CaseResult
	var visit func(x *Term, root bool)
	visit = func(x *Term, root bool) {
		for _, a := range x.Args {
			if found != nil {
				return
			}
			visit(a, false)
		}
		if found != nil || root || !originCapable(x) {
			return
		}
		src := x.Src()
		key := g.Key + "|" + src
		if cr, ok := w.safeCache[key]; ok {
			found = cr
			return
		}
		if knownUnsafe(g, src) {
			cr := w.Eval(x, g, nil)
			w.uncount(cr)
			w.safeCache[key] = cr
			found = cr
			return
		}
		if exhaustive {
			return
		}
		cr := w.Eval(x, g, nil)
		w.uncount(cr)
		if cr.RefErr == nil && cr.Comp.OK() && w.c01Bad(cr) {
			markUnsafe(g, src)
			w.safeCache[key] = cr
			found = cr
			return
		}
		w.safeCache[key] = nil
	}
	visit(t, true)
	return found
}

func (w *Worker) uncount(cr *CaseResult) {
	w.executed--
	w.evals -= len(cr.Insts)
}
