// Package prog is the bounded stand-in harness group "prog": it checks, at
// run time on the real yae code, the contracts of C01 C02 C03 C04 C06 C10 C16
// (C11, C19) over an enumerated space of small well-typed programs.
//
// This file: the harness's own representation of yae types (independent of
// package types) with equality by name (tyEq) and by position (tyEqPos).
package prog

import (
	"sort"
	"strings"
)

type K int

const (
	KBot K = iota
	KBool
	KNum
	KStr
	KTime
	KList
	KMap
	KObj
	KMaybe
	KVar // only in signatures
)

type Fld struct {
	Name string
	T    *Ty
}

type Ty struct {
	K   K
	El  *Ty // list element, maybe payload, map value
	Key *Ty // map key
	Fs  []Fld
	Var string
}

var (
	TBot  = &Ty{K: KBot}
	TBool = &Ty{K: KBool}
	TNum  = &Ty{K: KNum}
	TStr  = &Ty{K: KStr}
	TTime = &Ty{K: KTime}
)

func ListOf(t *Ty) *Ty   { return &Ty{K: KList, El: t} }
func MapOf(k, v *Ty) *Ty { return &Ty{K: KMap, Key: k, El: v} }
func MaybeOf(t *Ty) *Ty  { return &Ty{K: KMaybe, El: t} }
func TV(n string) *Ty    { return &Ty{K: KVar, Var: n} }
func ObjOf(fs ...Fld) *Ty {
	return &Ty{K: KObj, Fs: fs}
}
func F(n string, t *Ty) Fld { return Fld{n, t} }

func (t *Ty) IsPrim() bool { return t.K == KBool || t.K == KNum || t.K == KStr || t.K == KTime }

func (t *Ty) Field(name string) (*Ty, int) {
	for i, f := range t.Fs {
		if f.Name == name {
			return f.T, i
		}
	}
	return nil, -1
}

// Eq is tyEq: structural, objects up to field order.
func Eq(a, b *Ty) bool {
	if a == b {
		return true
	}
	if a == nil || b == nil || a.K != b.K {
		return false
	}
	switch a.K {
	case KList, KMaybe:
		return Eq(a.El, b.El)
	case KMap:
		return Eq(a.Key, b.Key) && Eq(a.El, b.El)
	case KObj:
		if len(a.Fs) != len(b.Fs) {
			return false
		}
		for _, f := range a.Fs {
			g, i := b.Field(f.Name)
			if i < 0 || !Eq(f.T, g) {
				return false
			}
		}
		return true
	case KVar:
		return a.Var == b.Var
	}
	return true
}

// EqPos is tyEqPos: like Eq but object fields must also be in the same order.
func EqPos(a, b *Ty) bool {
	if a == b {
		return true
	}
	if a == nil || b == nil || a.K != b.K {
		return false
	}
	switch a.K {
	case KList, KMaybe:
		return EqPos(a.El, b.El)
	case KMap:
		return EqPos(a.Key, b.Key) && EqPos(a.El, b.El)
	case KObj:
		if len(a.Fs) != len(b.Fs) {
			return false
		}
		for i, f := range a.Fs {
			if b.Fs[i].Name != f.Name || !EqPos(f.T, b.Fs[i].T) {
				return false
			}
		}
		return true
	case KVar:
		return a.Var == b.Var
	}
	return true
}

func (t *Ty) Ground() bool {
	switch t.K {
	case KVar:
		return false
	case KList, KMaybe:
		return t.El.Ground()
	case KMap:
		return t.Key.Ground() && t.El.Ground()
	case KObj:
		for _, f := range t.Fs {
			if !f.T.Ground() {
				return false
			}
		}
	}
	return true
}

// String renders with declared field order.
func (t *Ty) String() string { return t.render(false) }

// Canon renders with sorted field names (a key for tyEq classes).
func (t *Ty) Canon() string { return t.render(true) }

func (t *Ty) render(canon bool) string {
	switch t.K {
	case KBot:
		return "bot"
	case KBool:
		return "bool"
	case KNum:
		return "num"
	case KStr:
		return "str"
	case KTime:
		return "time"
	case KList:
		return "list[" + t.El.render(canon) + "]"
	case KMap:
		return "map[" + t.Key.render(canon) + "," + t.El.render(canon) + "]"
	case KMaybe:
		return "maybe[" + t.El.render(canon) + "]"
	case KVar:
		return "'" + t.Var
	case KObj:
		xs := make([]string, len(t.Fs))
		for i, f := range t.Fs {
			xs[i] = f.Name + ":" + f.T.render(canon)
		}
		if canon {
			sort.Strings(xs)
		}
		return "{" + strings.Join(xs, ",") + "}"
	}
	return "?"
}

// match: first-order pattern matching of a signature pattern against a ground
// type; a variable may be bound to anything (incl. bot and maybe) but every
// occurrence must be tyEq-equal; a non-variable pattern needs the same
// constructor.
func match(p, t *Ty, s map[string]*Ty) bool { return matchM(p, t, s, nil) }

// matchM also reports (mixed) whether a variable met two tyEq-equal types
// whose object fields are in different orders.
func matchM(p, t *Ty, s map[string]*Ty, mixed *bool) bool {
	if p.K == KVar {
		if b, ok := s[p.Var]; ok {
			if Eq(b, t) {
				if mixed != nil && !EqPos(b, t) {
					*mixed = true
				}
				return true
			}
			return false
		}
		s[p.Var] = t
		return true
	}
	if p.K != t.K {
		return false
	}
	switch p.K {
	case KList, KMaybe:
		return matchM(p.El, t.El, s, mixed)
	case KMap:
		return matchM(p.Key, t.Key, s, mixed) && matchM(p.El, t.El, s, mixed)
	case KObj:
		if len(p.Fs) != len(t.Fs) {
			return false
		}
		for _, f := range p.Fs {
			g, i := t.Field(f.Name)
			if i < 0 || !matchM(f.T, g, s, mixed) {
				return false
			}
		}
		return true
	}
	return true
}

func subst(p *Ty, s map[string]*Ty) *Ty {
	switch p.K {
	case KVar:
		if b, ok := s[p.Var]; ok {
			return b
		}
		return p
	case KList:
		return ListOf(subst(p.El, s))
	case KMaybe:
		return MaybeOf(subst(p.El, s))
	case KMap:
		return MapOf(subst(p.Key, s), subst(p.El, s))
	case KObj:
		fs := make([]Fld, len(p.Fs))
		for i, f := range p.Fs {
			fs[i] = Fld{f.Name, subst(f.T, s)}
		}
		return ObjOf(fs...)
	}
	return p
}
