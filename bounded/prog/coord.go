package prog

// Coordinator: the input space is partitioned between worker PROCESSES (the
// same binary, VERIF_WORKER=i/k).  Separate processes (a) need no lock around
// the type checker, (b) let the coordinator survive — and attribute — the
// death of a worker: yae reinterprets values by unchecked pointer casts, so a
// defect can kill the process evaluating a program (C02: "worker-process
// death is attributed to the program under evaluation").

import (
	"encoding/gob"
	"fmt"
	"os"
	"os/exec"
	"path/filepath"
	"strconv"
	"strings"
	"sync"

	"bounded/report"
)

type death struct {
	seq int
	src string
	msg string
}

// runChild runs the harness binary as a child evaluating its share of the
// space; returns its raw result, or nil and the programs it was evaluating
// when it died.
func runChild(exe, dir, tag, prop, tierName string, seed int64, env []string) (*WorkerResult, []death, error) {
	out := filepath.Join(dir, tag+".gob")
	status := filepath.Join(dir, tag+".status")
	os.Remove(out)
	os.Remove(status)
	cmd := exec.Command(exe, "-property", prop, "-tier", tierName, "-seed", strconv.FormatInt(seed, 10), "-out", out)
	cmd.Env = append(append(os.Environ(), "VERIF_WORKER=1", "VERIF_STATUS="+status), env...)
	stderr := &tailBuffer{}
	cmd.Stderr = stderr
	runErr := cmd.Run()
	if f, err := os.Open(out); err == nil {
		var wr WorkerResult
		derr := gob.NewDecoder(f).Decode(&wr)
		f.Close()
		if derr == nil {
			return &wr, nil, nil
		}
	}
	// the child died: which programs was it evaluating?
	b, _ := os.ReadFile(status)
	var ds []death
	for off := 0; off+statusSlot <= len(b); off += statusSlot {
		rec := strings.TrimRight(string(b[off:off+statusSlot]), " \x00")
		if len(rec) < 12 {
			continue
		}
		seq, _ := strconv.Atoi(strings.TrimSpace(rec[:12]))
		if seq > 0 {
			ds = append(ds, death{seq, rec[12:], stderr.head()})
		}
	}
	if len(ds) == 0 {
		return nil, nil, fmt.Errorf("harness child failed before evaluating anything: %v: %s", runErr, stderr.head())
	}
	return nil, ds, nil
}

func coordinate(prop, tierName string, seed int64) (*report.Report, error) {
	exe, err := os.Executable()
	if err != nil {
		return nil, err
	}
	dir, err := os.MkdirTemp("", "prog-workers-")
	if err != nil {
		return nil, err
	}
	defer os.RemoveAll(dir)
	var skip []string
	var rs []*WorkerResult
	var killers []death
	var mainRes *WorkerResult
	for round := 0; round < 12 && mainRes == nil; round++ {
		res, suspects, err := runChild(exe, dir, "main", prop, tierName, seed, []string{"VERIF_SKIP=" + strings.Join(skip, ",")})
		if err != nil {
			return nil, err
		}
		if res != nil {
			mainRes = res
			break
		}
		// run every program that was in flight on its own to find the killer(s)
		var wg sync.WaitGroup
		var mu sync.Mutex
		for i, d := range suspects {
			skip = append(skip, strconv.Itoa(d.seq))
			wg.Add(1)
			go func(i int, d death) {
				defer wg.Done()
				r1, d1, _ := runChild(exe, dir, fmt.Sprintf("only%d_%d", round, i), prop, tierName, seed,
					[]string{"VERIF_ONLY=" + strconv.Itoa(d.seq), "VERIF_WORKERS=1"})
				mu.Lock()
				defer mu.Unlock()
				if r1 != nil {
					r1.Meta = report.Report{}
					rs = append(rs, r1)
				} else if len(d1) > 0 {
					killers = append(killers, d1[0])
				} else {
					killers = append(killers, d)
				}
			}(i, d)
		}
		wg.Wait()
	}
	if mainRes == nil {
		return nil, fmt.Errorf("harness child keeps dying (%d programs isolated so far)", len(killers))
	}
	rs = append([]*WorkerResult{mainRes}, rs...)
	r := &report.Report{}
	meta := mainRes.Meta
	r.Property, r.Contract, r.Space, r.Bound, r.Rule, r.Exhaustive = prop, meta.Contract, meta.Space, meta.Bound, meta.Rule, meta.Exhaustive
	r.Samples = meta.Samples
	for _, n := range meta.Notes {
		if strings.HasPrefix(n, "exhaustive only for part") || strings.HasPrefix(n, "canary") || strings.HasPrefix(n, "HARNESS") {
			r.Notes = append(r.Notes, n)
		}
	}
	extra := &WorkerResult{Findings: map[string][]Finding{}}
	for _, d := range killers {
		if prop == "C02" {
			key := "C02/internal-fault/worker-process-death"
			extra.Findings[key] = append(extra.Findings[key], Finding{Seq: d.seq, Size: len(d.src), F: report.Failure{
				Key: key, Input: d.src, Expected: "a value or a documented failure",
				Got: "the process evaluating the program died: " + trunc(d.msg, 300)}})
		} else {
			r.Notes = append(r.Notes, "evaluation of `"+trunc(d.src, 200)+"` killed the worker process ("+trunc(d.msg, 120)+"); a progress violation (C02), not decided for this property; the program was skipped")
		}
	}
	rs = append(rs, extra)
	MergeResults(r, rs)
	if prop == "C19" {
		c19Reuse(r)
		r.Space += fmt.Sprintf(" Plus %d programs compiled once with closure.DebugCompile and evaluated 6 times against one debug.Record (two environments alternating): value and report equal to a one-shot yae.Debug each time.", len(c19ReusePrograms()))
	}
	if prop == "C16" {
		// part (d) needs no program generator: it runs here, in the coordinator
		c16HostData(r)
		r.Space += fmt.Sprintf(" (d) %d host containers whose entries disagree on an unmarked nil-able part (nil vs non-nil pointer / slice / map inside map values, slice elements, nested), each converted 60 times (map order): conv.ValOf rejects them, or every component has its declared type.", len(c16HostInconsistent()))
	}
	return r, nil
}

type tailBuffer struct {
	mu  sync.Mutex
	buf []byte
}

func (t *tailBuffer) Write(p []byte) (int, error) {
	t.mu.Lock()
	defer t.mu.Unlock()
	if len(t.buf) < 4096 {
		t.buf = append(t.buf, p...)
	}
	return len(p), nil
}

func (t *tailBuffer) head() string {
	t.mu.Lock()
	defer t.mu.Unlock()
	s := string(t.buf)
	if i := strings.Index(s, "\n\n"); i > 0 {
		s = s[:i]
	}
	return strings.ReplaceAll(strings.TrimSpace(s), "\n", " | ")
}

// writeWorkerResult: a worker process hands its raw result to the coordinator.
func writeWorkerResult(path string, r *report.Report) error {
	if lastPool == nil {
		return fmt.Errorf("no pool ran")
	}
	wr := lastPool.Result()
	wr.Meta = *r
	wr.Meta.Failures = nil
	f, err := os.Create(path + ".tmp")
	if err != nil {
		return err
	}
	if err := gob.NewEncoder(f).Encode(wr); err != nil {
		f.Close()
		return err
	}
	f.Close()
	return os.Rename(path+".tmp", path)
}
