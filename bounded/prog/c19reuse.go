package prog

// C19, reuse of a recorder: a power-assert closure compiled once
// (closure.DebugCompile) and evaluated several times against the SAME
// debug.Record must give, every time, the value and the report of a one-shot
// yae.Debug - DebugCompile clears the record before each evaluation, so no
// state of an earlier evaluation may shift the columns of a later one.
// Runs in the coordinator (no program generator needed).

import (
	"fmt"

	"bounded/report"

	"github.com/goghcrow/yae"
	"github.com/goghcrow/yae/closure"
	"github.com/goghcrow/yae/conv"
	"github.com/goghcrow/yae/debug"
)

func c19ReusePrograms() []string {
	return []string{
		`n + k > 1`,
		`xs[1] + n > len(s)`,
		`if(b, n, k) == n`,
		`o.p + xs[0] >= k && b`,
		`s + "x" == s`,
		`max(n, k) + min(n, k)`,
	}
}

func c19Reuse(r *report.Report) {
	type inner struct {
		P float64 `yae:"p"`
	}
	envs := []map[string]interface{}{
		{"n": 3.0, "k": -1.5, "s": "héllo", "b": true, "xs": []float64{1, 2, 3}, "o": inner{2}},
		{"n": 0.0, "k": 2.0, "s": "", "b": false, "xs": []float64{7, 8}, "o": inner{-1}},
	}
	for _, src := range c19ReusePrograms() {
		in := fmt.Sprintf("%s  compiled once with closure.DebugCompile, evaluated 2 x 3 times against one debug.Record", src)
		func() {
			defer func() {
				if p := recover(); p != nil {
					r.AddFailure(report.Failure{Key: "C19/reused-record/panic", Input: in, Expected: "a value and a report", Got: fmt.Sprint("panic: ", p)})
				}
			}()
			compiled, err := yae.NewExpr().UseCompiler(closure.DebugCompile).Compile(src, envs[0])
			if err != nil {
				return // not accepted: outside this check
			}
			rcd := debug.NewRecord()
			for round := 0; round < 3; round++ {
				for _, data := range envs {
					r.Evaluations++
					wantVal, want, err := yae.Debug(src, data)
					if err != nil {
						continue
					}
					env, err := conv.ValEnvOf(data)
					if err != nil {
						continue
					}
					env.Dgb = rcd
					v, err := compiled(env)
					if err != nil {
						r.AddFailure(report.Failure{Key: "C19/reused-record/fails", Input: in, Expected: "the value of the one-shot debug evaluation", Got: "error: " + err.Error()})
						return
					}
					if v.String() != wantVal.String() {
						r.AddFailure(report.Failure{Key: "C19/reused-record/value-differs", Input: in, Expected: wantVal.String(), Got: v.String()})
						return
					}
					if got := rcd.Render(src); got != want {
						r.AddFailure(report.Failure{Key: "C19/reused-record/report-differs", Input: in, Expected: want, Got: got, Detail: fmt.Sprintf("evaluation %d on the same record", round*len(envs)+1)})
						return
					}
				}
			}
		}()
	}
	r.DistinctNontrivial += len(c19ReusePrograms())
}
