package prog

// C10: syntactic sugar means exactly the call it stands for.

import (
	"fmt"
	"math/rand"
	"strings"

	"bounded/report"

	"github.com/goghcrow/yae/parser/ast"
	"github.com/goghcrow/yae/trans"
	"github.com/goghcrow/yae/types"
)

// nonCore returns the first node of a tree that is not one of the eleven core
// node kinds ("" if there is none).
func nonCore(e ast.Expr) string {
	switch x := e.(type) {
	case *ast.StrExpr, *ast.NumExpr, *ast.TimeExpr, *ast.BoolExpr, *ast.IdentExpr:
		return ""
	case *ast.ListExpr:
		for _, el := range x.Elems {
			if s := nonCore(el); s != "" {
				return s
			}
		}
		return ""
	case *ast.MapExpr:
		for _, p := range x.Pairs {
			if s := nonCore(p.Key); s != "" {
				return s
			}
			if s := nonCore(p.Val); s != "" {
				return s
			}
		}
		return ""
	case *ast.ObjExpr:
		for _, f := range x.Fields {
			if s := nonCore(f.Val); s != "" {
				return s
			}
		}
		return ""
	case *ast.CallExpr:
		if s := nonCore(x.Callee); s != "" {
			return s
		}
		for _, a := range x.Args {
			if s := nonCore(a); s != "" {
				return s
			}
		}
		return ""
	case *ast.SubscriptExpr:
		if s := nonCore(x.Var); s != "" {
			return s
		}
		return nonCore(x.Idx)
	case *ast.MemberExpr:
		return nonCore(x.Obj)
	case nil:
		return "nil node"
	}
	return fmt.Sprintf("%T", e)
}

type c10variant struct {
	label string
	src   string // "" : explicit core tree
}

func c10Variants(t *Term) []c10variant {
	plain := t.Render(MPlain)
	vs := []c10variant{{"sugared", plain}, {"explicit-call", ""}}
	seen := map[string]bool{plain: true}
	add := func(label, src string) {
		if !seen[src] {
			seen[src] = true
			vs = append(vs, c10variant{label, src})
		}
	}
	add("redundant-parentheses", t.Render(MParens))
	flip := t.Render(MFlip)
	label := "other-notation"
	hasIf, hasMeth := false, false
	t.Walk(func(x *Term) {
		if x.K == TkCall && x.Text == "if" && len(x.Args) == 3 {
			hasIf = true
		} else if x.K == TkCall && (x.Form == FMethod || (x.Form == FCall && !IsOperator(x.Text) && len(x.Args) >= 1)) {
			hasMeth = true
		}
	})
	switch {
	case hasIf && hasMeth:
		label = "ternary-and-method-call"
	case hasIf:
		label = "ternary"
	case hasMeth:
		label = "method-call"
	}
	add(label, flip)
	add(label+"+redundant-parentheses", t.Render(MFlip|MParens))
	if t.HasMethodForm(MPlain) {
		add("parenthesised-member-callee", t.Render(MParenCallee))
	}
	if t.HasMethodForm(MFlip) {
		add("parenthesised-member-callee", t.Render(MFlip|MParenCallee))
	}
	return vs
}

func (w *Worker) c10fail(c *Case, clause, class, input, exp, got string) {
	w.addFinding(c.Seq, c.T.Size(), report.Failure{Key: "C10/" + clause + "/" + class, Input: input, Expected: exp, Got: got, Detail: "[" + c.Family + "]"})
}

// c10Tree: the tree half on one source text; returns the printed desugared
// tree ("" if the text does not parse) and whether a violation was reported.
func (w *Worker) c10Tree(c *Case, v c10variant, explicit string) (string, bool) {
	var parsed, d1, d2 ast.Expr
	if m := guard(func() { parsed = w.eng.parse(w.eng.lex(v.src)) }); m != "" {
		w.parseErrors++
		if len(w.rejectSample) < 5 {
			w.rejectSample = append(w.rejectSample, v.src+"  does not parse: "+trunc(m, 80))
		}
		return "", false
	}
	before := parsed.String()
	if m := guard(func() { d1 = trans.Desugar(parsed) }); m != "" {
		w.c10fail(c, "desugar-fails", v.label, v.src, "a core tree", "Desugar panics: "+trunc(m, 200))
		return "", true
	}
	if after := parsed.String(); after != before {
		w.c10fail(c, "original-tree-modified", v.label, v.src, "parsed tree still prints as "+before, "prints as "+after)
		return "", true
	}
	if nc := nonCore(d1); nc != "" {
		w.c10fail(c, "non-core-node-after-desugar", v.label, v.src, "only core node kinds", "contains "+nc+" in "+d1.String())
		return "", true
	}
	p1 := d1.String()
	if m := guard(func() { d2 = trans.Desugar(d1) }); m != "" {
		w.c10fail(c, "desugar-not-idempotent", v.label, v.src, p1, "second Desugar panics: "+trunc(m, 200))
		return "", true
	}
	if p2 := d2.String(); p2 != p1 || d1.String() != p1 {
		w.c10fail(c, "desugar-not-idempotent", v.label, v.src, "desugaring twice changes nothing: "+p1, "second pass gives "+p2)
		return "", true
	}
	if p1 != explicit {
		w.c10fail(c, "desugared-tree-differs-from-explicit-call", v.label, v.src, "the explicit tree "+explicit, "desugars to "+p1)
		return "", true
	}
	return p1, false
}

func (w *Worker) processC10(c *Case, std []*EnvGroup, semantic bool) {
	groups := c.Groups
	if groups == nil {
		groups = std
	}
	t := c.T.Clone()
	w.noteProgram(t)
	vs := c10Variants(t)
	var explicit string
	if m := guard(func() { explicit = t.Core().String() }); m != "" {
		w.parseErrors++
		return
	}
	bad := map[string]bool{}
	for _, v := range vs {
		if v.src == "" {
			continue
		}
		if _, failed := w.c10Tree(c, v, explicit); failed {
			bad[v.src] = true
		}
	}
	w.counters["tree-half-texts"] += len(vs) - 1
	if !semantic {
		return
	}
	for _, g := range groups {
		if _, err := RefCheck(t, g.Gamma); err != nil {
			continue
		}
		if u := w.unsafeSub(t, g, false); u != nil {
			w.blocked++
			continue
		}
		var base *CaseResult
		for _, v := range vs {
			if bad[v.src] && v.src != "" {
				continue // already reported by the tree half
			}
			var cr *CaseResult
			if v.src == "" {
				cr = w.EvalCore(t, g, nil)
			} else {
				cr = w.EvalSrc(v.src, t, g, nil)
			}
			if cr.Comp.Stage == "parse" || cr.Comp.Stage == "build" {
				continue
			}
			if base == nil {
				base = cr
				if !cr.Comp.OK() && cr.RefErr == nil {
					w.yaeRejects++
				}
				continue
			}
			w.c10Compare(c, g, v, base, cr)
		}
	}
}

func (w *Worker) c10Compare(c *Case, g *EnvGroup, v c10variant, base, cr *CaseResult) {
	in := func(extra string) string {
		s := base.Comp.Src + "   vs   " + cr.Comp.Src
		if extra != "" {
			s += "   | env " + extra
		}
		return s
	}
	if base.Comp.OK() != cr.Comp.OK() {
		d := func(x *CaseResult) string {
			if x.Comp.OK() {
				return "accepted : " + x.Comp.Static.String()
			}
			return "rejected (" + trunc(x.Comp.Err, 120) + ")"
		}
		w.c10fail(c, "acceptance-differs", v.label, in("["+g.Key+"]"), d(base), d(cr))
		return
	}
	if !base.Comp.OK() {
		return
	}
	if !types.Equals(base.Comp.Static, cr.Comp.Static) {
		w.c10fail(c, "type-differs", v.label, in("["+g.Key+"]"), base.Comp.Static.String(), cr.Comp.Static.String())
		return
	}
	for i, ir := range base.Insts {
		if i >= len(cr.Insts) {
			break
		}
		jr := cr.Insts[i]
		if ir.Unstable || jr.Unstable || ir.Ref.Clock || jr.Ref.Clock {
			continue // incl. programs that read the wall clock: the two notations run at different instants
		}
		for b := 0; b < NBackends; b++ {
			x, y := ir.Out[b], jr.Out[b]
			if x.Fail == "refused" || y.Fail == "refused" {
				if x.Fail != y.Fail {
					w.c10fail(c, "outcome-differs", v.label, in(g.Describe(ir.Inst)), x.Describe(), y.Describe())
					return
				}
				continue
			}
			sameFail := x.Fail == y.Fail
			if !sameFail || (x.Fail == "" && !agree(x, y)) || !sameTrace(x.Trace, y.Trace) {
				w.c10fail(c, "outcome-differs", v.label, in(g.Describe(ir.Inst)),
					BackendNames[b]+": "+x.Describe()+" trace "+fmt.Sprint(x.Trace),
					BackendNames[b]+": "+y.Describe()+" trace "+fmt.Sprint(y.Trace))
				return
			}
		}
	}
}

// extra C10 inputs: sugar nested in every kind of operand position, and the
// parenthesised-callee shapes.
func famC10() Family {
	b, n, k, s, o, xs, mp := Var("b"), Var("n"), Var("k"), Var("s"), Var("o"), Var("xs"), Var("mp")
	sug := []*Term{
		Call("+", n, k), Call("-", n), Call("!", b), Call("not", b), Ternary(b, n, k), Method("max", n, k),
		Call("&&", b, Call("<", n, k)), Call("and", b, b), Method("len", xs), Method("geta", o), Method("string", n),
		Method("get", xs, N("0"), N("9")), Method("if", b, n, k), Call("^", n, Call("^", k, N("2"))),
	}
	var ts []*Term
	for _, x := range sug {
		numish := x
		ts = append(ts, x,
			List(x, x.Clone()), MapLit(Q("k"), x), ObjLit([]string{"f"}, []*Term{x}), Member(ObjLit([]string{"f"}, []*Term{x}), "f"),
			Sub(List(x), N("0")), Call("id", x), Method("id", x), Ternary(b, x, x.Clone()), If(b, x, x.Clone()), Call("string", x), Method("string", x),
			Call("pick", b, x, x.Clone()), Method("pick", b, x, x.Clone()),
		)
		_ = numish
	}
	ts = append(ts,
		Sub(xs, Call("+", N("1"), N("1"))), Sub(xs, Ternary(b, N("0"), N("1"))), Sub(mp, Call("+", s, Q(""))), Sub(mp, Method("string", s)),
		Method("max", Method("max", n, k), Method("min", n, k)), Method("len", Method("union", xs, xs)),
		Ternary(Ternary(b, b, b), Ternary(b, n, k), Ternary(b, k, n)), Ternary(b, Ternary(b, n, k), k),
		Call("-", Call("-", Call("-", n))), Call("!", Call("!", b)), Call("not", Call("not", b)),
		Call("-", Call("^", n, N("2"))), Call("^", Call("-", n), N("2")), Call("-", Method("abs", n)),
		Member(Method("id", o), "a"), Method("geta", Method("id", o)), Method("tr", Method("tr", n)),
		Call("+", Method("tr", N("1")), Method("tr", N("2"))), Method("max", Call("tr", N("1")), Call("tr", N("2"))),
		Method("get", Var("on"), n), Method("isset", mp, s), Method("match", s, s), Method("union", xs, List(n)),
		Method("print", n), Method("strtotime", Q("2021-01-02")), Method("boom", n), Ternary(b, Method("boom", n), n),
	)
	return Family{Name: "sugar-in-every-position", Terms: ts}
}

func runC10(tier Tier, seed int64) *report.Report {
	r := &report.Report{Contract: "trans.Desugar on every parsed rendering: the original tree prints the same before and after; the result contains only the eleven core node kinds; desugaring the result again changes nothing; the result prints exactly like the explicit tree built by the harness (operators, ?:, method calls as CallExpr on the function name, receiver first, parentheses dropped). Semantic half: the sugared text, the explicit tree, the redundantly parenthesised text, the other notation (if ↔ ?:, f(a,…) ↔ a.f(…)) and (a.f)(…) are accepted alike with equal types (types.Equals) and give equal values / the same failure class and the same host-call trace on all four back ends"}
	std := stdGroups()[:1]      // raw environment group (two value assignments)
	semMax := tier.MaxNodes - 1 // semantic half one node smaller than the tree half
	pool := NewPool("C10", func(w *Worker, c *Case) {
		w.processC10(c, std, c.Family != "exhaustive" || c.T.Size() <= semMax)
	})
	var samples []string
	submit := func(t *Term, family string, groups []*EnvGroup) {
		if t.Size() >= 4 && len(samples) < 4000 {
			samples = append(samples, t.Render(MPlain)+"   ~   "+t.Render(MFlip|MParens))
		}
		pool.Submit(t, family, nil)
	}
	g := SigmaGrammar(false)
	nEx := 0
	g.All(tier.MaxNodes, func(t *Term) {
		nEx++
		submit(t, "exhaustive", nil)
	})
	var fams []string
	for _, f := range []Family{famC10(), FamLazy(), FamObjectOrder(), FamDupKeys(), FamStrings(), FamSetOps()} {
		fams = append(fams, fmt.Sprintf("%s (%d)", f.Name, len(f.Terms)))
		for _, t := range f.Terms {
			submit(t, f.Name, nil)
		}
	}
	rnd := rand.New(rand.NewSource(seed))
	for i := 0; i < tier.Random; i++ {
		submit(g.RandomProgram(rnd, tier.Depth), "random", nil)
	}
	pool.Close()
	pool.Merge(r)
	r.Space = fmt.Sprintf("(a) EXHAUSTIVE: all %d well-typed terms with at most %d AST nodes over the signature Σ (as for C01–C06), each rendered in up to 7 notations: operators infix/prefix, explicit core tree built through the ast constructors, every sub-expression in redundant parentheses, if(c,a,b) ↔ c ? a : b and f(a,…) ↔ a.f(…) flipped, both combined, and the callee of a method call parenthesised ((a.f)(…)); (b) directed families: %s; (c) %d seeded random programs (seed %d, depth ≤ %d) in mixed notations. Semantic half (compile and run every rendering) for the terms with at most %d nodes and all of (b), (c), in the raw Σ environment, two value assignments, four back ends; tree half for everything.",
		nEx, tier.MaxNodes, strings.Join(fams, ", "), tier.Random, seed, tier.Depth, semMax)
	r.Bound = fmt.Sprintf("exhaustive part: ≤ %d AST nodes for the tree half, ≤ %d for the semantic half (tier %s); random part: %d programs, depth ≤ %d", tier.MaxNodes, semMax, tier.Name, tier.Random, tier.Depth)
	r.Rule = "a case is one (rendering pair, environment) comparison on four back ends (evaluations); distinct_nontrivial counts distinct canonical program texts with at least one operator / call / access node (each stands for its ≤ 7 renderings)"
	r.Exhaustive = true // part (a) only
	r.Notes = append(r.Notes, fmt.Sprintf("exhaustive only for part (a) (%d terms, node bound %d); parts (b) and (c) are samples", nEx, tier.MaxNodes))
	pickSamples(r, samples)
	return r
}
