package prog

// C16, part (d): host data whose nil-able parts disagree.
//
// conv turns a nil pointer / slice / map without the `maybe` marker into an
// absent optional (maybe[T]) and a non-nil one into a plain T.  A container
// whose entries disagree on that has no single element type: conv.ValOf must
// reject it, or - if it accepts - every component of the converted value must
// have the component type its container declares.  Otherwise an absent value
// sits in a slot of the underlying type and is consumed without get().
// (Go map iteration order is random, so every input is converted many times.)

import (
	"fmt"

	"bounded/report"

	"github.com/goghcrow/yae/conv"
)

type c16In struct {
	Name string
	Qty  *int
}
type c16Tags struct{ Tags []string }
type c16M struct{ M map[string]int }

func c16HostInconsistent() []struct {
	name string
	v    interface{}
} {
	one := 1
	return []struct {
		name string
		v    interface{}
	}{
		{"map[string]struct{Name;Qty *int}{a:{&1}, b:{nil}}", map[string]c16In{"a": {"x", &one}, "b": {"y", nil}}},
		{"map[int]struct{Qty *int} three entries, one nil", map[int]c16In{1: {"x", &one}, 2: {"y", &one}, 3: {"z", nil}}},
		{"map[string]struct{Tags []string}{a:{nil}, b:{[x]}}", map[string]c16Tags{"a": {nil}, "b": {[]string{"x"}}}},
		{"map[string]struct{M map[string]int}{a:{nil}, b:{{k:1}}}", map[string]c16M{"a": {nil}, "b": {map[string]int{"k": 1}}}},
		{"[]struct{Qty *int}{{&1},{nil}}", []c16In{{"x", &one}, {"y", nil}}},
		{"map[string][]struct{Qty *int}{a:{{nil}}, b:{{&1}}}", map[string][]c16In{"a": {{"x", nil}}, "b": {{"y", &one}}}},
		{"struct{Items map[string]struct{Qty *int}} with nil and non-nil Qty", struct{ Items map[string]c16In }{map[string]c16In{"a": {"x", &one}, "b": {"y", nil}}}},
		{"map[string]map[string]struct{Qty *int} nested, inner entries disagree", map[string]map[string]c16In{"o": {"a": {"x", &one}, "b": {"y", nil}}}},
	}
}

func c16HostData(r *report.Report) {
	const tries = 60
	for _, in := range c16HostInconsistent() {
		for k := 0; k < tries; k++ {
			r.Evaluations++
			func() {
				defer func() {
					if p := recover(); p != nil {
						r.AddFailure(report.Failure{Key: "C16/host-data/conversion-panics", Input: in.name, Expected: "a value or an error", Got: fmt.Sprint("panic: ", p)})
					}
				}()
				v, err := conv.ValOf(in.v)
				if err != nil || v == nil {
					return // rejected: fine
				}
				if c, d := hasType(v, v.Type, "value", 0); c != "" {
					r.AddFailure(report.Failure{Key: "C16/host-data/absent-in-a-plain-slot/" + c, Input: in.name,
						Expected: "conv.ValOf rejects a container whose entries disagree on a nil-able part, or every component has the declared component type",
						Got:      d, Detail: "converted type: " + v.Type.String()})
				}
			}()
		}
	}
	r.DistinctNontrivial += len(c16HostInconsistent())
}
