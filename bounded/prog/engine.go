package prog

// The real code under test: one Engine per worker goroutine (own lexer,
// parser, function registries and trace sink), the four back ends, panic
// capture and classification, conversion of yae values to reference values.

import (
	"fmt"
	"reflect"
	"runtime"
	"runtime/debug"
	"strings"
	"sync/atomic"
	"time"

	"github.com/goghcrow/yae/closure"
	"github.com/goghcrow/yae/compiler"
	"github.com/goghcrow/yae/fun"
	"github.com/goghcrow/yae/interp"
	"github.com/goghcrow/yae/parser"
	"github.com/goghcrow/yae/parser/ast"
	"github.com/goghcrow/yae/parser/lexer"
	"github.com/goghcrow/yae/parser/oper"
	"github.com/goghcrow/yae/parser/token"
	"github.com/goghcrow/yae/trans"
	"github.com/goghcrow/yae/types"
	"github.com/goghcrow/yae/val"
	"github.com/goghcrow/yae/vm"
)

const (
	BVMSwitch = iota
	BVMCall
	BClosure
	BInterp
	NBackends
)

var BackendNames = [NBackends]string{"vm-switch", "vm-callthread", "closure", "interp"}

// checkMu serialises types.Check / types.TyVar: the process-wide type-variable
// counter is unsynchronised (F11, property C14 — not decided here); without
// the lock concurrent workers could make the harness non-deterministic.
var checkMu spinLock

// spinLock: the critical section (one types.Check / types.TyVar) takes a few
// microseconds; a parking mutex costs far more than that under contention.
type spinLock struct{ v int32 }

func (s *spinLock) Lock() {
	for i := 0; !atomic.CompareAndSwapInt32(&s.v, 0, 1); i++ {
		if i%64 == 63 {
			runtime.Gosched()
		}
	}
}

func (s *spinLock) Unlock() { atomic.StoreInt32(&s.v, 0) }

func lockCheck()   { checkMu.Lock() }
func unlockCheck() { checkMu.Unlock() }

type Engine struct {
	lex   func(string) []*token.Token
	parse func([]*token.Token) ast.Expr
	tenv  *types.Env
	renv  *val.Env
	trace []string

	envCache map[*EnvGroup]*types.Env
	valCache map[*EnvInst]*val.Env
}

type boomPanic struct{}

func (boomPanic) Error() string { return "boom!" }

func NewEngine() *Engine {
	e := &Engine{envCache: map[*EnvGroup]*types.Env{}, valCache: map[*EnvInst]*val.Env{}}
	ops := append([]oper.Operator{}, oper.BuiltIn()...)
	checkMu.Lock()
	defer checkMu.Unlock()
	e.lex = lexer.NewLexer(ops).Lex
	e.parse = parser.NewParser(ops).Parse
	e.tenv = types.NewEnv()
	e.renv = val.NewEnv()
	register := func(v *val.Val) {
		e.tenv.RegisterFun(v.Type)
		e.renv.RegisterFun(v)
	}
	for _, f := range fun.BuiltIn() {
		register(f)
	}
	num, str, boolT := types.Num, types.Str, types.Bool
	tyO := types.Obj([]types.Field{{Name: "a", Val: num}, {Name: "b", Val: str}})

	and := func(args ...*val.Val) *val.Val {
		if args[0].Fun().Call().Bool().V {
			return args[1].Fun().Call().Bool().Vl()
		}
		return val.False
	}
	or := func(args ...*val.Val) *val.Val {
		if args[0].Fun().Call().Bool().V {
			return val.True
		}
		return args[1].Fun().Call().Bool().Vl()
	}
	register(val.LazyFun(types.Fun("and", []*types.Type{boolT, boolT}, boolT), and))
	register(val.LazyFun(types.Fun("or", []*types.Type{boolT, boolT}, boolT), or))
	register(val.Fun(types.Fun("not", []*types.Type{boolT}, boolT), func(args ...*val.Val) *val.Val {
		return val.Bool(!args[0].Bool().V)
	}))
	register(val.Fun(types.Fun("tr", []*types.Type{num}, num), func(args ...*val.Val) *val.Val {
		e.trace = append(e.trace, "tr("+renderVal(args[0])+")")
		return args[0]
	}))
	register(val.Fun(types.Fun("trs", []*types.Type{str}, str), func(args ...*val.Val) *val.Val {
		e.trace = append(e.trace, "trs("+renderVal(args[0])+")")
		return args[0]
	}))
	a1 := types.TyVar("a")
	register(val.Fun(types.Fun("id", []*types.Type{a1}, a1), func(args ...*val.Val) *val.Val {
		e.trace = append(e.trace, "id("+renderVal(args[0])+")")
		return args[0]
	}))
	a2 := types.TyVar("a")
	register(val.LazyFun(types.Fun("pick", []*types.Type{boolT, a2, a2}, a2), func(args ...*val.Val) *val.Val {
		e.trace = append(e.trace, "pick")
		if args[0].Fun().Call().Bool().V {
			return args[1].Fun().Call()
		}
		return args[2].Fun().Call()
	}))
	register(val.Fun(types.Fun("geta", []*types.Type{tyO}, num), func(args ...*val.Val) *val.Val {
		e.trace = append(e.trace, "geta("+renderVal(args[0])+")")
		v, _ := args[0].Obj().Get("a") // by name
		return v
	}))
	register(val.Fun(types.Fun("boom", []*types.Type{num}, num), func(args ...*val.Val) *val.Val {
		e.trace = append(e.trace, "boom("+renderVal(args[0])+")")
		panic(boomPanic{})
	}))
	return e
}

// ---------------------------------------------------------------- compile

type Compiled struct {
	Src     string
	Parsed  ast.Expr
	CoreAST ast.Expr
	Static  *types.Type
	Cl      [NBackends]compiler.Closure
	ClErr   [NBackends]string // compile-time refusal of one back end
	Stage   string            // "", "parse", "desugar", "check"
	Err     string
}

func (c *Compiled) OK() bool { return c.Stage == "" }

func guard(f func()) (msg string) {
	defer func() {
		if r := recover(); r != nil {
			msg = fmt.Sprint(r)
			if msg == "" {
				msg = "(empty panic message)"
			}
		}
	}()
	f()
	return ""
}

// CompileSrc: lex | parse | desugar | typecheck | compile (all four back ends
// on the one checked tree), as facade.go does it.
func (e *Engine) CompileSrc(src string, tenv *types.Env) *Compiled {
	c := &Compiled{Src: src}
	if m := guard(func() { c.Parsed = e.parse(e.lex(src)) }); m != "" {
		c.Stage, c.Err = "parse", m
		return c
	}
	if m := guard(func() { c.CoreAST = trans.Desugar(c.Parsed) }); m != "" {
		c.Stage, c.Err = "desugar", m
		return c
	}
	e.finish(c, tenv)
	return c
}

// CompileCore: typecheck | compile of a tree built directly by the harness.
func (e *Engine) CompileCore(core ast.Expr, tenv *types.Env) *Compiled {
	c := &Compiled{Src: core.String(), CoreAST: core}
	e.finish(c, tenv)
	return c
}

func (e *Engine) finish(c *Compiled, tenv *types.Env) {
	lockCheck()
	m := guard(func() { c.Static = types.Check(c.CoreAST, tenv) })
	unlockCheck()
	if m != "" {
		c.Stage, c.Err = "check", m
		return
	}
	c.ClErr[BVMSwitch] = guard(func() { c.Cl[BVMSwitch] = vm.Compile(c.CoreAST, e.renv) })
	c.ClErr[BVMCall] = guard(func() { c.Cl[BVMCall] = vm.VerifCompileCallThreaded(c.CoreAST, e.renv) })
	c.ClErr[BClosure] = guard(func() { c.Cl[BClosure] = closure.Compile(c.CoreAST, e.renv) })
	c.ClErr[BInterp] = guard(func() { c.Cl[BInterp] = interp.Interp(c.CoreAST, e.renv) })
}

// ---------------------------------------------------------------- run

type Outcome struct {
	V       *val.Val
	RV      RVal
	ConvErr string
	Fail    string // "" | documented class | "fault:<kind>"
	Msg     string
	Site    string
	Trace   []string
}

func (o Outcome) Describe() string {
	if o.Fail != "" {
		return "fails[" + o.Fail + "] " + trunc(o.Msg, 120)
	}
	if o.ConvErr != "" {
		return "value unreadable: " + o.ConvErr
	}
	return o.RV.Render()
}

func trunc(s string, n int) string {
	if len(s) > n {
		return s[:n] + "…"
	}
	return s
}

func (e *Engine) Run(cl compiler.Closure, env *val.Env) (out Outcome) {
	e.trace = e.trace[:0]
	defer func() {
		if r := recover(); r != nil {
			out.V = nil
			out.Msg = fmt.Sprint(r)
			_, isRT := r.(runtime.Error)
			site := ""
			if isRT {
				site = panicSite()
			}
			out.Site = site
			out.Fail = classify(r, out.Msg, site)
		}
		out.Trace = append([]string(nil), e.trace...)
	}()
	out.V = cl(env)
	rv, err := FromVal(out.V)
	out.RV = rv
	if err != nil {
		out.ConvErr = err.Error()
	}
	return
}

// panicSite: the function in which the panic was raised (first frame below
// the runtime's panic machinery that is not util.Assert / Unreachable).
func panicSite() string {
	pcs := make([]uintptr, 96)
	n := runtime.Callers(2, pcs)
	fr := runtime.CallersFrames(pcs[:n])
	seenPanic := false
	for {
		f, more := fr.Next()
		fn := f.Function
		if strings.HasPrefix(fn, "runtime.") {
			if strings.Contains(fn, "panic") || strings.Contains(fn, "goPanic") {
				seenPanic = true
			}
		} else if seenPanic {
			if !strings.HasSuffix(fn, "/util.Assert") && !strings.HasSuffix(fn, "/util.Unreachable") {
				return fn
			}
		}
		if !more {
			break
		}
	}
	return ""
}

var subscriptSites = []string{"/vm.switchThreading", "/vm.OP_LIST_LOAD_Handler", "/closure.compile0", "/interp.listSel"}
var modSites = []string{"/vm.switchThreading", "/vm.OP_MOD_NUM_NUM_Handler", "/fun.init", "/fun.glob"}

func inSites(site string, sites []string) bool {
	for _, s := range sites {
		if strings.Contains(site, s) {
			return true
		}
	}
	return false
}

// classify decides the class of a failure by its site and kind, never by the
// exact message text of a documented failure.
func classify(r interface{}, msg, site string) string {
	if _, ok := r.(boomPanic); ok {
		return FHost
	}
	switch {
	case strings.HasPrefix(msg, "out of range "):
		return FIndex
	case strings.HasPrefix(msg, "undefined key "):
		return FKey
	case strings.Contains(msg, "error parsing regexp"):
		return FRegex
	case strings.Contains(msg, "integer divide by zero"):
		if inSites(site, modSites) {
			return FModZero
		}
		return "fault:go-divide-by-zero"
	case strings.Contains(msg, "index out of range"):
		if inSites(site, subscriptSites) {
			return FIndex
		}
		return "fault:go-index-out-of-range"
	case strings.Contains(msg, "over exec limit"):
		return "fault:over-exec-limit"
	case strings.Contains(msg, "unreachable"):
		return "fault:unreachable"
	case strings.Contains(msg, "unsupported opcode"):
		return "fault:unknown-opcode"
	case strings.Contains(msg, "nil pointer dereference"), strings.Contains(msg, "invalid memory address"):
		return "fault:nil-dereference"
	case strings.Contains(msg, "unexpected fault address"), strings.Contains(msg, "fault address"):
		return "fault:bad-memory-access"
	case strings.Contains(msg, "interface conversion"):
		return "fault:interface-conversion"
	case strings.Contains(msg, "slice bounds out of range"):
		return "fault:go-slice-bounds"
	case msg == "" || msg == "(empty panic message)":
		return "fault:stack-underflow"
	case strings.Contains(msg, "missing `"):
		return "fault:missing-variable"
	case strings.Contains(msg, "type mismatched"):
		return "fault:runtime-type-assert"
	}
	return "fault:other"
}

func init() { debug.SetPanicOnFault(true) }

// ---------------------------------------------------------------- value conversion

// FromVal reads a yae value by its OWN dynamic type tag (so a value whose
// static type is wrong is still read safely) into a reference value.
func FromVal(v *val.Val) (rv RVal, err error) {
	defer func() {
		if r := recover(); r != nil {
			err = fmt.Errorf("unreadable value: %v", r)
		}
	}()
	return fromVal(v, 0)
}

func fromVal(v *val.Val, depth int) (RVal, error) {
	if v == nil {
		return RVal{}, fmt.Errorf("nil value")
	}
	if v.Type == nil {
		return RVal{}, fmt.Errorf("value without type")
	}
	if depth > 40 {
		return RVal{}, fmt.Errorf("value too deep")
	}
	switch v.Type.Kind {
	case types.KBool:
		return RBool(v.Bool().V), nil
	case types.KNum:
		return RNum(v.Num().V), nil
	case types.KStr:
		return RStr(v.Str().V), nil
	case types.KTime:
		return RTime(v.Time().V), nil
	case types.KList:
		l := v.List().V
		if len(l) > 1<<20 {
			return RVal{}, fmt.Errorf("implausible list length %d", len(l))
		}
		xs := make([]RVal, len(l))
		for i, e := range l {
			x, err := fromVal(e, depth+1)
			if err != nil {
				return RVal{}, fmt.Errorf("list[%d]: %v", i, err)
			}
			xs[i] = x
		}
		return RList(xs...), nil
	case types.KMap:
		m := v.Map().V
		var keys, vals []RVal
		for k, e := range m {
			kv, err := keyToRVal(k)
			if err != nil {
				return RVal{}, err
			}
			x, err := fromVal(e, depth+1)
			if err != nil {
				return RVal{}, fmt.Errorf("map[%s]: %v", k, err)
			}
			keys = append(keys, kv)
			vals = append(vals, x)
		}
		// deterministic order
		for i := 1; i < len(keys); i++ {
			for j := i; j > 0 && keys[j].Render() < keys[j-1].Render(); j-- {
				keys[j], keys[j-1] = keys[j-1], keys[j]
				vals[j], vals[j-1] = vals[j-1], vals[j]
			}
		}
		return RMapOf(keys, vals), nil
	case types.KObj:
		o := v.Obj()
		fs := o.Type.Obj().Fields
		if len(fs) != len(o.V) {
			return RVal{}, fmt.Errorf("object with %d values for %d fields", len(o.V), len(fs))
		}
		names := make([]string, len(fs))
		vals := make([]RVal, len(fs))
		for i := range fs {
			names[i] = fs[i].Name
			x, err := fromVal(o.V[i], depth+1)
			if err != nil {
				return RVal{}, fmt.Errorf("field %s: %v", fs[i].Name, err)
			}
			vals[i] = x
		}
		return RObj(names, vals), nil
	case types.KMaybe:
		m := v.Maybe()
		if m.V == nil {
			return RNothing(), nil
		}
		x, err := fromVal(m.V, depth+1)
		if err != nil {
			return RVal{}, err
		}
		return RJust(x), nil
	}
	return RVal{}, fmt.Errorf("value of kind %s", v.Type.Kind)
}

// keyToRVal decodes a val.Key (unexported fields, read through reflection).
func keyToRVal(k val.Key) (RVal, error) {
	rk := reflect.ValueOf(k)
	tag := types.Kind(rk.Field(0).Int())
	text := rk.Field(1).String()
	switch tag {
	case types.KBool:
		return RBool(text == "true"), nil
	case types.KNum:
		x, ok := decodeNum(text)
		if !ok {
			if text == "NaN" || text == "+Inf" || text == "-Inf" {
				var f float64
				fmt.Sscan(text, &f)
				return RNum(f), nil
			}
			return RVal{}, fmt.Errorf("bad num key %q", text)
		}
		return RNum(x), nil
	case types.KStr:
		s, err := unquoteGo(text)
		if err != nil {
			return RVal{}, err
		}
		return RStr(s), nil
	case types.KTime:
		// key text of a time: the quoted Time.String()
		q, err := unquoteGo(text)
		if err != nil {
			return RVal{}, err
		}
		tm, err := time.Parse("2006-01-02 15:04:05.999999999 -0700 MST", q)
		if err != nil {
			return RVal{}, fmt.Errorf("bad time key %q", q)
		}
		return RTime(tm), nil
	}
	return RVal{}, fmt.Errorf("map key of kind %v", tag)
}

func keyKind(k val.Key) types.Kind {
	return types.Kind(reflect.ValueOf(k).Field(0).Int())
}

func renderVal(v *val.Val) string {
	rv, err := FromVal(v)
	if err != nil {
		return "<" + err.Error() + ">"
	}
	return rv.Render()
}

// ---------------------------------------------------------------- types

// ToType builds the yae type of a reference type (declared field order).
func ToType(t *Ty) *types.Type {
	switch t.K {
	case KBot:
		return types.Bottom
	case KBool:
		return types.Bool
	case KNum:
		return types.Num
	case KStr:
		return types.Str
	case KTime:
		return types.Time
	case KList:
		return types.List(ToType(t.El))
	case KMap:
		return types.Map(ToType(t.Key), ToType(t.El))
	case KMaybe:
		return types.Maybe(ToType(t.El))
	case KObj:
		fs := make([]types.Field, len(t.Fs))
		for i, f := range t.Fs {
			fs[i] = types.Field{Name: f.Name, Val: ToType(f.T)}
		}
		return types.Obj(fs)
	}
	panic("harness: ToType " + t.String())
}

// FromType reads a yae type into a reference type.
func FromType(t *types.Type) *Ty {
	if t == nil {
		return nil
	}
	switch t.Kind {
	case types.KBot:
		return TBot
	case types.KBool:
		return TBool
	case types.KNum:
		return TNum
	case types.KStr:
		return TStr
	case types.KTime:
		return TTime
	case types.KList:
		return ListOf(FromType(t.List().El))
	case types.KMap:
		return MapOf(FromType(t.Map().Key), FromType(t.Map().Val))
	case types.KMaybe:
		return MaybeOf(FromType(t.Maybe().Elem))
	case types.KObj:
		fs := make([]Fld, len(t.Obj().Fields))
		for i, f := range t.Obj().Fields {
			fs[i] = Fld{f.Name, FromType(f.Val)}
		}
		return ObjOf(fs...)
	case types.KTyVar:
		return TV(t.TyVar().Name)
	}
	return &Ty{K: KVar, Var: "?" + t.Kind.String()}
}

// ToVal builds a yae value of type ty from a reference value through the raw
// val API (objects in the declared field order of ty).
func ToVal(rv RVal, ty *Ty) *val.Val {
	switch ty.K {
	case KBool:
		return val.Bool(rv.B)
	case KNum:
		return val.Num(rv.N)
	case KStr:
		return val.Str(rv.S)
	case KTime:
		return val.Time(rv.T)
	case KList:
		l := val.List(ToType(ty).List(), len(rv.L)).List()
		for i, e := range rv.L {
			l.V[i] = ToVal(e, ty.El)
		}
		return l.Vl()
	case KMap:
		m := val.Map(ToType(ty).Map()).Map()
		for i, k := range rv.Keys {
			m.Put(ToVal(k, ty.Key), ToVal(rv.L[i], ty.El))
		}
		return m.Vl()
	case KObj:
		o := val.Obj(ToType(ty).Obj()).Obj()
		for i, f := range ty.Fs {
			x, ok := rv.Field(f.Name)
			if !ok {
				panic("harness: ToVal missing field " + f.Name)
			}
			o.V[i] = ToVal(x, f.T)
		}
		return o.Vl()
	case KMaybe:
		if rv.P == nil {
			return val.Nothing(ToType(ty.El))
		}
		return val.Just(ToType(ty.El), ToVal(*rv.P, ty.El))
	}
	panic("harness: ToVal " + ty.String())
}
