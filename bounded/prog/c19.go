package prog

// C19: debug (power-assert) evaluation.

import (
	"fmt"
	"math/rand"
	"strings"

	"bounded/report"

	yae "github.com/goghcrow/yae"
	"github.com/goghcrow/yae/closure"
	"github.com/goghcrow/yae/compiler"
	"github.com/goghcrow/yae/debug"
	"github.com/goghcrow/yae/val"
)

type recEntry struct {
	col int
	v   RVal
	src string
}

func (w *Worker) c19fail(c *Case, clause, class, input, exp, got string) {
	w.addFinding(c.Seq, c.T.Size(), report.Failure{Key: "C19/" + clause + "/" + class, Input: input, Expected: exp, Got: got, Detail: "[" + c.Family + "]"})
}

func usesHostFunction(t *Term) bool {
	r := false
	t.Walk(func(x *Term) {
		if x.K == TkCall && x.Sig != nil && x.Sig.Host {
			r = true
		}
	})
	return r
}

func (w *Worker) processC19(c *Case, groups []*EnvGroup) {
	t := c.T.Clone()
	w.noteProgram(t)
	for _, g := range groups {
		if _, err := RefCheck(t, g.Gamma); err != nil {
			continue
		}
		if u := w.unsafeSub(t, g, false); u != nil {
			w.blocked++
			continue
		}
		src, cols := t.RenderCols(MPlain)
		comp := w.eng.CompileSrc(src, w.eng.TypeEnv(g))
		if !comp.OK() {
			if comp.Stage == "check" {
				w.yaeRejects++
			} else {
				w.parseErrors++
			}
			continue
		}
		var dbg compiler.Closure
		if m := guard(func() { dbg = closure.DebugCompile(comp.CoreAST, w.eng.renv) }); m != "" {
			w.c19fail(c, "debug-compile-panics", classOf(t, ""), src, "a debug closure", m)
			continue
		}
		for _, inst := range g.Insts {
			class := classOf(t, "")
			input := src + "   | env " + g.Describe(inst)
			env := w.eng.ValEnv(inst)
			normal := w.eng.Run(comp.Cl[BClosure], env)
			rcd := debug.NewRecord()
			env.Dgb = rcd
			dout := w.eng.Run(dbg, env)
			env.Dgb = nil
			w.evals++
			// expected record from the reference semantics
			var want []recEntry
			var wantTerms []*Term
			ref := RefEvalRec(t, inst.Ref, func(x *Term, v RVal) {
				want = append(want, recEntry{cols[x], v, x.Src()})
				wantTerms = append(wantTerms, x)
			})
			if ref.Repeat {
				continue // value may depend on hash order (see C03 / C04), nothing to compare
			}
			// (1) same value or failure as normal evaluation
			if normal.Fail != dout.Fail || (normal.Fail == "" && !(normal.ConvErr == "" && dout.ConvErr == "" && same(normal.RV, dout.RV))) {
				w.c19fail(c, "result-differs-from-normal-evaluation", class, input, normal.Describe(), dout.Describe())
				continue
			}
			// (2) the record — when the evaluation went the way the reference
			// semantics says (otherwise other properties' defects decide which
			// terms are evaluated); the recorded VALUE of a term is compared
			// with the normal evaluation of that term as a program of its own
			vals, gotCols := rcd.VerifEntries()
			var got []recEntry
			convOK := true
			for i := range vals {
				rv, err := FromVal(vals[i])
				if err != nil {
					convOK = false
				}
				got = append(got, recEntry{gotCols[i], rv, ""})
			}
			if !ref.Unspec && convOK && agreesWithRef(normal, ref) && sameTrace(normal.Trace, ref.Trace) {
				for i := range want {
					if i < len(wantTerms) {
						if rv, ok := w.standalone(wantTerms[i], g, inst); ok {
							want[i].v = rv
						} else if i < len(got) {
							want[i].v = got[i].v // no independent value: only presence, order and column are checked
						}
					}
				}
				w.counters["records-compared"]++
				w.counters["record-entries-compared"] += len(want)
				if msg, cl := compareRecord(want, got); msg != "" {
					w.c19fail(c, cl, class, input, describeRec(want), describeRec(got)+" — "+msg)
					continue
				}
			}
			// (3) rendering
			var rendered string
			if m := guard(func() { rendered = rcd.Render(src) }); m != "" {
				w.c19fail(c, "render-panics", class, input, "a report", m)
				continue
			}
			lines := strings.Split(rendered, "\n")
			if lines[0] != src {
				w.c19fail(c, "render-first-line", class, input, src, lines[0])
				continue
			}
			for i, v := range vals {
				var s string
				if m := guard(func() { s = v.String() }); m != "" {
					continue
				}
				first := strings.Split(strings.ReplaceAll(s, "\r", "\n"), "\n")[0]
				if first != "" && !strings.Contains(rendered, first) {
					w.c19fail(c, "render-misses-a-value", class, input, fmt.Sprintf("the value %s recorded at column %d is shown", first, gotCols[i]), rendered)
					break
				}
			}
		}
		// the public entry point (default engine: no harness functions)
		if c.Family != "exhaustive" && !usesHostFunction(t) && g.hostT != nil {
			for _, inst := range g.Insts {
				if inst.host == nil {
					continue
				}
				var v1, v2 *val.Val
				var rep string
				var e1, e2 error
				if m := guard(func() { v1, e1 = yae.Eval(src, inst.host()) }); m != "" {
					continue // progress of the public API is C12
				}
				if m := guard(func() { v2, rep, e2 = yae.Debug(src, inst.host()) }); m != "" {
					w.c19fail(c, "debug-panics", classOf(t, ""), src, "a result and a report", m)
					continue
				}
				w.counters["facade-debug-runs"]++
				rr := RefEval(t, inst.Ref)
				if rr.Repeat {
					continue
				}
				if (e1 == nil) != (e2 == nil) {
					w.c19fail(c, "yae.Debug-differs-from-yae.Eval", causeClass(t, rr), src+"   | env "+g.Describe(inst), fmt.Sprint(v1, e1), fmt.Sprint(v2, e2))
					continue
				}
				if e1 == nil && !ref19Same(v1, v2) {
					w.c19fail(c, "yae.Debug-differs-from-yae.Eval", causeClass(t, rr), src+"   | env "+g.Describe(inst), renderVal(v1), renderVal(v2))
					continue
				}
				if !strings.HasPrefix(rep, src) {
					w.c19fail(c, "render-first-line", classOf(t, "")+":facade", src, src, strings.Split(rep, "\n")[0])
				}
			}
		}
	}
}

// standalone: the value the normal closure evaluation gives the term as a
// program of its own (terms are closed), cached.
func (w *Worker) standalone(x *Term, g *EnvGroup, inst *EnvInst) (RVal, bool) {
	key := inst.Name + "|" + x.Src()
	if c, ok := w.valCache19[key]; ok {
		return c.v, c.ok
	}
	if w.valCache19 == nil {
		w.valCache19 = map[string]cached19{}
	}
	var res cached19
	if x.K == TkVar {
		res = cached19{inst.Ref[x.Text], true}
	} else {
		comp := w.eng.CompileSrc(x.Src(), w.eng.TypeEnv(g))
		if comp.OK() && comp.Cl[BClosure] != nil {
			o := w.eng.Run(comp.Cl[BClosure], w.eng.ValEnv(inst))
			if o.Fail == "" && o.ConvErr == "" {
				res = cached19{o.RV, true}
			}
		}
	}
	w.valCache19[key] = res
	return res.v, res.ok
}

type cached19 struct {
	v  RVal
	ok bool
}

// causeClass: the class of a program by a root-cause tag of its reference
// evaluation, else by its root operation.
func causeClass(t *Term, ro RefOutcome) string {
	for _, rc := range rootCauseOrder {
		for _, tg := range ro.Tags {
			for _, part := range strings.Split(tg, "+") {
				if part == rc {
					return rootCause[rc]
				}
			}
		}
	}
	return classOf(t, ro.Tags[t])
}

func ref19Same(a, b *val.Val) bool {
	x, e1 := FromVal(a)
	y, e2 := FromVal(b)
	return e1 == nil && e2 == nil && same(x, y)
}

func describeRec(es []recEntry) string {
	xs := make([]string, len(es))
	for i, e := range es {
		xs[i] = fmt.Sprintf("col %d: %s", e.col, trunc(e.v.Render(), 40))
	}
	return "[" + strings.Join(xs, ", ") + "]"
}

func compareRecord(want, got []recEntry) (msg, clause string) {
	for i := 0; i < len(want) && i < len(got); i++ {
		if want[i].col != got[i].col {
			// a missing / extra entry shows as a shifted column as well: tell them apart
			if len(want) != len(got) {
				break
			}
			return fmt.Sprintf("entry %d (%s): expected column %d, recorded column %d", i, want[i].src, want[i].col, got[i].col), "record-wrong-column"
		}
		if !same(want[i].v, got[i].v) {
			return fmt.Sprintf("entry %d (%s): expected value %s, recorded %s", i, want[i].src, want[i].v.Render(), got[i].v.Render()), "record-wrong-value"
		}
	}
	if len(got) < len(want) {
		return fmt.Sprintf("%d evaluated terms, %d recorded", len(want), len(got)), "record-misses-an-evaluated-term"
	}
	if len(got) > len(want) {
		return fmt.Sprintf("%d evaluated terms, %d recorded", len(want), len(got)), "record-has-an-extra-entry"
	}
	return "", ""
}

func famC19() Family {
	var ts []*Term
	n, s, b, o, xs, mp := Var("n"), Var("s"), Var("b"), Var("o"), Var("xs"), Var("mp")
	ts = append(ts,
		Call("+", Call("len", Q("日本語")), n), Call("+", Q("日本語"), s), Call("==", Call("+", Q("é"), s), Q("éhéllo")),
		Call("len", Call("+", Q("🙂🙂"), Call("string", n))), Sub(MapLit(Q("ключ"), n), Q("ключ")),
		Call("+", Str(`"line1\nline2"`), s), Call("string", List(Str(`"a\nb"`), s)), Call("trs", Str(`"x\r\ny"`)), Call("id", List(Str(`"top\nbottom"`), Str(`"z"`))),
		Call("+", Call("+", Call("+", n, n), Call("*", n, n)), Call("max", n, Call("min", n, N("1")))),
		If(b, Call("tr", n), Call("boom", n)), If(Call("!", b), Call("boom", n), Call("tr", n)), Ternary(b, Member(o, "a"), Sub(xs, N("99"))),
		Call("&&", b, Call(">", Sub(xs, N("0")), N("0"))), Call("||", b, Call(">", Sub(xs, N("99")), N("0"))),
		Call("pick", b, Call("pick", b, Member(o, "a"), n), Call("boom", n)),
		Method("max", Member(o, "a"), Method("len", xs)), Method("get", xs, N("0"), n), Member(Member(Var("oo"), "p"), "b"),
		Sub(Member(Var("oo"), "q"), Call("-", Call("len", Member(Var("oo"), "q")), N("1"))),
		Sub(xs, N("99")), Sub(mp, Q("nope")), Call("%", n, N("0")), Call("+", n, Sub(xs, N("99"))), Call("boom", Call("tr", n)),
		Call("string", o), Call("string", Var("oo")), Call("union", xs, List(n, n)), Call("get", Var("on"), n),
		List(n, Call("+", n, N("1")), Call("tr", n)), ObjLit([]string{"a", "b"}, []*Term{Call("tr", n), s}), MapLit(s, n, Call("+", s, s), Call("+", n, n)),
		Call("==", Call("string", Call("+", N("1234567"), n)), Call("+", Q("12345"), Q("70"))),
		Call("-", Call("-", Call("-", n))), Call("not", Call("!", b)), Call("and", b, Call("or", b, b)),
	)
	return Family{Name: "debug-shapes", Terms: ts}
}

func runC19(tier Tier, seed int64) *report.Report {
	r := &report.Report{Contract: "closure.DebugCompile with a debug.Record (entries read through the hook) on the checked tree: same value / failure class as closure.Compile; the recorded entries are exactly the variable / call / member / subscript terms the reference evaluator evaluates, in order of completion, each with its value and the 1-based rune column of its own token (identifier; operator, `?` or `(`; `.`; `[`); Record.Render does not panic, keeps the source as first line and shows every recorded value; yae.Debug agrees with yae.Eval on host-struct environments"}
	names, refs := []string{"unicode"}, []map[string]RVal{{"é": RNum(4), "数": RStr("値"), "b": RBool(true)}}
	uni := RawGroup("raw-unicode-names", []string{"é", "数", "b"}, Gamma{"é": TNum, "数": TStr, "b": TBool}, names, refs)
	std := stdGroups()
	pool := NewPool("C19", func(w *Worker, c *Case) {
		groups := c.Groups
		if groups == nil {
			groups = std
		}
		w.processC19(c, groups)
	})
	var samples []string
	g := SigmaGrammar(false)
	nEx := 0
	g.All(tier.MaxNodes, func(t *Term) {
		nEx++
		if t.Size() >= 4 && len(samples) < 3000 {
			samples = append(samples, t.Render(MPlain))
		}
		pool.Submit(t, "exhaustive", std[:1])
	})
	var fams []string
	for _, f := range []Family{famC19(), FamLazy(), famC10(), FamStrings(), FamDupKeys()} {
		fams = append(fams, fmt.Sprintf("%s (%d)", f.Name, len(f.Terms)))
		for _, t := range f.Terms {
			pool.Submit(t, f.Name, nil)
		}
	}
	é, 数 := Var("é"), Var("数")
	for _, t := range []*Term{Call("+", é, N("1")), Call("+", 数, Q("é")), Call("len", Call("+", 数, 数)), If(Var("b"), 数, Q("x")),
		Call("==", Call("*", é, é), N("16")), List(é, Call("len", 数)), Call("trs", Call("+", Q("日本"), 数)), Method("max", é, Call("tr", é))} {
		pool.Submit(t, "unicode-identifiers", []*EnvGroup{uni})
	}
	rnd := rand.New(rand.NewSource(seed))
	for i := 0; i < tier.Random; i++ {
		pool.Submit(g.RandomProgram(rnd, tier.Depth), "random", nil)
	}
	pool.Close()
	pool.Merge(r)
	r.Space = fmt.Sprintf("(a) EXHAUSTIVE: all %d well-typed single-line terms with at most %d AST nodes over Σ (raw environment, two value assignments); (b) directed families: %s, 8 programs over non-ASCII identifiers (é, 数); values that render on several lines, non-ASCII strings, unevaluated lazy branches, failing programs; raw and host-struct environments; (c) %d seeded random programs (seed %d, depth ≤ %d) in mixed notations.",
		nEx, tier.MaxNodes, strings.Join(fams, ", "), tier.Random, seed, tier.Depth)
	r.Bound = fmt.Sprintf("exhaustive part: ≤ %d AST nodes (tier %s); random part: %d programs, depth ≤ %d", tier.MaxNodes, tier.Name, tier.Random, tier.Depth)
	r.Rule = "a case is one (program, environment) debug evaluation compared with the normal one and with the reference record (evaluations); distinct_nontrivial counts distinct program texts with at least one operator / call / access node"
	r.Exhaustive = true
	r.Notes = append(r.Notes, fmt.Sprintf("exhaustive only for part (a) (%d terms, node bound %d); parts (b) and (c) are samples", nEx, tier.MaxNodes))
	pickSamples(r, samples)
	return r
}
