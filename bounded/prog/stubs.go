package prog

import "bounded/report"

func runC10(tier Tier, seed int64) *report.Report { return &report.Report{} }
func runC16(tier Tier, seed int64) *report.Report { return &report.Report{} }
func runC11(tier Tier, seed int64) *report.Report { return &report.Report{} }
func runC19(tier Tier, seed int64) *report.Report { return &report.Report{} }
