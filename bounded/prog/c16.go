package prog

// C16: optional values can only be consumed through a default.

import (
	"fmt"
	"math/rand"
	"strings"

	"bounded/report"
)

var (
	tyOBN    = ObjOf(F("v", MaybeOf(TNum)), F("w", TNum))
	c16Order = []string{"b", "n", "s", "t", "xs", "mp", "o", "ob", "on", "os", "ot", "oxs", "omp", "oo", "lon", "mon", "obn"}
)

func c16Gamma() Gamma {
	return Gamma{
		"b": TBool, "n": TNum, "s": TStr, "t": TTime, "xs": ListOf(TNum), "mp": MapOf(TStr, TNum), "o": tyO,
		"ob": MaybeOf(TBool), "on": MaybeOf(TNum), "os": MaybeOf(TStr), "ot": MaybeOf(TTime),
		"oxs": MaybeOf(ListOf(TNum)), "omp": MaybeOf(MapOf(TStr, TNum)), "oo": MaybeOf(tyO),
		"lon": ListOf(MaybeOf(TNum)), "mon": MapOf(TStr, MaybeOf(TNum)), "obn": tyOBN,
	}
}

func c16Universe() []*Ty {
	g := c16Gamma()
	var u []*Ty
	for _, n := range c16Order {
		dup := false
		for _, x := range u {
			if EqPos(x, g[n]) {
				dup = true
			}
		}
		if !dup {
			u = append(u, g[n])
		}
	}
	return u
}

func c16Refs() (names []string, refs []map[string]RVal) {
	base := func() map[string]RVal {
		return map[string]RVal{
			"b": RBool(true), "n": RNum(2), "s": RStr("x"), "t": V1.ref(false)["t"], "xs": nums([]float64{1, 2}),
			"mp": RMapOf([]RVal{RStr("x")}, []RVal{RNum(1)}),
			"o":  RObj([]string{"a", "b"}, []RVal{RNum(7), RStr("q")}),
		}
	}
	present := base()
	present["ob"] = RJust(RBool(false))
	present["on"] = RJust(RNum(5))
	present["os"] = RJust(RStr("é"))
	present["ot"] = RJust(V2.ref(false)["t"])
	present["oxs"] = RJust(nums([]float64{4}))
	present["omp"] = RJust(RMapOf([]RVal{RStr("k")}, []RVal{RNum(9)}))
	present["oo"] = RJust(RObj([]string{"a", "b"}, []RVal{RNum(1), RStr("p")}))
	present["lon"] = RList(RJust(RNum(1)), RNothing(), RJust(RNum(3)))
	present["mon"] = RMapOf([]RVal{RStr("a"), RStr("z")}, []RVal{RJust(RNum(1)), RNothing()})
	present["obn"] = RObj([]string{"v", "w"}, []RVal{RJust(RNum(8)), RNum(9)})
	absent := base()
	for _, k := range []string{"ob", "on", "os", "ot", "oxs", "omp", "oo"} {
		absent[k] = RNothing()
	}
	absent["lon"] = RList(RNothing(), RNothing())
	absent["mon"] = RMapOf([]RVal{RStr("a")}, []RVal{RNothing()})
	absent["obn"] = RObj([]string{"v", "w"}, []RVal{RNothing(), RNum(0)})
	mixed := base()
	for k, v := range present {
		mixed[k] = v
	}
	mixed["on"] = RNothing()
	mixed["oxs"] = RNothing()
	mixed["oo"] = RNothing()
	mixed["lon"] = RList()
	mixed["mon"] = RMapOf(nil, nil)
	return []string{"present", "absent", "mixed"}, []map[string]RVal{present, absent, mixed}
}

// host data with nil pointers / nil slices / nil maps
type HostInner struct {
	V *float64 `yae:"v,maybe"`
	W float64  `yae:"w"`
}
type HostC16 struct {
	N   float64            `yae:"n"`
	S   string             `yae:"s"`
	Xs  []float64          `yae:"xs"`
	On  *float64           `yae:"on,maybe"`
	Os  *string            `yae:"os,maybe"`
	Oxs []float64          `yae:"oxs,maybe"`
	Omp map[string]float64 `yae:"omp,maybe"`
	Oo  *HostO             `yae:"oo,maybe"`
	Obn HostInner          `yae:"obn"`
}

// untagged: a nil pointer / slice / map becomes an optional by its value
type HostC16Nil struct {
	N   float64            `yae:"n"`
	Xs  []float64          `yae:"xs"`
	On  *float64           `yae:"on"`
	Oxs []float64          `yae:"oxs"`
	Omp map[string]float64 `yae:"omp"`
	Oo  *HostO             `yae:"oo"`
}

func c16HostGroups() []*EnvGroup {
	tyOh := tyOhost
	gamma := Gamma{"n": TNum, "s": TStr, "xs": ListOf(TNum), "on": MaybeOf(TNum), "os": MaybeOf(TStr),
		"oxs": MaybeOf(ListOf(TNum)), "omp": MaybeOf(MapOf(TStr, TNum)), "oo": MaybeOf(tyOh), "obn": tyOBN}
	order := []string{"n", "s", "xs", "on", "os", "oxs", "omp", "oo", "obn"}
	str := "é"
	presentH := func() interface{} {
		return HostC16{N: 2, S: "x", Xs: []float64{1, 2}, On: fp(5), Os: &str, Oxs: []float64{4}, Omp: map[string]float64{"k": 9},
			Oo: &HostO{B: "p", A: 1}, Obn: HostInner{V: fp(8), W: 9}}
	}
	absentH := func() interface{} {
		return HostC16{N: 2, S: "x", Xs: []float64{1, 2}, Obn: HostInner{W: 0}}
	}
	presentR := map[string]RVal{"n": RNum(2), "s": RStr("x"), "xs": nums([]float64{1, 2}), "on": RJust(RNum(5)), "os": RJust(RStr("é")),
		"oxs": RJust(nums([]float64{4})), "omp": RJust(RMapOf([]RVal{RStr("k")}, []RVal{RNum(9)})),
		"oo": RJust(RObj([]string{"b", "a"}, []RVal{RStr("p"), RNum(1)})), "obn": RObj([]string{"v", "w"}, []RVal{RJust(RNum(8)), RNum(9)})}
	absentR := map[string]RVal{"n": RNum(2), "s": RStr("x"), "xs": nums([]float64{1, 2}), "on": RNothing(), "os": RNothing(),
		"oxs": RNothing(), "omp": RNothing(), "oo": RNothing(), "obn": RObj([]string{"v", "w"}, []RVal{RNothing(), RNum(0)})}
	g1 := &EnvGroup{Key: "host-tagged", Gamma: gamma, Order: order, hostT: presentH}
	g1.Insts = []*EnvInst{
		{Group: g1, Name: "host-tagged/present", Ref: presentR, host: presentH},
		{Group: g1, Name: "host-tagged/nil", Ref: absentR, host: absentH},
	}
	// untagged nil values
	nilH := func() interface{} { return HostC16Nil{N: 2, Xs: []float64{1, 2}} }
	gammaN := Gamma{"n": TNum, "xs": ListOf(TNum), "on": MaybeOf(TNum), "oxs": MaybeOf(ListOf(TNum)),
		"omp": MaybeOf(MapOf(TStr, TNum)), "oo": MaybeOf(tyOh)}
	orderN := []string{"n", "xs", "on", "oxs", "omp", "oo"}
	g2 := &EnvGroup{Key: "host-untagged-nil", Gamma: gammaN, Order: orderN, hostT: nilH}
	g2.Insts = []*EnvInst{{Group: g2, Name: "host-untagged-nil/nil",
		Ref: map[string]RVal{"n": RNum(2), "xs": nums([]float64{1, 2}), "on": RNothing(), "oxs": RNothing(), "omp": RNothing(), "oo": RNothing()}, host: nilH}}
	return []*EnvGroup{g1, g2}
}

// optVarFor: a variable of type maybe[ty] in Γ.
func optVarFor(gamma Gamma, order []string, ty *Ty) *Term {
	for _, n := range order {
		t := gamma[n]
		if t.K == KMaybe && EqPos(t.El, ty) {
			return Var(n)
		}
	}
	return nil
}

// c16Mutations: for the root operation of a well-typed term, every argument
// position at which the underlying type is required, replaced by an optional
// variable of that underlying type.
func c16Mutations(t *Term, gamma Gamma, order []string) []*Term {
	var out []*Term
	mut := func(i int) {
		at := t.Args[i].Ty
		if at == nil || at.K == KMaybe {
			return
		}
		ov := optVarFor(gamma, order, at)
		if ov == nil {
			return
		}
		m := &Term{K: t.K, Text: t.Text, Form: t.Form, Names: t.Names}
		for j, a := range t.Args {
			if j == i {
				m.Args = append(m.Args, ov)
			} else {
				m.Args = append(m.Args, a.Clone())
			}
		}
		out = append(out, m)
	}
	switch t.K {
	case TkCall:
		if t.Sig == nil {
			return nil
		}
		for i, p := range t.Sig.Params {
			if p.K != KVar { // a bare type variable may be bound to an optional
				mut(i)
			}
		}
	case TkMember:
		mut(0)
	case TkSub:
		mut(0)
		mut(1)
	case TkList:
		// an optional among required elements
		if len(t.Args) >= 2 {
			mut(len(t.Args) - 1)
		}
	case TkMap:
		if len(t.Args) >= 4 {
			mut(len(t.Args) - 1)
			mut(len(t.Args) - 2)
		}
	}
	return out
}

func mutClass(t *Term, i int) string {
	switch t.K {
	case TkCall:
		if t.Sig != nil {
			return fmt.Sprintf("%s:param%d", t.Sig.ID, i)
		}
		return "call-" + t.Text
	case TkMember:
		return "member-of-optional-object"
	case TkSub:
		if i == 0 {
			return "subscript-of-optional-container"
		}
		return "optional-as-subscript"
	case TkList:
		return "list-literal-mixing-optional"
	case TkMap:
		return "map-literal-mixing-optional"
	}
	return "other"
}

func (w *Worker) processC16(c *Case, groups []*EnvGroup) {
	t := c.T.Clone()
	w.noteProgram(t)
	for _, g := range groups {
		if _, err := RefCheck(t, g.Gamma); err != nil {
			// an ill-typed use of the directed family: yae must reject it too
			if c.Family == "optionals" && mentionsOnly(t, g.Gamma) {
				comp := w.eng.CompileSrc(t.Src(), w.eng.TypeEnv(g))
				w.counters["optional-misuse-programs"]++
				w.evals++
				if comp.OK() {
					w.addFinding(c.Seq, t.Size(), report.Failure{Key: "C16/optional-accepted/" + classOf(t, ""),
						Input: t.Src() + "   | env " + g.Key, Expected: "a compile-time error: " + err.Error(),
						Got: "accepted with type " + comp.Static.String(), Detail: "[" + c.Family + "]"})
				}
			}
			continue
		}
		// (1) single-point optional mutations of the root operation: compile errors
		for _, m := range c16Mutations(t, g.Gamma, g.Order) {
			mm := m.Clone()
			if _, err := RefCheck(mm, g.Gamma); err == nil {
				// another overload legitimately takes the optional (e.g. get(optional, default))
				w.counters["mutation-still-well-typed"]++
				continue
			}
			comp := w.eng.CompileSrc(mm.Src(), w.eng.TypeEnv(g))
			w.counters["optional-misuse-programs"]++
			w.evals++
			switch {
			case comp.Stage == "parse" || comp.Stage == "desugar":
				w.parseErrors++
			case comp.OK():
				idx := 0
				for i := range m.Args {
					if m.Args[i].K == TkVar && (i >= len(t.Args) || t.Args[i].K != TkVar || t.Args[i].Text != m.Args[i].Text) {
						idx = i
					}
				}
				w.addFinding(c.Seq, m.Size(), report.Failure{Key: "C16/optional-accepted/" + mutClass(t, idx),
					Input: mm.Src() + "   | env " + g.Key, Expected: "a compile-time error (an optional where the underlying type is required)",
					Got: "accepted with type " + comp.Static.String(), Detail: "[" + c.Family + "] mutation of " + t.Src()})
			}
		}
		// (2)(3) accepted programs: get(optional, default) and everything else
		// behave as the reference semantics says; absence never makes them fail
		if u := w.unsafeSub(t, g, false); u != nil {
			w.blocked++
			continue
		}
		cr := w.Eval(t, g, nil)
		if !w.usable(cr) {
			continue
		}
		for _, ir := range cr.Insts {
			if v := checkC16(w, cr, ir); v != nil {
				w.report(c, cr, ir, v, checkC16)
			}
		}
	}
}

// checkC16 on one evaluation: (2) a program get(optional, default) has the
// reference value (payload when present, default otherwise); (3) a run-time
// failure that the reference semantics does not have and that does not occur
// with the same program when every optional is present is a failure because
// of absence; a nil dereference is one in any case.
func checkC16(w *Worker, cr *CaseResult, ir *InstResult) *Violation {
	if cr.T.K == TkCall && cr.T.Sig != nil && cr.T.Sig.ID == "GET_MAYBE" && !ir.Ref.Unspec && ir.Ref.Fail == "" {
		for b := 0; b < NBackends; b++ {
			o := ir.Out[b]
			if o.Fail == "" && o.ConvErr == "" && !same(o.RV, ir.Ref.Val) {
				tag := "present"
				if ir.Ref.Tags[cr.T] == "absent" {
					tag = "absent"
				}
				return &Violation{Clause: "get-default-wrong", Class: "GET_MAYBE:" + tag, Backend: b,
					Expected: ir.Ref.Val.Render(), Got: o.RV.Render()}
			}
		}
	}
	present := cr.Insts[0]
	for b := 0; b < NBackends; b++ {
		o := ir.Out[b]
		if o.Fail == "" || o.Fail == "refused" || (o.Fail == ir.Ref.Fail) || ir.Ref.Unspec {
			continue
		}
		if o.Fail == "fault:nil-dereference" {
			return &Violation{Clause: "fails-because-of-absence", Class: "nil-dereference", Backend: b,
				Expected: refDescribe(ir.Ref), Got: o.Describe() + siteNote(o)}
		}
		if ir == present && len(cr.Insts) > 1 {
			continue // every optional present: not a matter of absence
		}
		if ir != present && present.Out[b].Fail == o.Fail {
			continue // fails the same way with every optional present
		}
		if ir.Ref.Fail != "" && !isFault(o.Fail) {
			continue
		}
		return &Violation{Clause: "fails-because-of-absence", Class: strings.TrimPrefix(o.Fail, "fault:"), Backend: b,
			Expected: refDescribe(ir.Ref), Got: o.Describe() + siteNote(o)}
	}
	return nil
}

// mentionsOnly: every variable of t is bound in Γ.
func mentionsOnly(t *Term, g Gamma) bool {
	ok := true
	t.Walk(func(x *Term) {
		if x.K == TkVar {
			if _, b := g[x.Text]; !b {
				ok = false
			}
		}
	})
	return ok
}

func famC16() Family {
	on, os, ob, oxs, omp, oo := Var("on"), Var("os"), Var("ob"), Var("oxs"), Var("omp"), Var("oo")
	lon, mon, obn := Var("lon"), Var("mon"), Var("obn")
	n, b := Var("n"), Var("b")
	opts := []*Term{on, Sub(lon, N("0")), Sub(lon, N("1")), Sub(mon, Q("a")), Member(obn, "v"), Call("get", lon, N("7"), on),
		Call("get", mon, Q("nope"), on), If(b, on, Member(obn, "v")), Call("id", on), Sub(List(on, Member(obn, "v")), N("1")),
		Call("pick", b, Sub(lon, N("0")), on), Call("print", on), Ternary(b, on, on)}
	var ts []*Term
	for _, e := range opts {
		for _, d := range []*Term{N("0"), n, Call("-", N("1")), Call("get", on, N("3"))} {
			ts = append(ts, Call("get", e, d), Method("get", e, d), Call("+", Call("get", e, d), N("1")))
		}
		ts = append(ts, e, Call("string", e), List(e), Call("==", List(e), List(on)), Call("len", List(e, e.Clone())))
	}
	ts = append(ts,
		Call("get", os, Q("dflt")), Call("len", Call("get", os, Q(""))), Call("+", Call("get", os, Q("a")), Q("b")),
		Call("get", ob, Bool(true)), If(Call("get", ob, Bool(false)), N("1"), N("2")), Call("&&", Call("get", ob, b), b),
		Call("get", oxs, List(N("0"))), Sub(Call("get", oxs, List(N("0"))), N("0")), Call("len", Call("get", oxs, Var("xs"))),
		Call("get", Call("get", oxs, Var("xs")), N("5"), N("9")), Call("max", Call("get", oxs, Var("xs"))),
		Call("get", omp, Var("mp")), Call("get", Call("get", omp, Var("mp")), Q("k"), N("0")), Call("isset", Call("get", omp, Var("mp")), Q("k")),
		Call("get", oo, Var("o")), Member(Call("get", oo, Var("o")), "a"), Member(Call("get", oo, ObjLit([]string{"b", "a"}, []*Term{Q("d"), N("0")})), "b"),
		Call("geta", Call("get", oo, Var("o"))), Call("get", Var("ot"), Var("t")), Call("<", Call("get", Var("ot"), Var("t")), Var("t")),
		Call("get", Member(obn, "v"), Member(obn, "w")), Call("+", Member(obn, "w"), Call("get", Member(obn, "v"), N("0"))),
		Call("max", List(Call("get", Sub(lon, N("0")), N("0")), Call("get", on, N("0")))),
		Call("union", lon, List(on)), Call("intersect", lon, lon), Call("diff", lon, List(on)), Call("==", lon, lon), Call("len", lon), Call("len", mon),
		Call("string", lon), Call("string", mon), Call("string", obn), Call("isset", mon, Q("a")), Call("isset", mon, Q("z")),
		// ill-typed uses that are not single-point mutations of a well-typed term
		Call("+", on, on), Call("==", on, on), Call("==", on, n), Call("!", ob), Call("&&", ob, ob), If(ob, n, n), Ternary(ob, n, n),
		Call("len", os), Call("+", os, os), Call("max", oxs), Sub(oxs, N("0")), Sub(omp, Q("k")), Member(oo, "a"), Call("geta", oo),
		Sub(Var("xs"), on), Sub(Var("mp"), os), Call("+", Sub(lon, N("0")), N("1")), Call("+", Sub(mon, Q("a")), N("1")), Call("+", Member(obn, "v"), N("1")),
		List(n, on), List(on, n), MapLit(os, N("1")), MapLit(Q("a"), n, Q("b"), on), Call("get", on, on), Call("get", on, Q("x")),
		Call("get", n, n), Call("max", lon), Call("tr", on), Call("boom", on), Method("abs", on), Call("-", on), Call("string", Call("+", on, N("1"))),
		Call("get", Var("xs"), on, N("0")), Call("get", Var("mp"), os, N("0")), Call("isset", Var("mp"), os), Call("match", os, Var("s")), Call("strtotime", os),
		Call("<", Var("ot"), Var("t")), Call("-", Var("ot"), Var("t")), Call("union", oxs, Var("xs")), Call("==", oxs, Var("xs")), Call("==", omp, Var("mp")),
	)
	return Family{Name: "optionals", Terms: ts}
}

func runC16(tier Tier, seed int64) *report.Report {
	r := &report.Report{Contract: "(1) every single-point mutation of a well-typed program that puts an optional (maybe[T]) variable where the root built-in / operator / member access / subscript / literal requires T is rejected at compile time (types.Check), unless the parameter is a bare type variable; (2) get(optional, default) yields the payload when present and the default otherwise; (3) accepted programs over environments with present and absent optionals (raw API; host structs with nil pointers, nil slices, nil maps, tagged and untagged) never fail at run time unless the reference semantics has a documented failure, yield well-typed values and the reference value, on all four back ends"}
	names, refs := c16Refs()
	raw := RawGroup("raw-optionals", c16Order, c16Gamma(), names, refs)
	hostGroups := c16HostGroups()
	all := append([]*EnvGroup{raw}, hostGroups...)
	e := NewEngine()
	for _, g := range all {
		if err := e.SelfCheck(g); err != nil {
			r.Notes = append(r.Notes, "HARNESS SELF-CHECK FAILED (environment not as assumed, results void): "+err.Error())
		}
	}
	pool := NewPool("C16", func(w *Worker, c *Case) {
		groups := c.Groups
		if groups == nil {
			groups = all
		}
		w.processC16(c, groups)
	})
	g := NewGrammar(c16Universe(), c16Gamma(), c16Order)
	nEx := 0
	maxN := tier.MaxNodes
	var samples []string
	g.All(maxN, func(t *Term) {
		nEx++
		if t.Size() >= 3 && len(samples) < 3000 {
			samples = append(samples, t.Render(MPlain))
		}
		pool.Submit(t, "exhaustive", []*EnvGroup{raw})
	})
	f := famC16()
	for _, t := range f.Terms {
		pool.Submit(t, f.Name, nil)
	}
	rnd := rand.New(rand.NewSource(seed))
	for i := 0; i < tier.Random; i++ {
		t := g.RandomProgram(rnd, tier.Depth-1)
		pool.Submit(t, "random", []*EnvGroup{raw})
	}
	pool.Close()
	pool.Merge(r)
	r.Space = fmt.Sprintf("(a) EXHAUSTIVE: all %d well-typed terms with at most %d AST nodes over an environment with required variables b,n,s,t,xs,mp,o and optional ones ob,on,os,ot,oxs,omp,oo : maybe[…], lon : list[maybe[num]], mon : map[str,maybe[num]], obn : {v:maybe[num],w:num} (type universe = these %d types), each with every single-point optional mutation of its root operation; three value assignments (all present / all absent / mixed incl. empty containers); (b) directed family %s (%d programs: get with defaults over every optional shape, ill-typed uses) also over two host-struct environments built by conv (fields tagged `maybe` with non-nil and nil pointer / slice / map / struct pointer; untagged nil pointer / slice / map); (c) %d seeded random programs (seed %d, depth ≤ %d).",
		nEx, maxN, len(c16Universe()), f.Name, len(f.Terms), tier.Random, seed, tier.Depth-1)
	r.Bound = fmt.Sprintf("exhaustive part: ≤ %d AST nodes (tier %s); random part: %d programs, depth ≤ %d", maxN, tier.Name, tier.Random, tier.Depth-1)
	r.Rule = "a case is one compile attempt of an optional-misuse program, or one (accepted program, environment) evaluation on four back ends (evaluations); distinct_nontrivial counts distinct accepted program texts with at least one operator / call / access node"
	r.Exhaustive = true
	r.Notes = append(r.Notes, fmt.Sprintf("exhaustive only for part (a) (%d terms, node bound %d); parts (b) and (c) are samples", nEx, maxN))
	pickSamples(r, samples)
	_ = strings.Join
	return r
}
