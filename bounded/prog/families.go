package prog

// Directed program families: systematic instantiations of templates for the
// input classes the properties name explicitly (field-order permutations,
// duplicate keys, wide literals, boundary numerics, poisoned lazy operands,
// string conversion, time forms, set operations).

import (
	"fmt"
	"math"
	"strings"
	"time"
)

func N(text string) *Term { return Num(text) }

// Q: a yae string literal for s.
func Q(s string) *Term {
	var sb strings.Builder
	sb.WriteByte('"')
	for _, r := range s {
		switch r {
		case '"':
			sb.WriteString(`\"`)
		case '\\':
			sb.WriteString(`\\`)
		case '\n':
			sb.WriteString(`\n`)
		case '\t':
			sb.WriteString(`\t`)
		case '\r':
			sb.WriteString(`\r`)
		default:
			sb.WriteRune(r)
		}
	}
	sb.WriteByte('"')
	return Str(sb.String())
}

func If(c, a, b *Term) *Term      { return Call("if", c, a, b) }
func Ternary(c, a, b *Term) *Term { return CallForm(FTernary, "if", c, a, b) }
func Method(name string, recv *Term, args ...*Term) *Term {
	return CallForm(FMethod, name, append([]*Term{recv}, args...)...)
}

type Family struct {
	Name   string
	Terms  []*Term
	Groups []*EnvGroup // nil: the standard Σ environments
}

// permuted object literals of a type with given field values
func objPerms(ty *Ty, vals map[string]*Term) []*Term {
	var out []*Term
	perms(len(ty.Fs), func(p []int) {
		names := make([]string, len(p))
		vs := make([]*Term, len(p))
		for i, j := range p {
			names[i] = ty.Fs[j].Name
			vs[i] = vals[names[i]]
		}
		out = append(out, ObjLit(names, vs))
	})
	return out
}

// FamObjectOrder: every pair of field-order permutations of 2- and 3-field
// object literals (and the host objects o / oo) meeting in one container,
// followed by an access to every field.
func FamObjectOrder() Family {
	var ts []*Term
	type shape struct {
		ty   *Ty
		v1   map[string]*Term
		v2   map[string]*Term
		host *Term
	}
	shapes := []shape{
		{tyO, map[string]*Term{"a": N("1"), "b": Q("x")}, map[string]*Term{"a": N("2"), "b": Q("y")}, Var("o")},
		{tyO3, map[string]*Term{"a": N("1"), "b": Q("x"), "c": Bool(true)}, map[string]*Term{"a": N("2"), "b": Q("y"), "c": Bool(false)}, nil},
	}
	for _, sh := range shapes {
		l1s := objPerms(sh.ty, sh.v1)
		l2s := objPerms(sh.ty, sh.v2)
		if sh.host != nil {
			l2s = append(l2s, sh.host)
		}
		for _, l1 := range l1s {
			for _, l2 := range l2s {
				containers := []*Term{
					Sub(List(l1, l2), N("1")),
					Sub(List(l2, l1), N("0")),
					If(Var("b"), l1, l2),
					If(Call("!", Var("b")), l1, l2),
					Ternary(Var("b"), l2, l1),
					Call("pick", Var("b"), l2, l1),
					Sub(MapLit(Q("k"), l1, Q("j"), l2), Q("j")),
					Call("get", List(l1), N("5"), l2),
					Call("get", MapLit(Q("k"), l1), Q("z"), l2),
					Call("id", l2),
					Call("get", List(l1, l2), N("1"), l1),
				}
				for _, c := range containers {
					for _, f := range sh.ty.Fs {
						ts = append(ts, Member(c, f.Name))
					}
					ts = append(ts, c)
				}
				first := containers[0]
				ts = append(ts,
					Call("+", Member(first, "a"), N("1")),
					Call("+", Member(first, "b"), Q("z")),
					Call("len", Member(first, "b")),
					Call("tr", Member(first, "a")),
					Call("trs", Member(first, "b")),
					Call("string", List(l1, l2)),
					Call("==", List(l1, l2), List(l2, l1)),
					Call("==", List(l1), List(l1.Clone())),
					Call("union", List(l1), List(l2)),
					Call("union", List(l1, l2), List(l2, l1)),
					Call("intersect", List(l1, l2), List(l2)),
					Call("diff", List(l1, l2), List(l2)),
					Call("len", Call("union", List(l1, l2), List(l2, l1))),
				)
				if sh.ty == tyO {
					ts = append(ts,
						Call("geta", first),
						Call("geta", l2),
						Method("geta", l2),
						Member(Member(ObjLit([]string{"p", "q"}, []*Term{l2, List(N("1"))}), "p"), "a"),
						Member(Member(If(Var("b"), Var("oo"), ObjLit([]string{"p", "q"}, []*Term{l2, List(N("1"))})), "p"), "b"),
						Sub(Member(If(Var("b"), ObjLit([]string{"q", "p"}, []*Term{List(N("9")), l1}), Var("oo")), "q"), N("0")),
					)
				}
			}
		}
	}
	return Family{Name: "object-field-order", Terms: ts}
}

// FamDupKeys: map literals with duplicate keys.
func FamDupKeys() Family {
	m1 := MapLit(Q("a"), N("1"), Q("a"), N("2"))
	m2 := MapLit(Q("a"), N("1"), Q("b"), N("5"), Q("a"), N("2"), Q("a"), N("3"))
	m3 := MapLit(N("1"), Q("x"), N("1.0"), Q("y"))
	m4 := MapLit(Bool(true), N("1"), Bool(true), N("2"), Bool(false), N("3"))
	m5 := MapLit(Var("s"), N("1"), Var("s"), N("2"))
	m6 := MapLit(Q("a"), Call("tr", N("1")), Q("a"), Call("tr", N("2")))
	m7 := MapLit(Call("trs", Q("a")), Call("tr", N("1")), Call("trs", Q("a")), Call("tr", N("2")), Call("trs", Q("b")), Call("tr", N("3")))
	m8 := MapLit(TimeLit("2021-01-02 03:04:05"), N("1"), TimeLit("2021-01-02 03:04:05"), N("2"))
	ts := []*Term{
		m1, Sub(m1, Q("a")), Call("len", m1), Call("len", MapLit(Q("a"), N("0"), Q("a"), N("0"))),
		m2, Sub(m2, Q("a")), Call("len", m2), Call("get", m2, Q("a"), N("9")), Call("isset", m2, Q("a")),
		m3, Sub(m3, N("1")), m4, Sub(m4, Bool(true)), m5, Sub(m5, Var("s")),
		m6, Sub(m6, Q("a")), m7, Sub(m7, Q("a")), m8, Call("len", m8),
		Call("==", m1, MapLit(Q("a"), N("2"))), Call("==", m1, MapLit(Q("a"), N("1"))),
		Call("string", m1), Call("id", m1),
		If(Var("b"), m1, Var("mp")), List(m1, m2),
	}
	return Family{Name: "duplicate-map-keys", Terms: ts}
}

func sumOf(n int, leaf func(i int) *Term) *Term {
	t := leaf(0)
	for i := 1; i < n; i++ {
		t = Call("+", t, leaf(i))
	}
	return t
}

// FamWide: literals and expressions that exceed the VM's initial stack
// (42 slots), 8-bit operand ranges (255) and the call-threaded loop's budget.
func FamWide(thorough bool) Family {
	var ts []*Term
	numLeaf := func(i int) *Term { return N(fmt.Sprint(i)) }
	for _, n := range []int{43, 70, 256, 300} {
		es := make([]*Term, n)
		for i := range es {
			es[i] = numLeaf(i)
		}
		l := List(es...)
		ts = append(ts, Call("len", l), Sub(l, N(fmt.Sprint(n-1))), Call("max", l), l)
		kv := make([]*Term, 0, 2*n)
		for i := 0; i < n; i++ {
			kv = append(kv, Q(fmt.Sprintf("k%d", i)), numLeaf(i))
		}
		m := MapLit(kv...)
		ts = append(ts, Call("len", m), Sub(m, Q(fmt.Sprintf("k%d", n-1))), Sub(m, Q("k0")))
		names := make([]string, n)
		vs := make([]*Term, n)
		for i := 0; i < n; i++ {
			names[i] = fmt.Sprintf("f%d", i)
			vs[i] = numLeaf(i)
		}
		ts = append(ts, Member(ObjLit(names, vs), fmt.Sprintf("f%d", n-1)), Member(ObjLit(names, vs), "f0"))
		// nested: every element itself needs live slots
		ts = append(ts, Call("len", List(l, l.Clone())))
	}
	// sums
	for _, n := range []int{100, 300, 340, 345, 600} {
		ts = append(ts, sumOf(n, func(int) *Term { return N("1") }))
		ts = append(ts, sumOf(n, func(int) *Term { return Var("n") }))
	}
	ts = append(ts, sumOf(300, func(i int) *Term { return Call("tr", numLeaf(i)) }))
	// conditionals spanning more than 255 bytes
	big := func(k int) *Term { return sumOf(100, func(i int) *Term { return numLeaf(i + k) }) }
	ts = append(ts,
		If(Var("b"), big(0), big(1000)),
		If(Call("!", Var("b")), big(0), big(1000)),
		Ternary(Var("b"), big(0), big(1000)),
		Call("&&", Var("b"), Call(">", big(0), N("0"))),
		Call("||", Var("b"), Call(">", big(0), N("0"))),
		Call("and", Var("b"), Call(">", big(0), N("0"))),
		Call("pick", Var("b"), big(0), big(5)),
		If(Var("b"), If(Call("!", Var("b")), big(0), big(1)), If(Var("b"), big(2), big(3))),
		If(Var("b"), Call("boom", big(0)), big(3)),
		If(Var("b"), big(3), Call("boom", big(0))),
		Call("pick", Var("b"), Call("pick", Call("!", Var("b")), big(0), big(1)), Call("pick", Var("b"), big(2), big(3))),
		// a thunk body longer than the call-threaded budget
		Call("pick", Var("b"), sumOf(600, func(int) *Term { return N("1") }), N("0")),
		If(Var("b"), sumOf(600, func(int) *Term { return N("1") }), N("0")),
	)
	// deep nesting
	deep := N("1")
	for i := 0; i < 60; i++ {
		deep = List(deep)
	}
	ts = append(ts, deep)
	un := Var("n")
	for i := 0; i < 200; i++ {
		un = Call("-", un)
	}
	ts = append(ts, un)
	if thorough {
		es := make([]*Term, 70000)
		for i := range es {
			es[i] = N("1")
		}
		ts = append(ts, Call("len", List(es...)))
		ts = append(ts, sumOf(5000, func(int) *Term { return N("1") }))
	}
	return Family{Name: "wide-and-long", Terms: ts}
}

// Boundary doubles.
var boundaryGrid = []float64{
	0, math.Copysign(0, -1), 0.5e-9, -0.5e-9, 1e-9, -1e-9, 2e-9, -2e-9,
	1, -1, 0.5, -0.5, 2, 3, 2.5, -2.5, 1 + 0.5e-9, 1 + 1e-9, 1 + 2e-9,
	9007199254740991, 9007199254740992, 9007199254740993, 9223372036854775808.0, -9223372036854775808.0,
	1e300, -1e300, math.Inf(1), math.Inf(-1), math.NaN(), 1e-300, math.MaxFloat64, 4503599627370495.5, -2.5e15 - 0.5,
}

// FamBoundary: every unary / binary numeric operation, index and key use over
// the boundary grid (values supplied through the raw environment as n, k).
func FamBoundary(thorough bool) Family {
	n, k := Var("n"), Var("k")
	xs := List(N("10"), N("20"), N("30"))
	var ts []*Term
	for _, f := range []string{"-", "+", "abs", "ceil", "floor", "round", "string", "tr", "id"} {
		ts = append(ts, Call(f, n))
	}
	for _, f := range []string{"+", "-", "*", "/", "%", "^", "max", "min", "==", "!=", "<", "<=", ">", ">="} {
		ts = append(ts, Call(f, n, k))
	}
	ts = append(ts,
		Sub(xs, n), Call("get", xs, n, N("9")), Sub(Var("xs"), n), Call("get", Var("xs"), n, k),
		Sub(List(n, k), N("1")), Call("max", List(n, k)), Call("min", List(n, k, N("1"))),
		MapLit(n, N("1"), k, N("2")), Call("len", MapLit(n, N("1"), k, N("2"))),
		Sub(MapLit(n, Q("x")), k), Call("isset", MapLit(n, N("1")), k), Call("get", MapLit(n, N("1")), k, N("9")),
		Call("string", List(n, k)), Call("string", MapLit(n, k)), Call("string", ObjLit([]string{"v"}, []*Term{n})),
		Call("union", List(n), List(k)), Call("intersect", List(n, k), List(k)), Call("diff", List(n, k), List(k)),
		Call("==", List(n), List(k)), Call("==", MapLit(Q("a"), n), MapLit(Q("a"), k)),
		Call("len", Call("union", List(n), List(k))),
		Call("%", n, N("0")), Call("%", n, N("0.5")), Call("%", N("7"), k), Call("/", N("1"), n),
		If(Call("<", n, k), n, k), Call("+", Call("string", n), Q("!")),
		Call("==", Call("+", n, k), Call("+", k, n)),
		Call("*", Call("-", n), k),
	)
	// the grid as environment instances
	vals := boundaryGrid
	if !thorough {
		vals = boundaryGrid
	}
	var names []string
	var svs []SigmaVals
	for i, x := range vals {
		for j, y := range vals {
			if !thorough && (i+2*j)%3 != 0 && i != j {
				// quick: a third of the pairs plus the diagonal (deterministic)
				continue
			}
			v := V1
			v.N, v.K = x, y
			svs = append(svs, v)
			names = append(names, fmt.Sprintf("n=%s,k=%s", RNum(x).Render(), RNum(y).Render()))
		}
	}
	return Family{Name: "boundary-numerics", Terms: ts, Groups: SigmaGroups(names, svs, "raw")}
}

// FamLazy: tracing and failing sub-expressions in every operand position of
// every lazy construct, nested lazies, strict argument / member order.
func FamLazy() Family {
	b := Var("b")
	nb := Call("!", b)
	tt, ff := Bool(true), Bool(false)
	poisonN := func() *Term { return Call("boom", N("1")) }
	poisonB := func() *Term { return Call(">", Call("boom", N("2")), N("0")) }
	poisonS := func() *Term { return Call("string", Call("boom", N("3"))) }
	poisonL := func() *Term { return List(Call("boom", N("4"))) }
	// partial operations as poison: they must not run either
	partial := []*Term{Sub(Var("xs"), N("99")), Sub(Var("mp"), Q("nope")), Call("%", N("1"), N("0")), Sub(List(), N("0"))}
	var ts []*Term
	conds := []*Term{tt, ff, b, nb, Call("==", Call("tr", N("1")), N("1")), Call("<", Call("tr", N("5")), N("1"))}
	type tri func(c, x, y *Term) *Term
	tris := map[string]tri{
		"if":   func(c, x, y *Term) *Term { return If(c, x, y) },
		"?:":   func(c, x, y *Term) *Term { return Ternary(c, x, y) },
		"pick": func(c, x, y *Term) *Term { return Call("pick", c, x, y) },
		"if.m": func(c, x, y *Term) *Term { return Method("if", c, x, y) },
	}
	for _, name := range []string{"if", "?:", "pick", "if.m"} {
		mk := tris[name]
		for _, c := range conds {
			ts = append(ts,
				mk(c, Call("tr", N("10")), poisonN()),
				mk(c, poisonN(), Call("tr", N("20"))),
				mk(c, Call("tr", N("10")), Call("tr", N("20"))),
				mk(c, Call("trs", Q("then")), poisonS()),
				mk(c, poisonS(), Call("trs", Q("else"))),
				mk(c, List(Call("tr", N("1")), Call("tr", N("2"))), poisonL()),
				mk(c, poisonL(), List(Call("tr", N("3")))),
			)
			for _, p := range partial[:3] {
				ts = append(ts, mk(c, p, N("0")), mk(c, N("0"), p))
			}
			// nested lazies: thunks inside thunks
			for _, name2 := range []string{"if", "pick", "?:"} {
				mk2 := tris[name2]
				ts = append(ts,
					mk(c, mk2(b, Call("tr", N("1")), poisonN()), mk2(nb, Call("tr", N("2")), Call("tr", N("3")))),
					mk(c, mk2(nb, poisonN(), Call("tr", N("4"))), mk2(b, Call("tr", N("5")), poisonN())),
					mk(mk2(c, b, nb), Call("tr", N("6")), Call("tr", N("7"))),
				)
			}
		}
	}
	for _, op := range []string{"&&", "||", "and", "or"} {
		for _, c := range conds {
			ts = append(ts,
				Call(op, c, poisonB()),
				Call(op, c, Call("==", Call("tr", N("2")), N("2"))),
				Call(op, Call(op, c, Call(">", Call("tr", N("3")), N("0"))), poisonB()),
				Call(op, c, Call(op, Call("<", Call("tr", N("4")), N("0")), poisonB())),
				Call("!", Call(op, c, poisonB())),
				If(Call(op, c, poisonB()), Call("tr", N("1")), Call("tr", N("0"))),
				Call(op, c, Call(">", Sub(Var("xs"), N("99")), N("0"))),
				Call(op, c, Call("pick", c, poisonB(), Call("==", Call("tr", N("8")), N("8")))),
			)
		}
	}
	// the guarded partial operation of the property text
	ts = append(ts,
		If(Call("isset", Var("mp"), Q("x")), Sub(Var("mp"), Q("x")), N("0")),
		If(Call("isset", Var("mp"), Q("nope")), Sub(Var("mp"), Q("nope")), N("0")),
		If(Call("<", N("5"), Call("len", Var("xs"))), Sub(Var("xs"), N("5")), N("0")),
		Call("&&", Call("<", N("0"), Call("len", Var("xs"))), Call(">", Sub(Var("xs"), N("0")), N("0"))),
	)
	// strict operands: once, left to right
	tr := func(i int) *Term { return Call("tr", N(fmt.Sprint(i))) }
	trs := func(s string) *Term { return Call("trs", Q(s)) }
	ts = append(ts,
		Call("+", tr(1), tr(2)), Call("-", Call("*", tr(1), tr(2)), Call("/", tr(3), tr(4))),
		Call("max", tr(1), tr(2)), Call("^", tr(2), tr(3)), Call("==", tr(1), tr(2)), Call("<", tr(1), tr(2)),
		Call("%", tr(7), tr(0)), Call("%", tr(7), Call("boom", tr(1))),
		List(tr(1), tr(2), tr(3)), List(List(tr(1), tr(2)), List(tr(3))),
		MapLit(trs("k1"), tr(1), trs("k2"), tr(2)), MapLit(trs("k"), tr(1), trs("k"), tr(2)),
		ObjLit([]string{"a", "b"}, []*Term{tr(1), trs("x")}), ObjLit([]string{"b", "a"}, []*Term{trs("x"), tr(1)}),
		Member(ObjLit([]string{"b", "a"}, []*Term{trs("x"), tr(1)}), "a"),
		Sub(List(tr(1), tr(2)), tr(0)), Sub(List(tr(1), tr(2)), tr(5)), Sub(MapLit(trs("k"), tr(1)), trs("k")),
		Call("get", List(tr(1)), tr(0), tr(9)), Call("get", MapLit(trs("k"), tr(1)), trs("z"), tr(9)), Call("get", Var("on"), tr(9)),
		Call("union", List(tr(1), tr(2)), List(tr(2), tr(3))),
		Call("+", trs("a"), trs("b")), Call("match", trs("a"), trs("b")), Call("match", trs("("), trs("b")),
		Method("max", tr(1), tr(2)), Method("get", List(tr(1)), tr(0), tr(9)),
		Call("id", List(tr(1), Call("id", tr(2)))), Call("geta", ObjLit([]string{"a", "b"}, []*Term{tr(1), trs("x")})),
		Call("tr", Call("tr", Call("tr", N("1")))), Call("+", tr(1), Call("boom", tr(2))), Call("+", Call("boom", tr(1)), tr(2)),
		List(tr(1), Call("boom", N("0")), tr(3)), Call("len", List(tr(1), tr(2))), Call("string", List(tr(1), tr(2))),
		Call("print", tr(1)), Call("not", Call("==", tr(1), tr(2))), Call("abs", Call("-", tr(1))),
	)
	return Family{Name: "lazy-and-order", Terms: ts}
}

// FamStrings: string conversion, rune-counted length, literal decoding, match.
func FamStrings() Family {
	var ts []*Term
	for _, v := range sigmaOrder {
		ts = append(ts, Call("string", Var(v)), Call("len", Call("string", Var(v))), Method("string", Var(v)))
	}
	ts = append(ts,
		Call("string", List()), Call("string", MapLit()), Call("string", ObjLit(nil, nil)),
		Call("string", List(Var("o"), ObjLit([]string{"b", "a"}, []*Term{Q("z"), N("1")}))),
		Call("string", List(Var("xs"), List(N("1.5")))), Call("string", MapLit(Q("k"), Var("xs"))),
		Call("string", MapLit(Q("b"), N("1"), Q("a"), N("2"), Q("c"), N("3"))),
		Call("string", MapLit(N("2"), Q("x"), N("1"), Q("y"), N("10"), Q("z"))),
		Call("string", MapLit(Q("only"), N("1"))),
		Call("string", List(Var("mp"))), Call("string", ObjLit([]string{"m"}, []*Term{Var("mp")})),
		Call("string", Var("on")), Call("string", List(Var("on"))), Call("string", Call("get", Var("on"), N("0"))),
		Call("string", ObjLit([]string{"c", "a", "b"}, []*Term{N("1"), N("2"), N("3")})),
		Call("string", Call("string", N("1"))), Call("string", Bool(true)), Call("string", Q("é\"q")),
		Call("string", Call("/", N("1"), N("3"))), Call("string", Call("/", N("1"), N("0"))), Call("string", Call("-", N("0"))),
		Call("string", N("1e300")), Call("string", N("9223372036854775808")), Call("string", N("9007199254740993")),
		Call("string", N("1e21")), Call("string", N("1e-7")), Call("string", N("0.000001")), Call("string", N("123456789.125")),
		Call("string", Call("-", N("9223372036854775808"))), Call("string", N("9223372036854774784")),
		Call("string", List(N("1e300"))), Call("+", Call("string", N("2.50")), Q("x")),
	)
	for _, s := range []string{"", "a", "héllo", "日本語", "a\tb", "q\"q", "back\\slash", "🙂x", "é"} {
		ts = append(ts, Call("len", Q(s)), Q(s), Call("+", Q(s), Q("é")), Call("==", Q(s), Var("s")), Call("string", Q(s)),
			Call("len", Call("+", Q(s), Var("s"))), List(Q(s)))
	}
	// literal decoding
	for _, lit := range []string{"0", "7", "42", "0x1F", "0xff", "0b101", "0o17", "1e3", "1.5e-3", "0.5", "2.50", "1E2", "12345678901234567890", "0x0", "0b0", "1.0e+2"} {
		ts = append(ts, N(lit), Call("+", N(lit), N("1")), Call("string", N(lit)))
	}
	for _, lit := range []string{`"é"`, `"a\nb"`, `"t\tt"`, `"\\"`, `"\""`, "`raw\\n`", "`a\"b`", `"\b\f\r"`, `"中文"`} {
		ts = append(ts, Str(lit), Call("len", Str(lit)), Call("+", Str(lit), Q("!")))
	}
	// match: pattern first, subject second
	for _, p := range []string{"a", "^h", "l+o$", "[0-9]+", "(", "[a-", "a{2,1}", "\\d", "é", "", "^$", "(?i)HÉ", "*"} {
		ts = append(ts, Call("match", Q(p), Var("s")), Call("match", Q(p), Q("héllo 42")), Method("match", Q(p), Q("aa")))
	}
	ts = append(ts, Call("match", Var("s"), Q("(")), Call("match", Q("a"), Q("(")))
	return Family{Name: "strings-and-literals", Terms: ts}
}

// FamTime: time literals and strtotime for absolute forms, time operators.
func FamTime() Family {
	forms := []string{
		"2021-01-02 03:04:05", "2021-01-02", "2000-02-29 23:59:59", "1970-01-01 00:00:00", "2038-01-19 03:14:08",
		"2021-01-02T03:04:05", "2021-01-02T03:04:05Z", "2021-01-02T03:04:05+08:00", "2021-06-30T12:00:00-05:00",
		"2021-01-02 03:04", "2021/01/02 03:04:05", "2021/01/02", "@1609556645", "@0", "1999-12-31 23:59:59", "2021-01-02 03:04:05 UTC",
	}
	var ts []*Term
	for _, f := range forms {
		ts = append(ts,
			TimeLit(f), Call("strtotime", Q(f)),
			Call("==", TimeLit(f), Call("strtotime", Q(f))),
			Call("-", TimeLit(f), Var("t")), Call("-", Call("strtotime", Q(f)), TimeLit("2021-01-02 03:04:05")),
			Call("<", TimeLit(f), Var("t")), Call(">=", Call("strtotime", Q(f)), Var("t")),
			Call("string", TimeLit(f)),
		)
	}
	t := Var("t")
	for _, op := range []string{"==", "!=", "<", "<=", ">", ">="} {
		ts = append(ts, Call(op, t, t), Call(op, t, TimeLit("2021-01-02 03:04:05")), Call(op, TimeLit("2021-01-02 03:04:05"), TimeLit("2021-01-02T03:04:05Z")),
			Call(op, TimeLit("2021-01-02T11:04:05+08:00"), TimeLit("2021-01-02T03:04:05Z")))
	}
	ts = append(ts,
		Call("-", t, t), List(t, TimeLit("2000-01-01")), Call("==", List(t), List(TimeLit("2021-01-02 03:04:05"))),
		MapLit(t, N("1")), Sub(MapLit(t, N("1")), t), Call("isset", MapLit(TimeLit("2021-01-02 03:04:05"), N("1")), t),
		Call("union", List(t), List(TimeLit("2021-01-02 03:04:05"))),
		If(Call("<", t, TimeLit("2030-01-01")), Q("past"), Q("future")),
	)
	return Family{Name: "time-forms", Terms: ts}
}

// FamSetOps: union / intersect / diff / == / get / isset / subscripts over
// literals with duplicates and every index class.
func FamSetOps() Family {
	var ts []*Term
	lists := []*Term{
		List(), Var("xs"), Var("ss"), List(N("1"), N("2"), N("1"), N("3"), N("2")), List(N("3"), N("3")), List(N("2"), N("4")),
		List(Q("a"), Q("b"), Q("a")), List(Q("b"), Q("c")), List(Var("xs"), List(N("1")), Var("xs")), List(List(N("1"))),
		List(Var("on"), Var("on")), List(Bool(true), Bool(false), Bool(true)), List(Bool(false)),
		List(MapLit(Q("a"), N("1")), MapLit(Q("a"), N("1"))), List(MapLit(Q("a"), N("1"), Q("b"), N("2")), MapLit(Q("b"), N("2"), Q("a"), N("1"))),
		List(Var("o"), ObjLit([]string{"a", "b"}, []*Term{N("7"), Q("q")}), ObjLit([]string{"b", "a"}, []*Term{Q("q"), N("7")})),
		List(ObjLit([]string{"c", "a", "b"}, []*Term{N("1"), N("2"), N("3")}), ObjLit([]string{"a", "b", "c"}, []*Term{N("2"), N("3"), N("1")})),
		List(ObjLit([]string{"b", "c", "a"}, []*Term{N("3"), N("1"), N("2")})),
		List(N("0.1"), Call("-", N("0.3"), N("0.2")), N("5")), List(N("1"), N("1.5"), N("2.5"), N("1.5")),
	}
	for _, op := range []string{"union", "intersect", "diff", "==", "!="} {
		for _, x := range lists {
			for _, y := range lists {
				ts = append(ts, Call(op, x, y))
			}
			if op != "==" && op != "!=" {
				ts = append(ts, Call("len", Call(op, x, x)), Call(op, Call(op, x, x), x))
			}
		}
	}
	idx := []*Term{N("0"), N("1"), N("2"), N("3"), N("99"), Call("-", N("1")), N("0.5"), N("1.9"), Call("-", N("0.5")), N("1e300"), Call("/", N("1"), N("0")), Call("/", N("0"), N("0")), Call("-", N("1e300")), N("9223372036854775808")}
	for _, l := range []*Term{Var("xs"), List(N("10"), N("20"), N("30")), List(), Var("ss"), List(Q("a")), List(Var("o"))} {
		for _, i := range idx {
			ts = append(ts, Sub(l, i))
			switch l {
			default:
			}
		}
	}
	for _, i := range idx {
		ts = append(ts,
			Call("get", Var("xs"), i, N("9")), Call("get", List(N("10"), N("20"), N("30")), i, N("9")),
			Call("get", Var("ss"), i, Q("dflt")), Call("get", List(Var("o")), i, Var("o")), Method("get", Var("xs"), i, N("9")),
		)
	}
	keys := []*Term{Q("x"), Q("y"), Q("nope"), Q(""), Var("s"), Q("X")}
	for _, m := range []*Term{Var("mp"), MapLit(Q("x"), N("1")), MapLit(Q(""), N("0"), Q("x"), N("1"))} {
		for _, k := range keys {
			ts = append(ts, Sub(m, k), Call("get", m, k, N("9")), Call("isset", m, k), If(Call("isset", m, k), Sub(m, k), N("0")))
		}
		ts = append(ts, Call("len", m), Call("==", m, Var("mp")), Call("!=", m, m))
	}
	numKeys := []*Term{N("1"), N("1.0"), N("1.5"), N("0"), Call("-", N("0")), N("2"), N("9007199254740993"), N("1e300"), N("2e300")}
	nm := MapLit(N("1"), Q("one"), N("1.5"), Q("x"), N("0"), Q("zero"), N("9007199254740992"), Q("big"))
	for _, k := range numKeys {
		ts = append(ts, Sub(nm, k), Call("isset", nm, k), Call("get", nm, k, Q("d")))
	}
	ts = append(ts,
		Call("len", MapLit(N("1e300"), N("1"), N("2e300"), N("2"))), MapLit(N("1e300"), N("1"), N("2e300"), N("2")),
		Sub(MapLit(N("1e300"), N("1"), N("2e300"), N("2")), N("1e300")),
		Call("union", List(N("1e300")), List(N("2e300"))), Call("diff", List(N("1e300"), N("2e300")), List(N("2e300"))),
		Call("get", Var("on"), N("0")), Call("get", Var("on"), Var("n")), Call("+", Call("get", Var("on"), N("1")), N("1")),
		Call("max", Var("xs")), Call("min", Var("xs")), Call("max", List()), Call("len", List()), Call("len", MapLit()),
		Call("==", List(), List()), Call("==", MapLit(), MapLit()), Call("union", List(), List()), Call("string", Call("union", List(), List())),
		Call("len", List(List())), Sub(List(List()), N("0")), Call("id", List()), If(Var("b"), List(), List()),
		Call("string", Sub(List(), N("0"))), Call("id", Sub(List(), N("0"))),
	)
	return Family{Name: "containers-and-sets", Terms: ts}
}

func allFamilies(thorough bool) []Family {
	return []Family{FamObjectOrder(), FamDupKeys(), FamWide(thorough), FamBoundary(thorough), FamLazy(), FamStrings(), FamTime(), FamSetOps()}
}

var _ = time.Second
