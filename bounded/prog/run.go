package prog

// Drivers: Run(property, tier, seed) builds the input space, runs the check
// on all cores and returns the report.

import (
	"fmt"
	"math/rand"
	"os"
	"runtime"
	rtdebug "runtime/debug"
	"strconv"

	"bounded/report"
)

type Tier struct {
	Name     string
	MaxNodes int // exhaustive bound
	Random   int
	Depth    int
	Thorough bool
}

// Node bounds of the exhaustive part, measured on 16 idle cores (tier quick:
// the largest bound that runs in <= 20 s; thorough: one more).
var quickNodes = map[string]int{"C01": 5, "C02": 5, "C03": 5, "C04": 5, "C06": 5, "C10": 5, "C11": 5, "C16": 5, "C19": 4}

func tierOf(prop, name string) Tier {
	n := quickNodes[prop]
	if n == 0 {
		n = 4
	}
	if name == "thorough" {
		return Tier{Name: name, MaxNodes: n + 1, Random: 20000, Depth: 6, Thorough: true}
	}
	return Tier{Name: "quick", MaxNodes: n, Random: 2000, Depth: 6}
}

var Implemented = map[string]bool{"C01": true, "C02": true, "C03": true, "C04": true, "C06": true, "C10": true, "C16": true, "C11": true, "C19": true}

func nWorkers() int {
	if s := os.Getenv("VERIF_WORKERS"); s != "" {
		if n, err := strconv.Atoi(s); err == nil && n > 0 {
			return n
		}
	}
	n := runtime.NumCPU()
	if n > 16 {
		n = 16
	}
	return n
}

func Run(prop, tierName string, seed int64) (*report.Report, error) {
	if !Implemented[prop] {
		return nil, fmt.Errorf("property %s is not in harness group prog", prop)
	}
	tier := tierOf(prop, tierName)
	if s := os.Getenv("VERIF_MAXNODES"); s != "" {
		if n, err := strconv.Atoi(s); err == nil {
			tier.MaxNodes = n
		}
	}
	if os.Getenv("VERIF_WORKER") == "" && os.Getenv("VERIF_SINGLE") == "" {
		return coordinate(prop, tierName, seed)
	}
	rtdebug.SetGCPercent(400)
	MuteStdout()
	defer RestoreStdout()
	// the environments the harness assumes must be what conv really builds
	e := NewEngine()
	for _, g := range stdGroups() {
		if err := e.SelfCheck(g); err != nil {
			return nil, fmt.Errorf("harness self-check: %v", err)
		}
	}
	var r *report.Report
	switch prop {
	case "C01":
		r = runSemantic(prop, tier, seed, checkC01,
			"result of vm.Compile (switch loop), vm call-threaded loop (hook), closure.Compile, interp.Interp on one checked tree: hasType(result, types.Check(tree)) — dynamic type tyEq to the inferred type; every list element, map key / value, object field (matched by name), optional payload non-nil and of the declared component type")
	case "C02":
		r = runSemantic(prop, tier, seed, checkC02,
			"outcome class of each of the four back ends = outcome of the reference evaluator: a value, or index / key / modzero / regex failure exactly when the reference semantics says so; never an internal fault (nil dereference, Go index/slice error in a total function, 'unreachable', stack underflow, unknown opcode, interface conversion, execution limit); get-with-default never fails")
	case "C03":
		r = runSemantic(prop, tier, seed, checkC03,
			"the four back ends on one checked tree and one environment: val.Equals-equal values or all fail; identical trace of host-function calls (name + rendered arguments); only the VM may refuse at compile time, and only for capacity")
	case "C04":
		r = runSemantic(prop, tier, seed, checkC04,
			"value of every back end = value of the independent reference evaluator (DESIGN Appendix D): numbers equal as doubles, strings exact, times same instant, lists / maps / objects element-wise (objects by field name)")
	case "C06":
		r = runSemantic(prop, tier, seed, checkC06,
			"trace of host-function calls of every back end = trace of the reference evaluator (condition once, only the selected operand of if / ?: / && / || / and / or / user lazy function; strict operands once, left to right); a failing function in an unselected operand never runs")
	case "C10":
		r = runC10(tier, seed)
	case "C16":
		r = runC16(tier, seed)
	case "C11":
		r = runC11(tier, seed)
	case "C19":
		r = runC19(tier, seed)
	}
	r.Property = prop
	return r, nil
}

// IsWorker: this process is a worker of a coordinator; WriteWorker hands the
// raw result over instead of writing a report.
func IsWorker() bool { return os.Getenv("VERIF_WORKER") != "" }

func WriteWorker(path string, r *report.Report) error { return writeWorkerResult(path, r) }

var noSafe = os.Getenv("VERIF_NOSAFE") != "" // testing the coordinator only

var partialRun = os.Getenv("VERIF_SKIP") != "" || os.Getenv("VERIF_ONLY") != ""

var stdGroupsCache []*EnvGroup

func stdGroups() []*EnvGroup {
	if stdGroupsCache == nil {
		stdGroupsCache = SigmaGroups([]string{"V1", "V2"}, []SigmaVals{V1, V2}, "raw", "host")
	}
	return stdGroupsCache
}

var mapGroupsCache []*EnvGroup

func mapGroups() []*EnvGroup {
	if mapGroupsCache == nil {
		mapGroupsCache = SigmaGroups([]string{"V1", "V2"}, []SigmaVals{V1, V2}, "hostmap")
	}
	return mapGroupsCache
}

// corpus feeds the whole input space of the semantic properties to submit:
// exhaustive (≤ MaxNodes nodes), the directed families, seeded random.
func corpus(tier Tier, seed int64, barrier func(), submit func(t *Term, family string, groups []*EnvGroup)) (exhaustive int, families []string) {
	g := SigmaGrammar(false)
	size := 1
	g.All(tier.MaxNodes, func(t *Term) {
		if s := t.Size(); s != size {
			// all programs of the smaller sizes are done before a larger one starts
			barrier()
			size = s
		}
		exhaustive++
		submit(t, "exhaustive", nil)
	})
	barrier()
	for _, f := range allFamilies(tier.Thorough) {
		families = append(families, fmt.Sprintf("%s (%d)", f.Name, len(f.Terms)))
		for _, t := range f.Terms {
			submit(t, f.Name, f.Groups)
		}
	}
	rnd := rand.New(rand.NewSource(seed))
	mg := mapGroups()
	for i := 0; i < tier.Random; i++ {
		t := g.RandomProgram(rnd, tier.Depth)
		if i%4 == 3 {
			// every fourth random program also through a Go map environment
			submit(t, "random", append(append([]*EnvGroup{}, stdGroups()...), mg...))
		} else {
			submit(t, "random", nil)
		}
	}
	return
}

func runSemantic(prop string, tier Tier, seed int64, check CheckFn, contract string) *report.Report {
	r := &report.Report{Contract: contract}
	std := stdGroups()
	pool := NewPool(prop, func(w *Worker, c *Case) {
		w.process(c, std, check)
	})
	var samples []string
	nEx, fams := corpus(tier, seed, pool.Barrier, func(t *Term, family string, groups []*EnvGroup) {
		if t.Size() >= 4 && len(samples) < 4000 {
			samples = append(samples, t.Render(MPlain))
		}
		pool.Submit(t, family, groups)
	})
	pool.Close()
	pool.Merge(r)
	fillSpace(r, tier, seed, nEx, fams)
	pickSamples(r, samples)
	return r
}

// process: one case of a semantic property.
func (w *Worker) process(c *Case, std []*EnvGroup, check CheckFn) {
	groups := c.Groups
	if groups == nil {
		groups = std
	}
	t := c.T.Clone()
	w.noteProgram(t)
	// in the exhaustive part every sub-program has been a program of a smaller
	// size before (barrier between sizes) unless cases are being skipped
	exhaustive := c.Family == "exhaustive" && !partialRun
	for _, g := range groups {
		if _, err := RefCheck(t, g.Gamma); err != nil {
			// not a program of this environment (e.g. `on` in a map environment)
			continue
		}
		if u := w.unsafeSub(t, g, exhaustive); u != nil && !noSafe {
			// a sub-program yields an ill-typed value: check the contract on it
			w.blocked++
			sub := &Case{Seq: c.Seq, T: u.T, Family: c.Family + ", as sub-program of " + trunc(t.Src(), 160)}
			for _, ir := range u.Insts {
				if v := check(w, u, ir); v != nil {
					w.report(sub, u, ir, v, check)
				}
			}
			continue
		}
		cr := w.Eval(t, g, nil)
		if !w.usable(cr) {
			continue
		}
		if w.c01Bad(cr) {
			markUnsafe(g, cr.T.Src())
		}
		for _, ir := range cr.Insts {
			if ir.Ref.Unspec {
				w.unspec++
			}
			if v := check(w, cr, ir); v != nil {
				w.report(c, cr, ir, v, attrCheckOf(w.prop, check))
			}
		}
	}
}

func attrCheckOf(prop string, check CheckFn) CheckFn {
	if prop == "C06" {
		return checkC06attr
	}
	return check
}

func pickSamples(r *report.Report, samples []string) {
	for i := 0; i < 40 && len(r.Samples) < 8 && len(samples) > 0; i++ {
		s := samples[(i*977+13)%len(samples)]
		if len(s) < 200 {
			r.Sample(s)
		}
	}
}

func fillSpace(r *report.Report, tier Tier, seed int64, nEx int, fams []string) {
	r.Space = fmt.Sprintf("(a) EXHAUSTIVE: all %d well-typed terms with at most %d AST nodes over the fixed signature Σ of DESIGN §4 (11 variables, literal pool 0/1/2.5/\"a\"/\"é\"/true/false/2 times/[]/[:], every built-in and operator of the README plus the host functions and/or/not/tr/trs/id/pick/geta/boom, list / map / object literals with every field order, member and subscript access; type universe bool,num,str,time,list[num],list[str],list[{a,b}],map[str,num],{a:num,b:str},{p,q},maybe[num],list[⊥],map[⊥,⊥]); (b) directed families, each fully enumerated: %v; (c) %d seeded random programs (seed %d) of depth ≤ %d with mixed notations. Environments: Σ supplied through the raw val.Env API and through a Go host struct via conv whose object fields are declared in the opposite order (b,a / q,p), two value assignments each (ordinary; empty containers, absent optional); boundary family: n,k over the grid of %d boundary doubles; every fourth random program also through a Go map via conv.",
		nEx, tier.MaxNodes, fams, tier.Random, seed, tier.Depth, len(boundaryGrid))
	r.Bound = fmt.Sprintf("exhaustive part: ≤ %d AST nodes (tier %s); random part: %d programs, depth ≤ %d; literals ≤ 300 members (thorough: 70 000)", tier.MaxNodes, tier.Name, tier.Random, tier.Depth)
	r.Rule = "a case is one (program text, environment) pair evaluated on all four back ends (evaluations); distinct_nontrivial counts distinct program texts containing at least one operator / call / member / subscript node"
	r.Exhaustive = true // refers to part (a) only, as stated in space / bound
	r.Notes = append(r.Notes, fmt.Sprintf("exhaustive only for part (a) (%d terms, node bound %d); parts (b) and (c) are samples", nEx, tier.MaxNodes))
}
