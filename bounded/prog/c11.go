package prog

// C11: an independent abstract interpreter over the emitted bytecode.  The
// instruction table is written from DESIGN Appendix B by opcode NAME (the
// numbering is read through the hook), not taken from the VM loops.

import (
	"fmt"
	"math/rand"
	"strings"

	"bounded/report"

	"github.com/goghcrow/yae/types"
	"github.com/goghcrow/yae/val"
	"github.com/goghcrow/yae/vm"
)

type opnd int

const (
	oConstVal  opnd = iota // u16 constant index: *val.Val
	oConstName             // u16 constant index: string
	oConstList             // u16 constant index: *types.Type of kind list
	oConstMap
	oConstObj
	oConstFun // u16 constant index: *val.Val of kind fun
	oCount    // u16 member count
	oIndex    // u16 field index
	oTarget   // u16 jump target
	oArgc     // u8
)

func (o opnd) width() int {
	if o == oArgc {
		return 1
	}
	return 2
}

type opSpec struct {
	operands []opnd
	pops     int // fixed part; variable part computed from the operands
	pushes   int
	kind     string // "", "return", "jump", "branch", "list", "map", "obj", "callv", "calln", "dyn"
}

var opTable = map[string]opSpec{}

func init() {
	un := opSpec{pops: 1, pushes: 1}
	bin := opSpec{pops: 2, pushes: 1}
	opTable["OP_NOP"] = opSpec{}
	opTable["OP_RETURN"] = opSpec{pops: 1, kind: "return"}
	opTable["OP_CONST"] = opSpec{operands: []opnd{oConstVal}, pushes: 1}
	opTable["OP_LOAD"] = opSpec{operands: []opnd{oConstName}, pushes: 1}
	for _, n := range strings.Fields("ADD_NUM SUB_NUM ABS_NUM CEIL_NUM FLOOR_NUM ROUND_NUM LOGICAL_NOT LEN_STR LEN_LIST LEN_MAP STRTOTIME_STR") {
		opTable["OP_"+n] = un
	}
	for _, n := range strings.Fields(`ADD_NUM_NUM ADD_STR_STR SUB_NUM_NUM SUB_TIME_TIME MUL_NUM_NUM DIV_NUM_NUM MOD_NUM_NUM EXP_NUM_NUM MIN_NUM_NUM MAX_NUM_NUM
		EQ_NUM_NUM EQ_BOOL_BOOL EQ_STR_STR EQ_TIME_TIME EQ_LIST_LIST EQ_MAP_MAP NE_NUM_NUM NE_BOOL_BOOL NE_STR_STR NE_TIME_TIME NE_LIST_LIST NE_MAP_MAP
		LT_NUM_NUM LT_TIME_TIME LE_NUM_NUM LE_TIME_TIME GT_NUM_NUM GT_TIME_TIME GE_NUM_NUM GE_TIME_TIME LIST_LOAD MAP_LOAD GET_MAYBE`) {
		opTable["OP_"+n] = bin
	}
	opTable["OP_NEW_LIST"] = opSpec{operands: []opnd{oConstList, oCount}, pushes: 1, kind: "list"}
	opTable["OP_NEW_MAP"] = opSpec{operands: []opnd{oConstMap, oCount}, pushes: 1, kind: "map"}
	opTable["OP_NEW_OBJ"] = opSpec{operands: []opnd{oConstObj}, pushes: 1, kind: "obj"}
	opTable["OP_OBJ_LOAD"] = opSpec{operands: []opnd{oIndex}, pops: 1, pushes: 1}
	opTable["OP_CALL_BY_VALUE"] = opSpec{operands: []opnd{oConstFun, oArgc}, pushes: 1, kind: "callv"}
	opTable["OP_CALL_BY_NEED"] = opSpec{operands: []opnd{oConstFun, oArgc}, pushes: 1, kind: "calln"}
	opTable["OP_DYNAMIC_CALL"] = opSpec{operands: []opnd{oArgc}, pops: 1, pushes: 1, kind: "dyn"}
	opTable["OP_IF_TRUE"] = opSpec{operands: []opnd{oTarget}, pops: 1, kind: "branch"}
	opTable["OP_JUMP"] = opSpec{operands: []opnd{oTarget}, kind: "jump"}
}

type bcViolation struct {
	clause, class, detail string
}

type insn struct {
	pc, next int
	name     string
	spec     opSpec
	vals     []int // operand values
	pops     int
}

// analyse checks one code body against the shared constant pool.
func analyse(code []byte, consts []interface{}, what string) (thunks []int, v *bcViolation) {
	end := vm.VerifOpcodeEnd()
	var ins []insn
	at := map[int]int{} // pc -> index in ins
	// --- complete decode
	for pc := 0; pc < len(code); {
		op := code[pc]
		if int(op) >= end {
			return nil, &bcViolation{"unknown-opcode", "byte", fmt.Sprintf("%s: byte %d at pc %d is not an instruction", what, op, pc)}
		}
		name := vm.VerifOpcodeName(op)
		spec, ok := opTable[name]
		if !ok {
			return nil, &bcViolation{"unknown-opcode", name, fmt.Sprintf("%s: opcode %s at pc %d is not in the instruction table", what, name, pc)}
		}
		in := insn{pc: pc, name: name, spec: spec, pops: spec.pops}
		p := pc + 1
		for _, o := range spec.operands {
			if p+o.width() > len(code) {
				return nil, &bcViolation{"operand-outside-code", name, fmt.Sprintf("%s: operand of %s at pc %d runs past the end of the code", what, name, pc)}
			}
			x := int(code[p])
			if o.width() == 2 {
				x = int(code[p])<<8 | int(code[p+1])
			}
			p += o.width()
			in.vals = append(in.vals, x)
			// constant operands: in range and of the right kind
			switch o {
			case oConstVal, oConstName, oConstList, oConstMap, oConstObj, oConstFun:
				if x >= len(consts) {
					return nil, &bcViolation{"constant-index-out-of-range", name, fmt.Sprintf("%s: %s at pc %d refers to constant %d of %d", what, name, pc, x, len(consts))}
				}
				c := consts[x]
				bad := ""
				switch o {
				case oConstVal:
					if vv, ok := c.(*val.Val); !ok || vv == nil || vv.Type == nil {
						bad = "a value"
					} else if _, isThunk := vm.VerifThunkBody(c); isThunk {
						thunks = append(thunks, x)
					}
				case oConstName:
					if s, ok := c.(string); !ok || s == "" {
						bad = "a variable name"
					}
				case oConstList, oConstMap, oConstObj:
					want := map[opnd]types.Kind{oConstList: types.KList, oConstMap: types.KMap, oConstObj: types.KObj}[o]
					if ty, ok := c.(*types.Type); !ok || ty == nil || ty.Kind != want {
						bad = "a " + want.String() + " type"
					}
				case oConstFun:
					if vv, ok := c.(*val.Val); !ok || vv == nil || vv.Type == nil || vv.Type.Kind != types.KFun {
						bad = "a function value"
					}
				}
				if bad != "" {
					return nil, &bcViolation{"constant-kind", name, fmt.Sprintf("%s: %s at pc %d needs %s, constant %d is %T", what, name, pc, bad, x, c)}
				}
			}
		}
		in.next = p
		// variable pops / operand consistency
		switch spec.kind {
		case "list":
			in.pops = in.vals[1]
		case "map":
			in.pops = 2 * in.vals[1]
		case "obj":
			in.pops = len(consts[in.vals[0]].(*types.Type).Obj().Fields)
		case "callv", "calln":
			f := consts[in.vals[0]].(*val.Val).Fun()
			in.pops = in.vals[1]
			if n := len(f.Type.Fun().Param); n != in.vals[1] {
				return nil, &bcViolation{"argument-count", name, fmt.Sprintf("%s: %s at pc %d passes %d arguments to %s", what, name, pc, in.vals[1], f.Type)}
			}
			if f.Lazy != (spec.kind == "calln") {
				return nil, &bcViolation{"constant-kind", name, fmt.Sprintf("%s: %s at pc %d calls %s (lazy=%v)", what, name, pc, f.Type, f.Lazy)}
			}
		case "dyn":
			in.pops = 1 + in.vals[0]
		}
		at[pc] = len(ins)
		ins = append(ins, in)
		pc = p
	}
	if len(ins) == 0 {
		return nil, &bcViolation{"empty-code", "code", what + ": no instructions"}
	}
	// --- jumps: forward, to an instruction boundary inside the code
	for _, in := range ins {
		if in.spec.kind == "jump" || in.spec.kind == "branch" {
			tg := in.vals[0]
			if tg >= len(code) {
				return nil, &bcViolation{"jump-outside-code", in.name, fmt.Sprintf("%s: %s at pc %d targets %d, code length %d", what, in.name, in.pc, tg, len(code))}
			}
			if _, ok := at[tg]; !ok {
				return nil, &bcViolation{"jump-target-not-an-instruction", in.name, fmt.Sprintf("%s: %s at pc %d targets %d, inside an instruction", what, in.name, in.pc, tg)}
			}
			if tg <= in.pc {
				return nil, &bcViolation{"jump-not-forward", in.name, fmt.Sprintf("%s: %s at pc %d targets %d", what, in.name, in.pc, tg)}
			}
		}
	}
	// --- stack depth: one value per pc on every path (forward-only code: one pass)
	depth := map[int]int{0: 0}
	setDepth := func(from insn, pc, d int) *bcViolation {
		if pc >= len(code) {
			return &bcViolation{"falls-off-the-end", from.name, fmt.Sprintf("%s: control leaves the code after %s at pc %d", what, from.name, from.pc)}
		}
		if old, ok := depth[pc]; ok && old != d {
			return &bcViolation{"stack-depth-differs-between-paths", from.name, fmt.Sprintf("%s: pc %d reached with depth %d and %d", what, pc, old, d)}
		}
		depth[pc] = d
		return nil
	}
	returned := false
	for _, in := range ins {
		d, reachable := depth[in.pc]
		if !reachable {
			continue // dead code (none is expected, none is an error)
		}
		if d < in.pops {
			return nil, &bcViolation{"stack-underflow", in.name, fmt.Sprintf("%s: %s at pc %d pops %d with depth %d", what, in.name, in.pc, in.pops, d)}
		}
		nd := d - in.pops + in.spec.pushes
		switch in.spec.kind {
		case "return":
			if d != 1 {
				return nil, &bcViolation{"depth-at-return", in.name, fmt.Sprintf("%s: depth %d at RETURN (pc %d)", what, d, in.pc)}
			}
			returned = true
		case "jump":
			if v := setDepth(in, in.vals[0], nd); v != nil {
				return nil, v
			}
		case "branch":
			if v := setDepth(in, in.vals[0], nd); v != nil {
				return nil, v
			}
			if v := setDepth(in, in.next, nd); v != nil {
				return nil, v
			}
		default:
			if v := setDepth(in, in.next, nd); v != nil {
				return nil, v
			}
		}
	}
	if !returned {
		return nil, &bcViolation{"no-return", "code", what + ": no reachable RETURN"}
	}
	return thunks, nil
}

// analyseProgram: the program and, transitively, every thunk body.
func analyseProgram(p vm.VerifProgram) (bodies int, v *bcViolation) {
	done := map[int]bool{}
	queue, v := analyse(p.Code, p.Consts, "program")
	bodies = 1
	if v != nil {
		return
	}
	for len(queue) > 0 {
		x := queue[0]
		queue = queue[1:]
		if done[x] {
			continue
		}
		done[x] = true
		code, _ := vm.VerifThunkBody(p.Consts[x])
		more, v := analyse(code, p.Consts, fmt.Sprintf("thunk body (constant %d)", x))
		bodies++
		if v != nil {
			return bodies, v
		}
		queue = append(queue, more...)
	}
	return bodies, nil
}

func (w *Worker) processC11(c *Case, groups []*EnvGroup) {
	t := c.T.Clone()
	w.noteProgram(t)
	for _, g := range groups {
		if _, err := RefCheck(t, g.Gamma); err != nil {
			continue
		}
		comp := w.eng.CompileSrc(t.Src(), w.eng.TypeEnv(g))
		if !comp.OK() {
			if comp.Stage == "check" {
				w.yaeRejects++
			} else {
				w.parseErrors++
			}
			continue
		}
		var p vm.VerifProgram
		if m := guard(func() { p = vm.VerifCompileBytecode(comp.CoreAST, w.eng.renv) }); m != "" {
			if strings.Contains(m, "overflow") {
				w.counters["capacity-refusals"]++
				if wide := t.Size() > 255; !wide {
					w.addFinding(c.Seq, t.Size(), report.Failure{Key: "C11/compile-refusal/small-program", Input: trunc(comp.Src, 300),
						Expected: "bytecode (no operand of this program exceeds 8 / 16 bits)", Got: "refused: " + m, Detail: "[" + c.Family + "]"})
				}
			} else {
				w.addFinding(c.Seq, t.Size(), report.Failure{Key: "C11/compiler-panics/" + classOf(t, ""), Input: trunc(comp.Src, 300),
					Expected: "bytecode", Got: "vm compiler panics: " + trunc(m, 200), Detail: "[" + c.Family + "]"})
			}
			continue
		}
		w.evals++
		bodies, v := analyseProgram(p)
		w.counters["code-bodies-checked"] += bodies
		w.counters["bytes-checked"] += len(p.Code)
		if v != nil {
			w.addFinding(c.Seq, t.Size(), report.Failure{Key: "C11/" + v.clause + "/" + v.class, Input: trunc(comp.Src, 400) + "   | env types " + g.Key,
				Expected: "structurally safe, forward-only bytecode (DESIGN Appendix B)", Got: v.detail, Detail: "[" + c.Family + "]"})
		}
	}
}

func runC11(tier Tier, seed int64) *report.Report {
	r := &report.Report{Contract: "for the code bytes and constant pool of every compiled program and, transitively, of every thunk body (hook accessors): complete decode into known opcodes (instruction table written from DESIGN Appendix B, by opcode name); every constant operand in range and of the right kind (value / name / list, map, object type / strict or lazy function with matching argument count); every jump targets a later instruction boundary inside the code; the stack depth is the same on every path to a pc, never below what the instruction pops, exactly one at RETURN; no path leaves the code"}
	r.Notes = append(r.Notes, c11Canary())
	std := stdGroups()
	pool := NewPool("C11", func(w *Worker, c *Case) {
		groups := c.Groups
		if groups == nil {
			groups = std
		}
		w.processC11(c, groups[:1])
	})
	var samples []string
	nEx, fams := corpus(tier, seed, func() {}, func(t *Term, family string, groups []*EnvGroup) {
		if family == "boundary-numerics" {
			groups = nil // values are irrelevant for the emitted code
		}
		if t.Size() >= 4 && len(samples) < 4000 {
			samples = append(samples, t.Render(MPlain))
		}
		pool.Submit(t, family, groups)
	})
	// extra: nested lazies and wide literals beyond 16 bits
	rnd := rand.New(rand.NewSource(seed + 1))
	g := SigmaGrammar(false)
	extra := 0
	for i := 0; i < tier.Random; i++ {
		t := g.RandomProgram(rnd, tier.Depth+1)
		pool.Submit(t, "random-deeper", nil)
		extra++
	}
	if tier.Thorough {
		es := make([]*Term, 65536)
		for i := range es {
			es[i] = Var("n")
		}
		pool.Submit(Call("len", List(es...)), "wide-and-long", nil)
	}
	pool.Close()
	pool.Merge(r)
	fillSpace(r, tier, seed, nEx, fams)
	r.Space += fmt.Sprintf(" For C11 the programs are only compiled (raw Σ typing environment) and their bytecode analysed; plus %d random programs of depth ≤ %d.", extra, tier.Depth+1)
	r.Rule = "a case is one compiled program whose code and all thunk bodies are analysed (evaluations); distinct_nontrivial counts distinct program texts with at least one operator / call / access node"
	pickSamples(r, samples)
	return r
}

// c11Canary: the analyser must reject corrupted code (vacuity guard).
func c11Canary() string {
	e := NewEngine()
	g := stdGroups()[0]
	comp := e.CompileSrc("if(b, n + 1, pick(b, k, xs[0]))", e.TypeEnv(g))
	if !comp.OK() {
		return "canary: could not compile the canary program"
	}
	p := vm.VerifCompileBytecode(comp.CoreAST, e.renv)
	if _, v := analyseProgram(p); v != nil {
		return "canary: the unmodified canary program is rejected: " + v.detail
	}
	rejected, total := 0, 0
	try := func(code []byte) {
		total++
		q := vm.VerifProgram{Code: code, Consts: p.Consts}
		if _, v := analyseProgram(q); v != nil {
			rejected++
		}
	}
	cp := func() []byte { return append([]byte{}, p.Code...) }
	c1 := cp()
	c1[0] = 200 // not an instruction
	try(c1)
	try(p.Code[:len(p.Code)-1]) // RETURN dropped
	c3 := cp()
	c3[len(c3)-1] = p.Code[0] // RETURN replaced by the first opcode (operands run off the end)
	try(c3)
	for pc := 0; pc < len(p.Code); pc++ { // retarget the first jump backwards / into an operand
		if vm.VerifOpcodeName(p.Code[pc]) == "OP_IF_TRUE" {
			c4 := cp()
			c4[pc+1], c4[pc+2] = 0, 0
			try(c4)
			c5 := cp()
			c5[pc+2]++
			try(c5)
			break
		}
		if n := vm.VerifOpcodeName(p.Code[pc]); n == "OP_LOAD" || n == "OP_CONST" {
			pc += 2
		}
	}
	c6 := cp()
	c6[0] = p.Code[len(p.Code)-1] // RETURN first: empty stack
	try(c6)
	return fmt.Sprintf("canary: %d of %d corrupted variants of a compiled program are rejected by the analyser, the original is accepted", rejected, total)
}
