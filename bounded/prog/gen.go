package prog

// Program enumerator: type-directed construction of well-typed terms over the
// fixed signature Σ.  Exhaustive by node count, and seeded random by depth.

import (
	"math/rand"
	"sort"
)

// prod: one way to build a term of type Res from children of types Kids.
type prod struct {
	Res   *Ty
	Kids  []*Ty
	Build func(kids []*Term) *Term
	W     int // weight for random generation
}

type Grammar struct {
	U      []*Ty // type universe
	byRes  map[string][]*prod
	leaves map[string][]*Term
	memo   map[string][][]*Term // canon type -> size -> terms
	minD   map[string]int
}

func (g *Grammar) inU(t *Ty) bool {
	for _, u := range g.U {
		if EqPos(u, t) {
			return true
		}
	}
	return false
}

func (g *Grammar) add(p *prod) {
	k := p.Res.String()
	if p.W == 0 {
		p.W = 1
	}
	g.byRes[k] = append(g.byRes[k], p)
}

func (g *Grammar) leaf(ty *Ty, ts ...*Term) {
	k := ty.String()
	g.leaves[k] = append(g.leaves[k], ts...)
}

// instantiate enumerates the instantiations of a signature over the universe
// such that every parameter type and the result type lie in the universe.
func (g *Grammar) instantiate(s *Sig, f func(params []*Ty, ret *Ty)) {
	vars := map[string]bool{}
	var collect func(t *Ty)
	collect = func(t *Ty) {
		switch t.K {
		case KVar:
			vars[t.Var] = true
		case KList, KMaybe:
			collect(t.El)
		case KMap:
			collect(t.Key)
			collect(t.El)
		case KObj:
			for _, fl := range t.Fs {
				collect(fl.T)
			}
		}
	}
	for _, p := range s.Params {
		collect(p)
	}
	collect(s.Ret)
	names := make([]string, 0, len(vars))
	for v := range vars {
		names = append(names, v)
	}
	sort.Strings(names)
	// candidate bindings: universe types plus bot
	cands := append([]*Ty{}, g.U...)
	cands = append(cands, TBot)
	sub := map[string]*Ty{}
	var rec func(i int)
	rec = func(i int) {
		if i == len(names) {
			ps := make([]*Ty, len(s.Params))
			for j, p := range s.Params {
				ps[j] = subst(p, sub)
				if !g.inU(ps[j]) {
					return
				}
			}
			r := subst(s.Ret, sub)
			if !g.inU(r) {
				return
			}
			// the instantiation must be what overload resolution picks
			if rs, _ := Resolve(s.Name, ps); rs != s {
				return
			}
			f(ps, r)
			return
		}
		for _, c := range cands {
			sub[names[i]] = c
			rec(i + 1)
		}
		delete(sub, names[i])
	}
	rec(0)
}

// NewGrammar builds the grammar over a type universe U and an environment:
// variables and the literal pool as leaves; every instantiation (within U) of
// every registered function / operator; list, map and object literals (every
// field order) of the literal-able types of U; member and subscript access.
func NewGrammar(U []*Ty, gamma Gamma, order []string) *Grammar {
	g := &Grammar{
		U:      U,
		byRes:  map[string][]*prod{},
		leaves: map[string][]*Term{},
		memo:   map[string][][]*Term{},
	}
	for _, n := range order {
		if g.inU(gamma[n]) {
			g.leaf(gamma[n], Var(n))
		}
	}
	g.leaf(TNum, Num("0"), Num("1"), Num("2.5"))
	g.leaf(TStr, Str(`"a"`), Str(`"é"`))
	g.leaf(TBool, Bool(true), Bool(false))
	g.leaf(TTime, TimeLit("2021-01-02 03:04:05"), TimeLit("2000-01-01"))
	LBot, MBot := ListOf(TBot), MapOf(TBot, TBot)
	if g.inU(LBot) {
		g.leaf(LBot, List())
	}
	if g.inU(MBot) {
		g.leaf(MBot, MapLit())
	}
	// applications of every registered function / operator
	for _, s := range sigList {
		s := s
		g.instantiate(s, func(ps []*Ty, r *Ty) {
			g.add(&prod{Res: r, Kids: ps, W: 3, Build: func(k []*Term) *Term { return Call(s.Name, k...) }})
		})
	}
	for _, ty := range U {
		ty := ty
		switch ty.K {
		case KList:
			if ty.El.K == KBot || !g.inU(ty.El) {
				continue
			}
			for n := 1; n <= 3; n++ {
				kids := make([]*Ty, n)
				for i := range kids {
					kids[i] = ty.El
				}
				g.add(&prod{Res: ty, Kids: kids, Build: func(k []*Term) *Term { return List(k...) }})
			}
			g.add(&prod{Res: ty.El, Kids: []*Ty{ty, TNum}, W: 3, Build: func(k []*Term) *Term { return Sub(k[0], k[1]) }})
		case KMap:
			if ty.Key.K == KBot || !g.inU(ty.El) {
				continue
			}
			for n := 1; n <= 2; n++ {
				kids := make([]*Ty, 0, 2*n)
				for i := 0; i < n; i++ {
					kids = append(kids, ty.Key, ty.El)
				}
				g.add(&prod{Res: ty, Kids: kids, Build: func(k []*Term) *Term { return MapLit(k...) }})
			}
			g.add(&prod{Res: ty.El, Kids: []*Ty{ty, ty.Key}, W: 3, Build: func(k []*Term) *Term { return Sub(k[0], k[1]) }})
		case KObj:
			ok := true
			for _, f := range ty.Fs {
				if !g.inU(f.T) {
					ok = false
				}
			}
			if !ok {
				continue
			}
			perms(len(ty.Fs), func(p []int) {
				p = append([]int{}, p...)
				kids := make([]*Ty, len(p))
				names := make([]string, len(p))
				for i, j := range p {
					kids[i] = ty.Fs[j].T
					names[i] = ty.Fs[j].Name
				}
				g.add(&prod{Res: ty, Kids: kids, W: 2, Build: func(k []*Term) *Term { return ObjLit(names, k) }})
			})
			for _, f := range ty.Fs {
				f := f
				g.add(&prod{Res: f.T, Kids: []*Ty{ty}, W: 3, Build: func(k []*Term) *Term { return Member(k[0], f.Name) }})
			}
		}
	}
	return g
}

// SigmaGrammar: the grammar of the exhaustive space over Σ (built over the
// raw Γ; the programs are the same texts for the host environments).
func SigmaGrammar(withBoundaryLits bool) *Grammar {
	LN, LS, LO := ListOf(TNum), ListOf(TStr), ListOf(tyO)
	U := []*Ty{TBool, TNum, TStr, TTime, LN, LS, LO, MapOf(TStr, TNum), tyO, tyOO, MaybeOf(TNum), ListOf(TBot), MapOf(TBot, TBot)}
	return NewGrammar(U, sigmaGamma(false), sigmaOrder)
}

func perms(n int, f func([]int)) {
	p := make([]int, n)
	for i := range p {
		p[i] = i
	}
	var rec func(k int)
	rec = func(k int) {
		if k == n {
			f(p)
			return
		}
		for i := k; i < n; i++ {
			p[k], p[i] = p[i], p[k]
			rec(k + 1)
			p[k], p[i] = p[i], p[k]
		}
	}
	rec(0)
}

// Terms: all terms of type ty with exactly n nodes (memoised).
func (g *Grammar) Terms(ty *Ty, n int) []*Term {
	k := ty.String()
	for len(g.memo[k]) <= n {
		g.memo[k] = append(g.memo[k], nil)
	}
	if g.memo[k][n] != nil {
		return g.memo[k][n]
	}
	out := []*Term{}
	if n == 1 {
		out = append(out, g.leaves[k]...)
	} else {
		g.each(ty, n, func(t *Term) { out = append(out, t) })
	}
	for len(g.memo[k]) <= n {
		g.memo[k] = append(g.memo[k], nil)
	}
	g.memo[k][n] = out
	return out
}

// each streams all terms of type ty with exactly n > 1 nodes.
func (g *Grammar) each(ty *Ty, n int, f func(*Term)) {
	for _, p := range g.byRes[ty.String()] {
		if len(p.Kids) == 0 || len(p.Kids) > n-1 {
			continue
		}
		kids := make([]*Term, len(p.Kids))
		var rec func(i, left int)
		rec = func(i, left int) {
			if i == len(p.Kids)-1 {
				for _, t := range g.Terms(p.Kids[i], left) {
					kids[i] = t
					f(p.Build(append([]*Term{}, kids...)))
				}
				return
			}
			rest := len(p.Kids) - 1 - i
			for sz := 1; sz <= left-rest; sz++ {
				for _, t := range g.Terms(p.Kids[i], sz) {
					kids[i] = t
					rec(i+1, left-sz)
				}
			}
		}
		rec(0, n-1)
	}
}

// All streams every term of every universe type with at most n nodes,
// smallest first.  Sizes below n are memoised, size n is streamed.
func (g *Grammar) All(n int, f func(*Term)) {
	for sz := 1; sz <= n; sz++ {
		for _, ty := range g.U {
			if sz == 1 {
				for _, t := range g.Terms(ty, 1) {
					f(t)
				}
			} else if sz < n {
				for _, t := range g.Terms(ty, sz) {
					f(t)
				}
			} else {
				g.each(ty, sz, f)
			}
		}
	}
}

// minDepth: the smallest depth of a term of each type (fixpoint).
func (g *Grammar) minDepths() map[string]int {
	if g.minD != nil {
		return g.minD
	}
	md := map[string]int{}
	for k, ls := range g.leaves {
		if len(ls) > 0 {
			md[k] = 1
		}
	}
	for changed := true; changed; {
		changed = false
		for k, ps := range g.byRes {
			for _, p := range ps {
				d, ok := g.prodDepth(p, md)
				if !ok {
					continue
				}
				if old, has := md[k]; !has || d < old {
					md[k] = d
					changed = true
				}
			}
		}
	}
	g.minD = md
	return md
}

func (g *Grammar) prodDepth(p *prod, md map[string]int) (int, bool) {
	d := 0
	for _, kt := range p.Kids {
		kd, ok := md[kt.String()]
		if !ok {
			return 0, false
		}
		if kd > d {
			d = kd
		}
	}
	return d + 1, true
}

// Random builds a random term of type ty with depth at most d (or the
// minimal depth of the type if that is larger).
func (g *Grammar) Random(r *rand.Rand, ty *Ty, d int) *Term {
	md := g.minDepths()
	k := ty.String()
	ls := g.leaves[k]
	if len(ls) > 0 && (d <= 1 || r.Intn(4) == 0) {
		return ls[r.Intn(len(ls))]
	}
	var fit []*prod
	total := 0
	for _, p := range g.byRes[k] {
		if pd, ok := g.prodDepth(p, md); ok && pd <= d {
			fit = append(fit, p)
			total += p.W
		}
	}
	if len(fit) == 0 {
		if len(ls) > 0 {
			return ls[r.Intn(len(ls))]
		}
		// deeper than asked for: the shallowest production
		var best *prod
		bd := 0
		for _, p := range g.byRes[k] {
			if pd, ok := g.prodDepth(p, md); ok && (best == nil || pd < bd) {
				best, bd = p, pd
			}
		}
		kids := make([]*Term, len(best.Kids))
		for i, kt := range best.Kids {
			kids[i] = g.Random(r, kt, bd-1)
		}
		return best.Build(kids)
	}
	x := r.Intn(total)
	var p *prod
	for _, q := range fit {
		if x < q.W {
			p = q
			break
		}
		x -= q.W
	}
	kids := make([]*Term, len(p.Kids))
	for i, kt := range p.Kids {
		kids[i] = g.Random(r, kt, d-1)
	}
	return p.Build(kids)
}

// RandomProgram: a random term of a random universe type; some operator
// applications are switched to the alternative notations.
func (g *Grammar) RandomProgram(r *rand.Rand, depth int) *Term {
	ty := g.U[r.Intn(len(g.U))]
	t := g.Random(r, ty, depth).Clone()
	t.Walk(func(x *Term) {
		if x.K != TkCall {
			return
		}
		switch {
		case x.Text == "if" && r.Intn(2) == 0:
			x.Form = FTernary
		case x.Form == FCall && !IsOperator(x.Text) && len(x.Args) >= 1 && r.Intn(4) == 0:
			x.Form = FMethod
		}
	})
	return t
}
