package prog

// The per-property contract checks on one (program, environment) evaluation.

import (
	"fmt"
	"strings"

	"github.com/goghcrow/yae/val"
)

func isFault(f string) bool { return strings.HasPrefix(f, "fault:") }

// ---------------------------------------------------------------- C02

// checkC02: the outcome class of every back end is the reference outcome;
// never an internal fault.
func checkC02(w *Worker, cr *CaseResult, ir *InstResult) *Violation {
	for b := 0; b < NBackends; b++ {
		o := ir.Out[b]
		if o.Fail == "refused" {
			continue
		}
		if isFault(o.Fail) {
			v := &Violation{Clause: "internal-fault", Backend: b,
				Expected: "a value or a documented failure (index / key / modzero / regex); reference: " + refDescribe(ir.Ref),
				Got:      o.Describe() + siteNote(o)}
			if o.Fail == "fault:over-exec-limit" {
				v.Class = "over-exec-limit"
			}
			return v
		}
	}
	if ir.Ref.Unspec {
		return nil
	}
	for b := 0; b < NBackends; b++ {
		o := ir.Out[b]
		if o.Fail == "refused" || o.Fail == ir.Ref.Fail {
			continue
		}
		clause := "wrong-failure-class"
		if ir.Ref.Fail == "" {
			clause = "unexpected-failure"
		} else if o.Fail == "" {
			clause = "missing-failure"
		}
		return &Violation{Clause: clause, Backend: b, Expected: refDescribe(ir.Ref), Got: o.Describe()}
	}
	return nil
}

func siteNote(o Outcome) string {
	if o.Site == "" {
		return ""
	}
	i := strings.LastIndex(o.Site, "/")
	return " (raised in " + o.Site[i+1:] + ")"
}

func refDescribe(r RefOutcome) string {
	if r.Fail != "" {
		return "fails[" + r.Fail + "]"
	}
	return r.Val.Render()
}

// ---------------------------------------------------------------- C03

func agree(a, b Outcome) bool {
	if (a.Fail != "") != (b.Fail != "") {
		return false
	}
	if a.Fail != "" {
		return true // "or all fail"
	}
	if a.ConvErr == "" && b.ConvErr == "" && same(a.RV, b.RV) {
		return true
	}
	eq := false
	guard(func() { eq = val.Equals(a.V, b.V) })
	return eq
}

func sameTrace(a, b []string) bool {
	if len(a) != len(b) {
		return false
	}
	for i := range a {
		if a[i] != b[i] {
			return false
		}
	}
	return true
}

// checkC03: equal values or all fail, identical host-call traces.
func checkC03(w *Worker, cr *CaseResult, ir *InstResult) *Violation {
	if ir.Ref.Clock {
		return nil // the value depends on the wall clock; back ends run at different instants
	}
	if ir.Unstable {
		return &Violation{Clause: "backends-disagree", Backend: -1,
			Expected: "equal values on every back end (and on every run)",
			Got:      "results differ between runs / back ends, e.g. " + describeAll(ir)}
	}
	base := -1
	for b := 0; b < NBackends; b++ {
		if ir.Out[b].Fail == "refused" {
			// only the VM may refuse, and only for capacity
			if (b != BVMSwitch && b != BVMCall) || !strings.Contains(ir.Out[b].Msg, "overflow") {
				return &Violation{Clause: "compile-refusal", Backend: b, Expected: "compiles (no capacity limit involved)", Got: "refused: " + ir.Out[b].Msg}
			}
			continue
		}
		if base < 0 {
			base = b
			continue
		}
		x, y := ir.Out[base], ir.Out[b]
		if !agree(x, y) {
			v := &Violation{Clause: "backends-disagree", Backend: -1,
				Expected: "equal values or failure on every back end",
				Got:      describeAll(ir)}
			for _, o := range ir.Out {
				if o.Fail == "fault:over-exec-limit" {
					v.Class = "over-exec-limit"
				}
			}
			return v
		}
		if !sameTrace(x.Trace, y.Trace) {
			return &Violation{Clause: "trace-differs", Backend: -1,
				Expected: "the same host-function calls in the same order on every back end",
				Got:      fmt.Sprintf("%s: %v ; %s: %v", BackendNames[base], x.Trace, BackendNames[b], y.Trace)}
		}
	}
	return nil
}

func describeAll(ir *InstResult) string {
	xs := make([]string, 0, NBackends)
	for b := 0; b < NBackends; b++ {
		xs = append(xs, BackendNames[b]+": "+trunc(ir.Out[b].Describe(), 160))
	}
	return strings.Join(xs, " ; ")
}

// ---------------------------------------------------------------- C04

// checkC04: the value equals the reference value.
func checkC04(w *Worker, cr *CaseResult, ir *InstResult) *Violation {
	if ir.Ref.Unspec || ir.Ref.Fail != "" {
		return nil
	}
	for b := 0; b < NBackends; b++ {
		o := ir.Out[b]
		if o.Fail != "" || o.ConvErr != "" {
			continue // progress / preservation, not this property
		}
		if !same(o.RV, ir.Ref.Val) {
			return &Violation{Clause: "value-differs", Backend: b, Expected: trunc(ir.Ref.Val.Render(), 300), Got: trunc(o.RV.Render(), 300)}
		}
	}
	return nil
}

// ---------------------------------------------------------------- C06

// checkC06: the host-call trace is the one the language semantics determines
// (lazy operands only when selected, strict operands once, left to right);
// a poisoned unselected operand never makes the program fail.
func checkC06(w *Worker, cr *CaseResult, ir *InstResult) *Violation {
	if ir.Ref.Unspec || ir.Unstable {
		return nil
	}
	for b := 0; b < NBackends; b++ {
		o := ir.Out[b]
		if o.Fail == "refused" || isFault(o.Fail) {
			continue
		}
		if o.Fail == FHost && ir.Ref.Fail != FHost {
			return &Violation{Clause: "unselected-operand-ran", Backend: b,
				Expected: refDescribe(ir.Ref) + " with trace " + fmt.Sprint(ir.Ref.Trace),
				Got:      o.Describe() + " with trace " + fmt.Sprint(o.Trace)}
		}
		if !sameTrace(o.Trace, ir.Ref.Trace) {
			return &Violation{Clause: "trace-differs", Backend: b,
				Expected: "host calls " + fmt.Sprint(ir.Ref.Trace),
				Got:      "host calls " + fmt.Sprint(o.Trace)}
		}
	}
	return nil
}

// checkC06attr is checkC06 for attribution: a sub-program that makes no
// evaluation-order / laziness error but computes a wrong value explains a
// differing trace of its consumers (arguments are part of the trace).
func checkC06attr(w *Worker, cr *CaseResult, ir *InstResult) *Violation {
	if v := checkC06(w, cr, ir); v != nil {
		return v
	}
	if v := checkC04(w, cr, ir); v != nil {
		return &Violation{Clause: "value-defect", Backend: v.Backend}
	}
	return nil
}
