package prog

// Environments: the fixed signature Σ supplied (1) through the raw val.Env
// API, (2) through a Go host struct via conv whose object fields are declared
// in a different order than the object literals of the programs, (3) through
// a Go map via conv.

import (
	"fmt"
	"strconv"
	"time"

	"github.com/goghcrow/yae/conv"
	"github.com/goghcrow/yae/types"
	"github.com/goghcrow/yae/val"
)

func unquoteGo(s string) (string, error) { return strconv.Unquote(s) }

// EnvGroup: one typing environment (one compilation per program).
type EnvGroup struct {
	Key   string
	Gamma Gamma
	Order []string // variable names, fixed order
	Insts []*EnvInst
	// host != nil: the type environment comes from conv.TypeEnvOf(host of the first instance)
	hostT func() interface{}
}

// EnvInst: one value environment of a group.
type EnvInst struct {
	Group *EnvGroup
	Name  string
	Ref   map[string]RVal
	host  func() interface{} // nil: raw API
}

func (g *EnvGroup) Describe(i *EnvInst) string {
	s := i.Name + " {"
	for j, n := range g.Order {
		if j > 0 {
			s += ", "
		}
		s += n + "=" + i.Ref[n].Render()
	}
	return s + "}"
}

// TypeEnv builds (once per engine) the compile-time environment of a group.
func (e *Engine) TypeEnv(g *EnvGroup) *types.Env {
	if t, ok := e.envCache[g]; ok {
		return t
	}
	var t *types.Env
	if g.hostT != nil {
		var err error
		t, err = conv.TypeEnvOf(g.hostT())
		if err != nil {
			panic(fmt.Errorf("harness: conv.TypeEnvOf(%s): %v", g.Key, err))
		}
		t.Inherit(e.tenv)
	} else {
		t = e.tenv.Derive()
		for _, n := range g.Order {
			t.Put(n, ToType(g.Gamma[n]))
		}
	}
	e.envCache[g] = t
	return t
}

// ValEnv builds (once per engine) the run-time environment of an instance.
func (e *Engine) ValEnv(i *EnvInst) *val.Env {
	if v, ok := e.valCache[i]; ok {
		return v
	}
	var v *val.Env
	if i.host != nil {
		var err error
		v, err = conv.ValEnvOf(i.host())
		if err != nil {
			panic(fmt.Errorf("harness: conv.ValEnvOf(%s): %v", i.Name, err))
		}
		v.Inherit(e.renv)
	} else {
		v = e.renv.Derive()
		for _, n := range i.Group.Order {
			v.Put(n, ToVal(i.Ref[n], i.Group.Gamma[n]))
		}
	}
	e.valCache[i] = v
	return v
}

// SelfCheck: the host-built environments really carry the values and types
// the reference side assumes (otherwise every comparison would be void).
func (e *Engine) SelfCheck(g *EnvGroup) error {
	te := e.TypeEnv(g)
	for _, n := range g.Order {
		ty, ok := te.Get(n)
		if !ok {
			return fmt.Errorf("env %s: %s unbound", g.Key, n)
		}
		got := FromType(ty)
		if g.hostT != nil {
			if !EqPos(got, g.Gamma[n]) {
				return fmt.Errorf("env %s: %s has type %s, harness assumes %s", g.Key, n, got, g.Gamma[n])
			}
		} else if !EqPos(got, g.Gamma[n]) {
			return fmt.Errorf("env %s: %s has type %s, harness assumes %s", g.Key, n, got, g.Gamma[n])
		}
	}
	for _, i := range g.Insts {
		ve := e.ValEnv(i)
		for _, n := range g.Order {
			v, ok := ve.Get(n)
			if !ok {
				return fmt.Errorf("env %s: %s unbound", i.Name, n)
			}
			rv, err := FromVal(v)
			if err != nil {
				return fmt.Errorf("env %s: %s: %v", i.Name, n, err)
			}
			if !same(rv, i.Ref[n]) || !sameOrder(rv, i.Ref[n]) {
				return fmt.Errorf("env %s: %s = %s, harness assumes %s", i.Name, n, rv.Render(), i.Ref[n].Render())
			}
			if !EqPos(FromType(v.Type), g.Gamma[n]) {
				return fmt.Errorf("env %s: %s : %s, harness assumes %s", i.Name, n, FromType(v.Type), g.Gamma[n])
			}
		}
	}
	return nil
}

func sameOrder(a, b RVal) bool {
	if a.K != b.K {
		return false
	}
	switch a.K {
	case KObj:
		for i := range a.Names {
			if a.Names[i] != b.Names[i] || !sameOrder(a.L[i], b.L[i]) {
				return false
			}
		}
	case KList:
		for i := range a.L {
			if !sameOrder(a.L[i], b.L[i]) {
				return false
			}
		}
	case KMaybe:
		if a.P != nil && b.P != nil {
			return sameOrder(*a.P, *b.P)
		}
	}
	return true
}

// ---------------------------------------------------------------- Σ

// Host structs: object fields deliberately declared in the order b, a / q, p
// (object literals in programs are written a, b / p, q).
type HostO struct {
	B string  `yae:"b"`
	A float64 `yae:"a"`
}
type HostOO struct {
	Q []float64 `yae:"q"`
	P HostO     `yae:"p"`
}
type HostSigma struct {
	B  bool               `yae:"b"`
	N  float64            `yae:"n"`
	K  float64            `yae:"k"`
	S  string             `yae:"s"`
	T  time.Time          `yae:"t"`
	Xs []float64          `yae:"xs"`
	Ss []string           `yae:"ss"`
	Mp map[string]float64 `yae:"mp"`
	O  HostO              `yae:"o"`
	Oo HostOO             `yae:"oo"`
	On *float64           `yae:"on,maybe"`
}

var sigmaOrder = []string{"b", "n", "k", "s", "t", "xs", "ss", "mp", "o", "oo", "on"}

var (
	tyOhost  = ObjOf(F("b", TStr), F("a", TNum))
	tyOOhost = ObjOf(F("q", ListOf(TNum)), F("p", tyOhost))
)

func sigmaGamma(host bool) Gamma {
	o, oo := tyO, tyOO
	if host {
		o, oo = tyOhost, tyOOhost
	}
	return Gamma{
		"b": TBool, "n": TNum, "k": TNum, "s": TStr, "t": TTime,
		"xs": ListOf(TNum), "ss": ListOf(TStr), "mp": MapOf(TStr, TNum),
		"o": o, "oo": oo, "on": MaybeOf(TNum),
	}
}

// SigmaVals: one assignment of Σ.
type SigmaVals struct {
	B    bool
	N, K float64
	S    string
	T    time.Time
	Xs   []float64
	Ss   []string
	MpK  []string
	MpV  []float64
	OA   float64
	OB   string
	PA   float64
	PB   string
	Q    []float64
	On   *float64
}

func fp(x float64) *float64 { return &x }

func nums(xs []float64) RVal {
	out := make([]RVal, len(xs))
	for i, x := range xs {
		out[i] = RNum(x)
	}
	return RList(out...)
}

func (s SigmaVals) ref(host bool) map[string]RVal {
	ss := make([]RVal, len(s.Ss))
	for i, x := range s.Ss {
		ss[i] = RStr(x)
	}
	mk := make([]RVal, len(s.MpK))
	mv := make([]RVal, len(s.MpK))
	for i := range s.MpK {
		mk[i], mv[i] = RStr(s.MpK[i]), RNum(s.MpV[i])
	}
	var o, p, oo RVal
	if host {
		o = RObj([]string{"b", "a"}, []RVal{RStr(s.OB), RNum(s.OA)})
		p = RObj([]string{"b", "a"}, []RVal{RStr(s.PB), RNum(s.PA)})
		oo = RObj([]string{"q", "p"}, []RVal{nums(s.Q), p})
	} else {
		o = RObj([]string{"a", "b"}, []RVal{RNum(s.OA), RStr(s.OB)})
		p = RObj([]string{"a", "b"}, []RVal{RNum(s.PA), RStr(s.PB)})
		oo = RObj([]string{"p", "q"}, []RVal{p, nums(s.Q)})
	}
	on := RNothing()
	if s.On != nil {
		on = RJust(RNum(*s.On))
	}
	return map[string]RVal{
		"b": RBool(s.B), "n": RNum(s.N), "k": RNum(s.K), "s": RStr(s.S), "t": RTime(s.T),
		"xs": nums(s.Xs), "ss": RList(ss...), "mp": RMapOf(mk, mv), "o": o, "oo": oo, "on": on,
	}
}

func (s SigmaVals) host() interface{} {
	mp := map[string]float64{}
	for i := range s.MpK {
		mp[s.MpK[i]] = s.MpV[i]
	}
	xs := append([]float64{}, s.Xs...)
	ss := append([]string{}, s.Ss...)
	q := append([]float64{}, s.Q...)
	return HostSigma{B: s.B, N: s.N, K: s.K, S: s.S, T: s.T, Xs: xs, Ss: ss, Mp: mp,
		O: HostO{B: s.OB, A: s.OA}, Oo: HostOO{Q: q, P: HostO{B: s.PB, A: s.PA}}, On: s.On}
}

func (s SigmaVals) hostMap() interface{} {
	h := s.host().(HostSigma)
	m := map[string]interface{}{
		"b": h.B, "n": h.N, "k": h.K, "s": h.S, "t": h.T, "xs": h.Xs, "ss": h.Ss, "mp": h.Mp, "o": h.O, "oo": h.Oo,
	}
	return m
}

var (
	V1 = SigmaVals{B: true, N: 3, K: -1.5, S: "héllo", T: time.Unix(1609556645, 0),
		Xs: []float64{1, 2, 3}, Ss: []string{"a", "b", "a"}, MpK: []string{"x", "y"}, MpV: []float64{1, 2},
		OA: 7, OB: "q", PA: 8, PB: "r", Q: []float64{4, 5}, On: fp(5)}
	V2 = SigmaVals{B: false, N: 0, K: 2, S: "", T: time.Unix(0, 0),
		Xs: []float64{}, Ss: []string{}, MpK: nil, MpV: nil,
		OA: -0.5, OB: "", PA: 0, PB: "x", Q: []float64{}, On: nil}
)

// SigmaGroups builds the environment groups for a list of assignments.
// variants: "raw", "host", "hostmap".
func SigmaGroups(names []string, vals []SigmaVals, variants ...string) []*EnvGroup {
	var gs []*EnvGroup
	for _, variant := range variants {
		host := variant != "raw"
		g := &EnvGroup{Key: variant, Gamma: sigmaGamma(host), Order: sigmaOrder}
		if variant == "hostmap" {
			// a map cannot hold an absent optional: `on` is not supplied
			g.Order = sigmaOrder[:len(sigmaOrder)-1]
			gm := sigmaGamma(true)
			delete(gm, "on")
			g.Gamma = gm
		}
		for i, v := range vals {
			v := v
			inst := &EnvInst{Group: g, Name: variant + "/" + names[i], Ref: v.ref(host)}
			switch variant {
			case "host":
				inst.host = v.host
			case "hostmap":
				inst.host = v.hostMap
				delete(inst.Ref, "on")
			}
			g.Insts = append(g.Insts, inst)
		}
		if host {
			first := g.Insts[0]
			g.hostT = first.host
		}
		gs = append(gs, g)
	}
	return gs
}

// RawGroup builds an environment group over an arbitrary Γ through the raw API.
func RawGroup(key string, order []string, gamma Gamma, names []string, refs []map[string]RVal) *EnvGroup {
	g := &EnvGroup{Key: key, Gamma: gamma, Order: order}
	for i, r := range refs {
		g.Insts = append(g.Insts, &EnvInst{Group: g, Name: key + "/" + names[i], Ref: r})
	}
	return g
}
