package prog

// Terms: the harness's own program representation.  A Term renders to yae
// source text (several notations) and converts to an explicit core ast.Expr
// in which every operator application is a CallExpr.

import (
	"strings"
	"unicode/utf8"

	"github.com/goghcrow/yae/parser/ast"
	"github.com/goghcrow/yae/parser/pos"
)

type TK int

const (
	TkNum TK = iota
	TkStr
	TkBool
	TkTime
	TkVar
	TkList
	TkMap // Args = k1,v1,k2,v2,...
	TkObj // Names[i] : Args[i]
	TkCall
	TkMember // Args[0].Text
	TkSub    // Args[0][Args[1]]
)

type Form int

const (
	FCall    Form = iota // f(a, b)
	FPrefix              // op a
	FInfix               // a op b
	FTernary             // c ? a : b   (Text == "if")
	FMethod              // a.f(b...)
)

type Term struct {
	K     TK
	Text  string
	Form  Form
	Args  []*Term
	Names []string

	// annotations of the reference checker
	Ty    *Ty
	Sig   *Sig
	Mixed bool // tyEq-equal types with different field order meet at this node
	src   string
}

func Num(text string) *Term   { return &Term{K: TkNum, Text: text} }
func Str(quoted string) *Term { return &Term{K: TkStr, Text: quoted} }
func Bool(b bool) *Term {
	if b {
		return &Term{K: TkBool, Text: "true"}
	}
	return &Term{K: TkBool, Text: "false"}
}
func TimeLit(s string) *Term         { return &Term{K: TkTime, Text: "'" + s + "'"} }
func Var(n string) *Term             { return &Term{K: TkVar, Text: n} }
func List(es ...*Term) *Term         { return &Term{K: TkList, Args: es} }
func MapLit(kvs ...*Term) *Term      { return &Term{K: TkMap, Args: kvs} }
func Member(o *Term, f string) *Term { return &Term{K: TkMember, Text: f, Args: []*Term{o}} }
func Sub(v, i *Term) *Term           { return &Term{K: TkSub, Args: []*Term{v, i}} }
func ObjLit(names []string, vals []*Term) *Term {
	return &Term{K: TkObj, Names: names, Args: vals}
}

var operatorNames = map[string]bool{
	"+": true, "-": true, "*": true, "/": true, "%": true, "^": true,
	"==": true, "!=": true, "<": true, "<=": true, ">": true, ">=": true,
	"&&": true, "||": true, "!": true, "and": true, "or": true, "not": true,
}

func IsOperator(name string) bool { return operatorNames[name] }

// Call builds an application in the canonical notation: operators as
// prefix/infix, everything else in call form.
func Call(name string, args ...*Term) *Term {
	t := &Term{K: TkCall, Text: name, Args: args}
	if operatorNames[name] {
		if len(args) == 1 {
			t.Form = FPrefix
		} else {
			t.Form = FInfix
		}
	}
	return t
}

func CallForm(form Form, name string, args ...*Term) *Term {
	return &Term{K: TkCall, Text: name, Args: args, Form: form}
}

func (t *Term) Size() int {
	n := 1
	for _, a := range t.Args {
		n += a.Size()
	}
	return n
}

func (t *Term) Depth() int {
	d := 0
	for _, a := range t.Args {
		if x := a.Depth(); x > d {
			d = x
		}
	}
	return d + 1
}

// Nontrivial: at least one operator / call / access node.
func (t *Term) Nontrivial() bool {
	if t.K == TkCall || t.K == TkMember || t.K == TkSub {
		return true
	}
	for _, a := range t.Args {
		if a.Nontrivial() {
			return true
		}
	}
	return false
}

func (t *Term) Walk(f func(*Term)) {
	f(t)
	for _, a := range t.Args {
		a.Walk(f)
	}
}

// Clone copies the structure without the annotations.
func (t *Term) Clone() *Term {
	c := &Term{K: t.K, Text: t.Text, Form: t.Form, Names: t.Names}
	for _, a := range t.Args {
		c.Args = append(c.Args, a.Clone())
	}
	return c
}

// ---------------------------------------------------------------- rendering

type Mode int

const (
	MPlain       Mode = 0
	MParens      Mode = 1 << iota // every proper sub-expression in redundant parentheses
	MFlip                         // if(c,a,b) <-> c ? a : b ; f(a,b..) <-> a.f(b..) for identifier-named functions
	MParenCallee                  // a.f(b) rendered as (a.f)(b)
)

func (t *Term) Src() string {
	if t.src == "" {
		t.src = t.Render(MPlain)
	}
	return t.src
}

func (t *Term) atomic() bool {
	switch t.K {
	case TkCall:
		return t.Form == FCall || t.Form == FMethod
	}
	return true
}

func (t *Term) Render(m Mode) string {
	var sb rbuf
	t.render(&sb, m)
	return sb.sb.String()
}

// RenderCols renders and reports, for every variable / call / member /
// subscript term, the 1-based column (in runes) of its own token: the
// identifier; the operator, `?` or the `(` of a call; the `.`; the `[`.
func (t *Term) RenderCols(m Mode) (string, map[*Term]int) {
	sb := rbuf{cols: map[*Term]int{}}
	t.render(&sb, m)
	return sb.sb.String(), sb.cols
}

// rbuf: a string builder that counts runes.
type rbuf struct {
	sb   strings.Builder
	n    int
	cols map[*Term]int
}

func (b *rbuf) WriteString(s string) {
	b.sb.WriteString(s)
	b.n += utf8.RuneCountInString(s)
}
func (b *rbuf) WriteByte(c byte) error {
	b.sb.WriteByte(c)
	b.n++
	return nil
}
func (b *rbuf) mark(t *Term) {
	if b.cols != nil {
		b.cols[t] = b.n + 1
	}
}

// operand: a sub-expression in operator / receiver position.
func (t *Term) operand(sb *rbuf, m Mode, receiver bool) {
	form := t.effForm(m)
	at := t.K != TkCall || form == FCall || form == FMethod
	if receiver && t.K == TkNum {
		at = false
	}
	if !at || m&MParens != 0 {
		sb.WriteByte('(')
		t.render(sb, m)
		sb.WriteByte(')')
	} else {
		t.render(sb, m)
	}
}

// sub: a sub-expression in a delimited position (argument, element, index).
func (t *Term) sub(sb *rbuf, m Mode) {
	if m&MParens != 0 {
		sb.WriteByte('(')
		t.render(sb, m)
		sb.WriteByte(')')
	} else {
		t.render(sb, m)
	}
}

func (t *Term) effForm(m Mode) Form {
	if t.K != TkCall {
		return FCall
	}
	f := t.Form
	if m&MFlip != 0 {
		switch {
		case f == FTernary:
			return FCall
		case f == FCall && t.Text == "if" && len(t.Args) == 3:
			return FTernary
		case f == FCall && !operatorNames[t.Text] && len(t.Args) >= 1:
			return FMethod
		case f == FMethod:
			return FCall
		}
	}
	return f
}

func (t *Term) render(sb *rbuf, m Mode) {
	switch t.K {
	case TkNum, TkStr, TkBool, TkTime:
		sb.WriteString(t.Text)
	case TkVar:
		sb.mark(t)
		sb.WriteString(t.Text)
	case TkList:
		sb.WriteByte('[')
		for i, a := range t.Args {
			if i > 0 {
				sb.WriteString(", ")
			}
			a.sub(sb, m)
		}
		sb.WriteByte(']')
	case TkMap:
		if len(t.Args) == 0 {
			sb.WriteString("[:]")
			return
		}
		sb.WriteByte('[')
		for i := 0; i+1 < len(t.Args); i += 2 {
			if i > 0 {
				sb.WriteString(", ")
			}
			t.Args[i].sub(sb, m)
			sb.WriteString(": ")
			t.Args[i+1].sub(sb, m)
		}
		sb.WriteByte(']')
	case TkObj:
		sb.WriteByte('{')
		for i, a := range t.Args {
			if i > 0 {
				sb.WriteString(", ")
			}
			sb.WriteString(t.Names[i])
			sb.WriteString(": ")
			a.sub(sb, m)
		}
		sb.WriteByte('}')
	case TkMember:
		t.Args[0].operand(sb, m, true)
		sb.mark(t)
		sb.WriteByte('.')
		sb.WriteString(t.Text)
	case TkSub:
		t.Args[0].operand(sb, m, true)
		sb.mark(t)
		sb.WriteByte('[')
		t.Args[1].sub(sb, m)
		sb.WriteByte(']')
	case TkCall:
		switch t.effForm(m) {
		case FPrefix:
			sb.mark(t)
			sb.WriteString(t.Text)
			if t.Text == "not" {
				sb.WriteByte(' ')
			}
			t.Args[0].operand(sb, m, false)
		case FInfix:
			t.Args[0].operand(sb, m, false)
			sb.WriteByte(' ')
			sb.mark(t)
			sb.WriteString(t.Text)
			sb.WriteByte(' ')
			t.Args[1].operand(sb, m, false)
		case FTernary:
			t.Args[0].operand(sb, m, false)
			sb.WriteByte(' ')
			sb.mark(t)
			sb.WriteString("? ")
			t.Args[1].operand(sb, m, false)
			sb.WriteString(" : ")
			t.Args[2].operand(sb, m, false)
		case FMethod:
			if m&MParenCallee != 0 {
				sb.WriteByte('(')
			}
			t.Args[0].operand(sb, m, true)
			sb.WriteByte('.')
			sb.WriteString(t.Text)
			if m&MParenCallee != 0 {
				sb.WriteByte(')')
			}
			sb.mark(t)
			sb.WriteByte('(')
			for i, a := range t.Args[1:] {
				if i > 0 {
					sb.WriteString(", ")
				}
				a.sub(sb, m)
			}
			sb.WriteByte(')')
		default:
			sb.WriteString(t.Text)
			sb.mark(t)
			sb.WriteByte('(')
			for i, a := range t.Args {
				if i > 0 {
					sb.WriteString(", ")
				}
				a.sub(sb, m)
			}
			sb.WriteByte(')')
		}
	}
}

// HasMethodForm reports whether rendering with mode m contains a method call.
func (t *Term) HasMethodForm(m Mode) bool {
	found := false
	t.Walk(func(x *Term) {
		if x.K == TkCall && x.effForm(m) == FMethod {
			found = true
		}
	})
	return found
}

// ---------------------------------------------------------------- explicit core tree

// Core builds the explicit rendering as a yae AST: only the eleven core node
// kinds, every operator / conditional / method call as CallExpr on the
// function name, receiver first.
func (t *Term) Core() ast.Expr {
	p := pos.Unknown
	switch t.K {
	case TkNum:
		return ast.Num(t.Text, p)
	case TkStr:
		return ast.Str(t.Text, p)
	case TkBool:
		if t.Text == "true" {
			return ast.True(p)
		}
		return ast.False(p)
	case TkTime:
		return ast.Time(t.Text, p)
	case TkVar:
		return ast.Var(t.Text, p)
	case TkList:
		es := make([]ast.Expr, len(t.Args))
		for i, a := range t.Args {
			es[i] = a.Core()
		}
		return ast.List(es, p)
	case TkMap:
		ps := make([]ast.Pair, 0, len(t.Args)/2)
		for i := 0; i+1 < len(t.Args); i += 2 {
			ps = append(ps, ast.Pair{Key: t.Args[i].Core(), Val: t.Args[i+1].Core()})
		}
		return ast.Map(ps, p)
	case TkObj:
		fs := make([]ast.Field, len(t.Args))
		for i, a := range t.Args {
			fs[i] = ast.Field{Name: t.Names[i], Val: a.Core()}
		}
		return ast.Obj(fs, p)
	case TkMember:
		return ast.Member(t.Args[0].Core(), ast.Var(t.Text, p), pos.UnknownCol, p)
	case TkSub:
		return ast.Subscript(t.Args[0].Core(), t.Args[1].Core(), pos.UnknownCol, p)
	case TkCall:
		as := make([]ast.Expr, len(t.Args))
		for i, a := range t.Args {
			as[i] = a.Core()
		}
		return ast.Call(ast.Var(t.Text, p), as, pos.UnknownCol, p)
	}
	panic("harness: unknown term kind")
}
