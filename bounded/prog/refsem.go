package prog

// Reference semantics: signature table, reference type checker and reference
// evaluator, written from the README signatures, the property statements and
// DESIGN.md Appendix D.  Nothing here calls yae code.

import (
	"fmt"
	"math"
	"regexp"
	"strconv"
	"strings"
	"time"
	"unicode/utf8"
)

// documented failure classes (+ "host" for a failing host function)
const (
	FIndex   = "index"
	FKey     = "key"
	FModZero = "modzero"
	FRegex   = "regex"
	FHost    = "host"
)

type strictFn func(c *ectx, t *Term, a []RVal) (RVal, string)
type lazyFn func(c *ectx, t *Term) (RVal, string)

type Sig struct {
	ID     string
	Name   string
	Params []*Ty
	Ret    *Ty
	Lazy   bool
	Host   bool
	fn     strictFn
	lfn    lazyFn
}

func (s *Sig) Poly() bool {
	for _, p := range s.Params {
		if !p.Ground() {
			return true
		}
	}
	return !s.Ret.Ground()
}

var (
	sigTable = map[string][]*Sig{}
	sigList  []*Sig
)

func reg(s *Sig) *Sig {
	sigTable[s.Name] = append(sigTable[s.Name], s)
	sigList = append(sigList, s)
	return s
}

func strict(id, name string, params []*Ty, ret *Ty, fn strictFn) *Sig {
	return reg(&Sig{ID: id, Name: name, Params: params, Ret: ret, fn: fn})
}
func lazy(id, name string, params []*Ty, ret *Ty, fn lazyFn) *Sig {
	return reg(&Sig{ID: id, Name: name, Params: params, Ret: ret, Lazy: true, lfn: fn})
}

// Resolve: (1) a monomorphic overload whose parameters are tyEq to the
// arguments; else (2) the first polymorphic overload of that arity (in
// registration order) for which a substitution exists and the result is ground.
func Resolve(name string, args []*Ty) (*Sig, *Ty) {
	for _, s := range sigTable[name] {
		if s.Poly() || len(s.Params) != len(args) {
			continue
		}
		ok := true
		for i := range args {
			if !Eq(s.Params[i], args[i]) {
				ok = false
				break
			}
		}
		if ok {
			return s, s.Ret
		}
	}
	for _, s := range sigTable[name] {
		if !s.Poly() || len(s.Params) != len(args) {
			continue
		}
		sub := map[string]*Ty{}
		ok := true
		for i := range args {
			if !match(s.Params[i], args[i], sub) {
				ok = false
				break
			}
		}
		if !ok {
			continue
		}
		r := subst(s.Ret, sub)
		if !r.Ground() {
			continue
		}
		return s, r
	}
	return nil, nil
}

// ---------------------------------------------------------------- type checker

type Gamma map[string]*Ty

var reservedWords = map[string]bool{}

func init() {
	for _, w := range strings.Fields(`byte int float double string bool boolean ch void
	type var def define let rec mut fun fn function record struct map list object class trait interface
	sealed extends prefix infixl infixr infixn for do while switch cast range match select
	break continue return try catch throw finally import as module package namespace assert debugger`) {
		reservedWords[w] = true
	}
}

// RefCheck annotates t (and all sub-terms) with its type, or returns an error.
func RefCheck(t *Term, g Gamma) (*Ty, error) {
	ty, err := refCheck(t, g)
	if err != nil {
		return nil, err
	}
	t.Ty = ty
	return ty, nil
}

func refCheck(t *Term, g Gamma) (*Ty, error) {
	switch t.K {
	case TkNum:
		return TNum, nil
	case TkStr:
		return TStr, nil
	case TkBool:
		return TBool, nil
	case TkTime:
		return TTime, nil
	case TkVar:
		if reservedWords[t.Text] {
			return nil, fmt.Errorf("%s reserved", t.Text)
		}
		ty, ok := g[t.Text]
		if !ok {
			return nil, fmt.Errorf("undefined %s", t.Text)
		}
		return ty, nil
	case TkList:
		if len(t.Args) == 0 {
			return ListOf(TBot), nil
		}
		var first *Ty
		for i, a := range t.Args {
			ty, err := RefCheck(a, g)
			if err != nil {
				return nil, err
			}
			if i == 0 {
				first = ty
			} else if !Eq(first, ty) {
				return nil, fmt.Errorf("list element %d: %s vs %s", i, first, ty)
			} else if !EqPos(first, ty) {
				t.Mixed = true
			}
		}
		return ListOf(first), nil
	case TkMap:
		if len(t.Args) == 0 {
			return MapOf(TBot, TBot), nil
		}
		var k0, v0 *Ty
		for i := 0; i+1 < len(t.Args); i += 2 {
			kt, err := RefCheck(t.Args[i], g)
			if err != nil {
				return nil, err
			}
			if i == 0 {
				if !kt.IsPrim() {
					return nil, fmt.Errorf("map key type %s", kt)
				}
				k0 = kt
			} else if !Eq(k0, kt) {
				return nil, fmt.Errorf("map key %d: %s vs %s", i/2, k0, kt)
			}
			vt, err := RefCheck(t.Args[i+1], g)
			if err != nil {
				return nil, err
			}
			if i == 0 {
				v0 = vt
			} else if !Eq(v0, vt) {
				return nil, fmt.Errorf("map value %d: %s vs %s", i/2, v0, vt)
			} else if !EqPos(v0, vt) {
				t.Mixed = true
			}
		}
		return MapOf(k0, v0), nil
	case TkObj:
		fs := make([]Fld, len(t.Args))
		seen := map[string]bool{}
		for i, a := range t.Args {
			ty, err := RefCheck(a, g)
			if err != nil {
				return nil, err
			}
			if seen[t.Names[i]] {
				return nil, fmt.Errorf("duplicated field %s", t.Names[i])
			}
			seen[t.Names[i]] = true
			fs[i] = Fld{t.Names[i], ty}
		}
		return ObjOf(fs...), nil
	case TkMember:
		ot, err := RefCheck(t.Args[0], g)
		if err != nil {
			return nil, err
		}
		if ot.K != KObj {
			return nil, fmt.Errorf("member of %s", ot)
		}
		ft, i := ot.Field(t.Text)
		if i < 0 {
			return nil, fmt.Errorf("no field %s in %s", t.Text, ot)
		}
		return ft, nil
	case TkSub:
		vt, err := RefCheck(t.Args[0], g)
		if err != nil {
			return nil, err
		}
		// the container decides whether an index is looked at at all
		if vt.K != KList && vt.K != KMap {
			return nil, fmt.Errorf("subscript of %s", vt)
		}
		it, err := RefCheck(t.Args[1], g)
		if err != nil {
			return nil, err
		}
		if vt.K == KList {
			if !Eq(it, TNum) {
				return nil, fmt.Errorf("list index %s", it)
			}
			return vt.El, nil
		}
		if !Eq(it, vt.Key) {
			return nil, fmt.Errorf("map index %s vs %s", it, vt.Key)
		}
		return vt.El, nil
	case TkCall:
		as := make([]*Ty, len(t.Args))
		for i, a := range t.Args {
			ty, err := RefCheck(a, g)
			if err != nil {
				return nil, err
			}
			as[i] = ty
		}
		s, r := Resolve(t.Text, as)
		if s == nil {
			return nil, fmt.Errorf("no overload %s%v", t.Text, as)
		}
		t.Sig = s
		// do tyEq-equal but differently ordered types meet in one variable / parameter?
		if s.Poly() {
			sub := map[string]*Ty{}
			for i := range as {
				matchM(s.Params[i], as[i], sub, &t.Mixed)
			}
		} else {
			for i := range as {
				if !EqPos(s.Params[i], as[i]) {
					t.Mixed = true
				}
			}
		}
		return r, nil
	}
	return nil, fmt.Errorf("unknown term")
}

// ---------------------------------------------------------------- evaluator

type RefOutcome struct {
	Val    RVal
	Fail   string // "" or a failure class
	Trace  []string
	Unspec bool             // the reference semantics leaves the result open (see tags)
	Clock  bool             // the program reads the wall clock (strtotime of a non-absolute text): no two runs need agree
	Repeat bool             // result of the real code may depend on map iteration order: evaluate repeatedly
	Tags   map[*Term]string // edge-case tag of the operation at a term
}

type ectx struct {
	rec    func(t *Term, v RVal) // called after a variable / call / member / subscript term has been evaluated
	env    map[string]RVal
	trace  []string
	unspec bool
	clock  bool
	repeat bool
	tags   map[*Term]string
}

func (c *ectx) tag(t *Term, s string) {
	if s == "" {
		return
	}
	if old, ok := c.tags[t]; ok && old != s {
		if !strings.Contains(old, s) {
			c.tags[t] = old + "+" + s
		}
		return
	}
	c.tags[t] = s
}

// RefEval evaluates a checked term.
func RefEval(t *Term, env map[string]RVal) RefOutcome {
	c := &ectx{env: env, tags: map[*Term]string{}}
	v, f := c.eval(t)
	return RefOutcome{Val: v, Fail: f, Trace: c.trace, Unspec: c.unspec, Clock: c.clock, Repeat: c.repeat, Tags: c.tags}
}

func (c *ectx) eval(t *Term) (RVal, string) {
	v, f := c.eval0(t)
	if f == "" && c.rec != nil {
		switch t.K {
		case TkVar, TkCall, TkMember, TkSub:
			c.rec(t, v)
		}
	}
	return v, f
}

// RefEvalRec is RefEval that also reports the evaluated variable / call /
// member / subscript terms with their values, in order of completion.
func RefEvalRec(t *Term, env map[string]RVal, rec func(t *Term, v RVal)) RefOutcome {
	c := &ectx{env: env, tags: map[*Term]string{}, rec: rec}
	v, f := c.eval(t)
	return RefOutcome{Val: v, Fail: f, Trace: c.trace, Unspec: c.unspec, Clock: c.clock, Repeat: c.repeat, Tags: c.tags}
}

func (c *ectx) eval0(t *Term) (RVal, string) {
	switch t.K {
	case TkNum:
		x, ok := decodeNum(t.Text)
		if !ok {
			c.unspec = true
		}
		return RNum(x), ""
	case TkStr:
		s, ok := decodeStr(t.Text)
		if !ok {
			c.unspec = true
		}
		return RStr(s), ""
	case TkBool:
		return RBool(t.Text == "true"), ""
	case TkTime:
		tm, ok := parseAbsTime(t.Text[1 : len(t.Text)-1])
		if !ok {
			c.unspec = true
		}
		return RTime(tm), ""
	case TkVar:
		return c.env[t.Text], ""
	case TkList:
		xs := make([]RVal, len(t.Args))
		for i, a := range t.Args {
			v, f := c.eval(a)
			if f != "" {
				return RVal{}, f
			}
			xs[i] = v
		}
		return RList(xs...), ""
	case TkMap:
		var keys, vals []RVal
		for i := 0; i+1 < len(t.Args); i += 2 {
			k, f := c.eval(t.Args[i])
			if f != "" {
				return RVal{}, f
			}
			v, f := c.eval(t.Args[i+1])
			if f != "" {
				return RVal{}, f
			}
			c.keyEdge(t, k, keys)
			if j := findKey(keys, k); j >= 0 {
				c.tag(t, "duplicate-key")
				vals[j] = v // later entry wins
			} else {
				keys = append(keys, k)
				vals = append(vals, v)
			}
		}
		return RMapOf(keys, vals), ""
	case TkObj:
		vs := make([]RVal, len(t.Args))
		for i, a := range t.Args {
			v, f := c.eval(a)
			if f != "" {
				return RVal{}, f
			}
			vs[i] = v
		}
		return RObj(t.Names, vs), ""
	case TkMember:
		o, f := c.eval(t.Args[0])
		if f != "" {
			return RVal{}, f
		}
		// the field NAMED t.Text
		v, _ := o.Field(t.Text)
		st := t.Args[0].Ty
		if st != nil && len(st.Fs) == len(o.Names) {
			for i := range st.Fs {
				if st.Fs[i].Name != o.Names[i] {
					c.tag(t, "field-order-differs")
					break
				}
			}
		}
		if hasMixed(t.Args[0]) {
			c.tag(t, "field-order-differs")
		}
		return v, ""
	case TkSub:
		x, f := c.eval(t.Args[0])
		if f != "" {
			return RVal{}, f
		}
		i, f := c.eval(t.Args[1])
		if f != "" {
			return RVal{}, f
		}
		if x.K == KList {
			idx, tag := c.index(i.N, len(x.L))
			c.tag(t, tag)
			if idx < 0 || idx >= int64(len(x.L)) {
				return RVal{}, FIndex
			}
			return x.L[idx], ""
		}
		c.keyEdge(t, i, x.Keys)
		j := findKey(x.Keys, i)
		if j < 0 {
			c.tag(t, "key-absent")
			return RVal{}, FKey
		}
		return x.L[j], ""
	case TkCall:
		s := t.Sig
		if s.Lazy {
			return s.lfn(c, t)
		}
		as := make([]RVal, len(t.Args))
		for i, a := range t.Args {
			v, f := c.eval(a)
			if f != "" {
				return RVal{}, f
			}
			as[i] = v
		}
		return s.fn(c, t, as)
	}
	panic("harness: eval unknown term")
}

// index: the double truncated toward zero.  Outside int64 / NaN the
// conversion is unspecified: the result is then left open.
func (c *ectx) index(x float64, n int) (int64, string) {
	if math.IsNaN(x) || math.IsInf(x, 0) || math.Abs(x) >= 9223372036854775808.0 {
		// (the tag follows what the conversion does on this platform, so that
		// a total function failing here is named like the in-range case)
		c.unspec = true
		if i := int64(x); i < 0 {
			return i, "idx<0"
		} else if i >= int64(n) {
			return i, "idx>=len"
		} else {
			return i, ""
		}
	}
	i := int64(x)
	switch {
	case i < 0:
		return i, "idx<0"
	case i >= int64(n):
		return i, "idx>=len"
	case x != math.Trunc(x):
		return i, "idx-fractional"
	}
	return i, ""
}

// keyEdge: map-key situations in which the property texts leave identity open
// (numbers closer than EPS but not identical, NaN) or that are known to be
// delicate (integral numbers beyond int64).
func (c *ectx) keyEdge(t *Term, k RVal, others []RVal) {
	if k.K != KNum {
		return
	}
	if math.IsNaN(k.N) {
		c.unspec = true
		return
	}
	if beyondInt64(k.N) {
		c.tag(t, "num>=2^63")
	}
	for _, o := range others {
		if o.N != k.N && math.Abs(o.N-k.N) < EPS {
			c.unspec = true
		}
	}
}

// ---------------------------------------------------------------- literal decoding

func decodeNum(s string) (float64, bool) {
	if len(s) > 2 && s[0] == '0' && (s[1] == 'x' || s[1] == 'b' || s[1] == 'o') {
		base := map[byte]int{'x': 16, 'b': 2, 'o': 8}[s[1]]
		n, err := strconv.ParseUint(s[2:], base, 63)
		if err != nil {
			return 0, false
		}
		return float64(n), true
	}
	x, err := strconv.ParseFloat(s, 64)
	if err != nil {
		return 0, false
	}
	return x, true
}

// decodeStr: "…" with JSON-style escapes, or `raw`.
func decodeStr(s string) (string, bool) {
	if len(s) >= 2 && s[0] == '`' {
		return s[1 : len(s)-1], true
	}
	if len(s) < 2 || s[0] != '"' {
		return "", false
	}
	body := s[1 : len(s)-1]
	var sb strings.Builder
	for i := 0; i < len(body); i++ {
		ch := body[i]
		if ch != '\\' {
			sb.WriteByte(ch)
			continue
		}
		i++
		if i >= len(body) {
			return "", false
		}
		switch body[i] {
		case '"':
			sb.WriteByte('"')
		case '\\':
			sb.WriteByte('\\')
		case 't':
			sb.WriteByte('\t')
		case 'r':
			sb.WriteByte('\r')
		case 'n':
			sb.WriteByte('\n')
		case 'b':
			sb.WriteByte('\b')
		case 'f':
			sb.WriteByte('\f')
		case 'u':
			if i+4 > len(body)-1 {
				return "", false
			}
			n, err := strconv.ParseUint(body[i+1:i+5], 16, 32)
			if err != nil {
				return "", false
			}
			sb.WriteRune(rune(n))
			i += 4
		default:
			return "", false
		}
	}
	return sb.String(), true
}

var absLayouts = []string{
	"2006-01-02 15:04:05",
	"2006-01-02T15:04:05",
	"2006-01-02 15:04",
	"2006-01-02",
	"2006/01/02 15:04:05",
	"2006/01/02",
}

// parseAbsTime: the instant denoted by an absolute date-time text (zone-less
// forms in the local zone, RFC 3339 with offset, @unix-seconds).
func parseAbsTime(s string) (time.Time, bool) {
	if strings.HasPrefix(s, "@") {
		n, err := strconv.ParseInt(s[1:], 10, 64)
		if err == nil {
			return time.Unix(n, 0), true
		}
		return time.Time{}, false
	}
	for _, l := range absLayouts {
		if t, err := time.ParseInLocation(l, s, time.Local); err == nil {
			return time.Unix(t.Unix(), 0), true
		}
	}
	if t, err := time.Parse(time.RFC3339, s); err == nil {
		return time.Unix(t.Unix(), 0), true
	}
	if strings.HasSuffix(s, " UTC") {
		if t, err := time.ParseInLocation("2006-01-02 15:04:05", strings.TrimSuffix(s, " UTC"), time.UTC); err == nil {
			return time.Unix(t.Unix(), 0), true
		}
	}
	return time.Time{}, false
}

// ---------------------------------------------------------------- helpers of the built-ins

func numEQ(x, y float64) bool { return math.Abs(x-y) < EPS }
func numNE(x, y float64) bool { return math.Abs(x-y) >= EPS }

// valEq is `==` : tolerance on numbers, exact on bool/str, same instant on
// time, structural on containers, objects by field name.
func valEq(a, b RVal) bool {
	if a.K != b.K {
		return false
	}
	switch a.K {
	case KBool:
		return a.B == b.B
	case KNum:
		return numEQ(a.N, b.N)
	case KStr:
		return a.S == b.S
	case KTime:
		return a.T.Equal(b.T)
	case KList:
		if len(a.L) != len(b.L) {
			return false
		}
		for i := range a.L {
			if !valEq(a.L[i], b.L[i]) {
				return false
			}
		}
		return true
	case KMap:
		if len(a.Keys) != len(b.Keys) {
			return false
		}
		for i, k := range a.Keys {
			j := findKey(b.Keys, k)
			if j < 0 || !valEq(a.L[i], b.L[j]) {
				return false
			}
		}
		return true
	case KObj:
		if len(a.Names) != len(b.Names) {
			return false
		}
		for i, n := range a.Names {
			y, ok := b.Field(n)
			if !ok || !valEq(a.L[i], y) {
				return false
			}
		}
		return true
	case KMaybe:
		if a.P == nil || b.P == nil {
			return a.P == nil && b.P == nil
		}
		return valEq(*a.P, *b.P)
	}
	return true
}

// delicate: does v contain a number for which "the same value" is not fixed
// by the property texts (NaN, infinities)?  and does it contain an integral
// number beyond int64 / a pair of close-but-different numbers?
func scanNums(v RVal, f func(float64)) {
	switch v.K {
	case KNum:
		f(v.N)
	case KList, KObj:
		for _, e := range v.L {
			scanNums(e, f)
		}
	case KMap:
		for _, e := range v.Keys {
			scanNums(e, f)
		}
		for _, e := range v.L {
			scanNums(e, f)
		}
	case KMaybe:
		if v.P != nil {
			scanNums(*v.P, f)
		}
	}
}

func hasBeyond(v RVal) bool {
	r := false
	scanNums(v, func(x float64) {
		if beyondInt64(x) {
			r = true
		}
	})
	return r
}

func hasMultiMap(v RVal) bool {
	switch v.K {
	case KList, KObj:
		for _, e := range v.L {
			if hasMultiMap(e) {
				return true
			}
		}
	case KMap:
		if len(v.Keys) >= 2 {
			return true
		}
		for _, e := range v.L {
			if hasMultiMap(e) {
				return true
			}
		}
	case KMaybe:
		if v.P != nil {
			return hasMultiMap(*v.P)
		}
	}
	return false
}

// setEdge: membership "by ==" is only fixed when all numbers involved are
// finite and pairwise identical or more than EPS apart.
func (c *ectx) setEdge(t *Term, xs ...RVal) {
	var nums []float64
	for _, x := range xs {
		scanNums(x, func(f float64) { nums = append(nums, f) })
	}
	for i, x := range nums {
		if math.IsNaN(x) || math.IsInf(x, 0) {
			c.unspec = true
		}
		if beyondInt64(x) {
			c.tag(t, "num>=2^63")
		}
		for _, y := range nums[:i] {
			if x != y && math.Abs(x-y) < EPS {
				c.unspec = true
			}
		}
	}
	for _, x := range xs {
		if hasMultiMap(x) {
			// identity of elements containing maps goes through a rendering
			c.tag(t, "multi-entry-map")
		}
	}
	if permutedObjects(xs) {
		c.tag(t, "permuted-object-fields")
	}
}

// permutedObjects: do the values contain two objects with the same field
// names written in different orders?
func permutedObjects(xs []RVal) bool {
	seen := map[string]string{}
	found := false
	var visit func(v RVal)
	visit = func(v RVal) {
		switch v.K {
		case KObj:
			ord := strings.Join(v.Names, ",")
			sorted := append([]string{}, v.Names...)
			for i := 1; i < len(sorted); i++ {
				for j := i; j > 0 && sorted[j] < sorted[j-1]; j-- {
					sorted[j], sorted[j-1] = sorted[j-1], sorted[j]
				}
			}
			k := strings.Join(sorted, ",")
			if o, ok := seen[k]; ok && o != ord {
				found = true
			}
			seen[k] = ord
			for _, e := range v.L {
				visit(e)
			}
		case KList, KMap:
			for _, e := range v.L {
				visit(e)
			}
		case KMaybe:
			if v.P != nil {
				visit(*v.P)
			}
		}
	}
	for _, x := range xs {
		visit(x)
	}
	return found
}

// repeatedComposite: does v contain two equal non-empty composite components?
func repeatedComposite(v RVal) bool {
	seen := map[string]bool{}
	found := false
	var visit func(x RVal, top bool)
	visit = func(x RVal, top bool) {
		switch x.K {
		case KList, KMap, KObj, KMaybe:
			if !top {
				r := x.Render()
				if seen[r] {
					found = true
				}
				seen[r] = true
			}
			for _, e := range x.L {
				visit(e, false)
			}
			if x.P != nil {
				visit(*x.P, false)
			}
		}
	}
	visit(v, true)
	return found
}

func memberOf(xs []RVal, v RVal) bool {
	for _, x := range xs {
		if valEq(x, v) {
			return true
		}
	}
	return false
}

func dedup(xs []RVal) []RVal {
	out := []RVal{}
	for _, x := range xs {
		if !memberOf(out, x) {
			out = append(out, x)
		}
	}
	return out
}

func roundHalfAway(x float64) float64 {
	if math.IsNaN(x) || math.IsInf(x, 0) || x == 0 {
		return x
	}
	if math.Abs(x) >= 4503599627370496.0 { // 2^52: already integral
		return x
	}
	t := math.Trunc(x)
	if math.Abs(x-t) >= 0.5 {
		t += math.Copysign(1, x)
	}
	if t == 0 {
		return math.Copysign(0, x)
	}
	return t
}

// strOf: the conversion string(x).
func strOf(v RVal) string {
	switch v.K {
	case KNum:
		return fmtNum(v.N)
	case KBool:
		return strconv.FormatBool(v.B)
	case KStr:
		return v.S
	case KTime:
		return v.T.String()
	case KList:
		xs := make([]string, len(v.L))
		for i, e := range v.L {
			xs[i] = strOf(e)
		}
		return "[" + strings.Join(xs, ", ") + "]"
	case KMap:
		if len(v.Keys) == 0 {
			return "[:]"
		}
		type kv struct{ k, s string }
		es := make([]kv, len(v.Keys))
		for i, k := range v.Keys {
			kt := keyText(k)
			es[i] = kv{kt, kt + ": " + strOf(v.L[i])}
		}
		// The documentation fixes no entry order for string(map); the
		// property only requires a deterministic one (C13).  The oracle
		// follows the order the implementation documents in its fix
		// (entries sorted as texts), which differs from key order only when
		// one key text is a proper prefix of another.
		for i := 1; i < len(es); i++ {
			for j := i; j > 0 && es[j].s < es[j-1].s; j-- {
				es[j], es[j-1] = es[j-1], es[j]
			}
		}
		xs := make([]string, len(es))
		for i := range es {
			xs[i] = es[i].s
		}
		return "[" + strings.Join(xs, ", ") + "]"
	case KObj:
		xs := make([]string, len(v.Names))
		for i := range v.Names {
			xs[i] = v.Names[i] + ": " + strOf(v.L[i])
		}
		return "{" + strings.Join(xs, ", ") + "}"
	case KMaybe:
		if v.P == nil {
			return "Nothing()"
		}
		return "Just(" + strOf(*v.P) + ")"
	}
	return ""
}

// keyText: the canonical text of a map key.
func keyText(k RVal) string {
	switch k.K {
	case KBool:
		return strconv.FormatBool(k.B)
	case KNum:
		return fmtNum(k.N)
	case KStr:
		return strconv.Quote(k.S)
	case KTime:
		return strconv.Quote(k.T.String())
	}
	return ""
}

func durSeconds(a, b time.Time) float64 {
	d := a.Sub(b)
	sec := d / time.Second
	nsec := d % time.Second
	return float64(sec) + float64(nsec)/1e9
}

// ---------------------------------------------------------------- signature table

var (
	tyO  = ObjOf(F("a", TNum), F("b", TStr))
	tyO3 = ObjOf(F("a", TNum), F("b", TStr), F("c", TBool))
	tyOO = ObjOf(F("p", tyO), F("q", ListOf(TNum)))
)

func init() {
	n1 := []*Ty{TNum}
	n2 := []*Ty{TNum, TNum}
	s2 := []*Ty{TStr, TStr}
	b2 := []*Ty{TBool, TBool}
	t2 := []*Ty{TTime, TTime}
	a := TV("a")
	k := TV("k")
	v := TV("v")
	la := ListOf(a)
	mkv := MapOf(k, v)

	num1 := func(id, name string, f func(float64) float64) {
		strict(id, name, n1, TNum, func(c *ectx, t *Term, x []RVal) (RVal, string) { return RNum(f(x[0].N)), "" })
	}
	num2 := func(id, name string, f func(x, y float64) float64) {
		strict(id, name, n2, TNum, func(c *ectx, t *Term, x []RVal) (RVal, string) { return RNum(f(x[0].N, x[1].N)), "" })
	}
	cmpN := func(id, name string, f func(x, y float64) bool) {
		strict(id, name, n2, TBool, func(c *ectx, t *Term, x []RVal) (RVal, string) {
			d := math.Abs(x[0].N - x[1].N)
			if d == EPS {
				c.tag(t, "diff==EPS")
			}
			return RBool(f(x[0].N, x[1].N)), ""
		})
	}
	cmpT := func(id, name string, f func(x, y time.Time) bool) {
		strict(id, name, t2, TBool, func(c *ectx, t *Term, x []RVal) (RVal, string) { return RBool(f(x[0].T, x[1].T)), "" })
	}

	num1("ADD_NUM", "+", func(x float64) float64 { return x })
	num2("ADD_NUM_NUM", "+", func(x, y float64) float64 { return x + y })
	strict("ADD_STR_STR", "+", s2, TStr, func(c *ectx, t *Term, x []RVal) (RVal, string) { return RStr(x[0].S + x[1].S), "" })
	num1("SUB_NUM", "-", func(x float64) float64 { return -x })
	num2("SUB_NUM_NUM", "-", func(x, y float64) float64 { return x - y })
	strict("SUB_TIME_TIME", "-", t2, TNum, func(c *ectx, t *Term, x []RVal) (RVal, string) {
		return RNum(durSeconds(x[0].T, x[1].T)), ""
	})
	num2("MUL_NUM_NUM", "*", func(x, y float64) float64 { return x * y })
	num2("DIV_NUM_NUM", "/", func(x, y float64) float64 { return x / y })
	strict("MOD_NUM_NUM", "%", n2, TNum, func(c *ectx, t *Term, x []RVal) (RVal, string) {
		for _, z := range x {
			if math.IsNaN(z.N) || math.IsInf(z.N, 0) || math.Abs(z.N) >= 9223372036854775808.0 {
				c.unspec = true
				c.tag(t, "operand-outside-int64")
			}
		}
		l, r := int64(x[0].N), int64(x[1].N)
		if r == 0 {
			c.tag(t, "zero-divisor")
			return RVal{}, FModZero
		}
		if !isIntegral(x[0].N) || !isIntegral(x[1].N) {
			c.tag(t, "fractional-operand")
		}
		if r == -1 {
			return RNum(0), "" // also for the most negative dividend
		}
		return RNum(float64(l % r)), ""
	})
	num2("EXP_NUM_NUM", "^", math.Pow)

	strict("EQ_BOOL_BOOL", "==", b2, TBool, func(c *ectx, t *Term, x []RVal) (RVal, string) { return RBool(x[0].B == x[1].B), "" })
	strict("NE_BOOL_BOOL", "!=", b2, TBool, func(c *ectx, t *Term, x []RVal) (RVal, string) { return RBool(x[0].B != x[1].B), "" })
	cmpN("EQ_NUM_NUM", "==", numEQ)
	cmpN("NE_NUM_NUM", "!=", numNE)
	strict("EQ_STR_STR", "==", s2, TBool, func(c *ectx, t *Term, x []RVal) (RVal, string) { return RBool(x[0].S == x[1].S), "" })
	strict("NE_STR_STR", "!=", s2, TBool, func(c *ectx, t *Term, x []RVal) (RVal, string) { return RBool(x[0].S != x[1].S), "" })
	cmpT("EQ_TIME_TIME", "==", func(x, y time.Time) bool { return x.Equal(y) })
	cmpT("NE_TIME_TIME", "!=", func(x, y time.Time) bool { return !x.Equal(y) })
	eqPoly := func(id, name string, p *Ty, neg bool) {
		strict(id, name, []*Ty{p, p}, TBool, func(c *ectx, t *Term, x []RVal) (RVal, string) {
			c.cmpEdge(t, x[0], x[1])
			return RBool(valEq(x[0], x[1]) != neg), ""
		})
	}
	eqPoly("EQ_LIST_LIST", "==", la, false)
	eqPoly("EQ_MAP_MAP", "==", mkv, false)
	eqPoly("NE_LIST_LIST", "!=", la, true)
	eqPoly("NE_MAP_MAP", "!=", mkv, true)

	cmpN("LT_NUM_NUM", "<", func(x, y float64) bool { return x < y && numNE(x, y) })
	cmpN("LE_NUM_NUM", "<=", func(x, y float64) bool { return x <= y || numEQ(x, y) })
	cmpN("GT_NUM_NUM", ">", func(x, y float64) bool { return x > y && numNE(x, y) })
	cmpN("GE_NUM_NUM", ">=", func(x, y float64) bool { return x >= y || numEQ(x, y) })
	cmpT("LT_TIME_TIME", "<", func(x, y time.Time) bool { return x.Before(y) })
	cmpT("LE_TIME_TIME", "<=", func(x, y time.Time) bool { return !x.After(y) })
	cmpT("GT_TIME_TIME", ">", func(x, y time.Time) bool { return x.After(y) })
	cmpT("GE_TIME_TIME", ">=", func(x, y time.Time) bool { return !x.Before(y) })

	num1("ABS_NUM", "abs", math.Abs)
	num1("ROUND_NUM", "round", roundHalfAway)
	num1("CEIL_NUM", "ceil", math.Ceil)
	num1("FLOOR_NUM", "floor", math.Floor)
	num2("MAX_NUM_NUM", "max", math.Max)
	num2("MIN_NUM_NUM", "min", math.Min)
	fold := func(id, name string, f func(x, y float64) float64) {
		strict(id, name, []*Ty{ListOf(TNum)}, TNum, func(c *ectx, t *Term, x []RVal) (RVal, string) {
			if len(x[0].L) == 0 {
				c.tag(t, "empty-list")
				return RNum(0), ""
			}
			m := x[0].L[0].N
			for _, e := range x[0].L[1:] {
				m = f(m, e.N)
			}
			return RNum(m), ""
		})
	}
	fold("MAX_LIST", "max", math.Max)
	fold("MIN_LIST", "min", math.Min)

	strict("LEN_STR", "len", []*Ty{TStr}, TNum, func(c *ectx, t *Term, x []RVal) (RVal, string) {
		if len(x[0].S) != utf8.RuneCountInString(x[0].S) {
			c.tag(t, "non-ascii")
		}
		return RNum(float64(utf8.RuneCountInString(x[0].S))), ""
	})
	strict("LEN_LIST", "len", []*Ty{la}, TNum, func(c *ectx, t *Term, x []RVal) (RVal, string) { return RNum(float64(len(x[0].L))), "" })
	strict("LEN_MAP", "len", []*Ty{mkv}, TNum, func(c *ectx, t *Term, x []RVal) (RVal, string) { return RNum(float64(len(x[0].Keys))), "" })

	cond := func(c *ectx, t *Term) (RVal, string) {
		b, f := c.eval(t.Args[0])
		if f != "" {
			return RVal{}, f
		}
		if b.B {
			return c.eval(t.Args[1])
		}
		return c.eval(t.Args[2])
	}
	lazy("IF_BOOL_ANY_ANY", "if", []*Ty{TBool, a, a}, a, cond)
	and := func(c *ectx, t *Term) (RVal, string) {
		b, f := c.eval(t.Args[0])
		if f != "" {
			return RVal{}, f
		}
		if !b.B {
			return RBool(false), ""
		}
		return c.eval(t.Args[1])
	}
	or := func(c *ectx, t *Term) (RVal, string) {
		b, f := c.eval(t.Args[0])
		if f != "" {
			return RVal{}, f
		}
		if b.B {
			return RBool(true), ""
		}
		return c.eval(t.Args[1])
	}
	not := func(c *ectx, t *Term, x []RVal) (RVal, string) { return RBool(!x[0].B), "" }
	lazy("LOGIC_AND_BOOL_BOOL", "&&", b2, TBool, and)
	lazy("LOGIC_OR_BOOL_BOOL", "||", b2, TBool, or)
	strict("LOGIC_NOT_BOOL", "!", []*Ty{TBool}, TBool, not)

	strict("MATCH_STR_STR", "match", s2, TBool, func(c *ectx, t *Term, x []RVal) (RVal, string) {
		re, err := regexp.Compile(x[0].S)
		if err != nil {
			c.tag(t, "bad-pattern")
			return RVal{}, FRegex
		}
		return RBool(re.MatchString(x[1].S)), ""
	})
	strict("STRING_ANY", "string", []*Ty{a}, TStr, func(c *ectx, t *Term, x []RVal) (RVal, string) {
		scanNums(x[0], func(f float64) {
			if beyondInt64(f) {
				c.tag(t, "num>=2^63")
			}
		})
		if hasMultiMap(x[0]) {
			c.tag(t, "multi-entry-map")
			c.repeat = true
		}
		if repeatedComposite(x[0]) {
			c.tag(t, "same-composite-twice")
		}
		return RStr(strOf(x[0])), ""
	})
	strict("ISSET_MAP_ANY", "isset", []*Ty{mkv, k}, TBool, func(c *ectx, t *Term, x []RVal) (RVal, string) {
		c.keyEdge(t, x[1], x[0].Keys)
		return RBool(findKey(x[0].Keys, x[1]) >= 0), ""
	})
	strict("GET_MAYBE", "get", []*Ty{MaybeOf(a), a}, a, func(c *ectx, t *Term, x []RVal) (RVal, string) {
		if x[0].P == nil {
			c.tag(t, "absent")
			return x[1], ""
		}
		return *x[0].P, ""
	})
	strict("GET_LIST_NUM_ANY", "get", []*Ty{la, TNum, a}, a, func(c *ectx, t *Term, x []RVal) (RVal, string) {
		idx, tag := c.index(x[1].N, len(x[0].L))
		c.tag(t, tag)
		if idx < 0 || idx >= int64(len(x[0].L)) {
			return x[2], ""
		}
		return x[0].L[idx], ""
	})
	strict("GET_MAP_ANY_ANY", "get", []*Ty{mkv, k, v}, v, func(c *ectx, t *Term, x []RVal) (RVal, string) {
		c.keyEdge(t, x[1], x[0].Keys)
		if j := findKey(x[0].Keys, x[1]); j >= 0 {
			return x[0].L[j], ""
		}
		c.tag(t, "key-absent")
		return x[2], ""
	})
	strict("STRTOTIME_STR", "strtotime", []*Ty{TStr}, TTime, func(c *ectx, t *Term, x []RVal) (RVal, string) {
		tm, ok := parseAbsTime(x[0].S)
		if !ok {
			c.unspec = true // only absolute date-time forms are specified
			c.clock = true  // relative / unparsable forms are resolved against time.Now()
		}
		return RTime(tm), ""
	})
	strict("INTERSECT_LIST_LIST", "intersect", []*Ty{la, la}, la, func(c *ectx, t *Term, x []RVal) (RVal, string) {
		c.setEdge(t, append(append([]RVal{}, x[0].L...), x[1].L...)...)
		out := []RVal{}
		for _, e := range dedup(x[0].L) {
			if memberOf(x[1].L, e) {
				out = append(out, e)
			}
		}
		return RList(out...), ""
	})
	strict("UNION_LIST_LIST", "union", []*Ty{la, la}, la, func(c *ectx, t *Term, x []RVal) (RVal, string) {
		c.setEdge(t, append(append([]RVal{}, x[0].L...), x[1].L...)...)
		return RList(dedup(append(append([]RVal{}, x[0].L...), x[1].L...))...), ""
	})
	strict("DIFF_LIST_LIST", "diff", []*Ty{la, la}, la, func(c *ectx, t *Term, x []RVal) (RVal, string) {
		c.setEdge(t, append(append([]RVal{}, x[0].L...), x[1].L...)...)
		out := []RVal{}
		for _, e := range dedup(x[0].L) {
			if !memberOf(x[1].L, e) {
				out = append(out, e)
			}
		}
		return RList(out...), ""
	})
	strict("PRINT_ANY", "print", []*Ty{a}, a, func(c *ectx, t *Term, x []RVal) (RVal, string) { return x[0], "" })

	// ---- functions registered on the engine by the harness
	host := func(s *Sig) { s.Host = true }
	host(lazy("H_AND", "and", b2, TBool, and))
	host(lazy("H_OR", "or", b2, TBool, or))
	host(strict("H_NOT", "not", []*Ty{TBool}, TBool, not))
	host(strict("H_TR", "tr", n1, TNum, func(c *ectx, t *Term, x []RVal) (RVal, string) {
		c.trace = append(c.trace, "tr("+x[0].Render()+")")
		return x[0], ""
	}))
	host(strict("H_TRS", "trs", []*Ty{TStr}, TStr, func(c *ectx, t *Term, x []RVal) (RVal, string) {
		c.trace = append(c.trace, "trs("+x[0].Render()+")")
		return x[0], ""
	}))
	host(strict("H_ID", "id", []*Ty{a}, a, func(c *ectx, t *Term, x []RVal) (RVal, string) {
		c.trace = append(c.trace, "id("+x[0].Render()+")")
		return x[0], ""
	}))
	host(lazy("H_PICK", "pick", []*Ty{TBool, a, a}, a, func(c *ectx, t *Term) (RVal, string) {
		c.trace = append(c.trace, "pick")
		return cond(c, t)
	}))
	host(strict("H_GETA", "geta", []*Ty{tyO}, TNum, func(c *ectx, t *Term, x []RVal) (RVal, string) {
		c.trace = append(c.trace, "geta("+x[0].Render()+")")
		r, _ := x[0].Field("a")
		return r, ""
	}))
	host(strict("H_BOOM", "boom", n1, TNum, func(c *ectx, t *Term, x []RVal) (RVal, string) {
		c.trace = append(c.trace, "boom("+x[0].Render()+")")
		return RVal{}, FHost
	}))
}

// cmpEdge: structural == on containers: open when numbers are non-finite or
// map keys are delicate.
func (c *ectx) cmpEdge(t *Term, a, b RVal) {
	for _, v := range []RVal{a, b} {
		scanNums(v, func(f float64) {
			if math.IsNaN(f) {
				c.tag(t, "nan")
			}
		})
		if hasBeyondKey(v) {
			c.tag(t, "num>=2^63")
		}
	}
}

func hasBeyondKey(v RVal) bool {
	switch v.K {
	case KList, KObj:
		for _, e := range v.L {
			if hasBeyondKey(e) {
				return true
			}
		}
	case KMap:
		for _, k := range v.Keys {
			if k.K == KNum && beyondInt64(k.N) {
				return true
			}
		}
		for _, e := range v.L {
			if hasBeyondKey(e) {
				return true
			}
		}
	case KMaybe:
		if v.P != nil {
			return hasBeyondKey(*v.P)
		}
	}
	return false
}

func hasMixed(t *Term) bool {
	if t.Mixed {
		return true
	}
	for _, a := range t.Args {
		if hasMixed(a) {
			return true
		}
	}
	return false
}
