package host

import (
	"fmt"
	"math/rand"
	"reflect"
	"strings"
	"time"

	yae "github.com/goghcrow/yae"
	"github.com/goghcrow/yae/conv"
	"github.com/goghcrow/yae/types"
	"github.com/goghcrow/yae/val"
)

// ---------------------------------------------------------------------------
// the expression pool

type c13expr struct {
	src   string
	class string // input class for failure keys
	print bool   // the program writes through print (outermost call)
}

func c13Pool() []c13expr {
	return []c13expr{
		{"a + 1", "scalar", false},
		{`s + "y"`, "scalar", false},
		{"len(xs) + max(xs)", "scalar", false},
		{`if(a > 1, s, "z")`, "scalar", false},
		{`m["k1"] + a`, "scalar", false},
		{`get(mn, 10, "none")`, "scalar", false},
		{"o.p + len(o.q)", "scalar", false},
		{"string(xs)", "scalar", false},
		{"string(o)", "scalar", false},
		{"string(t)", "scalar", false},
		{"t", "scalar", false},
		{"xs", "list-or-object-result", false},
		{"o", "list-or-object-result", false},
		{"string(m)", "string-of-map", false},
		{"string(mn)", "string-of-map", false},
		{`string(["a":1,"b":2,"c":3,"d":4])`, "string-of-map", false},
		{"string({p: m})", "string-of-map", false},
		{"string([m])", "string-of-map", false},
		{"m", "map-result", false},
		{"mn", "map-result", false},
		{`["a":1,"b":2,"c":3,"d":4]`, "map-result", false},
		{`[m, ["z":0]]`, "map-result", false},
		// number-keyed maps whose keys do not order like their texts, incl. NaN
		// (incomparable: an ordering by magnitude cannot place it) and infinities
		{`[0/0: "nan", 1: "a", 2: "b", 3: "c", 10: "d", 20: "e"]`, "map-result", false},
		{`string([0/0: "nan", 1: "a", 2: "b", 10: "d", 1/0: "inf", 0-1/0: "ninf"])`, "string-of-map", false},
		{`string([2: "b", 10: "d", 1.5: "x", 100: "c"])`, "string-of-map", false},
		{`len(union([[0/0: "x", 1: "a", 2: "b", 3: "c"]], [[0/0: "x", 1: "a", 2: "b", 3: "c"]]))`, "union", false},
		{"union(xs, ys)", "union", false},
		{"len(union(xs, ys))", "union", false},
		{"intersect(xs, ys)", "intersect-diff", false},
		{"diff(xs, ys)", "intersect-diff", false},
		{"print(a)", "print", true},
		{"print(m)", "print", true},
		{"print(xs)", "print", true},
		{"string([xs, xs])", "shared-subvalue", false},
		{"[o, o]", "shared-subvalue", false},
		{"{p: m, q: m}", "shared-subvalue", false},
	}
}

func c13Content() *menv {
	return newMenv(
		"a", vNum(2),
		"s", vStr("x"),
		"xs", vList(tNum, vNum(1), vNum(2), vNum(2), vNum(3)),
		"ys", vList(tNum, vNum(2), vNum(4)),
		"m", vMap(tStr, tNum, vStr("k1"), vNum(1), vStr("k2"), vNum(2), vStr("k3"), vNum(3), vStr("k4"), vNum(4), vStr("k5"), vNum(5)),
		"mn", vMap(tNum, tStr, vNum(1), vStr("a"), vNum(2), vStr("b"), vNum(10), vStr("c"), vNum(3.5), vStr("d")),
		"o", vObj("p", vNum(1), "q", vStr("z")),
		"t", vTime(time.Date(2020, 5, 6, 7, 8, 9, 0, time.UTC)),
	)
}

// ---------------------------------------------------------------------------
// shared environment objects

var c13Kinds = []string{"struct", "*struct", "map", "raw"}

// c13objs: one set of environment objects that a history reuses, plus an
// untouched twin for the "host values unmodified" comparison.
type c13objs struct {
	hs, hp, hm          interface{}
	twinS, twinP, twinM interface{}
	rt                  *types.Env
	rv                  *val.Env
	rtUses, rvUses      int
	content             *menv
}

// objects are created on first use (a history touches at most two kinds)
func newC13objs(content *menv) *c13objs { return &c13objs{content: content} }

func (o *c13objs) host(kind string) interface{} {
	switch kind {
	case "struct":
		if o.hs == nil {
			o.hs, o.twinS = o.content.valueSide(formStruct), o.content.valueSide(formStruct)
		}
		return o.hs
	case "*struct":
		if o.hp == nil {
			o.hp, o.twinP = o.content.valueSide(formStructPtr), o.content.valueSide(formStructPtr)
		}
		return o.hp
	default:
		if o.hm == nil {
			o.hm, o.twinM = o.content.valueSide(formMapIface), o.content.valueSide(formMapIface)
		}
		return o.hm
	}
}

func (o *c13objs) compileObj(kind string) interface{} {
	if kind != "raw" {
		return o.host(kind)
	}
	if o.rt == nil {
		o.rt = o.content.typeSide(formRaw).(*types.Env)
	}
	return o.rt
}

func (o *c13objs) invokeObj(kind string) interface{} {
	if kind != "raw" {
		return o.host(kind)
	}
	if o.rv == nil {
		o.rv = o.content.valueSide(formRaw).(*val.Env)
	}
	return o.rv
}

func (o *c13objs) checkUnmodified(c *Ctx, in string) {
	if o.hs != nil && !reflect.DeepEqual(o.hs, o.twinS) {
		c.fail("C13/host-values-unmodified/struct", in, "host struct unchanged", fmt.Sprintf("%+v", o.hs), "")
	}
	if o.hp != nil && !reflect.DeepEqual(o.hp, o.twinP) {
		c.fail("C13/host-values-unmodified/*struct", in, "host struct behind the pointer unchanged", fmt.Sprintf("%+v", o.hp), "")
	}
	if o.hm != nil && !reflect.DeepEqual(o.hm, o.twinM) {
		c.fail("C13/host-values-unmodified/map", in, "host map unchanged", fmt.Sprintf("%+v", o.hm), "")
	}
}

// ---------------------------------------------------------------------------
// baseline: a fresh engine and fresh environment objects per expression

type c13base struct {
	text   string // canonical rendering of the result
	stdout string
	ok     bool
}

func c13Baseline(backend string, e c13expr, content *menv) c13base {
	var b c13base
	b.stdout = captureStdout(func() {
		cl, _ := compile(newEngine(backend, nil), e.src, content.valueSide(formStruct))
		if cl == nil {
			return
		}
		res := call(cl, content.valueSide(formStruct))
		if res.ok() {
			b.ok = true
			b.text = safeString(res.V)
		}
	})
	return b
}

// ---------------------------------------------------------------------------

type c13run struct {
	c        *Ctx
	backend  string
	engine   *yae.Expr
	content  *menv
	baseline map[string]c13base
}

// doCompile compiles on the shared engine with the shared object.
func (r *c13run) doCompile(in string, e c13expr, o *c13objs, kind string) yae.Callable {
	r.c.R.Evaluations++
	var cl yae.Callable
	var out outcome
	so := captureStdout(func() { cl, out = compile(r.engine, e.src, o.compileObj(kind)) })
	reused := false
	if kind == "raw" {
		reused = o.rtUses > 0
		o.rtUses++
	}
	if cl == nil {
		key := "C13/repeat-no-error/compile-with-" + kind
		if reused {
			key = "C13/env-reusable/types-env"
		}
		r.c.fail(key, in, "compiles (the environment object stays usable)", out.String(), "")
	}
	if so != "" {
		r.c.fail("C13/stdout-only-print/compile", in, "nothing on stdout while compiling", fmt.Sprintf("%q", so), "")
	}
	return cl
}

// doInvoke invokes and compares with the baseline.
func (r *c13run) doInvoke(in string, e c13expr, cl yae.Callable, o *c13objs, kind string) {
	if cl == nil {
		return
	}
	r.c.R.Evaluations++
	var res outcome
	so := captureStdout(func() { res = call(cl, o.invokeObj(kind)) })
	reused := false
	if kind == "raw" {
		reused = o.rvUses > 0
		o.rvUses++
	}
	base := r.baseline[e.src]
	if !res.ok() {
		key := "C13/repeat-no-error/invoke-with-" + kind
		if reused {
			key = "C13/env-reusable/val-env"
		}
		r.c.fail(key, in, "the baseline result "+base.text+" (the environment object stays usable)", res.String(), "")
		return
	}
	if got := safeString(res.V); got != base.text {
		r.c.fail("C13/deterministic-result/"+e.class, in, "same as the fresh-engine baseline: "+base.text, got, "")
	}
	c13Stdout(r.c, in, e, so, res)
}

func c13Stdout(c *Ctx, in string, e c13expr, so string, res outcome) {
	if e.print {
		if want := safeString(res.V) + "\n"; so != want {
			c.fail("C13/stdout-only-print/print-output", in, fmt.Sprintf("%q", want), fmt.Sprintf("%q", so), "")
		}
	} else if so != "" {
		c.fail("C13/stdout-only-print/"+e.class, in, "nothing on stdout (the program does not call print)", fmt.Sprintf("%q", so), "")
	}
}

func runC13(c *Ctx) {
	r := c.R
	pool := c13Pool()
	content := c13Content()
	partners := []int{0, 13, 22, 26, 18} // a + 1, string(m), union, print(a), m
	if c.Thorough {
		partners = []int{0, 13, 22, 26, 18, 3, 7, 11, 15, 20, 24, 27, 29, 31}
	}
	nRandom := 3000
	if c.Thorough {
		nRandom = 30000
	}
	r.Contract = "histories of Compile / Callable calls on one engine with shared environment objects: (reuse) no operation fails because an object (host struct, pointer to it, host map, *types.Env, *val.Env, Callable, engine) was used before; (same) every result's canonical rendering equals the fresh-engine, fresh-environment baseline of the same back end; (text) string(v) inside programs and Val.String() of values with multi-entry maps are identical over 200 repetitions and across vm / closure / interp; (stdout) captured stdout is empty unless the program calls print, and then it is exactly the rendering and a newline; (host) host struct / map deep-equal to an untouched twin afterwards"
	r.Space = fmt.Sprintf("pool of %d expressions over one environment content (num, str, two lists, map[str,num] with 5 entries, map[num,str] with 4, object, time); history template [c1=Compile(e1,T); c2=Compile(e2,T); c1(V); c2(V); c1(V); c3=Compile(e1,T); c3(V)] for every e1 in the pool, e2 in %d partner expressions, T and V in {host struct, *struct, map[string]interface{}, raw env}, 3 back ends, objects fresh per history and shared inside it, engine shared by all histories of a back end; 200-fold repetition of the 9 map-rendering expressions and of conv.ValOf(host map).String() per back end; one random history of %d operations per back end over all expressions, a pool of callables and one set of shared objects (seed %d)", len(pool), len(partners), nRandom, c.Seed)
	r.Rule = "distinct = distinct (back end, e1, e2, T, V) history, distinct (back end, expression) repetition experiment, distinct (back end, operation, expression, object kind, first-use/reuse) random operation; non-trivial = the history reuses at least one object (all of them do by construction)"
	r.Exhaustive = true

	for _, backend := range backends {
		run := &c13run{c: c, backend: backend, engine: newEngine(backend, nil), content: content, baseline: map[string]c13base{}}
		for _, e := range pool {
			b := c13Baseline(backend, e, content)
			if !b.ok {
				c.fail("C13/setup/baseline", e.src+" ["+backend+"]", "baseline evaluates", "failed", "")
			}
			run.baseline[e.src] = b
			c.R.Evaluations++
		}
		// exhaustive history templates
		for i1, e1 := range pool {
			for _, i2 := range partners {
				e2 := pool[i2]
				for _, kc := range c13Kinds {
					for _, ki := range c13Kinds {
						h := fmt.Sprintf("[%s] T=%s V=%s e1=`%s` e2=`%s`", backend, kc, ki, e1.src, e2.src)
						c.distinct[h] = struct{}{}
						if i1 == 13 && i2 == 22 {
							c.R.Sample("history " + h + ": c1=Compile(e1,T); c2=Compile(e2,T); c1(V); c2(V); c1(V); c3=Compile(e1,T); c3(V)")
						}
						o := newC13objs(content)
						c1 := run.doCompile(h+" op1 c1=Compile(e1,T)", e1, o, kc)
						c2 := run.doCompile(h+" op2 c2=Compile(e2,T) (T reused)", e2, o, kc)
						run.doInvoke(h+" op3 c1(V)", e1, c1, o, ki)
						run.doInvoke(h+" op4 c2(V) (V reused)", e2, c2, o, ki)
						run.doInvoke(h+" op5 c1(V) (c1 and V reused)", e1, c1, o, ki)
						c3 := run.doCompile(h+" op6 c3=Compile(e1,T) (T reused)", e1, o, kc)
						run.doInvoke(h+" op7 c3(V) (V reused)", e1, c3, o, ki)
						o.checkUnmodified(c, h)
					}
				}
			}
		}
		c13Repetitions(c, run, pool)
		c13Random(c, run, pool, nRandom)
	}
	c13CrossBackend(c, pool, content)
	r.Bound = fmt.Sprintf("%d histories of 7 operations (all combinations stated), %d repetition experiments of 200 evaluations, 3 random histories of %d operations", 3*len(pool)*len(partners)*16, 3*10, nRandom)
	r.Notes = append(r.Notes,
		"the baseline is produced by the code under test (fresh engine, fresh environments); for order-dependent renderings it is one arbitrary order, later evaluations that differ from it are the violation",
		"hash-map iteration order cannot be controlled from outside; 200 repetitions of a 4-5 entry map make an order dependence show with overwhelming probability",
	)
}

// c13Repetitions: the same Callable, a fresh host environment each time, 200
// evaluations; the text must never change.
func c13Repetitions(c *Ctx, run *c13run, pool []c13expr) {
	for _, e := range pool {
		if e.class != "string-of-map" && e.class != "map-result" {
			continue
		}
		in := fmt.Sprintf("[%s] `%s` evaluated 200 times (same Callable, equal fresh host struct each time)", run.backend, e.src)
		c.distinct["rep:"+in] = struct{}{}
		cl, _ := compile(run.engine, e.src, run.content.valueSide(formStruct))
		if cl == nil {
			c.fail("C13/repeat-no-error/compile-with-struct", in, "compiles", "failed", "")
			continue
		}
		first := ""
		reported := false
		for i := 0; i < 200; i++ {
			c.R.Evaluations++
			res := call(cl, run.content.valueSide(formStruct))
			if !res.ok() {
				c.fail("C13/repeat-no-error/invoke-with-struct", in, "evaluates", res.String(), fmt.Sprintf("repetition %d", i))
				break
			}
			got := safeString(res.V)
			if i == 0 {
				first = got
			} else if got != first && !reported {
				// keep going: the number of evaluations must not depend on
				// the (random) repetition at which the order first changes
				reported = true
				c.fail("C13/deterministic-result/"+e.class, in, "the same text every time: "+first, got, fmt.Sprintf("repetition %d", i))
			}
		}
	}
	// Val.String() of a converted host map built with varying insertion order
	in := fmt.Sprintf("[%s] conv.ValOf(map[string]int with 6 entries inserted in rotating order).String() 200 times", run.backend)
	c.distinct["rep:"+in] = struct{}{}
	keys := []string{"k1", "k2", "k3", "k4", "k5", "k6"}
	first := ""
	reported2 := false
	for i := 0; i < 200; i++ {
		c.R.Evaluations++
		m := map[string]int{}
		for j := range keys {
			k := keys[(i+j)%len(keys)]
			m[k] = int(k[1] - '0')
		}
		v, err := conv.ValOf(m)
		if err != nil {
			c.fail("C13/repeat-no-error/convert", in, "converts", err.Error(), "")
			break
		}
		got := safeString(v)
		if i == 0 {
			first = got
		} else if got != first && !reported2 {
			reported2 = true
			c.fail("C13/deterministic-result/map-result", in, "the same text every time: "+first, got, fmt.Sprintf("repetition %d", i))
		}
	}
}

// c13CrossBackend: string conversion agrees across the back ends.
func c13CrossBackend(c *Ctx, pool []c13expr, content *menv) {
	for _, e := range pool {
		if e.class != "string-of-map" && e.class != "map-result" {
			continue
		}
		texts := map[string]string{}
		for _, backend := range backends {
			c.R.Evaluations++
			cl, _ := compile(newEngine(backend, nil), e.src, content.valueSide(formStruct))
			if cl == nil {
				continue
			}
			if res := call(cl, content.valueSide(formStruct)); res.ok() {
				texts[backend] = safeString(res.V)
			}
		}
		in := fmt.Sprintf("`%s` on vm, closure, interp", e.src)
		c.distinct["x:"+in] = struct{}{}
		for _, b := range backends[1:] {
			if texts[b] != texts[backends[0]] {
				c.fail("C13/deterministic-result/"+e.class, in, "the same text on every back end: "+texts[backends[0]], b+": "+texts[b], "")
				break
			}
		}
	}
}

// c13Random: one long interleaved history over shared objects.
func c13Random(c *Ctx, run *c13run, pool []c13expr, n int) {
	rr := rand.New(rand.NewSource(c.Seed*7919 + int64(len(run.backend))))
	o := newC13objs(run.content)
	type compiled struct {
		e    c13expr
		cl   yae.Callable
		uses int
	}
	var cls []*compiled
	var log []string
	for i := 0; i < n; i++ {
		if len(cls) == 0 || rr.Intn(4) == 0 {
			e := pool[rr.Intn(len(pool))]
			kind := c13Kinds[rr.Intn(len(c13Kinds))]
			op := fmt.Sprintf("c%d=Compile(`%s`, %s)", len(cls), e.src, kind)
			log = append(log, op)
			reuse := "first"
			if kind == "raw" && o.rtUses > 0 {
				reuse = "reuse"
			}
			c.distinct[fmt.Sprintf("rnd:%s:compile:%s:%s:%s", run.backend, e.src, kind, reuse)] = struct{}{}
			cl := run.doCompile(fmt.Sprintf("[%s] random history (seed %d) op %d: %s; preceded by … %s", run.backend, c.Seed, i, op, tail(log, 4)), e, o, kind)
			if cl != nil {
				if len(cls) >= 40 {
					cls[rr.Intn(len(cls))] = &compiled{e, cl, 0}
				} else {
					cls = append(cls, &compiled{e, cl, 0})
				}
			}
			continue
		}
		k := rr.Intn(len(cls))
		kind := c13Kinds[rr.Intn(len(c13Kinds))]
		op := fmt.Sprintf("c%d(%s) [`%s`]", k, kind, cls[k].e.src)
		log = append(log, op)
		reuse := "first"
		if cls[k].uses > 0 || (kind == "raw" && o.rvUses > 0) {
			reuse = "reuse"
		}
		c.distinct[fmt.Sprintf("rnd:%s:invoke:%s:%s:%s", run.backend, cls[k].e.src, kind, reuse)] = struct{}{}
		cls[k].uses++
		run.doInvoke(fmt.Sprintf("[%s] random history (seed %d) op %d: %s; preceded by … %s", run.backend, c.Seed, i, op, tail(log, 4)), cls[k].e, cls[k].cl, o, kind)
	}
	o.checkUnmodified(c, fmt.Sprintf("[%s] random history (seed %d)", run.backend, c.Seed))
}

func tail(xs []string, n int) string {
	if len(xs) > n {
		xs = xs[len(xs)-n:]
	}
	return strings.Join(xs, "; ")
}
