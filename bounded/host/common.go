// Package host is the bounded stand-in harness group "host": run-time
// assertion checking, on the real yae code, of the contracts of properties
// C07, C13, C15, C18 and C20 over exhaustively enumerated small inputs plus
// seeded random larger ones.  It is not a proof.
package host

import (
	"fmt"
	"io"
	"math/rand"
	"os"
	"runtime/debug"
	"sort"
	"strings"
	"sync"
	"time"

	"bounded/report"

	yae "github.com/goghcrow/yae"
	"github.com/goghcrow/yae/closure"
	"github.com/goghcrow/yae/interp"
	"github.com/goghcrow/yae/types"
	"github.com/goghcrow/yae/val"
	"github.com/goghcrow/yae/vm"
)

// Ctx carries the report under construction and the run parameters.
type Ctx struct {
	R        *report.Report
	Thorough bool
	Seed     int64
	Rng      *rand.Rand
	distinct map[string]struct{}
}

func newCtx(prop, tier string, seed int64) *Ctx {
	return &Ctx{
		R:        &report.Report{Property: prop},
		Thorough: tier == "thorough",
		Seed:     seed,
		Rng:      rand.New(rand.NewSource(seed)),
		distinct: map[string]struct{}{},
	}
}

// eval counts one executed case; when nontrivial it also records the input
// descriptor in the set of distinct non-trivial inputs.
func (c *Ctx) eval(desc string, nontrivial bool) {
	c.R.Evaluations++
	if nontrivial {
		c.distinct[desc] = struct{}{}
	}
}

func (c *Ctx) finish() *report.Report {
	c.R.DistinctNontrivial = len(c.distinct)
	return c.R
}

func (c *Ctx) fail(key, input, expected, got, detail string) {
	c.R.AddFailure(report.Failure{Key: key, Input: input, Expected: expected, Got: got, Detail: detail})
}

// Run dispatches on the property id.
func Run(prop, tier string, seed int64) (*report.Report, error) {
	// the engine reads values through unchecked casts; on a tree whose checks
	// are broken a wrongly typed read faults.  Turn such faults into panics
	// (caught by guard and reported) instead of losing the whole report.
	debug.SetPanicOnFault(true)
	// many short-lived engines and environments: collect less often
	debug.SetGCPercent(800)
	c := newCtx(prop, tier, seed)
	switch prop {
	case "C07":
		runC07(c)
	case "C13":
		runC13(c)
	case "C15":
		runC15(c)
	case "C18":
		runC18(c)
	case "C20":
		runC20(c)
	default:
		return nil, fmt.Errorf("group host does not implement property %s", prop)
	}
	return c.finish(), nil
}

// ---------------------------------------------------------------------------
// guarded calls

// guard runs f and converts a panic into (true, text).
func guard(f func()) (panicked bool, msg string) {
	// the call runs in its own goroutine under a time limit: an API call that
	// never returns is reported (as a failure of the call) instead of
	// hanging the harness; the abandoned goroutine dies with the process
	type res struct {
		p   bool
		msg string
	}
	ch := make(chan res, 1)
	go func() {
		defer func() {
			if r := recover(); r != nil {
				ch <- res{true, fmt.Sprint(r)}
			}
		}()
		f()
		ch <- res{}
	}()
	select {
	case r := <-ch:
		return r.p, r.msg
	case <-time.After(10 * time.Second):
		return true, "no result after 10s (the call does not terminate)"
	}
}

// outcome of one API call: a value, a returned error, or an escaped panic.
type outcome struct {
	V     *val.Val
	Err   error
	Panic string // non-empty: a panic escaped the API
}

func (o outcome) ok() bool { return o.Err == nil && o.Panic == "" && o.V != nil }

func (o outcome) String() string {
	switch {
	case o.Panic != "":
		return "PANIC(" + o.Panic + ")"
	case o.Err != nil:
		return "error(" + o.Err.Error() + ")"
	case o.V == nil:
		return "nil value"
	default:
		return safeString(o.V)
	}
}

func safeString(v *val.Val) (s string) {
	if v == nil {
		return "<nil>"
	}
	if p, msg := guard(func() { s = v.String() }); p {
		return "String() panicked: " + msg
	}
	return
}

func call(c yae.Callable, env interface{}) (o outcome) {
	p, msg := guard(func() { o.V, o.Err = c(env) })
	if p {
		o = outcome{Panic: msg}
	}
	return
}

func compile(e *yae.Expr, src string, env interface{}) (c yae.Callable, o outcome) {
	p, msg := guard(func() { c, o.Err = e.Compile(src, env) })
	if p {
		o = outcome{Panic: msg}
		c = nil
	}
	return
}

// ---------------------------------------------------------------------------
// engines

var backends = []string{"vm", "closure", "interp"}

// trace records the arguments of the strict tracing host functions.
type trace struct{ log []string }

func (t *trace) reset() { t.log = t.log[:0] }

// newEngine returns a fresh engine with the chosen back end and the tracing
// host functions tr :: num -> num and trs :: str -> str (identity, strict,
// record their argument).
func newEngine(backend string, t *trace) *yae.Expr {
	e := yae.NewExpr()
	switch backend {
	case "vm":
		e.UseCompiler(vm.Compile)
	case "closure":
		e.UseCompiler(closure.Compile)
	case "interp":
		e.UseCompiler(interp.Interp)
	default:
		panic("unknown back end " + backend)
	}
	if t != nil {
		e.RegisterFun(
			val.Fun(types.Fun("tr", []*types.Type{types.Num}, types.Num), func(a ...*val.Val) *val.Val {
				t.log = append(t.log, fmt.Sprintf("tr(%v)", a[0].Num().V))
				return a[0]
			}),
			val.Fun(types.Fun("trs", []*types.Type{types.Str}, types.Str), func(a ...*val.Val) *val.Val {
				t.log = append(t.log, fmt.Sprintf("trs(%q)", a[0].Str().V))
				return a[0]
			}),
		)
	}
	return e
}

// ---------------------------------------------------------------------------
// stdout capture

var stdoutMu sync.Mutex

var (
	capFile *os.File
	capPos  int64
)

// captureStdout runs f with os.Stdout redirected to a scratch file and
// returns what was written (the file is reused between calls; a pipe per
// call costs two system calls and a goroutine more).
func captureStdout(f func()) string {
	stdoutMu.Lock()
	defer stdoutMu.Unlock()
	if capFile == nil {
		tf, err := os.CreateTemp("", "host-stdout-*")
		if err != nil {
			panic(err)
		}
		os.Remove(tf.Name())
		capFile = tf
	}
	if capPos > 1<<20 {
		capFile.Truncate(0)
		capFile.Seek(0, io.SeekStart)
		capPos = 0
	}
	old := os.Stdout
	os.Stdout = capFile
	func() {
		defer func() { os.Stdout = old }()
		f()
	}()
	end, err := capFile.Seek(0, io.SeekCurrent)
	if err != nil {
		panic(err)
	}
	if end == capPos {
		return ""
	}
	buf := make([]byte, end-capPos)
	if _, err := capFile.ReadAt(buf, capPos); err != nil {
		panic(err)
	}
	capPos = end
	return string(buf)
}

// muteStdout runs f with os.Stdout pointing at /dev/null (used where stdout
// is not what the property is about, e.g. C18 calls `union`).
func muteStdout(f func()) {
	stdoutMu.Lock()
	defer stdoutMu.Unlock()
	null, err := os.OpenFile(os.DevNull, os.O_WRONLY, 0)
	if err != nil {
		panic(err)
	}
	old := os.Stdout
	os.Stdout = null
	defer func() {
		os.Stdout = old
		null.Close()
	}()
	f()
}

// ---------------------------------------------------------------------------
// small helpers

func sortedKeys(m map[string]struct{}) []string {
	ks := make([]string, 0, len(m))
	for k := range m {
		ks = append(ks, k)
	}
	sort.Strings(ks)
	return ks
}

func clip(s string, n int) string {
	if len(s) <= n {
		return s
	}
	return s[:n] + "…(" + fmt.Sprint(len(s)) + " bytes)"
}

func joinNonEmpty(xs ...string) string {
	out := []string{}
	for _, x := range xs {
		if x != "" {
			out = append(out, x)
		}
	}
	return strings.Join(out, "; ")
}

// permutations of 0..n-1 in lexicographic order.
func permutations(n int) [][]int {
	var res [][]int
	var rec func(cur []int, used []bool)
	rec = func(cur []int, used []bool) {
		if len(cur) == n {
			res = append(res, append([]int(nil), cur...))
			return
		}
		for i := 0; i < n; i++ {
			if !used[i] {
				used[i] = true
				rec(append(cur, i), used)
				used[i] = false
			}
		}
	}
	rec(nil, make([]bool, n))
	return res
}
