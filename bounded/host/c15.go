package host

import (
	"fmt"
	"math"
	"math/rand"
	"reflect"
	"sort"
	"strings"
	"time"
	"unsafe"

	yae "github.com/goghcrow/yae"
	"github.com/goghcrow/yae/conv"
	"github.com/goghcrow/yae/types"
	"github.com/goghcrow/yae/val"
)

// ---------------------------------------------------------------------------
// Go shapes built by reflection

// gshape is a Go type together with a value builder.  variant 0, 1, 2 are
// fixed ("small", "other values / optional parts absent", "empty
// containers"); variant >= 3 draws from the random source.  Every variant
// keeps nil-able parts non-nil unless they are declared optional, so for
// shapes without interface-typed parts all variants must get equal types.
type gshape struct {
	name  string
	rt    reflect.Type
	iface bool // has interface-typed parts
	depth int
	build func(variant int, r *rand.Rand) reflect.Value
}

var (
	c15t0   = time.Date(2021, 3, 4, 5, 6, 7, 0, time.UTC)
	c15zone = time.FixedZone("X8", 8*3600)
)

func pick(variant int, r *rand.Rand, n int) int {
	if variant < 3 {
		return variant % n
	}
	return r.Intn(n)
}

func leafShape(name string, vals ...interface{}) *gshape {
	rt := reflect.TypeOf(vals[0])
	return &gshape{name: name, rt: rt, build: func(variant int, r *rand.Rand) reflect.Value {
		return reflect.ValueOf(vals[pick(variant, r, len(vals))])
	}}
}

type myInt int
type myStr string

// leaves used for exhaustive nesting
func nestLeaves() []*gshape {
	return []*gshape{
		leafShape("int", int(7), int(-3), int(0), int(1<<40)),
		leafShape("float64", float64(1.5), float64(-0.25), float64(0), float64(1e300)),
		leafShape("string", "a", "b\"c\\", "", "é\n"),
		leafShape("bool", true, false, false),
		leafShape("time", c15t0, c15t0.Add(time.Hour).In(c15zone), time.Time{}, c15t0.Add(123456789)),
	}
}

// every numeric kind (and named types), used at depth 0 and inside one
// container of each kind
func numericLeaves() []*gshape {
	return []*gshape{
		leafShape("int8", int8(-128), int8(127), int8(0)),
		leafShape("int16", int16(-32768), int16(32767), int16(0)),
		leafShape("int32", int32(math.MinInt32), int32(math.MaxInt32), int32(0)),
		leafShape("int64", int64(math.MinInt64), int64(math.MaxInt64), int64(0), int64(1<<53+1)),
		leafShape("uint", uint(0), uint(math.MaxUint32), uint(5)),
		leafShape("uint8", uint8(255), uint8(0), uint8(1)),
		leafShape("uint16", uint16(65535), uint16(0), uint16(1)),
		leafShape("uint32", uint32(math.MaxUint32), uint32(0), uint32(1)),
		leafShape("uint64", uint64(math.MaxUint64), uint64(0), uint64(1<<63)),
		leafShape("float32", float32(1.5), float32(math.MaxFloat32), float32(0), float32(0.1)),
		leafShape("myInt", myInt(3), myInt(-4), myInt(0)),
		leafShape("myStr", myStr("x"), myStr("y"), myStr("")),
		leafShape("duration", time.Duration(5), time.Duration(-7), time.Duration(0)),
	}
}

func sliceOf(x *gshape) *gshape {
	rt := reflect.SliceOf(x.rt)
	return &gshape{name: "[]" + x.name, rt: rt, iface: x.iface, depth: x.depth + 1,
		build: func(variant int, r *rand.Rand) reflect.Value {
			var subs []int
			switch {
			case variant == 0:
				subs = []int{0}
			case variant == 1:
				subs = []int{1, 0}
			case variant == 2:
				subs = nil
			default:
				for i, n := 0, r.Intn(4); i < n; i++ {
					subs = append(subs, 3)
				}
			}
			s := reflect.MakeSlice(rt, 0, len(subs))
			for _, sv := range subs {
				s = reflect.Append(s, x.build(sv, r))
			}
			return s
		}}
}

func arrayOf(x *gshape) *gshape {
	rt := reflect.ArrayOf(2, x.rt)
	return &gshape{name: "[2]" + x.name, rt: rt, iface: x.iface, depth: x.depth + 1,
		build: func(variant int, r *rand.Rand) reflect.Value {
			a := reflect.New(rt).Elem()
			a.Index(0).Set(x.build(variant, r))
			a.Index(1).Set(x.build(variant/2, r)) // 0,0 / 1,0 / 2,1 / 3,1
			return a
		}}
}

type keyPool struct {
	name string
	keys []interface{}
}

var keyPools = []keyPool{
	{"string", []interface{}{"k", "k2", "a b", ""}},
	{"int", []interface{}{int(-1), int(5), int(0), int(77)}},
	{"uint8", []interface{}{uint8(1), uint8(2), uint8(0), uint8(255)}},
	{"float64", []interface{}{float64(1.5), float64(-2), float64(0.25), float64(3)}},
	{"bool", []interface{}{true, false}},
	{"time", []interface{}{c15t0, c15t0.Add(250 * time.Millisecond), c15t0.Add(time.Hour).In(c15zone), time.Time{}}}, // two instants inside one second: keys must not be formed at second resolution
	{"int64", []interface{}{int64(1 << 40), int64(-9), int64(3), int64(4)}},
}

func mapOf(kp keyPool, x *gshape) *gshape {
	kt := reflect.TypeOf(kp.keys[0])
	rt := reflect.MapOf(kt, x.rt)
	return &gshape{name: "map[" + kp.name + "]" + x.name, rt: rt, iface: x.iface, depth: x.depth + 1,
		build: func(variant int, r *rand.Rand) reflect.Value {
			m := reflect.MakeMap(rt)
			switch {
			case variant == 0:
				m.SetMapIndex(reflect.ValueOf(kp.keys[0]), x.build(0, r))
			case variant == 1:
				m.SetMapIndex(reflect.ValueOf(kp.keys[1%len(kp.keys)]), x.build(1, r))
				m.SetMapIndex(reflect.ValueOf(kp.keys[0]), x.build(0, r))
			case variant == 2:
			default:
				for i, n := 0, r.Intn(4); i < n; i++ {
					m.SetMapIndex(reflect.ValueOf(kp.keys[r.Intn(len(kp.keys))]), x.build(3, r))
				}
			}
			return m
		}}
}

func ptrTo(x *gshape) *gshape {
	rt := reflect.PointerTo(x.rt)
	return &gshape{name: "*" + x.name, rt: rt, iface: x.iface, depth: x.depth + 1,
		build: func(variant int, r *rand.Rand) reflect.Value {
			p := reflect.New(x.rt)
			p.Elem().Set(x.build(variant, r))
			return p
		}}
}

// structA{F X `yae:"f"`; N int `yae:"n"`; Opt *X `yae:" opt , Maybe "`; U string}
func structA(x *gshape) *gshape {
	rt := reflect.StructOf([]reflect.StructField{
		{Name: "F", Type: x.rt, Tag: `yae:"f"`},
		{Name: "N", Type: reflect.TypeOf(int(0)), Tag: `yae:"n" json:"nn"`},
		{Name: "Opt", Type: reflect.PointerTo(x.rt), Tag: `yae:" opt , Maybe "`},
		{Name: "U", Type: reflect.TypeOf("")},
	})
	return &gshape{name: "struct{f:" + x.name + ";n:int;opt?:*" + x.name + ";U:string}", rt: rt, iface: x.iface, depth: x.depth + 1,
		build: func(variant int, r *rand.Rand) reflect.Value {
			s := reflect.New(rt).Elem()
			s.Field(0).Set(x.build(variant, r))
			s.Field(1).SetInt(int64(10 + variant))
			present := variant == 0 || variant == 2 || (variant >= 3 && r.Intn(2) == 0)
			if present {
				p := reflect.New(x.rt)
				p.Elem().Set(x.build(variant, r))
				s.Field(2).Set(p)
			}
			s.Field(3).SetString(fmt.Sprintf("u%d", variant%3))
			return s
		}}
}

// structB{P *X `yae:"p"`; M X `yae:",maybe"`}
func structB(x *gshape) *gshape {
	rt := reflect.StructOf([]reflect.StructField{
		{Name: "P", Type: reflect.PointerTo(x.rt), Tag: `yae:"p"`},
		{Name: "M", Type: x.rt, Tag: `yae:",maybe"`},
	})
	return &gshape{name: "struct{p:*" + x.name + ";M?:" + x.name + "}", rt: rt, iface: x.iface, depth: x.depth + 1,
		build: func(variant int, r *rand.Rand) reflect.Value {
			s := reflect.New(rt).Elem()
			p := reflect.New(x.rt)
			p.Elem().Set(x.build(variant, r))
			s.Field(0).Set(p)
			s.Field(1).Set(x.build(variant, r))
			return s
		}}
}

var typeOfIface = reflect.TypeOf((*interface{})(nil)).Elem()

// []interface{} holding X values (homogeneous, never empty: an empty
// interface container has no element type)
func ifaceSliceOf(x *gshape) *gshape {
	rt := reflect.SliceOf(typeOfIface)
	return &gshape{name: "[]interface{}<" + x.name + ">", rt: rt, iface: true, depth: x.depth + 1,
		build: func(variant int, r *rand.Rand) reflect.Value {
			n := 1 + variant%2
			if variant >= 3 {
				n = 1 + r.Intn(3)
			}
			s := reflect.MakeSlice(rt, 0, n)
			for i := 0; i < n; i++ {
				s = reflect.Append(s, x.build(variant, r))
			}
			return s
		}}
}

func ifaceMapOf(x *gshape) *gshape {
	rt := reflect.MapOf(reflect.TypeOf(""), typeOfIface)
	return &gshape{name: "map[string]interface{}<" + x.name + ">", rt: rt, iface: true, depth: x.depth + 1,
		build: func(variant int, r *rand.Rand) reflect.Value {
			m := reflect.MakeMap(rt)
			n := 1 + variant%2
			if variant >= 3 {
				n = 1 + r.Intn(3)
			}
			for i := 0; i < n; i++ {
				m.SetMapIndex(reflect.ValueOf(fmt.Sprintf("k%d", i)), x.build(variant, r))
			}
			return m
		}}
}

// the unary constructors of the exhaustive enumeration; the key type of
// the second map constructor rotates with a counter
func constructors(counter *int) []func(*gshape) *gshape {
	return []func(*gshape) *gshape{
		sliceOf,
		arrayOf,
		func(x *gshape) *gshape { return mapOf(keyPools[0], x) },
		func(x *gshape) *gshape {
			*counter++
			return mapOf(keyPools[1+*counter%(len(keyPools)-1)], x)
		},
		ptrTo,
		structA,
		structB,
		ifaceSliceOf,
		ifaceMapOf,
	}
}

func enumShapes(maxDepth int) []*gshape {
	counter := 0
	level := nestLeaves()
	all := append([]*gshape{}, level...)
	for d := 1; d <= maxDepth; d++ {
		var next []*gshape
		for _, x := range level {
			for _, c := range constructors(&counter) {
				next = append(next, c(x))
			}
		}
		all = append(all, next...)
		level = next
	}
	return all
}

// random shapes: deeper, structs with several fields of different shapes
func randShape(r *rand.Rand, depth int) *gshape {
	leaves := append(nestLeaves(), numericLeaves()...)
	if depth == 0 || r.Intn(6) == 0 {
		return leaves[r.Intn(len(leaves))]
	}
	counter := r.Intn(100)
	switch k := r.Intn(11); {
	case k < 9:
		return constructors(&counter)[k](randShape(r, depth-1))
	default:
		n := 2 + r.Intn(3)
		subs := make([]*gshape, n)
		fs := make([]reflect.StructField, n)
		maybe := make([]bool, n)
		names := make([]string, n)
		iface := false
		d := 0
		for i := range subs {
			subs[i] = randShape(r, depth-1)
			iface = iface || subs[i].iface
			if subs[i].depth > d {
				d = subs[i].depth
			}
			maybe[i] = r.Intn(3) == 0
			tag := fmt.Sprintf(`yae:"g%d"`, i)
			ft := subs[i].rt
			if maybe[i] {
				tag = fmt.Sprintf(`yae:"g%d,maybe"`, i)
				if r.Intn(2) == 0 {
					ft = reflect.PointerTo(ft)
				}
			}
			fs[i] = reflect.StructField{Name: fmt.Sprintf("G%d", i), Type: ft, Tag: reflect.StructTag(tag)}
			names[i] = fmt.Sprintf("g%d", i)
			if maybe[i] {
				names[i] += "?"
			}
			names[i] += ":" + ft.String()
		}
		rt := reflect.StructOf(fs)
		return &gshape{name: "struct{" + strings.Join(names, ";") + "}", rt: rt, iface: iface, depth: d + 1,
			build: func(variant int, rr *rand.Rand) reflect.Value {
				s := reflect.New(rt).Elem()
				for i := range subs {
					if fs[i].Type.Kind() == reflect.Pointer && fs[i].Type != subs[i].rt {
						if variant == 1 || (variant >= 3 && rr.Intn(2) == 0) {
							continue // optional, absent
						}
						p := reflect.New(subs[i].rt)
						p.Elem().Set(subs[i].build(variant, rr))
						s.Field(i).Set(p)
					} else {
						s.Field(i).Set(subs[i].build(variant, rr))
					}
				}
				return s
			}}
	}
}

// ---------------------------------------------------------------------------
// canonical dump of a Go value (no addresses), used as input description

func dumpGo(rv reflect.Value, depth int) string {
	if depth > 12 {
		return "…"
	}
	if !rv.IsValid() {
		return "<invalid>"
	}
	if rv.Type() == typeOfTimeGo && rv.CanInterface() {
		return "time(" + rv.Interface().(time.Time).Format(time.RFC3339Nano) + ")"
	}
	switch rv.Kind() {
	case reflect.Pointer:
		if rv.IsNil() {
			return "nil"
		}
		return "&" + dumpGo(rv.Elem(), depth+1)
	case reflect.Interface:
		if rv.IsNil() {
			return "nil"
		}
		return "iface(" + dumpGo(rv.Elem(), depth+1) + ")"
	case reflect.Slice, reflect.Array:
		if rv.Kind() == reflect.Slice && rv.IsNil() {
			return "nil"
		}
		xs := make([]string, rv.Len())
		for i := range xs {
			xs[i] = dumpGo(rv.Index(i), depth+1)
		}
		return "[" + strings.Join(xs, " ") + "]"
	case reflect.Map:
		if rv.IsNil() {
			return "nil"
		}
		xs := make([]string, 0, rv.Len())
		it := rv.MapRange()
		for it.Next() {
			xs = append(xs, dumpGo(it.Key(), depth+1)+":"+dumpGo(it.Value(), depth+1))
		}
		sort.Strings(xs)
		return "map[" + strings.Join(xs, " ") + "]"
	case reflect.Struct:
		xs := make([]string, rv.NumField())
		for i := range xs {
			xs[i] = rv.Type().Field(i).Name + ":" + dumpGo(rv.Field(i), depth+1)
		}
		return "{" + strings.Join(xs, " ") + "}"
	case reflect.String:
		return fmt.Sprintf("%q", rv.String())
	case reflect.Chan, reflect.Func, reflect.UnsafePointer:
		return rv.Kind().String()
	default:
		return fmt.Sprint(rv)
	}
}

// ---------------------------------------------------------------------------
// contents: the converted value against the original Go value

// tagOf: the harness' own reading of the documented tag syntax
// `yae:"name,maybe"` (both parts optional, blanks ignored, marker
// case-insensitive).
func tagOf(f reflect.StructField) (name string, maybe bool) {
	name = f.Name
	parts := strings.Split(f.Tag.Get("yae"), ",")
	if s := strings.TrimSpace(parts[0]); s != "" {
		name = s
	}
	if len(parts) > 1 && strings.EqualFold(strings.TrimSpace(parts[1]), "maybe") {
		maybe = true
	}
	return
}

func goIsNil(rv reflect.Value) bool {
	switch rv.Kind() {
	case reflect.Pointer, reflect.Interface, reflect.Slice, reflect.Map, reflect.Chan, reflect.Func:
		return rv.IsNil()
	}
	return false
}

// primVal converts a Go primitive (used for map keys) with the documented
// mapping; ok=false for non-primitive kinds.
func primVal(rv reflect.Value) (*val.Val, bool) {
	if rv.Type() == typeOfTimeGo {
		return val.Time(rv.Interface().(time.Time)), true
	}
	switch rv.Kind() {
	case reflect.Bool:
		return val.Bool(rv.Bool()), true
	case reflect.Int, reflect.Int8, reflect.Int16, reflect.Int32, reflect.Int64:
		return val.Num(float64(rv.Int())), true
	case reflect.Uint, reflect.Uint8, reflect.Uint16, reflect.Uint32, reflect.Uint64:
		return val.Num(float64(rv.Uint())), true
	case reflect.Float32, reflect.Float64:
		return val.Num(rv.Float()), true
	case reflect.String:
		return val.Str(rv.String()), true
	}
	return nil, false
}

// sameContent returns "" when vl holds exactly the contents of rv.
func sameContent(rv reflect.Value, vl *val.Val, path string) string {
	for rv.Kind() == reflect.Pointer || rv.Kind() == reflect.Interface {
		if rv.IsNil() {
			return path + ": nil part reached outside an optional field"
		}
		rv = rv.Elem()
	}
	if vl == nil {
		return path + ": nil value"
	}
	bad := func(want string) string {
		return fmt.Sprintf("%s: Go %s converted to %s, want %s", path, dumpGo(rv, 8), safeString(vl), want)
	}
	if rv.Type() == typeOfTimeGo {
		if vl.Type.Kind != types.KTime || !vl.Time().V.Equal(rv.Interface().(time.Time)) {
			return bad("the same instant")
		}
		return ""
	}
	switch rv.Kind() {
	case reflect.Bool:
		if vl.Type.Kind != types.KBool || vl.Bool().V != rv.Bool() {
			return bad("the same bool")
		}
	case reflect.Int, reflect.Int8, reflect.Int16, reflect.Int32, reflect.Int64:
		if vl.Type.Kind != types.KNum || vl.Num().V != float64(rv.Int()) {
			return bad("the number as a double")
		}
	case reflect.Uint, reflect.Uint8, reflect.Uint16, reflect.Uint32, reflect.Uint64:
		if vl.Type.Kind != types.KNum || vl.Num().V != float64(rv.Uint()) {
			return bad("the number as a double")
		}
	case reflect.Float32, reflect.Float64:
		if vl.Type.Kind != types.KNum || vl.Num().V != rv.Float() {
			return bad("the number as a double")
		}
	case reflect.String:
		if vl.Type.Kind != types.KStr || vl.Str().V != rv.String() {
			return bad("the same string")
		}
	case reflect.Slice, reflect.Array:
		if vl.Type.Kind != types.KList {
			return bad("a list")
		}
		if len(vl.List().V) != rv.Len() {
			return bad(fmt.Sprintf("a list of %d elements", rv.Len()))
		}
		for i := 0; i < rv.Len(); i++ {
			if p := sameContent(rv.Index(i), vl.List().V[i], fmt.Sprintf("%s[%d]", path, i)); p != "" {
				return p
			}
		}
	case reflect.Map:
		if vl.Type.Kind != types.KMap {
			return bad("a map")
		}
		if len(vl.Map().V) != rv.Len() {
			return bad(fmt.Sprintf("a map of %d entries", rv.Len()))
		}
		it := rv.MapRange()
		for it.Next() {
			k := it.Key()
			for k.Kind() == reflect.Interface {
				k = k.Elem()
			}
			kv, ok := primVal(k)
			if !ok {
				return path + ": non-primitive key accepted"
			}
			x, found := vl.Map().Get(kv)
			if !found {
				return fmt.Sprintf("%s: entry for key %s missing", path, dumpGo(k, 3))
			}
			if p := sameContent(it.Value(), x, fmt.Sprintf("%s[%s]", path, dumpGo(k, 3))); p != "" {
				return p
			}
		}
	case reflect.Struct:
		if vl.Type.Kind != types.KObj {
			return bad("an object")
		}
		if len(vl.Obj().V) != rv.NumField() {
			return bad(fmt.Sprintf("an object of %d fields", rv.NumField()))
		}
		for i := 0; i < rv.NumField(); i++ {
			name, maybe := tagOf(rv.Type().Field(i))
			x, ok := vl.Obj().Get(name)
			if !ok || x == nil {
				return fmt.Sprintf("%s: no field under its tag name %q", path, name)
			}
			fv := rv.Field(i)
			fp := path + "." + name
			switch {
			case goIsNil(fv):
				// absent: only an optional can stand for it
				if x.Type.Kind != types.KMaybe || x.Maybe().V != nil {
					return fmt.Sprintf("%s: nil Go field converted to %s", fp, safeString(x))
				}
			case maybe:
				if x.Type.Kind != types.KMaybe || x.Maybe().V == nil {
					return fmt.Sprintf("%s: present optional field converted to %s", fp, safeString(x))
				}
				if p := sameContent(fv, x.Maybe().V, fp); p != "" {
					return p
				}
			default:
				if p := sameContent(fv, x, fp); p != "" {
					return p
				}
			}
		}
	default:
		return bad("an error (unsupported kind)")
	}
	return ""
}

// ---------------------------------------------------------------------------
// the checks

type convResult struct {
	vl   *val.Val
	ty   *types.Type
	verr error
	terr error
}

func c15Convert(c *Ctx, key, input string, v interface{}) (res convResult, panicked bool) {
	p, msg := guard(func() { res.vl, res.verr = conv.ValOf(v) })
	if p {
		c.fail(key+"/panic", input, "conv.ValOf returns a value or an error", "panic: "+msg, "")
		return res, true
	}
	p, msg = guard(func() { res.ty, res.terr = conv.TypeOf(v) })
	if p {
		c.fail(key+"/panic", input, "conv.TypeOf returns a type or an error", "panic: "+msg, "")
		return res, true
	}
	return res, false
}

func envStructOf(x reflect.Value) interface{} {
	rt := reflect.StructOf([]reflect.StructField{
		{Name: "X", Type: x.Type(), Tag: `yae:"x"`},
		{Name: "K", Type: reflect.TypeOf(int(0)), Tag: `yae:"k"`},
	})
	s := reflect.New(rt).Elem()
	s.Field(0).Set(x)
	s.Field(1).SetInt(1)
	return s.Interface()
}

func envMapOf(x reflect.Value) interface{} {
	return map[string]interface{}{"x": x.Interface(), "k": 1}
}

func shapeClass(s *gshape) string {
	if s.iface {
		return "interface-container"
	}
	return "static-shape"
}

func runC15(c *Ctx) {
	r := c.R
	r.Contract = "conv.ValOf/TypeOf/ValEnvOf/TypeEnvOf postconditions checked at run time: (wf) result deeply well-formed (own walker: components non-nil, of the declared component type, fields by name, key kinds); (type) types.Equals(ValOf(v).Type, TypeOf(v)); (content) contents equal the Go original (numbers as doubles, strings, bools, instants, order, entries, fields under tag names, optional markers); (stable) all values of one static Go type without interface parts and without nil non-optional parts get Equal types, and an expression compiled against one sample accepts every other sample (public API: Compile with sample 1, invoke with sample 2, struct and map environments); (env) ValEnvOf/TypeEnvOf bind exactly the fields; (error) nil at top level, mixed interface containers, unsupported kinds, non-primitive keys, duplicate tags, nesting beyond the limit, cyclic data, pointer to nil pointer yield an error, never a panic or a value"
	maxDepth := 3
	nRandom := 1500
	if c.Thorough {
		nRandom = 20000
	}
	r.Space = "Go types built by reflection from 5 leaves (int, float64, string, bool, time.Time) under 9 unary constructors ([]X, [2]X, map[string]X, map[K]X with K rotating over int/uint8/float64/bool/time.Time/int64, *X, struct{f X; n int; opt *X `maybe`; U string}, struct{p *X; M X `maybe`}, []interface{}<X>, map[string]interface{}<X>), every numeric kind and named types as leaf and under each constructor, three fixed value variants per type (small / other values with optional parts absent / empty containers); plus random types of depth <= 5 with 2-4 field structs and random values; plus a fixed list of unsupported / inconsistent inputs"

	r.Rule = "distinct = distinct (Go type, canonical dump of the Go value); non-trivial = the value has at least one container, struct or pointer level (not a bare primitive) or is an error-class input"
	r.Exhaustive = true

	shapes := enumShapes(maxDepth)
	for _, nl := range numericLeaves() {
		shapes = append(shapes, nl)
		counter := 0
		for _, k := range constructors(&counter) {
			shapes = append(shapes, k(nl))
		}
	}
	r.Bound = fmt.Sprintf("exhaustive: all %d types of constructor depth <= %d (incl. every numeric kind under each constructor) x 3 value variants, every non-interface type also as a pair through the public API; random: %d (type, 3 values) draws of depth <= 5, seed %d; %d unsupported / inconsistent inputs x 7 entry points", len(shapes), maxDepth, nRandom, c.Seed, len(c15ErrorCases()))
	for _, s := range shapes {
		c15Shape(c, s, []int{0, 1, 2}, nil)
	}
	rr := rand.New(rand.NewSource(c.Seed))
	for i := 0; i < nRandom; i++ {
		s := randShape(rr, 1+rr.Intn(5))
		c15Shape(c, s, []int{0, 3, 3}, rr)
	}
	c15Errors(c)
	c15Aliasing(c)
	r.Notes = append(r.Notes,
		"type stability is only demanded for shapes without interface-typed parts; for interface containers the harness demands value-or-error (no panic) and, on success, well-formedness, type agreement and contents",
		"conv.TypeOf of a typed nil pointer and conv.ValEnvOf(nil) are accepted as documented behaviour (type from the static type / empty environment)")
}

// c15Shape checks one Go type with the given value variants.
func c15Shape(c *Ctx, s *gshape, variants []int, rr *rand.Rand) {
	type sample struct {
		rv   reflect.Value
		desc string
		res  convResult
		ok   bool
	}
	var samples []sample
	cls := shapeClass(s)
	for _, variant := range variants {
		rv := s.build(variant, rr)
		desc := s.rt.String() + " = " + dumpGo(rv, 0)
		c.eval(desc, s.depth >= 1)
		if s.depth >= 2 && c.R.Evaluations%997 == 0 {
			c.R.Sample(clip(desc, 300))
		}
		v := rv.Interface()
		res, panicked := c15Convert(c, "C15/converts/"+cls, desc, v)
		if panicked {
			continue
		}
		sm := sample{rv: rv, desc: desc, res: res}
		if res.verr != nil {
			if !s.iface {
				c.fail("C15/converts/"+cls+"/rejected", desc, "supported data converts to a value", "error: "+res.verr.Error(), "")
			}
			samples = append(samples, sm)
			continue
		}
		sm.ok = true
		if p := wellFormed(res.vl, nil, "v", 0); p != "" {
			c.fail("C15/well-formed/"+cls, desc, "deeply well-formed value", p, "")
		}
		if res.terr != nil {
			c.fail("C15/type-agrees/"+cls, desc, "TypeOf succeeds where ValOf does", "error: "+res.terr.Error(), "")
		} else if !types.Equals(res.vl.Type, res.ty) || !tyEqReal(res.vl.Type, res.ty) {
			c.fail("C15/type-agrees/"+cls, desc, "ValOf(v).Type equals TypeOf(v)", fmt.Sprintf("%s vs %s", res.vl.Type, res.ty), "")
		}
		if p := sameContent(rv, res.vl, "v"); p != "" {
			c.fail("C15/contents/"+cls, desc, "contents equal the original", p, "")
		}
		samples = append(samples, sm)
	}
	if s.iface {
		return
	}
	// type stability across the samples + acceptance through the public API
	for i := 1; i < len(samples); i++ {
		a, b := samples[0], samples[i]
		if !a.ok || !b.ok {
			continue
		}
		in := a.desc + "  ||  " + dumpGo(b.rv, 0)
		c.eval("pair:"+in, s.depth >= 1)
		if !types.Equals(a.res.vl.Type, b.res.vl.Type) || !tyEqReal(a.res.vl.Type, b.res.vl.Type) {
			c.fail("C15/type-stable/static-shape", in, "two values of one Go type get equal types", fmt.Sprintf("%s vs %s", a.res.vl.Type, b.res.vl.Type), "")
		}
		c15API(c, s, a.rv, b.rv, i%2 == 0)
	}
}

// c15API: compile against sample 1, invoke with sample 2.
func c15API(c *Ctx, s *gshape, a, b reflect.Value, mapForm bool) {
	var env1, env2 interface{}
	form := "struct-env"
	if mapForm {
		env1, env2 = envMapOf(a), envStructOf(b)
		form = "map-env-then-struct-env"
	} else {
		env1, env2 = envStructOf(a), envStructOf(b)
	}
	in := fmt.Sprintf("compile `x` with %s x=%s; invoke with x=%s", form, dumpGo(a, 0), dumpGo(b, 0))
	c.eval("api:"+in, true)
	e := yae.NewExpr()
	cl, o := compile(e, "x", env1)
	if cl == nil {
		c.fail("C15/compiled-against-one-sample-accepts-others/compile", in, "compiles", o.String(), "")
		return
	}
	res := call(cl, env2)
	if !res.ok() {
		c.fail("C15/compiled-against-one-sample-accepts-others/invoke", in, "accepted: value of x", res.String(), "")
		return
	}
	if p := sameContent(b, res.V, "x"); p != "" {
		c.fail("C15/compiled-against-one-sample-accepts-others/value", in, "the second sample's x", p, "")
	}
	// environments bind exactly the fields
	var te *types.Env
	var ve *val.Env
	var terr, verr error
	if p, msg := guard(func() { te, terr = conv.TypeEnvOf(env2); ve, verr = conv.ValEnvOf(env2) }); p || terr != nil || verr != nil {
		c.fail("C15/env-binds-fields/static-shape", in, "TypeEnvOf / ValEnvOf succeed", fmt.Sprint(msg, terr, verr), "")
		return
	}
	names := map[string]bool{}
	ve.ForEach(func(n string, v *val.Val) { names[n] = true })
	tnames := map[string]bool{}
	te.ForEach(func(n string, t *types.Type) { tnames[n] = true })
	xv, _ := ve.Get("x")
	xt, _ := te.Get("x")
	if len(names) != 2 || len(tnames) != 2 || !names["x"] || !names["k"] || !tnames["x"] || !tnames["k"] || xv == nil || xt == nil {
		c.fail("C15/env-binds-fields/static-shape", in, "exactly the names x, k", fmt.Sprint(names, tnames), "")
		return
	}
	if !types.Equals(xt, xv.Type) {
		c.fail("C15/env-binds-fields/static-shape", in, "TypeEnvOf type equals the ValEnvOf value's type", fmt.Sprintf("%s vs %s", xt, xv.Type), "")
	}
	if p := sameContent(b, xv, "x"); p != "" {
		c.fail("C15/env-binds-fields/static-shape", in, "x bound to the converted field", p, "")
	}
}

// ---------------------------------------------------------------------------
// unsupported / inconsistent data must be an error

type cyc struct {
	V    int
	Next *cyc
}
type dupTag struct {
	A int `yae:"x"`
	B int `yae:"x"`
}
type withChan struct {
	A  int
	Ch chan int
}
type withIface struct {
	A int
	I interface{}
}
type unexported struct {
	a int
	b string
}

// selfRefIface: an interface holding a pointer to itself (F25)
func selfRefIface() interface{} {
	var v interface{}
	v = &v
	return v
}

func deepSlice(n int, empty bool) interface{} {
	rt := reflect.TypeOf(int(0))
	rv := reflect.ValueOf(int(1))
	for i := 0; i < n; i++ {
		rt = reflect.SliceOf(rt)
		s := reflect.MakeSlice(rt, 0, 1)
		if !(empty && i == n-1) {
			s = reflect.Append(s, rv)
		}
		rv = s
	}
	return rv.Interface()
}

type errCase struct {
	class string
	name  string
	v     interface{}
	// valueMustFail: conv.ValOf has to report an error
	valueMustFail bool
	// typeMustFail: conv.TypeOf has to report an error as well
	typeMustFail bool
}

func c15ErrorCases() []errCase {
	var nilS *struct{ A int }
	var nilInt *int
	var nilMap map[string]int
	var nilSlice []int
	var nilFunc func()
	var nilChan chan int
	var nilMapPtr *map[string]int
	cy := &cyc{V: 1}
	cy.Next = cy
	ch := make(chan int)
	one := 1
	pone := &one
	var nilPP *int
	return []errCase{
		{"nil-top-level", "untyped nil", nil, true, true},
		{"nil-top-level", "(*struct)(nil)", nilS, true, false},
		{"nil-top-level", "(*int)(nil)", nilInt, true, false},
		{"nil-top-level", "map[string]int(nil)", nilMap, true, false},
		{"nil-top-level", "[]int(nil)", nilSlice, true, false},
		{"nil-top-level", "func()(nil)", nilFunc, true, true},
		{"nil-top-level", "chan int(nil)", nilChan, true, true},
		{"pointer-to-nil-pointer", "&p, p (*struct)(nil)", &nilS, true, false},
		{"pointer-to-nil-pointer", "&p, p (*map[string]int)(nil)", &nilMapPtr, true, false},
		{"pointer-to-nil-pointer", "&p, p (*int)(nil)", &nilInt, true, false},
		{"pointer-to-nil-pointer", "interface holding &p, p nil", interface{}(&nilS), true, false},
		{"nil-element", "[]*int{nil}", []*int{nil}, false, false},
		{"nil-element", "[]*int{&1, nil}", []*int{pone, nil}, false, false},
		{"nil-element", "[]interface{}{(*int)(nil)}", []interface{}{nilInt}, false, false},
		{"nil-element", "[]interface{}{1, nil}", []interface{}{1, nil}, false, false},
		{"nil-element", "map[string]*int{\"a\": nil}", map[string]*int{"a": nil}, false, false},
		{"nil-element", "struct{P **int} with inner nil", struct{ P **int }{&nilPP}, false, false},
		{"mixed-interface-container", "[]interface{}{1, \"a\"}", []interface{}{1, "a"}, true, true},
		{"mixed-interface-container", "[]interface{}{\"a\", 1, 2}", []interface{}{"a", 1, 2}, true, true},
		{"mixed-interface-container", "[]interface{}{[]int{1}, []string{\"a\"}}", []interface{}{[]int{1}, []string{"a"}}, true, true},
		{"mixed-interface-container", "[]interface{}{struct{A int}, struct{A string}}", []interface{}{struct{ A int }{1}, struct{ A string }{"x"}}, true, true},
		{"mixed-interface-container", "[]interface{}{struct{A int}, struct{B int}}", []interface{}{struct{ A int }{1}, struct{ B int }{1}}, true, true},
		{"mixed-interface-container", "map[int]interface{}{1:1, 2:\"x\"}", map[int]interface{}{1: 1, 2: "x"}, true, true},
		{"mixed-interface-container", "map[string]interface{}{\"a\":1, \"b\":\"x\"} (as a value)", map[string]interface{}{"a": 1, "b": "x"}, true, true},
		{"mixed-interface-container", "map[interface{}]int{1:1, \"a\":2}", map[interface{}]int{1: 1, "a": 2}, true, true},
		{"mixed-interface-container", "[][]interface{}{{1},{\"a\"}}", [][]interface{}{{1}, {"a"}}, true, true},
		{"mixed-interface-container", "[]interface{}{} (no element type)", []interface{}{}, true, true},
		// a nil-able part without the `maybe` marker converts to maybe[T] when nil
		// and to T otherwise: containers mixing the two are inconsistent data
		{"inconsistent-nilable-parts", "map[int]struct{Tags []string}{1:{nil}, 2:{[x]}}", map[int]struct{ Tags []string }{1: {nil}, 2: {[]string{"x"}}}, true, false},
		{"inconsistent-nilable-parts", "map[int]struct{P *int}{1:{&1}, 2:{nil}}", map[int]struct{ P *int }{1: {pone}, 2: {nil}}, true, false},
		{"inconsistent-nilable-parts", "map[int]struct{M map[string]int}{1:{nil}, 2:{{a:1}}}", map[int]struct{ M map[string]int }{1: {nil}, 2: {map[string]int{"a": 1}}}, true, false},
		{"inconsistent-nilable-parts", "[]struct{Tags []string}{{nil}, {[x]}}", []struct{ Tags []string }{{nil}, {[]string{"x"}}}, true, false},
		{"inconsistent-nilable-parts", "map[int][]struct{P *int}{1:{{nil}}, 2:{{&1}}}", map[int][]struct{ P *int }{1: {{nil}}, 2: {{pone}}}, true, false},
		{"inconsistent-nilable-parts", "struct{M map[int]struct{P *int}} with nil and non-nil P", struct{ M map[int]struct{ P *int } }{map[int]struct{ P *int }{1: {nil}, 2: {pone}}}, true, false},
		{"unsupported-kind", "chan int", ch, true, true},
		{"unsupported-kind", "func()", func() {}, true, true},
		{"unsupported-kind", "complex128", complex(1, 2), true, true},
		{"unsupported-kind", "unsafe.Pointer", unsafe.Pointer(pone), true, true},
		{"unsupported-kind", "[]chan int{ch}", []chan int{ch}, true, true},
		{"unsupported-kind", "[]chan int{}", []chan int{}, true, true},
		{"unsupported-kind", "struct with chan field", withChan{1, ch}, true, true},
		{"unsupported-kind", "struct with nil interface field", withIface{1, nil}, true, true},
		{"unsupported-kind", "map[string]func(){\"f\": f}", map[string]func(){"f": func() {}}, true, true},
		{"unsupported-kind", "[]complex64{1}", []complex64{1}, true, true},
		{"non-primitive-key", "map[[2]int]int", map[[2]int]int{{1, 2}: 3}, true, true},
		{"non-primitive-key", "map[struct{A int}]int", map[struct{ A int }]int{{1}: 3}, true, true},
		{"non-primitive-key", "map[[2]int]int{} (empty)", map[[2]int]int{}, true, true},
		{"duplicate-field-name", "struct{A `yae:\"x\"`; B `yae:\"x\"`}", dupTag{1, 2}, true, true},
		{"nesting-limit", "150 nested slices", deepSlice(150, false), true, true},
		{"nesting-limit", "150 nested slice types, empty at the top", deepSlice(150, true), true, true},
		{"nesting-limit", "cyclic value p.Next = p", cy, true, true},
		{"nesting-limit", "self-referential interface x = &x", selfRefIface(), true, true},
		{"nesting-limit", "self-referential interface inside a slice", []interface{}{selfRefIface()}, true, true},
	}
}

// aliasing pointers: two pointers of DIFFERENT types holding the same address
// (a struct and its first field, an array and its element 0) and the same
// pointee reached twice.  Each must convert to its own pointee's value; a
// conversion that remembers pointees by address alone confuses them.
type c15Cust struct {
	ID   int    `yae:"id"`
	Name string `yae:"name"`
}
type c15Order struct {
	CustomerID *int     `yae:"customer_id"`
	Customer   *c15Cust `yae:"customer"`
}
type c15Order2 struct {
	Customer   *c15Cust `yae:"customer"`
	CustomerID *int     `yae:"customer_id"`
}
type c15Arr struct {
	First *int    `yae:"first"`
	All   *[2]int `yae:"all"`
}
type c15Twice struct {
	A *c15Cust `yae:"a"`
	B *c15Cust `yae:"b"`
}

func c15Aliasing(c *Ctx) {
	cu := &c15Cust{7, "ann"}
	arr := &[2]int{4, 5}
	cases := []struct {
		name string
		v    interface{}
	}{
		{"struct{*int -> &c.ID; *Cust -> c}", c15Order{&cu.ID, cu}},
		{"struct{*Cust -> c; *int -> &c.ID}", c15Order2{cu, &cu.ID}},
		{"struct{*int -> &arr[0]; *[2]int -> arr}", c15Arr{&arr[0], arr}},
		{"struct{a, b *Cust -> the same c}", c15Twice{cu, cu}},
		{"[]interface{}{&c.ID, c}", []interface{}{&cu.ID, &cu.ID}},
		{"map[string]*Cust{x: c, y: c}", map[string]*c15Cust{"x": cu, "y": cu}},
	}
	for _, k := range cases {
		in := "aliasing pointers: " + k.name
		c.eval(in, true)
		res, panicked := c15Convert(c, "C15/converts/aliasing", in, k.v)
		if panicked {
			continue
		}
		if res.verr != nil {
			c.fail("C15/converts/aliasing/rejected", in, "supported data converts to a value", "error: "+res.verr.Error(), "")
			continue
		}
		if d := sameContent(reflect.ValueOf(k.v), res.vl, "v"); d != "" {
			c.fail("C15/contents/aliasing-pointers", in, "contents equal the Go value", d, "")
		}
	}
}

func c15Errors(c *Ctx) {
	for _, ec := range c15ErrorCases() {
		key := "C15/unsupported-data-is-error/" + ec.class
		in := ec.name
		// ValOf
		c.eval("err:"+in+":ValOf", true)
		var vl *val.Val
		var err error
		if p, msg := guard(func() { vl, err = conv.ValOf(ec.v) }); p {
			c.fail(key, "conv.ValOf("+in+")", "an error", "panic: "+msg, "")
		} else if err == nil && ec.valueMustFail {
			c.fail(key, "conv.ValOf("+in+")", "an error", "accepted: "+safeString(vl), "")
		} else if err == nil {
			if p := wellFormed(vl, nil, "v", 0); p != "" {
				c.fail(key, "conv.ValOf("+in+")", "an error or a well-formed value", p, "")
			}
		}
		// TypeOf
		c.eval("err:"+in+":TypeOf", true)
		var ty *types.Type
		if p, msg := guard(func() { ty, err = conv.TypeOf(ec.v) }); p {
			c.fail(key, "conv.TypeOf("+in+")", "a type or an error", "panic: "+msg, "")
		} else if err == nil && ec.typeMustFail {
			c.fail(key, "conv.TypeOf("+in+")", "an error", "accepted: "+ty.String(), "")
		}
		if ec.v == nil {
			continue // ValEnvOf(nil) is the documented empty environment
		}
		// environment entry points and the public API: none of these inputs
		// is a usable environment
		entry := []struct {
			name      string
			typeLevel bool
			f         func() error
		}{
			{"conv.ValEnvOf", false, func() error { _, e := conv.ValEnvOf(ec.v); return e }},
			{"conv.TypeEnvOf", true, func() error { _, e := conv.TypeEnvOf(ec.v); return e }},
			{"yae.Eval(\"1\", ·)", false, func() error { _, e := yae.Eval("1", ec.v); return e }},
			{"yae.NewExpr().Compile(\"1\", ·)", true, func() error { _, e := yae.NewExpr().Compile("1", ec.v); return e }},
		}
		for _, en := range entry {
			c.eval("err:"+in+":"+en.name, true)
			var e error
			must := c15EnvMustFail(ec)
			if en.typeLevel {
				// type-only conversion works from the static type: a typed
				// nil pointer to a struct is a usable compile-time sample
				must = ec.typeMustFail || !envShapedType(reflect.TypeOf(ec.v))
				if rt := reflect.TypeOf(ec.v); rt.Kind() == reflect.Map && rt.Key().Kind() == reflect.String {
					must = c15EnvMustFail(ec) && !reflect.ValueOf(ec.v).IsNil() // names of different types are a legitimate environment
				}
			}
			if p, msg := guard(func() { e = en.f() }); p {
				c.fail(key, en.name+" with "+in, "an error", "panic: "+msg, "")
			} else if e == nil && must {
				c.fail(key, en.name+" with "+in, "an error", "accepted", "")
			}
		}
	}
	// a callable must also answer unsupported run-time data with an error
	cl, _ := compile(yae.NewExpr(), "1", map[string]interface{}{})
	if cl != nil {
		for _, ec := range c15ErrorCases() {
			if ec.v == nil {
				continue
			}
			c.eval("err:"+ec.name+":Callable", true)
			o := call(cl, ec.v)
			if o.Panic != "" {
				c.fail("C15/unsupported-data-is-error/"+ec.class, "Callable of `1` invoked with "+ec.name, "an error", o.String(), "")
			} else if o.Err == nil && c15EnvMustFail(ec) {
				c.fail("C15/unsupported-data-is-error/"+ec.class, "Callable of `1` invoked with "+ec.name, "an error", "accepted", "")
			}
		}
	}
}

// c15EnvMustFail: must the input be refused as an environment?  Anything
// that is not a struct or a string-keyed map (after dereferencing) is no
// environment at all.  A struct is refused when its conversion must fail.
// A map[string]interface{} with values of different types is a legitimate
// environment, so a string-keyed map is refused only when it is nil.
func c15EnvMustFail(ec errCase) bool {
	rv := reflect.ValueOf(ec.v)
	for n := 0; rv.IsValid() && (rv.Kind() == reflect.Pointer || rv.Kind() == reflect.Interface); n++ {
		if rv.IsNil() || n > 200 {
			return true // nil at the end, or a chain that leads back to itself
		}
		rv = rv.Elem()
	}
	if !rv.IsValid() {
		return true
	}
	switch {
	case rv.Kind() == reflect.Struct:
		return ec.valueMustFail
	case rv.Kind() == reflect.Map && rv.Type().Key().Kind() == reflect.String:
		return rv.IsNil() || ec.name == "map[string]func(){\"f\": f}"
	}
	return true
}

func envShapedType(rt reflect.Type) bool {
	for rt != nil && rt.Kind() == reflect.Pointer {
		rt = rt.Elem()
	}
	if rt == nil {
		return false
	}
	return rt.Kind() == reflect.Struct || (rt.Kind() == reflect.Map && rt.Key().Kind() == reflect.String)
}
