package host

import (
	"fmt"

	"github.com/goghcrow/yae/types"
	"github.com/goghcrow/yae/val"
)

// tyEqReal is the harness' own structural equality on real yae types
// (objects by field name), independent of types.Equals.
func tyEqReal(a, b *types.Type) bool {
	if a == nil || b == nil {
		return false
	}
	if a.Kind != b.Kind {
		return false
	}
	switch a.Kind {
	case types.KList:
		return tyEqReal(a.List().El, b.List().El)
	case types.KMap:
		return tyEqReal(a.Map().Key, b.Map().Key) && tyEqReal(a.Map().Val, b.Map().Val)
	case types.KMaybe:
		return tyEqReal(a.Maybe().Elem, b.Maybe().Elem)
	case types.KObj:
		fa, fb := a.Obj().Fields, b.Obj().Fields
		if len(fa) != len(fb) {
			return false
		}
		for _, x := range fa {
			found := false
			for _, y := range fb {
				if x.Name == y.Name {
					found = tyEqReal(x.Val, y.Val)
					break
				}
			}
			if !found {
				return false
			}
		}
		return true
	case types.KFun:
		pa, pb := a.Fun().Param, b.Fun().Param
		if len(pa) != len(pb) {
			return false
		}
		for i := range pa {
			if !tyEqReal(pa[i], pb[i]) {
				return false
			}
		}
		return tyEqReal(a.Fun().Return, b.Fun().Return)
	case types.KTyVar:
		return a.TyVar().Name == b.TyVar().Name
	}
	return true
}

// wellFormed walks a value deeply: every component is non-nil, carries the
// component type its container declares, object fields are reachable by
// name, map keys carry the declared key kind.  declared may be nil at the
// root.  It returns the first problem found ("" = well-formed).
func wellFormed(v *val.Val, declared *types.Type, path string, depth int) string {
	if depth > 300 {
		return path + ": nesting deeper than 300"
	}
	if v == nil {
		return path + ": nil value"
	}
	if v.Type == nil {
		return path + ": value without type"
	}
	if declared != nil && !tyEqReal(declared, v.Type) {
		return fmt.Sprintf("%s: component has type %s but its container declares %s", path, v.Type, declared)
	}
	switch v.Type.Kind {
	case types.KNum, types.KStr, types.KBool, types.KTime:
		return ""
	case types.KList:
		el := v.Type.List().El
		if el == nil {
			return path + ": list type without element type"
		}
		for i, x := range v.List().V {
			if p := wellFormed(x, el, fmt.Sprintf("%s[%d]", path, i), depth+1); p != "" {
				return p
			}
		}
		return ""
	case types.KMap:
		mt := v.Type.Map()
		if mt.Key == nil || mt.Val == nil {
			return path + ": map type without key/value type"
		}
		if len(v.Map().V) > 0 && !mt.Key.IsPrimitive() {
			return fmt.Sprintf("%s: non-primitive key type %s", path, mt.Key)
		}
		if v.Map().V == nil {
			return path + ": nil entry table"
		}
		for k, x := range v.Map().V {
			if k.VerifHostKeyTag() != mt.Key.Kind {
				return fmt.Sprintf("%s: key %s has kind %s, declared %s", path, k, k.VerifHostKeyTag(), mt.Key)
			}
			if p := wellFormed(x, mt.Val, fmt.Sprintf("%s[%s]", path, k), depth+1); p != "" {
				return p
			}
		}
		return ""
	case types.KObj:
		ot := v.Type.Obj()
		o := v.Obj()
		if len(o.V) != len(ot.Fields) {
			return fmt.Sprintf("%s: %d field values for %d declared fields", path, len(o.V), len(ot.Fields))
		}
		if len(ot.Index) != len(ot.Fields) {
			return fmt.Sprintf("%s: field index has %d names for %d fields", path, len(ot.Index), len(ot.Fields))
		}
		for i, f := range ot.Fields {
			if j, ok := ot.Index[f.Name]; !ok || j != i {
				return fmt.Sprintf("%s: field %s not indexed at its position", path, f.Name)
			}
			x, ok := o.Get(f.Name)
			if !ok {
				return fmt.Sprintf("%s: field %s not reachable by name", path, f.Name)
			}
			if f.Val == nil {
				return fmt.Sprintf("%s: field %s without declared type", path, f.Name)
			}
			if p := wellFormed(x, f.Val, path+"."+f.Name, depth+1); p != "" {
				return p
			}
		}
		return ""
	case types.KMaybe:
		el := v.Type.Maybe().Elem
		if el == nil {
			return path + ": maybe type without payload type"
		}
		if v.Maybe().V != nil {
			return wellFormed(v.Maybe().V, el, path+".just", depth+1)
		}
		return ""
	default:
		return fmt.Sprintf("%s: unexpected kind %s in converted data", path, v.Type.Kind)
	}
}
