package host

import (
	"fmt"
	"math"
	"math/rand"
	"regexp"
	"strconv"
	"strings"
	"time"

	"github.com/goghcrow/yae/ext"
	"github.com/goghcrow/yae/parser/ast"
	"github.com/goghcrow/yae/parser/pos"
	"github.com/goghcrow/yae/types"
	"github.com/goghcrow/yae/val"
)

// ---------------------------------------------------------------------------
// model of a criteria tree

type opdKind int

const (
	opdNum opdKind = iota
	opdStr
	opdBool
	opdTime
	opdCol   // a name that is not bound at run time: a column
	opdBound // a name bound at run time: replaced by its value
	opdList
)

type operand struct {
	k    opdKind
	n    float64
	s    string
	b    bool
	t    time.Time
	name string     // opdCol / opdBound
	val  *operand   // opdBound: the run-time value
	list []*operand // opdList
}

func (o *operand) String() string {
	switch o.k {
	case opdNum:
		return strconv.FormatFloat(o.n, 'g', -1, 64)
	case opdStr:
		return strconv.Quote(o.s)
	case opdBool:
		return strconv.FormatBool(o.b)
	case opdTime:
		return "time(" + strconv.FormatInt(o.t.Unix(), 10) + ")"
	case opdCol:
		return "col:" + o.name
	case opdBound:
		return "bound:" + o.name + "=" + o.val.String()
	case opdList:
		xs := make([]string, len(o.list))
		for i, e := range o.list {
			xs[i] = e.String()
		}
		return "(" + strings.Join(xs, ", ") + ")"
	}
	return "?"
}

type crit struct {
	op   string // "AND", "OR", "NOT" or a condition operator
	kids []*crit
	// condition
	field *operand
	args  []*operand
}

func (c *crit) isGroup() bool { return c.op == "AND" || c.op == "OR" || c.op == "NOT" }

func (c *crit) String() string {
	if c.isGroup() {
		xs := make([]string, len(c.kids))
		for i, k := range c.kids {
			xs[i] = k.String()
		}
		return c.op + "(" + strings.Join(xs, ", ") + ")"
	}
	xs := []string{c.field.String()}
	for _, a := range c.args {
		xs = append(xs, a.String())
	}
	return c.op + "[" + strings.Join(xs, ", ") + "]"
}

// ---------------------------------------------------------------------------
// model -> the real ext.Criteria

func numLit(n float64) string {
	a := math.Abs(n)
	s := strconv.FormatFloat(a, 'f', -1, 64)
	if len(s) > 40 {
		s = strings.Replace(strconv.FormatFloat(a, 'e', -1, 64), "e+", "e", 1)
	}
	return s
}

func (o *operand) expr() ast.Expr {
	switch o.k {
	case opdNum:
		if o.n < 0 || (o.n == 0 && math.Signbit(o.n)) {
			// the language has no negative literal: unary minus applied to
			// the literal; the SQL back end has no such function, so
			// negative numbers are supplied through bound names instead
			panic("negative literal")
		}
		return ast.Num(numLit(o.n), pos.Unknown)
	case opdStr:
		return &ast.StrExpr{Pos: pos.Unknown, Text: strconv.Quote(o.s), Val: o.s}
	case opdBool:
		if o.b {
			return ast.True(pos.Unknown)
		}
		return ast.False(pos.Unknown)
	case opdTime:
		return &ast.TimeExpr{Pos: pos.Unknown, Text: "'" + o.t.UTC().Format("2006-01-02 15:04:05") + "'", Val: o.t.Unix()}
	case opdCol, opdBound:
		return ast.Var(o.name, pos.Unknown)
	case opdList:
		xs := make([]ast.Expr, len(o.list))
		for i, e := range o.list {
			xs[i] = e.expr()
		}
		return ast.List(xs, pos.Unknown)
	}
	panic("operand")
}

func (c *crit) real() ext.Criteria {
	if c.isGroup() {
		g := ext.CondGroup{Conds: make([]ext.Criteria, len(c.kids))}
		switch c.op {
		case "AND":
			g.LogicalOper = ext.AND
		case "OR":
			g.LogicalOper = ext.OR
		case "NOT":
			g.LogicalOper = ext.NOT
		}
		for i, k := range c.kids {
			g.Conds[i] = k.real()
		}
		return g
	}
	args := make([]ast.Expr, len(c.args))
	for i, a := range c.args {
		args[i] = a.expr()
	}
	return ext.Cond{Field: c.field.name, Operator: c.op, Operands: args}
}

// ---------------------------------------------------------------------------
// the model (declared columns / names) and run-time bindings

// columns of the model; names starting with "cur" are the ones a case may
// bind at run time
var c20Decl = map[string]opdKind{
	"n1": opdNum, "n2": opdNum, "s1": opdStr, "s2": opdStr, "b1": opdBool, "t1": opdTime,
	"curn": opdNum, "curs": opdStr, "curb": opdBool, "curt": opdTime,
}

func c20TypeEnv() *types.Env {
	te := types.NewEnv()
	for n, k := range c20Decl {
		switch k {
		case opdNum:
			te.Put(n, types.Num)
		case opdStr:
			te.Put(n, types.Str)
		case opdBool:
			te.Put(n, types.Bool)
		case opdTime:
			te.Put(n, types.Time)
		}
	}
	return te
}

func (o *operand) value() *val.Val {
	switch o.k {
	case opdNum:
		return val.Num(o.n)
	case opdStr:
		return val.Str(o.s)
	case opdBool:
		return val.Bool(o.b)
	case opdTime:
		return val.Time(o.t)
	}
	panic("value")
}

func collectBound(c *crit, env *val.Env, seen map[string]*operand) {
	add := func(o *operand) {
		if o == nil {
			return
		}
		if o.k == opdBound {
			seen[o.name] = o.val
			env.Put(o.name, o.val.value())
		}
		for _, e := range o.list {
			if e.k == opdBound {
				seen[e.name] = e.val
				env.Put(e.name, e.val.value())
			}
		}
	}
	if c.isGroup() {
		for _, k := range c.kids {
			collectBound(k, env, seen)
		}
		return
	}
	add(c.field)
	for _, a := range c.args {
		add(a)
	}
}

// ---------------------------------------------------------------------------
// reference reader of the WHERE text

type sqlTok struct {
	k string // "id" (back-quoted), "str", "num", "kw", "op", "(", ")", ",", "fn"
	s string
}

var reNum = regexp.MustCompile(`^-?[0-9]+(\.[0-9]+)?([eE][-+]?[0-9]+)?`)
var reWord = regexp.MustCompile(`^[A-Za-z_][A-Za-z_0-9]*`)

// sqlLex tokenises with the usual SQL lexical rules: string literals in
// double or single quotes end at the first unescaped quote of the same
// kind (backslash escapes the next character, a doubled quote is an escaped
// quote); identifiers in back quotes.
func sqlLex(s string) ([]sqlTok, error) {
	var out []sqlTok
	i := 0
	for i < len(s) {
		ch := s[i]
		switch {
		case ch == ' ' || ch == '\t' || ch == '\n' || ch == '\r':
			i++
		case ch == '(' || ch == ')' || ch == ',':
			out = append(out, sqlTok{string(ch), string(ch)})
			i++
		case ch == '`':
			j := strings.IndexByte(s[i+1:], '`')
			if j < 0 {
				return nil, fmt.Errorf("unterminated identifier at %d", i)
			}
			out = append(out, sqlTok{"id", s[i+1 : i+1+j]})
			i += j + 2
		case ch == '"' || ch == '\'':
			j := i + 1
			closed := false
			for j < len(s) {
				if s[j] == '\\' {
					j += 2
					continue
				}
				if s[j] == ch {
					if j+1 < len(s) && s[j+1] == ch {
						j += 2
						continue
					}
					closed = true
					break
				}
				j++
			}
			if !closed {
				return nil, fmt.Errorf("unterminated string literal at %d", i)
			}
			out = append(out, sqlTok{"str", s[i : j+1]})
			i = j + 1
		case ch == '<' || ch == '>' || ch == '=' || ch == '!':
			j := i + 1
			for j < len(s) && (s[j] == '=' || s[j] == '>') && j-i < 2 {
				j++
			}
			out = append(out, sqlTok{"op", s[i:j]})
			i = j
		default:
			if m := reNum.FindString(s[i:]); m != "" {
				out = append(out, sqlTok{"num", m})
				i += len(m)
				continue
			}
			if m := reWord.FindString(s[i:]); m != "" {
				out = append(out, sqlTok{"kw", m})
				i += len(m)
				continue
			}
			return nil, fmt.Errorf("unexpected character %q at %d", ch, i)
		}
	}
	return out, nil
}

// parsed tree: groups "AND"/"OR"/"NOT" and leaves
type sqlNode struct {
	op   string
	kids []*sqlNode
	// leaf: operands as tokens (a from_unixtime(n) call is one operand "fn")
	opds []sqlTok
}

type sqlParser struct {
	toks []sqlTok
	p    int
}

func (q *sqlParser) peek() sqlTok {
	if q.p < len(q.toks) {
		return q.toks[q.p]
	}
	return sqlTok{"eof", ""}
}
func (q *sqlParser) next() sqlTok { t := q.peek(); q.p++; return t }
func (q *sqlParser) isKw(w string) bool {
	t := q.peek()
	return t.k == "kw" && strings.EqualFold(t.s, w)
}

// standard precedence: comparison, then NOT, then AND, then OR
func (q *sqlParser) parseOr() (*sqlNode, error) {
	l, err := q.parseAnd()
	if err != nil {
		return nil, err
	}
	for q.isKw("OR") {
		q.next()
		r, err := q.parseAnd()
		if err != nil {
			return nil, err
		}
		l = &sqlNode{op: "OR", kids: []*sqlNode{l, r}}
	}
	return l, nil
}

func (q *sqlParser) parseAnd() (*sqlNode, error) {
	l, err := q.parseNot()
	if err != nil {
		return nil, err
	}
	for q.isKw("AND") {
		q.next()
		r, err := q.parseNot()
		if err != nil {
			return nil, err
		}
		l = &sqlNode{op: "AND", kids: []*sqlNode{l, r}}
	}
	return l, nil
}

func (q *sqlParser) parseNot() (*sqlNode, error) {
	if q.isKw("NOT") {
		q.next()
		x, err := q.parseNot()
		if err != nil {
			return nil, err
		}
		return &sqlNode{op: "NOT", kids: []*sqlNode{x}}, nil
	}
	return q.parsePredicate()
}

func (q *sqlParser) parseOperand() (sqlTok, error) {
	t := q.next()
	switch t.k {
	case "id", "str", "num":
		return t, nil
	case "kw":
		if strings.EqualFold(t.s, "from_unixtime") {
			if q.next().k != "(" {
				return t, fmt.Errorf("from_unixtime without (")
			}
			n := q.next()
			if n.k != "num" || q.next().k != ")" {
				return t, fmt.Errorf("from_unixtime wants one number")
			}
			return sqlTok{"fn", n.s}, nil
		}
		if strings.EqualFold(t.s, "TRUE") || strings.EqualFold(t.s, "FALSE") {
			return sqlTok{"bool", strings.ToUpper(t.s)}, nil
		}
	}
	return t, fmt.Errorf("operand expected, found %q", t.s)
}

func (q *sqlParser) parsePredicate() (*sqlNode, error) {
	if q.peek().k == "(" {
		q.next()
		x, err := q.parseOr()
		if err != nil {
			return nil, err
		}
		if q.next().k != ")" {
			return nil, fmt.Errorf(") expected")
		}
		return x, nil
	}
	l, err := q.parseOperand()
	if err != nil {
		return nil, err
	}
	t := q.next()
	switch {
	case t.k == "op":
		r, err := q.parseOperand()
		if err != nil {
			return nil, err
		}
		return &sqlNode{op: t.s, opds: []sqlTok{l, r}}, nil
	case t.k == "kw" && strings.EqualFold(t.s, "LIKE"):
		r, err := q.parseOperand()
		if err != nil {
			return nil, err
		}
		return &sqlNode{op: "LIKE", opds: []sqlTok{l, r}}, nil
	case t.k == "kw" && strings.EqualFold(t.s, "IS"):
		if !q.isKw("NULL") {
			return nil, fmt.Errorf("NULL expected after IS")
		}
		q.next()
		return &sqlNode{op: "ISNULL", opds: []sqlTok{l}}, nil
	case t.k == "kw" && strings.EqualFold(t.s, "BETWEEN"):
		a, err := q.parseOperand()
		if err != nil {
			return nil, err
		}
		if !q.isKw("AND") {
			return nil, fmt.Errorf("AND expected in BETWEEN")
		}
		q.next()
		b, err := q.parseOperand()
		if err != nil {
			return nil, err
		}
		return &sqlNode{op: "BETWEEN", opds: []sqlTok{l, a, b}}, nil
	case t.k == "kw" && strings.EqualFold(t.s, "IN"):
		if q.next().k != "(" {
			return nil, fmt.Errorf("( expected after IN")
		}
		opds := []sqlTok{l}
		for {
			e, err := q.parseOperand()
			if err != nil {
				return nil, err
			}
			opds = append(opds, e)
			s := q.next()
			if s.k == ")" {
				break
			}
			if s.k != "," {
				return nil, fmt.Errorf(", or ) expected in IN list")
			}
		}
		return &sqlNode{op: "IN", opds: opds}, nil
	}
	return nil, fmt.Errorf("comparison expected after operand, found %q", t.s)
}

func sqlRead(s string) (*sqlNode, error) {
	toks, err := sqlLex(s)
	if err != nil {
		return nil, err
	}
	q := &sqlParser{toks: toks}
	n, err := q.parseOr()
	if err != nil {
		return nil, err
	}
	if q.p != len(toks) {
		return nil, fmt.Errorf("trailing input %q", q.peek().s)
	}
	return n, nil
}

// flatten: AND(AND(a,b),c) = AND(a,b,c) (associativity), likewise OR
func (n *sqlNode) flatten() *sqlNode {
	if n.op != "AND" && n.op != "OR" && n.op != "NOT" {
		return n
	}
	out := &sqlNode{op: n.op}
	for _, k := range n.kids {
		f := k.flatten()
		if f.op == n.op && n.op != "NOT" {
			out.kids = append(out.kids, f.kids...)
		} else {
			out.kids = append(out.kids, f)
		}
	}
	return out
}

func (c *crit) flatten() *crit {
	if !c.isGroup() {
		return c
	}
	out := &crit{op: c.op}
	for _, k := range c.kids {
		f := k.flatten()
		if f.op == c.op && c.op != "NOT" {
			out.kids = append(out.kids, f.kids...)
		} else {
			out.kids = append(out.kids, f)
		}
	}
	return out
}

// ---------------------------------------------------------------------------
// comparison of the read text with the tree

type c20diff struct {
	clause string
	class  string
	msg    string
}

// sqlOp: how the condition operator is written in SQL
func sqlOp(op string) string {
	switch op {
	case "!=":
		return "<>"
	}
	return op
}

func operandClass(o *operand) string {
	switch o.k {
	case opdNum:
		if math.Abs(o.n) >= two63 {
			return "number-beyond-int64"
		}
		return "number"
	case opdStr:
		return "string"
	case opdBool:
		return "bool"
	case opdTime:
		return "time"
	case opdBound:
		return operandClass(o.val)
	}
	return "column"
}

// matchOperand: one operand of the tree against one operand token
func matchOperand(o *operand, t sqlTok) *c20diff {
	if o.k == opdBound {
		if d := matchOperand(o.val, t); d != nil {
			d.msg = "bound name " + o.name + ": " + d.msg
			return d
		}
		return nil
	}
	switch o.k {
	case opdCol:
		if t.k != "id" || t.s != o.name {
			return &c20diff{"names", "unbound-name-is-column", fmt.Sprintf("column %s rendered as %s %q", o.name, t.k, t.s)}
		}
	case opdNum:
		f, err := strconv.ParseFloat(t.s, 64)
		if t.k != "num" || err != nil || f != o.n {
			return &c20diff{"exact-literal", operandClass(o), fmt.Sprintf("number %v rendered as %s %q", o.n, t.k, t.s)}
		}
	case opdBool:
		want := "0"
		if o.b {
			want = "1"
		}
		ok := (t.k == "num" && t.s == want) || (t.k == "bool" && (t.s == "TRUE") == o.b)
		if !ok {
			return &c20diff{"exact-literal", "bool", fmt.Sprintf("bool %v rendered as %s %q", o.b, t.k, t.s)}
		}
	case opdTime:
		if t.k != "fn" || t.s != strconv.FormatInt(o.t.Unix(), 10) {
			return &c20diff{"exact-literal", "time", fmt.Sprintf("time %d rendered as %s %q", o.t.Unix(), t.k, t.s)}
		}
	case opdStr:
		if t.k != "str" {
			return &c20diff{"string-one-literal", stringClass(o.s), fmt.Sprintf("string %q rendered as %s %q", o.s, t.k, t.s)}
		}
	}
	return nil
}

func stringClass(s string) string {
	switch {
	case strings.ContainsAny(s, `"'`) && strings.Contains(s, `\`):
		return "quotes-and-backslashes"
	case strings.ContainsAny(s, `"'`):
		return "quotes"
	case strings.Contains(s, `\`):
		return "backslashes"
	}
	for _, r := range s {
		if r < 0x20 || r == 0x7f {
			return "control"
		}
	}
	for _, r := range s {
		if r > 0x7f {
			return "non-ascii"
		}
	}
	return "plain"
}

func matchTree(c *crit, n *sqlNode, path string) *c20diff {
	if c.isGroup() {
		if n.op != c.op || len(n.kids) != len(c.kids) {
			return &c20diff{"structure", "connectives", fmt.Sprintf("at %s: tree has %s of %d, text reads as %s of %d", path, c.op, len(c.kids), n.op, len(n.kids))}
		}
		for i := range c.kids {
			if d := matchTree(c.kids[i], n.kids[i], fmt.Sprintf("%s/%s[%d]", path, c.op, i)); d != nil {
				return d
			}
		}
		return nil
	}
	if n.op != sqlOp(c.op) {
		return &c20diff{"structure", "conditions", fmt.Sprintf("at %s: condition %s reads as %s", path, c.op, n.op)}
	}
	want := append([]*operand{c.field}, c.args...)
	// IN: the list operand is spread
	if c.op == "IN" {
		want = append([]*operand{c.field}, c.args[0].list...)
	}
	if len(want) != len(n.opds) {
		return &c20diff{"structure", "conditions", fmt.Sprintf("at %s: %d operands read, %d expected", path, len(n.opds), len(want))}
	}
	for i := range want {
		if d := matchOperand(want[i], n.opds[i]); d != nil {
			d.msg = "at " + path + ": " + d.msg
			return d
		}
	}
	return nil
}

// worstClass: the most specific input class among a tree's operands, used
// when the text cannot even be read
func worstClass(c *crit) string {
	best := "plain"
	// an unreadable text can only come from a string operand, so strings
	// with special characters outrank everything else
	rank := map[string]int{"plain": 0, "column": 0, "number": 0, "bool": 0, "time": 0, "string": 1, "number-beyond-int64": 2}
	visit := func(o *operand) {
		cl := operandClass(o)
		if cl == "string" {
			s := o
			if s.k == opdBound {
				s = s.val
			}
			if sc := stringClass(s.s); sc != "plain" {
				cl = "string-" + sc
				rank[cl] = 3
			}
		}
		if rank[cl] > rank[best] {
			best = cl
		}
	}
	var walk func(c *crit)
	walk = func(c *crit) {
		if c.isGroup() {
			for _, k := range c.kids {
				walk(k)
			}
			return
		}
		visit(c.field)
		for _, a := range c.args {
			visit(a)
			for _, e := range a.list {
				visit(e)
			}
		}
	}
	walk(c)
	return best
}

// ---------------------------------------------------------------------------
// generators

func c20Strings() []string {
	return []string{
		"plain", "", "it's", `say "hi"`, `back\slash`, `end\`, `\" OR 1=1 --`, `" OR "1"="1`, `' OR '1'='1`,
		`\`, `\\`, `"`, `""`, `\"`, "new\nline", "tab\t", "nul\x00", "bell\a", "\x1b[0m", "é", "日本語", " ", "\xff\xfe",
		"a`b", "%_like%", `") OR ("" = "`, "\\\"\\", `'; DROP TABLE t; --`,
	}
}

func c20Numbers() []float64 {
	return []float64{0, 1, 42, 0.5, 1e-7, 123456.789, two53, two53 + 2, two63 - 1024, two63, 1e19, 1e300, math.MaxFloat64}
}

func c20NegNumbers() []float64 { return []float64{-1, -0.5, -two63, -1e300} }

func num(n float64) *operand  { return &operand{k: opdNum, n: n} }
func str(s string) *operand   { return &operand{k: opdStr, s: s} }
func boolean(b bool) *operand { return &operand{k: opdBool, b: b} }
func tim(sec int64) *operand  { return &operand{k: opdTime, t: time.Unix(sec, 0)} }
func col(n string) *operand   { return &operand{k: opdCol, name: n} }
func bound(n string, v *operand) *operand {
	return &operand{k: opdBound, name: n, val: v}
}
func cond(field *operand, op string, args ...*operand) *crit {
	return &crit{op: op, field: field, args: args}
}

// c20Leaves: every condition kind with every operand kind
func c20Leaves() []*crit {
	var out []*crit
	cmpAll := []string{"=", "<>", "<", "<=", ">", ">="}
	for _, op := range cmpAll {
		out = append(out,
			cond(col("n1"), op, num(42)),
			cond(col("n1"), op, col("n2")),
			cond(col("n1"), op, bound("curn", num(7))),
			cond(col("t1"), op, tim(1600000000)),
			cond(col("t1"), op, bound("curt", tim(1500000000))),
		)
	}
	for _, op := range []string{"=", "<>"} {
		out = append(out,
			cond(col("s1"), op, str("abc")),
			cond(col("s1"), op, col("s2")),
			cond(col("s1"), op, bound("curs", str("it's"))),
			cond(col("b1"), op, boolean(true)),
			cond(col("b1"), op, boolean(false)),
			cond(col("b1"), op, bound("curb", boolean(true))),
			cond(bound("curn", num(7)), op, col("n1")),
			cond(bound("curs", str(`q"q`)), op, col("s1")),
		)
	}
	out = append(out,
		cond(col("n1"), "IN", &operand{k: opdList, list: []*operand{num(1), num(2), num(3)}}),
		cond(col("n1"), "IN", &operand{k: opdList, list: []*operand{num(1)}}),
		cond(col("n1"), "IN", &operand{k: opdList, list: []*operand{num(1), bound("curn", num(-5)), col("n2")}}),
		cond(col("s1"), "IN", &operand{k: opdList, list: []*operand{str("a"), str(`b"`), str("c, d")}}),
		cond(col("s1"), "IN", &operand{k: opdList, list: []*operand{str(`x") OR ("1" = "1`)}}),
		cond(col("n1"), "BETWEEN", num(1), num(100)),
		cond(col("n1"), "BETWEEN", bound("curn", num(-1)), col("n2")),
		cond(col("t1"), "BETWEEN", tim(0), tim(1700000000)),
		cond(col("t1"), "BETWEEN", bound("curt", tim(1)), tim(2)),
		cond(col("s1"), "LIKE", str("hello%")),
		cond(col("s1"), "LIKE", bound("curs", str(`%"_\%`))),
		cond(col("s1"), "ISNULL"),
		cond(col("n1"), "ISNULL"),
		cond(col("t1"), "ISNULL"),
		cond(col("b1"), "ISNULL"),
	)
	return out
}

// adversarial / exactness leaves: one per string, number
func c20ValueLeaves() []*crit {
	var out []*crit
	for _, s := range c20Strings() {
		out = append(out,
			cond(col("s1"), "=", str(s)),
			cond(col("s1"), "=", bound("curs", str(s))),
			cond(col("s1"), "LIKE", str(s)),
			cond(col("s1"), "IN", &operand{k: opdList, list: []*operand{str(s), str("z")}}),
		)
	}
	for _, n := range c20Numbers() {
		out = append(out,
			cond(col("n1"), "=", num(n)),
			cond(col("n1"), ">=", bound("curn", num(n))),
			cond(col("n1"), "BETWEEN", num(n), num(n)),
			cond(col("n1"), "IN", &operand{k: opdList, list: []*operand{num(n)}}),
		)
	}
	for _, n := range c20NegNumbers() {
		out = append(out, cond(col("n1"), "<", bound("curn", num(n))))
	}
	for _, sec := range []int64{0, 1, 1600000000, -1, 253402300799} {
		out = append(out, cond(col("t1"), "=", tim(sec)), cond(col("t1"), "<", bound("curt", tim(sec))))
	}
	return out
}

// shapes: all trees over AND/OR/NOT of connective depth <= d with leaves as
// holes
type shape struct {
	op   string
	kids []*shape
}

func enumCritShapes(d int) []*shape {
	if d == 0 {
		return []*shape{{op: "leaf"}}
	}
	sub := enumCritShapes(d - 1)
	out := []*shape{{op: "leaf"}}
	for _, a := range sub {
		out = append(out, &shape{op: "NOT", kids: []*shape{a}})
	}
	for _, op := range []string{"AND", "OR"} {
		for _, a := range sub {
			for _, b := range sub {
				out = append(out, &shape{op: op, kids: []*shape{a, b}})
			}
		}
	}
	return out
}

func (s *shape) fill(next func() *crit) *crit {
	if s.op == "leaf" {
		return next()
	}
	c := &crit{op: s.op}
	for _, k := range s.kids {
		c.kids = append(c.kids, k.fill(next))
	}
	return c
}

func (s *shape) String() string {
	if s.op == "leaf" {
		return "·"
	}
	xs := make([]string, len(s.kids))
	for i, k := range s.kids {
		xs[i] = k.String()
	}
	return s.op + "(" + strings.Join(xs, ",") + ")"
}

// ---------------------------------------------------------------------------

func c20Check(c *Ctx, tree *crit) {
	in := tree.String()
	nontrivial := tree.isGroup() || worstClass(tree) != "plain"
	c.eval(in, nontrivial)
	env := val.NewEnv()
	boundNames := map[string]*operand{}
	collectBound(tree, env, boundNames)
	var sql string
	var err error
	if p, msg := guard(func() { sql, err = ext.CompileToSql(tree.real(), c20TypeEnv())(env) }); p {
		c.fail("C20/produces-text/"+worstClass(tree), in, "a WHERE text", "panic: "+msg, "")
		return
	}
	if err != nil {
		c.fail("C20/produces-text/"+worstClass(tree), in, "a WHERE text", "error: "+err.Error(), "")
		return
	}
	n, rerr := sqlRead(sql)
	if rerr != nil {
		// the text is not even well-formed for the reference reader: a
		// literal escaped its quotes, or a value is not in SQL form
		c.fail("C20/readable/"+worstClass(tree), in, "text readable with standard SQL lexical rules and precedence", sql, rerr.Error())
		return
	}
	if d := matchTree(tree.flatten(), n.flatten(), ""); d != nil {
		c.fail("C20/"+d.clause+"/"+d.class, in, "text that reads back as the tree (up to associativity of AND / OR)", sql, d.msg)
	}
}

func runC20(c *Ctx) {
	r := c.R
	depth := 3
	fills := 1
	nRandom := 2000
	if c.Thorough {
		fills = 4
		nRandom = 30000
	}
	r.Contract = "ext.CompileToSql(tree, model)(env) returns a text which an independent reader (SQL lexical rules: back-quoted identifiers, quoted literals ending at the first unescaped quote, numbers; precedence comparison > NOT > AND > OR; BETWEEN..AND, IN (...), LIKE, IS NULL) reads back as the same tree up to associativity of AND and of OR: same connectives, same nesting, same conditions in the same order; a name bound in env appears as its value, any other name as a back-quoted column; every string operand is exactly one literal token; numbers read back (ParseFloat) to exactly the operand, bools are 1/0, times from_unixtime(seconds)"
	leaves := c20Leaves()
	values := c20ValueLeaves()
	shapes := enumCritShapes(depth)
	r.Space = fmt.Sprintf("conditions: %d kinds (= <> < <= > >= on num/time with literal, column, bound operand; = <> on str/bool; bound field; IN with literal/bound/column elements; BETWEEN num/time; LIKE; IS NULL on every column type); every condition alone and under NOT, and every ordered pair of conditions under AND and OR; all %d tree shapes over binary AND / OR and unary NOT of connective depth <= %d, each filled %d time(s) with conditions taken round-robin from the pool; %d adversarial strings (quotes, backslashes, injection attempts, control, non-ASCII, invalid UTF-8) and %d numbers (fractions, 2^53, 2^63, 1e19, 1e300, MaxFloat64; negative ones through bound names) x 4 condition forms, alone and as both operands of AND / OR / NOT; %d random trees of depth <= 5 with random conditions and values", len(leaves), len(shapes), depth, fills, len(c20Strings()), len(c20Numbers()), nRandom)
	r.Rule = "distinct = distinct tree (rendered with operands); non-trivial = the tree has at least one connective, or an operand that is a string with special characters or a number beyond int64"
	r.Exhaustive = true

	// 1. every condition alone, under NOT, and in pairs under AND / OR
	for _, l := range leaves {
		c20Check(c, l)
		c20Check(c, &crit{op: "NOT", kids: []*crit{l}})
	}
	for _, a := range leaves {
		for _, b := range leaves {
			if conflicting(a, b) {
				continue
			}
			c20Check(c, &crit{op: "AND", kids: []*crit{a, b}})
			c20Check(c, &crit{op: "OR", kids: []*crit{a, b}})
		}
	}
	// 2. all shapes
	li := 0
	nextLeaf := func() *crit {
		for {
			l := leaves[li%len(leaves)]
			li++
			return l
		}
	}
	for f := 0; f < fills; f++ {
		for si, s := range shapes {
			t := fillNoConflict(s, nextLeaf)
			if si%397 == 3 && f == 0 {
				c.R.Sample(t.String())
			}
			c20Check(c, t)
		}
	}
	// 3. values
	for _, v := range values {
		c20Check(c, v)
		c20Check(c, &crit{op: "NOT", kids: []*crit{v}})
		c20Check(c, &crit{op: "AND", kids: []*crit{v, cond(col("n2"), "=", num(1))}})
		c20Check(c, &crit{op: "OR", kids: []*crit{cond(col("n2"), "=", num(1)), v}})
		c20Check(c, &crit{op: "AND", kids: []*crit{{op: "OR", kids: []*crit{v, cond(col("b1"), "ISNULL")}}, {op: "NOT", kids: []*crit{v}}}})
	}
	// 4. random
	rr := rand.New(rand.NewSource(c.Seed))
	for i := 0; i < nRandom; i++ {
		t := randCrit(rr, 1+rr.Intn(5), map[string]*operand{})
		if i%500 == 7 {
			c.R.Sample(clip(t.String(), 400))
		}
		c20Check(c, t)
	}
	r.Bound = fmt.Sprintf("connective depth <= %d exhaustively (%d shapes), pairs of %d conditions, %d value conditions x 5 contexts, %d random trees (seed %d)", depth, len(shapes), len(leaves), len(values), nRandom, c.Seed)
	r.Notes = append(r.Notes,
		"AND and OR are the documented binary connectives, NOT unary; condition groups of another arity are outside the space",
		"the content of a string literal is not decoded (the property fixes containment, not the escape dialect); containment is decided by tokenising the whole text and reading it back",
		"a name bound at run time has one value per tree: trees that would bind one name to two values are skipped",
	)
}

// conflicting: the two conditions bind the same name to different values
func conflicting(a, b *crit) bool {
	ea, eb := val.NewEnv(), val.NewEnv()
	ma, mb := map[string]*operand{}, map[string]*operand{}
	collectBound(a, ea, ma)
	collectBound(b, eb, mb)
	for n, v := range ma {
		if w, ok := mb[n]; ok && w.String() != v.String() {
			return true
		}
	}
	// a name used as column on one side and bound on the other would be
	// replaced on both sides
	return usesAsColumn(a, mb) || usesAsColumn(b, ma)
}

func usesAsColumn(c *crit, boundNames map[string]*operand) bool {
	found := false
	var visit func(o *operand)
	visit = func(o *operand) {
		if o == nil {
			return
		}
		if o.k == opdCol {
			if _, ok := boundNames[o.name]; ok {
				found = true
			}
		}
		for _, e := range o.list {
			visit(e)
		}
	}
	var walk func(c *crit)
	walk = func(c *crit) {
		if c.isGroup() {
			for _, k := range c.kids {
				walk(k)
			}
			return
		}
		visit(c.field)
		for _, a := range c.args {
			visit(a)
		}
	}
	walk(c)
	return found
}

// fillNoConflict fills a shape, skipping leaves that would bind a name
// already bound to another value in this tree.
func fillNoConflict(s *shape, next func() *crit) *crit {
	bound := map[string]*operand{}
	return s.fill(func() *crit {
		for {
			l := next()
			m := map[string]*operand{}
			collectBound(l, val.NewEnv(), m)
			ok := true
			for n, v := range m {
				if w, seen := bound[n]; seen && w.String() != v.String() {
					ok = false
				}
			}
			if ok {
				for n, v := range m {
					bound[n] = v
				}
				return l
			}
		}
	})
}

func randOperandValue(rr *rand.Rand, k opdKind) *operand {
	switch k {
	case opdNum:
		ns := c20Numbers()
		return num(ns[rr.Intn(len(ns))])
	case opdStr:
		ss := c20Strings()
		if rr.Intn(3) == 0 {
			// random bytes from an adversarial alphabet
			alpha := []string{`"`, `'`, `\`, "`", "(", ")", " OR ", "=", "1", "a", "\n", "\x00", "é", "%", ",", "--"}
			var b strings.Builder
			for i, n := 0, rr.Intn(8); i < n; i++ {
				b.WriteString(alpha[rr.Intn(len(alpha))])
			}
			return str(b.String())
		}
		return str(ss[rr.Intn(len(ss))])
	case opdBool:
		return boolean(rr.Intn(2) == 0)
	default:
		return tim(int64(rr.Intn(2000000000)))
	}
}

// randOperand: a literal, a bound name or a column of the given type
func randOperand(rr *rand.Rand, k opdKind, boundNames map[string]*operand) *operand {
	curName := map[opdKind]string{opdNum: "curn", opdStr: "curs", opdBool: "curb", opdTime: "curt"}[k]
	colNames := map[opdKind][]string{opdNum: {"n1", "n2"}, opdStr: {"s1", "s2"}, opdBool: {"b1"}, opdTime: {"t1"}}[k]
	switch rr.Intn(4) {
	case 0:
		return col(colNames[rr.Intn(len(colNames))])
	case 1:
		v, ok := boundNames[curName]
		if !ok {
			v = randOperandValue(rr, k)
			if k == opdNum && rr.Intn(3) == 0 {
				ns := c20NegNumbers()
				v = num(ns[rr.Intn(len(ns))])
			}
			boundNames[curName] = v
		}
		return bound(curName, v)
	}
	return randOperandValue(rr, k)
}

func randCond(rr *rand.Rand, boundNames map[string]*operand) *crit {
	kinds := []opdKind{opdNum, opdStr, opdBool, opdTime}
	k := kinds[rr.Intn(len(kinds))]
	field := col(map[opdKind][]string{opdNum: {"n1", "n2"}, opdStr: {"s1", "s2"}, opdBool: {"b1"}, opdTime: {"t1"}}[k][0])
	switch k {
	case opdNum, opdTime:
		switch rr.Intn(4) {
		case 0:
			return cond(field, "BETWEEN", randOperand(rr, k, boundNames), randOperand(rr, k, boundNames))
		case 1:
			if k == opdNum {
				l := &operand{k: opdList}
				for i, n := 0, 1+rr.Intn(4); i < n; i++ {
					l.list = append(l.list, randOperand(rr, k, boundNames))
				}
				return cond(field, "IN", l)
			}
			return cond(field, "ISNULL")
		default:
			ops := []string{"=", "<>", "<", "<=", ">", ">="}
			return cond(field, ops[rr.Intn(len(ops))], randOperand(rr, k, boundNames))
		}
	case opdStr:
		switch rr.Intn(4) {
		case 0:
			return cond(field, "LIKE", randOperand(rr, k, boundNames))
		case 1:
			l := &operand{k: opdList}
			for i, n := 0, 1+rr.Intn(4); i < n; i++ {
				l.list = append(l.list, randOperand(rr, k, boundNames))
			}
			return cond(field, "IN", l)
		default:
			return cond(field, []string{"=", "<>"}[rr.Intn(2)], randOperand(rr, k, boundNames))
		}
	default:
		if rr.Intn(4) == 0 {
			return cond(field, "ISNULL")
		}
		return cond(field, []string{"=", "<>"}[rr.Intn(2)], randOperand(rr, k, boundNames))
	}
}

func randCrit(rr *rand.Rand, depth int, boundNames map[string]*operand) *crit {
	if depth == 0 || rr.Intn(5) == 0 {
		return randCond(rr, boundNames)
	}
	switch rr.Intn(5) {
	case 0:
		return &crit{op: "NOT", kids: []*crit{randCrit(rr, depth-1, boundNames)}}
	case 1, 2:
		return &crit{op: "AND", kids: []*crit{randCrit(rr, depth-1, boundNames), randCrit(rr, depth-1, boundNames)}}
	default:
		return &crit{op: "OR", kids: []*crit{randCrit(rr, depth-1, boundNames), randCrit(rr, depth-1, boundNames)}}
	}
}
