package host

import (
	"fmt"
	"math"
	"math/rand"
	"sort"
	"strings"
	"time"
	"unicode/utf8"

	yae "github.com/goghcrow/yae"
	"github.com/goghcrow/yae/conv"
	"github.com/goghcrow/yae/types"
	"github.com/goghcrow/yae/val"
)

// ---------------------------------------------------------------------------
// value pools (every two distinct numbers are more than 1e-9 apart, finite)

const two63 = 9223372036854775808.0
const two53 = 9007199254740992.0

func c18Nums() []*MV {
	ns := []float64{
		0, math.Copysign(0, -1), 1, -1, 0.5, 0.500000002, 1e-7, 123456.789,
		two53 - 1, two53, two53 + 2, 4500000000000000.5,
		two63, two63 + 2048, -two63, -two63 - 2048, 1e19, 18446744073709551616.0,
		1e300, 2e300, -1e300, math.MaxFloat64,
	}
	out := make([]*MV, len(ns))
	for i, n := range ns {
		out[i] = vNum(n)
	}
	return out
}

func c18Strs() []*MV {
	ss := []string{"", "a", "b", "a b", `a"b`, `a\b`, "a\nb", "é", "é", "\x00", `"a"`, "1", "true", "a, b", `a", "b`, "\xff", "日本"}
	out := make([]*MV, len(ss))
	for i, s := range ss {
		out[i] = vStr(s)
	}
	return out
}

var c18t0 = time.Date(2020, 1, 2, 3, 4, 5, 0, time.UTC)

func c18Times() []*MV {
	now := time.Now()
	mono := &MV{T: tTime, Tm: now, Label: "time(now, with monotonic reading)"}
	stripped := &MV{T: tTime, Tm: now.Round(0), Label: "time(now, monotonic reading stripped)"}
	return []*MV{
		vTime(c18t0),
		vTime(c18t0.In(time.FixedZone("", 8*3600))),
		vTime(c18t0.In(time.FixedZone("CST", 8*3600))),
		vTime(c18t0.In(time.FixedZone("", -5*3600))),
		vTime(c18t0.Add(time.Second)),
		vTime(c18t0.Add(time.Nanosecond)),
		vTime(c18t0.Add(time.Second).In(time.FixedZone("", 8*3600))),
		mono, stripped,
	}
}

func c18Bools() []*MV { return []*MV{vBool(true), vBool(false)} }

// all orders in which the content of an object can be declared
func allFieldOrders(o *MV) []*MV {
	var out []*MV
	for _, p := range permutations(len(o.F)) {
		out = append(out, o.permuteFields(p))
	}
	return out
}

func allEntryOrders(m *MV) []*MV {
	var out []*MV
	for _, p := range permutations(len(m.Keys)) {
		out = append(out, m.permuteEntries(p))
	}
	return out
}

func c18Composites() [][]*MV {
	n := vNum
	s := vStr
	t8 := c18t0.In(time.FixedZone("", 8*3600))
	objAB := func(a float64, b string) *MV { return vObj("a", n(a), "b", s(b)) }
	obj3 := func(a, b, c float64) *MV { return vObj("c", n(c), "a", n(a), "b", n(b)) }
	var groups [][]*MV

	groups = append(groups, []*MV{ // list[num]
		vList(tNum), vList(tNum, n(1)), vList(tNum, n(1), n(2)), vList(tNum, n(2), n(1)), vList(tNum, n(1), n(2), n(3)),
		vList(tNum, n(two63)), vList(tNum, n(-two63)), vList(tNum, n(1e300)), vList(tNum, n(2e300)),
	})
	groups = append(groups, []*MV{ // list[str]
		vList(tStr, s("a"), s("b")), vList(tStr, s("a, b")), vList(tStr, s(`a", "b`)), vList(tStr, s("a")), vList(tStr, s("b"), s("a")),
	})
	groups = append(groups, []*MV{ // list[time]
		vList(tTime, vTime(c18t0)), vList(tTime, vTime(t8)), vList(tTime, vTime(c18t0.Add(time.Second))),
	})
	{ // map[str,num]
		g := allEntryOrders(vMap(tStr, tNum, s("a"), n(1), s("b"), n(2), s("c"), n(3)))
		g = append(g, vMap(tStr, tNum), vMap(tStr, tNum, s("a"), n(1)), vMap(tStr, tNum, s("a"), n(2), s("b"), n(1), s("c"), n(3)),
			vMap(tStr, tNum, s("a"), n(1), s("b"), n(2)), vMap(tStr, tNum, s("b"), n(2), s("a"), n(1)))
		groups = append(groups, g)
	}
	groups = append(groups, []*MV{ // map[num,str]
		vMap(tNum, tStr, n(1), s("x"), n(2), s("y")), vMap(tNum, tStr, n(2), s("y"), n(1), s("x")),
		vMap(tNum, tStr, n(10), s("x"), n(9), s("y")), vMap(tNum, tStr, n(9), s("y"), n(10), s("x")),
		vMap(tNum, tStr, n(two63), s("x")), vMap(tNum, tStr, n(-two63), s("x")),
		vMap(tNum, tStr, n(1e300), s("x")), vMap(tNum, tStr, n(2e300), s("x")),
		vMap(tNum, tStr, n(1e300), s("x"), n(2e300), s("x")), vMap(tNum, tStr, n(0.5), s("x")),
	})
	groups = append(groups, []*MV{ // map[time,num]
		vMap(tTime, tNum, vTime(c18t0), n(1)), vMap(tTime, tNum, vTime(t8), n(1)), vMap(tTime, tNum, vTime(c18t0.Add(time.Second)), n(1)),
	})
	groups = append(groups, []*MV{ // {a:num, b:str}
		objAB(1, "x"), objAB(1, "x").permuteFields([]int{1, 0}), objAB(2, "x"), objAB(1, "y").permuteFields([]int{1, 0}),
	})
	{ // three num fields in every declaration order
		g := allFieldOrders(obj3(2, 3, 1))
		g = append(g, obj3(2, 3, 9), obj3(2, 3, 9).permuteFields([]int{1, 2, 0}))
		groups = append(groups, g)
	}
	{ // list of 3-field objects
		var g []*MV
		for _, o := range allFieldOrders(obj3(2, 3, 1))[:4] {
			g = append(g, vList(o.T, o))
		}
		groups = append(groups, g)
	}
	{ // {p: obj3, q: list[num]} with permutations at both levels
		var g []*MV
		for _, o := range allFieldOrders(obj3(2, 3, 1))[:3] {
			w := vObj("p", o, "q", vList(tNum, n(1), n(2)))
			g = append(g, w, w.permuteFields([]int{1, 0}))
		}
		g = append(g, vObj("p", obj3(2, 3, 1), "q", vList(tNum, n(2), n(1))))
		groups = append(groups, g)
	}
	{ // map[str, {a,b}] with both kinds of permutation
		a, b := objAB(1, "x"), objAB(1, "x").permuteFields([]int{1, 0})
		g := []*MV{
			vMap(tStr, a.T, s("k"), a, s("j"), objAB(2, "y")),
			vMap(tStr, a.T, s("j"), objAB(2, "y"), s("k"), a),
			vMap(tStr, b.T, s("k"), b, s("j"), objAB(2, "y").permuteFields([]int{1, 0})),
			vMap(tStr, a.T, s("k"), objAB(2, "y"), s("j"), a),
		}
		groups = append(groups, g)
	}
	{ // list[map[str,num]]
		m := vMap(tStr, tNum, s("a"), n(1), s("b"), n(2))
		g := []*MV{vList(m.T, m), vList(m.T, m.permuteEntries([]int{1, 0})), vList(m.T, vMap(tStr, tNum, s("a"), n(1)))}
		groups = append(groups, g)
	}
	groups = append(groups, []*MV{ // maybe[num]
		vJust(n(1)), vJust(n(2)), vNothing(tNum), vJust(n(two63)), vJust(n(-two63)),
	})
	{ // maybe[{a,b}] with both declaration orders
		a, b := objAB(1, "x"), objAB(1, "x").permuteFields([]int{1, 0})
		groups = append(groups, []*MV{vJust(a), vJust(b), vNothing(a.T), vNothing(b.T), vJust(objAB(2, "x"))})
	}
	{ // object with optional fields
		g := []*MV{
			vObj("n", vJust(n(1)), "s", s("x")), vObj("s", s("x"), "n", vJust(n(1))),
			vObj("n", vNothing(tNum), "s", s("x")), vObj("n", vJust(n(2)), "s", s("x")),
		}
		groups = append(groups, g)
	}
	return groups
}

// ---------------------------------------------------------------------------
// input classes (decide the failure key)

const (
	clsBig      = "integral-beyond-int64"
	clsTime     = "time-same-instant-different-representation"
	clsMaybeObj = "optional-of-object-field-order"
	clsObjOrder = "object-field-order"
	clsMapOrder = "map-insertion-order"
)

func isBig(n float64) bool { return math.Abs(n) >= two63 }

func declOrder(t *MT) string { return t.String() }

// pairFeatures walks two values in parallel (fields by name, entries by
// key) and collects the features that distinguish the input classes.
func pairFeatures(x, y *MV, f map[string]bool) {
	if x.T.K != y.T.K {
		return
	}
	switch x.T.K {
	case kNum:
		if x.N != y.N && (isBig(x.N) || isBig(y.N)) {
			f[clsBig] = true
		}
	case kTime:
		if x.Tm.Equal(y.Tm) && x.Tm.String() != y.Tm.String() {
			f[clsTime] = true
		}
	case kList:
		for i := 0; i < len(x.L) && i < len(y.L); i++ {
			pairFeatures(x.L[i], y.L[i], f)
		}
	case kMap:
		ex, ey := x.entries(), y.entries()
		sameOrder := len(ex) == len(ey)
		for i, e := range ex {
			if i < len(ey) && !refEqLoose(e[0], ey[i][0]) {
				sameOrder = false
			}
			for _, g := range ey {
				if refEqLoose(e[0], g[0]) {
					pairFeatures(e[0], g[0], f)
					pairFeatures(e[1], g[1], f)
				}
			}
		}
		// keys that differ only beyond int64 / only in representation
		for _, e := range ex {
			for _, g := range ey {
				pairFeatures(e[0], g[0], f)
			}
		}
		if !sameOrder && len(ex) == len(ey) {
			f[clsMapOrder] = true
		}
	case kObj:
		if tyEq(x.T, y.T) && declOrder(x.T) != declOrder(y.T) {
			names := func(t *MT) string {
				xs := []string{}
				for _, fl := range t.F {
					xs = append(xs, fl.Name)
				}
				return strings.Join(xs, ",")
			}
			if names(x.T) != names(y.T) {
				f[clsObjOrder] = true
			}
		}
		for i, fl := range x.T.F {
			if o := y.get(fl.Name); o != nil {
				pairFeatures(x.F[i], o, f)
			}
		}
	case kMaybe:
		if tyEq(x.T, y.T) && declOrder(x.T.El) != declOrder(y.T.El) {
			f[clsMaybeObj] = true
		}
		if x.J != nil && y.J != nil {
			pairFeatures(x.J, y.J, f)
		}
	}
}

// refEqLoose: refEq that tolerates differing types (used for key matching)
func refEqLoose(a, b *MV) bool { return a.T.K == b.T.K && refEq(a, b) }

func hasMaybeObjOrder(t, u *MT) bool {
	if t.K != u.K {
		return false
	}
	switch t.K {
	case kMaybe:
		return declOrder(t.El) != declOrder(u.El) || hasMaybeObjOrder(t.El, u.El)
	case kList:
		return hasMaybeObjOrder(t.El, u.El)
	case kMap:
		return hasMaybeObjOrder(t.El, u.El)
	case kObj:
		for _, f := range t.F {
			if g := u.field(f.Name); g != nil && hasMaybeObjOrder(f.T, g.T) {
				return true
			}
		}
	}
	return false
}

func pairClass(x, y *MV) (class string, clause string) {
	f := map[string]bool{}
	pairFeatures(x, y, f)
	if tyEq(x.T, y.T) && hasMaybeObjOrder(x.T, y.T) {
		f[clsMaybeObj] = true
	}
	switch {
	case f[clsBig]:
		return clsBig, "distinct-numbers"
	case f[clsTime]:
		return clsTime, "agree"
	case f[clsMaybeObj]:
		return clsMaybeObj, "canonical-rendering"
	case f[clsObjOrder]:
		return clsObjOrder, "canonical-rendering"
	case f[clsMapOrder]:
		return clsMapOrder, "canonical-rendering"
	}
	return "plain-" + kindName(x.T.K), "agree"
}

func kindName(k kind) string {
	return [...]string{"num", "str", "bool", "time", "list", "map", "object", "optional"}[k]
}

// ---------------------------------------------------------------------------
// programs over x, y (and mx = [x: 1] for primitive x)

type c18prog struct {
	src   string
	prim  bool // only for primitive types (map keys)
	cmp   bool // only for types that have a direct == (primitive, list, map)
	sym   bool // the symmetric twin of the equality program
	wantT func(same bool) interface{}
}

func boolIs(same bool) interface{} { return same }

func c18Progs() []c18prog {
	numIf := func(a, b float64) func(bool) interface{} {
		return func(same bool) interface{} {
			if same {
				return a
			}
			return b
		}
	}
	return []c18prog{
		{"[x] == [y]", false, false, false, boolIs},
		{"[y] == [x]", false, false, true, boolIs},
		{"[x] != [y]", false, false, false, func(s bool) interface{} { return !s }},
		{"x == y", false, true, false, boolIs},
		{"isset([x: 1], y)", true, false, false, boolIs},
		{"get([x: 1], y, 0)", true, false, false, numIf(1, 0)},
		{"len([x: 1, y: 2])", true, false, false, numIf(1, 2)},
		{"isset(mx, y)", true, false, false, boolIs},
		{"get(mx, y, 0)", true, false, false, numIf(1, 0)},
		{"len(union([x], [y]))", false, false, false, numIf(1, 2)},
		{"len(intersect([x], [y]))", false, false, false, numIf(1, 0)},
		{"len(diff([x], [y]))", false, false, false, numIf(0, 1)},
	}
}

type c18state struct {
	c        *Ctx
	backends []string
	progs    []c18prog
	cache    map[string]yae.Callable
	pairs    int
}

func isPrim(t *MT) bool { return t.K <= kTime }

func (st *c18state) callable(backend string, p c18prog, tx, ty *MT) yae.Callable {
	key := backend + "|" + p.src + "|" + tx.String() + "|" + ty.String()
	if cl, ok := st.cache[key]; ok {
		return cl
	}
	te := types.NewEnv()
	te.Put("x", toType(tx))
	te.Put("y", toType(ty))
	if isPrim(tx) {
		te.Put("mx", types.Map(toType(tx), types.Num))
	}
	cl, _ := compile(newEngine(backend, nil), p.src, te)
	st.cache[key] = cl
	return cl
}

// one pair in one form
func (st *c18state) checkPair(form string, x, y *MV, vx, vy *val.Val, env func() interface{}, samePoolElement bool) {
	c := st.c
	ref := refEq(x, y)
	in := fmt.Sprintf("%s: x = %s : %s; y = %s : %s", form, x, x.T, y, y.T)
	c.eval(in, !samePoolElement || !isPrim(x.T))
	st.pairs++
	class, clause := pairClass(x, y)
	var bad []string
	var symBad []string
	note := func(what string, got interface{}, want interface{}) {
		if got != want {
			bad = append(bad, fmt.Sprintf("%s = %v (want %v)", what, got, want))
		}
	}
	// value level
	var e1, e2 bool
	if p, msg := guard(func() { e1, e2 = val.Equals(vx, vy), val.Equals(vy, vx) }); p {
		bad = append(bad, "val.Equals panics: "+msg)
	} else {
		note("val.Equals(x,y)", e1, ref)
		if e1 != e2 {
			symBad = append(symBad, fmt.Sprintf("val.Equals(x,y) = %v but val.Equals(y,x) = %v", e1, e2))
		}
	}
	sx, sy := safeString(vx), safeString(vy)
	if (sx == sy) != ref {
		bad = append(bad, fmt.Sprintf("String() %s vs %s: equal = %v (want %v)", clip(sx, 120), clip(sy, 120), sx == sy, ref))
	}
	if isPrim(x.T) {
		var kx, ky val.Key
		if p, msg := guard(func() { kx, ky = vx.Key(), vy.Key() }); p {
			bad = append(bad, "Key() panics: "+msg)
		} else if (kx == ky) != ref {
			bad = append(bad, fmt.Sprintf("Key() %s vs %s: equal = %v (want %v)", kx, ky, kx == ky, ref))
		}
	}
	// program level
	for _, backend := range st.backends {
		var eqRes, symRes interface{}
		for _, p := range st.progs {
			if p.prim && !isPrim(x.T) {
				continue
			}
			if p.cmp && !(isPrim(x.T) || x.T.K == kList || x.T.K == kMap) {
				continue
			}
			cl := st.callable(backend, p, x.T, y.T)
			if cl == nil {
				bad = append(bad, fmt.Sprintf("`%s` [%s] does not compile for equal types", p.src, backend))
				continue
			}
			c.R.Evaluations++
			res := call(cl, env())
			want := p.wantT(ref)
			var got interface{} = res.String()
			if res.ok() {
				switch res.V.Type.Kind {
				case types.KBool:
					got = res.V.Bool().V
				case types.KNum:
					got = res.V.Num().V
				}
			}
			if p.src == "[x] == [y]" {
				eqRes = got
			}
			if p.sym {
				symRes = got
				if eqRes != symRes {
					symBad = append(symBad, fmt.Sprintf("`[x] == [y]` = %v but `[y] == [x]` = %v [%s]", eqRes, symRes, backend))
				}
				continue
			}
			note("`"+p.src+"` ["+backend+"]", got, want)
		}
	}
	if len(symBad) > 0 {
		c.fail("C18/reflexive-symmetric/"+class, in, "equality symmetric", strings.Join(symBad, "; "), "")
	}
	if len(bad) > 0 {
		key := "C18/" + clause + "/" + class
		if samePoolElement && !e1 {
			key = "C18/reflexive-symmetric/" + class
		}
		c.fail(key, in, fmt.Sprintf("==, String(), map-key identity and set membership all say same = %v", ref), strings.Join(bad, "; "), "")
	}
}

func (st *c18state) rawEnv(x, y *MV, vx, vy *val.Val) func() interface{} {
	return func() interface{} {
		e := val.NewEnv()
		e.Put("x", vx)
		e.Put("y", vy)
		if isPrim(x.T) {
			m := val.Map(types.Map(vx.Type, types.Num).Map()).Map()
			m.Put(vx, val.Num(1))
			e.Put("mx", m.Vl())
		}
		return e
	}
}

// all forms of one pair
func (st *c18state) pair(x, y *MV, same bool) {
	c := st.c
	// raw values built with the val factories (two separate builds)
	{
		var vx, vy *val.Val
		if p, msg := guard(func() { vx, vy = toVal(x), toVal(y) }); p {
			c.fail("C18/setup/raw", x.String()+" / "+y.String(), "values can be built", msg, "")
		} else {
			st.checkPair("raw values", x, y, vx, vy, st.rawEnv(x, y, vx, vy), same)
		}
	}
	// host data converted by conv
	if hostable(x.T, true) && hostable(y.T, true) {
		me := newMenv("x", x, "y", y)
		if isPrim(x.T) {
			me.put("mx", vMap(x.T, tNum, x, vNum(1)))
		}
		host := me.valueSide(formStruct)
		ve, err := conv.ValEnvOf(host)
		if err != nil {
			c.fail("C18/setup/host", me.String(), "host data converts", err.Error(), "")
		} else {
			vx, _ := ve.Get("x")
			vy, _ := ve.Get("y")
			st.checkPair("host data", x, y, vx, vy, func() interface{} { return me.valueSide(formStruct) }, same)
		}
	}
	// values built by the language from literals
	lx, okx := toLit(x)
	ly, oky := toLit(y)
	if okx && oky {
		ox := evalLit(lx)
		oy := evalLit(ly)
		if !ox.ok() || !oy.ok() {
			c.fail("C18/setup/literal", lx+" / "+ly, "literals evaluate", ox.String()+" / "+oy.String(), "")
		} else if tyEqReal(ox.V.Type, toType(x.T)) && tyEqReal(oy.V.Type, toType(y.T)) {
			st.checkPair("literals `"+lx+"` and `"+ly+"`", x, y, ox.V, oy.V, st.rawEnv(x, y, ox.V, oy.V), same)
		}
	}
}

var litCache = map[string]outcome{}

func evalLit(src string) outcome {
	if o, ok := litCache[src]; ok {
		return o
	}
	var o outcome
	cl, co := compile(yae.NewExpr(), src, map[string]interface{}{})
	if cl == nil {
		o = co
	} else {
		o = call(cl, map[string]interface{}{})
	}
	litCache[src] = o
	return o
}

// ---------------------------------------------------------------------------
// shared sub-values: a value that contains the same component twice

func (st *c18state) shared(z *MV) {
	c := st.c
	in := fmt.Sprintf("z = z2 = %s : %s; `[z, z]` against `[z, z2]`", z, z.T)
	c.eval("shared:"+in, true)
	mk := func() interface{} {
		e := val.NewEnv()
		e.Put("z", toVal(z))
		e.Put("z2", toVal(z))
		return e
	}
	te := func() *types.Env {
		t := types.NewEnv()
		t.Put("z", toType(z.T))
		t.Put("z2", toType(z.T))
		return t
	}
	var bad []string
	for _, backend := range st.backends {
		run := func(src string) outcome {
			cl, o := compile(newEngine(backend, nil), src, te())
			if cl == nil {
				return o
			}
			c.R.Evaluations++
			return call(cl, mk())
		}
		a, b := run("[z, z]"), run("[z, z2]")
		if !a.ok() || !b.ok() {
			bad = append(bad, "does not evaluate: "+a.String()+" / "+b.String())
			continue
		}
		if !val.Equals(a.V, b.V) {
			bad = append(bad, "val.Equals false ["+backend+"]")
		}
		// strip nothing: the texts must be identical
		if safeString(a.V) != safeString(b.V) {
			bad = append(bad, fmt.Sprintf("String() %s vs %s [%s]", clip(safeString(a.V), 100), clip(safeString(b.V), 100), backend))
		}
		if r := run("[z, z] == [z, z2]"); !r.ok() || !r.V.Bool().V {
			bad = append(bad, "`[z, z] == [z, z2]` = "+r.String()+" ["+backend+"]")
		}
		if r := run("len(union([[z, z]], [[z, z2]]))"); !r.ok() || r.V.Num().V != 1 {
			bad = append(bad, "`len(union([[z, z]], [[z, z2]]))` = "+r.String()+" (want 1) ["+backend+"]")
		}
		if r := run("len(diff([[z, z]], [[z, z2]]))"); !r.ok() || r.V.Num().V != 0 {
			bad = append(bad, "`len(diff([[z, z]], [[z, z2]]))` = "+r.String()+" (want 0) ["+backend+"]")
		}
	}
	if len(bad) > 0 {
		c.fail("C18/agree/shared-subvalue", in, "equal values: == true, same String(), one element in union, none in diff", strings.Join(bad, "; "), "")
	}
}

// ---------------------------------------------------------------------------
// random larger values

type c18gen struct {
	r     *rand.Rand
	nums  []*MV
	strs  []*MV
	times []*MV
}

func (g *c18gen) typ(depth int, field bool) *MT {
	k := g.r.Intn(9)
	if depth == 0 && k >= 4 {
		k = g.r.Intn(4)
	}
	switch k {
	case 0:
		return tNum
	case 1:
		return tStr
	case 2:
		return tBool
	case 3:
		return tTime
	case 4, 5:
		return tList(g.typ(depth-1, false))
	case 6:
		keys := []*MT{tNum, tStr, tBool, tTime, tStr}
		return tMap(keys[g.r.Intn(len(keys))], g.typ(depth-1, false))
	case 7:
		n := 1 + g.r.Intn(4)
		fs := make([]MF, n)
		names := []string{"k", "c", "x", "a"} // declared unsorted
		for i := range fs {
			fs[i] = MF{names[i], g.typ(depth-1, true)}
		}
		return tObj(fs...)
	default:
		if field {
			return tMaybe(g.typ(depth-1, false))
		}
		return tList(g.typ(depth-1, false))
	}
}

func (g *c18gen) value(t *MT) *MV {
	switch t.K {
	case kNum:
		return g.nums[g.r.Intn(len(g.nums))]
	case kStr:
		return g.strs[g.r.Intn(len(g.strs))]
	case kBool:
		return vBool(g.r.Intn(2) == 0)
	case kTime:
		return g.times[g.r.Intn(len(g.times))]
	case kList:
		l := &MV{T: t}
		for i, n := 0, g.r.Intn(4); i < n; i++ {
			l.L = append(l.L, g.value(t.El))
		}
		return l
	case kMap:
		m := &MV{T: t}
		for i, n := 0, g.r.Intn(4); i < n; i++ {
			k := g.value(t.Key)
			dup := false
			for _, o := range m.Keys {
				// keep keys distinct under every notion (no same-instant
				// twins, no beyond-int64 twins inside ONE map)
				if refEq(o, k) || (k.T.K == kNum && isBig(k.N) && isBig(o.N)) {
					dup = true
				}
			}
			if !dup {
				m.Keys = append(m.Keys, k)
				m.Vals = append(m.Vals, g.value(t.El))
			}
		}
		return m
	case kObj:
		o := &MV{T: t}
		for _, f := range t.F {
			o.F = append(o.F, g.value(f.T))
		}
		return o
	case kMaybe:
		if g.r.Intn(3) == 0 {
			return vNothing(t.El)
		}
		return vJust(g.value(t.El))
	}
	panic("value")
}

// rebuild: the same content with randomly permuted field declaration and
// entry insertion order at every level.
func (g *c18gen) rebuild(v *MV) *MV {
	switch v.T.K {
	case kList:
		l := &MV{}
		for _, e := range v.L {
			l.L = append(l.L, g.rebuild(e))
		}
		if len(l.L) > 0 {
			l.T = tList(l.L[0].T)
		} else {
			l.T = v.T
		}
		// all elements must share ONE declaration: reuse the first's order
		for i := 1; i < len(l.L); i++ {
			l.L[i] = conformTo(l.L[i], l.L[0].T)
		}
		return l
	case kMap:
		m := &MV{}
		p := g.r.Perm(len(v.Keys))
		for _, i := range p {
			m.Keys = append(m.Keys, v.Keys[i])
			m.Vals = append(m.Vals, g.rebuild(v.Vals[i]))
		}
		if len(m.Vals) > 0 {
			m.T = tMap(v.T.Key, m.Vals[0].T)
			for i := 1; i < len(m.Vals); i++ {
				m.Vals[i] = conformTo(m.Vals[i], m.Vals[0].T)
			}
		} else {
			m.T = v.T
		}
		return m
	case kObj:
		o := &MV{T: &MT{K: kObj}}
		for _, i := range g.r.Perm(len(v.F)) {
			x := g.rebuild(v.F[i])
			o.T.F = append(o.T.F, MF{v.T.F[i].Name, x.T})
			o.F = append(o.F, x)
		}
		return o
	case kMaybe:
		if v.J == nil {
			return v
		}
		return vJust(g.rebuild(v.J))
	}
	return v
}

// conformTo re-declares v (same content) with exactly the declaration t.
func conformTo(v *MV, t *MT) *MV {
	switch v.T.K {
	case kList:
		l := &MV{T: t}
		for _, e := range v.L {
			l.L = append(l.L, conformTo(e, t.El))
		}
		return l
	case kMap:
		m := &MV{T: t, Keys: v.Keys}
		for _, e := range v.Vals {
			m.Vals = append(m.Vals, conformTo(e, t.El))
		}
		return m
	case kObj:
		o := &MV{T: t}
		for _, f := range t.F {
			o.F = append(o.F, conformTo(v.get(f.Name), f.T))
		}
		return o
	case kMaybe:
		if v.J == nil {
			return &MV{T: t}
		}
		return &MV{T: t, J: conformTo(v.J, t.El)}
	}
	return v
}

// mutate: one leaf replaced (same type)
func (g *c18gen) mutate(v *MV) *MV {
	switch v.T.K {
	case kNum, kStr, kBool, kTime:
		for i := 0; i < 20; i++ {
			if w := g.value(v.T); !refEq(w, v) {
				return w
			}
		}
		return v
	case kList:
		if len(v.L) == 0 {
			return &MV{T: v.T, L: []*MV{g.value(v.T.El)}}
		}
		l := &MV{T: v.T, L: append([]*MV(nil), v.L...)}
		i := g.r.Intn(len(l.L))
		l.L[i] = g.mutate(l.L[i])
		return l
	case kMap:
		if len(v.Keys) == 0 {
			return &MV{T: v.T, Keys: []*MV{g.value(v.T.Key)}, Vals: []*MV{g.value(v.T.El)}}
		}
		m := &MV{T: v.T, Keys: v.Keys, Vals: append([]*MV(nil), v.Vals...)}
		i := g.r.Intn(len(m.Vals))
		m.Vals[i] = g.mutate(m.Vals[i])
		return m
	case kObj:
		if len(v.F) == 0 {
			return v
		}
		o := &MV{T: v.T, F: append([]*MV(nil), v.F...)}
		i := g.r.Intn(len(o.F))
		o.F[i] = g.mutate(o.F[i])
		return o
	case kMaybe:
		if v.J == nil {
			return vJust(g.value(v.T.El))
		}
		if g.r.Intn(2) == 0 {
			return vNothing(v.T.El)
		}
		return &MV{T: v.T, J: g.mutate(v.J)}
	}
	return v
}

// ---------------------------------------------------------------------------

func runC18(c *Ctx) {
	muteStdout(func() { runC18Muted(c) }) // `union` prints (that is C13's finding)
}

func runC18Muted(c *Ctx) {
	r := c.R
	st := &c18state{c: c, backends: []string{"vm", "closure"}, progs: c18Progs(), cache: map[string]yae.Callable{}}
	nRandom := 300
	if c.Thorough {
		st.backends = backends
		nRandom = 4000
	}
	r.Contract = "for two values x, y of equal type whose numeric parts are identical or more than 1e-9 apart and finite, with same := the reference sameness (numbers identical, strings identical, same instant, lists elementwise, maps same entries, objects by field name, optionals both absent or same payload): val.Equals(x,y) = same; `[x] == [y]`, `x == y`, `[x] != [y]` agree; x.String() = y.String() iff same; for primitives x.Key() = y.Key() iff same, `isset([x:1], y)`, `get([x:1], y, 0)`, `len([x:1, y:2])`, `isset(mx, y)`, `get(mx, y, 0)` select the same entry iff same; `len(union/intersect/diff([x],[y]))` count one element iff same; equality symmetric and reflexive (separately built copies); a value containing the same component twice behaves like one containing two equal copies"
	r.Space = "pools: 22 numbers (0, -0, 1, fractions, 2^53-1, 2^53, 2^53+2, 2^63, 2^63+2048, -2^63, -2^63-2048, 1e19, 2^64, 1e300, 2e300, -1e300, MaxFloat64), 17 strings (escapes, control, non-ASCII, combining, invalid UTF-8, look-alikes of list syntax), 2 bools, 9 times (one instant in UTC / +08:00 / named +08:00 / -05:00, +1s, +1ns, now with and without monotonic reading), 15 groups of composites (lists, maps with every insertion order, objects with every field order incl. 3 fields, nested combinations, optionals of numbers and of objects in both declaration orders, objects with optional fields); ALL ordered pairs inside each group; each pair as raw values (val factories), as host data (Go struct converted by conv) and as literals evaluated by the engine where a literal exists; programs on vm and closure (thorough: also interp); plus random values of depth <= 3 over the same leaf pools, each paired with a randomly re-declared copy, a one-leaf mutation and an independent value"
	r.Rule = "distinct = distinct (form, x, y) with construction order; non-trivial = x and y are different pool elements, or composite"
	r.Exhaustive = true

	groups := [][]*MV{c18Nums(), c18Strs(), c18Bools(), c18Times()}
	groups = append(groups, c18Composites()...)
	nGroupPairs := 0
	for _, g := range groups {
		for i, x := range g {
			for j, y := range g {
				if !tyEq(x.T, y.T) {
					panic("c18: group with unequal types: " + x.T.String() + " / " + y.T.String())
				}
				nGroupPairs++
				if (i*31+j)%97 == 5 {
					c.R.Sample(fmt.Sprintf("x = %s : %s; y = %s : %s", x, x.T, y, y.T))
				}
				st.pair(x, y, i == j)
			}
		}
	}
	// shared sub-values
	for _, g := range c18Composites() {
		z := g[1]
		if z.T.K == kMaybe {
			continue
		}
		st.shared(z)
	}
	// random part
	gen := &c18gen{r: rand.New(rand.NewSource(c.Seed)), nums: c18Nums(), strs: c18Strs(), times: c18Times()[:7]}
	for i := 0; i < nRandom; i++ {
		t := gen.typ(1+gen.r.Intn(3), true)
		x := gen.value(t)
		st.pair(x, gen.rebuild(x), false)
		st.pair(x, gen.mutate(x), false)
		st.pair(gen.value(t), x, false)
	}
	r.Bound = fmt.Sprintf("%d ordered pairs from the pools (exhaustive inside each group) in up to 3 forms, 15 shared-subvalue inputs, %d random triples (seed %d); %d (pair, form) cases in total", nGroupPairs, nRandom, c.Seed, st.pairs)
	r.Notes = append(r.Notes,
		"one failure key per input class: the class is decided by what distinguishes x from y (integral numbers beyond int64, one instant in two representations, declaration order inside an optional's type, field order, insertion order, else plain-<kind>); Expected/Got list every notion that disagrees",
		"stdout is redirected to /dev/null during this property (`union` prints its result, reported under C13)",
		"map literals with duplicate keys are never used (which duplicate wins is C03's subject)",
	)
	_ = sort.Strings
	_ = utf8.ValidString
}
